#!/bin/sh
# Offline build of the framework from files on disk: Lean library + driver executable + Go harness.
set -e
cd "$(dirname "$0")"
export GOFLAGS=-mod=mod GOPROXY=off GOSUMDB=off GOTOOLCHAIN=local
REPO="${VERIF_REPO:-/repo}"
mkdir -p build evidence replays
# Lean: model/spec/driver (core only), proof modules (single Mathlib modules), driver executable
(cd lean && lake build GoNeat GoNeat.Props gndriver)
# Go: harness (+ translator when present) against the repository's working tree, hooks enabled
sed "s#@REPO@#$REPO#" harness/go.mod.in > harness/go.mod
cp "$REPO/go.sum" harness/go.sum
(cd harness && go build -tags verif -o ../build/gnharness ./cmd/gnharness)
if [ -d harness/cmd/gntranslate ]; then (cd harness && go build -o ../build/gntranslate ./cmd/gntranslate); fi
echo setup-ok
