package probe

// Replay of the two C13 findings on MODULAR networks against the real goNEAT code (public API only).
// Run:  mkdir /tmp/r && cd /tmp/r && cp <this file> replay_test.go &&
//       sed 's#@REPO@#/repo#' /verif/harness/go.mod.in | sed 's/module verifharness/module probe/' > go.mod &&
//       cp /repo/go.sum . && GOFLAGS=-mod=mod GOPROXY=off go test ./...
// Both tests FAILED before the repairs 842abdd (Network.Flush) and 1a387d5 (FastModularNetworkSolver.Flush) and PASS now.

import (
	"testing"

	neatmath "github.com/yaricom/goNEAT/v4/neat/math"
	"github.com/yaricom/goNEAT/v4/neat/network"
)

// input 1 -> module 4 (multiply) -> hidden 2 (linked with ConnectFrom: full duplex) -> output 3
func buildChain() *network.Network {
	in := network.NewNNode(1, network.InputNeuron)
	h := network.NewNNode(2, network.HiddenNeuron)
	o := network.NewNNode(3, network.OutputNeuron)
	c := network.NewNNode(4, network.HiddenNeuron)
	h.ActivationType = neatmath.LinearActivation
	o.ActivationType = neatmath.LinearActivation
	c.ActivationType = neatmath.MultiplyModuleActivation
	c.AddIncoming(in, 1.0)
	h.ConnectFrom(c, 1.0) // c.Outgoing AND h.Incoming
	o.ConnectFrom(h, 1.0)
	return network.NewModularNetwork([]*network.NNode{in}, []*network.NNode{o}, []*network.NNode{in, h, o}, []*network.NNode{c}, 1)
}

func evalChain(t *testing.T, n *network.Network) float64 {
	if err := n.LoadSensors([]float64{2}); err != nil {
		t.Fatal(err)
	}
	if res, err := n.ActivateSteps(5); err != nil || !res {
		t.Fatalf("activate: %v %v", res, err)
	}
	return n.ReadOutputs()[0]
}

// Network.Flush iterates allNodes only: the control node keeps isActive=true, which the first sweep of the next
// ActivateSteps reads through the hidden neuron's Incoming link.
func TestControlNodeStateSurvivesFlush(t *testing.T) {
	a := buildChain()
	first := evalChain(t, a)
	if ok, err := a.Flush(); !ok || err != nil {
		t.Fatalf("flush: %v %v", ok, err)
	}
	second := evalChain(t, a)
	fresh := evalChain(t, buildChain())
	t.Logf("first=%v afterFlush=%v fresh=%v", first, second, fresh)
	if second != fresh {
		t.Errorf("flushed modular network differs from a fresh one: %v vs %v", second, fresh)
	}
}

// bias 1, input 2, hidden 3 <- input, output 4; module A (first): bias -> output; module B: hidden -> bias.
func buildRelay(t *testing.T) network.Solver {
	b := network.NewNNode(1, network.BiasNeuron)
	in := network.NewNNode(2, network.InputNeuron)
	h := network.NewNNode(3, network.HiddenNeuron)
	o := network.NewNNode(4, network.OutputNeuron)
	h.ActivationType = neatmath.LinearActivation
	o.ActivationType = neatmath.LinearActivation
	h.ConnectFrom(in, 1.0)
	ma := network.NewNNode(8, network.HiddenNeuron)
	ma.ActivationType = neatmath.MultiplyModuleActivation
	ma.AddIncoming(b, 1.0)
	ma.AddOutgoing(o, 1.0)
	mb := network.NewNNode(9, network.HiddenNeuron)
	mb.ActivationType = neatmath.MultiplyModuleActivation
	mb.AddIncoming(h, 1.0)
	mb.AddOutgoing(b, 1.0)
	n := network.NewModularNetwork([]*network.NNode{b, in}, []*network.NNode{o}, []*network.NNode{b, in, h, o},
		[]*network.NNode{ma, mb}, 1)
	s, err := n.FastNetworkSolver()
	if err != nil {
		t.Fatal(err)
	}
	return s
}

func evalRelay(t *testing.T, s network.Solver) float64 {
	if err := s.LoadSensors([]float64{7}); err != nil {
		t.Fatal(err)
	}
	if _, err := s.ForwardSteps(1); err != nil {
		t.Fatal(err)
	}
	return s.ReadOutputs()[0]
}

// FastModularNetworkSolver.Flush zeroes neuronSignalsBeingProcessed only from biasNeuronCount on: the cell of the
// bias neuron, written by module B and read by module A, survives.
func TestFastBiasCellSurvivesFlush(t *testing.T) {
	a := buildRelay(t)
	first := evalRelay(t, a)
	if _, err := a.ForwardSteps(1); err != nil {
		t.Fatal(err)
	}
	if ok, err := a.Flush(); !ok || err != nil {
		t.Fatalf("flush: %v %v", ok, err)
	}
	second := evalRelay(t, a)
	fresh := evalRelay(t, buildRelay(t))
	t.Logf("first=%v afterFlush=%v fresh=%v", first, second, fresh)
	if second != fresh {
		t.Errorf("flushed fast solver differs from a fresh one: %v vs %v", second, fresh)
	}
}
