structure G where
  inn : Int
  link : Nat × Nat × Bool
deriving DecidableEq, Repr

def conflicts (acc : List G) (g : G) : Bool := acc.any (fun a => a.link == g.link)
def add (acc : List G) (g : G) : List G := if conflicts acc g then acc else acc ++ [g]
def pick : List Bool → Bool × List Bool
  | [] => (false, [])
  | c :: cs => (c, cs)

/-- merge walk of mateMultipoint; `b` = first parent is the fitter one -/
def walk (b : Bool) : List G → List G → List Bool → List G → List G
  | [], [], _, acc => acc
  | [], y :: ys, cs, acc => walk b [] ys cs (if b then acc else add acc y)
  | x :: xs, [], cs, acc => walk b xs [] cs (if b then add acc x else acc)
  | x :: xs, y :: ys, cs, acc =>
    if x.inn = y.inn then
      walk b xs ys (pick cs).2 (add acc (if (pick cs).1 then x else y))
    else if x.inn < y.inn then
      walk b xs (y :: ys) cs (if b then add acc x else acc)
    else
      walk b (x :: xs) ys cs (if b then acc else add acc y)
termination_by l1 l2 => l1.length + l2.length

theorem add_fresh (acc : List G) (g : G) (h : ∀ a ∈ acc, a.link ≠ g.link) : add acc g = acc ++ [g] := by
  unfold add conflicts
  have : acc.any (fun a => a.link == g.link) = false := by
    simp only [List.any_eq_false, beq_iff_eq]
    intro a ha; exact h a ha
  simp [this]

def Consistent (l1 l2 : List G) : Prop := ∀ x ∈ l1, ∀ y ∈ l2, x.inn = y.inn → x.link = y.link
def DistinctLinks (l : List G) : Prop := l.Pairwise (fun a b => a.link ≠ b.link)

theorem walk_true (b : Bool) (hb : b = true) (l1 l2 : List G) (cs : List Bool) (acc : List G)
    (hd : DistinctLinks l1) (hc : Consistent l1 l2)
    (hacc : ∀ a ∈ acc, ∀ x ∈ l1, a.link ≠ x.link) :
    (walk b l1 l2 cs acc).map (·.inn) = acc.map (·.inn) ++ l1.map (·.inn) := by
  subst hb
  fun_induction walk true l1 l2 cs acc with
  | case1 => simp
  | case2 y ys cs acc ih =>
    have ih' := ih; clear ih
    simp only [↓reduceIte, ↓reduceDIte, if_true, dite_true] at ih' ⊢
    exact ih' hd (by intro x hx; cases hx) hacc
  | case3 x xs cs acc ih =>
    have ih' := ih; clear ih
    simp only [↓reduceIte, ↓reduceDIte, if_true, dite_true] at ih' ⊢
    have hfresh : ∀ a ∈ acc, a.link ≠ x.link := fun a ha => hacc a ha x (by simp)
    have hd' : DistinctLinks xs := (List.pairwise_cons.mp hd).2
    have hx : ∀ x' ∈ xs, x.link ≠ x'.link := (List.pairwise_cons.mp hd).1
    rw [add_fresh acc x hfresh] at ih' ⊢
    rw [ih' hd' (by intro a ha b hb; cases hb) ?_]
    · simp
    · intro a ha x' hx'
      rcases List.mem_append.mp ha with h | h
      · exact hacc a h x' (by simp [hx'])
      · simp at h; subst h; exact hx x' hx'
  | case4 x xs y ys cs acc heq ih =>
    have ih' := ih; clear ih
    have hfresh : ∀ a ∈ acc, a.link ≠ x.link := fun a ha => hacc a ha x (by simp)
    have hxy : x.link = y.link := hc x (by simp) y (by simp) heq
    have hd' : DistinctLinks xs := (List.pairwise_cons.mp hd).2
    have hx : ∀ x' ∈ xs, x.link ≠ x'.link := (List.pairwise_cons.mp hd).1
    have hc' : Consistent xs ys := fun a ha b hb => hc a (by simp [ha]) b (by simp [hb])
    simp only [dite_eq_ite] at ih'
    generalize hch : (if (pick cs).1 = true then x else y) = chosen at ih' ⊢
    have hchosen : chosen.link = x.link := by subst hch; split <;> simp [hxy]
    have hinn : chosen.inn = x.inn := by subst hch; split <;> simp [heq]
    rw [add_fresh acc chosen (by rw [hchosen]; exact hfresh)] at ih' ⊢
    rw [ih' hd' hc' ?_]
    · simp [hinn]
    · intro a ha x' hx'
      rcases List.mem_append.mp ha with h | h
      · exact hacc a h x' (by simp [hx'])
      · simp at h; subst h; rw [hchosen]; exact hx x' hx'
  | case5 x xs y ys cs acc hne hlt ih =>
    have ih' := ih; clear ih
    simp only [↓reduceIte, ↓reduceDIte, if_true, dite_true] at ih' ⊢
    have hfresh : ∀ a ∈ acc, a.link ≠ x.link := fun a ha => hacc a ha x (by simp)
    have hd' : DistinctLinks xs := (List.pairwise_cons.mp hd).2
    have hx : ∀ x' ∈ xs, x.link ≠ x'.link := (List.pairwise_cons.mp hd).1
    have hc' : Consistent xs (y :: ys) := fun a ha b hb => hc a (by simp [ha]) b hb
    rw [add_fresh acc x hfresh] at ih' ⊢
    rw [ih' hd' hc' ?_]
    · simp
    · intro a ha x' hx'
      rcases List.mem_append.mp ha with h | h
      · exact hacc a h x' (by simp [hx'])
      · simp at h; subst h; exact hx x' hx'
  | case6 x xs y ys cs acc hne hnlt ih =>
    have ih' := ih; clear ih
    simp only [↓reduceIte, ↓reduceDIte, if_true, dite_true] at ih' ⊢
    have hc' : Consistent (x :: xs) ys := fun a ha b hb => hc a ha b (by simp [hb])
    exact ih' hd hc' hacc

theorem multipoint_inns_eq_fitter_true (l1 l2 : List G) (cs : List Bool)
    (hd : DistinctLinks l1) (hc : Consistent l1 l2) :
    (walk true l1 l2 cs []).map (·.inn) = l1.map (·.inn) := by
  simpa using walk_true true rfl l1 l2 cs [] hd hc (by simp)

#print axioms multipoint_inns_eq_fitter_true
example : (walk true [⟨1,(1,3,false)⟩,⟨2,(2,3,false)⟩,⟨4,(1,4,false)⟩] [⟨1,(1,3,false)⟩,⟨3,(2,4,false)⟩] [true] []).map (·.inn) = [1,2,4] := by simp [walk, add, conflicts, pick]
