// access.go: C16 translator pass.  Walks every function body reachable from the goroutine body of
// (*ParallelPopulationEpochExecutor).reproduce and emits lean/GoNeat/Gen/Access.lean:
//
//   accesses       every read/write of a field of genetics.Population, of a package-level variable, or of a
//                  variable captured by the goroutine literal, tagged atomic / underMutex [names] / plain
//   fieldWrites    every write to a field / element / pointee of any other object whose receiver is not provably
//                  a freshly allocated local object
//   fieldReads     every read of a field that some reachable function writes (same labels as fieldWrites)
//   externalCalls  every function outside the repository that is called (incl. interface methods implemented outside)
//   unrecognised   constructs the extractor does not understand (fail closed: the obligation requires [])
//
// The lock analysis is structural: `x.Lock()` adds the mutex (named by the field or variable that holds it) to
// the held set for the rest of the enclosing block, `x.Unlock()` removes it, `defer x.Unlock()` keeps it to the
// end of the function; held sets flow into callees (context-sensitive on the held set).
package main

import (
	"fmt"
	"go/ast"
	"go/token"
	"go/types"
	"sort"
	"strings"
)

type accRow struct {
	Fn, Loc, Kind, Prot, Pos string
	Held                     []string
}

type fieldRow struct {
	Fn, Label, Kind, Origin, Pos string
}

type accPass struct {
	p        *Prog
	rows     map[string]accRow
	writes   map[string]fieldRow
	reads    map[string]fieldRow
	ext      map[string]bool
	unrec    map[string]bool
	done     map[string]bool
	work     []accWork
	reached  map[string]bool
	rootLit  *ast.FuncLit
	rootEncl *ast.FuncDecl
	freshMemo map[*FNode]bool
}

type accWork struct {
	n    *FNode
	held []string
}

type accFn struct {
	a    *accPass
	n    *FNode
	body *ast.BlockStmt
	// go statements whose literal is a goroutine root (walked separately): only their arguments are evaluated here
	rootGo map[*ast.GoStmt]bool
}

func heldKey(h []string) string { return strings.Join(h, ",") }

func addHeld(h []string, m string) []string {
	for _, x := range h {
		if x == m {
			return h
		}
	}
	r := append(append([]string{}, h...), m)
	sort.Strings(r)
	return r
}

func delHeld(h []string, m string) []string {
	r := []string{}
	for _, x := range h {
		if x != m {
			r = append(r, x)
		}
	}
	return r
}

func interHeld(a, b []string) []string {
	r := []string{}
	for _, x := range a {
		for _, y := range b {
			if x == y {
				r = append(r, x)
			}
		}
	}
	return r
}

func (a *accPass) unrecognised(n ast.Node, fn *FNode, what string) {
	a.unrec[fmt.Sprintf("%s: %s (%s)", fn.Name, what, a.p.pos(n))] = true
}

// one row per (function, label, kind, origin): the first position stands for all
func (a *accPass) addWrite(r fieldRow) {
	k := r.Fn + "|" + r.Label + "|" + r.Kind + "|" + r.Origin
	if old, ok := a.writes[k]; ok && old.Pos <= r.Pos {
		return
	}
	a.writes[k] = r
}

func (a *accPass) enqueue(n *FNode, held []string) {
	k := n.Name + "|" + heldKey(held)
	if a.done[k] {
		return
	}
	a.done[k] = true
	a.reached[n.Name] = true
	a.work = append(a.work, accWork{n, held})
}

func (a *accPass) access(fn *FNode, n ast.Node, loc, kind string, held []string, atomic bool) {
	prot := "plain"
	if atomic {
		prot = "atomic"
	} else if len(held) > 0 {
		prot = "underMutex"
	}
	r := accRow{Fn: fn.Name, Loc: loc, Kind: kind, Prot: prot, Pos: a.p.pos(n), Held: append([]string{}, held...)}
	if atomic {
		r.Held = nil
	}
	a.rows[r.Fn+"|"+r.Loc+"|"+r.Kind+"|"+r.Prot+"|"+heldKey(r.Held)+"|"+r.Pos] = r
}

// fieldLabel: pkg.Type.field of a field selection (the struct that declares the field, through embedding)
func (a *accPass) fieldLabel(sel *types.Selection) (label string, isPopulation bool) {
	t := sel.Recv()
	idx := sel.Index()
	var owner *types.Named
	for k, i := range idx {
		if n := derefNamed(t); n != nil {
			owner = n
		}
		st, ok := t.Underlying().(*types.Struct)
		if !ok {
			if pt, isP := t.Underlying().(*types.Pointer); isP {
				st, ok = pt.Elem().Underlying().(*types.Struct)
			}
		}
		if !ok || i >= st.NumFields() {
			break
		}
		f := st.Field(i)
		if k == len(idx)-1 {
			name := "?"
			if owner != nil && owner.Obj() != nil {
				name = owner.Obj().Name()
				if owner.Obj().Pkg() != nil {
					name = owner.Obj().Pkg().Name() + "." + name
				}
			}
			return name + "." + f.Name(), name == "genetics.Population"
		}
		t = f.Type()
	}
	return "?." + sel.Obj().Name(), false
}

func (a *accPass) pkgVarLoc(v *types.Var) string { return v.Pkg().Name() + "." + v.Name() }

// ---- origin of the object a write goes to

func (f *accFn) isCaptured(v *types.Var) bool {
	if f.n.Lit == nil || f.n.Encl == nil || v == nil || v.IsField() {
		return false
	}
	if v.Pkg() != nil && v.Parent() == v.Pkg().Scope() {
		return false
	}
	return v.Pos() >= f.n.Encl.Pos() && v.Pos() < f.n.Encl.End() && !(v.Pos() >= f.n.Lit.Pos() && v.Pos() < f.n.Lit.End())
}

func isFreshExpr(e ast.Expr) bool {
	e = ast.Unparen(e)
	switch x := e.(type) {
	case *ast.CompositeLit:
		return true
	case *ast.UnaryExpr:
		if x.Op == token.AND {
			_, ok := ast.Unparen(x.X).(*ast.CompositeLit)
			return ok
		}
	case *ast.CallExpr:
		if id, ok := ast.Unparen(x.Fun).(*ast.Ident); ok && (id.Name == "new" || id.Name == "make") {
			return true
		}
	case *ast.Ident:
		return x.Name == "nil"
	}
	return false
}

// returnsFresh: every return statement of the repository function hands out (as first result) a composite literal,
// new/make, a fresh local, or the result of another such function - i.e. the function is a constructor
func (a *accPass) returnsFresh(n *FNode) bool {
	if n == nil || n.Decl == nil {
		return false
	}
	if v, ok := a.freshMemo[n]; ok {
		return v
	}
	a.freshMemo[n] = false // cycles: not fresh
	f := &accFn{a: a, n: n, body: n.Body}
	ok, any := true, false
	var walk func(x ast.Node) bool
	walk = func(x ast.Node) bool {
		switch s := x.(type) {
		case *ast.FuncLit:
			return false
		case *ast.ReturnStmt:
			any = true
			if len(s.Results) == 0 {
				// named results: the first result variable must be a fresh local
				if n.Decl.Type.Results == nil || len(n.Decl.Type.Results.List) == 0 || len(n.Decl.Type.Results.List[0].Names) == 0 {
					ok = false
					return true
				}
				v, _ := a.p.info.Defs[n.Decl.Type.Results.List[0].Names[0]].(*types.Var)
				if v == nil || f.localOrigin(v) != "fresh" {
					ok = false
				}
				return true
			}
			if !f.freshValue(s.Results[0]) {
				ok = false
			}
		}
		return true
	}
	ast.Inspect(n.Body, walk)
	res := ok && any
	a.freshMemo[n] = res
	return res
}

// freshValue: e evaluates to a freshly allocated object
func (f *accFn) freshValue(e ast.Expr) bool {
	e = ast.Unparen(e)
	if isFreshExpr(e) {
		if id, ok := e.(*ast.Ident); ok && id.Name == "nil" {
			return true
		}
		return true
	}
	switch x := e.(type) {
	case *ast.Ident:
		if v, ok := f.a.p.info.Uses[x].(*types.Var); ok && !v.IsField() && !f.isParam(v) && !f.isCaptured(v) &&
			!(v.Pkg() != nil && v.Parent() == v.Pkg().Scope()) {
			return f.localOrigin(v) == "fresh"
		}
	case *ast.CallExpr:
		res := f.a.p.resolveCall(x, f.body)
		if len(res.Nodes) == 1 && len(res.Ext) == 0 && len(res.Unresolved) == 0 {
			return f.a.returnsFresh(res.Nodes[0])
		}
	}
	return false
}

// localOrigin: how the local variable v gets its values inside body
func (f *accFn) localOrigin(v *types.Var) string {
	info := f.a.p.info
	fresh, other := 0, []string{}
	note := func(rhs ast.Expr, self *types.Var) {
		if rhs == nil {
			fresh++ // `var x T`: zero value
			return
		}
		if isFreshExpr(rhs) {
			fresh++
			return
		}
		if c, ok := ast.Unparen(rhs).(*ast.CallExpr); ok {
			if id, ok := ast.Unparen(c.Fun).(*ast.Ident); ok && id.Name == "append" && len(c.Args) > 0 {
				if a0, ok := ast.Unparen(c.Args[0]).(*ast.Ident); ok && info.Uses[a0] == self {
					fresh++ // x = append(x, ...): same backing store or a new one
					return
				}
			}
			res := f.a.p.resolveCall(c, f.body)
			if len(res.Nodes) == 1 && len(res.Ext) == 0 && len(res.Unresolved) == 0 && f.a.returnsFresh(res.Nodes[0]) {
				fresh++ // result of a constructor
				return
			}
			other = append(other, "call:"+types.ExprString(c.Fun))
			return
		}
		other = append(other, "alias:"+types.ExprString(rhs))
	}
	ast.Inspect(f.body, func(n ast.Node) bool {
		switch s := n.(type) {
		case *ast.AssignStmt:
			for i, l := range s.Lhs {
				id, ok := ast.Unparen(l).(*ast.Ident)
				if !ok {
					continue
				}
				obj := info.Defs[id]
				if obj == nil {
					obj = info.Uses[id]
				}
				if obj != v {
					continue
				}
				if len(s.Rhs) == len(s.Lhs) {
					note(s.Rhs[i], v)
				} else if len(s.Rhs) == 1 {
					if c, ok := ast.Unparen(s.Rhs[0]).(*ast.CallExpr); ok {
						res := f.a.p.resolveCall(c, f.body)
						if i == 0 && len(res.Nodes) == 1 && len(res.Ext) == 0 && len(res.Unresolved) == 0 && f.a.returnsFresh(res.Nodes[0]) {
							fresh++ // first result of a constructor
						} else {
							other = append(other, "call:"+types.ExprString(c.Fun))
						}
					} else {
						other = append(other, "alias:"+types.ExprString(s.Rhs[0]))
					}
				}
			}
		case *ast.ValueSpec:
			for i, nm := range s.Names {
				if info.Defs[nm] == v {
					if i < len(s.Values) {
						note(s.Values[i], v)
					} else if len(s.Values) == 0 {
						note(nil, v)
					} else {
						other = append(other, "call:multi")
					}
				}
			}
		case *ast.RangeStmt:
			for _, kv := range []ast.Expr{s.Key, s.Value} {
				if id, ok := kv.(*ast.Ident); ok && (info.Defs[id] == v || info.Uses[id] == v) {
					other = append(other, "range:"+types.ExprString(s.X))
				}
			}
		}
		return true
	})
	if len(other) == 0 && fresh > 0 {
		return "fresh"
	}
	if len(other) == 0 {
		return "local"
	}
	sort.Strings(other)
	return strings.Join(dedupe(other), ";")
}

func baseLabel(l string) string { return strings.TrimSuffix(strings.TrimPrefix(l, "&"), "[]") }

func dedupe(s []string) []string {
	r := []string{}
	for i, x := range s {
		if i == 0 || x != s[i-1] {
			r = append(r, x)
		}
	}
	return r
}

// origin of the root object of an l-value chain; `direct` = the written slot belongs to the root object itself
func (f *accFn) origin(e ast.Expr) (org string, freshLocal bool) {
	info := f.a.p.info
	depth := 0
	for {
		e = ast.Unparen(e)
		switch x := e.(type) {
		case *ast.SelectorExpr:
			if _, ok := info.Selections[x]; ok {
				e = x.X
				depth++
				continue
			}
			if v := f.a.p.pkgVarOf(x); v != nil {
				return "pkgvar:" + f.a.pkgVarLoc(v), false
			}
			return "expr:" + types.ExprString(x), false
		case *ast.IndexExpr:
			e = x.X
			depth++
			continue
		case *ast.StarExpr:
			e = x.X
			depth++
			continue
		case *ast.SliceExpr:
			e = x.X
			continue
		case *ast.CallExpr:
			return "call:" + types.ExprString(x.Fun), false
		case *ast.Ident:
			obj := info.Uses[x]
			if obj == nil {
				obj = info.Defs[x]
			}
			v, ok := obj.(*types.Var)
			if !ok {
				return "expr:" + x.Name, false
			}
			if v.Pkg() != nil && v.Parent() == v.Pkg().Scope() {
				return "pkgvar:" + f.a.pkgVarLoc(v), false
			}
			if f.isCaptured(v) {
				return "captured:" + v.Name(), false
			}
			if f.isParam(v) {
				return "param:" + v.Name(), false
			}
			lo := f.localOrigin(v)
			if lo == "fresh" && depth <= 1 {
				return "fresh", true
			}
			return "local:" + v.Name() + "<-" + lo + fmt.Sprintf("/%d", depth), false
		default:
			return "expr:" + types.ExprString(e), false
		}
	}
}

func (f *accFn) isParam(v *types.Var) bool {
	var ft *ast.FuncType
	var recv *ast.FieldList
	if f.n.Decl != nil {
		ft = f.n.Decl.Type
		recv = f.n.Decl.Recv
	} else if f.n.Lit != nil {
		ft = f.n.Lit.Type
	}
	check := func(fl *ast.FieldList) bool {
		if fl == nil {
			return false
		}
		for _, fd := range fl.List {
			for _, nm := range fd.Names {
				if f.a.p.info.Defs[nm] == v {
					return true
				}
			}
		}
		return false
	}
	if check(recv) {
		return true
	}
	if ft != nil && check(ft.Params) {
		return true
	}
	// parameters of nested literals
	found := false
	ast.Inspect(f.body, func(n ast.Node) bool {
		if l, ok := n.(*ast.FuncLit); ok {
			if check(l.Type.Params) {
				found = true
			}
		}
		return !found
	})
	return found
}

// ---- mutexes and atomics

func isSyncMutexMethod(fn *types.Func) (lock, unlock bool) {
	if fn == nil || fn.Pkg() == nil || fn.Pkg().Path() != "sync" {
		return
	}
	sig := fn.Type().(*types.Signature)
	if sig.Recv() == nil {
		return
	}
	nt := derefNamed(sig.Recv().Type())
	if nt == nil || (nt.Obj().Name() != "Mutex" && nt.Obj().Name() != "RWMutex") {
		return
	}
	switch fn.Name() {
	case "Lock":
		return true, false
	case "Unlock":
		return false, true
	}
	return
}

func (f *accFn) mutexName(e ast.Expr) string {
	info := f.a.p.info
	e = ast.Unparen(e)
	switch x := e.(type) {
	case *ast.SelectorExpr:
		if sel, ok := info.Selections[x]; ok && sel.Kind() == types.FieldVal {
			l, _ := f.a.fieldLabel(sel)
			return l
		}
		if v := f.a.p.pkgVarOf(x); v != nil {
			return f.a.pkgVarLoc(v)
		}
	case *ast.Ident:
		if v := f.a.p.pkgVarOf(x); v != nil {
			return f.a.pkgVarLoc(v)
		}
		return "local:" + x.Name
	case *ast.UnaryExpr:
		if x.Op == token.AND {
			return f.mutexName(x.X)
		}
	}
	return "expr:" + types.ExprString(e)
}

// mutexCall: is `call` x.Lock() / x.Unlock() on a sync mutex
func (f *accFn) mutexCall(call *ast.CallExpr) (x ast.Expr, lock, unlock bool) {
	sel, ok := ast.Unparen(call.Fun).(*ast.SelectorExpr)
	if !ok {
		return nil, false, false
	}
	s, ok := f.a.p.info.Selections[sel]
	if !ok || s.Kind() != types.MethodVal {
		return nil, false, false
	}
	fn, _ := s.Obj().(*types.Func)
	l, u := isSyncMutexMethod(fn)
	return sel.X, l, u
}

// ---- the walk

func (f *accFn) stmts(list []ast.Stmt, held []string) []string {
	for _, s := range list {
		held = f.stmt(s, held)
	}
	return held
}

func (f *accFn) nested(b *ast.BlockStmt, held []string) []string {
	if b == nil {
		return held
	}
	out := f.stmts(b.List, held)
	return interHeld(held, out)
}

func (f *accFn) stmt(s ast.Stmt, held []string) []string {
	switch s := s.(type) {
	case nil:
		return held
	case *ast.ExprStmt:
		if call, ok := ast.Unparen(s.X).(*ast.CallExpr); ok {
			if x, lock, unlock := f.mutexCall(call); lock || unlock {
				f.expr(x, held) // the mutex (pointer) field itself is read
				if lock {
					return addHeld(held, f.mutexName(x))
				}
				return delHeld(held, f.mutexName(x))
			}
		}
		f.expr(s.X, held)
	case *ast.DeferStmt:
		if x, lock, unlock := f.mutexCall(s.Call); lock || unlock {
			f.expr(x, held)
			if lock {
				f.a.unrecognised(s, f.n, "deferred Lock")
			}
			return held // deferred Unlock: held to the end of the function
		}
		f.call(s.Call, []string{}) // runs at function exit: assume no lock is held any more
	case *ast.GoStmt:
		if f.rootGo[s] {
			for _, arg := range s.Call.Args {
				f.expr(arg, held) // evaluated by the forking goroutine
			}
			return held
		}
		f.a.unrecognised(s, f.n, "nested go statement")
		f.call(s.Call, []string{})
	case *ast.AssignStmt:
		for _, r := range s.Rhs {
			f.expr(r, held)
		}
		for _, l := range s.Lhs {
			f.lhs(l, held, s.Tok != token.ASSIGN && s.Tok != token.DEFINE)
		}
	case *ast.IncDecStmt:
		f.lhs(s.X, held, true)
	case *ast.BlockStmt:
		return f.nested(s, held)
	case *ast.IfStmt:
		held = f.stmt(s.Init, held)
		f.expr(s.Cond, held)
		h1 := f.nested(s.Body, held)
		h2 := held
		if s.Else != nil {
			h2 = interHeld(held, f.stmt(s.Else, held))
		}
		return interHeld(h1, h2)
	case *ast.ForStmt:
		held = f.stmt(s.Init, held)
		if s.Cond != nil {
			f.expr(s.Cond, held)
		}
		h := f.nested(s.Body, held)
		h = interHeld(h, f.stmt(s.Post, h))
		if len(h) != len(held) { // something is released inside: later iterations run with less
			if s.Cond != nil {
				f.expr(s.Cond, h)
			}
			f.nested(s.Body, h)
		}
		return h
	case *ast.RangeStmt:
		f.expr(s.X, held)
		if s.Tok == token.ASSIGN {
			if s.Key != nil {
				f.lhs(s.Key, held, false)
			}
			if s.Value != nil {
				f.lhs(s.Value, held, false)
			}
		}
		h := f.nested(s.Body, held)
		if len(h) != len(held) {
			f.nested(s.Body, h)
		}
		return h
	case *ast.SwitchStmt:
		held = f.stmt(s.Init, held)
		if s.Tag != nil {
			f.expr(s.Tag, held)
		}
		out := held
		for _, c := range s.Body.List {
			cc := c.(*ast.CaseClause)
			for _, e := range cc.List {
				f.expr(e, held)
			}
			out = interHeld(out, f.stmts(cc.Body, held))
		}
		return out
	case *ast.TypeSwitchStmt:
		held = f.stmt(s.Init, held)
		held = f.stmt(s.Assign, held)
		out := held
		for _, c := range s.Body.List {
			cc := c.(*ast.CaseClause)
			out = interHeld(out, f.stmts(cc.Body, held))
		}
		return out
	case *ast.SelectStmt:
		out := held
		for _, c := range s.Body.List {
			cc := c.(*ast.CommClause)
			h := f.stmt(cc.Comm, held)
			out = interHeld(out, f.stmts(cc.Body, h))
		}
		return out
	case *ast.SendStmt:
		f.expr(s.Chan, held)
		f.expr(s.Value, held)
	case *ast.ReturnStmt:
		for _, r := range s.Results {
			f.expr(r, held)
		}
	case *ast.DeclStmt:
		if gd, ok := s.Decl.(*ast.GenDecl); ok {
			for _, sp := range gd.Specs {
				if vs, ok := sp.(*ast.ValueSpec); ok {
					for _, v := range vs.Values {
						f.expr(v, held)
					}
				}
			}
		}
	case *ast.LabeledStmt:
		return f.stmt(s.Stmt, held)
	case *ast.BranchStmt, *ast.EmptyStmt:
	default:
		f.a.unrecognised(s, f.n, fmt.Sprintf("statement %T", s))
	}
	return held
}

// lhs: e is assigned (compound: also read)
func (f *accFn) lhs(e ast.Expr, held []string, compound bool) {
	a := f.a
	info := a.p.info
	e = ast.Unparen(e)
	switch x := e.(type) {
	case *ast.Ident:
		if x.Name == "_" {
			return
		}
		obj := info.Defs[x]
		if obj == nil {
			obj = info.Uses[x]
		}
		v, ok := obj.(*types.Var)
		if !ok {
			return
		}
		if v.Pkg() != nil && v.Parent() == v.Pkg().Scope() {
			if compound {
				a.access(f.n, x, a.pkgVarLoc(v), "rd", held, false)
			}
			a.access(f.n, x, a.pkgVarLoc(v), "wr", held, false)
		} else if f.isCaptured(v) {
			if compound {
				a.access(f.n, x, "captured:"+v.Name(), "rd", held, false)
			}
			a.access(f.n, x, "captured:"+v.Name(), "wr", held, false)
		}
	case *ast.SelectorExpr:
		if sel, ok := info.Selections[x]; ok && sel.Kind() == types.FieldVal {
			f.expr(x.X, held)
			label, isPop := a.fieldLabel(sel)
			if isPop {
				if compound {
					a.access(f.n, x, label, "rd", held, false)
				}
				a.access(f.n, x, label, "wr", held, false)
			} else {
				f.fieldWrite(x, label, x)
			}
			return
		}
		if v := a.p.pkgVarOf(x); v != nil {
			if compound {
				a.access(f.n, x, a.pkgVarLoc(v), "rd", held, false)
			}
			a.access(f.n, x, a.pkgVarLoc(v), "wr", held, false)
			return
		}
		a.unrecognised(x, f.n, "assignment to "+types.ExprString(x))
	case *ast.IndexExpr:
		f.expr(x.Index, held)
		f.elemWrite(x, x.X, held)
	case *ast.StarExpr:
		f.expr(x.X, held)
		f.fieldWrite(x, "*"+a.p.typeStr(info.TypeOf(x.X)), x)
	default:
		a.unrecognised(e, f.n, "assignment target "+types.ExprString(e))
	}
}

// elemWrite: an element of container `c` is written (c[i] = v, copy(c, ..), delete(c, k))
func (f *accFn) elemWrite(at ast.Node, c ast.Expr, held []string) {
	a := f.a
	info := a.p.info
	c = ast.Unparen(c)
	if sl, ok := c.(*ast.SliceExpr); ok {
		c = ast.Unparen(sl.X)
	}
	switch x := c.(type) {
	case *ast.SelectorExpr:
		if sel, ok := info.Selections[x]; ok && sel.Kind() == types.FieldVal {
			f.expr(x.X, held)
			label, isPop := a.fieldLabel(sel)
			if isPop {
				a.access(f.n, at, label, "rd", held, false)
				a.access(f.n, at, label, "wr", held, false)
			} else {
				f.fieldWrite(at, label+"[]", x)
			}
			return
		}
		if v := a.p.pkgVarOf(x); v != nil {
			a.access(f.n, at, a.pkgVarLoc(v), "rd", held, false)
			a.access(f.n, at, a.pkgVarLoc(v), "wr", held, false)
			return
		}
	case *ast.Ident:
		if v := a.p.pkgVarOf(x); v != nil {
			a.access(f.n, at, a.pkgVarLoc(v), "rd", held, false)
			a.access(f.n, at, a.pkgVarLoc(v), "wr", held, false)
			return
		}
		if v, ok := info.Uses[x].(*types.Var); ok && f.isCaptured(v) {
			a.access(f.n, at, "captured:"+v.Name(), "rd", held, false)
			a.access(f.n, at, "captured:"+v.Name(), "wr", held, false)
			return
		}
	}
	f.expr(c, held)
	f.fieldWrite(at, "elem:"+a.p.typeStr(info.TypeOf(c)), c)
}

func (f *accFn) fieldWrite(at ast.Node, label string, chain ast.Expr) {
	org, fresh := f.origin(chain)
	if fresh {
		return
	}
	r := fieldRow{Fn: f.n.Name, Label: label, Kind: "wr", Origin: org, Pos: f.a.p.pos(at)}
	f.a.addWrite(r)
}

func (f *accFn) expr(e ast.Expr, held []string) {
	a := f.a
	info := a.p.info
	switch x := e.(type) {
	case nil:
	case *ast.Ident:
		obj := info.Uses[x]
		if v, ok := obj.(*types.Var); ok {
			if !v.IsField() && v.Pkg() != nil && v.Parent() == v.Pkg().Scope() {
				a.access(f.n, x, a.pkgVarLoc(v), "rd", held, false)
			} else if f.isCaptured(v) {
				a.access(f.n, x, "captured:"+v.Name(), "rd", held, false)
			}
		}
		if fn, ok := obj.(*types.Func); ok {
			if nd := a.p.nodeOfFunc(fn); nd != nil {
				a.enqueue(nd, []string{}) // function used as a value: may be called later
			}
		}
	case *ast.SelectorExpr:
		if sel, ok := info.Selections[x]; ok {
			f.expr(x.X, held)
			switch sel.Kind() {
			case types.FieldVal:
				label, isPop := a.fieldLabel(sel)
				if isPop {
					a.access(f.n, x, label, "rd", held, false)
				} else {
					r := fieldRow{Fn: f.n.Name, Label: label, Kind: "rd", Pos: a.p.pos(x)}
					if _, have := a.reads[r.Fn+"|"+r.Label]; !have {
						a.reads[r.Fn+"|"+r.Label] = r // one row per (function, label)
					}
				}
			case types.MethodVal, types.MethodExpr:
				if fn, ok := sel.Obj().(*types.Func); ok {
					if types.IsInterface(sel.Recv()) {
						for _, nd := range a.p.implementations(sel.Recv(), fn.Name()) {
							a.enqueue(nd, []string{})
						}
					} else if nd := a.p.nodeOfFunc(fn); nd != nil {
						a.enqueue(nd, []string{})
					}
				}
			}
			return
		}
		if v := a.p.pkgVarOf(x); v != nil {
			a.access(f.n, x, a.pkgVarLoc(v), "rd", held, false)
			return
		}
		if fn, ok := info.Uses[x.Sel].(*types.Func); ok {
			if nd := a.p.nodeOfFunc(fn); nd != nil {
				a.enqueue(nd, []string{})
			}
		}
	case *ast.CallExpr:
		f.call(x, held)
	case *ast.UnaryExpr:
		if x.Op == token.AND {
			inner := ast.Unparen(x.X)
			switch y := inner.(type) {
			case *ast.CompositeLit:
				f.expr(y, held)
				return
			case *ast.SelectorExpr:
				if sel, ok := info.Selections[y]; ok && sel.Kind() == types.FieldVal {
					f.expr(y.X, held)
					label, isPop := a.fieldLabel(sel)
					if isPop {
						// the address of shared state escapes: anything may happen through the pointer
						a.access(f.n, x, label, "wr", held, false)
						a.unrecognised(x, f.n, "address of "+label+" taken outside sync/atomic")
					} else {
						f.fieldWrite(x, "&"+label, y)
					}
					return
				}
				if v := a.p.pkgVarOf(y); v != nil {
					a.access(f.n, x, a.pkgVarLoc(v), "wr", held, false)
					a.unrecognised(x, f.n, "address of package variable "+a.pkgVarLoc(v)+" taken")
					return
				}
			case *ast.Ident:
				if v := a.p.pkgVarOf(y); v != nil {
					a.access(f.n, x, a.pkgVarLoc(v), "wr", held, false)
					a.unrecognised(x, f.n, "address of package variable "+a.pkgVarLoc(v)+" taken")
					return
				}
				if v, ok := info.Uses[y].(*types.Var); ok && f.isCaptured(v) {
					a.access(f.n, x, "captured:"+v.Name(), "wr", held, false)
					return
				}
				return // address of a local
			case *ast.IndexExpr:
				f.expr(y.Index, held)
				f.elemWrite(x, y.X, held)
				return
			}
		}
		f.expr(x.X, held)
	case *ast.BinaryExpr:
		f.expr(x.X, held)
		f.expr(x.Y, held)
	case *ast.ParenExpr:
		f.expr(x.X, held)
	case *ast.StarExpr:
		f.expr(x.X, held)
	case *ast.IndexExpr:
		f.expr(x.X, held)
		f.expr(x.Index, held)
	case *ast.IndexListExpr:
		f.expr(x.X, held)
	case *ast.SliceExpr:
		f.expr(x.X, held)
		f.expr(x.Low, held)
		f.expr(x.High, held)
		f.expr(x.Max, held)
	case *ast.TypeAssertExpr:
		f.expr(x.X, held)
	case *ast.CompositeLit:
		for _, el := range x.Elts {
			if kv, ok := el.(*ast.KeyValueExpr); ok {
				if _, isStruct := info.TypeOf(x).Underlying().(*types.Struct); !isStruct {
					f.expr(kv.Key, held)
				}
				f.expr(kv.Value, held)
			} else {
				f.expr(el, held)
			}
		}
	case *ast.KeyValueExpr:
		f.expr(x.Key, held)
		f.expr(x.Value, held)
	case *ast.FuncLit:
		// a closure may run later: assume no lock is held then
		f.stmts(x.Body.List, []string{})
	case *ast.BasicLit, *ast.ArrayType, *ast.MapType, *ast.ChanType, *ast.FuncType, *ast.InterfaceType, *ast.StructType, *ast.Ellipsis:
	default:
		a.unrecognised(e, f.n, fmt.Sprintf("expression %T", e))
	}
}

// atomicTarget: &x.f / &pkgVar as the first argument of a sync/atomic function
func (f *accFn) atomicTarget(call *ast.CallExpr, kind string, held []string) bool {
	a := f.a
	if len(call.Args) == 0 {
		return false
	}
	u, ok := ast.Unparen(call.Args[0]).(*ast.UnaryExpr)
	if !ok || u.Op != token.AND {
		return false
	}
	switch y := ast.Unparen(u.X).(type) {
	case *ast.SelectorExpr:
		if sel, ok := a.p.info.Selections[y]; ok && sel.Kind() == types.FieldVal {
			f.expr(y.X, held)
			label, isPop := a.fieldLabel(sel)
			if isPop {
				a.access(f.n, call, label, kind, held, true)
			} else {
				org, fresh := f.origin(y)
				if !fresh {
					r := fieldRow{Fn: f.n.Name, Label: label, Kind: "atomic", Origin: org, Pos: a.p.pos(call)}
					a.addWrite(r)
				}
			}
			return true
		}
		if v := a.p.pkgVarOf(y); v != nil {
			a.access(f.n, call, a.pkgVarLoc(v), kind, held, true)
			return true
		}
	case *ast.Ident:
		if v := a.p.pkgVarOf(y); v != nil {
			a.access(f.n, call, a.pkgVarLoc(v), kind, held, true)
			return true
		}
		if v, ok := a.p.info.Uses[y].(*types.Var); ok {
			if f.isCaptured(v) {
				a.access(f.n, call, "captured:"+v.Name(), kind, held, true)
			}
			return true
		}
	}
	return false
}

func (f *accFn) call(call *ast.CallExpr, held []string) {
	a := f.a
	info := a.p.info
	res := a.p.resolveCall(call, f.body)
	// receiver / callee expression
	switch fn := ast.Unparen(call.Fun).(type) {
	case *ast.SelectorExpr:
		if _, ok := info.Selections[fn]; ok {
			// method on a sync/atomic typed field (atomic.Int64 ...): the access is atomic
			if s := info.Selections[fn]; s.Kind() == types.MethodVal {
				if m, ok := s.Obj().(*types.Func); ok && m.Pkg() != nil && m.Pkg().Path() == "sync/atomic" {
					kind := "atomic"
					if y, ok := ast.Unparen(fn.X).(*ast.SelectorExpr); ok {
						if sel, ok := info.Selections[y]; ok && sel.Kind() == types.FieldVal {
							f.expr(y.X, held)
							label, isPop := a.fieldLabel(sel)
							if isPop {
								a.access(f.n, call, label, kind, held, true)
							} else if org, fresh := f.origin(y); !fresh {
								r := fieldRow{Fn: f.n.Name, Label: label, Kind: "atomic", Origin: org, Pos: a.p.pos(call)}
								a.addWrite(r)
							}
							for _, arg := range call.Args {
								f.expr(arg, held)
							}
							return
						}
					}
					if v := a.p.pkgVarOf(fn.X); v != nil {
						a.access(f.n, call, a.pkgVarLoc(v), kind, held, true)
						for _, arg := range call.Args {
							f.expr(arg, held)
						}
						return
					}
				}
			}
			f.expr(fn.X, held)
		} else if res.PkgVarRead != nil {
			a.access(f.n, fn, a.pkgVarLoc(res.PkgVarRead), "rd", held, false)
		}
	case *ast.Ident:
		if res.PkgVarRead != nil {
			a.access(f.n, fn, a.pkgVarLoc(res.PkgVarRead), "rd", held, false)
		}
	case *ast.FuncLit:
		f.stmts(fn.Body.List, held)
	default:
		if !res.Conversion {
			f.expr(call.Fun, held)
		}
	}
	// sync/atomic functions
	if res.ExtFn != nil && res.ExtFn.Pkg() != nil && res.ExtFn.Pkg().Path() == "sync/atomic" {
		kind := "atomic"
		if !f.atomicTarget(call, kind, held) {
			a.unrecognised(call, f.n, "sync/atomic call whose target is not &field / &variable")
		}
		for _, arg := range call.Args[1:] {
			f.expr(arg, held)
		}
		a.ext[a.p.extName(res.ExtFn)] = true
		return
	}
	switch res.Builtin {
	case "copy":
		if len(call.Args) == 2 {
			f.elemWrite(call, call.Args[0], held)
			f.expr(call.Args[1], held)
			return
		}
	case "delete", "clear":
		if len(call.Args) >= 1 {
			f.elemWrite(call, call.Args[0], held)
			for _, arg := range call.Args[1:] {
				f.expr(arg, held)
			}
			return
		}
	}
	for _, arg := range call.Args {
		f.expr(arg, held)
	}
	for _, u := range res.Unresolved {
		a.unrecognised(call, f.n, u)
	}
	for _, e := range res.Ext {
		a.ext[e] = true
	}
	for _, nd := range res.Nodes {
		a.enqueue(nd, held)
	}
}

// ---- driver

func findGoroutineRoots(p *Prog) (lits []*ast.FuncLit, gos []*ast.GoStmt, encl *ast.FuncDecl, problems []string) {
	n := p.findMethod("genetics", "ParallelPopulationEpochExecutor", "reproduce")
	if n == nil {
		return nil, nil, nil, []string{"method (*genetics.ParallelPopulationEpochExecutor).reproduce not found"}
	}
	ast.Inspect(n.Body, func(x ast.Node) bool {
		if g, ok := x.(*ast.GoStmt); ok {
			if l, ok := ast.Unparen(g.Call.Fun).(*ast.FuncLit); ok {
				lits = append(lits, l)
				gos = append(gos, g)
			} else {
				problems = append(problems, "go statement whose callee is not a function literal ("+p.pos(g)+")")
			}
		}
		return true
	})
	if len(lits) == 0 {
		problems = append(problems, "no go statement in (*genetics.ParallelPopulationEpochExecutor).reproduce")
	}
	return lits, gos, n.Decl, problems
}

// walkMainRegion: the part of the forking function that runs CONCURRENTLY with the workers - from the statement that
// contains the first go statement (the whole loop, if the go statement sits in a loop at the top level of the
// function) up to, not including, the call of (*sync.WaitGroup).Wait.  Its accesses are subject to the same
// discipline as the workers' (they are not "before the fork / after the join").
func (a *accPass) walkMainRegion(encl *ast.FuncDecl, gos []*ast.GoStmt) {
	if encl == nil || len(gos) == 0 {
		return
	}
	p := a.p
	fn, _ := p.info.Defs[encl.Name].(*types.Func)
	main := &FNode{Name: "(*genetics.ParallelPopulationEpochExecutor).reproduce$main", Fn: fn, Decl: encl, Body: encl.Body, Pkg: p.pkgs[p.modPath+"/neat/genetics"]}
	a.reached[main.Name] = true
	f := &accFn{a: a, n: main, body: encl.Body, rootGo: map[*ast.GoStmt]bool{}}
	for _, g := range gos {
		f.rootGo[g] = true
	}
	first := -1
	for i, st := range encl.Body.List {
		if gos[0].Pos() >= st.Pos() && gos[0].End() <= st.End() {
			first = i
			break
		}
	}
	if first < 0 {
		a.unrec["main region: go statement not found at the top level of "+main.Name] = true
		return
	}
	switch encl.Body.List[first].(type) {
	case *ast.ForStmt, *ast.RangeStmt, *ast.GoStmt:
	default:
		a.unrecognised(encl.Body.List[first], main, "go statement nested in an unsupported statement (expected: a loop or the go statement itself)")
	}
	isWait := func(st ast.Stmt) bool {
		es, ok := st.(*ast.ExprStmt)
		if !ok {
			return false
		}
		call, ok := ast.Unparen(es.X).(*ast.CallExpr)
		if !ok {
			return false
		}
		res := p.resolveCall(call, encl.Body)
		return res.ExtFn != nil && p.extName(res.ExtFn) == "(*sync.WaitGroup).Wait"
	}
	held := []string{}
	joined := false
	for _, st := range encl.Body.List[first:] {
		if isWait(st) {
			joined = true
			break
		}
		for _, g := range gos[1:] {
			_ = g
		}
		held = f.stmt(st, held)
	}
	if !joined {
		a.unrecognised(encl, main, "no (*sync.WaitGroup).Wait() after the go statement: join not found")
	}
}

func translateAccess(p *Prog) string {
	a := &accPass{p: p, rows: map[string]accRow{}, writes: map[string]fieldRow{}, reads: map[string]fieldRow{}, ext: map[string]bool{},
		unrec: map[string]bool{}, done: map[string]bool{}, reached: map[string]bool{}, freshMemo: map[*FNode]bool{}}
	lits, gos, encl, problems := findGoroutineRoots(p)
	for _, pr := range problems {
		a.unrec[pr] = true
	}
	for i, l := range lits {
		root := p.litNode(l, fmt.Sprintf("(*genetics.ParallelPopulationEpochExecutor).reproduce$go%d", i+1), p.pkgs[p.modPath+"/neat/genetics"], encl)
		a.enqueue(root, []string{})
	}
	a.walkMainRegion(encl, gos)
	for len(a.work) > 0 {
		w := a.work[0]
		a.work = a.work[1:]
		f := &accFn{a: a, n: w.n, body: w.n.Body}
		f.stmts(w.n.Body.List, w.held)
	}
	// reads only of labels that are written somewhere
	written := map[string]bool{}
	for _, w := range a.writes {
		written[baseLabel(w.Label)] = true
	}
	var sb strings.Builder
	sb.WriteString("/- GENERATED by harness/cmd/gntranslate (access.go) from the Go sources - do not edit.\n")
	sb.WriteString("   Shared-memory accesses of everything reachable from the goroutine body of\n")
	sb.WriteString("   (*ParallelPopulationEpochExecutor).reproduce (C16). -/\n")
	sb.WriteString("import GoNeat.Spec.AccessTable\n\nnamespace GoNeat.Gen\nopen GoNeat.AccessTable\n\n")
	keys := func(m map[string]bool) []string {
		r := []string{}
		for k := range m {
			r = append(r, k)
		}
		sort.Strings(r)
		return r
	}
	// accesses
	rows := make([]accRow, 0, len(a.rows))
	for _, r := range a.rows {
		rows = append(rows, r)
	}
	sort.Slice(rows, func(i, j int) bool {
		x, y := rows[i], rows[j]
		if x.Loc != y.Loc {
			return x.Loc < y.Loc
		}
		if x.Fn != y.Fn {
			return x.Fn < y.Fn
		}
		if x.Pos != y.Pos {
			return x.Pos < y.Pos
		}
		if x.Kind != y.Kind {
			return x.Kind < y.Kind
		}
		return heldKey(x.Held) < heldKey(y.Held)
	})
	sb.WriteString("/-- reads/writes of `Population` fields, package-level variables and captured variables -/\n")
	sb.WriteString("def accesses : List Access := [\n")
	for i, r := range rows {
		prot := ".plain"
		switch r.Prot {
		case "atomic":
			prot = ".atomic"
		case "underMutex":
			hs := []string{}
			for _, h := range r.Held {
				hs = append(hs, leanStr(h))
			}
			prot = "(.underMutex [" + strings.Join(hs, ", ") + "])"
		}
		sep := ","
		if i == len(rows)-1 {
			sep = ""
		}
		fmt.Fprintf(&sb, "  ⟨%s, %s, .%s, %s, %s⟩%s\n", leanStr(r.Fn), leanStr(r.Loc), r.Kind, prot, leanStr(r.Pos), sep)
	}
	sb.WriteString("]\n\n")
	// field writes and reads
	emitFields := func(name, doc string, frows []fieldRow) {
		sort.Slice(frows, func(i, j int) bool {
			x, y := frows[i], frows[j]
			if x.Label != y.Label {
				return x.Label < y.Label
			}
			if x.Fn != y.Fn {
				return x.Fn < y.Fn
			}
			if x.Kind != y.Kind {
				return x.Kind < y.Kind
			}
			return x.Pos < y.Pos
		})
		sb.WriteString("/-- " + doc + " -/\n")
		sb.WriteString("def " + name + " : List FieldAccess := [\n")
		for i, r := range frows {
			sep := ","
			if i == len(frows)-1 {
				sep = ""
			}
			fmt.Fprintf(&sb, "  ⟨%s, %s, %s, .%s, %s, %s⟩%s\n", leanStr(r.Fn), leanStr(r.Label), leanStr(baseLabel(r.Label)), r.Kind, leanStr(r.Origin), leanStr(r.Pos), sep)
		}
		sb.WriteString("]\n\n")
	}
	wrows := make([]fieldRow, 0)
	for _, w := range a.writes {
		wrows = append(wrows, w)
	}
	rrows := make([]fieldRow, 0)
	for _, r := range a.reads {
		if written[r.Label] {
			rrows = append(rrows, r)
		}
	}
	emitFields("fieldWrites", "writes (and atomic accesses) to fields / elements / pointees of objects that are not provably fresh locals", wrows)
	emitFields("fieldReads", "reads of the fields that `fieldWrites` writes (one row per function and field)", rrows)
	sb.WriteString("/-- functions outside the repository that the goroutines call -/\n")
	sb.WriteString("def externalCalls : List String := [\n")
	ek := keys(a.ext)
	for i, e := range ek {
		sep := ","
		if i == len(ek)-1 {
			sep = ""
		}
		fmt.Fprintf(&sb, "  %s%s\n", leanStr(e), sep)
	}
	sb.WriteString("]\n\n")
	sb.WriteString("/-- constructs the extractor does not understand: the obligation requires this list to be empty -/\n")
	sb.WriteString("def unrecognised : List String := [\n")
	uk := keys(a.unrec)
	for i, e := range uk {
		sep := ","
		if i == len(uk)-1 {
			sep = ""
		}
		fmt.Fprintf(&sb, "  %s%s\n", leanStr(e), sep)
	}
	sb.WriteString("]\n\n")
	sb.WriteString("/-- function bodies walked -/\n")
	sb.WriteString("def reachedFunctions : List String := [\n")
	rk := keys(a.reached)
	for i, e := range rk {
		sep := ","
		if i == len(rk)-1 {
			sep = ""
		}
		fmt.Fprintf(&sb, "  %s%s\n", leanStr(e), sep)
	}
	sb.WriteString("]\n\nend GoNeat.Gen\n")
	return sb.String()
}
