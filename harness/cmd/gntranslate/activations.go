package main

// Translator for neat/math/activations.go (property C18):
//   * every package-level closure `var f = func(input float64, auxParams []float64) float64 {...}` becomes a Lean term
//     over the reals (Gen/ActivationsReal.lean, for proofs) and over Float (Gen/ActivationsFloat.lean, for the driver);
//   * every closure `func(inputs []float64, auxParams []float64) []float64` of the shape
//     `acc := init; for _, v := range inputs { acc = F(acc, v) }; return []float64{acc}` becomes a `List.foldl`;
//   * the `iota` const block, the Register/RegisterModule calls of NewNodeActivatorsFactory, the map writes of
//     Register/RegisterModule and the shape of the four lookup methods become tables (Gen/Registry.lean).

import (
	"fmt"
	"go/ast"
	"go/parser"
	"go/token"
	"math"
	"regexp"
	"sort"
	"strconv"
	"strings"
)

type dialect int

const (
	dReal  dialect = iota // ℝ, scalar closures
	dEReal                // EReal accumulator, real list elements (module closures)
	dFloat                // Lean Float
)

type unsupported struct{ msg string }

func (u unsupported) Error() string { return u.msg }

func fail(fset *token.FileSet, n ast.Node, format string, a ...interface{}) error {
	return unsupported{fmt.Sprintf("%s: %s", fset.Position(n.Pos()), fmt.Sprintf(format, a...))}
}

// tr carries the state of translating one closure in one dialect
type tr struct {
	fset   *token.FileSet
	d      dialect
	locals map[string]string // Go identifier -> kind: "num" (scalar of the dialect), "elem" (list element), "acc"
}

var litRe = regexp.MustCompile(`^[0-9]+(\.[0-9]+)?([eE][+-]?[0-9]+)?$`)

func floatBits(f float64) string { return fmt.Sprintf("(Float.ofBits 0x%016X)", math.Float64bits(f)) }

func leanIdent(s string) string {
	switch s {
	case "from", "to", "at", "in", "end", "fun", "let", "have", "show", "then", "else", "if", "do", "open", "def", "max", "min":
		return s + "'"
	}
	return s
}

// literal: the numeric value of a Go literal, exact decimal over the reals, correctly rounded bit pattern over Float
func (t *tr) literal(n ast.Node, text string, neg bool) (string, error) {
	if !litRe.MatchString(text) {
		return "", fail(t.fset, n, "numeric literal %q not in the supported decimal form", text)
	}
	switch t.d {
	case dFloat:
		v, err := strconv.ParseFloat(text, 64)
		if err != nil {
			return "", fail(t.fset, n, "literal %q: %v", text, err)
		}
		if neg && v != 0 { // the Go constant -0.0 is +0
			v = -v
		}
		return floatBits(v), nil
	case dReal:
		if neg {
			return "(-(" + text + " : ℝ))", nil
		}
		return "(" + text + " : ℝ)", nil
	default:
		if neg {
			return "(((-(" + text + " : ℝ)) : ℝ) : EReal)", nil
		}
		return "((" + text + " : ℝ) : EReal)", nil
	}
}

func mathSel(e ast.Expr) (string, bool) {
	if s, ok := e.(*ast.SelectorExpr); ok {
		if x, ok := s.X.(*ast.Ident); ok && x.Name == "math" {
			return s.Sel.Name, true
		}
	}
	return "", false
}

// num translates an expression of Go type float64
func (t *tr) num(e ast.Expr) (string, error) {
	switch x := e.(type) {
	case *ast.ParenExpr:
		return t.num(x.X)
	case *ast.BasicLit:
		if x.Kind != token.FLOAT && x.Kind != token.INT {
			return "", fail(t.fset, e, "literal kind %v", x.Kind)
		}
		return t.literal(e, x.Value, false)
	case *ast.Ident:
		k, ok := t.locals[x.Name]
		if !ok {
			return "", fail(t.fset, e, "identifier %q is not a parameter or local of the closure", x.Name)
		}
		if t.d == dEReal && k == "elem" {
			return "(" + leanIdent(x.Name) + " : EReal)", nil
		}
		return leanIdent(x.Name), nil
	case *ast.UnaryExpr:
		if x.Op != token.SUB {
			return "", fail(t.fset, e, "unary operator %v", x.Op)
		}
		if lit, ok := x.X.(*ast.BasicLit); ok && (lit.Kind == token.FLOAT || lit.Kind == token.INT) {
			return t.literal(e, lit.Value, true) // constant expression: folded by the Go compiler
		}
		if isConst(x.X) {
			return "", fail(t.fset, e, "constant expression under unary minus")
		}
		s, err := t.num(x.X)
		if err != nil {
			return "", err
		}
		return "(-" + s + ")", nil
	case *ast.BinaryExpr:
		var op string
		switch x.Op {
		case token.ADD:
			op = "+"
		case token.SUB:
			op = "-"
		case token.MUL:
			op = "*"
		case token.QUO:
			op = "/"
		default:
			return "", fail(t.fset, e, "binary operator %v in a numeric expression", x.Op)
		}
		if isConst(x.X) && isConst(x.Y) {
			return "", fail(t.fset, e, "constant binary expression (exact constant arithmetic is not modelled)")
		}
		if t.d == dEReal && (x.Op == token.SUB || x.Op == token.QUO) {
			return "", fail(t.fset, e, "operator %v on a module accumulator", x.Op)
		}
		a, err := t.num(x.X)
		if err != nil {
			return "", err
		}
		b, err := t.num(x.Y)
		if err != nil {
			return "", err
		}
		return "(" + a + " " + op + " " + b + ")", nil
	case *ast.SelectorExpr:
		if name, ok := mathSel(x); ok && name == "MaxFloat64" {
			switch t.d {
			case dFloat:
				return floatBits(math.MaxFloat64), nil
			case dReal:
				return "((2:ℝ)^1024 - (2:ℝ)^971)", nil
			default:
				return "((((2:ℝ)^1024 - (2:ℝ)^971) : ℝ) : EReal)", nil
			}
		}
		return "", fail(t.fset, e, "selector expression")
	case *ast.CallExpr:
		return t.call(x)
	}
	return "", fail(t.fset, e, "expression %T", e)
}

func isConst(e ast.Expr) bool {
	switch x := e.(type) {
	case *ast.BasicLit:
		return true
	case *ast.ParenExpr:
		return isConst(x.X)
	case *ast.UnaryExpr:
		return isConst(x.X)
	case *ast.BinaryExpr:
		return isConst(x.X) && isConst(x.Y)
	case *ast.SelectorExpr:
		_, ok := mathSel(x)
		return ok
	}
	return false
}

func (t *tr) call(c *ast.CallExpr) (string, error) {
	// float64(math.MinInt64) / float64(math.MaxInt64): integer constants converted to float64
	if id, ok := c.Fun.(*ast.Ident); ok && id.Name == "float64" && len(c.Args) == 1 {
		if name, ok := mathSel(c.Args[0]); ok {
			var v float64
			var dec string
			switch name {
			case "MinInt64":
				v, dec = float64(math.MinInt64), "(-(9223372036854775808 : ℝ))"
			case "MaxInt64":
				v, dec = float64(math.MaxInt64), "(9223372036854775807 : ℝ)"
			default:
				return "", fail(t.fset, c, "float64(math.%s)", name)
			}
			switch t.d {
			case dFloat:
				return floatBits(v), nil
			case dReal:
				return dec, nil
			default:
				return "(" + dec + " : EReal)", nil
			}
		}
		return "", fail(t.fset, c, "float64 conversion of a non-constant")
	}
	name, ok := mathSel(c.Fun)
	if !ok {
		return "", fail(t.fset, c, "call of something that is not a math.* function")
	}
	arg := func(i int) (string, error) { return t.num(c.Args[i]) }
	un := map[string][2]string{"Exp": {"Real.exp", "Float.exp"}, "Tanh": {"Real.tanh", "Float.tanh"},
		"Sin": {"Real.sin", "Float.sin"}, "Abs": {"abs", "Float.abs"}}
	if fn, ok := un[name]; ok && len(c.Args) == 1 {
		if t.d == dEReal {
			return "", fail(t.fset, c, "math.%s on a module accumulator", name)
		}
		a, err := arg(0)
		if err != nil {
			return "", err
		}
		if t.d == dFloat {
			return "(" + fn[1] + " " + a + ")", nil
		}
		return "(" + fn[0] + " " + a + ")", nil
	}
	switch {
	case name == "Pow" && len(c.Args) == 2:
		// only a literal non-negative integer exponent: x^n over the reals, Float.pow over Float
		lit, ok := c.Args[1].(*ast.BasicLit)
		if !ok || t.d == dEReal {
			return "", fail(t.fset, c, "math.Pow with a non-literal exponent")
		}
		v, err := strconv.ParseFloat(lit.Value, 64)
		if err != nil || v < 0 || v > 64 || v != math.Trunc(v) {
			return "", fail(t.fset, c, "math.Pow exponent %q is not a small natural number", lit.Value)
		}
		a, err := arg(0)
		if err != nil {
			return "", err
		}
		if t.d == dFloat {
			return "(Float.pow " + a + " " + floatBits(v) + ")", nil
		}
		return "(" + a + " ^ (" + strconv.Itoa(int(v)) + " : ℕ))", nil
	case (name == "Max" || name == "Min") && len(c.Args) == 2:
		a, err := arg(0)
		if err != nil {
			return "", err
		}
		b, err := arg(1)
		if err != nil {
			return "", err
		}
		if t.d == dFloat {
			return "(GoNeat.goM" + strings.ToLower(name[1:]) + " " + a + " " + b + ")", nil
		}
		return "(" + strings.ToLower(name) + " " + a + " " + b + ")", nil
	case name == "Inf" && len(c.Args) == 1:
		sign := 0
		switch a := c.Args[0].(type) {
		case *ast.BasicLit:
			if a.Kind == token.INT {
				if n, err := strconv.Atoi(a.Value); err == nil {
					if n >= 0 {
						sign = 1
					} else {
						sign = -1
					}
				}
			}
		case *ast.UnaryExpr:
			if lit, ok := a.X.(*ast.BasicLit); ok && a.Op == token.SUB && lit.Kind == token.INT {
				if n, err := strconv.Atoi(lit.Value); err == nil {
					if n > 0 {
						sign = -1
					} else {
						sign = 1
					}
				}
			}
		}
		if sign == 0 {
			return "", fail(t.fset, c, "math.Inf with a non-literal sign")
		}
		switch t.d {
		case dFloat:
			return floatBits(math.Inf(sign)), nil
		case dEReal:
			if sign > 0 {
				return "(⊤ : EReal)", nil
			}
			return "(⊥ : EReal)", nil
		}
		return "", fail(t.fset, c, "math.Inf in a scalar closure has no real counterpart")
	}
	return "", fail(t.fset, c, "math.%s with %d argument(s)", name, len(c.Args))
}

// cond translates a Go boolean expression: a Prop over the reals, a Bool over Float
func (t *tr) cond(e ast.Expr) (string, error) {
	switch x := e.(type) {
	case *ast.ParenExpr:
		return t.cond(x.X)
	case *ast.UnaryExpr:
		if x.Op == token.NOT {
			s, err := t.cond(x.X)
			if err != nil {
				return "", err
			}
			if t.d == dFloat {
				return "(!" + s + ")", nil
			}
			return "(¬ " + s + ")", nil
		}
	case *ast.BinaryExpr:
		switch x.Op {
		case token.LOR, token.LAND:
			a, err := t.cond(x.X)
			if err != nil {
				return "", err
			}
			b, err := t.cond(x.Y)
			if err != nil {
				return "", err
			}
			ops := map[token.Token][2]string{token.LOR: {"∨", "||"}, token.LAND: {"∧", "&&"}}[x.Op]
			if t.d == dFloat {
				return "(" + a + " " + ops[1] + " " + b + ")", nil
			}
			return "(" + a + " " + ops[0] + " " + b + ")", nil
		case token.LSS, token.LEQ, token.GTR, token.GEQ, token.EQL, token.NEQ:
			a, err := t.num(x.X)
			if err != nil {
				return "", err
			}
			b, err := t.num(x.Y)
			if err != nil {
				return "", err
			}
			if t.d == dFloat {
				switch x.Op {
				case token.EQL:
					return "(" + a + " == " + b + ")", nil
				case token.NEQ:
					return "(" + a + " != " + b + ")", nil
				}
				return "(decide (" + a + " " + x.Op.String() + " " + b + "))", nil
			}
			op := map[token.Token]string{token.LSS: "<", token.LEQ: "≤", token.GTR: ">", token.GEQ: "≥", token.EQL: "=", token.NEQ: "≠"}[x.Op]
			return "(" + a + " " + op + " " + b + ")", nil
		}
	case *ast.CallExpr:
		if name, ok := mathSel(x.Fun); ok && len(x.Args) == 1 {
			a, err := t.num(x.Args[0])
			if err != nil {
				return "", err
			}
			switch name {
			case "IsNaN": // no real number is a NaN
				if t.d == dFloat {
					return "(Float.isNaN " + a + ")", nil
				}
				return "False", nil
			case "Signbit": // sign bit set: negative (and, over Float only, -0 and negative NaN)
				if t.d == dFloat {
					return "(GoNeat.signbit " + a + ")", nil
				}
				return "(" + a + " < 0)", nil
			}
		}
	}
	return "", fail(t.fset, e, "condition %T not supported", e)
}

func terminates(s ast.Stmt) bool {
	switch x := s.(type) {
	case *ast.ReturnStmt:
		return true
	case *ast.BlockStmt:
		return len(x.List) > 0 && terminates(x.List[len(x.List)-1])
	case *ast.IfStmt:
		return x.Else != nil && terminates(x.Body) && terminates(x.Else)
	}
	return false
}

// block translates a statement list that ends in `return e` on every path into one Lean term
func (t *tr) block(stmts []ast.Stmt, ind string) (string, error) {
	if len(stmts) == 0 {
		return "", unsupported{"a path of the closure does not end in a return statement"}
	}
	ty := map[dialect]string{dReal: "ℝ", dFloat: "Float", dEReal: "EReal"}[t.d]
	switch s := stmts[0].(type) {
	case *ast.ReturnStmt:
		if len(s.Results) != 1 || len(stmts) != 1 {
			return "", fail(t.fset, s, "return with %d results / followed by dead code", len(s.Results))
		}
		return t.num(s.Results[0])
	case *ast.AssignStmt:
		if s.Tok != token.DEFINE || len(s.Lhs) != len(s.Rhs) {
			return "", fail(t.fset, s, "only `x, y := e1, e2` definitions are supported")
		}
		var lets []string
		var names []string
		for i := range s.Lhs {
			id, ok := s.Lhs[i].(*ast.Ident)
			if !ok {
				return "", fail(t.fset, s, "definition of a non-identifier")
			}
			if _, dup := t.locals[id.Name]; dup {
				return "", fail(t.fset, s, "redefinition / shadowing of %q", id.Name)
			}
			v, err := t.num(s.Rhs[i]) // all right-hand sides are evaluated before any name is bound
			if err != nil {
				return "", err
			}
			lets = append(lets, ind+"let "+leanIdent(id.Name)+" : "+ty+" := "+v+"\n")
			names = append(names, id.Name)
		}
		for _, n := range names {
			t.locals[n] = "num"
		}
		rest, err := t.block(stmts[1:], ind)
		if err != nil {
			return "", err
		}
		return "\n" + strings.Join(lets, "") + ind + rest, nil
	case *ast.IfStmt:
		if s.Init != nil {
			return "", fail(t.fset, s, "if with an init statement")
		}
		c, err := t.cond(s.Cond)
		if err != nil {
			return "", err
		}
		if !terminates(s.Body) {
			return "", fail(t.fset, s, "if-branch that falls through")
		}
		saved := copyMap(t.locals)
		th, err := t.block(s.Body.List, ind+"  ")
		t.locals = saved
		if err != nil {
			return "", err
		}
		var elseStmts []ast.Stmt
		switch el := s.Else.(type) {
		case nil:
			elseStmts = stmts[1:]
		case *ast.BlockStmt:
			if !terminates(el) {
				return "", fail(t.fset, s, "else-branch that falls through")
			}
			if len(stmts) != 1 {
				return "", fail(t.fset, s, "dead code after if/else")
			}
			elseStmts = el.List
		case *ast.IfStmt:
			if !terminates(el) || len(stmts) != 1 {
				return "", fail(t.fset, s, "else-if chain that falls through")
			}
			elseStmts = []ast.Stmt{el}
		default:
			return "", fail(t.fset, s, "else of kind %T", el)
		}
		saved = copyMap(t.locals)
		el, err := t.block(elseStmts, ind+"  ")
		t.locals = saved
		if err != nil {
			return "", err
		}
		return "\n" + ind + "if " + c + " then " + th + "\n" + ind + "else " + el, nil
	}
	return "", fail(t.fset, stmts[0], "statement %T", stmts[0])
}

func copyMap(m map[string]string) map[string]string {
	r := map[string]string{}
	for k, v := range m {
		r[k] = v
	}
	return r
}

// module translates `acc := init; for _, v := range inputs { acc = F(acc, v) }; return []float64{acc}`
func (t *tr) module(inputs string, body []ast.Stmt) (string, error) {
	if len(body) != 3 {
		return "", unsupported{"module closure is not of the shape init / range loop / return"}
	}
	def, ok := body[0].(*ast.AssignStmt)
	if !ok || def.Tok != token.DEFINE || len(def.Lhs) != 1 || len(def.Rhs) != 1 {
		return "", fail(t.fset, body[0], "module closure must start with `acc := init`")
	}
	acc, ok := def.Lhs[0].(*ast.Ident)
	if !ok {
		return "", fail(t.fset, body[0], "accumulator")
	}
	init, err := t.num(def.Rhs[0])
	if err != nil {
		return "", err
	}
	loop, ok := body[1].(*ast.RangeStmt)
	if !ok || loop.Tok != token.DEFINE {
		return "", fail(t.fset, body[1], "second statement must be `for _, v := range inputs`")
	}
	if k, ok := loop.Key.(*ast.Ident); !ok || k.Name != "_" {
		return "", fail(t.fset, loop, "range loop must ignore the index")
	}
	v, ok := loop.Value.(*ast.Ident)
	if !ok || v.Name == "_" {
		return "", fail(t.fset, loop, "range loop must bind the element")
	}
	if x, ok := loop.X.(*ast.Ident); !ok || x.Name != inputs {
		return "", fail(t.fset, loop, "range loop must iterate over the first parameter")
	}
	if len(loop.Body.List) != 1 {
		return "", fail(t.fset, loop, "loop body must be one assignment")
	}
	as, ok := loop.Body.List[0].(*ast.AssignStmt)
	if !ok || len(as.Lhs) != 1 || len(as.Rhs) != 1 {
		return "", fail(t.fset, loop, "loop body must be one assignment")
	}
	if l, ok := as.Lhs[0].(*ast.Ident); !ok || l.Name != acc.Name {
		return "", fail(t.fset, as, "loop must assign the accumulator")
	}
	t.locals[acc.Name] = "acc"
	t.locals[v.Name] = "elem"
	var step string
	switch as.Tok {
	case token.ASSIGN:
		step, err = t.num(as.Rhs[0])
	case token.MUL_ASSIGN, token.ADD_ASSIGN:
		op := token.MUL
		if as.Tok == token.ADD_ASSIGN {
			op = token.ADD
		}
		step, err = t.num(&ast.BinaryExpr{X: acc, Op: op, Y: as.Rhs[0], OpPos: as.Pos()})
	default:
		return "", fail(t.fset, as, "assignment operator %v", as.Tok)
	}
	if err != nil {
		return "", err
	}
	ret, ok := body[2].(*ast.ReturnStmt)
	if !ok || len(ret.Results) != 1 {
		return "", fail(t.fset, body[2], "third statement must be `return []float64{acc}`")
	}
	cl, ok := ret.Results[0].(*ast.CompositeLit)
	if !ok || len(cl.Elts) != 1 {
		return "", fail(t.fset, ret, "must return a one-element slice literal")
	}
	if r, ok := cl.Elts[0].(*ast.Ident); !ok || r.Name != acc.Name {
		return "", fail(t.fset, ret, "must return the accumulator")
	}
	accTy, elTy := "EReal", "ℝ"
	if t.d == dFloat {
		accTy, elTy = "Float", "Float"
	}
	return fmt.Sprintf("List.foldl (fun (%s : %s) (%s : %s) => %s) %s %s", leanIdent(acc.Name), accTy, leanIdent(v.Name), elTy,
		step, init, leanIdent(inputs)), nil
}

/* ---------- the file ---------- */

type closure struct {
	name   string
	module bool
	param  string
	body   []ast.Stmt
}

type regRow struct {
	constName, fn, name string
	module              bool
}

func isFloat64(e ast.Expr) bool    { id, ok := e.(*ast.Ident); return ok && id.Name == "float64" }
func isFloatSlice(e ast.Expr) bool { a, ok := e.(*ast.ArrayType); return ok && a.Len == nil && isFloat64(a.Elt) }

func leanStr(s string) string { return strconv.Quote(s) }

func translateActivations(path string) (map[string]string, error) {
	fset := token.NewFileSet()
	file, err := parser.ParseFile(fset, path, nil, 0)
	if err != nil {
		return nil, err
	}
	var problems []string
	problem := func(format string, a ...interface{}) { problems = append(problems, fmt.Sprintf(format, a...)) }

	/* const block */
	type constRow struct {
		name string
		code int
	}
	var consts []constRow
	var closures []closure
	funcs := map[string]*ast.FuncDecl{}
	for _, d := range file.Decls {
		switch g := d.(type) {
		case *ast.FuncDecl:
			funcs[g.Name.Name] = g
		case *ast.GenDecl:
			if g.Tok == token.CONST {
				isAct := false
				if len(g.Specs) > 0 {
					if vs := g.Specs[0].(*ast.ValueSpec); vs.Type != nil {
						if id, ok := vs.Type.(*ast.Ident); ok && id.Name == "NodeActivationType" {
							isAct = true
						}
					}
				}
				if !isAct {
					continue
				}
				base := -1
				for i, sp := range g.Specs {
					vs := sp.(*ast.ValueSpec)
					if len(vs.Names) != 1 {
						problem("const block: several names in one spec")
						continue
					}
					if i == 0 {
						// iota + k  |  iota
						if len(vs.Values) == 1 {
							switch v := vs.Values[0].(type) {
							case *ast.Ident:
								if v.Name == "iota" {
									base = 0
								}
							case *ast.BinaryExpr:
								if x, ok := v.X.(*ast.Ident); ok && x.Name == "iota" && v.Op == token.ADD {
									if lit, ok := v.Y.(*ast.BasicLit); ok && lit.Kind == token.INT {
										if n, err := strconv.Atoi(lit.Value); err == nil {
											base = n
										}
									}
								}
							}
						}
						if base < 0 {
							problem("const block: first value is not `iota` or `iota + k`")
							base = 0
						}
					} else if len(vs.Values) != 0 || vs.Type != nil {
						problem("const block: %s has an explicit value or type", vs.Names[0].Name)
					}
					consts = append(consts, constRow{vs.Names[0].Name, base + i})
				}
			}
			if g.Tok == token.VAR {
				for _, sp := range g.Specs {
					vs := sp.(*ast.ValueSpec)
					for i, nm := range vs.Names {
						if i >= len(vs.Values) {
							continue
						}
						fl, ok := vs.Values[i].(*ast.FuncLit)
						if !ok {
							continue
						}
						ps := fl.Type.Params.List
						rs := fl.Type.Results
						if len(ps) != 2 || len(ps[0].Names) != 1 || rs == nil || len(rs.List) != 1 {
							problem("closure %s: unexpected signature", nm.Name)
							continue
						}
						switch {
						case isFloat64(ps[0].Type) && isFloatSlice(ps[1].Type) && isFloat64(rs.List[0].Type):
							closures = append(closures, closure{nm.Name, false, ps[0].Names[0].Name, fl.Body.List})
						case isFloatSlice(ps[0].Type) && isFloatSlice(ps[1].Type) && isFloatSlice(rs.List[0].Type):
							closures = append(closures, closure{nm.Name, true, ps[0].Names[0].Name, fl.Body.List})
						default:
							problem("closure %s: unexpected signature", nm.Name)
						}
					}
				}
			}
		}
	}
	if len(consts) == 0 {
		problem("no NodeActivationType const block found")
	}

	/* Register calls of NewNodeActivatorsFactory */
	var regs []regRow
	if f, ok := funcs["NewNodeActivatorsFactory"]; !ok {
		problem("NewNodeActivatorsFactory not found")
	} else {
		for _, st := range f.Body.List {
			es, ok := st.(*ast.ExprStmt)
			if !ok {
				continue // the composite literal and the return statement
			}
			call, ok := es.X.(*ast.CallExpr)
			sel, ok2 := (ast.Expr)(nil), false
			if ok {
				var s *ast.SelectorExpr
				s, ok2 = call.Fun.(*ast.SelectorExpr)
				if ok2 {
					sel = s
				}
			}
			if !ok || !ok2 {
				problem("%s: statement in NewNodeActivatorsFactory is not a Register call", fset.Position(st.Pos()))
				continue
			}
			m := sel.(*ast.SelectorExpr).Sel.Name
			if (m != "Register" && m != "RegisterModule") || len(call.Args) != 3 {
				problem("%s: call of %s in NewNodeActivatorsFactory", fset.Position(st.Pos()), m)
				continue
			}
			c, ok1 := call.Args[0].(*ast.Ident)
			fn, ok2 := call.Args[1].(*ast.Ident)
			nm, ok3 := call.Args[2].(*ast.BasicLit)
			if !ok1 || !ok2 || !ok3 || nm.Kind != token.STRING {
				problem("%s: Register arguments are not (constant, closure name, string literal)", fset.Position(st.Pos()))
				continue
			}
			s, err := strconv.Unquote(nm.Value)
			if err != nil {
				problem("%s: name literal", fset.Position(st.Pos()))
				continue
			}
			regs = append(regs, regRow{c.Name, fn.Name, s, m == "RegisterModule"})
		}
	}
	codeOf := map[string]int{}
	for _, c := range consts {
		codeOf[c.name] = c.code
	}
	closureKind := map[string]bool{}
	for _, c := range closures {
		closureKind[c.name] = c.module
	}
	for _, r := range regs {
		if _, ok := codeOf[r.constName]; !ok {
			problem("Register: %s is not a constant of the iota block", r.constName)
		}
		if mod, ok := closureKind[r.fn]; !ok {
			problem("Register: %s is not a package-level closure", r.fn)
		} else if mod != r.module {
			problem("Register: %s registered with the wrong kind", r.fn)
		}
	}

	/* map writes of Register / RegisterModule: list of (map field, key parameter, value parameter) */
	writes := func(fn string) string {
		f, ok := funcs[fn]
		if !ok || f.Recv == nil || len(f.Recv.List) != 1 || len(f.Recv.List[0].Names) != 1 {
			problem("%s not found", fn)
			return "[]"
		}
		recv := f.Recv.List[0].Names[0].Name
		var rows []string
		for _, st := range f.Body.List {
			as, ok := st.(*ast.AssignStmt)
			good := ok && as.Tok == token.ASSIGN && len(as.Lhs) == 1 && len(as.Rhs) == 1
			if good {
				ix, ok1 := as.Lhs[0].(*ast.IndexExpr)
				val, ok2 := as.Rhs[0].(*ast.Ident)
				good = ok1 && ok2
				if good {
					sel, ok3 := ix.X.(*ast.SelectorExpr)
					key, ok4 := ix.Index.(*ast.Ident)
					good = ok3 && ok4
					if good {
						r, ok5 := sel.X.(*ast.Ident)
						good = ok5 && r.Name == recv
						if good {
							rows = append(rows, fmt.Sprintf("(%s, %s, %s)", leanStr(sel.Sel.Name), leanStr(key.Name), leanStr(val.Name)))
						}
					}
				}
			}
			if !good {
				problem("%s: statement in %s is not `a.<map>[key] = value`", fset.Position(st.Pos()), fn)
			}
		}
		ps := []string{}
		for _, p := range f.Type.Params.List {
			for _, n := range p.Names {
				ps = append(ps, leanStr(n.Name))
			}
		}
		return "{ params := [" + strings.Join(ps, ", ") + "], writes := [" + strings.Join(rows, ", ") + "] }"
	}
	regWrites := writes("Register")
	modWrites := writes("RegisterModule")

	/* lookup methods: `if v, ok := a.<map>[<param>]; ok { return <v or fn(..)>, nil } else { return <x>, fmt.Errorf(..) }` */
	lookup := func(fn string) string {
		f, ok := funcs[fn]
		bad := func(why string) string {
			problem("%s: %s", fn, why)
			return fmt.Sprintf("{ fn := %s, map := \"\", key := \"\", hitErrNil := false, missErr := false, missValue := \"\" }", leanStr(fn))
		}
		if !ok || f.Recv == nil || len(f.Body.List) != 1 {
			return bad("not found or body is not a single if statement")
		}
		is, ok := f.Body.List[0].(*ast.IfStmt)
		if !ok || is.Init == nil || is.Else == nil {
			return bad("not an if/else with a map lookup")
		}
		as, ok := is.Init.(*ast.AssignStmt)
		if !ok || as.Tok != token.DEFINE || len(as.Lhs) != 2 || len(as.Rhs) != 1 {
			return bad("init is not `v, ok := m[k]`")
		}
		okId, _ := as.Lhs[1].(*ast.Ident)
		condId, _ := is.Cond.(*ast.Ident)
		if okId == nil || condId == nil || okId.Name != condId.Name {
			return bad("condition is not the comma-ok flag")
		}
		ix, ok := as.Rhs[0].(*ast.IndexExpr)
		if !ok {
			return bad("init is not a map index")
		}
		sel, ok1 := ix.X.(*ast.SelectorExpr)
		key, ok2 := ix.Index.(*ast.Ident)
		if !ok1 || !ok2 {
			return bad("map or key not simple")
		}
		retOf := func(b ast.Stmt) *ast.ReturnStmt {
			bl, ok := b.(*ast.BlockStmt)
			if !ok || len(bl.List) != 1 {
				return nil
			}
			r, _ := bl.List[0].(*ast.ReturnStmt)
			if r == nil || len(r.Results) != 2 {
				return nil
			}
			return r
		}
		hit, miss := retOf(is.Body), retOf(is.Else)
		if hit == nil || miss == nil {
			return bad("branches are not single two-value returns")
		}
		hitNil := false
		if id, ok := hit.Results[1].(*ast.Ident); ok && id.Name == "nil" {
			hitNil = true
		}
		missErr := false
		if c, ok := miss.Results[1].(*ast.CallExpr); ok {
			if s, ok := c.Fun.(*ast.SelectorExpr); ok {
				if x, ok := s.X.(*ast.Ident); ok && (x.Name == "fmt" && s.Sel.Name == "Errorf" || x.Name == "errors" && s.Sel.Name == "New") {
					missErr = true
				}
			}
		}
		var mv string
		switch v := miss.Results[0].(type) {
		case *ast.Ident:
			mv = v.Name
		case *ast.BasicLit:
			mv = v.Value
		case *ast.SelectorExpr:
			if n, ok := mathSel(v); ok {
				mv = "math." + n
			}
		case *ast.CallExpr:
			if n, ok := mathSel(v.Fun); ok {
				mv = "math." + n + "(…)"
			}
		}
		return fmt.Sprintf("{ fn := %s, map := %s, key := %s, hitErrNil := %v, missErr := %v, missValue := %s }",
			leanStr(fn), leanStr(sel.Sel.Name), leanStr(key.Name), hitNil, missErr, leanStr(mv))
	}
	lookups := []string{lookup("ActivateByType"), lookup("ActivateModuleByType"), lookup("ActivationTypeFromName"), lookup("ActivationNameFromType")}

	/* closures */
	var realDefs, floatDefs, scalarTbl, moduleTbl []string
	for _, c := range closures {
		do := func(d dialect) (string, error) {
			t := &tr{fset: fset, d: d, locals: map[string]string{c.param: "num"}}
			if c.module {
				t.locals = map[string]string{}
				return t.module(c.param, c.body)
			}
			return t.block(c.body, "  ")
		}
		rd := dReal
		if c.module {
			rd = dEReal
		}
		rs, errR := do(rd)
		fs, errF := do(dFloat)
		if errR != nil || errF != nil {
			e := errR
			if e == nil {
				e = errF
			}
			problem("closure %s: %v", c.name, e)
			rs, fs = "0", "(Float.ofBits 0x7FF8000000000001)"
		}
		p := leanIdent(c.param)
		if c.module {
			realDefs = append(realDefs, fmt.Sprintf("def %s (%s : List ℝ) : EReal := %s\n", c.name, p, rs))
			floatDefs = append(floatDefs, fmt.Sprintf("def %s (%s : List Float) : Float := %s\n", c.name, p, fs))
			moduleTbl = append(moduleTbl, fmt.Sprintf("(%s, %s)", leanStr(c.name), c.name))
		} else {
			realDefs = append(realDefs, fmt.Sprintf("def %s (%s : ℝ) : ℝ := %s\n", c.name, p, rs))
			floatDefs = append(floatDefs, fmt.Sprintf("def %s (%s : Float) : Float := %s\n", c.name, p, fs))
			scalarTbl = append(scalarTbl, fmt.Sprintf("(%s, %s)", leanStr(c.name), c.name))
		}
	}
	sort.Strings(problems)
	var probs []string
	for _, p := range problems {
		probs = append(probs, "  "+leanStr(p))
	}
	untranslated := "[]"
	if len(probs) > 0 {
		untranslated = "[\n" + strings.Join(probs, ",\n") + "]"
	}

	hdr := "/-\n  GENERATED by harness/cmd/gntranslate from neat/math/activations.go on every `./check` run. DO NOT EDIT.\n  %s\n-/\n"

	var rb strings.Builder
	fmt.Fprintf(&rb, hdr, "Bodies of the activation closures as terms over the reals (scalar closures: ℝ → ℝ; module closures: a fold\n  with an EReal accumulator, because their start values can be ±∞). math.Signbit x ↦ x < 0, math.IsNaN x ↦ False.")
	rb.WriteString("import Mathlib.Analysis.Complex.Trigonometric\nimport Mathlib.Data.EReal.Basic\n\nset_option linter.unusedVariables false\n\nnamespace GoNeat.Gen.ActR\nnoncomputable section\n\n")
	rb.WriteString(strings.Join(realDefs, "\n"))
	rb.WriteString("\n/-- scalar closures by Go identifier -/\ndef scalarByName : List (String × (ℝ → ℝ)) := [\n  " + strings.Join(scalarTbl, ",\n  ") + "]\n")
	rb.WriteString("\n/-- module closures by Go identifier (the single element of the returned slice) -/\ndef moduleByName : List (String × (List ℝ → EReal)) := [\n  " + strings.Join(moduleTbl, ",\n  ") + "]\n")
	rb.WriteString("\nend\nend GoNeat.Gen.ActR\n")

	var fb strings.Builder
	fmt.Fprintf(&fb, hdr, "Bodies of the activation closures as executable terms over Float (core Lean only; used by the driver).\n  Numeric literals are the float64 bit patterns the Go compiler produces for them.")
	fb.WriteString("import GoNeat.Model.FloatPrims\n\nset_option linter.unusedVariables false\n\nnamespace GoNeat.Gen.ActF\n\n")
	fb.WriteString(strings.Join(floatDefs, "\n"))
	fb.WriteString("\n/-- scalar closures by Go identifier -/\ndef scalarByName : List (String × (Float → Float)) := [\n  " + strings.Join(scalarTbl, ",\n  ") + "]\n")
	fb.WriteString("\n/-- module closures by Go identifier (the single element of the returned slice) -/\ndef moduleByName : List (String × (List Float → Float)) := [\n  " + strings.Join(moduleTbl, ",\n  ") + "]\n")
	fb.WriteString("\nend GoNeat.Gen.ActF\n")

	var gb strings.Builder
	fmt.Fprintf(&gb, hdr, "The activator registry: the iota const block, the Register/RegisterModule calls of NewNodeActivatorsFactory\n  (in source order), the map writes of Register/RegisterModule, the shape of the four lookup methods, and the list of\n  constructs the translator did not recognise (must be empty).")
	gb.WriteString("import GoNeat.Model.Activations\n\nnamespace GoNeat.Gen.Registry\nopen GoNeat.Act\n\n")
	var cs []string
	for _, c := range consts {
		cs = append(cs, fmt.Sprintf("(%s, %d)", leanStr(c.name), c.code))
	}
	gb.WriteString("/-- the `NodeActivationType` constants: identifier, value -/\ndef consts : List (String × Nat) := [\n  " + strings.Join(cs, ",\n  ") + "]\n\n")
	var rr []string
	for _, r := range regs {
		code, ok := codeOf[r.constName]
		if !ok {
			code = 0
		}
		kind := ".scalar"
		if r.module {
			kind = ".module"
		}
		rr = append(rr, fmt.Sprintf("{ code := %d, const := %s, fn := %s, name := %s, kind := %s }", code, leanStr(r.constName), leanStr(r.fn), leanStr(r.name), kind))
	}
	gb.WriteString("/-- the registrations, in the order NewNodeActivatorsFactory performs them -/\ndef registered : List Reg := [\n  " + strings.Join(rr, ",\n  ") + "]\n\n")
	gb.WriteString("/-- what `Register` writes -/\ndef registerWrites : MapWrites := " + regWrites + "\n\n")
	gb.WriteString("/-- what `RegisterModule` writes -/\ndef registerModuleWrites : MapWrites := " + modWrites + "\n\n")
	gb.WriteString("/-- the four lookup methods -/\ndef lookups : List Lookup := [\n  " + strings.Join(lookups, ",\n  ") + "]\n\n")
	gb.WriteString("/-- constructs the translator did not recognise; fail closed: C18 requires this list to be empty -/\ndef untranslated : List String := " + untranslated + "\n\n")
	gb.WriteString("end GoNeat.Gen.Registry\n")

	return map[string]string{"ActivationsReal.lean": rb.String(), "ActivationsFloat.lean": fb.String(), "Registry.lean": gb.String()}, nil
}
