// loader.go: type-checked view of the goNEAT packages (go/parser + go/types, offline) and a conservative
// call-graph resolver shared by the C16 (shared-memory accesses) and C17 (nondeterminism sources) passes.
//
// Nothing here is a Go semantics.  Calls are resolved statically where possible, interface method calls by
// class-hierarchy analysis over the named types of the repository, callbacks through library calls
// (sort.Sort, fmt.*, gob.Encoder.Encode ...) by the methods the library may invoke on an argument.
// Whatever cannot be resolved is reported as `unresolved` and makes the generated obligations unprovable.
package main

import (
	"bufio"
	"fmt"
	"go/ast"
	"go/importer"
	"go/parser"
	"go/token"
	"go/types"
	"os"
	"path/filepath"
	"sort"
	"strings"
)

// FNode is a function body the passes walk: a declared function/method, or a function literal that is a
// goroutine root or the initialiser of a package-level function variable.
type FNode struct {
	Name string
	Fn   *types.Func   // nil for literals
	Decl *ast.FuncDecl // nil for literals
	Lit  *ast.FuncLit
	Body *ast.BlockStmt
	Pkg  *types.Package
	// for a goroutine-root literal: the enclosing declaration (variables declared there but outside the
	// literal are *captured*)
	Encl *ast.FuncDecl
}

type Prog struct {
	fset    *token.FileSet
	repo    string
	modPath string
	info    *types.Info
	pkgs    map[string]*types.Package
	files   map[string][]*ast.File
	std     types.ImporterFrom
	decls   map[*types.Func]*FNode
	lits    map[*ast.FuncLit]*FNode
	named   []*types.Named
	// package-level variables: initialiser expression and number of assignments anywhere in the loaded code
	varInit     map[*types.Var]ast.Expr
	varAssigned map[*types.Var]int
	loadErrs    []string
}

func readModulePath(repo string) (string, error) {
	f, err := os.Open(filepath.Join(repo, "go.mod"))
	if err != nil {
		return "", err
	}
	defer f.Close()
	sc := bufio.NewScanner(f)
	for sc.Scan() {
		l := strings.TrimSpace(sc.Text())
		if strings.HasPrefix(l, "module ") {
			return strings.TrimSpace(strings.TrimPrefix(l, "module ")), nil
		}
	}
	return "", fmt.Errorf("no module line in go.mod")
}

func hasVerifTag(f *ast.File) bool {
	for _, cg := range f.Comments {
		if cg.Pos() > f.Package {
			break
		}
		for _, c := range cg.List {
			if strings.HasPrefix(c.Text, "//go:build") && strings.Contains(c.Text, "verif") {
				return true
			}
		}
	}
	return false
}

func (p *Prog) Import(path string) (*types.Package, error) { return p.ImportFrom(path, p.repo, 0) }

func (p *Prog) ImportFrom(path, dir string, mode types.ImportMode) (*types.Package, error) {
	if pk, ok := p.pkgs[path]; ok {
		return pk, nil
	}
	if path == p.modPath || strings.HasPrefix(path, p.modPath+"/") {
		d := filepath.Join(p.repo, strings.TrimPrefix(path, p.modPath))
		ents, err := os.ReadDir(d)
		if err != nil {
			return nil, err
		}
		var fs []*ast.File
		for _, e := range ents {
			n := e.Name()
			if e.IsDir() || !strings.HasSuffix(n, ".go") || strings.HasSuffix(n, "_test.go") {
				continue
			}
			f, err := parser.ParseFile(p.fset, filepath.Join(d, n), nil, parser.ParseComments)
			if err != nil {
				return nil, err
			}
			if hasVerifTag(f) {
				continue // hooks behind the verif build tag are not part of the library
			}
			fs = append(fs, f)
		}
		cfg := types.Config{Importer: p, Error: func(err error) { p.loadErrs = append(p.loadErrs, err.Error()) }}
		pk, _ := cfg.Check(path, p.fset, fs, p.info)
		p.pkgs[path] = pk
		p.files[path] = fs
		return pk, nil
	}
	return p.std.ImportFrom(path, p.repo, mode)
}

func loadProg(repo string, roots []string) (*Prog, error) {
	mod, err := readModulePath(repo)
	if err != nil {
		return nil, err
	}
	fset := token.NewFileSet()
	p := &Prog{fset: fset, repo: repo, modPath: mod, pkgs: map[string]*types.Package{}, files: map[string][]*ast.File{},
		decls: map[*types.Func]*FNode{}, lits: map[*ast.FuncLit]*FNode{}, varInit: map[*types.Var]ast.Expr{}, varAssigned: map[*types.Var]int{}}
	p.std = importer.ForCompiler(fset, "source", nil).(types.ImporterFrom)
	p.info = &types.Info{Types: map[ast.Expr]types.TypeAndValue{}, Defs: map[*ast.Ident]types.Object{}, Uses: map[*ast.Ident]types.Object{},
		Selections: map[*ast.SelectorExpr]*types.Selection{}, Implicits: map[ast.Node]types.Object{}, Scopes: map[ast.Node]*types.Scope{}}
	for _, r := range roots {
		if _, err := p.Import(mod + "/" + r); err != nil {
			return nil, err
		}
	}
	if len(p.loadErrs) > 0 {
		return nil, fmt.Errorf("type errors: %s", strings.Join(p.loadErrs, "; "))
	}
	paths := make([]string, 0, len(p.pkgs))
	for k := range p.pkgs {
		paths = append(paths, k)
	}
	sort.Strings(paths)
	for _, path := range paths {
		pk := p.pkgs[path]
		for _, f := range p.files[path] {
			for _, d := range f.Decls {
				switch d := d.(type) {
				case *ast.FuncDecl:
					if d.Body == nil {
						continue
					}
					fn, _ := p.info.Defs[d.Name].(*types.Func)
					if fn != nil {
						p.decls[fn] = &FNode{Name: p.funcName(fn), Fn: fn, Decl: d, Body: d.Body, Pkg: pk}
					}
				case *ast.GenDecl:
					if d.Tok != token.VAR {
						continue
					}
					for _, sp := range d.Specs {
						vs := sp.(*ast.ValueSpec)
						for i, nm := range vs.Names {
							v, _ := p.info.Defs[nm].(*types.Var)
							if v != nil && i < len(vs.Values) {
								p.varInit[v] = vs.Values[i]
							}
						}
					}
				}
			}
			// assignments to package-level variables anywhere
			ast.Inspect(f, func(n ast.Node) bool {
				switch s := n.(type) {
				case *ast.AssignStmt:
					for _, l := range s.Lhs {
						if v := p.pkgVarOf(l); v != nil {
							p.varAssigned[v]++
						}
					}
				case *ast.IncDecStmt:
					if v := p.pkgVarOf(s.X); v != nil {
						p.varAssigned[v]++
					}
				case *ast.UnaryExpr:
					if s.Op == token.AND {
						if v := p.pkgVarOf(s.X); v != nil {
							p.varAssigned[v]++ // address taken: may be written through the pointer
						}
					}
				}
				return true
			})
		}
		sc := pk.Scope()
		for _, nm := range sc.Names() {
			if tn, ok := sc.Lookup(nm).(*types.TypeName); ok {
				if nt, ok := tn.Type().(*types.Named); ok {
					p.named = append(p.named, nt)
				}
			}
		}
	}
	return p, nil
}

func (p *Prog) isRepoPkg(pk *types.Package) bool {
	if pk == nil {
		return false
	}
	_, ok := p.pkgs[pk.Path()]
	return ok
}

func (p *Prog) pkgVarOf(e ast.Expr) *types.Var {
	e = ast.Unparen(e)
	var id *ast.Ident
	switch x := e.(type) {
	case *ast.Ident:
		id = x
	case *ast.SelectorExpr:
		if _, isSel := p.info.Selections[x]; isSel {
			return nil
		}
		id = x.Sel
	default:
		return nil
	}
	obj := p.info.Uses[id]
	if obj == nil {
		obj = p.info.Defs[id]
	}
	v, ok := obj.(*types.Var)
	if !ok || v.IsField() || v.Pkg() == nil {
		return nil
	}
	if v.Parent() == v.Pkg().Scope() {
		return v
	}
	return nil
}

func (p *Prog) shortPkg(pk *types.Package) string {
	if pk == nil {
		return ""
	}
	return pk.Name()
}

func (p *Prog) qualifier(pk *types.Package) string { return p.shortPkg(pk) }

func (p *Prog) typeStr(t types.Type) string { return types.TypeString(t, p.qualifier) }

func (p *Prog) funcName(fn *types.Func) string {
	sig, _ := fn.Type().(*types.Signature)
	if sig != nil && sig.Recv() != nil {
		return "(" + p.typeStr(sig.Recv().Type()) + ")." + fn.Name()
	}
	if fn.Pkg() != nil {
		return fn.Pkg().Name() + "." + fn.Name()
	}
	return fn.Name()
}

func (p *Prog) extName(fn *types.Func) string {
	sig, _ := fn.Type().(*types.Signature)
	if sig != nil && sig.Recv() != nil {
		return "(" + types.TypeString(sig.Recv().Type(), func(pk *types.Package) string { return pk.Path() }) + ")." + fn.Name()
	}
	if fn.Pkg() != nil {
		return fn.Pkg().Path() + "." + fn.Name()
	}
	return fn.Name()
}

func (p *Prog) pos(n ast.Node) string {
	ps := p.fset.Position(n.Pos())
	rel, err := filepath.Rel(p.repo, ps.Filename)
	if err != nil {
		rel = ps.Filename
	}
	return fmt.Sprintf("%s:%d", rel, ps.Line)
}

func (p *Prog) litNode(lit *ast.FuncLit, name string, pk *types.Package, encl *ast.FuncDecl) *FNode {
	if n, ok := p.lits[lit]; ok {
		return n
	}
	n := &FNode{Name: name, Lit: lit, Body: lit.Body, Pkg: pk, Encl: encl}
	p.lits[lit] = n
	return n
}

func derefNamed(t types.Type) *types.Named {
	if pt, ok := t.Underlying().(*types.Pointer); ok {
		t = pt.Elem()
	}
	if pt, ok := t.(*types.Pointer); ok {
		t = pt.Elem()
	}
	n, _ := t.(*types.Named)
	return n
}

// wellKnown: methods a library function taking `any` may invoke on its argument (fmt, encoding/gob, json ...)
var wellKnown = []string{"String", "Error", "Format", "GoString", "MarshalBinary", "MarshalText", "MarshalJSON", "GobEncode", "MarshalYAML"}

// wellKnownDecode: additionally when the callee's name says it decodes / scans / reads into its argument
var wellKnownDecode = []string{"UnmarshalBinary", "UnmarshalText", "UnmarshalJSON", "GobDecode", "UnmarshalYAML", "Scan"}

func decodes(name string) bool {
	for _, k := range []string{"Decode", "Unmarshal", "Scan", "Read", "Load", "Parse"} {
		if strings.Contains(name, k) {
			return true
		}
	}
	return false
}

// CallRes is the resolution of one call expression
type CallRes struct {
	Nodes      []*FNode // repository bodies that may run
	Ext        []string // external functions / interface methods without repository implementation
	Unresolved []string // fail-closed: calls through function values that cannot be resolved
	Builtin    string
	Conversion bool
	ExtFn      *types.Func // the statically known external callee, if any
	PkgVarRead *types.Var  // call through a package-level function variable: that variable is read
}

func (p *Prog) methodOn(t types.Type, name string, pk *types.Package) *types.Func {
	ms := types.NewMethodSet(t)
	for i := 0; i < ms.Len(); i++ {
		m := ms.At(i)
		if m.Obj().Name() == name {
			if fn, ok := m.Obj().(*types.Func); ok {
				return fn
			}
		}
	}
	return nil
}

func (p *Prog) nodeOfFunc(fn *types.Func) *FNode {
	if fn == nil {
		return nil
	}
	fn = fn.Origin()
	if n, ok := p.decls[fn]; ok {
		return n
	}
	return nil
}

// implementations of interface method `name` of interface type `it` among the repository's named types
func (p *Prog) implementations(it types.Type, name string) []*FNode {
	iface, ok := it.Underlying().(*types.Interface)
	if !ok {
		return nil
	}
	var res []*FNode
	for _, nt := range p.named {
		if types.IsInterface(nt) {
			continue
		}
		var recv types.Type
		if types.Implements(nt, iface) {
			recv = nt
		} else if pt := types.NewPointer(nt); types.Implements(pt, iface) {
			recv = pt
		} else {
			continue
		}
		if fn := p.methodOn(recv, name, nil); fn != nil {
			if n := p.nodeOfFunc(fn); n != nil {
				res = append(res, n)
			}
		}
	}
	return res
}

// repository named types structurally reachable from t (what fmt/gob may find inside a value)
func (p *Prog) reachNamed(t types.Type, seen map[types.Type]bool, depth int, out *[]types.Type) {
	if t == nil || seen[t] || depth > 6 {
		return
	}
	seen[t] = true
	switch u := t.(type) {
	case *types.Named:
		if u.Obj() != nil && p.isRepoPkg(u.Obj().Pkg()) {
			*out = append(*out, u)
		}
		p.reachNamed(u.Underlying(), seen, depth+1, out)
	case *types.Pointer:
		if n, ok := u.Elem().(*types.Named); ok && n.Obj() != nil && p.isRepoPkg(n.Obj().Pkg()) {
			*out = append(*out, u)
		}
		p.reachNamed(u.Elem(), seen, depth+1, out)
	case *types.Slice:
		p.reachNamed(u.Elem(), seen, depth+1, out)
	case *types.Array:
		p.reachNamed(u.Elem(), seen, depth+1, out)
	case *types.Map:
		p.reachNamed(u.Key(), seen, depth+1, out)
		p.reachNamed(u.Elem(), seen, depth+1, out)
	case *types.Struct:
		for i := 0; i < u.NumFields(); i++ {
			p.reachNamed(u.Field(i).Type(), seen, depth+1, out)
		}
	}
}

// callbacks: methods of repository types an external callee may invoke on its arguments
func (p *Prog) callbacks(call *ast.CallExpr, sig *types.Signature, callee string) []*FNode {
	var res []*FNode
	names := wellKnown
	if decodes(callee) {
		names = append(append([]string{}, wellKnown...), wellKnownDecode...)
	}
	if sig == nil {
		return nil
	}
	params := sig.Params()
	for i, a := range call.Args {
		var pt types.Type
		if sig.Variadic() && i >= params.Len()-1 {
			pt = params.At(params.Len() - 1).Type()
			if sl, ok := pt.(*types.Slice); ok && call.Ellipsis == token.NoPos {
				pt = sl.Elem()
			}
		} else if i < params.Len() {
			pt = params.At(i).Type()
		}
		if pt == nil {
			continue
		}
		at := p.info.TypeOf(a)
		if at == nil {
			continue
		}
		iface, isIface := pt.Underlying().(*types.Interface)
		if !isIface {
			continue
		}
		var cands []types.Type
		p.reachNamed(at, map[types.Type]bool{}, 0, &cands)
		for _, ct := range cands {
			if iface.NumMethods() > 0 && ct == at {
				for k := 0; k < iface.NumMethods(); k++ {
					if fn := p.methodOn(ct, iface.Method(k).Name(), nil); fn != nil {
						if n := p.nodeOfFunc(fn); n != nil {
							res = append(res, n)
						}
					}
				}
			}
			for _, nm := range names {
				if fn := p.methodOn(ct, nm, nil); fn != nil {
					if n := p.nodeOfFunc(fn); n != nil {
						res = append(res, n)
					}
				}
			}
		}
	}
	return res
}

// localFuncVarOk: a call through a local variable of function type is fine when every assignment to it in the
// enclosing body is a function literal (whose body is walked inline anyway)
func (p *Prog) localFuncVarOk(v *types.Var, body *ast.BlockStmt) bool {
	ok := false
	bad := false
	ast.Inspect(body, func(n ast.Node) bool {
		switch s := n.(type) {
		case *ast.AssignStmt:
			for i, l := range s.Lhs {
				id, isId := ast.Unparen(l).(*ast.Ident)
				if !isId {
					continue
				}
				obj := p.info.Defs[id]
				if obj == nil {
					obj = p.info.Uses[id]
				}
				if obj != v {
					continue
				}
				if len(s.Rhs) == len(s.Lhs) {
					if _, isLit := ast.Unparen(s.Rhs[i]).(*ast.FuncLit); isLit {
						ok = true
						continue
					}
				}
				bad = true
			}
		case *ast.ValueSpec:
			for i, nm := range s.Names {
				if p.info.Defs[nm] == v {
					if i < len(s.Values) {
						if _, isLit := ast.Unparen(s.Values[i]).(*ast.FuncLit); isLit {
							ok = true
							continue
						}
					}
					bad = true
				}
			}
		}
		return true
	})
	return ok && !bad
}

func (p *Prog) resolveCall(call *ast.CallExpr, encl *ast.BlockStmt) CallRes {
	var r CallRes
	fun := ast.Unparen(call.Fun)
	if tv, ok := p.info.Types[fun]; ok && tv.IsType() {
		r.Conversion = true
		return r
	}
	static := func(fn *types.Func) {
		if n := p.nodeOfFunc(fn); n != nil {
			r.Nodes = append(r.Nodes, n)
			return
		}
		if p.isRepoPkg(fn.Pkg()) {
			// declared in the repository without a body we know (should not happen)
			r.Unresolved = append(r.Unresolved, "no body for "+p.funcName(fn))
			return
		}
		r.ExtFn = fn
		r.Ext = append(r.Ext, p.extName(fn))
		sig, _ := fn.Type().(*types.Signature)
		r.Nodes = append(r.Nodes, p.callbacks(call, sig, fn.Name())...)
	}
	funcVar := func(v *types.Var, what string) {
		if v.Pkg() != nil && v.Parent() == v.Pkg().Scope() {
			r.PkgVarRead = v
			if !p.isRepoPkg(v.Pkg()) {
				r.Ext = append(r.Ext, v.Pkg().Path()+"."+v.Name()+" (function variable)")
				return
			}
			init, has := p.varInit[v]
			lit, isLit := ast.Unparen(init).(*ast.FuncLit)
			if has && isLit && p.varAssigned[v] == 0 {
				r.Nodes = append(r.Nodes, p.litNode(lit, v.Pkg().Name()+"."+v.Name()+"$lit", v.Pkg(), nil))
				return
			}
			r.Unresolved = append(r.Unresolved, "call through reassignable package variable "+v.Pkg().Name()+"."+v.Name())
			return
		}
		if !v.IsField() && encl != nil && p.localFuncVarOk(v, encl) {
			return // literal bodies are walked inline
		}
		r.Unresolved = append(r.Unresolved, "call through function value "+what)
	}
	switch f := fun.(type) {
	case *ast.Ident:
		switch o := p.info.Uses[f].(type) {
		case *types.Builtin:
			r.Builtin = o.Name()
		case *types.Func:
			static(o)
		case *types.Var:
			funcVar(o, f.Name)
		case *types.TypeName:
			r.Conversion = true
		case nil:
			r.Unresolved = append(r.Unresolved, "unknown callee "+f.Name)
		default:
			r.Unresolved = append(r.Unresolved, "unexpected callee "+f.Name)
		}
	case *ast.SelectorExpr:
		if sel, ok := p.info.Selections[f]; ok {
			switch sel.Kind() {
			case types.MethodVal, types.MethodExpr:
				fn := sel.Obj().(*types.Func)
				recv := sel.Recv()
				if types.IsInterface(recv) {
					impls := p.implementations(recv, fn.Name())
					r.Nodes = append(r.Nodes, impls...)
					named := derefNamed(recv)
					external := named == nil || named.Obj() == nil || !p.isRepoPkg(named.Obj().Pkg())
					if external || len(impls) == 0 {
						r.Ext = append(r.Ext, "iface:"+types.TypeString(recv, func(pk *types.Package) string { return pk.Path() })+"."+fn.Name())
					}
				} else {
					static(fn)
				}
			case types.FieldVal:
				if v, ok := sel.Obj().(*types.Var); ok {
					funcVar(v, p.exprStr(f))
				}
			}
		} else {
			switch o := p.info.Uses[f.Sel].(type) {
			case *types.Func:
				static(o)
			case *types.Var:
				funcVar(o, p.exprStr(f))
			case *types.TypeName:
				r.Conversion = true
			case *types.Builtin:
				r.Builtin = o.Name()
			default:
				r.Unresolved = append(r.Unresolved, "unknown qualified callee "+p.exprStr(f))
			}
		}
	case *ast.FuncLit:
		// immediately invoked literal: body is walked inline
	case *ast.ArrayType, *ast.MapType, *ast.ChanType, *ast.FuncType, *ast.InterfaceType, *ast.StructType, *ast.StarExpr:
		r.Conversion = true
	default:
		r.Unresolved = append(r.Unresolved, "computed callee "+p.exprStr(fun))
	}
	return r
}

func (p *Prog) exprStr(e ast.Expr) string {
	return types.ExprString(e)
}

// funcValueRefs: repository functions / methods referenced as VALUES (not in call position) inside n; they may be called later
func (p *Prog) funcValueRefs(root ast.Node) []*FNode {
	callFuns := map[ast.Expr]bool{}
	ast.Inspect(root, func(n ast.Node) bool {
		if c, ok := n.(*ast.CallExpr); ok {
			callFuns[ast.Unparen(c.Fun)] = true
		}
		return true
	})
	var res []*FNode
	ast.Inspect(root, func(n ast.Node) bool {
		switch e := n.(type) {
		case *ast.SelectorExpr:
			if callFuns[e] {
				return true
			}
			if sel, ok := p.info.Selections[e]; ok {
				if sel.Kind() == types.MethodVal || sel.Kind() == types.MethodExpr {
					if fn, ok := sel.Obj().(*types.Func); ok {
						if types.IsInterface(sel.Recv()) {
							res = append(res, p.implementations(sel.Recv(), fn.Name())...)
						} else if nd := p.nodeOfFunc(fn); nd != nil {
							res = append(res, nd)
						}
					}
				}
			} else if fn, ok := p.info.Uses[e.Sel].(*types.Func); ok {
				if nd := p.nodeOfFunc(fn); nd != nil {
					res = append(res, nd)
				}
			}
			return true
		case *ast.Ident:
			if callFuns[e] {
				return true
			}
			if fn, ok := p.info.Uses[e].(*types.Func); ok {
				if nd := p.nodeOfFunc(fn); nd != nil {
					res = append(res, nd)
				}
			}
		}
		return true
	})
	return res
}

// findMethod: declared method `name` of named type `typ` in package with short name `pkg`
func (p *Prog) findMethod(pkg, typ, name string) *FNode {
	for fn, n := range p.decls {
		if fn.Name() != name || fn.Pkg() == nil || fn.Pkg().Name() != pkg {
			continue
		}
		sig := fn.Type().(*types.Signature)
		if typ == "" {
			if sig.Recv() == nil {
				return n
			}
			continue
		}
		if sig.Recv() == nil {
			continue
		}
		if nt := derefNamed(sig.Recv().Type()); nt != nil && nt.Obj().Name() == typ {
			return n
		}
	}
	return nil
}
