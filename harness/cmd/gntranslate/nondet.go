// nondet.go: C17 translator pass.  Emits lean/GoNeat/Gen/NonDet.lean: every construct, in functions reachable from
// genetics.NewPopulation and (*SequentialPopulationEpochExecutor).NextEpoch, through which something other than
// the inputs and the seeded random stream could influence the outcome:
//
//   mapRange     `range` over a map-typed expression (iteration order is randomised by the runtime)
//   time         any call into package time
//   go           goroutine creation          select / chan   scheduling-dependent communication
//   ptrFormat    %p, or a pointer-carrying value without String/Error/Format method handed to fmt / log
//   randSource   rand.New / rand.NewSource / rand.Seed / crypto/rand / math/rand/v2 top-level (runtime seeded)
//   env          os.Getenv / Environ / Hostname / Getpid ...
//   runtime      any call into package runtime (NumCPU, NumGoroutine, Caller, ...)
//   unsafe       unsafe.Pointer conversions, reflect Value.Pointer/UnsafeAddr/UnsafePointer (addresses as data)
//   unresolved   a call the extractor cannot resolve (fail closed: reachability would be incomplete)
package main

import (
	"fmt"
	"go/ast"
	"go/constant"
	"go/token"
	"go/types"
	"sort"
	"strings"
)

type ndRow struct{ Fn, Kind, What, Pos string }

func (p *Prog) isCtxDonePoll(s *ast.SelectStmt) bool {
	// select { case <-ctx.Done(): ... default: ... }  with ctx a context.Context
	if len(s.Body.List) != 2 {
		return false
	}
	haveDefault, haveDone := false, false
	for _, c := range s.Body.List {
		cc := c.(*ast.CommClause)
		if cc.Comm == nil {
			haveDefault = true
			continue
		}
		es, ok := cc.Comm.(*ast.ExprStmt)
		if !ok {
			return false
		}
		u, ok := ast.Unparen(es.X).(*ast.UnaryExpr)
		if !ok || u.Op != token.ARROW {
			return false
		}
		call, ok := ast.Unparen(u.X).(*ast.CallExpr)
		if !ok {
			return false
		}
		sel, ok := ast.Unparen(call.Fun).(*ast.SelectorExpr)
		if !ok || sel.Sel.Name != "Done" {
			return false
		}
		t := p.info.TypeOf(sel.X)
		if t == nil || types.TypeString(t, nil) != "context.Context" {
			return false
		}
		haveDone = true
	}
	return haveDefault && haveDone
}

var fmtLike = map[string]bool{
	"fmt.Sprintf": true, "fmt.Printf": true, "fmt.Fprintf": true, "fmt.Errorf": true, "fmt.Sprint": true, "fmt.Sprintln": true,
	"fmt.Print": true, "fmt.Println": true, "fmt.Fprint": true, "fmt.Fprintln": true, "fmt.Appendf": true,
	"log.Printf": true, "log.Print": true, "log.Println": true, "log.Fatalf": true, "log.Fatal": true, "log.Panicf": true,
	"github.com/pkg/errors.Errorf": true, "github.com/pkg/errors.Wrapf": true, "github.com/pkg/errors.Wrap": true,
	"github.com/pkg/errors.New": true, "github.com/pkg/errors.WithMessagef": true,
}

// carriesAddress: would fmt print a memory address for a value of this type (no String/Error/Format method on the way)?
func (p *Prog) carriesAddress(t types.Type, seen map[types.Type]bool, depth int) bool {
	if t == nil || seen[t] || depth > 8 {
		return false
	}
	seen[t] = true
	for _, m := range []string{"String", "Error", "Format", "GoString"} {
		if p.methodOn(t, m, nil) != nil {
			return false
		}
	}
	switch u := t.Underlying().(type) {
	case *types.Pointer:
		if depth == 0 {
			// top-level pointer to struct/array/slice/map is printed as &{...}; its fields at depth>0 print addresses
			switch u.Elem().Underlying().(type) {
			case *types.Struct, *types.Array, *types.Slice, *types.Map:
				return p.carriesAddress(u.Elem(), seen, depth+1)
			}
		}
		return true
	case *types.Chan, *types.Signature:
		return true
	case *types.Basic:
		return u.Kind() == types.UnsafePointer || u.Kind() == types.Uintptr && false
	case *types.Struct:
		for i := 0; i < u.NumFields(); i++ {
			if p.carriesAddress(u.Field(i).Type(), seen, depth+1) {
				return true
			}
		}
	case *types.Slice:
		return p.carriesAddress(u.Elem(), seen, depth+1)
	case *types.Array:
		return p.carriesAddress(u.Elem(), seen, depth+1)
	case *types.Map:
		return p.carriesAddress(u.Key(), seen, depth+1) || p.carriesAddress(u.Elem(), seen, depth+1)
	case *types.Interface:
		return false // dynamic type unknown; `error` and Stringers are the values passed in this code base
	}
	return false
}

func translateNonDet(p *Prog) string {
	var roots []*FNode
	var rows []ndRow
	add := func(fn *FNode, n ast.Node, kind, what string) {
		rows = append(rows, ndRow{fn.Name, kind, what, p.pos(n)})
	}
	missing := []string{}
	if n := p.findMethod("genetics", "", "NewPopulation"); n != nil {
		roots = append(roots, n)
	} else {
		missing = append(missing, "genetics.NewPopulation")
	}
	if n := p.findMethod("genetics", "SequentialPopulationEpochExecutor", "NextEpoch"); n != nil {
		roots = append(roots, n)
	} else {
		missing = append(missing, "(*genetics.SequentialPopulationEpochExecutor).NextEpoch")
	}
	pollRecv := map[ast.Node]bool{} // the `<-ctx.Done()` of a cancellation poll is reported once, as selectCtxPoll
	seen := map[*FNode]bool{}
	work := append([]*FNode{}, roots...)
	for _, r := range roots {
		seen[r] = true
	}
	push := func(n *FNode) {
		if n != nil && !seen[n] {
			seen[n] = true
			work = append(work, n)
		}
	}
	for len(work) > 0 {
		fn := work[0]
		work = work[1:]
		for _, nd := range p.funcValueRefs(fn.Body) {
			push(nd)
		}
		ast.Inspect(fn.Body, func(n ast.Node) bool {
			switch s := n.(type) {
			case *ast.RangeStmt:
				if t := p.info.TypeOf(s.X); t != nil {
					if _, ok := t.Underlying().(*types.Map); ok {
						add(fn, s, "mapRange", "range "+types.ExprString(s.X)+" : "+p.typeStr(t))
					}
					if _, ok := t.Underlying().(*types.Chan); ok {
						add(fn, s, "chan", "range over channel "+types.ExprString(s.X))
					}
				}
			case *ast.GoStmt:
				add(fn, s, "goStmt", "go "+types.ExprString(s.Call.Fun))
			case *ast.SelectStmt:
				if p.isCtxDonePoll(s) {
					for _, c := range s.Body.List {
						if cc := c.(*ast.CommClause); cc.Comm != nil {
							pollRecv[ast.Unparen(cc.Comm.(*ast.ExprStmt).X)] = true
						}
					}
					add(fn, s, "selectCtxPoll", "select { case <-ctx.Done(): ...; default: }")
				} else {
					add(fn, s, "selectStmt", "select statement")
				}
			case *ast.SendStmt:
				add(fn, s, "chan", "channel send")
			case *ast.UnaryExpr:
				if s.Op == token.ARROW && !pollRecv[s] {
					add(fn, s, "chan", "channel receive "+types.ExprString(s.X))
				}
			case *ast.CallExpr:
				res := p.resolveCall(s, fn.Body)
				for _, u := range res.Unresolved {
					add(fn, s, "unresolved", u)
				}
				for _, nd := range res.Nodes {
					push(nd)
				}
				if res.Conversion {
					if tv, ok := p.info.Types[ast.Unparen(s.Fun)]; ok && tv.IsType() {
						if b, ok := tv.Type.Underlying().(*types.Basic); ok && b.Kind() == types.UnsafePointer {
							add(fn, s, "unsafePtr", "conversion to unsafe.Pointer")
						}
						if b, ok := tv.Type.Underlying().(*types.Basic); ok && b.Kind() == types.Uintptr && len(s.Args) == 1 {
							if at := p.info.TypeOf(s.Args[0]); at != nil {
								if ab, ok := at.Underlying().(*types.Basic); ok && ab.Kind() == types.UnsafePointer {
									add(fn, s, "unsafePtr", "uintptr of a pointer")
								}
							}
						}
					}
				}
				for _, e := range res.Ext {
					name := e
					switch {
					case strings.HasPrefix(name, "time.") || strings.HasPrefix(name, "(time.") || strings.HasPrefix(name, "(*time."):
						add(fn, s, "time", name)
					case strings.HasPrefix(name, "runtime.") || strings.HasPrefix(name, "runtime/") || strings.HasPrefix(name, "(*runtime."):
						add(fn, s, "runtime", name)
					case strings.HasPrefix(name, "crypto/rand.") || strings.HasPrefix(name, "math/rand/v2."):
						add(fn, s, "randSource", name)
					case name == "math/rand.New" || name == "math/rand.NewSource" || name == "math/rand.Seed" || name == "math/rand.NewZipf":
						add(fn, s, "randSource", name)
					case strings.HasPrefix(name, "(*math/rand.Rand)."):
						add(fn, s, "randSource", name+" (private generator)")
					case name == "os.Getenv" || name == "os.LookupEnv" || name == "os.Environ" || name == "os.Hostname" || name == "os.Getpid" ||
						name == "os.Getppid" || name == "os.Getwd" || name == "os.Getuid" || name == "os.UserHomeDir" || name == "os.Executable" ||
						name == "os.ExpandEnv":
						add(fn, s, "env", name)
					case strings.HasPrefix(name, "(reflect.Value).Pointer") || strings.HasPrefix(name, "(reflect.Value).UnsafeAddr") ||
						strings.HasPrefix(name, "(reflect.Value).UnsafePointer"):
						add(fn, s, "unsafePtr", name)
					case strings.HasPrefix(name, "(*sync.Map).Range") || strings.HasPrefix(name, "(*sync.Pool)."):
						add(fn, s, "runtime", name)
					}
					if fmtLike[name] {
						for _, a := range s.Args {
							if tv, ok := p.info.Types[a]; ok && tv.Value != nil && tv.Value.Kind() == constant.String {
								if strings.Contains(constant.StringVal(tv.Value), "%p") {
									add(fn, s, "ptrFormat", "%p in format string of "+name)
								}
								continue
							}
							at := p.info.TypeOf(a)
							if at == nil {
								continue
							}
							if _, isIface := at.Underlying().(*types.Interface); isIface {
								continue
							}
							if p.carriesAddress(at, map[types.Type]bool{}, 0) {
								add(fn, s, "ptrFormat", fmt.Sprintf("%s formats %s of type %s (prints addresses)", name, types.ExprString(a), p.typeStr(at)))
							}
						}
					}
				}
			}
			return true
		})
	}
	sort.Slice(rows, func(i, j int) bool {
		if rows[i].Kind != rows[j].Kind {
			return rows[i].Kind < rows[j].Kind
		}
		if rows[i].Fn != rows[j].Fn {
			return rows[i].Fn < rows[j].Fn
		}
		if rows[i].Pos != rows[j].Pos {
			return rows[i].Pos < rows[j].Pos
		}
		return rows[i].What < rows[j].What
	})
	var sb strings.Builder
	sb.WriteString("/- GENERATED by harness/cmd/gntranslate (nondet.go) from the Go sources - do not edit.\n")
	sb.WriteString("   Sources of nondeterminism reachable from genetics.NewPopulation and\n")
	sb.WriteString("   (*SequentialPopulationEpochExecutor).NextEpoch (C17). -/\n")
	sb.WriteString("import GoNeat.Spec.NonDetTable\n\nnamespace GoNeat.Gen\nopen GoNeat.NonDetTable\n\n")
	sb.WriteString("def nondetSources : List NonDetSource := [\n")
	uniq := []ndRow{}
	for i, r := range rows {
		if i > 0 && r == rows[i-1] {
			continue
		}
		uniq = append(uniq, r)
	}
	for i, r := range uniq {
		sep := ","
		if i == len(uniq)-1 {
			sep = ""
		}
		fmt.Fprintf(&sb, "  ⟨%s, .%s, %s, %s⟩%s\n", leanStr(r.Fn), r.Kind, leanStr(r.What), leanStr(r.Pos), sep)
	}
	sb.WriteString("]\n\n")
	sb.WriteString("/-- roots that could not be found (the obligation requires []) -/\n")
	sb.WriteString("def nondetMissingRoots : List String := [")
	for i, m := range missing {
		if i > 0 {
			sb.WriteString(", ")
		}
		sb.WriteString(leanStr(m))
	}
	sb.WriteString("]\n\n")
	names := []string{}
	for n := range seen {
		names = append(names, n.Name)
	}
	sort.Strings(names)
	sb.WriteString("/-- function bodies walked -/\ndef nondetReached : List String := [\n")
	for i, n := range names {
		sep := ","
		if i == len(names)-1 {
			sep = ""
		}
		fmt.Fprintf(&sb, "  %s%s\n", leanStr(n), sep)
	}
	sb.WriteString("]\n\nend GoNeat.Gen\n")
	return sb.String()
}
