// gntranslate: regenerates small Lean files from the Go sources of /repo (DESIGN §2.5b).
//
//	gntranslate -repo /repo -out lean/GoNeat/Gen
//
// A file is written only when its content changed (so `lake build` stays incremental).  The translators are
// pattern extractors, not a Go semantics: every construct they do not recognise is recorded in the generated
// `untranslated` list (which a theorem requires to be empty) and the affected definition is replaced by a
// dummy (`0` over the reals, NaN over Float), so an unrecognised construct can never be silently dropped.
package main

import (
	"bytes"
	"flag"
	"fmt"
	"os"
	"path/filepath"
)

func writeIfChanged(path string, content []byte) error {
	old, err := os.ReadFile(path)
	if err == nil && bytes.Equal(old, content) {
		fmt.Printf("unchanged %s\n", path)
		return nil
	}
	if err := os.MkdirAll(filepath.Dir(path), 0o755); err != nil {
		return err
	}
	tmp := path + ".tmp"
	if err := os.WriteFile(tmp, content, 0o644); err != nil {
		return err
	}
	fmt.Printf("updated   %s\n", path)
	return os.Rename(tmp, path)
}

func main() {
	repo := flag.String("repo", "/repo", "goNEAT repository root")
	out := flag.String("out", "lean/GoNeat/Gen", "output directory for the generated Lean files")
	flag.Parse()
	files, err := translateActivations(filepath.Join(*repo, "neat", "math", "activations.go"))
	if err != nil {
		// even a parse error must not leave stale generated files behind: fail the run
		fmt.Fprintf(os.Stderr, "gntranslate: %v\n", err)
		os.Exit(1)
	}
	// C15: codec tables (done before the chdir below; translateCodec takes the repository root)
	codecFiles, err := translateCodec(*repo)
	if err != nil {
		fmt.Fprintf(os.Stderr, "gntranslate: %v\n", err)
		os.Exit(1)
	}
	for name, content := range codecFiles {
		files[name] = content
	}
	// C16 / C17: type-checked passes over neat/genetics and everything it imports from the repository
	// the source importer resolves third-party imports through `go list`, which must run inside the repository's module
	// (never let it touch go.mod / go.sum there)
	absOut, _ := filepath.Abs(*out)
	*out = absOut
	absRepo, _ := filepath.Abs(*repo)
	*repo = absRepo
	_ = os.Setenv("GOFLAGS", "-mod=readonly")
	if err := os.Chdir(*repo); err != nil {
		fmt.Fprintf(os.Stderr, "gntranslate: %v\n", err)
		os.Exit(1)
	}
	prog, err := loadProg(*repo, []string{"neat/genetics"})
	if err != nil {
		fmt.Fprintf(os.Stderr, "gntranslate: %v\n", err)
		os.Exit(1)
	}
	files["Access.lean"] = translateAccess(prog)
	files["NonDet.lean"] = translateNonDet(prog)
	for name, content := range files {
		if err := writeIfChanged(filepath.Join(*out, name), []byte(content)); err != nil {
			fmt.Fprintf(os.Stderr, "gntranslate: %v\n", err)
			os.Exit(1)
		}
	}
}
