// codec.go: the C15 pass of gntranslate.  Extracts from /repo, with go/parser + go/ast only,
//
//   - the ordered value sequences of the gob Encode/Decode pairs (Experiment, Trial, Generation, champion organism)
//     and of Organism.MarshalBinary/UnmarshalBinary,
//   - the keys (with the Go type of the value written / the conversion applied when read) of the YAML genome
//     writer and reader functions,
//   - the JSON struct tags of the fast-solver model, the fields the constructor of the data holder sets and the
//     fields ReadFMNSModel uses,
//   - the Fprintf/Fprint/Fprintln calls of the plain genome writer and the Fscanf/ParseInt calls of the plain reader,
//
// and writes lean/GoNeat/Gen/Codec.lean.  It is a pattern extractor: a statement that is none of the recognised
// patterns becomes a `Step.unknown`/entry of `untranslated`, which makes the obligations of Props/C15.lean
// unprovable (fail closed).
package main

import (
	"fmt"
	"go/ast"
	"go/parser"
	"go/token"
	"go/types"
	"io/fs"
	"path/filepath"
	"sort"
	"strconv"
	"strings"
)

type codecTr struct {
	fset         *token.FileSet
	structs      map[string]map[string]string // type name -> field -> type
	structOrder  map[string][]string
	structTags   map[string]map[string]string
	named        map[string]string // named non-struct types -> underlying type expr
	funcs        map[string]*ast.FuncDecl
	untranslated []string
}

func (c *codecTr) bad(n ast.Node, format string, a ...interface{}) string {
	msg := fmt.Sprintf(format, a...)
	if n != nil {
		p := c.fset.Position(n.Pos())
		msg = fmt.Sprintf("%s:%d: %s", filepath.Base(p.Filename), p.Line, msg)
	}
	c.untranslated = append(c.untranslated, msg)
	return msg
}

func expr(e ast.Expr) string { return types.ExprString(e) }

func (c *codecTr) load(repo string, dirs ...string) error {
	for _, d := range dirs {
		pkgs, err := parser.ParseDir(c.fset, filepath.Join(repo, d), func(fi fs.FileInfo) bool {
			n := fi.Name()
			return !strings.HasSuffix(n, "_test.go") && !strings.HasPrefix(n, "verif_export")
		}, 0)
		if err != nil {
			return err
		}
		for _, pkg := range pkgs {
			names := make([]string, 0, len(pkg.Files))
			for n := range pkg.Files {
				names = append(names, n)
			}
			sort.Strings(names)
			for _, n := range names {
				for _, decl := range pkg.Files[n].Decls {
					switch d := decl.(type) {
					case *ast.GenDecl:
						for _, sp := range d.Specs {
							ts, ok := sp.(*ast.TypeSpec)
							if !ok {
								continue
							}
							if st, ok := ts.Type.(*ast.StructType); ok {
								fields, tags := map[string]string{}, map[string]string{}
								var order []string
								for _, f := range st.Fields.List {
									ty := expr(f.Type)
									tag := ""
									if f.Tag != nil {
										tag, _ = strconv.Unquote(f.Tag.Value)
									}
									if len(f.Names) == 0 { // embedded
										nm := strings.TrimPrefix(ty, "*")
										if i := strings.LastIndex(nm, "."); i >= 0 {
											nm = nm[i+1:]
										}
										fields[nm], tags[nm] = ty, tag
										order = append(order, nm)
									}
									for _, nm := range f.Names {
										fields[nm.Name], tags[nm.Name] = ty, tag
										order = append(order, nm.Name)
									}
								}
								c.structs[ts.Name.Name], c.structOrder[ts.Name.Name], c.structTags[ts.Name.Name] = fields, order, tags
							} else {
								c.named[ts.Name.Name] = expr(ts.Type)
							}
						}
					case *ast.FuncDecl:
						name := d.Name.Name
						if d.Recv != nil && len(d.Recv.List) == 1 {
							name = strings.TrimPrefix(expr(d.Recv.List[0].Type), "*") + "." + name
						}
						c.funcs[name] = d
					}
				}
			}
		}
	}
	return nil
}

func bare(ty string) string {
	ty = strings.TrimPrefix(ty, "*")
	if i := strings.LastIndex(ty, "."); i >= 0 {
		ty = ty[i+1:]
	}
	return ty
}

// elemType: element type of a slice type or of a named slice type
func (c *codecTr) elemType(ty string) string {
	if strings.HasPrefix(ty, "[]") {
		return strings.TrimPrefix(ty[2:], "*")
	}
	if u, ok := c.named[bare(ty)]; ok && strings.HasPrefix(u, "[]") {
		return strings.TrimPrefix(u[2:], "*")
	}
	return "?" + ty
}

// env of a function: receiver, parameters and (later) typed locals
func (c *codecTr) envOf(fd *ast.FuncDecl) map[string]string {
	env := map[string]string{}
	add := func(fl *ast.FieldList) {
		if fl == nil {
			return
		}
		for _, f := range fl.List {
			for _, n := range f.Names {
				env[n.Name] = expr(f.Type)
			}
		}
	}
	add(fd.Recv)
	add(fd.Type.Params)
	add(fd.Type.Results)
	return env
}

// typeOf resolves identifiers, selector chains, len(), untyped constants and a few known calls
func (c *codecTr) typeOf(e ast.Expr, env map[string]string) string {
	switch x := e.(type) {
	case *ast.Ident:
		if t, ok := env[x.Name]; ok {
			return t
		}
		if x.Name == "true" || x.Name == "false" {
			return "bool"
		}
	case *ast.BasicLit:
		switch x.Kind {
		case token.INT:
			return "int"
		case token.FLOAT:
			return "float64"
		case token.STRING:
			return "string"
		}
	case *ast.SelectorExpr:
		base := c.typeOf(x.X, env)
		if fs, ok := c.structs[bare(base)]; ok {
			if t, ok := fs[x.Sel.Name]; ok {
				return t
			}
		}
	case *ast.CallExpr:
		if id, ok := x.Fun.(*ast.Ident); ok && id.Name == "len" {
			return "int"
		}
		switch expr(x.Fun) {
		case "yamlFloat": // notes/proposed_fix_C15.patch: a float64 handed on unchanged (negative zero as tagged scalar)
			if len(x.Args) == 1 && c.typeOf(x.Args[0], env) == "float64" {
				return "float64"
			}
		case "network.NeuronTypeName":
			return "neuronTypeName"
		case "math.NodeActivators.ActivationNameFromType":
			return "activationName"
		}
		if sel, ok := x.Fun.(*ast.SelectorExpr); ok && sel.Sel.Name == "NodeType" {
			return "NodeType"
		}
	case *ast.StarExpr:
		return strings.TrimPrefix(c.typeOf(x.X, env), "*")
	case *ast.UnaryExpr:
		if x.Op == token.AND {
			return c.typeOf(x.X, env)
		}
	case *ast.IndexExpr:
		return c.elemType(c.typeOf(x.X, env))
	}
	return "?" + expr(e)
}

// path of a selector chain relative to its root identifier: e.Id -> "Id", org.Genotype.Id -> "Genotype.Id"
func relPath(e ast.Expr) (root, path string, ok bool) {
	switch x := e.(type) {
	case *ast.Ident:
		return x.Name, "", true
	case *ast.SelectorExpr:
		r, p, ok := relPath(x.X)
		if !ok {
			return "", "", false
		}
		if p == "" {
			return r, x.Sel.Name, true
		}
		return r, p + "." + x.Sel.Name, true
	}
	return "", "", false
}

/* ---------------------------------------------------------------------------------------------
   gob sequences and organism wire form
*/

type step struct{ kind, a, b string }

func (s step) lean() string {
	switch s.kind {
	case "val":
		return fmt.Sprintf(".val %s %s", leanStr(s.a), leanStr(s.b))
	case "each":
		return fmt.Sprintf(".each %s %s", leanStr(s.a), leanStr(s.b))
	case "sub":
		return fmt.Sprintf(".sub %s %s", leanStr(s.a), leanStr(s.b))
	case "genome":
		return fmt.Sprintf(".genome %s", leanStr(s.a))
	case "guardBegin":
		return fmt.Sprintf(".guardBegin %s", leanStr(s.a))
	case "guardEnd":
		return ".guardEnd"
	}
	return fmt.Sprintf(".unknown %s", leanStr(s.a))
}

// `if err := CALL; err != nil { return … }`  or  `if v, err := CALL; err != nil { return … } else { BODY }`
// or `if _, err = CALL; err != nil {…}`
func errCheckedCall(s ast.Stmt) (call *ast.CallExpr, lhs []ast.Expr, els *ast.BlockStmt, ok bool) {
	ifs, isIf := s.(*ast.IfStmt)
	if !isIf || ifs.Init == nil {
		return nil, nil, nil, false
	}
	as, isAs := ifs.Init.(*ast.AssignStmt)
	if !isAs || len(as.Rhs) != 1 {
		return nil, nil, nil, false
	}
	call, isCall := as.Rhs[0].(*ast.CallExpr)
	if !isCall {
		return nil, nil, nil, false
	}
	cond, isBin := ifs.Cond.(*ast.BinaryExpr)
	if !isBin || cond.Op != token.NEQ || expr(cond.X) != "err" || expr(cond.Y) != "nil" {
		return nil, nil, nil, false
	}
	if len(ifs.Body.List) != 1 {
		return nil, nil, nil, false
	}
	if _, isRet := ifs.Body.List[0].(*ast.ReturnStmt); !isRet {
		return nil, nil, nil, false
	}
	if ifs.Else != nil {
		b, isBlock := ifs.Else.(*ast.BlockStmt)
		if !isBlock {
			return nil, nil, nil, false
		}
		els = b
	}
	return call, as.Lhs, els, true
}

type seqCtx struct {
	c       *codecTr
	env     map[string]string
	self    string            // identifier of the value being encoded / decoded
	buffers map[string]string // local buffer variable -> field whose genome was written into it
	locals  map[string]string // decode side: local variable -> meaning (path), resolved by later uses
	steps   []step
}

func (q *seqCtx) unknown(n ast.Node, what string) {
	q.steps = append(q.steps, step{kind: "unknown", a: q.c.bad(n, "%s", what)})
}

// value expression on the encode side -> step
func (q *seqCtx) encodeValue(n ast.Node, e ast.Expr) {
	if call, ok := e.(*ast.CallExpr); ok {
		if expr(call.Fun) == "reflect.ValueOf" && len(call.Args) == 1 {
			q.encodeValue(n, call.Args[0])
			return
		}
		if id, ok := call.Fun.(*ast.Ident); ok && id.Name == "len" && len(call.Args) == 1 {
			if root, p, ok := relPath(call.Args[0]); ok && root == q.self {
				q.steps = append(q.steps, step{"val", "len(" + p + ")", "int"})
				return
			}
		}
		if sel, ok := call.Fun.(*ast.SelectorExpr); ok && sel.Sel.Name == "Bytes" {
			if f, ok := q.buffers[expr(sel.X)]; ok {
				q.steps = append(q.steps, step{"genome", f, ""})
				return
			}
		}
		q.unknown(n, "encoded value "+expr(e))
		return
	}
	if root, p, ok := relPath(e); ok && root == q.self && p != "" {
		q.steps = append(q.steps, step{"val", p, q.c.typeOf(e, q.env)})
		return
	}
	q.unknown(n, "encoded value "+expr(e))
}

func (q *seqCtx) encodeStmts(list []ast.Stmt) {
	for _, s := range list {
		if call, _, els, ok := errCheckedCall(s); ok && els == nil {
			fun := expr(call.Fun)
			switch {
			case (fun == "enc.Encode" || fun == "enc.EncodeValue") && len(call.Args) == 1:
				q.encodeValue(s, call.Args[0])
				continue
			case fun == "encodeOrganism" && len(call.Args) == 2:
				if root, p, ok := relPath(call.Args[1]); ok && root == q.self {
					q.steps = append(q.steps, step{"sub", p, "Organism"})
					continue
				}
			case fun == "fmt.Fprintln" && len(call.Args) >= 1:
				for _, a := range call.Args[1:] {
					q.encodeValue(s, a)
				}
				continue
			case strings.HasSuffix(fun, ".Write") && len(call.Args) == 1:
				// X.Genotype.Write(buf): plain genome text into a local buffer / the output buffer
				sel := call.Fun.(*ast.SelectorExpr)
				if root, p, ok := relPath(sel.X); ok && root == q.self {
					buf := strings.TrimPrefix(expr(call.Args[0]), "&")
					if _, isLocalBuf := q.buffers[buf]; isLocalBuf {
						q.buffers[buf] = p
					} else {
						q.steps = append(q.steps, step{"genome", p, ""})
					}
					continue
				}
			}
			q.unknown(s, "call "+fun)
			continue
		}
		switch x := s.(type) {
		case *ast.RangeStmt:
			// for _, t := range SELF.F { if err := t.Encode(enc); err != nil { return err } }
			if root, p, ok := relPath(x.X); ok && root == q.self && len(x.Body.List) == 1 && x.Value != nil {
				if call, _, _, ok := errCheckedCall(x.Body.List[0]); ok && expr(call.Fun) == expr(x.Value)+".Encode" {
					q.steps = append(q.steps, step{"each", p, q.c.elemType(q.c.typeOf(x.X, q.env))})
					continue
				}
			}
			q.unknown(s, "range loop")
		case *ast.IfStmt:
			// if SELF.F != nil { … }
			if cond, ok := x.Cond.(*ast.BinaryExpr); ok && x.Init == nil && x.Else == nil && cond.Op == token.NEQ && expr(cond.Y) == "nil" {
				if root, p, ok := relPath(cond.X); ok && root == q.self {
					q.steps = append(q.steps, step{"guardBegin", p + " != nil", ""})
					q.encodeStmts(x.Body.List)
					q.steps = append(q.steps, step{"guardEnd", "", ""})
					continue
				}
			}
			q.unknown(s, "if statement")
		case *ast.AssignStmt:
			// outBuf := bytes.NewBufferString("")
			if len(x.Lhs) == 1 && len(x.Rhs) == 1 && x.Tok == token.DEFINE && strings.HasPrefix(expr(x.Rhs[0]), "bytes.NewBufferString(") {
				q.buffers[expr(x.Lhs[0])] = ""
				continue
			}
			q.unknown(s, "assignment "+expr(x.Lhs[0]))
		case *ast.DeclStmt:
			// var buf bytes.Buffer : the output buffer itself
			continue
		case *ast.ReturnStmt:
			continue
		default:
			q.unknown(s, "statement")
		}
	}
}

func (q *seqCtx) decodeTarget(n ast.Node, e ast.Expr) {
	if u, ok := e.(*ast.UnaryExpr); ok && u.Op == token.AND {
		e = u.X
	}
	if root, p, ok := relPath(e); ok {
		if root == q.self && p != "" {
			q.steps = append(q.steps, step{"val", p, q.c.typeOf(e, q.env)})
			return
		}
		if p == "" {
			if ty, isLocal := q.env[root]; isLocal && root != q.self {
				q.steps = append(q.steps, step{"val", "$" + root, ty})
				return
			}
		}
	}
	q.unknown(n, "decode target "+expr(e))
}

func (q *seqCtx) decodeStmts(list []ast.Stmt) {
	for _, s := range list {
		if call, lhs, els, ok := errCheckedCall(s); ok {
			fun := expr(call.Fun)
			switch {
			case fun == "dec.Decode" && len(call.Args) == 1 && els == nil:
				q.decodeTarget(s, call.Args[0])
				continue
			case fun == "fmt.Fscanln" && len(call.Args) >= 1 && els == nil:
				for _, a := range call.Args[1:] {
					q.decodeTarget(s, a)
				}
				continue
			case fun == "decodeOrganism" && els != nil && len(els.List) == 1:
				// if org, err := decodeOrganism(dec); err != nil {…} else { SELF.F = org }
				if as, ok := els.List[0].(*ast.AssignStmt); ok && len(as.Lhs) == 1 && len(lhs) == 2 && expr(as.Rhs[0]) == expr(lhs[0]) {
					if root, p, ok := relPath(as.Lhs[0]); ok && root == q.self {
						q.steps = append(q.steps, step{"sub", p, "Organism"})
						continue
					}
				}
			case (fun == "genetics.ReadGenome" || fun == "ReadGenome") && len(call.Args) == 2:
				// gen, err := ReadGenome(bytes.NewBuffer(data), genId) … SELF.F = gen   |   SELF.F, err = ReadGenome(b, id)
				src := expr(call.Args[0])
				src = strings.TrimSuffix(strings.TrimPrefix(src, "bytes.NewBuffer("), ")")
				field := ""
				if els != nil && len(els.List) == 1 {
					if as, ok := els.List[0].(*ast.AssignStmt); ok && len(as.Lhs) == 1 && len(lhs) == 2 && expr(as.Rhs[0]) == expr(lhs[0]) {
						if root, p, ok := relPath(as.Lhs[0]); ok && root == q.self {
							field = p
						}
					}
				} else if len(lhs) == 2 {
					if root, p, ok := relPath(lhs[0]); ok && root == q.self {
						field = p
					}
				}
				if field != "" {
					q.locals[expr(call.Args[1])] = field + ".Id"
					if _, isLocal := q.env[src]; isLocal && q.env[src] == "[]byte" {
						q.locals[src] = "genome:" + field
					} else {
						q.steps = append(q.steps, step{"genome", field, ""})
					}
					continue
				}
			case strings.HasSuffix(fun, ".Decode") && els == nil:
				// element decode inside a counting loop: handled by the loop pattern
			}
			q.unknown(s, "call "+fun)
			continue
		}
		switch x := s.(type) {
		case *ast.DeclStmt:
			if gd, ok := x.Decl.(*ast.GenDecl); ok && gd.Tok == token.VAR {
				for _, sp := range gd.Specs {
					vs := sp.(*ast.ValueSpec)
					for _, n := range vs.Names {
						if vs.Type != nil {
							q.env[n.Name] = expr(vs.Type)
						}
					}
				}
				continue
			}
			q.unknown(s, "declaration")
		case *ast.AssignStmt:
			// SELF.F = make([]T, n)   |   org := genetics.Organism{}   |   b := bytes.NewBuffer(data)
			if len(x.Lhs) == 1 && len(x.Rhs) == 1 {
				if call, ok := x.Rhs[0].(*ast.CallExpr); ok && expr(call.Fun) == "make" && len(call.Args) == 2 {
					if root, p, ok := relPath(x.Lhs[0]); ok && root == q.self {
						q.locals[expr(call.Args[1])] = "len(" + p + ")"
						continue
					}
				}
				if cl, ok := x.Rhs[0].(*ast.CompositeLit); ok && x.Tok == token.DEFINE && len(cl.Elts) == 0 {
					q.self = expr(x.Lhs[0])
					q.env[q.self] = expr(cl.Type)
					continue
				}
				if x.Tok == token.DEFINE && strings.HasPrefix(expr(x.Rhs[0]), "bytes.NewBuffer(") {
					q.env[expr(x.Lhs[0])] = "*bytes.Buffer"
					continue
				}
			}
			q.unknown(s, "assignment "+expr(x.Lhs[0]))
		case *ast.ForStmt:
			// for i := 0; i < n; i++ { v := T{}; if err := v.Decode(dec); err != nil {…}; SELF.F[i] = v }
			if cond, ok := x.Cond.(*ast.BinaryExpr); ok && cond.Op == token.LSS && len(x.Body.List) == 3 {
				if as, ok := x.Body.List[0].(*ast.AssignStmt); ok && len(as.Rhs) == 1 {
					if cl, ok := as.Rhs[0].(*ast.CompositeLit); ok && len(cl.Elts) == 0 {
						v := expr(as.Lhs[0])
						call, _, _, ok1 := errCheckedCall(x.Body.List[1])
						st, ok2 := x.Body.List[2].(*ast.AssignStmt)
						if ok1 && ok2 && expr(call.Fun) == v+".Decode" && len(st.Lhs) == 1 && expr(st.Rhs[0]) == v {
							if ix, ok := st.Lhs[0].(*ast.IndexExpr); ok {
								if root, p, ok := relPath(ix.X); ok && root == q.self && q.locals[expr(cond.Y)] == "len("+p+")" {
									q.steps = append(q.steps, step{"each", p, expr(cl.Type)})
									continue
								}
							}
						}
					}
				}
			}
			q.unknown(s, "for loop")
		case *ast.ReturnStmt:
			continue
		default:
			q.unknown(s, "statement")
		}
	}
}

func (q *seqCtx) resolveLocals() {
	out := q.steps[:0]
	for _, st := range q.steps {
		if st.kind == "val" && strings.HasPrefix(st.a, "$") {
			m, ok := q.locals[st.a[1:]]
			switch {
			case !ok:
				st = step{kind: "unknown", a: q.c.bad(nil, "decoded local %s is never used", st.a[1:])}
			case strings.HasPrefix(m, "genome:"):
				st = step{"genome", strings.TrimPrefix(m, "genome:"), ""}
			default:
				st.a = m
			}
		}
		out = append(out, st)
	}
	q.steps = out
}

func (c *codecTr) sequence(name string, decode bool) []step {
	fd, ok := c.funcs[name]
	if !ok || fd.Body == nil {
		return []step{{kind: "unknown", a: c.bad(nil, "function %s not found", name)}}
	}
	q := &seqCtx{c: c, env: c.envOf(fd), buffers: map[string]string{}, locals: map[string]string{}}
	switch {
	case fd.Recv != nil && len(fd.Recv.List[0].Names) == 1:
		q.self = fd.Recv.List[0].Names[0].Name
	case !decode && fd.Type.Params != nil && len(fd.Type.Params.List) == 2:
		q.self = fd.Type.Params.List[1].Names[0].Name // encodeOrganism(enc, org)
	}
	if decode {
		q.decodeStmts(fd.Body.List)
		q.resolveLocals()
	} else {
		q.encodeStmts(fd.Body.List)
	}
	return q.steps
}

/* ---------------------------------------------------------------------------------------------
   YAML keys
*/

type ykey struct {
	fn, key, ty string
	optional   bool
}

// writer: every `m["key"] = v` / `m["key"], err = f(...)` of the function, also under if/else
func (c *codecTr) yamlWriterKeys(name string) []ykey {
	fd, ok := c.funcs[name]
	if !ok {
		c.bad(nil, "function %s not found", name)
		return nil
	}
	env := c.envOf(fd)
	short := name[strings.Index(name, ".")+1:]
	var keys []ykey
	listOf := map[string]string{} // local slice variable -> element encoder
	seen := map[string]int{}
	add := func(n ast.Node, key, ty string, optional bool) {
		if i, dup := seen[key]; dup {
			if keys[i].ty != ty {
				c.bad(n, "yaml writer %s: key %q written with types %s and %s", short, key, keys[i].ty, ty)
				keys[i].ty = "?"
			}
			return
		}
		seen[key] = len(keys)
		keys = append(keys, ykey{short, key, ty, optional})
	}
	var walk func(list []ast.Stmt, optional bool)
	walk = func(list []ast.Stmt, optional bool) {
		for _, s := range list {
			switch x := s.(type) {
			case *ast.AssignStmt:
				if ix, ok := x.Lhs[0].(*ast.IndexExpr); ok {
					if lit, ok := ix.Index.(*ast.BasicLit); ok && lit.Kind == token.STRING {
						key, _ := strconv.Unquote(lit.Value)
						ty := c.typeOf(x.Rhs[0], env)
						if id, ok := x.Rhs[0].(*ast.Ident); ok {
							if enc, ok := listOf[id.Name]; ok && enc == "[]float64" {
								ty = enc
							} else if ok {
								ty = "list:" + enc
							} else if m, ok := env[id.Name]; ok && strings.HasPrefix(m, "map:") {
								ty = m
							}
						}
						add(s, key, ty, optional)
						continue
					}
					// nodes[i], err = wr.encodeNetworkNode(n) / traits[i] = wr.encodeGenomeTrait(t)
					if call, ok := x.Rhs[0].(*ast.CallExpr); ok {
						if sel, ok := call.Fun.(*ast.SelectorExpr); ok {
							listOf[expr(ix.X)] = sel.Sel.Name
							continue
						}
						if c.typeOf(call, env) == "float64" { // params[i] = yamlFloat(p)
							listOf[expr(ix.X)] = "[]float64"
							continue
						}
					}
				}
				// locals: x := make(...) etc.
				if x.Tok == token.DEFINE && len(x.Lhs) == 1 {
					if call, ok := x.Rhs[0].(*ast.CallExpr); ok && expr(call.Fun) == "make" {
						if strings.HasPrefix(expr(call.Args[0]), "map[") {
							env[expr(x.Lhs[0])] = "map:" + expr(x.Lhs[0])
						}
						continue
					}
					env[expr(x.Lhs[0])] = c.typeOf(x.Rhs[0], env)
				}
			case *ast.IfStmt:
				opt := optional
				if x.Else == nil && strings.HasPrefix(expr(x.Cond), "len(") {
					opt = true // `if len(g.ControlGenes) > 0 { … gMap["modules"] = modules }`
				}
				walk(x.Body.List, opt)
				if els, ok := x.Else.(*ast.BlockStmt); ok {
					walk(els.List, optional)
				}
			case *ast.RangeStmt:
				if x.Key != nil {
					env[expr(x.Key)] = "int"
				}
				if x.Value != nil {
					env[expr(x.Value)] = c.elemType(c.typeOf(x.X, env))
				}
				walk(x.Body.List, optional)
			}
		}
	}
	walk(fd.Body.List, false)
	return keys
}

// reader: every `m["key"]` of the function, with the conversion applied to it, per map variable
func (c *codecTr) yamlReaderKeys(name string) []ykey {
	fd, ok := c.funcs[name]
	if !ok {
		c.bad(nil, "function %s not found", name)
		return nil
	}
	short := name[strings.Index(name, ".")+1:]
	var keys []ykey
	seen := map[string]bool{}
	optionalVars := map[string]string{} // v := m["k"]; if v != nil
	parent := map[ast.Node]ast.Node{}
	var stack []ast.Node
	ast.Inspect(fd.Body, func(n ast.Node) bool {
		if n == nil {
			stack = stack[:len(stack)-1]
			return true
		}
		if len(stack) > 0 {
			parent[n] = stack[len(stack)-1]
		}
		stack = append(stack, n)
		return true
	})
	ast.Inspect(fd.Body, func(n ast.Node) bool {
		ix, ok := n.(*ast.IndexExpr)
		if !ok {
			return true
		}
		lit, ok := ix.Index.(*ast.BasicLit)
		if !ok || lit.Kind != token.STRING {
			return true
		}
		key, _ := strconv.Unquote(lit.Value)
		conv := "?"
		switch p := parent[ix].(type) {
		case *ast.TypeAssertExpr:
			conv = "assert:" + expr(p.Type)
		case *ast.CallExpr:
			conv = expr(p.Fun)
		case *ast.AssignStmt:
			conv = "optional"
			optionalVars[expr(p.Lhs[0])] = key
		}
		id := short + "/" + expr(ix.X)
		if seen[id+"/"+key] {
			return true
		}
		seen[id+"/"+key] = true
		if conv == "?" {
			c.bad(ix, "yaml reader %s: key %q used in an unrecognised way", short, key)
		}
		keys = append(keys, ykey{id, key, conv, conv == "optional"})
		return true
	})
	return keys
}

/* ---------------------------------------------------------------------------------------------
   plain writer / reader calls
*/

type pcall struct {
	fn, kind, format string
	args             []string
}

// resolve a local of the writer to the expression it was assigned (`x := e`; `x := 0; if T != nil { x = T.Id }`)
func writerLocals(fd *ast.FuncDecl) map[string]string {
	loc := map[string]string{}
	var walk func(list []ast.Stmt, cond string)
	walk = func(list []ast.Stmt, cond string) {
		for _, s := range list {
			switch x := s.(type) {
			case *ast.AssignStmt:
				if len(x.Lhs) == 1 && len(x.Rhs) == 1 {
					if id, ok := x.Lhs[0].(*ast.Ident); ok {
						v := expr(x.Rhs[0])
						if r, ok := loc[v]; ok {
							v = r
						}
						// substitute locals inside selector chains: link.Trait.Id with link := g.Link
						for k, r := range loc {
							if strings.HasPrefix(v, k+".") {
								v = r + v[len(k):]
							}
						}
						if cond != "" {
							loc[id.Name] = fmt.Sprintf("(%s ? %s : %s)", cond, v, loc[id.Name])
						} else {
							loc[id.Name] = v
						}
					}
				}
			case *ast.IfStmt:
				if x.Init == nil && x.Else == nil {
					cnd := expr(x.Cond)
					for k, r := range loc {
						if strings.HasPrefix(cnd, k+".") {
							cnd = r + cnd[len(k):]
						}
					}
					walk(x.Body.List, cnd)
				}
			}
		}
	}
	walk(fd.Body.List, "")
	return loc
}

func (c *codecTr) plainCalls(name string, wanted map[string]bool) []pcall {
	fd, ok := c.funcs[name]
	if !ok {
		c.bad(nil, "function %s not found", name)
		return nil
	}
	short := name[strings.Index(name, ".")+1:]
	loc := writerLocals(fd)
	var calls []pcall
	ast.Inspect(fd.Body, func(n ast.Node) bool {
		// loop bounds: how many items are printed / scanned
		switch l := n.(type) {
		case *ast.ForStmt:
			if l.Cond != nil {
				calls = append(calls, pcall{short, "for", expr(l.Cond), nil})
			}
		case *ast.RangeStmt:
			calls = append(calls, pcall{short, "range", expr(l.X), nil})
		}
		call, ok := n.(*ast.CallExpr)
		if !ok {
			return true
		}
		fun := expr(call.Fun)
		if !wanted[fun] {
			// calls of the sibling writer methods keep their place in the sequence
			if sel, ok := call.Fun.(*ast.SelectorExpr); ok && (strings.HasPrefix(sel.Sel.Name, "write") || strings.HasPrefix(sel.Sel.Name, "readPlain")) {
				calls = append(calls, pcall{short, "call", sel.Sel.Name, nil})
			} else if id, ok := call.Fun.(*ast.Ident); ok && strings.HasPrefix(id.Name, "readPlain") {
				calls = append(calls, pcall{short, "call", id.Name, nil})
			}
			return true
		}
		pc := pcall{fn: short, kind: fun[strings.LastIndex(fun, ".")+1:]}
		args := call.Args
		switch pc.kind {
		case "Fprintf", "Fscanf":
			if len(args) < 2 {
				c.bad(call, "%s without format", fun)
				return true
			}
			lit, ok := args[1].(*ast.BasicLit)
			if !ok {
				c.bad(call, "%s with a non-literal format", fun)
				pc.format = "?"
			} else {
				pc.format, _ = strconv.Unquote(lit.Value)
			}
			args = args[2:]
		case "Sprintf":
			if lit, ok := args[0].(*ast.BasicLit); ok {
				pc.format, _ = strconv.Unquote(lit.Value)
			} else {
				pc.format = "?"
			}
			args = args[1:]
		case "Fprint", "Fprintln":
			args = args[1:]
		case "ParseInt":
			// strconv.ParseInt(parts[i], 10, bits)
			pc.format = expr(args[1]) + "/" + expr(args[2])
			args = args[:1]
		case "Split", "SplitN":
			pc.format = expr(args[1])
			if len(args) > 2 {
				pc.format += "/" + expr(args[2])
			}
			args = args[:1]
		}
		for _, a := range args {
			v := strings.TrimPrefix(expr(a), "&")
			if lit, ok := a.(*ast.BasicLit); ok && lit.Kind == token.STRING {
				v, _ = strconv.Unquote(lit.Value)
				v = strconv.Quote(v)
			} else if r, ok := loc[v]; ok {
				v = r
			}
			pc.args = append(pc.args, v)
		}
		calls = append(calls, pc)
		return true
	})
	return calls
}

/* ---------------------------------------------------------------------------------------------
   output
*/

func leanList(items []string, indent string) string {
	if len(items) == 0 {
		return "[]"
	}
	return "[\n" + indent + strings.Join(items, ",\n"+indent) + "]"
}

func leanStrs(ss []string) string {
	q := make([]string, len(ss))
	for i, s := range ss {
		q[i] = leanStr(s)
	}
	return "[" + strings.Join(q, ", ") + "]"
}

func translateCodec(repo string) (map[string]string, error) {
	c := &codecTr{fset: token.NewFileSet(), structs: map[string]map[string]string{}, structOrder: map[string][]string{},
		structTags: map[string]map[string]string{}, named: map[string]string{}, funcs: map[string]*ast.FuncDecl{}}
	if err := c.load(repo, "experiment", "neat/genetics", "neat/network", "neat"); err != nil {
		return nil, err
	}
	var b strings.Builder
	b.WriteString(`/-
  GENERATED by harness/cmd/gntranslate (codec.go) from experiment/{experiment,trial,generation}.go,
  neat/genetics/{organism,genome_writer,genome_reader}.go and neat/network/fast_network_model_io.go on every
  ` + "`./check`" + ` run. DO NOT EDIT.  Ordered value sequences of the Encode/Decode and MarshalBinary/UnmarshalBinary pairs,
  keys of the YAML genome writer/reader, JSON tags of the fast-solver model, print/scan calls of the plain genome
  writer/reader, and the constructs the translator did not recognise (C15 requires that list to be empty).
-/
import GoNeat.Model.CodecTables

namespace GoNeat.Gen.Codec
open GoNeat.CodecTables

`)
	seqs := []struct {
		lean, fn string
		dec      bool
	}{
		{"experimentEncode", "Experiment.Encode", false}, {"experimentDecode", "Experiment.Decode", true},
		{"trialEncode", "Trial.Encode", false}, {"trialDecode", "Trial.Decode", true},
		{"generationEncode", "Generation.Encode", false}, {"generationDecode", "Generation.Decode", true},
		{"organismEncode", "encodeOrganism", false}, {"organismDecode", "decodeOrganism", true},
		{"marshalBinary", "Organism.MarshalBinary", false}, {"unmarshalBinary", "Organism.UnmarshalBinary", true},
	}
	for _, s := range seqs {
		steps := c.sequence(s.fn, s.dec)
		items := make([]string, len(steps))
		for i, st := range steps {
			items[i] = st.lean()
		}
		fmt.Fprintf(&b, "/-- value sequence of `%s` -/\ndef %s : List Step := %s\n\n", s.fn, s.lean, leanList(items, "  "))
	}

	// YAML
	var wk, rk []string
	for _, fn := range []string{"yamlGenomeWriter.WriteGenome", "yamlGenomeWriter.encodeGenomeTrait", "yamlGenomeWriter.encodeNetworkNode",
		"yamlGenomeWriter.encodeConnectionGene", "yamlGenomeWriter.encodeControlGene", "yamlGenomeWriter.encodeModuleLink"} {
		for _, k := range c.yamlWriterKeys(fn) {
			wk = append(wk, fmt.Sprintf("{ fn := %s, key := %s, ty := %s, optional := %v }", leanStr(k.fn), leanStr(k.key), leanStr(k.ty), k.optional))
		}
	}
	for _, fn := range []string{"yamlGenomeReader.Read", ".readTrait", ".readNNode", ".readGene", ".readMIMOControlGene"} {
		for _, k := range c.yamlReaderKeys(strings.TrimPrefix(fn, ".")) {
			rk = append(rk, fmt.Sprintf("{ fn := %s, key := %s, ty := %s, optional := %v }", leanStr(k.fn), leanStr(k.key), leanStr(k.ty), k.optional))
		}
	}
	fmt.Fprintf(&b, "/-- keys the YAML genome writer puts into its maps, with the Go type of the value -/\ndef yamlWriterKeys : List YKey := %s\n\n", leanList(wk, "  "))
	fmt.Fprintf(&b, "/-- keys the YAML genome reader takes out of the decoded maps (per function and map variable), with the conversion applied -/\ndef yamlReaderKeys : List YKey := %s\n\n", leanList(rk, "  "))

	// JSON model
	var js []string
	for _, st := range []string{"fastModularNetworkSolverData", "fastControlNodeData", "FastNetworkLink", "NodeActivator"} {
		order, ok := c.structOrder[st]
		if !ok {
			c.bad(nil, "struct %s not found", st)
		}
		for _, f := range order {
			tag := c.structTags[st][f]
			jt := ""
			if strings.HasPrefix(tag, `json:"`) {
				jt = tag[6:]
				if i := strings.Index(jt, `"`); i >= 0 {
					jt = jt[:i]
				}
			}
			js = append(js, fmt.Sprintf("{ struct := %s, field := %s, ty := %s, tag := %s, exported := %v }",
				leanStr(st), leanStr(f), leanStr(c.structs[st][f]), leanStr(jt), ast.IsExported(f)))
		}
	}
	fmt.Fprintf(&b, "/-- fields of the structs `encoding/json` writes and reads for the fast-solver model -/\ndef jsonFields : List JField := %s\n\n", leanList(js, "  "))
	// fields set by newFastModularNetworkSolverData, fields used by ReadFMNSModel
	var set, used []string
	if fd, ok := c.funcs["newFastModularNetworkSolverData"]; ok {
		ast.Inspect(fd.Body, func(n ast.Node) bool {
			if cl, ok := n.(*ast.CompositeLit); ok && expr(cl.Type) == "fastModularNetworkSolverData" {
				for _, e := range cl.Elts {
					if kv, ok := e.(*ast.KeyValueExpr); ok {
						v := expr(kv.Value)
						if strings.HasPrefix(v, "make(") {
							v = "make"
						}
						set = append(set, fmt.Sprintf("(%s, %s)", leanStr(expr(kv.Key)), leanStr(v)))
					}
				}
			}
			return true
		})
	} else {
		c.bad(nil, "newFastModularNetworkSolverData not found")
	}
	if fd, ok := c.funcs["ReadFMNSModel"]; ok {
		seen := map[string]bool{}
		ast.Inspect(fd.Body, func(n ast.Node) bool {
			if sel, ok := n.(*ast.SelectorExpr); ok && expr(sel.X) == "data" && !seen[sel.Sel.Name] {
				seen[sel.Sel.Name] = true
				used = append(used, leanStr(sel.Sel.Name))
			}
			return true
		})
	} else {
		c.bad(nil, "ReadFMNSModel not found")
	}
	fmt.Fprintf(&b, "/-- (field, value) pairs of the composite literal in `newFastModularNetworkSolverData` -/\ndef jsonHolderSets : List (String × String) := %s\n\n", leanList(set, "  "))
	fmt.Fprintf(&b, "/-- fields of the decoded data holder `ReadFMNSModel` uses -/\ndef jsonReaderUses : List String := [%s]\n\n", strings.Join(used, ", "))

	// plain
	printFns := map[string]bool{"fmt.Fprintf": true, "fmt.Fprint": true, "fmt.Fprintln": true}
	scanFns := map[string]bool{"fmt.Fscanf": true, "strconv.ParseInt": true, "strings.Split": true, "strings.SplitN": true,
		"TraitWithId": true, "math.NodeActivators.ActivationTypeFromName": true, "NewConnectionGene": true,
		"network.NewLinkWithTrait": true, "network.NewLink": true}
	var pw, pr []string
	emit := func(dst *[]string, calls []pcall) {
		for _, pc := range calls {
			verbs := []string{}
			if pc.kind == "Fprintf" || pc.kind == "Fscanf" || pc.kind == "Sprintf" {
				verbs = strings.Fields(pc.format)
			}
			*dst = append(*dst, fmt.Sprintf("{ fn := %s, kind := %s, format := %s, verbs := %s, args := %s }", leanStr(pc.fn), leanStr(pc.kind), leanStr(pc.format), leanStrs(verbs), leanStrs(pc.args)))
		}
	}
	for _, fn := range []string{"plainGenomeWriter.WriteGenome", "plainGenomeWriter.writeTrait", "plainGenomeWriter.writeNetworkNode", "plainGenomeWriter.writeConnectionGene"} {
		emit(&pw, c.plainCalls(fn, printFns))
	}
	for _, fn := range []string{"plainGenomeReader.Read", "readPlainTrait", "readPlainNetworkNode", "readPlainConnectionGene"} {
		emit(&pr, c.plainCalls(fn, scanFns))
	}
	fmt.Fprintf(&b, "/-- print calls of the plain genome writer, in source order -/\ndef plainWriter : List PCall := %s\n\n", leanList(pw, "  "))
	fmt.Fprintf(&b, "/-- scan/parse/lookup/constructor calls of the plain genome reader, in source order -/\ndef plainReader : List PCall := %s\n\n", leanList(pr, "  "))
	// ReadPopulation: how the genome buffer is started and finished
	var pp []string
	emit(&pp, c.plainCalls("ReadPopulation", map[string]bool{"fmt.Sprintf": true, "fmt.Fprintf": true, "fmt.Fprintln": true, "strings.SplitN": true}))
	fmt.Fprintf(&b, "/-- how `ReadPopulation` fills the per-genome buffer -/\ndef populationReader : List PCall := %s\n\n", leanList(pp, "  "))

	ut := make([]string, len(c.untranslated))
	for i, u := range c.untranslated {
		ut[i] = leanStr(u)
	}
	fmt.Fprintf(&b, "/-- constructs the translator did not recognise; fail closed: C15 requires this list to be empty -/\ndef untranslated : List String := %s\n\nend GoNeat.Gen.Codec\n", leanList(ut, "  "))
	return map[string]string{"Codec.lean": b.String()}, nil
}
