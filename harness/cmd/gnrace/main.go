// gnrace: runs the REAL ParallelPopulationEpochExecutor for consecutive epochs on scenario populations; meant to
// be executed under the Go race detector (`CGO_ENABLED=1 go run -race -tags verif ./cmd/gnrace`).  Support for the
// schedule search of C16, not part of the proof: a race report makes the process exit with status 66 and the
// report (stderr) becomes the replay of the check.
//
//	gnrace -tier quick|thorough -seed N
package main

import (
	"context"
	"flag"
	"fmt"
	"math"
	"math/rand"
	"os"
	"path/filepath"
	"runtime"

	"github.com/yaricom/goNEAT/v4/neat"
	"github.com/yaricom/goNEAT/v4/neat/genetics"
	neatmath "github.com/yaricom/goNEAT/v4/neat/math"
)

var startGenomeFiles = []string{"xorstartgenes", "pole1startgenes", "pole2_markov_startgenes", "pole2_non-markov_startgenes",
	"xordisconnectedstartgenes"}

func repoDir() string {
	if d := os.Getenv("VERIF_REPO"); d != "" {
		return d
	}
	return "/repo"
}

func loadStartGenome(name string) *genetics.Genome {
	f, err := os.Open(filepath.Join(repoDir(), "data", name))
	if err != nil {
		panic(err)
	}
	defer f.Close()
	r, err := genetics.NewGenomeReader(f, genetics.PlainGenomeEncoding)
	if err != nil {
		panic(err)
	}
	gn, err := r.Read()
	if err != nil {
		panic(err)
	}
	return gn
}

func options(r *rand.Rand, popSize int) *neat.Options {
	o := &neat.Options{
		TraitParamMutProb: r.Float64(), TraitMutationPower: r.Float64() * 2, WeightMutPower: 0.1 + r.Float64()*3,
		DisjointCoeff: 1, ExcessCoeff: 1, MutdiffCoeff: 0.4 + r.Float64()*3,
		CompatThreshold: 0.3 + r.Float64()*4, AgeSignificance: 1, SurvivalThresh: 0.2 + r.Float64()*0.6,
		// structural mutations in (almost) every species every epoch: many goroutines inside the registry at once
		MutateOnlyProb: 0.5 + r.Float64()*0.5, MutateRandomTraitProb: 0.1, MutateLinkTraitProb: 0.1, MutateNodeTraitProb: 0.1,
		MutateLinkWeightsProb: 0.8, MutateToggleEnableProb: 0.1, MutateGeneReenableProb: 0.05,
		MutateAddNodeProb: 0.2 + r.Float64()*0.5, MutateAddLinkProb: 0.3 + r.Float64()*0.6, MutateConnectSensors: r.Float64() * 0.5,
		InterspeciesMateRate: r.Float64() * 0.4, MateMultipointProb: 0.4, MateMultipointAvgProb: 0.3, MateSinglepointProb: 0.2,
		MateOnlyProb: 0.2, RecurOnlyProb: r.Float64() * 0.3, PopSize: popSize, DropOffAge: 3 + r.Intn(15), NewLinkTries: []int{0, 0, 5 + r.Intn(20), 5 + r.Intn(20), 5 + r.Intn(20)}[r.Intn(5)], // 0 = the option left unset (legal)
		BabiesStolen: 0, NumRuns: 1, NumGenerations: 10, EpochExecutorType: neat.EpochExecutorTypeParallel,
		GenCompatMethod:    neat.GenomeCompatibilityMethodFast,
		NodeActivators:     []neatmath.NodeActivationType{neatmath.SigmoidSteepenedActivation, neatmath.LinearActivation},
		NodeActivatorsProb: []float64{0.5, 0.5},
	}
	if r.Intn(2) == 0 {
		o.GenCompatMethod = neat.GenomeCompatibilityMethodLinear
	}
	if r.Intn(3) == 0 {
		o.BabiesStolen = r.Intn(popSize/4 + 1)
	}
	return o
}

func main() {
	tier := flag.String("tier", "quick", "quick|thorough")
	seed := flag.Int64("seed", 1, "generator seed")
	flag.Parse()
	neat.LogLevel = neat.LogLevelError
	scenarios, epochs, maxPop := 10, 6, 60
	if *tier == "thorough" {
		scenarios, epochs, maxPop = 60, 15, 150
	}
	r := rand.New(rand.NewSource(*seed*7919 + 17))
	totalEpochs, multi := 0, 0
	for s := 0; s < scenarios; s++ {
		popSize := 12 + r.Intn(maxPop-11)
		opts := options(r, popSize)
		start := loadStartGenome(startGenomeFiles[r.Intn(len(startGenomeFiles))])
		rand.Seed(r.Int63())
		pop, err := genetics.NewPopulation(start, opts)
		if err != nil {
			fmt.Fprintf(os.Stderr, "gnrace: NewPopulation: %v\n", err)
			os.Exit(2)
		}
		runtime.GOMAXPROCS([]int{2, 4, 8, 16}[r.Intn(4)])
		ctx := neat.NewContext(context.Background(), opts)
		ex := &genetics.ParallelPopulationEpochExecutor{}
		for e := 0; e < epochs; e++ {
			for _, o := range pop.Organisms {
				o.Fitness = 0.01 + math.Abs(r.NormFloat64())*5
			}
			if len(pop.Species) >= 2 {
				multi++
			}
			if err := ex.NextEpoch(ctx, e+1, pop); err != nil {
				fmt.Fprintf(os.Stderr, "gnrace: scenario %d epoch %d: %v\n", s, e+1, err)
				os.Exit(3)
			}
			totalEpochs++
		}
	}
	fmt.Printf("gnrace: %d parallel epochs (%d with >= 2 species) on %d scenarios finished; any race report is printed above by the race detector\n",
		totalEpochs, multi, scenarios)
}
