package main

// innovHistory (property C03): long runs of the REAL code. A population is created by one of the real constructors
// (NewPopulation from shipped / hand-built / newGenomeRand start genomes, NewPopulationRandom, ReadPopulation of a
// written population) and evolved for many generations by the real sequential executor with high structural
// mutation rates and interspecies mating. The harness looks at ALL organisms of ALL generations and dumps, per
// generation, every binding inn -> (src,dst,rec) and node id -> role it had not seen before as that exact tuple
// (so a number bound to a second link shows up as a second tuple), the counters before / after the reproduction
// phase / after the epoch, the innovation records at the end of the reproduction phase and after the epoch, and the
// structural requests of the generation as they can be read off the babies (new link (src,dst,rec) -> number;
// split (src,dst,old number) -> (node id, number, number)). The Lean driver (Driver/Innov.lean) rebuilds the
// history from the dump and evaluates the executable C03 predicates on it.
//
// The phases are run through the verif hooks (to see the records before they are cleared); a twin population with
// the same seeds is run through the public NextEpoch and must end in the identical population.

import (
	"bytes"
	"context"
	"crypto/sha1"
	"encoding/json"
	"fmt"
	"math"
	"math/rand"

	"github.com/yaricom/goNEAT/v4/neat"
	"github.com/yaricom/goNEAT/v4/neat/genetics"
)

func init() {
	register("innovHistory", opInnovHistory)
}

type jInnovGen struct {
	Ctr0      [2]int64   `json:"ctr0"` // (nextInnovNum, nextNodeId) before the epoch
	Ctr1      [2]int64   `json:"ctr1"` // after the reproduction phase
	Ctr2      [2]int64   `json:"ctr2"` // after the epoch
	Recs      []JInnov   `json:"recs"` // records at the end of the reproduction phase
	RecsAfter []JInnov   `json:"recsAfter"`
	NewBinds  [][4]int64 `json:"newBinds"` // inn, src, dst, rec(0/1)
	NewRoles  [][2]int64 `json:"newRoles"` // id, kind
	ReqLinks  [][4]int64 `json:"reqLinks"` // src, dst, rec, inn            (one per baby that carries it)
	ReqNodes  [][6]int64 `json:"reqNodes"` // src, dst, oldInn, node, inn1, inn2
	Unresolved int       `json:"unresolved"`
	Orgs      int        `json:"orgs"`
	Err       *string    `json:"err"`
}

type innovTracker struct {
	binds map[[4]int64]bool
	roles map[[2]int64]bool
}

func b2i(b bool) int64 {
	if b {
		return 1
	}
	return 0
}

// absorb records the bindings of all organisms; returns the tuples not seen before
func (t *innovTracker) absorb(pop *genetics.Population) (nb [][4]int64, nr [][2]int64) {
	nb, nr = [][4]int64{}, [][2]int64{}
	for _, o := range pop.Organisms {
		for _, x := range o.Genotype.Genes {
			k := [4]int64{x.InnovationNum, int64(x.Link.InNode.Id), int64(x.Link.OutNode.Id), b2i(x.Link.IsRecurrent)}
			if !t.binds[k] {
				t.binds[k] = true
				nb = append(nb, k)
			}
		}
		for _, n := range o.Genotype.Nodes {
			k := [2]int64{int64(n.Id), int64(n.NeuronType)}
			if !t.roles[k] {
				t.roles[k] = true
				nr = append(nr, k)
			}
		}
	}
	return
}

// requests reads the structural requests of this generation off the babies: genes / nodes above the counters the
// generation started with
func requests(pop *genetics.Population, inn0 int64, node0 int64) (links [][4]int64, nodes [][6]int64, unresolved int) {
	links, nodes = [][4]int64{}, [][6]int64{}
	for _, o := range pop.Organisms {
		gn := o.Genotype
		used := map[*genetics.Gene]bool{}
		for _, n := range gn.Nodes {
			if int64(n.Id) <= node0 {
				continue
			}
			var g1, g2 *genetics.Gene
			cnt1, cnt2 := 0, 0
			for _, x := range gn.Genes {
				if x.InnovationNum <= inn0 {
					continue
				}
				if x.Link.OutNode.Id == n.Id && x.Link.InNode.Id != n.Id {
					g1 = x
					cnt1++
				}
				if x.Link.InNode.Id == n.Id && x.Link.OutNode.Id != n.Id {
					g2 = x
					cnt2++
				}
			}
			if cnt1 != 1 || cnt2 != 1 {
				unresolved++
				continue
			}
			old := int64(-1)
			for _, x := range gn.Genes {
				if x.InnovationNum <= inn0 && !x.IsEnabled && x.Link.InNode.Id == g1.Link.InNode.Id &&
					x.Link.OutNode.Id == g2.Link.OutNode.Id && x.Link.IsRecurrent == g1.Link.IsRecurrent {
					if old != -1 {
						old = -2 // ambiguous
						break
					}
					old = x.InnovationNum
				}
			}
			if old < 0 {
				unresolved++
				continue
			}
			used[g1], used[g2] = true, true
			nodes = append(nodes, [6]int64{int64(g1.Link.InNode.Id), int64(g2.Link.OutNode.Id), old, int64(n.Id), g1.InnovationNum, g2.InnovationNum})
		}
		for _, x := range gn.Genes {
			if x.InnovationNum > inn0 && !used[x] {
				links = append(links, [4]int64{int64(x.Link.InNode.Id), int64(x.Link.OutNode.Id), b2i(x.Link.IsRecurrent), x.InnovationNum})
			}
		}
	}
	return
}

func counters(p *genetics.Population) [2]int64 {
	return [2]int64{genetics.VerifPopNextInnovNum(p), int64(genetics.VerifPopNextNodeId(p))}
}

// innovOpts: high structural mutation rates, interspecies mating, recurrent links
func innovOpts(g *G) *neat.Options {
	o := popOpts(g)
	o.PopSize = 8 + g.intn(25)
	if g.thorough && g.chance(0.3) {
		o.PopSize = 30 + g.intn(40)
	}
	o.MutateAddNodeProb = 0.05 + g.f64()*0.5
	o.MutateAddLinkProb = 0.1 + g.f64()*0.7
	o.MutateConnectSensors = g.f64() * 0.5
	o.InterspeciesMateRate = g.f64() * 0.6
	o.RecurOnlyProb = g.f64() * 0.6
	o.MutateOnlyProb = 0.1 + g.f64()*0.6
	o.MateOnlyProb = g.f64() * 0.4
	o.NewLinkTries = 5 + g.intn(40)
	if g.chance(0.3) {
		o.BabiesStolen = g.intn(o.PopSize/2 + 1) // super-champion offspring (add-link on clones)
	}
	return o
}

type innovPlan struct {
	kind      string // spawn:<origin> | random | read
	opts      *neat.Options
	start     *genetics.Genome
	in, out   int
	maxHidden int
	recurrent bool
	linkProb  float64
	preEpochs int // read: epochs before the population is written and read back
	unsort    bool // read: the genomes are written with their genes out of innovation order
	initSeed  int64
	genSeeds  []int64
	landscape []string
}

func cloneOpts(o *neat.Options) *neat.Options {
	c := *o
	return &c
}

// fitnessFrom assigns fitness deterministically from a seed (same values in the twin run)
func fitnessFrom(seed int64, pop *genetics.Population, landscape string) {
	r := rand.New(rand.NewSource(seed))
	for i, o := range pop.Organisms {
		switch landscape {
		case "distinct":
			o.Fitness = 0.01 + r.Float64()*10
		case "heavyTail":
			o.Fitness = math.Exp(r.NormFloat64() * 2)
		case "dominant":
			if i == 0 {
				o.Fitness = 1000
			} else {
				o.Fitness = r.Float64() * 0.01
			}
		case "constant":
			o.Fitness = 3.5
		case "zero":
			o.Fitness = 0
		default:
			o.Fitness = float64(r.Intn(4))
		}
	}
}

// build creates the initial population of a plan with the real constructors
func (pl *innovPlan) build() (pop *genetics.Population, err error) {
	defer func() {
		if r := recover(); r != nil {
			err = fmt.Errorf("panic: %v", r)
		}
	}()
	rand.Seed(pl.initSeed)
	switch pl.kind {
	case "random":
		return genetics.NewPopulationRandom(pl.in, pl.out, pl.maxHidden, pl.recurrent, pl.linkProb, pl.opts)
	case "read", "read:unsorted":
		p0, err := genetics.NewPopulation(cloneGenome(pl.start), pl.opts)
		if err != nil {
			return nil, err
		}
		ex := &genetics.SequentialPopulationEpochExecutor{}
		ctx := neat.NewContext(context.Background(), pl.opts)
		for e := 0; e < pl.preEpochs; e++ {
			fitnessFrom(pl.initSeed+int64(e)+1, p0, "distinct")
			if err := ex.NextEpoch(ctx, e+1, p0); err != nil {
				return nil, err
			}
		}
		if pl.unsort {
			// the written file lists the gene with the largest number first (deterministic: same in the twin run)
			for _, o := range p0.Organisms {
				gs := o.Genotype.Genes
				if n := len(gs); n >= 2 {
					last := gs[n-1]
					copy(gs[1:], gs[:n-1])
					gs[0] = last
				}
			}
		}
		var buf bytes.Buffer
		if err := p0.Write(&buf); err != nil {
			return nil, err
		}
		return genetics.ReadPopulation(&buf, pl.opts)
	default:
		return genetics.NewPopulation(cloneGenome(pl.start), pl.opts)
	}
}

func popDigest(p *genetics.Population) string {
	b, _ := json.Marshal(dumpPop(p))
	return fmt.Sprintf("%x", sha1.Sum(b))
}

func opInnovHistory(g *G) (interface{}, []uint64, int, interface{}) {
	pl := &innovPlan{opts: innovOpts(g), initSeed: g.seed63()}
	gens := 8 + g.intn(18)
	if g.thorough {
		gens = 300
	}
	switch c := g.intn(20); {
	case c < 6:
		name := startGenomeFiles[g.intn(len(startGenomeFiles))]
		pl.kind, pl.start = "spawn:"+name, loadStartGenome(name)
	case c < 10:
		pl.kind, pl.start = "spawn:hand", handGenome(g, 0)
	case c < 13:
		ro := randOpts(g)
		rand.Seed(g.seed63())
		in, out, maxH := 2+g.intn(3), 1+g.intn(2), 1+g.intn(4)
		gn, err := genetics.VerifNewGenomeRand(0, in, out, g.intn(maxH+1), maxH, g.chance(0.5), 0.3+g.f64()*0.6, ro)
		if err != nil || len(gn.Genes) == 0 {
			return nil, nil, 0, nil
		}
		pl.kind, pl.start = "spawn:rand", gn
	case c < 14:
		// a start genome whose gene lines are not in innovation order (the plain reader keeps file order and
		// Genome.verify does not look at gene order): the gene with the highest number is moved to the front
		gn := loadStartGenome(startGenomeFiles[g.intn(len(startGenomeFiles))])
		if g.chance(0.5) {
			gn = handGenome(g, 0)
		}
		if len(gn.Genes) < 2 {
			return nil, nil, 0, nil
		}
		last := gn.Genes[len(gn.Genes)-1]
		copy(gn.Genes[1:], gn.Genes[:len(gn.Genes)-1])
		gn.Genes[0] = last
		pl.kind, pl.start = "spawn:unsorted", gn
	case c < 16:
		pl.kind = "random"
		pl.in, pl.out, pl.maxHidden = 2+g.intn(3), 1+g.intn(2), 1+g.intn(4)
		pl.recurrent, pl.linkProb = g.chance(0.5), 0.4+g.f64()*0.5
	default:
		pl.kind = "read"
		if g.chance(0.5) {
			pl.start = loadStartGenome(startGenomeFiles[g.intn(len(startGenomeFiles))])
		} else {
			pl.start = handGenome(g, 0)
		}
		pl.preEpochs = g.intn(6)
		if g.chance(0.25) {
			pl.unsort = true
			pl.kind = "read:unsorted"
		}
	}
	if pl.start != nil && len(pl.start.ControlGenes) > 0 {
		return nil, nil, 0, nil
	}
	for t := 0; t < gens; t++ {
		pl.genSeeds = append(pl.genSeeds, g.seed63())
		ls := landscapes[g.intn(len(landscapes))]
		if t > 0 && !g.chance(0.15) {
			ls = pl.landscape[t-1]
		}
		pl.landscape = append(pl.landscape, ls)
	}

	pop, err := pl.build()
	if err != nil || pop == nil {
		return nil, nil, 0, nil
	}
	tr := &innovTracker{binds: map[[4]int64]bool{}, roles: map[[2]int64]bool{}}
	ib, ir := tr.absorb(pop)
	// per organism (in Population.Organisms order): last node id and "next gene innovation number" as the real
	// accessors report them - the inputs of the counter initialisation
	lasts := [][2]int64{}
	for _, o := range pop.Organisms {
		ln, e1 := genetics.VerifLastNodeId(o.Genotype)
		ni, e2 := genetics.VerifNextGeneInnovNum(o.Genotype)
		if e1 != nil || e2 != nil {
			return nil, nil, 0, nil
		}
		lasts = append(lasts, [2]int64{int64(ln), ni})
	}
	ascending := true
	for _, o := range pop.Organisms {
		for i := 1; i < len(o.Genotype.Genes); i++ {
			if o.Genotype.Genes[i-1].InnovationNum > o.Genotype.Genes[i].InnovationNum {
				ascending = false
			}
		}
		for i := 1; i < len(o.Genotype.Nodes); i++ {
			if o.Genotype.Nodes[i-1].Id > o.Genotype.Nodes[i].Id {
				ascending = false
			}
		}
	}
	initOut := map[string]interface{}{"ctr": counters(pop), "binds": ib, "roles": ir, "recs": dumpReg(pop).Records,
		"lasts": lasts, "ascending": ascending, "orgs": len(pop.Organisms)}
	// the genomes the counters were initialised from, for the model's accessors (bit-exact comparison in the driver)
	gsOut := []*JGenome{}
	for _, o := range pop.Organisms {
		gsOut = append(gsOut, dumpGenome(o.Genotype))
	}
	initOut["genomes"] = gsOut
	if pl.start != nil {
		initOut["start"] = dumpGenome(pl.start)
		ln, _ := genetics.VerifLastNodeId(pl.start)
		ni, _ := genetics.VerifNextGeneInnovNum(pl.start)
		initOut["startLasts"] = [2]int64{int64(ln), ni}
	}

	ctx := neat.NewContext(context.Background(), pl.opts)
	gensOut := []jInnovGen{}
	failed := false
	for t := 0; t < gens && !failed; t++ {
		fitnessFrom(pl.genSeeds[t]^0x5bd1e995, pop, pl.landscape[t])
		jg := jInnovGen{Ctr0: counters(pop)}
		ex := &genetics.SequentialPopulationEpochExecutor{}
		var eerr error
		var pan interface{}
		rand.Seed(pl.genSeeds[t])
		func() {
			defer func() { pan = recover() }()
			if eerr = genetics.VerifEpochPrepare(ex, ctx, t+1, pop); eerr != nil {
				return
			}
			if eerr = genetics.VerifEpochReproduce(ex, ctx, t+1, pop); eerr != nil {
				return
			}
			jg.Ctr1 = counters(pop)
			jg.Recs = dumpReg(pop).Records
			eerr = genetics.VerifEpochFinalize(ex, ctx, pop)
		}()
		if eerr != nil || pan != nil {
			jg.Err = errClass(eerr, pan)
			jg.Recs, jg.RecsAfter = []JInnov{}, []JInnov{}
			jg.NewBinds, jg.NewRoles, jg.ReqLinks, jg.ReqNodes = [][4]int64{}, [][2]int64{}, [][4]int64{}, [][6]int64{}
			gensOut = append(gensOut, jg)
			failed = true
			break
		}
		jg.Ctr2 = counters(pop)
		jg.RecsAfter = dumpReg(pop).Records
		jg.NewBinds, jg.NewRoles = tr.absorb(pop)
		jg.ReqLinks, jg.ReqNodes, jg.Unresolved = requests(pop, jg.Ctr0[0], jg.Ctr0[1])
		jg.Orgs = len(pop.Organisms)
		gensOut = append(gensOut, jg)
	}

	// twin: the same plan through the public entry point
	twin := "skipped"
	if !failed {
		if pop2, err2 := pl.build(); err2 == nil && pop2 != nil {
			ex2 := &genetics.SequentialPopulationEpochExecutor{}
			ok := true
			for t := 0; t < gens; t++ {
				fitnessFrom(pl.genSeeds[t]^0x5bd1e995, pop2, pl.landscape[t])
				rand.Seed(pl.genSeeds[t])
				var e2 error
				func() {
					defer func() {
						if r := recover(); r != nil {
							e2 = fmt.Errorf("panic: %v", r)
						}
					}()
					e2 = ex2.NextEpoch(ctx, t+1, pop2)
				}()
				if e2 != nil {
					ok = false
					break
				}
			}
			if ok && popDigest(pop) == popDigest(pop2) {
				twin = "same"
			} else {
				twin = "differs"
			}
		} else {
			twin = "differs"
		}
	}

	in := map[string]interface{}{"kind": pl.kind, "opts": dumpEpochOpts(pl.opts), "gens": gens, "nIn": pl.in, "nOut": pl.out,
		"maxHidden": pl.maxHidden, "preEpochs": pl.preEpochs, "initSeed": pl.initSeed}
	out := map[string]interface{}{"init": initOut, "gens": gensOut, "twin": twin}
	return in, nil, 0, out
}
