package main

// C15 — everything the library writes it reads back unchanged.  Every op runs the REAL writer and reader, dumps
// source and read-back field by field (floats as bit patterns) and hands Go's plain TEXT to the driver, which
// parses it with the Lean model and compares the model's own rendering with it.

import (
	"os"
	"bytes"
	"context"
	"fmt"
	"math"
	"math/rand"
	"sort"
	"strings"
	"time"

	"github.com/yaricom/goNEAT/v4/experiment"
	"github.com/yaricom/goNEAT/v4/neat"
	"github.com/yaricom/goNEAT/v4/neat/genetics"
	neatmath "github.com/yaricom/goNEAT/v4/neat/math"
	"github.com/yaricom/goNEAT/v4/neat/network"
)

func init() {
	register("ioPlain", opIoPlain)
	register("ioYaml", opIoYaml)
	register("ioOrganism", opIoOrganism)
	register("ioPopulation", opIoPopulation)
	register("ioSolver", opIoSolver)
	register("ioExperiment", opIoExperiment)
}

/* ---------- generators ---------- */

// ioFloat: arbitrary float64 bit patterns (never NaN): random bits, denormals, huge, tiny, negative zero, ±Inf
// (only where allowed), integers around the %e/%f switch of %g, neighbours of powers of ten, 17-digit decimals.
func ioFloat(g *G, allowInf bool) float64 {
	for {
		var f float64
		switch g.intn(14) {
		case 0, 1, 2:
			f = math.Float64frombits(uint64(g.gr.Int63())<<1 | uint64(g.intn(2)))
		case 3:
			f = math.Float64frombits(uint64(g.gr.Int63()) & (1<<52 - 1)) // denormal
			if g.chance(0.5) {
				f = -f
			}
		case 4:
			f = []float64{math.MaxFloat64, -math.MaxFloat64, math.SmallestNonzeroFloat64, -math.SmallestNonzeroFloat64,
				2.2250738585072014e-308, 2.225073858507201e-308, 1.7976931348623157e308, 4.9e-324}[g.intn(8)]
		case 5:
			if g.negZero {
				f = math.Copysign(0, -1)
			} else {
				f = -math.SmallestNonzeroFloat64 * float64(1+g.intn(3))
			}
		case 6:
			if allowInf {
				f = math.Inf(1 - 2*g.intn(2))
			} else {
				f = 1e300 * g.f64()
			}
		case 7:
			f = []float64{1e20, 1e21, 1e22, 1e-4, 1e-5, 1e-7, 123456789012345680000, 999999, 1000000, 100000, 0.0001, 0.00001, 1 << 53, 1<<53 + 2}[g.intn(14)]
		case 8:
			p := math.Pow(10, float64(g.intn(600)-300))
			f = math.Nextafter(p, []float64{0, math.Inf(1)}[g.intn(2)])
		case 9:
			f = float64(g.intn(2001)-1000) / 1000 // short decimals
		case 10:
			f = float64(g.intn(41) - 20)
		case 11:
			f = (g.f64() - 0.5) * 16 // what weight mutation produces
		case 12:
			f = math.Ldexp(1, g.intn(2098)-1074)
		default:
			f = (g.f64() - 0.5) * math.Pow(10, float64(g.intn(40)-20))
		}
		if !math.IsNaN(f) {
			return f
		}
	}
}

var allActTypes []neatmath.NodeActivationType

func registeredActs() []neatmath.NodeActivationType {
	if allActTypes == nil {
		for t := 0; t < 64; t++ {
			if _, err := neatmath.NodeActivators.ActivationNameFromType(neatmath.NodeActivationType(t)); err == nil {
				allActTypes = append(allActTypes, neatmath.NodeActivationType(t))
			}
		}
	}
	return allActTypes
}

// ioGenome: a private copy of a genome from the existing generator families (evolved lineages with disabled and
// recurrent genes and nil traits, shipped start genomes, hand built, random), then optionally arbitrary float64
// patterns as weights / mutation numbers / trait parameters and arbitrary registered activation types.
func ioGenome(g *G, modules bool, allowInf bool) (*genetics.Genome, string) {
	var src *genetics.Genome
	var fam string
	for tries := 0; ; tries++ {
		src, fam = anyGenome(g)
		if modules && tries < 3 && g.chance(0.5) && len(src.ControlGenes) == 0 {
			src, fam = loadYamlGenome("test_seed_genome.yml"), "modular"
		}
		if modules || len(src.ControlGenes) == 0 {
			break
		}
	}
	gn := cloneGenome(src)
	gn.Id = g.intn(1000)
	if fam == "modular:hand" {
		// the encodings carry module wires as endpoint lists only: every genome reachable from a file or by the operators
		// has plain wires of weight 1.0 (stated as theorem C15.yaml_module_links_read_as_one); hand-built wires are
		// brought to that form here - the hand-built part that matters for IO is the node numbering and the wiring
		for _, cg := range gn.ControlGenes {
			for _, l := range append(append([]*network.Link{}, cg.ControlNode.Incoming...), cg.ControlNode.Outgoing...) {
				l.ConnectionWeight, l.IsRecurrent, l.Trait = 1.0, false, nil
			}
		}
	}
	if fam == "modular" && g.chance(0.7) {
		// descendants of the modular genome by the real operators (module links stay as read: weight 1.0)
		opts := randOpts(g)
		rand.Seed(g.seed63())
		for k := g.intn(4); k >= 0; k-- {
			_, _ = genetics.VerifMutateLinkWeights(gn, opts.WeightMutPower, 1.0, false)
			_, _ = genetics.VerifMutateToggleEnable(gn, 1)
			// (crossover of modular genomes leaves the child's module links pointing at the PARENT's node objects -
			// not this property's business; descendants here come from duplication and mutation only)
			if other, err := genetics.VerifDuplicate(gn, gn.Id+1); err == nil && g.chance(0.5) {
				_, _ = genetics.VerifMutateLinkWeights(other, opts.WeightMutPower, 1.0, false)
				gn = other
			}
		}
		fam = "modular-evolved"
	}
	mode := g.intn(4)
	if mode > 0 {
		p := []float64{0, 0.3, 1, 1}[mode]
		for _, gene := range gn.Genes {
			if g.chance(p) {
				gene.Link.ConnectionWeight = ioFloat(g, allowInf)
			}
			if g.chance(p) {
				gene.MutationNum = ioFloat(g, allowInf)
			}
		}
		for _, t := range gn.Traits {
			for i := range t.Params {
				if g.chance(p * 0.5) {
					t.Params[i] = ioFloat(g, allowInf)
				}
			}
		}
		acts := registeredActs()
		for _, n := range gn.Nodes {
			if g.chance(p) {
				n.ActivationType = acts[g.intn(len(acts))]
			}
		}
		fam += fmt.Sprintf("+floats%d", mode)
	}
	if len(gn.ControlGenes) == 0 && g.chance(0.08) {
		// node list NOT ascending by id (a start genome built in code, or a file that lists the output first): every
		// encoding must give back the node list it was given, in its order
		g.gr.Shuffle(len(gn.Nodes), func(i, j int) { gn.Nodes[i], gn.Nodes[j] = gn.Nodes[j], gn.Nodes[i] })
		fam += "+nodes-unsorted"
	}
	return gn, fam
}

func nilEndpoint(gn *genetics.Genome) bool {
	for _, gene := range gn.Genes {
		if gene.Link == nil || gene.Link.InNode == nil || gene.Link.OutNode == nil {
			return true
		}
	}
	return false
}

// error class of the plain reader / population reader
func ioErrClass(err error) string {
	if err == nil {
		return ""
	}
	s := err.Error()
	switch {
	case strings.Contains(s, "trait ID") && strings.Contains(s, "not unique"):
		return "dupTrait"
	case strings.Contains(s, "control node ID") && strings.Contains(s, "not unique"):
		return "dupControlNode"
	case strings.Contains(s, "node ID") && strings.Contains(s, "not unique"):
		return "dupNode"
	case strings.Contains(s, "can not be split"):
		return "split"
	case strings.Contains(s, "node line is too short"):
		return "shortNode"
	case strings.Contains(s, "unsupported activation type name"), strings.Contains(s, "Unknown neuron type name"):
		return "unknownName"
	case strings.Contains(s, "value out of range"):
		return "intRange"
	case strings.Contains(s, "no MIMO"):
		return "noModuleNode"
	case strings.Contains(s, "no nodes"), strings.Contains(s, "no NODES"), strings.Contains(s, "NODES"):
		return "noNodes"
	case strings.Contains(s, "no genes"), strings.Contains(s, "GENES"):
		return "noGenes"
	}
	return "scan"
}

func recoverStr(f func()) (msg string) {
	defer func() {
		if r := recover(); r != nil {
			msg = fmt.Sprint(r)
		}
	}()
	f()
	return ""
}

/* ---------- plain genome ---------- */

type ioPlainIn struct {
	Src    *JGenome `json:"src"` // nil for a malformed text
	Family string   `json:"family"`
	Mal    string   `json:"mal"`
	Text   string   `json:"text"` // what the real writer printed (possibly damaged afterwards)
}
type ioPlainOut struct {
	WriteErr *string  `json:"writeErr"`
	Back     *JGenome `json:"back"`
	ReadErr  string   `json:"readErr"`
}

func writePlain(gn *genetics.Genome) (string, error) {
	var buf bytes.Buffer
	w, err := genetics.NewGenomeWriter(&buf, genetics.PlainGenomeEncoding)
	if err != nil {
		return "", err
	}
	err = w.WriteGenome(gn)
	return buf.String(), err
}

func readPlain(text string) (*genetics.Genome, error) {
	r, err := genomeReaderFor([]byte(text), genetics.PlainGenomeEncoding)
	if err != nil {
		return nil, err
	}
	return r.Read()
}

var readerCalls int

// genomeReaderFor: every fourth reader is obtained the way an application does it - from a FILE whose name selects the
// encoding (NewGenomeReaderFromFile / genomeEncodingFromFileName: *.yml, *.yaml -> YAML, anything else -> plain)
func genomeReaderFor(data []byte, enc genetics.GenomeEncoding) (genetics.GenomeReader, error) {
	readerCalls++
	if readerCalls%4 != 0 {
		return genetics.NewGenomeReader(bytes.NewReader(data), enc)
	}
	suffix := []string{".neat", ".txt", ".plain"}[readerCalls/4%3]
	if enc == genetics.YAMLGenomeEncoding {
		suffix = []string{".yml", ".yaml"}[readerCalls/4%2]
	}
	f, err := os.CreateTemp("", "gnharness_genome_*"+suffix)
	if err != nil {
		return genetics.NewGenomeReader(bytes.NewReader(data), enc)
	}
	name := f.Name()
	_, werr := f.Write(data)
	f.Close()
	defer os.Remove(name) // the reader keeps its open descriptor
	if werr != nil {
		return genetics.NewGenomeReader(bytes.NewReader(data), enc)
	}
	return genetics.NewGenomeReaderFromFile(name)
}

// damage one line of a written text in a way the reader must reject or survive exactly like the model
func damagePlain(g *G, text string) (string, string) {
	lines := strings.Split(strings.TrimSuffix(text, "\n"), "\n")
	pick := func(prefix string) int {
		var idx []int
		for i, l := range lines {
			if strings.HasPrefix(l, prefix) {
				idx = append(idx, i)
			}
		}
		if len(idx) == 0 {
			return -1
		}
		return idx[g.intn(len(idx))]
	}
	setField := func(i, f int, v string) {
		parts := strings.Split(lines[i], " ")
		if f < len(parts) {
			parts[f] = v
		}
		lines[i] = strings.Join(parts, " ")
	}
	insertAfter := func(i int, l string) {
		lines = append(lines[:i+1], append([]string{l}, lines[i+1:]...)...)
	}
	kind := ""
	switch g.intn(13) {
	case 0:
		if i := pick("trait "); i >= 0 {
			insertAfter(i, lines[i])
			kind = "dupTraitLine"
		}
	case 1:
		if i := pick("node "); i >= 0 {
			insertAfter(i, lines[i])
			kind = "dupNodeLine"
		}
	case 2:
		if i := pick("gene "); i >= 0 {
			setField(i, 2+g.intn(2), "9999")
			kind = "danglingEndpoint"
		}
	case 3:
		if i := pick("node "); i >= 0 {
			setField(i, 5, "BogusActivation")
			kind = "unknownActivation"
		}
	case 4:
		if i := pick("trait "); i >= 0 {
			parts := strings.Split(lines[i], " ")
			lines[i] = strings.Join(parts[:len(parts)-1], " ")
			kind = "sevenParams"
		}
	case 5:
		if i := pick("gene "); i >= 0 {
			setField(i, []int{5, 8}[g.intn(2)], "maybe")
			kind = "badBool"
		}
	case 6:
		if i := pick("node "); i >= 0 {
			parts := strings.Split(lines[i], " ")
			lines[i] = strings.Join(parts[:5], " ")
			kind = "noActivationField"
		}
	case 7:
		if i := pick("node "); i >= 0 {
			setField(i, 1, "3000000000")
			kind = "nodeIdOutOfRange"
		}
	case 8:
		lines[len(lines)-1] = "genomeend"
		kind = "lineWithoutSpace"
	case 9:
		if i := pick("node "); i >= 0 {
			setField(i, 2, "777")
			kind = "danglingNodeTrait"
		}
	case 10:
		if i := pick("gene "); i >= 0 {
			setField(i, 1, "777")
			kind = "danglingGeneTrait"
		}
	case 11:
		if i := pick("gene "); i >= 0 {
			setField(i, 4, "1.5x")
			kind = "badFloat"
		}
	case 12:
		if i := pick("node "); i >= 0 {
			setField(i, 4, "200")
			kind = "neuronTypeOutOfRange"
		}
	}
	return strings.Join(lines, "\n") + "\n", kind
}

func opIoPlain(g *G) (interface{}, []uint64, int, interface{}) {
	gn, fam := ioGenome(g, false, true)
	in := &ioPlainIn{Family: fam}
	out := &ioPlainOut{}
	if g.chance(0.03) && len(gn.Nodes) > 0 {
		gn.Nodes[g.intn(len(gn.Nodes))].ActivationType = neatmath.NodeActivationType(60) // unregistered: writer error
		in.Mal = "unregisteredActType"
	}
	in.Src = dumpGenome(gn)
	text, err := writePlain(gn)
	out.WriteErr = errStr(err)
	if err != nil {
		in.Text = ""
		return in, nil, 0, out
	}
	if in.Mal == "" && g.chance(0.12) {
		if t2, kind := damagePlain(g, text); kind != "" {
			text, in.Mal, in.Src = t2, kind, nil
		}
	}
	in.Text = text
	back, rerr := readPlain(text)
	out.ReadErr = ioErrClass(rerr)
	if rerr == nil {
		if nilEndpoint(back) {
			out.ReadErr = "nilEndpoint"
		} else {
			out.Back = dumpGenome(back)
		}
	}
	return in, nil, 0, out
}

/* ---------- YAML genome ---------- */

type ioYamlIn struct {
	Src    *JGenome `json:"src"`
	Family string   `json:"family"`
	// Outside: the genome was put outside the property's quantifier on purpose (module link weight ≠ 1.0 set by hand)
	Outside string `json:"outside"`
}
type ioYamlOut struct {
	WriteErr *string  `json:"writeErr"`
	TextLen  int      `json:"textLen"`
	Back     *JGenome `json:"back"`
	ReadErr  *string  `json:"readErr"`
}

func opIoYaml(g *G) (interface{}, []uint64, int, interface{}) {
	// negative zero is read back as +0 by the YAML path (known finding): generated in one case out of twelve only
	g.negZero = g.intn(12) == 0
	defer func() { g.negZero = true }()
	gn, fam := ioGenome(g, true, true)
	in := &ioYamlIn{Family: fam}
	if len(gn.ControlGenes) > 0 && g.chance(0.1) {
		cg := gn.ControlGenes[g.intn(len(gn.ControlGenes))]
		if len(cg.ControlNode.Incoming) > 0 {
			cg.ControlNode.Incoming[0].ConnectionWeight = 0.5 + float64(g.intn(5))
			in.Outside = "moduleLinkWeight"
		}
	}
	in.Src = dumpGenome(gn)
	out := &ioYamlOut{}
	var buf bytes.Buffer
	w, err := genetics.NewGenomeWriter(&buf, genetics.YAMLGenomeEncoding)
	if err == nil {
		err = w.WriteGenome(gn)
	}
	out.WriteErr = errStr(err)
	if err != nil {
		return in, nil, 0, out
	}
	out.TextLen = buf.Len()
	var back *genetics.Genome
	var rerr error
	if p := recoverStr(func() {
		r, e := genomeReaderFor(buf.Bytes(), genetics.YAMLGenomeEncoding)
		if e != nil {
			rerr = e
			return
		}
		back, rerr = r.Read()
	}); p != "" {
		rerr = fmt.Errorf("panic: %s", p)
	}
	out.ReadErr = errStr(rerr)
	if rerr == nil && !nilEndpoint(back) {
		out.Back = dumpGenome(back)
	}
	return in, nil, 0, out
}

/* ---------- organism wire form ---------- */

type JOrgBin struct {
	Fitness        uint64   `json:"fitness"`
	Generation     int      `json:"generation"`
	HighestFitness uint64   `json:"highestFitness"`
	ChampChild     bool     `json:"champChild"`
	Genome         *JGenome `json:"genome"`
}
type ioOrgIn struct {
	Src    *JOrgBin `json:"src"`
	Family string   `json:"family"`
	Text   string   `json:"text"`
}
type ioOrgOut struct {
	WriteErr *string  `json:"writeErr"`
	Back     *JOrgBin `json:"back"`
	ReadErr  string   `json:"readErr"`
}

func dumpOrgBin(o *genetics.Organism) *JOrgBin {
	st := genetics.VerifOrganismState_(o)
	return &JOrgBin{Fitness: bits(o.Fitness), Generation: o.Generation, HighestFitness: bits(st.HighestFitness),
		ChampChild: st.IsPopulationChampionChild, Genome: dumpGenome(o.Genotype)}
}

func opIoOrganism(g *G) (interface{}, []uint64, int, interface{}) {
	gn, fam := ioGenome(g, false, true)
	org, err := genetics.NewOrganism(ioFloat(g, true), gn, g.intn(500)-5)
	if err != nil {
		return nil, nil, 0, nil
	}
	st := genetics.VerifOrganismState_(org)
	st.HighestFitness = ioFloat(g, true)
	st.IsPopulationChampionChild = g.chance(0.5)
	genetics.VerifSetOrganismState(org, st)
	if g.chance(0.3) && len(gn.Genes) > 0 {
		// SEQUENCE on one organism: marshal, change the genome in place (no UpdatePhenotype), marshal again - the
		// second binary form must carry the genome as it is now
		_, _ = org.MarshalBinary()
		for k := 1 + g.intn(3); k > 0; k-- {
			gene := gn.Genes[g.intn(len(gn.Genes))]
			switch g.intn(3) {
			case 0:
				gene.Link.ConnectionWeight = ioFloat(g, true)
			case 1:
				gene.IsEnabled = !gene.IsEnabled
			default:
				gene.MutationNum = ioFloat(g, true)
			}
		}
		org.Fitness = ioFloat(g, true)
		fam += "+remarshal"
	}
	in := &ioOrgIn{Src: dumpOrgBin(org), Family: fam}
	out := &ioOrgOut{}
	data, err := org.MarshalBinary()
	out.WriteErr = errStr(err)
	if err != nil {
		return in, nil, 0, out
	}
	if g.chance(0.5) {
		// the binary form must stay valid while OTHER organisms are marshalled (the parallel executor sends many over a
		// channel before any is decoded): marshal a few more before decoding this one
		for k := 1 + g.intn(3); k > 0; k-- {
			gn2, _ := ioGenome(g, false, true)
			if o2, e2 := genetics.NewOrganism(ioFloat(g, true), gn2, g.intn(500)); e2 == nil {
				_, _ = o2.MarshalBinary()
			}
		}
		in.Family += "+interleaved"
	}
	in.Text = string(data)
	back := &genetics.Organism{}
	if g.chance(0.3) {
		// the receiver is an organism ALREADY IN USE: it holds another genome - often with the same genome id, as the
		// ids of a generation are renumbered from zero in every epoch - and other fitness / generation values
		gn2, _ := ioGenome(g, false, true)
		if g.chance(0.7) {
			gn2.Id = org.Genotype.Id
		}
		if o2, e2 := genetics.NewOrganism(ioFloat(g, true), gn2, g.intn(500)); e2 == nil {
			back = o2
			in.Family += "+usedReceiver"
		}
	}
	rerr := back.UnmarshalBinary(data)
	out.ReadErr = ioErrClass(rerr)
	if rerr == nil && back.Genotype != nil && !nilEndpoint(back.Genotype) {
		out.Back = dumpOrgBin(back)
	}
	return in, nil, 0, out
}

/* ---------- population files ---------- */

type ioPopIn struct {
	Genomes   []*JGenome `json:"genomes"` // in the order the file lists them
	BySpecies bool       `json:"bySpecies"`
	Family    string     `json:"family"`
	Text      string     `json:"text"`
}
type ioPopOut struct {
	WriteErr *string    `json:"writeErr"`
	Back     []*JGenome `json:"back"`
	ReadErr  string     `json:"readErr"`
}

func opIoPopulation(g *G) (interface{}, []uint64, int, interface{}) {
	k := 1 + g.intn(6)
	opts := randOpts(g)
	pop := genetics.VerifNewEmptyPopulation()
	fams := map[string]bool{}
	var orgs []*genetics.Organism
	for i := 0; i < k; i++ {
		gn, fam := ioGenome(g, false, true)
		gn.Id = 10 + i
		fams[fam] = true
		org, _ := genetics.NewOrganism(float64(i)+g.f64()*0.5, gn, 1) // pairwise different fitness
		orgs = append(orgs, org)
	}
	pop.Organisms = orgs
	in := &ioPopIn{BySpecies: g.chance(0.4)}
	for f := range fams {
		in.Family += f + " "
	}
	fl := strings.Fields(in.Family)
	sort.Strings(fl)
	in.Family = strings.Join(fl, " ")
	out := &ioPopOut{}
	var buf bytes.Buffer
	var err error
	order := orgs
	if in.BySpecies {
		rand.Seed(g.seed63())
		if err = genetics.VerifSpeciate(pop, opts.NeatContext(), orgs); err != nil {
			return nil, nil, 0, nil
		}
		order = nil
		for _, sp := range pop.Species {
			s := append(genetics.Organisms{}, sp.Organisms...)
			sort.SliceStable(s, func(a, b int) bool { return s[a].Fitness > s[b].Fitness })
			order = append(order, s...)
			if g.chance(0.3) {
				s[0].IsWinner = true
			}
		}
		err = pop.WriteBySpecies(&buf)
	} else {
		err = pop.Write(&buf)
	}
	for _, o := range order {
		in.Genomes = append(in.Genomes, dumpGenome(o.Genotype))
	}
	out.WriteErr = errStr(err)
	if err != nil {
		return in, nil, 0, out
	}
	in.Text = buf.String()
	var back *genetics.Population
	var rerr error
	rand.Seed(g.seed63())
	if p := recoverStr(func() { back, rerr = genetics.ReadPopulation(strings.NewReader(in.Text), opts) }); p != "" {
		out.ReadErr = "panic"
		return in, nil, 0, out
	}
	out.ReadErr = ioErrClass(rerr)
	if rerr == nil {
		out.Back = []*JGenome{}
		for _, o := range back.Organisms {
			if nilEndpoint(o.Genotype) {
				out.ReadErr = "nilEndpoint"
				out.Back = nil
				break
			}
			out.Back = append(out.Back, dumpGenome(o.Genotype))
		}
	}
	return in, nil, 0, out
}

/* ---------- fast-solver model file ---------- */

type JFLinkIO struct {
	Src    int    `json:"src"`
	Tgt    int    `json:"tgt"`
	Weight uint64 `json:"weight"`
	Signal uint64 `json:"signal"`
}
type JFModIO struct {
	Act  int   `json:"act"`
	Ins  []int `json:"ins"`
	Outs []int `json:"outs"`
}
type JFastModel struct {
	Id       int        `json:"id"`
	Name     string     `json:"name"`
	NInput   int        `json:"nInput"`
	NSensor  int        `json:"nSensor"`
	NOutput  int        `json:"nOutput"`
	NBias    int        `json:"nBias"`
	NTotal   int        `json:"nTotal"`
	Acts     []int      `json:"acts"`
	BiasList []uint64   `json:"biasList"`
	Conns    []JFLinkIO `json:"conns"`
	Modules  []JFModIO  `json:"modules"`
	// the arrays the constructor derives (compared on the Go side of the dump only)
	Signals []uint64 `json:"signals"`
}

func dumpFastModel(s *network.FastModularNetworkSolver) *JFastModel {
	st := network.VerifFastState_(s)
	m := &JFastModel{Id: s.Id, Name: s.Name, NInput: st.InputNeuronCount, NSensor: st.SensorNeuronCount, NOutput: st.OutputNeuronCount,
		NBias: st.BiasNeuronCount, NTotal: st.TotalNeuronCount, Acts: []int{}, BiasList: bitsOf(st.BiasList), Conns: []JFLinkIO{},
		Modules: []JFModIO{}, Signals: bitsOf(st.NeuronSignals)}
	for _, a := range st.ActivationFunctions {
		m.Acts = append(m.Acts, int(a))
	}
	for _, c := range st.Connections {
		m.Conns = append(m.Conns, JFLinkIO{c.SourceIndex, c.TargetIndex, bits(c.Weight), bits(c.Signal)})
	}
	for _, md := range st.Modules {
		m.Modules = append(m.Modules, JFModIO{int(md.ActivationType), append([]int{}, md.InputIndexes...), append([]int{}, md.OutputIndexes...)})
	}
	return m
}

type ioSolverRun struct {
	Inputs []uint64 `json:"inputs"`
	Mode   string   `json:"mode"`
	SrcOut []uint64 `json:"srcOut"`
	SrcErr *string  `json:"srcErr"`
	BakOut []uint64 `json:"bakOut"`
	BakErr *string  `json:"bakErr"`
}
type ioSolverIn struct {
	Src    *JFastModel `json:"src"`
	Family string      `json:"family"`
}
type ioSolverOut struct {
	WriteErr *string       `json:"writeErr"`
	TextLen  int           `json:"textLen"`
	Back     *JFastModel   `json:"back"`
	ReadErr  *string       `json:"readErr"`
	Runs     []ioSolverRun `json:"runs"`
}

func opIoSolver(g *G) (interface{}, []uint64, int, interface{}) {
	var net *network.Network
	fam := ""
	switch c := g.intn(10); {
	case c < 4:
		sp, _, cls := genDAG(g, false)
		net, fam = sp.build(), "dag:"+cls
	case c < 6:
		sp, cls := genGraph(g)
		net, fam = sp.build(), "graph:"+cls
	case c < 8:
		gn, f := ioGenome(g, true, false)
		n, err := gn.Genesis(gn.Id)
		if err != nil {
			return nil, nil, 0, nil
		}
		net, fam = n, "genesis:"+f
	default:
		gn := loadYamlGenome("test_seed_genome.yml")
		for _, gene := range gn.Genes {
			if g.chance(0.5) {
				gene.Link.ConnectionWeight = ioFloat(g, false)
			}
		}
		n, err := gn.Genesis(gn.Id)
		if err != nil {
			return nil, nil, 0, nil
		}
		net, fam = n, "genesis:modular"
	}
	if g.chance(0.5) {
		// arbitrary finite weights on the phenotype links (encoding/json refuses ±Inf and NaN)
		for _, n := range net.AllNodes() {
			for _, l := range n.Incoming {
				if g.chance(0.4) {
					l.ConnectionWeight = ioFloat(g, false)
				}
			}
		}
		fam += "+floats"
	}
	var solver network.Solver
	var err error
	if p := recoverStr(func() { solver, err = net.FastNetworkSolver() }); p != "" || err != nil {
		return nil, nil, 0, nil
	}
	src := solver.(*network.FastModularNetworkSolver)
	src.Id, src.Name = g.intn(1000), fmt.Sprintf("net \"%d\" é", g.intn(100))
	in := &ioSolverIn{Src: dumpFastModel(src), Family: fam}
	out := &ioSolverOut{}
	var buf bytes.Buffer
	err = src.WriteModel(&buf)
	out.WriteErr = errStr(err)
	if err != nil {
		return in, nil, 0, out
	}
	out.TextLen = buf.Len()
	back, rerr := network.ReadFMNSModel(bytes.NewReader(buf.Bytes()))
	out.ReadErr = errStr(rerr)
	if rerr != nil {
		return in, nil, 0, out
	}
	out.Back = dumpFastModel(back)
	// identical outputs on the same inputs, several activation modes, state carried from run to run
	nIn := in.Src.NInput
	for r := 0; r < 3+g.intn(3); r++ {
		run := ioSolverRun{Mode: []string{"steps", "relax", "recursive", "flush+steps"}[g.intn(4)]}
		xs := make([]float64, nIn)
		for i := range xs {
			xs[i] = pickInput(g)
		}
		run.Inputs = bitsOf(xs)
		steps := 1 + g.intn(5)
		exec := func(s *network.FastModularNetworkSolver) ([]uint64, *string) {
			var e error
			if p := recoverStr(func() {
				if run.Mode == "flush+steps" {
					_, _ = s.Flush()
				}
				if e = s.LoadSensors(xs); e != nil {
					return
				}
				switch run.Mode {
				case "relax":
					_, e = s.Relax(10, 0.001)
				case "recursive":
					_, e = s.RecursiveSteps()
				default:
					_, e = s.ForwardSteps(steps)
				}
			}); p != "" {
				e = fmt.Errorf("panic: %s", p)
			}
			return bitsOf(s.ReadOutputs()), errStr(e)
		}
		run.SrcOut, run.SrcErr = exec(src)
		run.BakOut, run.BakErr = exec(back)
		out.Runs = append(out.Runs, run)
	}
	return in, nil, 0, out
}

/* ---------- saved experiment ---------- */

type JIoOrg struct {
	Fitness           uint64   `json:"fitness"`
	IsWinner          bool     `json:"isWinner"`
	Generation        int      `json:"generation"`
	ExpectedOffspring uint64   `json:"expectedOffspring"`
	Error             uint64   `json:"error"`
	Genotype          *JGenome `json:"genotype"`
}
type JIoGeneration struct {
	Id          int      `json:"id"`
	Executed    int64    `json:"executed"` // UnixNano
	Solved      bool     `json:"solved"`
	Fitness     []uint64 `json:"fitness"`
	Age         []uint64 `json:"age"`
	Complexity  []uint64 `json:"complexity"`
	Diversity   int      `json:"diversity"`
	WinnerEvals int      `json:"winnerEvals"`
	WinnerNodes int      `json:"winnerNodes"`
	WinnerGenes int      `json:"winnerGenes"`
	Duration    int64    `json:"duration"`
	TrialId     int      `json:"trialId"`
	Champion    *JIoOrg    `json:"champion"`
}
type JIoTrial struct {
	Id   int           `json:"id"`
	Gens []JIoGeneration `json:"gens"`
}
type JIoExperiment struct {
	Id     int      `json:"id"`
	Name   string   `json:"name"`
	Trials []JIoTrial `json:"trials"`
}

func dumpIoOrg(o *genetics.Organism) *JIoOrg {
	if o == nil {
		return nil
	}
	return &JIoOrg{Fitness: bits(o.Fitness), IsWinner: o.IsWinner, Generation: o.Generation, ExpectedOffspring: bits(o.ExpectedOffspring),
		Error: bits(o.Error), Genotype: dumpGenome(o.Genotype)}
}

func dumpExperiment(e *experiment.Experiment) *JIoExperiment {
	j := &JIoExperiment{Id: e.Id, Name: e.Name, Trials: []JIoTrial{}}
	for _, t := range e.Trials {
		jt := JIoTrial{Id: t.Id, Gens: []JIoGeneration{}}
		for _, gen := range t.Generations {
			jt.Gens = append(jt.Gens, JIoGeneration{Id: gen.Id, Executed: gen.Executed.UnixNano(), Solved: gen.Solved,
				Fitness: bitsOf(gen.Fitness), Age: bitsOf(gen.Age), Complexity: bitsOf(gen.Complexity), Diversity: gen.Diversity,
				WinnerEvals: gen.WinnerEvals, WinnerNodes: gen.WinnerNodes, WinnerGenes: gen.WinnerGenes,
				Duration: int64(gen.Duration), TrialId: gen.TrialId, Champion: dumpIoOrg(gen.Champion)})
		}
		j.Trials = append(j.Trials, jt)
	}
	return j
}

// the statistics derived from a record that the property names: fitness, complexity, diversity, winner statistics
// (plus solved counts / epochs per trial).  Everything as bit patterns, in a fixed order.
func experimentStats(e *experiment.Experiment) (st map[string][]uint64, panicked string) {
	st = map[string][]uint64{}
	panicked = recoverStr(func() {
		st["bestFitness"] = bitsOf(e.BestFitness())
		st["bestComplexity"] = bitsOf(e.BestComplexity())
		st["avgDiversity"] = bitsOf(e.AvgDiversity())
		st["epochsPerTrial"] = bitsOf(e.EpochsPerTrial())
		st["trialsSolved"] = []uint64{uint64(e.TrialsSolved())}
		st["successRate"] = []uint64{bits(e.SuccessRate())}
		st["avgGenerationsPerTrial"] = []uint64{bits(e.AvgGenerationsPerTrial())}
		an, ag, ae, ad := e.AvgWinnerStatistics()
		st["avgWinner"] = bitsOf([]float64{an, ag, ae, ad})
		if org, trial, ok := e.BestOrganism(false); ok && org != nil && org.Genotype != nil {
			st["bestOrganism"] = []uint64{bits(org.Fitness), uint64(int64(org.Genotype.Id)), uint64(int64(trial))}
		}
		for i := range e.Trials {
			t := &e.Trials[i]
			k := fmt.Sprintf("trial%d.", i)
			st[k+"championsFitness"] = bitsOf(t.ChampionsFitness())
			st[k+"championsComplexities"] = bitsOf(t.ChampionsComplexities())
			st[k+"diversity"] = bitsOf(t.Diversity())
			f, a, c := t.Average()
			st[k+"avgFitness"], st[k+"avgAge"], st[k+"avgComplexity"] = bitsOf(f), bitsOf(a), bitsOf(c)
			n, gs, ev, dv := t.WinnerStatistics()
			st[k+"winner"] = []uint64{uint64(int64(n)), uint64(int64(gs)), uint64(int64(ev)), uint64(int64(dv))}
			solved := uint64(0)
			if t.Solved() {
				solved = 1
			}
			st[k+"solved"] = []uint64{solved}
			if org, ok := t.BestOrganism(false); ok && org != nil && org.Genotype != nil {
				st[k+"bestOrganism"] = []uint64{bits(org.Fitness), uint64(int64(org.Genotype.Id))}
			}
		}
	})
	return st, panicked
}

type ioEvaluator struct {
	g       *G
	solveAt int
}

func (ev *ioEvaluator) GenerationEvaluate(ctx context.Context, pop *genetics.Population, epoch *experiment.Generation) error {
	var best *genetics.Organism
	for _, o := range pop.Organisms {
		o.Fitness = 0.001 + ev.g.f64()*float64(1+len(o.Genotype.Genes))
		o.Error = 1 / o.Fitness
		if best == nil || o.Fitness > best.Fitness {
			best = o
		}
	}
	if epoch.Id == ev.solveAt {
		best.IsWinner = true
		epoch.Solved = true
		epoch.Champion = best
		epoch.WinnerNodes = len(best.Genotype.Nodes)
		epoch.WinnerGenes = best.Genotype.Extrons()
		epoch.WinnerEvals = (epoch.Id + 1) * len(pop.Organisms)
	}
	epoch.FillPopulationStatistics(pop)
	return nil
}

type ioExpIn struct {
	Src    *JIoExperiment `json:"src"`
	Family string       `json:"family"`
	// Outside: "nilChampion" / "nilGenotype": record put outside `Execute`'s records on purpose
	Outside string `json:"outside"`
}
type ioExpOut struct {
	WriteErr  *string             `json:"writeErr"`
	Back      *JIoExperiment        `json:"back"`
	ReadErr   *string             `json:"readErr"`
	SrcStats  map[string][]uint64 `json:"srcStats"`
	BackStats map[string][]uint64 `json:"backStats"`
	StatPanic string              `json:"statPanic"`
	// StaleSrcPhenotypes: champions of the SOURCE record whose cached phenotype did not express their genome (a
	// defect of mutateAddLink + NewOrganism, not of the encoding); the source statistics are taken after a refresh
	StaleSrcPhenotypes int `json:"staleSrcPhenotypes"`
}

func syntheticExperiment(g *G) *experiment.Experiment {
	e := &experiment.Experiment{Id: g.intn(100), Name: []string{"xor", "pole balancing №2", "", "a b\nc"}[g.intn(4)]}
	nT := g.intn(4)
	for t := 0; t < nT; t++ {
		tr := experiment.Trial{Id: t}
		nG := g.intn(5)
		for k := 0; k < nG; k++ {
			d := 1 + g.intn(4)
			gen := experiment.Generation{Id: k, TrialId: t, Executed: time.Unix(1_600_000_000+int64(g.intn(1e8)), int64(g.intn(1e9))),
				Solved: g.chance(0.3), Diversity: d, WinnerEvals: g.intn(10000), WinnerNodes: g.intn(30), WinnerGenes: g.intn(60),
				Duration: time.Duration(g.gr.Int63n(1e12))}
			if g.chance(0.3) {
				gen.Executed = gen.Executed.UTC()
			}
			for i := 0; i < d; i++ {
				gen.Fitness = append(gen.Fitness, ioFloat(g, true))
				gen.Age = append(gen.Age, float64(g.intn(30)))
				gen.Complexity = append(gen.Complexity, float64(g.intn(80)))
			}
			gn, _ := ioGenome(g, false, true)
			org, _ := genetics.NewOrganism(ioFloat(g, true), gn, k)
			org.IsWinner = gen.Solved
			org.ExpectedOffspring = ioFloat(g, true)
			org.Error = ioFloat(g, true)
			gen.Champion = org
			tr.Generations = append(tr.Generations, gen)
		}
		e.Trials = append(e.Trials, tr)
	}
	return e
}

func opIoExperiment(g *G) (interface{}, []uint64, int, interface{}) {
	var e *experiment.Experiment
	in := &ioExpIn{}
	if g.chance(0.45) {
		// a record produced by the real Execute (sequential executor, tiny populations)
		opts := randOpts(g)
		opts.PopSize = 6 + g.intn(10)
		opts.NumRuns = 1 + g.intn(2)
		opts.NumGenerations = 1 + g.intn(4)
		start := loadStartGenome(startGenomeFiles[g.intn(3)])
		e = &experiment.Experiment{Id: g.intn(100), Name: "executed"}
		ev := &ioEvaluator{g: g, solveAt: g.intn(opts.NumGenerations + 2)}
		rand.Seed(g.seed63())
		var err error
		if p := recoverStr(func() { err = e.Execute(neat.NewContext(context.Background(), opts), start, ev, nil) }); p != "" || err != nil {
			return nil, nil, 0, nil
		}
		in.Family = "executed"
	} else {
		e = syntheticExperiment(g)
		in.Family = "synthetic"
		if g.chance(0.12) {
			// outside the records of Execute: a generation without champion / a champion without genotype
			for ti := range e.Trials {
				if n := len(e.Trials[ti].Generations); n > 0 {
					gen := &e.Trials[ti].Generations[g.intn(n)]
					if g.chance(0.5) {
						gen.Champion = nil
						in.Outside = "nilChampion"
					} else {
						gen.Champion.Genotype = nil
						in.Outside = "nilGenotype"
					}
					break
				}
			}
		}
	}
	if in.Outside == "nilGenotype" {
		// dumpGenome(nil) gives nil; statistics on the source would panic in BestOrganism: not taken
		in.Src = dumpExperiment(e)
	} else {
		in.Src = dumpExperiment(e)
	}
	out := &ioExpOut{}
	var buf bytes.Buffer
	err := e.Write(&buf)
	out.WriteErr = errStr(err)
	if err != nil {
		return in, nil, 0, out
	}
	back := &experiment.Experiment{}
	if g.chance(0.3) {
		// the record is read into an Experiment value that is ALREADY IN USE: it holds another record whose statistics were
		// queried (cached winner generations, durations); nothing of it may survive the read
		back = syntheticExperiment(g)
		for i := range back.Trials {
			_ = recoverStr(func() { _, _, _, _ = back.Trials[i].WinnerStatistics() })
		}
		in.Family += "+usedReceiver"
	}
	var rerr error
	if p := recoverStr(func() { rerr = back.Read(bytes.NewReader(buf.Bytes())) }); p != "" {
		rerr = fmt.Errorf("panic: %s", p)
	}
	out.ReadErr = errStr(rerr)
	if rerr != nil {
		return in, nil, 0, out
	}
	out.Back = dumpExperiment(back)
	if in.Outside == "" {
		var p1, p2 string
		// "statistics derived from the champion genomes": refresh cached phenotypes that are stale
		for ti := range e.Trials {
			for gi := range e.Trials[ti].Generations {
				ch := e.Trials[ti].Generations[gi].Champion
				if ch == nil || ch.Genotype == nil {
					continue
				}
				old, err1 := ch.Phenotype()
				fresh, err2 := ch.Genotype.Genesis(ch.Genotype.Id)
				if err1 == nil && err2 == nil && (old.NodeCount() != fresh.NodeCount() || old.LinkCount() != fresh.LinkCount()) {
					out.StaleSrcPhenotypes++
				}
				_ = ch.UpdatePhenotype()
			}
		}
		out.SrcStats, p1 = experimentStats(e)
		out.BackStats, p2 = experimentStats(back)
		out.StatPanic = p1 + p2
	}
	return in, nil, 0, out
}
