package main

// execEpochs (C20 composed with C01/C02/C06): the REAL Experiment.Execute with the real NewPopulation / sequential
// NextEpoch, driven by a deterministic fitness-assigning evaluator with a scripted solved / error table. The case
// records every population handed to the evaluator (before it assigns fitness), the calls received, Experiment.Trials,
// the returned error and the raw random stream of the whole run. The Lean driver co-simulates the whole run with
// `executeReal` (Model/ExperimentEpoch.lean) bit for bit.

import (
	"context"
	"errors"
	"fmt"

	"github.com/yaricom/goNEAT/v4/experiment"
	"github.com/yaricom/goNEAT/v4/neat"
	"github.com/yaricom/goNEAT/v4/neat/genetics"
)

func init() {
	register("execEpochs", opExecEpochs)
}

type JEvalPop struct {
	T   int   `json:"t"`
	G   int   `json:"g"`
	Pop *JPop `json:"pop"`
}

type epochsRecorder struct {
	solved [][2]int
	fail   [][2]int
	events []JEvent
	pops   []JEvalPop
}

func (r *epochsRecorder) GenerationEvaluate(_ context.Context, pop *genetics.Population, epoch *experiment.Generation) error {
	t, g := epoch.TrialId, epoch.Id
	r.events = append(r.events, JEvent{K: "eval", T: t, G: g})
	r.pops = append(r.pops, JEvalPop{T: t, G: g, Pop: dumpPop(pop)})
	// fitness by position in Population.Organisms, trial and generation: positive, finite, with ties
	for i, o := range pop.Organisms {
		o.Fitness = 1.0 + float64((i*7+g*3+t)%11)/4.0
	}
	if has2(r.fail, t, g) {
		return &scriptedEvalError{t: t, g: g}
	}
	if has2(r.solved, t, g) {
		epoch.Solved = true
		epoch.Champion = pop.Organisms[0] // Execute formats Champion.Fitness
	}
	return nil
}
func (r *epochsRecorder) TrialRunStarted(trial *experiment.Trial) {
	r.events = append(r.events, JEvent{K: "started", T: trial.Id})
}
func (r *epochsRecorder) TrialRunFinished(trial *experiment.Trial) {
	r.events = append(r.events, JEvent{K: "finished", T: trial.Id})
}
func (r *epochsRecorder) EpochEvaluated(trial *experiment.Trial, epoch *experiment.Generation) {
	r.events = append(r.events, JEvent{K: "evaluated", T: trial.Id, G: epoch.Id})
}

func opExecEpochs(g *G) (interface{}, []uint64, int, interface{}) {
	opts := popOpts(g)
	opts.PopSize = 3 + g.intn(10)
	if g.thorough && g.chance(0.3) {
		opts.PopSize = 10 + g.intn(25)
	}
	if opts.BabiesStolen > opts.PopSize/2 {
		opts.BabiesStolen = g.intn(opts.PopSize/2 + 1)
	}
	opts.NumRuns = 1 + g.intn(3)
	opts.NumGenerations = 1 + g.intn(5)
	if g.thorough {
		opts.NumGenerations = 1 + g.intn(9)
	}
	opts.EpochExecutorType = neat.EpochExecutorTypeSequential
	var start *genetics.Genome
	origin := ""
	if g.chance(0.6) {
		origin = startGenomeFiles[g.intn(len(startGenomeFiles))]
		start = loadStartGenome(origin)
	} else {
		origin = "hand"
		start = handGenome(g, 0)
	}
	observer := g.chance(0.7)
	rec := &epochsRecorder{solved: [][2]int{}, fail: [][2]int{}, events: []JEvent{}, pops: []JEvalPop{}}
	for t := 0; t < opts.NumRuns; t++ {
		if g.chance(0.35) {
			rec.solved = append(rec.solved, [2]int{t, g.intn(opts.NumGenerations)})
		}
	}
	if g.chance(0.15) {
		rec.fail = append(rec.fail, [2]int{g.intn(opts.NumRuns), g.intn(opts.NumGenerations)})
	}
	before := dumpGenome(start)
	exp := &experiment.Experiment{Id: 0}
	var obs experiment.TrialRunObserver
	if observer {
		obs = rec
	}
	var err error
	var pan interface{}
	stream, consumed := withSeed(g.seed63(), func() {
		defer func() { pan = recover() }()
		err = exp.Execute(neat.NewContext(context.Background(), opts), start, rec, obs)
	})
	trials := []JTrialRec{}
	for _, tr := range exp.Trials {
		jt := JTrialRec{Id: tr.Id, Gens: []JGenRec{}}
		for _, gn := range tr.Generations {
			jt.Gens = append(jt.Gens, JGenRec{Id: gn.Id, TrialId: gn.TrialId, Solved: gn.Solved})
		}
		jt.Stored = len(tr.Generations) > 0 || tr.Id != 0
		trials = append(trials, jt)
	}
	out := map[string]interface{}{"events": rec.events, "pops": rec.pops, "trials": trials, "startAfter": dumpGenome(start)}
	switch {
	case pan != nil:
		out["panic"] = fmt.Sprint(pan)
	case err != nil:
		je := &JErr{Msg: err.Error()}
		var se *scriptedEvalError
		if errors.As(err, &se) {
			je.Cls, je.T, je.G = "eval", se.t, se.g
		} else {
			// an error of NewPopulation / Verify / NextEpoch: its class as the epoch / spawn ops report it
			je.Cls = "mech"
			if c := errClass(err, nil); c != nil {
				je.Msg = *c
			}
		}
		out["err"] = je
	}
	in := map[string]interface{}{"g": before, "opts": dumpEpochOpts(opts), "runs": opts.NumRuns, "maxGen": opts.NumGenerations,
		"observer": observer, "solved": rec.solved, "fail": rec.fail, "origin": origin}
	return in, stream, consumed, out
}
