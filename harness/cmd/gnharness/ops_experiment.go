package main

// C20: the real Experiment.Execute driven by a scripted GenerationEvaluator / TrialRunObserver on tiny
// populations. The script says what the environment does (per trial and generation: solved / unsolved /
// evaluator error, turnover failure, cancellation inside a callback); the harness records the sequence of
// calls the evaluator and the observer received, the completed epoch turnovers (probed on the population the
// evaluator was handed), Experiment.Trials and the returned error.
//
//   execExhaustive : every reachable run for runs <= 3 x generations <= 5 (case k = k-th script of the enumeration)
//   execRandom     : random larger scripts (several cancellation sources, failures at random places)

import (
	"context"
	"errors"
	"fmt"
	"math/rand"
	"strings"

	"github.com/yaricom/goNEAT/v4/experiment"
	"github.com/yaricom/goNEAT/v4/neat"
	"github.com/yaricom/goNEAT/v4/neat/genetics"
)

func init() {
	register("execExhaustive", opExecExhaustive)
	register("execRandom", opExecRandom)
}

const (
	evUnsolved = 0
	evSolved   = 1
	evFail     = 2
)

// JScript is the `in` of an exec case (the Lean model's Script)
type JScript struct {
	HasOptions       bool     `json:"hasOptions"`
	Runs             int      `json:"runs"`
	MaxGen           int      `json:"maxGen"`
	Observer         bool     `json:"observer"`
	Executor         string   `json:"executor"`
	ExecOk           bool     `json:"execOk"`
	PreCancelled     bool     `json:"preCancelled"`
	SpawnFail        []int    `json:"spawnFail"`
	Eval             [][]int  `json:"eval"` // [t][g] -> evUnsolved/evSolved/evFail; missing = unsolved
	EvalCancels      [][2]int `json:"evalCancels"`
	EpochFails       [][2]int `json:"epochFails"`
	StartedCancels   []int    `json:"startedCancels"`
	EvaluatedCancels [][2]int `json:"evaluatedCancels"`
	FinishedCancels  []int    `json:"finishedCancels"`
	PopSize          int      `json:"popSize"`
	Prefill          bool     `json:"prefill"` // Experiment.Trials pre-allocated by the caller (Id = -1 sentinels)
	Family           string   `json:"family"`
}

func (s *JScript) evalAt(t, g int) int {
	if t < len(s.Eval) && g < len(s.Eval[t]) {
		return s.Eval[t][g]
	}
	return evUnsolved
}
func has2(l [][2]int, t, g int) bool {
	for _, p := range l {
		if p[0] == t && p[1] == g {
			return true
		}
	}
	return false
}
func has1(l []int, t int) bool {
	for _, p := range l {
		if p == t {
			return true
		}
	}
	return false
}

type JEvent struct {
	K  string `json:"k"`
	T  int    `json:"t"`
	G  int    `json:"g"`
	Pt int    `json:"pt"`
	Pe int    `json:"pe"`
}
type JGenRec struct {
	Id      int  `json:"id"`
	TrialId int  `json:"trialId"`
	Solved  bool `json:"solved"`
}
type JTrialRec struct {
	Id     int       `json:"id"`
	Stored bool      `json:"stored"`
	Gens   []JGenRec `json:"gens"`
}
type JErr struct {
	Cls string `json:"cls"`
	T   int    `json:"t"`
	G   int    `json:"g"`
	Msg string `json:"msg"`
}
type JExecOut struct {
	Events []JEvent    `json:"events"`
	Trials []JTrialRec `json:"trials"`
	Err    *JErr       `json:"err"`
	Panic  string      `json:"panic"`
	Skip   string      `json:"skip"`
	Note   string      `json:"note"`
}

// scriptedEvalError is the error value the scripted evaluator returns; Execute must hand it back
type scriptedEvalError struct {
	t, g int
	// wraps: evaluators often hand on what their own machinery reported - e.g. context.Canceled / DeadlineExceeded of a
	// sub-context of their own while the experiment's context is alive; an evaluator error is an evaluator error
	wraps error
}

func (e *scriptedEvalError) Error() string { return fmt.Sprintf("scripted evaluator error t=%d g=%d", e.t, e.g) }
func (e *scriptedEvalError) Unwrap() error { return e.wraps }

// recorder is evaluator + observer + turnover probe
type recorder struct {
	s      *JScript
	opts   *neat.Options
	cancel context.CancelFunc
	events []JEvent
	note   string

	popTrial map[*genetics.Population]int
	baseAge  map[*genetics.Population]int
	cur      *genetics.Population
	curT     int
	curG     int
	counted  int // turnovers of cur already reported
	snap     map[*genetics.Organism]bool
}

func maxSpeciesAge(p *genetics.Population) int {
	// turnovers a species has survived: a novel species (as created by NewPopulation) loses its novel flag in its
	// first turnover and ages by one in each later one
	m := 0
	for _, sp := range p.Species {
		a := sp.Age
		if sp.IsNovel {
			a--
		}
		if a > m {
			m = a
		}
	}
	return m
}

// probe reports turnovers of the current population that completed since the last probe
func (r *recorder) probe() {
	if r.cur == nil {
		return
	}
	cnt := maxSpeciesAge(r.cur) - r.baseAge[r.cur]
	// a completed turnover replaces every organism (a failed one may only have purged some)
	changed := len(r.cur.Organisms) > 0
	for _, o := range r.cur.Organisms {
		if r.snap[o] {
			changed = false
		}
	}
	if changed && cnt <= r.counted {
		r.note = "probe: organisms replaced but species age did not advance"
		cnt = r.counted + 1
		r.baseAge[r.cur]-- // keep counting from here
	}
	if !changed && cnt > r.counted {
		r.note = "probe: species age advanced but organisms not replaced"
	}
	for r.counted < cnt {
		r.events = append(r.events, JEvent{K: "epoch", T: r.curT, G: r.curG})
		r.counted++
	}
	r.takeSnap()
}

func (r *recorder) takeSnap() {
	r.snap = make(map[*genetics.Organism]bool, len(r.cur.Organisms))
	for _, o := range r.cur.Organisms {
		r.snap[o] = true
	}
}

func (r *recorder) GenerationEvaluate(_ context.Context, pop *genetics.Population, epoch *experiment.Generation) error {
	r.probe()
	t, g := epoch.TrialId, epoch.Id
	if pop != r.cur {
		if _, seen := r.popTrial[pop]; !seen {
			r.popTrial[pop] = t
			r.baseAge[pop] = maxSpeciesAge(pop)
		}
		r.cur = pop
		r.counted = maxSpeciesAge(pop) - r.baseAge[pop]
	}
	r.curT, r.curG = t, g
	r.events = append(r.events, JEvent{K: "eval", T: t, G: g, Pt: r.popTrial[pop], Pe: r.counted})
	// fitness landscape: positive, varied, changes with the generation
	for i, o := range pop.Organisms {
		o.Fitness = 1.0 + float64((i*7+g*3+t)%11)/4.0
	}
	r.takeSnap()
	if has2(r.s.EvalCancels, t, g) {
		r.cancel()
	}
	switch r.s.evalAt(t, g) {
	case evFail:
		if (t+g)%2 == 0 {
			// an evaluator that reports a winner AND fails in the same call (winner found, saving it failed): the error
			// still ends the run
			epoch.FillPopulationStatistics(pop)
			epoch.Solved = true
			epoch.WinnerNodes = len(epoch.Champion.Genotype.Nodes)
			epoch.WinnerGenes = len(epoch.Champion.Genotype.Genes)
		}
		return &scriptedEvalError{t: t, g: g, wraps: []error{nil, context.Canceled, context.DeadlineExceeded}[(t+2*g)%3]}
	case evSolved:
		epoch.FillPopulationStatistics(pop)
		epoch.Solved = true
		epoch.WinnerNodes = len(epoch.Champion.Genotype.Nodes)
		epoch.WinnerGenes = len(epoch.Champion.Genotype.Genes)
		epoch.WinnerEvals = (g + 1) * len(pop.Organisms)
	default:
		epoch.FillPopulationStatistics(pop)
		if has2(r.s.EpochFails, t, g) {
			// makes the speciation step of the coming NextEpoch return an error
			r.opts.CompatThreshold = 0
		}
	}
	return nil
}

func (r *recorder) TrialRunStarted(trial *experiment.Trial) {
	r.probe()
	r.events = append(r.events, JEvent{K: "started", T: trial.Id})
	if has1(r.s.StartedCancels, trial.Id) {
		r.cancel()
	}
}
func (r *recorder) TrialRunFinished(trial *experiment.Trial) {
	r.probe()
	r.events = append(r.events, JEvent{K: "finished", T: trial.Id})
	if has1(r.s.FinishedCancels, trial.Id) {
		r.cancel()
	}
	if has1(r.s.SpawnFail, trial.Id+1) {
		r.opts.PopSize = 0 // NewPopulation of the next trial fails
	}
}
func (r *recorder) EpochEvaluated(trial *experiment.Trial, epoch *experiment.Generation) {
	r.probe()
	r.events = append(r.events, JEvent{K: "evaluated", T: trial.Id, G: epoch.Id})
	if has2(r.s.EvaluatedCancels, trial.Id, epoch.Id) {
		r.cancel()
	}
}

var execStartGenome *genetics.Genome

func execOptions(s *JScript) *neat.Options {
	o := &neat.Options{
		TraitParamMutProb: 0.5, TraitMutationPower: 1.0, WeightMutPower: 2.5,
		DisjointCoeff: 1, ExcessCoeff: 1, MutdiffCoeff: 0.4,
		CompatThreshold: 1e6, // one species: it survives every turnover, its Age counts them
		AgeSignificance: 1.0, SurvivalThresh: 0.4,
		MutateOnlyProb: 0.25, MutateRandomTraitProb: 0.1, MutateLinkTraitProb: 0.1, MutateNodeTraitProb: 0.1,
		MutateLinkWeightsProb: 0.9, MutateToggleEnableProb: 0, MutateGeneReenableProb: 0,
		MutateAddNodeProb: 0.03, MutateAddLinkProb: 0.08, MutateConnectSensors: 0.5,
		InterspeciesMateRate: 0.001, MateMultipointProb: 0.6, MateMultipointAvgProb: 0.4, MateSinglepointProb: 0,
		MateOnlyProb: 0.2, RecurOnlyProb: 0,
		PopSize: s.PopSize, DropOffAge: 1000, NewLinkTries: 20, BabiesStolen: 0,
		NumRuns: s.Runs, NumGenerations: s.MaxGen,
		EpochExecutorType: neat.EpochExecutorType(s.Executor),
		GenCompatMethod:   neat.GenomeCompatibilityMethodFast,
	}
	o.NodeActivators = exactActivators[:1]
	o.NodeActivatorsProb = []float64{1.0}
	return o
}

func runExecScript(s *JScript, seed int64) *JExecOut {
	if execStartGenome == nil {
		execStartGenome = loadStartGenome("xorstartgenes")
	}
	out := &JExecOut{Events: []JEvent{}, Trials: []JTrialRec{}}
	opts := execOptions(s)
	base, cancel := context.WithCancel(context.Background())
	defer cancel()
	ctx := base
	if s.HasOptions {
		ctx = neat.NewContext(base, opts)
	}
	rec := &recorder{s: s, opts: opts, cancel: cancel, events: []JEvent{},
		popTrial: map[*genetics.Population]int{}, baseAge: map[*genetics.Population]int{}}
	exp := &experiment.Experiment{Id: 0}
	if s.Prefill {
		// the caller may have pre-allocated MORE slots than the configured number of runs (the spare ones stay untouched)
		exp.Trials = make(experiment.Trials, s.Runs+[]int{0, 0, 1, 3}[(s.Runs+s.MaxGen)%4])
		for i := range exp.Trials {
			exp.Trials[i].Id = -1
		}
	}
	if s.PreCancelled {
		cancel()
	}
	if has1(s.SpawnFail, 0) {
		opts.PopSize = 0
	}
	var observer experiment.TrialRunObserver
	if s.Observer {
		observer = rec
	}
	var err error
	func() {
		defer func() {
			if p := recover(); p != nil {
				out.Panic = fmt.Sprint(p)
			}
		}()
		rand.Seed(seed)
		err = exp.Execute(ctx, cloneGenome(execStartGenome), rec, observer)
	}()
	rec.probe()
	out.Events = rec.events
	out.Note = rec.note
	for _, tr := range exp.Trials {
		jt := JTrialRec{Id: tr.Id, Gens: []JGenRec{}}
		for _, gn := range tr.Generations {
			jt.Gens = append(jt.Gens, JGenRec{Id: gn.Id, TrialId: gn.TrialId, Solved: gn.Solved})
		}
		if s.Prefill {
			jt.Stored = tr.Id != -1
		} else {
			// Execute allocated the slice itself: an entry it never stored is the zero Trial
			jt.Stored = len(tr.Generations) > 0 || tr.Id != 0
		}
		out.Trials = append(out.Trials, jt)
	}
	if err != nil {
		je := &JErr{Msg: err.Error()}
		var se *scriptedEvalError
		switch {
		case errors.As(err, &se):
			je.Cls, je.T, je.G = "eval", se.t, se.g
		case errors.Is(err, context.Canceled):
			je.Cls = "cancelled"
		case errors.Is(err, neat.ErrNEATOptionsNotFound):
			je.Cls = "nooptions"
		case strings.Contains(err.Error(), "unsupported epoch executor"):
			je.Cls = "executor"
		case strings.Contains(err.Error(), "wrong population size"):
			je.Cls = "spawn"
		case strings.Contains(err.Error(), "compatibility threshold is set to ZERO"):
			je.Cls = "epoch"
		default:
			je.Cls = "other"
			// an error of the evolutionary machinery itself that the script did not ask for: not a protocol case
			out.Skip = "unscripted error: " + err.Error()
		}
		out.Err = je
	}
	return out
}

/* ---------- exhaustive enumeration: runs <= 3, generations <= 5 ---------- */

var exhaustiveScripts []*JScript

func baseScript(r, m int, obs bool, family string) *JScript {
	return &JScript{HasOptions: true, Runs: r, MaxGen: m, Observer: obs, Executor: "sequential", ExecOk: true,
		SpawnFail: []int{}, Eval: [][]int{}, EvalCancels: [][2]int{}, EpochFails: [][2]int{}, StartedCancels: []int{},
		EvaluatedCancels: [][2]int{}, FinishedCancels: []int{}, PopSize: 4, Family: family}
}

// trialRow: generations of a trial that is solved in generation `at` (at == m: never solved)
func trialRow(m, at int) []int {
	row := make([]int, m)
	if at < m {
		row[at] = evSolved
	}
	return row
}

// patterns enumerates all solved-patterns of the first k trials
func patterns(k, m int, f func(rows [][]int)) {
	var rec func(i int, rows [][]int)
	rec = func(i int, rows [][]int) {
		if i == k {
			cp := make([][]int, len(rows))
			for j := range rows {
				cp[j] = append([]int{}, rows[j]...)
			}
			f(cp)
			return
		}
		for at := 0; at <= m; at++ {
			rec(i+1, append(rows, trialRow(m, at)))
		}
	}
	rec(0, nil)
}

func buildExhaustive() []*JScript {
	var all []*JScript
	add := func(s *JScript) {
		if len(all)%4 == 3 && s.ExecOk {
			s.Executor = "parallel"
		}
		s.Prefill = s.MaxGen == 0
		all = append(all, s)
	}
	for _, obs := range []bool{true, false} {
		for r := 0; r <= 3; r++ {
			for m := 0; m <= 5; m++ {
				// (a) every solved-pattern, no fault
				patterns(r, m, func(rows [][]int) {
					s := baseScript(r, m, obs, "complete")
					s.Eval = rows
					add(s)
				})
				// (b) run-level faults
				for _, fam := range []string{"nooptions", "badexecutor", "precancelled"} {
					s := baseScript(r, m, obs, fam)
					switch fam {
					case "nooptions":
						s.HasOptions = false
					case "badexecutor":
						s.Executor, s.ExecOk = "bogus", false
					case "precancelled":
						s.PreCancelled = true
					}
					add(s)
				}
				for t := 0; t < r; t++ {
					// (c) faults tied to trial t as a whole; every pattern of the trials before (and of t for `finished`)
					patterns(t, m, func(rows [][]int) {
						if t == 0 || obs { // spawn failure of a later trial is injected from TrialRunFinished
							s := baseScript(r, m, obs, "spawnfail")
							s.Eval = rows
							s.SpawnFail = []int{t}
							add(s)
						}
						if obs {
							s := baseScript(r, m, obs, "cancel@started")
							s.Eval = rows
							s.StartedCancels = []int{t}
							add(s)
						}
					})
					if obs {
						patterns(t+1, m, func(rows [][]int) {
							s := baseScript(r, m, obs, "cancel@finished")
							s.Eval = rows
							s.FinishedCancels = []int{t}
							add(s)
						})
					}
					// (d) faults at generation g of trial t (generations before g unsolved); every pattern of the trials before
					for g := 0; g < m; g++ {
						patterns(t, m, func(rows [][]int) {
							mk := func(fam string, at int) *JScript {
								s := baseScript(r, m, obs, fam)
								s.Eval = append(rows, trialRow(m, at))
								return s
							}
							s := mk("evalfail", m)
							s.Eval[t][g] = evFail
							add(s)
							s = mk("epochfail", m)
							s.EpochFails = [][2]int{{t, g}}
							add(s)
							s = mk("cancel@eval", m)
							s.EvalCancels = [][2]int{{t, g}}
							add(s)
							s = mk("cancel@eval-solved", g)
							s.EvalCancels = [][2]int{{t, g}}
							add(s)
							if obs {
								s = mk("cancel@evaluated", m)
								s.EvaluatedCancels = [][2]int{{t, g}}
								add(s)
								s = mk("cancel@evaluated-solved", g)
								s.EvaluatedCancels = [][2]int{{t, g}}
								add(s)
							}
						})
					}
				}
			}
		}
	}
	return all
}

func opExecExhaustive(g *G) (interface{}, []uint64, int, interface{}) {
	if exhaustiveScripts == nil {
		exhaustiveScripts = buildExhaustive()
	}
	if g.caseNo >= len(exhaustiveScripts) {
		return nil, nil, 0, nil
	}
	s := exhaustiveScripts[g.caseNo]
	out := runExecScript(s, int64(g.caseNo)+1)
	return s, nil, 0, out
}

/* ---------- random larger scripts ---------- */

func opExecRandom(g *G) (interface{}, []uint64, int, interface{}) {
	maxR, maxM := 5, 12
	if g.thorough {
		maxR, maxM = 8, 30
	}
	r, m := g.intn(maxR+1), g.intn(maxM+1)
	obs := g.chance(0.6)
	s := baseScript(r, m, obs, "random")
	s.PopSize = 3 + g.intn(5)
	if g.chance(0.25) {
		s.Executor = "parallel"
	}
	s.Prefill = m == 0 || g.chance(0.2)
	pSolved := []float64{0, 0.02, 0.1, 0.3}[g.intn(4)]
	pFail := []float64{0, 0, 0.01, 0.05}[g.intn(4)]
	for t := 0; t < r; t++ {
		row := make([]int, m)
		for i := range row {
			x := g.f64()
			if x < pSolved {
				row[i] = evSolved
			} else if x < pSolved+pFail {
				row[i] = evFail
			}
		}
		s.Eval = append(s.Eval, row)
	}
	pos := func() (int, int) { return g.intn(maxInt(r, 1)), g.intn(maxInt(m, 1)) }
	// several fault sources at once, some unreachable
	for k := g.intn(3); k > 0; k-- {
		t, gg := pos()
		switch g.intn(6) {
		case 0:
			s.EvalCancels = append(s.EvalCancels, [2]int{t, gg})
		case 1:
			if s.evalAt(t, gg) == evUnsolved {
				s.EpochFails = append(s.EpochFails, [2]int{t, gg})
			}
		case 2:
			s.StartedCancels = append(s.StartedCancels, t)
		case 3:
			s.EvaluatedCancels = append(s.EvaluatedCancels, [2]int{t, gg})
		case 4:
			s.FinishedCancels = append(s.FinishedCancels, t)
		case 5:
			if t == 0 || obs {
				s.SpawnFail = append(s.SpawnFail, t)
			}
		}
	}
	switch g.intn(25) {
	case 0:
		s.HasOptions = false
		s.Family = "random/nooptions"
	case 1:
		s.Executor, s.ExecOk = "bogus", false
		s.Family = "random/badexecutor"
	case 2:
		s.PreCancelled = true
		s.Family = "random/precancelled"
	}
	out := runExecScript(s, g.seed63())
	return s, nil, 0, out
}

func maxInt(a, b int) int {
	if a > b {
		return a
	}
	return b
}
