package main

import (
	"math"
	"fmt"
	"math/rand"
	"strings"

	"github.com/yaricom/goNEAT/v4/neat"
	"github.com/yaricom/goNEAT/v4/neat/genetics"
	"github.com/yaricom/goNEAT/v4/neat/network"
)

func init() {
	for _, name := range []string{"mutAddNode", "mutAddLink", "mutConnectSensors", "mutLinkWeights", "mutRandomTrait",
		"mutLinkTrait", "mutNodeTrait", "mutToggleEnable", "mutGeneReEnable", "mutAllNonstructural"} {
		n := name
		register(n, func(g *G) (interface{}, []uint64, int, interface{}) { return opMutate(g, n) })
	}
	register("mateMultipoint", func(g *G) (interface{}, []uint64, int, interface{}) { return opMate(g, "multipoint") })
	register("mateMultipointAvg", func(g *G) (interface{}, []uint64, int, interface{}) { return opMate(g, "multipointAvg") })
	register("mateSinglePoint", func(g *G) (interface{}, []uint64, int, interface{}) { return opMate(g, "singlePoint") })
}

type JInnov struct {
	Typ      int    `json:"typ"`
	InId     int    `json:"inId"`
	OutId    int    `json:"outId"`
	Inn      int64  `json:"inn"`
	Inn2     int64  `json:"inn2"`
	W        uint64 `json:"w"`
	TraitNum int    `json:"traitNum"`
	NewNode  int    `json:"newNode"`
	OldInn   int64  `json:"oldInn"`
	Rec      bool   `json:"rec"`
}

type JReg struct {
	Records  []JInnov `json:"records"`
	NextInn  int64    `json:"nextInn"`
	NextNode int      `json:"nextNode"`
}

func dumpReg(p *genetics.Population) JReg {
	r := JReg{Records: []JInnov{}, NextInn: genetics.VerifPopNextInnovNum(p), NextNode: int(genetics.VerifPopNextNodeId(p))}
	for _, in := range genetics.VerifPopInnovationsRaw(p) {
		v := genetics.VerifInnovationFields(in)
		r.Records = append(r.Records, JInnov{Typ: v.Type, InId: v.InNodeId, OutId: v.OutNodeId, Inn: v.InnovationNum,
			Inn2: v.InnovationNum2, W: bits(v.NewWeight), TraitNum: v.NewTraitNum, NewNode: v.NewNodeId, OldInn: v.OldInnovNum,
			Rec: v.IsRecurrent})
	}
	return r
}

// clonePopReg makes a private registry with the same records and counters
func clonePopReg(p *genetics.Population) *genetics.Population {
	q := genetics.VerifNewEmptyPopulation()
	recs := append([]genetics.Innovation{}, genetics.VerifPopInnovationsRaw(p)...)
	genetics.VerifPopSetInnovations(q, recs)
	genetics.VerifPopSetCounters(q, genetics.VerifPopNextInnovNum(p), genetics.VerifPopNextNodeId(p))
	return q
}

type JMutOpts struct {
	RecurOnlyProb          uint64   `json:"recurOnlyProb"`
	NewLinkTries           int      `json:"newLinkTries"`
	Activators             []int    `json:"activators"`
	ActivatorProbs         []uint64 `json:"activatorProbs"`
	TraitMutationPower     uint64   `json:"traitMutationPower"`
	TraitParamMutProb      uint64   `json:"traitParamMutProb"`
	WeightMutPower         uint64   `json:"weightMutPower"`
	MutateRandomTraitProb  uint64   `json:"mutateRandomTraitProb"`
	MutateLinkTraitProb    uint64   `json:"mutateLinkTraitProb"`
	MutateNodeTraitProb    uint64   `json:"mutateNodeTraitProb"`
	MutateLinkWeightsProb  uint64   `json:"mutateLinkWeightsProb"`
	MutateToggleEnableProb uint64   `json:"mutateToggleEnableProb"`
	MutateGeneReenableProb uint64   `json:"mutateGeneReenableProb"`
}

func dumpMutOpts(o *neat.Options) JMutOpts {
	acts := make([]int, len(o.NodeActivators))
	for i, a := range o.NodeActivators {
		acts[i] = int(a)
	}
	return JMutOpts{RecurOnlyProb: bits(o.RecurOnlyProb), NewLinkTries: o.NewLinkTries, Activators: acts,
		ActivatorProbs: bitsOf(o.NodeActivatorsProb), TraitMutationPower: bits(o.TraitMutationPower),
		TraitParamMutProb: bits(o.TraitParamMutProb), WeightMutPower: bits(o.WeightMutPower),
		MutateRandomTraitProb: bits(o.MutateRandomTraitProb), MutateLinkTraitProb: bits(o.MutateLinkTraitProb),
		MutateNodeTraitProb: bits(o.MutateNodeTraitProb), MutateLinkWeightsProb: bits(o.MutateLinkWeightsProb),
		MutateToggleEnableProb: bits(o.MutateToggleEnableProb), MutateGeneReenableProb: bits(o.MutateGeneReenableProb)}
}

// errClass maps Go errors / panics to the model's small error enum
func errClass(err error, panicked interface{}) *string {
	var s string
	switch {
	case panicked != nil:
		ps := fmt.Sprint(panicked)
		switch {
		case strings.Contains(ps, "index out of range"):
			s = "panic:index"
		case strings.Contains(ps, "invalid argument to Int"):
			s = "panic:intn-nonpositive"
		case strings.Contains(ps, "nil pointer"):
			s = "panic:nil"
		default:
			s = "panic:" + ps
		}
	case err == nil:
		return nil
	default:
		es := err.Error()
		switch {
		case strings.Contains(es, "genesis failed") && strings.Contains(es, "without GENES"):
			s = "genesis:noGenes"
		case strings.Contains(es, "genesis failed") && strings.Contains(es, "without OUTPUTS"):
			s = "genesis:noOutputs"
		case strings.Contains(es, "genome has no genes"), strings.Contains(es, "no genes to"):
			s = "noGenes"
		case strings.Contains(es, "genome has no traits"):
			s = "noTraits"
		case strings.Contains(es, "either no traits od genes"):
			s = "noTraitsOrGenes"
		case strings.Contains(es, "either no traits or nodes"):
			s = "noTraitsOrNodes"
		case strings.Contains(es, "different traits count"):
			s = "traitCountMismatch"
		case strings.Contains(es, "traits parameters number mismatch"):
			s = "traitParamsCountMismatch"
		case strings.Contains(es, "wrong gene created"):
			s = "wrongGeneCreated"
		case strings.Contains(es, "no node activators registered"):
			s = "noActivators"
		case strings.Contains(es, "number of node activator probabilities"):
			s = "activatorProbsMismatch"
		case strings.Contains(es, "unexpected error when trying to find random node activator"):
			s = "rouletteFailed"
		default:
			s = es
		}
	}
	return &s
}

// runMutation calls the real mutator `name` on gn in place
func runMutation(name string, gn *genetics.Genome, pop *genetics.Population, opts *neat.Options, times int, power, rate float64, cold bool) (res bool, err error) {
	switch name {
	case "mutAddNode":
		return genetics.VerifMutateAddNode(gn, pop, pop, opts)
	case "mutAddLink":
		return genetics.VerifMutateAddLink(gn, pop, 1, opts)
	case "mutConnectSensors":
		return genetics.VerifMutateConnectSensors(gn, pop, opts)
	case "mutLinkWeights":
		return genetics.VerifMutateLinkWeights(gn, power, rate, cold)
	case "mutRandomTrait":
		return genetics.VerifMutateRandomTrait(gn, opts)
	case "mutLinkTrait":
		return genetics.VerifMutateLinkTrait(gn, times)
	case "mutNodeTrait":
		return genetics.VerifMutateNodeTrait(gn, times)
	case "mutToggleEnable":
		return genetics.VerifMutateToggleEnable(gn, times)
	case "mutGeneReEnable":
		return genetics.VerifMutateGeneReEnable(gn)
	case "mutAllNonstructural":
		return genetics.VerifMutateAllNonstructural(gn, opts)
	}
	panic("unknown mutation " + name)
}

func isStructural(name string) bool {
	return name == "mutAddNode" || name == "mutAddLink" || name == "mutConnectSensors"
}

// mutationSubject picks a well-formed genome for a mutation case, shaped for the op
// grownReg: when the subject was grown beyond the pool's registry, the registry it was grown with (counters above its numbers)
var grownReg *genetics.Population

func mutationSubject(g *G, name string) (*genetics.Genome, *Pool, string) {
	grownReg = nil
	p := g.poolOf(6)
	gn := cloneGenome(p.pick(g))
	family := "evolved:" + p.origin
	if name == "mutConnectSensors" && g.chance(0.6) {
		// genomes with disconnected sensors: the shipped one, or an evolved genome with the genes of one sensor removed
		if g.chance(0.4) {
			gn = loadStartGenome("xordisconnectedstartgenes")
			family = "file:xordisconnectedstartgenes"
		} else {
			var sensors []int
			for _, n := range gn.Nodes {
				if n.IsSensor() {
					sensors = append(sensors, n.Id)
				}
			}
			if len(sensors) > 0 {
				victim := sensors[g.intn(len(sensors))]
				kept := gn.Genes[:0]
				for _, x := range gn.Genes {
					if x.Link.InNode.Id != victim {
						kept = append(kept, x)
					}
				}
				if len(kept) > 0 {
					gn.Genes = kept
					family += "/sensor-cut"
				}
			}
		}
	}
	if (name == "mutAddNode" || name == "mutToggle" || name == "mutReenable") && g.chance(0.25) {
		// a LARGE genome (>= 15 genes: the second, retry-based gene selection of add-node) most of whose genes are disabled,
		// reached with the real operators: structural growth on a private registry, then many enable toggles
		reg := clonePopReg(p.pop)
		o := randOpts(g)
		rand.Seed(g.seed63())
		func() {
			defer func() { _ = recover() }()
			for tries := 0; len(gn.Genes) < 15+g.intn(6) && tries < 80; tries++ {
				gn.Phenotype = nil
				if g.chance(0.5) {
					_, _ = genetics.VerifMutateAddNode(gn, reg, reg, o)
				} else {
					_, _ = genetics.VerifMutateAddLink(gn, reg, 1, o)
				}
			}
			_, _ = genetics.VerifMutateToggleEnable(gn, 100+g.intn(400))
		}()
		gn.Phenotype = nil
		family += "/large-mostly-disabled"
		grownReg = reg
	}
	if (name == "mutAddLink" || name == "mutConnectSensors" || name == "mutAddNode") && g.chance(0.12) {
		// a sensor listed AFTER the neurons (legal hand-built / file layout; the shipped mutateAddLink test builds one):
		// "the targets are the nodes behind the leading sensors" is then not "the non-sensor nodes"
		gn = lateSensorGenome(g, g.intn(50))
		reg := genetics.VerifNewEmptyPopulation()
		maxInn, maxNode := int64(0), 0
		for _, x := range gn.Genes {
			if x.InnovationNum > maxInn {
				maxInn = x.InnovationNum
			}
		}
		for _, n := range gn.Nodes {
			if n.Id > maxNode {
				maxNode = n.Id
			}
		}
		genetics.VerifPopSetCounters(reg, maxInn+int64(g.intn(2)), int32(maxNode+1+g.intn(2)))
		grownReg = reg
		family = "hand/late-sensor"
	}
	if name == "mutAddNode" && g.chance(0.15) {
		// hand-built large genome in which almost every gene is ineligible for splitting (leaves the bias node, or is
		// disabled): the retry-based selection of add-node (>= 15 genes) runs out of tries or finds the rare eligible gene
		gn, grownReg = ineligibleHeavyGenome(g)
		family = "hand/large-ineligible"
	}
	return gn, p, family
}

// ineligibleHeavyGenome: 1 bias, 1-2 inputs, 1-2 outputs, 6-10 hidden; bias -> every neuron (enabled), the other genes disabled
// except for 0-2; returned with a registry whose counters lie above the genome's numbers
func ineligibleHeavyGenome(g *G) (*genetics.Genome, *genetics.Population) {
	tr := neat.NewTrait()
	tr.Id = 1
	traits := []*neat.Trait{tr}
	var nodes []*network.NNode
	id := 1
	bias := network.NewSensorNode(id, true)
	nodes = append(nodes, bias)
	id++
	var ins, neurons []*network.NNode
	for i := 0; i < 1+g.intn(2); i++ {
		n := network.NewSensorNode(id, false)
		nodes, ins = append(nodes, n), append(ins, n)
		id++
	}
	mk := func(kind network.NodeNeuronType) {
		n := network.NewNNode(id, kind)
		n.ActivationType = exactActivators[g.intn(len(exactActivators))]
		nodes, neurons = append(nodes, n), append(neurons, n)
		id++
	}
	for i := 0; i < 1+g.intn(2); i++ {
		mk(network.OutputNeuron)
	}
	for i := 0; i < 6+g.intn(5); i++ {
		mk(network.HiddenNeuron)
	}
	var genes []*genetics.Gene
	inn := int64(1)
	add := func(a, b *network.NNode, en bool) {
		w := (g.f64() - 0.5) * 4
		x := genetics.NewGeneWithTrait(tr, w, a, b, false, inn, w)
		x.IsEnabled = en
		genes = append(genes, x)
		inn++
	}
	for _, n := range neurons {
		add(bias, n, true)
	}
	eligible := g.intn(3)
	for _, in := range ins {
		for _, n := range neurons {
			if g.chance(0.6) {
				en := eligible > 0 && g.chance(0.15)
				if en {
					eligible--
				}
				add(in, n, en)
			}
		}
	}
	for len(genes) < 15 {
		add(neurons[g.intn(len(neurons))], neurons[0], false)
	}
	// duplicates of (src,dst) may have been produced by the filler loop: drop them
	seen := map[[2]int]bool{}
	kept := genes[:0]
	for _, x := range genes {
		k := [2]int{x.Link.InNode.Id, x.Link.OutNode.Id}
		if !seen[k] {
			seen[k] = true
			kept = append(kept, x)
		}
	}
	genes = kept
	gn := genetics.NewGenome(g.intn(100), traits, nodes, genes)
	reg := genetics.VerifNewEmptyPopulation()
	genetics.VerifPopSetCounters(reg, inn+int64(g.intn(3)), int32(id+g.intn(3)))
	return gn, reg
}

func opMutate(g *G, name string) (interface{}, []uint64, int, interface{}) {
	gn, pool, family := mutationSubject(g, name)
	if len(gn.ControlGenes) > 0 {
		return nil, nil, 0, nil
	}
	opts := randOpts(g)
	if g.chance(0.15) {
		opts.NewLinkTries = g.intn(3)
	}
	// the pool's registry plays the role of the population; work on a private copy
	pop := clonePopReg(pool.pop)
	if grownReg != nil {
		pop = grownReg
	}
	// a registry is shared by genomes of ONE population, which all have the same number of traits: drop records that name
	// a trait this genome does not have (false alarm of the thorough tier, round 6: g.Traits[inn.NewTraitNum] out of range
	// when a 3-trait start genome met the records of a 4-trait lineage)
	if n := len(gn.Traits); n > 0 {
		raw := genetics.VerifPopInnovationsRaw(pop)
		kept := make([]genetics.Innovation, 0, len(raw))
		for _, r := range raw {
			if genetics.VerifInnovationFields(r).NewTraitNum < n {
				kept = append(kept, r)
			}
		}
		if len(kept) != len(raw) {
			genetics.VerifPopSetInnovations(pop, kept)
		}
	}
	regMode := "pool"
	switch g.intn(4) {
	case 0:
		genetics.VerifPopSetInnovations(pop, nil)
		regMode = "empty"
	}
	times := 1 + g.intn(3)
	power, rate, cold := 0.1+g.f64()*3, 1.0, g.chance(0.3)
	if g.chance(0.3) {
		rate = g.f64()
	}
	seed := g.seed63()
	if isStructural(name) && g.chance(0.35) {
		// make the registry *match*: the identical mutation (same seed) first happens in a twin genome ...
		twin := cloneGenome(gn)
		rand.Seed(seed)
		func() {
			defer func() { _ = recover() }()
			_, _ = runMutation(name, twin, pop, opts, times, power, rate, cold)
		}()
		regMode = "matching"
		if g.chance(0.3) {
			// ... or in this very genome lineage: the parent already carries the innovation
			gn = twin
			gn.Phenotype = nil
			regMode = "matching-in-genome"
			if name == "mutAddNode" && g.chance(0.6) {
				// SEQUENCE on one Genome object within a generation: split a gene, re-enable it, split again while the
				// innovation record is still listed (the guard 'this genome already has that node' must hold)
				for _, x := range gn.Genes {
					x.IsEnabled = true
				}
				regMode = "matching-in-genome-reenabled"
			}
			if name == "mutAddLink" && g.chance(0.6) {
				// SEQUENCE on one Genome object within a generation: add a link, then toggle other genes off so that the
				// SAME node pair now counts as a link of the other kind (recurrent <-> forward), then add a link again
				// while the first link's record is still listed: the record must not be reused for the other kind.
				// Directed form: the link just added is recurrent a->b, every other gene leaving b is switched off (no
				// forward path b ~> a remains), and only forward links are asked for
				var added *genetics.Gene
				for _, x := range gn.Genes {
					if added == nil || x.InnovationNum > added.InnovationNum {
						added = x
					}
				}
				if added != nil && added.Link.IsRecurrent && added.Link.InNode.Id != added.Link.OutNode.Id && g.chance(0.7) {
					for _, x := range gn.Genes {
						if x != added && x.Link.InNode.Id == added.Link.OutNode.Id {
							x.IsEnabled = false
						}
					}
					opts.RecurOnlyProb = 0
					if g.chance(0.5) {
						seed = g.seed63()
					}
				} else {
					n := 0
					for _, x := range gn.Genes {
						if x.IsEnabled && n < 2 && g.chance(0.35) {
							x.IsEnabled = false
							n++
						}
					}
					opts.RecurOnlyProb = []float64{0, 0.5, 1}[g.intn(3)]
				}
				regMode = "matching-in-genome-toggled"
			}
		}
	}
	if name == "mutAddLink" || name == "mutAddNode" {
		gn.Phenotype = nil
	}
	before := dumpGenome(gn)
	regBefore := dumpReg(pop)
	var res bool
	var err error
	var pan interface{}
	stream, consumed := withSeed(seed, func() {
		defer func() { pan = recover() }()
		res, err = runMutation(name, gn, pop, opts, times, power, rate, cold)
	})
	out := map[string]interface{}{"res": res, "err": errClass(err, pan), "g": dumpGenome(gn), "reg": dumpReg(pop)}
	if err == nil && pan == nil {
		out["genesis"] = genesisClass(gn)
	}
	in := map[string]interface{}{"g": before, "reg": regBefore, "opts": dumpMutOpts(opts), "times": times,
		"power": bits(power), "rate": bits(rate), "cold": cold, "family": family, "regMode": regMode}
	return in, stream, consumed, out
}

func opMate(g *G, method string) (interface{}, []uint64, int, interface{}) {
	var a, b *genetics.Genome
	family := "evolved"
	p := g.poolOf(6)
	a, b = cloneGenome(p.pick(g)), cloneGenome(p.pick(g))
	switch c := g.intn(20); {
	case c < 2: // self mating
		b = a
		family = "self"
	case c < 4: // a parent and its duplicate with other weights
		b = cloneGenome(a)
		rand.Seed(g.seed63())
		_, _ = genetics.VerifMutateLinkWeights(b, 1, 1, false)
		family = "sibling"
	case c < 5: // mismatched trait counts (error path)
		b = handGenome(g, 1)
		family = "foreign"
	case c < 7: // a sensor whose id lies above the hidden ids (legal hand-built layout), sometimes touched by no gene
		a = lateSensorGenome(g, 1)
		b = cloneGenome(a)
		rand.Seed(g.seed63())
		_, _ = genetics.VerifMutateLinkWeights(b, 1, 1, false)
		if g.chance(0.6) {
			reg := genetics.VerifNewEmptyPopulation()
			maxInn, maxNode := int64(0), 0
			for _, x := range a.Genes {
				if x.InnovationNum > maxInn {
					maxInn = x.InnovationNum
				}
			}
			for _, n := range a.Nodes {
				if n.Id > maxNode {
					maxNode = n.Id
				}
			}
			genetics.VerifPopSetCounters(reg, maxInn+1, int32(maxNode+1))
			o := randOpts(g)
			func() {
				defer func() { _ = recover() }()
				for k := 1 + g.intn(3); k > 0; k-- {
					t := b
					if g.chance(0.5) {
						t = a
					}
					t.Phenotype = nil
					if g.chance(0.5) {
						_, _ = genetics.VerifMutateAddNode(t, reg, reg, o)
					} else {
						_, _ = genetics.VerifMutateAddLink(t, reg, 1, o)
					}
				}
			}()
			a.Phenotype, b.Phenotype = nil, nil
		}
		family = "late-io"
	}
	if len(a.ControlGenes) > 0 || len(b.ControlGenes) > 0 {
		return nil, nil, 0, nil
	}
	if g.chance(0.2) {
		// trait parameters of any sign and size (hand-built / file-loaded genomes; mutation keeps them >= 0, the average of
		// two parameters is defined for all values)
		for _, gn := range []*genetics.Genome{a, b} {
			for _, tr := range gn.Traits {
				for i := range tr.Params {
					if g.chance(0.5) {
						tr.Params[i] = (g.f64() - 0.7) * 10
					}
				}
			}
		}
		family += "/signed-traits"
	}
	// fitness orderings including ties
	f1, f2 := float64(g.intn(4)), float64(g.intn(4))
	if g.chance(0.3) {
		f1, f2 = g.f64()*10, g.f64()*10
	}
	if g.chance(0.15) {
		// near ties: strictly ordered fitness values that differ by one ulp up to 1e-7 (a tolerance-based comparison is not a tie rule)
		f1 = 0.5 + g.f64()*10
		switch g.intn(4) {
		case 0:
			f2 = math.Nextafter(f1, math.Inf(1))
		case 1:
			f2 = math.Nextafter(f1, math.Inf(-1))
		case 2:
			f2 = f1 + 1e-9*(1+g.f64()*99)
		default:
			f2 = f1 - 1e-9*(1+g.f64()*99)
		}
	}
	beforeA, beforeB := dumpGenome(a), dumpGenome(b)
	childId := g.intn(1000)
	var child *genetics.Genome
	var err error
	var pan interface{}
	stream, consumed := withSeed(g.seed63(), func() {
		defer func() { pan = recover() }()
		switch method {
		case "multipoint":
			child, err = genetics.VerifMateMultipoint(a, b, childId, f1, f2)
		case "multipointAvg":
			child, err = genetics.VerifMateMultipointAvg(a, b, childId, f1, f2)
		default:
			child, err = genetics.VerifMateSinglePoint(a, b, childId)
		}
	})
	out := map[string]interface{}{"err": errClass(err, pan), "p1After": dumpGenome(a), "p2After": dumpGenome(b)}
	if err == nil && pan == nil && child != nil {
		out["child"] = dumpGenome(child)
		out["genesis"] = genesisClass(child)
		out["sharedP1"] = sharesState(a, child)
		out["sharedP2"] = sharesState(b, child)
	}
	in := map[string]interface{}{"p1": beforeA, "p2": beforeB, "f1": bits(f1), "f2": bits(f2), "childId": childId,
		"method": method, "family": family}
	return in, stream, consumed, out
}
