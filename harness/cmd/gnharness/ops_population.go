package main

import (
	"github.com/yaricom/goNEAT/v4/experiment"
	"fmt"
	"context"
	"math"
	"math/rand"

	"github.com/yaricom/goNEAT/v4/neat"
	"github.com/yaricom/goNEAT/v4/neat/genetics"
)

func init() {
	register("epoch", opEpoch)
	register("spawn", opSpawn)
	register("speciate", opSpeciate)
}

type JOrg struct {
	Fitness             uint64   `json:"fitness"`
	Genome              *JGenome `json:"genome"`
	ExpectedOffspring   uint64   `json:"expectedOffspring"`
	Generation          int      `json:"generation"`
	OriginalFitness     uint64   `json:"originalFitness"`
	ToEliminate         bool     `json:"toEliminate"`
	IsChampion          bool     `json:"isChampion"`
	SuperChampOffspring int      `json:"superChampOffspring"`
	IsPopChampion       bool     `json:"isPopChampion"`
	IsPopChampionChild  bool     `json:"isPopChampionChild"`
	HighestFitness      uint64   `json:"highestFitness"`
	MutStructBaby       bool     `json:"mutStructBaby"`
	MateBaby            bool     `json:"mateBaby"`
	// SpeciesOk: the organism's back pointer is the species that lists it
	SpeciesOk bool `json:"speciesOk"`
}

type JSpecies struct {
	Id                   int    `json:"id"`
	Age                  int    `json:"age"`
	MaxFitnessEver       uint64 `json:"maxFitnessEver"`
	ExpectedOffspring    int    `json:"expectedOffspring"`
	IsNovel              bool   `json:"isNovel"`
	AgeOfLastImprovement int    `json:"ageOfLastImprovement"`
	Orgs                 []JOrg `json:"orgs"`
}

type JPop struct {
	Species                  []JSpecies `json:"species"`
	Organisms                [][2]int   `json:"organisms"` // (species index, organism index) per entry of Population.Organisms
	LastSpecies              int        `json:"lastSpecies"`
	HighestFitness           uint64     `json:"highestFitness"`
	EpochsHighestLastChanged int        `json:"epochsHighestLastChanged"`
	Reg                      JReg       `json:"reg"`
	// Orphans: entries of Population.Organisms that no species lists
	Orphans int `json:"orphans"`
}

func dumpOrg(o *genetics.Organism, sp *genetics.Species) JOrg {
	st := genetics.VerifOrganismState_(o)
	return JOrg{Fitness: bits(o.Fitness), Genome: dumpGenome(o.Genotype), ExpectedOffspring: bits(o.ExpectedOffspring),
		Generation: o.Generation, OriginalFitness: bits(st.OriginalFitness), ToEliminate: st.ToEliminate, IsChampion: st.IsChampion,
		SuperChampOffspring: st.SuperChampOffspring, IsPopChampion: st.IsPopulationChampion,
		IsPopChampionChild: st.IsPopulationChampionChild, HighestFitness: bits(st.HighestFitness),
		MutStructBaby: st.MutationStructBaby, MateBaby: st.MateBaby, SpeciesOk: o.Species == sp}
}

func dumpPop(p *genetics.Population) *JPop {
	j := &JPop{Species: []JSpecies{}, Organisms: [][2]int{}, LastSpecies: p.LastSpecies, HighestFitness: bits(p.HighestFitness),
		EpochsHighestLastChanged: p.EpochsHighestLastChanged, Reg: dumpReg(p)}
	pos := map[*genetics.Organism][2]int{}
	for si, sp := range p.Species {
		js := JSpecies{Id: sp.Id, Age: sp.Age, MaxFitnessEver: bits(sp.MaxFitnessEver), ExpectedOffspring: sp.ExpectedOffspring,
			IsNovel: sp.IsNovel, AgeOfLastImprovement: sp.AgeOfLastImprovement, Orgs: []JOrg{}}
		for oi, o := range sp.Organisms {
			js.Orgs = append(js.Orgs, dumpOrg(o, sp))
			pos[o] = [2]int{si, oi}
		}
		j.Species = append(j.Species, js)
	}
	for _, o := range p.Organisms {
		if q, ok := pos[o]; ok {
			j.Organisms = append(j.Organisms, q)
		} else {
			j.Orphans++
		}
	}
	return j
}

type JEpochOpts struct {
	PopSize               int         `json:"popSize"`
	DropOffAge            int         `json:"dropOffAge"`
	AgeSignificance       uint64      `json:"ageSignificance"`
	SurvivalThresh        uint64      `json:"survivalThresh"`
	BabiesStolen          int         `json:"babiesStolen"`
	CompatThreshold       uint64      `json:"compatThreshold"`
	Compat                JCompatOpts `json:"compat"`
	MutateOnlyProb        uint64      `json:"mutateOnlyProb"`
	MutateAddNodeProb     uint64      `json:"mutateAddNodeProb"`
	MutateAddLinkProb     uint64      `json:"mutateAddLinkProb"`
	MutateConnectSensors  uint64      `json:"mutateConnectSensors"`
	InterspeciesMateRate  uint64      `json:"interspeciesMateRate"`
	MateMultipointProb    uint64      `json:"mateMultipointProb"`
	MateMultipointAvgProb uint64      `json:"mateMultipointAvgProb"`
	MateSinglepointProb   uint64      `json:"mateSinglepointProb"`
	MateOnlyProb          uint64      `json:"mateOnlyProb"`
	Mut                   JMutOpts    `json:"mut"`
}

func dumpEpochOpts(o *neat.Options) JEpochOpts {
	return JEpochOpts{PopSize: o.PopSize, DropOffAge: o.DropOffAge, AgeSignificance: bits(o.AgeSignificance),
		SurvivalThresh: bits(o.SurvivalThresh), BabiesStolen: o.BabiesStolen, CompatThreshold: bits(o.CompatThreshold),
		Compat: dumpCompatOpts(o), MutateOnlyProb: bits(o.MutateOnlyProb), MutateAddNodeProb: bits(o.MutateAddNodeProb),
		MutateAddLinkProb: bits(o.MutateAddLinkProb), MutateConnectSensors: bits(o.MutateConnectSensors),
		InterspeciesMateRate: bits(o.InterspeciesMateRate), MateMultipointProb: bits(o.MateMultipointProb),
		MateMultipointAvgProb: bits(o.MateMultipointAvgProb), MateSinglepointProb: bits(o.MateSinglepointProb),
		MateOnlyProb: bits(o.MateOnlyProb), Mut: dumpMutOpts(o)}
}

// scenario: a population evolving over consecutive cases of one op
type scenario struct {
	pop        *genetics.Population
	opts       *neat.Options
	generation int
	landscape  string
	origin     string
	epochs     int
}

var scenarios = map[string]*scenario{}

var sharedSeqExecutor *genetics.SequentialPopulationEpochExecutor

func popOpts(g *G) *neat.Options {
	o := randOpts(g)
	switch g.intn(4) {
	case 0:
		o.PopSize = 3 + g.intn(6)
	case 1:
		o.PopSize = 8 + g.intn(12)
	default:
		o.PopSize = 10 + g.intn(30)
	}
	if g.thorough && g.chance(0.2) {
		o.PopSize = 40 + g.intn(80)
	}
	if !g.thorough && g.chance(0.08) {
		o.PopSize = 40 + g.intn(40) // species / species lists well beyond the insertion-sort bound of sort.Sort (12)
	}
	o.DropOffAge = 1 + g.intn(20)
	if g.chance(0.4) {
		o.DropOffAge = 1 + g.intn(4) // stagnation penalties and delta coding within a short run
	}
	if g.chance(0.4) {
		o.BabiesStolen = g.intn(o.PopSize/2 + 1)
	}
	switch g.intn(4) {
	case 0:
		o.CompatThreshold = 0.05 + g.f64()*0.3 // nearly every organism its own species
	case 1:
		o.CompatThreshold = 50 // one species
	default:
		o.CompatThreshold = 0.5 + g.f64()*4
	}
	return o
}

var landscapes = []string{"distinct", "heavyTail", "dominant", "constant", "zero", "quantised", "nearTies", "plateaus", "mixedSign", "tinyScale"}

func assignFitness(g *G, pop *genetics.Population, landscape string) {
	for i, o := range pop.Organisms {
		switch landscape {
		case "distinct":
			o.Fitness = 0.01 + g.f64()*10
		case "heavyTail":
			o.Fitness = math.Exp(g.gr.NormFloat64() * 2)
		case "dominant":
			if i == 0 {
				o.Fitness = 1000
			} else {
				o.Fitness = g.f64() * 0.01
			}
		case "nearTies":
			// pairwise distinct values that differ by a few ulps up to 1e-12 (a tolerance-based comparator is not the order)
			o.Fitness = 2.5 + float64(i)*4.440892098500626e-16*float64(1+g.intn(2000))
		case "plateaus":
			// many EXACTLY equal values mixed with a few others: sort-key ties inside slices of more than 12 elements,
			// where the order of equal elements is decided by pdqsort's pivoting (model: goSort)
			switch c := g.intn(10); {
			case c < 6:
				o.Fitness = 2
			case c < 8:
				o.Fitness = float64(1 + g.intn(3))
			default:
				o.Fitness = 0.5 + g.f64()*3
			}
		case "mixedSign":
			// negative raw values beside positive ones (legal: the code clamps the ADJUSTED value); organism 0 is positive
			if i == 0 || g.chance(0.6) {
				o.Fitness = 0.01 + g.f64()*5
			} else {
				o.Fitness = -g.f64() * 5
			}
		case "tinyScale":
			// a legal but small fitness scale: the quotas depend on ratios only
			o.Fitness = (0.01 + g.f64()*10) * []float64{1e-7, 1e-9, 1e-12, 1e-30}[g.caseNo%4]
		case "constant":
			o.Fitness = 3.5
		case "zero":
			o.Fitness = 0
		default:
			o.Fitness = float64(g.intn(4))
		}
	}
}

func newScenario(g *G) *scenario {
	opts := popOpts(g)
	var start *genetics.Genome
	origin := ""
	if g.chance(0.7) {
		origin = startGenomeFiles[g.intn(len(startGenomeFiles))]
		start = loadStartGenome(origin)
	} else {
		origin = "hand"
		start = handGenome(g, 0)
		if len(start.Traits) >= 2 && g.chance(0.6) {
			// traits listed in another order than ascending ids (e.g. 1,3,2 - the order of the library's own test genome);
			// the crossovers index traits by id offset, so such a lineage is evolved by mutation only
			k := g.intn(len(start.Traits) - 1)
			if len(start.Traits) >= 3 && g.chance(0.7) {
				k = len(start.Traits) - 2 // smallest id stays first: 1,3,2
			}
			start.Traits[k], start.Traits[len(start.Traits)-1] = start.Traits[len(start.Traits)-1], start.Traits[k]
			opts.MutateOnlyProb = 1.0
			origin += "+traitperm"
		}
	}
	rand.Seed(g.seed63())
	pop, err := genetics.NewPopulation(start, opts)
	if err != nil {
		return nil
	}
	// populations whose organisms were not normalised by spawn (read from a file / built by hand): some or all
	// connection genes carry no trait (gene trait id 0 in a population file)
	if g.chance(0.2) {
		origin += "+traitless"
		all := g.chance(0.5)
		for _, o := range pop.Organisms {
			if !all && g.chance(0.5) {
				continue
			}
			for _, gn := range o.Genotype.Genes {
				if all || g.chance(0.6) {
					gn.Link.Trait = nil
				}
			}
		}
	}
	return &scenario{pop: pop, opts: opts, generation: 1, landscape: landscapes[g.intn(len(landscapes))], origin: origin}
}

// freshness of a new generation: no organism, genome, gene, node or trait object of the old generation survives
func generationFresh(old []*genetics.Organism, pop *genetics.Population) string {
	oldOrgs := map[*genetics.Organism]bool{}
	for _, o := range old {
		oldOrgs[o] = true
	}
	for _, o := range pop.Organisms {
		if oldOrgs[o] {
			return "organism of the previous generation survived"
		}
		for _, q := range old {
			if o.Genotype == q.Genotype {
				return "genome object shared with the previous generation"
			}
		}
	}
	for _, sp := range pop.Species {
		for _, o := range sp.Organisms {
			if oldOrgs[o] {
				return "species still lists an organism of the previous generation"
			}
		}
	}
	return ""
}

func opEpoch(g *G) (interface{}, []uint64, int, interface{}) {
	sc := scenarios[g.opName]
	if sc == nil || sc.epochs >= 12+g.intn(30) {
		sc = newScenario(g)
		if sc == nil {
			return nil, nil, 0, nil
		}
		scenarios[g.opName] = sc
	}
	if g.chance(0.15) {
		sc.landscape = landscapes[g.intn(len(landscapes))]
	}
	assignFitness(g, sc.pop, sc.landscape)
	if g.chance(0.4) {
		// what every shipped evaluator does with the population it is handed: Generation.FillPopulationStatistics sorts
		// each species' organism list in place, so the turnover starts from species lists in another order than
		// Population.Organisms
		(&experiment.Generation{}).FillPopulationStatistics(sc.pop)
	}
	before := dumpPop(sc.pop)
	old := append([]*genetics.Organism{}, sc.pop.Organisms...)
	// an executor object is REUSED across turnovers, populations and option sets most of the time (it must not keep
	// anything from an earlier call)
	if sharedSeqExecutor == nil || g.chance(0.3) {
		sharedSeqExecutor = &genetics.SequentialPopulationEpochExecutor{}
	}
	ex := sharedSeqExecutor
	ctx := neat.NewContext(context.Background(), sc.opts)
	var afterPrepare *JPop
	var sortedIds []int
	bestId := 0
	var err error
	var pan interface{}
	phase := ""
	// twin: half of the turnovers are repeated on a deep copy of the population through the PUBLIC entry point
	// SequentialPopulationEpochExecutor.NextEpoch with the same seed (the phase hooks below call the three unexported
	// methods NextEpoch is made of; whatever NextEpoch does beyond calling them in this order shows up as a difference)
	var twinPop *genetics.Population
	if g.chance(0.5) {
		twinPop = clonePopDeep(sc.pop)
	}
	epochSeed := g.seed63()
	stream, consumed := withSeed(epochSeed, func() {
		defer func() { pan = recover() }()
		phase = "prepare"
		if err = genetics.VerifEpochPrepare(ex, ctx, sc.generation, sc.pop); err != nil {
			return
		}
		afterPrepare = dumpPop(sc.pop)
		for _, s := range genetics.VerifEpochSortedSpecies(ex) {
			sortedIds = append(sortedIds, s.Id)
		}
		bestId = genetics.VerifEpochBestSpeciesId(ex)
		phase = "reproduce"
		if err = genetics.VerifEpochReproduce(ex, ctx, sc.generation, sc.pop); err != nil {
			return
		}
		phase = "finalize"
		err = genetics.VerifEpochFinalize(ex, ctx, sc.pop)
	})
	out := map[string]interface{}{"err": errClass(err, pan), "phase": phase, "afterPrepare": afterPrepare, "sortedIds": sortedIds, "bestSpeciesId": bestId}
	out["twin"] = "skipped"
	if twinPop != nil {
		var err2 error
		var pan2 interface{}
		_, consumed2 := withSeed(epochSeed, func() {
			defer func() { pan2 = recover() }()
			err2 = (&genetics.SequentialPopulationEpochExecutor{}).NextEpoch(ctx, sc.generation, twinPop)
		})
		ec := func(e error, p interface{}) string {
			if c := errClass(e, p); c != nil {
				return *c
			}
			return "ok"
		}
		switch {
		case ec(err, pan) != ec(err2, pan2):
			out["twin"] = "differs: NextEpoch ends with " + ec(err2, pan2) + ", the three phases with " + ec(err, pan)
		case err == nil && pan == nil && consumed2 != consumed:
			out["twin"] = fmt.Sprintf("differs: NextEpoch consumed %d random values, the three phases %d", consumed2, consumed)
		case err == nil && pan == nil && popDigest(sc.pop) != popDigest(twinPop):
			out["twin"] = "differs: population after NextEpoch is not the population after the three phases"
		default:
			out["twin"] = "same"
		}
	}
	if err == nil && pan == nil {
		out["after"] = dumpPop(sc.pop)
		out["fresh"] = generationFresh(old, sc.pop)
		out["genesis"] = popGenesisClass(sc.pop)
		if ok, verr := safeVerify(sc.pop); !ok || verr != nil {
			out["verify"] = errStr(verr)
		}
	}
	in := map[string]interface{}{"pop": before, "opts": dumpEpochOpts(sc.opts), "generation": sc.generation,
		"landscape": sc.landscape, "origin": sc.origin, "epochNo": sc.epochs}
	sc.generation++
	sc.epochs++
	if err != nil || pan != nil {
		delete(scenarios, g.opName)
	}
	return in, stream, consumed, out
}

// clonePopDeep: an independent copy of a population as it stands between two turnovers (registry, counters, species
// bookkeeping, organisms with their unexported state, genomes); phenotypes are rebuilt by NewOrganism
func clonePopDeep(p *genetics.Population) *genetics.Population {
	q := clonePopReg(p)
	q.LastSpecies, q.WinnerGen, q.FinalGen = p.LastSpecies, p.WinnerGen, p.FinalGen
	q.HighestFitness, q.EpochsHighestLastChanged = p.HighestFitness, p.EpochsHighestLastChanged
	q.MeanFitness, q.Variance, q.StandardDev = p.MeanFitness, p.Variance, p.StandardDev
	om := map[*genetics.Organism]*genetics.Organism{}
	cl := func(o *genetics.Organism) *genetics.Organism {
		if c, ok := om[o]; ok {
			return c
		}
		gn := cloneGenome(o.Genotype)
		c, err := genetics.NewOrganism(o.Fitness, gn, o.Generation)
		if err != nil || c == nil {
			c = &genetics.Organism{Fitness: o.Fitness, Genotype: gn, Generation: o.Generation}
		}
		c.Error, c.IsWinner, c.ExpectedOffspring, c.Flag = o.Error, o.IsWinner, o.ExpectedOffspring, o.Flag
		genetics.VerifSetOrganismState(c, genetics.VerifOrganismState_(o))
		om[o] = c
		return c
	}
	for _, o := range p.Organisms {
		q.Organisms = append(q.Organisms, cl(o))
	}
	for _, s := range p.Species {
		t := genetics.NewSpeciesNovel(s.Id, s.IsNovel)
		t.Age, t.MaxFitnessEver, t.ExpectedOffspring = s.Age, s.MaxFitnessEver, s.ExpectedOffspring
		t.AgeOfLastImprovement, t.IsChecked = s.AgeOfLastImprovement, s.IsChecked
		for _, o := range s.Organisms {
			c := cl(o)
			c.Species = t
			t.Organisms = append(t.Organisms, c)
		}
		q.Species = append(q.Species, t)
	}
	return q
}

func opSpawn(g *G) (interface{}, []uint64, int, interface{}) {
	opts := popOpts(g)
	var start *genetics.Genome
	origin := ""
	switch c := g.intn(10); {
	case c < 5:
		origin = startGenomeFiles[g.intn(len(startGenomeFiles))]
		start = loadStartGenome(origin)
	case c < 8:
		origin = "hand"
		start = handGenome(g, 0)
	default:
		p := g.poolOf(6)
		start = cloneGenome(p.pick(g))
		origin = "evolved"
	}
	// out-of-order start genomes (C03, fix 48b1f99): the plain reader keeps file order and Genome.verify does not look at
	// gene order; the counters must still start above every number the genome holds
	if len(start.ControlGenes) == 0 && g.chance(0.2) {
		unsortGenome(g, start)
		origin += "/unsorted"
	}
	if len(start.ControlGenes) == 0 && g.chance(0.15) {
		// a modular start genome (1-2 modules, enabled or not, listed last): the counters start above the modules'
		// control-node ids and innovation numbers too
		start = cloneGenome(start)
		for k := 1 + g.intn(2); k > 0; k-- {
			addModule(g, start, g.chance(0.5), false)
		}
		origin += "/modular"
	}
	before := dumpGenome(start)
	var pop *genetics.Population
	var err error
	var pan interface{}
	stream, consumed := withSeed(g.seed63(), func() {
		defer func() { pan = recover() }()
		pop, err = genetics.NewPopulation(start, opts)
	})
	out := map[string]interface{}{"err": errClass(err, pan), "startAfter": dumpGenome(start)}
	if err == nil && pan == nil {
		out["pop"] = dumpPop(pop)
		shared := ""
		for _, o := range pop.Organisms {
			if s := sharesState(start, o.Genotype); s != "" {
				shared = s
			}
		}
		out["shared"] = shared
		out["genesis"] = popGenesisClass(pop)
	}
	return map[string]interface{}{"g": before, "opts": dumpEpochOpts(opts), "origin": origin}, stream, consumed, out
}

// unsortGenome lists the genes (and sometimes the nodes) of a genome out of order: the gene with the largest innovation
// number is moved away from the end (to the front or into the middle), optionally the rest is shuffled
func unsortGenome(g *G, gn *genetics.Genome) {
	if n := len(gn.Genes); n >= 2 {
		last := gn.Genes[n-1]
		k := g.intn(n - 1)
		copy(gn.Genes[k+1:], gn.Genes[k:n-1])
		gn.Genes[k] = last
		if g.chance(0.3) {
			g.gr.Shuffle(n, func(i, j int) { gn.Genes[i], gn.Genes[j] = gn.Genes[j], gn.Genes[i] })
		}
	}
	if n := len(gn.Nodes); n >= 2 && g.chance(0.4) {
		last := gn.Nodes[n-1]
		k := g.intn(n - 1)
		copy(gn.Nodes[k+1:], gn.Nodes[k:n-1])
		gn.Nodes[k] = last
	}
}

// opSpeciate: a batch of organisms arriving in a random order into an existing (possibly empty) population
func opSpeciate(g *G) (interface{}, []uint64, int, interface{}) {
	opts := popOpts(g)
	p := g.poolOf(6)
	pop := genetics.VerifNewEmptyPopulation()
	// a fifth of the cases: organisms that did not grow up in one population (files merged from different runs, hand-made
	// genomes) - the same innovation number stands for links with another recurrence flag in some of them; the distance
	// is defined on innovation numbers alone
	foreign := g.chance(0.2)
	mk := func(k int) []*genetics.Organism {
		orgs := make([]*genetics.Organism, 0)
		for i := 0; i < k; i++ {
			gn := cloneGenome(p.pick(g))
			gn.Id = i
			if foreign && g.chance(0.5) {
				for _, x := range gn.Genes {
					if g.chance(0.3) {
						twin := false
						for _, y := range gn.Genes {
							if y != x && y.Link.InNode.Id == x.Link.InNode.Id && y.Link.OutNode.Id == x.Link.OutNode.Id {
								twin = true
							}
						}
						if !twin {
							x.Link.IsRecurrent = !x.Link.IsRecurrent
						}
					}
				}
			}
			if g.chance(0.5) {
				rand.Seed(g.seed63())
				_, _ = genetics.VerifMutateLinkWeights(gn, 1+g.f64()*3, 1.0, false)
			}
			o, _ := genetics.NewOrganism(g.f64(), gn, 1)
			orgs = append(orgs, o)
		}
		return orgs
	}
	ctx := neat.NewContext(context.Background(), opts)
	if g.chance(0.6) {
		// existing species
		if err := genetics.VerifSpeciate(pop, ctx, mk(1+g.intn(8))); err != nil {
			return nil, nil, 0, nil
		}
		pop.Organisms = nil
		for _, sp := range pop.Species {
			pop.Organisms = append(pop.Organisms, sp.Organisms...)
		}
	}
	if len(pop.Species) > 0 && g.chance(0.15) {
		// a species that is still listed but has no organisms (emptied through removeOrganism / built with NewSpecies):
		// speciate skips it, it has no representative
		victim := pop.Species[g.intn(len(pop.Species))]
		gone := map[*genetics.Organism]bool{}
		for _, o := range victim.Organisms {
			gone[o] = true
		}
		kept := pop.Organisms[:0:0]
		for _, o := range pop.Organisms {
			if !gone[o] {
				kept = append(kept, o)
			}
		}
		pop.Organisms = kept
		victim.Organisms = nil
	}
	if g.chance(0.05) {
		opts.CompatThreshold = 0
	}
	batch := mk(1 + g.intn(10))
	before := dumpPop(pop)
	jb := make([]JOrg, 0)
	for _, o := range batch {
		jb = append(jb, dumpOrg(o, nil))
	}
	err := genetics.VerifSpeciate(pop, ctx, batch)
	es := errStr(err)
	if err != nil {
		s := "compatThresholdZero"
		es = &s
	}
	out := map[string]interface{}{"err": es, "pop": dumpPop(pop)}
	return map[string]interface{}{"pop": before, "batch": jb, "opts": dumpEpochOpts(opts)}, nil, 0, out
}

// safeVerify: Population.Verify, a panic inside it (e.g. a gene with a nil endpoint) reported as an error
func safeVerify(p *genetics.Population) (ok bool, err error) {
	defer func() {
		if r := recover(); r != nil {
			ok, err = false, fmt.Errorf("Population.Verify panicked: %v", r)
		}
	}()
	return p.Verify()
}
