package main

// Depth ops (C14): networks are built with the public API, queried with the real
// Network.MaxActivationDepth / MaxActivationDepthWithCap / NNode.Depth, and the `visited` flag of every node is read
// through the hook VerifNodeState_ after every call.
//
//   depthQueries: one instance; first an uncapped query on the fresh instance, then 1..7 further queries with caps
//                 around the true depth (0, negative, 1, depth-1, depth, depth+1, large) on the SAME instance.
//   nodeDepth   : NNode.Depth(d0, cap) on an arbitrary node with arbitrary pre-set marks on other nodes.

import (
	"errors"

	neatmath "github.com/yaricom/goNEAT/v4/neat/math"
	"github.com/yaricom/goNEAT/v4/neat/network"
)

func init() {
	register("depthQueries", opDepthQueries)
	register("nodeDepth", opNodeDepth)
}

func depthErrClass(err error) string {
	switch {
	case err == nil:
		return "ok"
	case errors.Is(err, network.ErrMaximalNetDepthExceeded):
		return "exceeded"
	case err.Error() == "unsupported for modular networks":
		return "modular"
	default:
		return "other:" + err.Error()
	}
}

func marksOf(n *network.Network) []bool {
	all := network.VerifNetAllNodes(n)
	m := make([]bool, len(all))
	for i, nd := range all {
		m[i] = network.VerifNodeState_(nd).Visited
	}
	return m
}

/* ---------- generators of shapes that stress the depth search ---------- */

func plainNode(id int, k network.NodeNeuronType) nodeSpec {
	act := neatmath.SigmoidSteepenedActivation
	if k == network.InputNeuron || k == network.BiasNeuron {
		act = neatmath.NullActivation
	}
	return nodeSpec{id: id, kind: k, act: act}
}

// finish fills inputs/outputs from the node kinds (allNodes order), optionally shuffling allNodes
func finishSpec(g *G, sp *netSpec, shuffle bool) {
	n := len(sp.nodes)
	pos := make([]int, n)
	for i := range pos {
		pos[i] = i
	}
	if shuffle {
		pos = g.perm(n)
	}
	nodes := make([]nodeSpec, n)
	for i, ns := range sp.nodes {
		nodes[pos[i]] = ns
	}
	sp.nodes = nodes
	for i := range sp.links {
		sp.links[i].src = pos[sp.links[i].src]
		sp.links[i].dst = pos[sp.links[i].dst]
	}
	sp.inputs, sp.outputs = nil, nil
	for i, ns := range sp.nodes {
		switch ns.kind {
		case network.InputNeuron, network.BiasNeuron:
			sp.inputs = append(sp.inputs, i)
		case network.OutputNeuron:
			sp.outputs = append(sp.outputs, i)
		}
	}
}

// genChain: sensor -> h1 -> ... -> hL -> output, with optional skip links and a second output hanging off the middle
func genChain(g *G) (*netSpec, string) {
	sp := &netSpec{id: 1}
	L := 1 + g.intn(10)
	sp.nodes = append(sp.nodes, plainNode(1, network.InputNeuron))
	for i := 0; i < L; i++ {
		sp.nodes = append(sp.nodes, plainNode(2+i, network.HiddenNeuron))
	}
	sp.nodes = append(sp.nodes, plainNode(2+L, network.OutputNeuron))
	for i := 0; i <= L; i++ {
		sp.links = append(sp.links, linkSpec{src: i, dst: i + 1, w: 1})
	}
	fam := "chain"
	if g.chance(0.5) {
		for k := 0; k < 1+g.intn(4); k++ {
			a := g.intn(L + 1)
			b := a + 1 + g.intn(L+1-a)
			sp.links = append(sp.links, linkSpec{src: a, dst: b, w: 0.5})
		}
		fam += "+skip"
	}
	if g.chance(0.3) {
		sp.nodes = append(sp.nodes, plainNode(3+L, network.OutputNeuron))
		sp.links = append(sp.links, linkSpec{src: 1 + g.intn(L), dst: L + 2, w: 1})
		fam += "+out2"
	}
	finishSpec(g, sp, g.chance(0.5))
	return sp, fam
}

// genLayered: k layers of width <= m, dense links between consecutive layers, random skip links: many paths share
// sub-paths
func genLayered(g *G) (*netSpec, string) {
	sp := &netSpec{id: 2}
	nIn := 1 + g.intn(3)
	layers := [][]int{}
	cur := []int{}
	for i := 0; i < nIn; i++ {
		k := network.InputNeuron
		if g.chance(0.25) {
			k = network.BiasNeuron
		}
		cur = append(cur, len(sp.nodes))
		sp.nodes = append(sp.nodes, plainNode(len(sp.nodes)+1, k))
	}
	layers = append(layers, cur)
	nl := 1 + g.intn(4)
	for l := 0; l < nl; l++ {
		cur = []int{}
		for i := 0; i < 1+g.intn(3); i++ {
			cur = append(cur, len(sp.nodes))
			sp.nodes = append(sp.nodes, plainNode(len(sp.nodes)+1, network.HiddenNeuron))
		}
		layers = append(layers, cur)
	}
	cur = []int{}
	for i := 0; i < 1+g.intn(3); i++ {
		cur = append(cur, len(sp.nodes))
		sp.nodes = append(sp.nodes, plainNode(len(sp.nodes)+1, network.OutputNeuron))
	}
	layers = append(layers, cur)
	p := 0.5 + 0.5*g.f64()
	for l := 1; l < len(layers); l++ {
		for _, d := range layers[l] {
			any := false
			for _, s := range layers[l-1] {
				if g.chance(p) {
					sp.links = append(sp.links, linkSpec{src: s, dst: d, w: 1})
					any = true
				}
			}
			if !any && g.chance(0.8) {
				sp.links = append(sp.links, linkSpec{src: layers[l-1][0], dst: d, w: 1})
			}
			if l >= 2 && g.chance(0.3) { // skip link from an earlier layer
				e := layers[g.intn(l-1)]
				sp.links = append(sp.links, linkSpec{src: e[g.intn(len(e))], dst: d, w: 1})
			}
		}
	}
	finishSpec(g, sp, g.chance(0.5))
	return sp, "layered"
}

// genRing: sensor -> ring of k hidden nodes (a directed cycle) -> output; optional self-loops, chords, tail
func genRing(g *G) (*netSpec, string) {
	sp := &netSpec{id: 3}
	k := 1 + g.intn(6)
	sp.nodes = append(sp.nodes, plainNode(1, network.InputNeuron))
	for i := 0; i < k; i++ {
		sp.nodes = append(sp.nodes, plainNode(2+i, network.HiddenNeuron))
	}
	out := len(sp.nodes)
	sp.nodes = append(sp.nodes, plainNode(2+k, network.OutputNeuron))
	for i := 0; i < k; i++ {
		sp.links = append(sp.links, linkSpec{src: 1 + i, dst: 1 + (i+1)%k, w: 1}) // k=1: self-loop
	}
	sp.links = append(sp.links, linkSpec{src: 0, dst: 1 + g.intn(k), w: 1})
	sp.links = append(sp.links, linkSpec{src: 1 + g.intn(k), dst: out, w: 1})
	fam := "ring"
	if g.chance(0.5) {
		sp.links = append(sp.links, linkSpec{src: 1 + g.intn(k), dst: 1 + g.intn(k), w: 1})
		fam += "+chord"
	}
	if g.chance(0.3) {
		sp.links = append(sp.links, linkSpec{src: out, dst: out, w: 1})
		fam += "+outself"
	}
	if g.chance(0.3) {
		sp.links = append(sp.links, linkSpec{src: out, dst: 1 + g.intn(k), w: 1})
		fam += "+outback"
	}
	finishSpec(g, sp, g.chance(0.5))
	return sp, fam
}

// genNoHidden: only sensors and outputs (the shortcut of MaxActivationDepthWithCap), outputs may feed outputs
func genNoHidden(g *G) (*netSpec, string) {
	sp := &netSpec{id: 4}
	nIn, nOut := 1+g.intn(3), 1+g.intn(3)
	for i := 0; i < nIn; i++ {
		sp.nodes = append(sp.nodes, plainNode(1+i, network.InputNeuron))
	}
	for i := 0; i < nOut; i++ {
		sp.nodes = append(sp.nodes, plainNode(1+nIn+i, network.OutputNeuron))
	}
	for o := 0; o < nOut; o++ {
		for i := 0; i < nIn; i++ {
			if g.chance(0.7) {
				sp.links = append(sp.links, linkSpec{src: i, dst: nIn + o, w: 1})
			}
		}
	}
	fam := "nohidden"
	if nOut > 1 && g.chance(0.4) {
		sp.links = append(sp.links, linkSpec{src: nIn, dst: nIn + 1, w: 1})
		fam += "+outout"
	}
	finishSpec(g, sp, false)
	return sp, fam
}

func genDepthNet0(g *G) (*netSpec, string) {
	for {
		switch g.intn(10) {
		case 0, 1:
			sp, _, fam := genDAG(g, false)
			if sp != nil {
				return sp, "dag:" + fam
			}
		case 2:
			sp, _, fam := genDAG(g, true)
			if sp != nil {
				return sp, "dag:" + fam
			}
		case 3, 4:
			sp, fam := genGraph(g)
			for i := range sp.nodes { // the activation type plays no role here; keep registered ones
				if sp.nodes[i].act == neatmath.NodeActivationType(99) {
					sp.nodes[i].act = neatmath.SigmoidSteepenedActivation
				}
			}
			return sp, "graph:" + fam
		case 5:
			return genChain(g)
		case 6, 7:
			return genLayered(g)
		case 8:
			return genRing(g)
		default:
			return genNoHidden(g)
		}
	}
}

/* ---------- depthQueries ---------- */

type JDepthAnswer struct {
	Cap   int    `json:"cap"`
	Plain bool   `json:"plain"` // MaxActivationDepth() instead of MaxActivationDepthWithCap(cap)
	Depth int    `json:"depth"`
	Err   string `json:"err"`
	Marks []bool `json:"marks"`
}

type depthQueriesIn struct {
	Family string `json:"family"`
	Net    *JNet  `json:"net"`
	NCtrl  int    `json:"nctrl"`
	Caps   []int  `json:"caps"`
	Plain  []bool `json:"plain"`
}

type depthQueriesOut struct {
	Fresh   JDepthAnswer   `json:"fresh"`
	Answers []JDepthAnswer `json:"answers"`
}

func ask(n *network.Network, cp int, plain bool) JDepthAnswer {
	var d int
	var err error
	if plain {
		d, err = n.MaxActivationDepth()
	} else {
		d, err = n.MaxActivationDepthWithCap(cp)
	}
	return JDepthAnswer{Cap: cp, Plain: plain, Depth: d, Err: depthErrClass(err), Marks: marksOf(n)}
}

func opDepthQueries(g *G) (interface{}, []uint64, int, interface{}) {
	sp, fam := genDepthNet(g)
	net := sp.build()
	nctrl := 0
	if g.chance(0.02) { // a modular network: MaxActivationDepthWithCap refuses it
		all := network.VerifNetAllNodes(net)
		cn := network.NewNNode(1000, network.HiddenNeuron)
		cn.ActivationType = neatmath.MultiplyModuleActivation
		net = network.NewModularNetwork(network.VerifNetInputs(net), net.Outputs, all, []*network.NNode{cn}, sp.id)
		nctrl = 1
		fam += "+modular"
	}
	if nctrl == 0 && g.chance(0.15) {
		// built by the modular constructor with an EMPTY (non-nil) control list - what Genome.Genesis makes of a genome
		// whose modules are all disabled: still a non-modular network in every respect
		net = network.NewModularNetwork(network.VerifNetInputs(net), net.Outputs, network.VerifNetAllNodes(net), []*network.NNode{}, sp.id)
		fam += "+emptyCtrl"
	}
	in := &depthQueriesIn{Family: fam, Net: dumpNet(net), NCtrl: nctrl}
	out := &depthQueriesOut{}
	// the first query on the fresh instance: uncapped
	if nctrl == 0 {
		out.Fresh = ask(net, 0, g.chance(0.5))
	} else {
		out.Fresh = ask(net, 0, false)
	}
	d0 := out.Fresh.Depth
	nq := 1 + g.intn(7)
	for k := 0; k < nq; k++ {
		var cp int
		switch g.intn(9) {
		case 0:
			cp = 0
		case 1:
			cp = -1 - g.intn(3)
		case 2:
			cp = 1
		case 3:
			cp = d0 - 1
		case 4:
			cp = d0
		case 5:
			cp = d0 + 1
		case 6:
			cp = 1 + g.intn(len(sp.nodes)+2)
		case 7:
			cp = 2
		default:
			cp = 1000
		}
		plain := false
		if cp == 0 && nctrl == 0 && g.chance(0.5) {
			plain = true
		}
		a := ask(net, cp, plain)
		in.Caps = append(in.Caps, cp)
		in.Plain = append(in.Plain, plain)
		out.Answers = append(out.Answers, a)
	}
	return in, nil, 0, out
}

/* ---------- nodeDepth ---------- */

type nodeDepthIn struct {
	Family string `json:"family"`
	Net    *JNet  `json:"net"`
	Node   int    `json:"node"`
	D0     int    `json:"d0"`
	Cap    int    `json:"cap"`
	Marks  []bool `json:"marks"`
}

type nodeDepthOut struct {
	Depth int    `json:"depth"`
	Err   string `json:"err"`
	Marks []bool `json:"marks"`
}

func opNodeDepth(g *G) (interface{}, []uint64, int, interface{}) {
	sp, fam := genDepthNet(g)
	net := sp.build()
	all := network.VerifNetAllNodes(net)
	i := g.intn(len(all))
	marks := make([]bool, len(all))
	if g.chance(0.6) {
		for k := range marks {
			if k != i && g.chance(0.25) {
				marks[k] = true
			}
		}
	}
	for k, nd := range all {
		network.VerifSetVisited(nd, marks[k])
	}
	d0 := g.intn(4)
	cp := 0
	switch g.intn(4) {
	case 0:
		cp = 0
	case 1:
		cp = -g.intn(3)
	default:
		cp = 1 + g.intn(len(all)+3)
	}
	in := &nodeDepthIn{Family: fam, Net: dumpNet(net), Node: i, D0: d0, Cap: cp, Marks: marks}
	d, err := all[i].Depth(d0, cp)
	out := &nodeDepthOut{Depth: d, Err: depthErrClass(err), Marks: marksOf(net)}
	return in, nil, 0, out
}

// genDepthNet: the shapes of genDepthNet0, some links additionally carrying the IsRecurrent FLAG (an acyclic network may
// carry flagged links: a gene created as recurrent whose cycle-closing genes were disabled later); the depth is defined by
// the links, not by the flags
func genDepthNet(g *G) (*netSpec, string) {
	sp, cls := genDepthNet0(g)
	if sp != nil && g.chance(0.3) {
		for i := range sp.links {
			if g.chance(0.25) {
				sp.links[i].rec = true
			}
		}
		cls += ":recFlags"
	}
	return sp, cls
}
