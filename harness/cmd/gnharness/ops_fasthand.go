package main

// Hand-built fast solvers (C12, C13): RAW descriptions handed to the public constructor
// network.NewFastModularNetworkSolver - the shape ReadFMNSModel builds from a file - instead of the restricted output
// of Network.FastNetworkSolver(): connections with ANY source (bias neurons, inputs, outputs, hidden), any target
// (rarely a sensor), duplicates, self loops, cycles, arbitrary list order (not grouped by target), a random biasList
// (also with biasNeuronCount = 0, when it must be ignored), 0-2 modules over arbitrary index lists.  All indexes are
// in range (the constructor panics otherwise - not a finding).
//
//   fastHandFlushRun : (history; Flush; sequence) on one instance vs (sequence) on a twin built from the same description
//   fastHandRun      : one random call sequence on one instance; family "ff" = acyclic, duplicate-free, module-free
//                      descriptions with propagation calls long enough for the feed-forward value (C12)

import (
	neatmath "github.com/yaricom/goNEAT/v4/neat/math"
	"github.com/yaricom/goNEAT/v4/neat/network"
)

func init() {
	register("fastHandFlushRun", opFastHandFlushRun)
	register("fastHandRun", opFastHandRun)
}

type JFDesc struct {
	NBias   int      `json:"nBias"`
	NInput  int      `json:"nInput"`
	NOutput int      `json:"nOutput"`
	NTotal  int      `json:"nTotal"`
	Acts    []int    `json:"acts"`
	Biases  []uint64 `json:"biases"`
	Conns   []JFLink `json:"conns"`
	Mods    []JFMod  `json:"mods"`
	biases  []float64
	weights []float64
}

// build makes an independent solver instance (own slices) through the public constructor
func (d *JFDesc) build() *network.FastModularNetworkSolver {
	acts := make([]neatmath.NodeActivationType, len(d.Acts))
	for i, a := range d.Acts {
		acts[i] = neatmath.NodeActivationType(a)
	}
	conns := make([]*network.FastNetworkLink, len(d.Conns))
	for i, c := range d.Conns {
		conns[i] = &network.FastNetworkLink{SourceIndex: c.Src, TargetIndex: c.Dst, Weight: d.weights[i]}
	}
	var biases []float64
	if d.biases != nil {
		biases = append([]float64{}, d.biases...)
	}
	var mods []*network.FastControlNode
	for _, m := range d.Mods {
		mods = append(mods, &network.FastControlNode{ActivationType: neatmath.NodeActivationType(m.Act),
			InputIndexes: append([]int{}, m.Ins...), OutputIndexes: append([]int{}, m.Outs...)})
	}
	return network.NewFastModularNetworkSolver(d.NBias, d.NInput, d.NOutput, d.NTotal, acts, conns, biases, mods)
}

func (d *JFDesc) addConn(src, dst int, w float64) {
	d.Conns = append(d.Conns, JFLink{Src: src, Dst: dst, W: bits(w)})
	d.weights = append(d.weights, w)
}

func (d *JFDesc) dropLastConn() {
	d.Conns = d.Conns[:len(d.Conns)-1]
	d.weights = d.weights[:len(d.weights)-1]
}

func (d *JFDesc) shuffleConns(g *G) {
	g.gr.Shuffle(len(d.Conns), func(i, j int) {
		d.Conns[i], d.Conns[j] = d.Conns[j], d.Conns[i]
		d.weights[i], d.weights[j] = d.weights[j], d.weights[i]
	})
}

// levels: longest-path rank (sensors from 0, neurons from 1); ok=false when the connection graph has a cycle
func (d *JFDesc) levels() (lv []int, ok bool) {
	lv = make([]int, d.NTotal)
	for i := d.NBias + d.NInput; i < d.NTotal; i++ {
		lv[i] = 1
	}
	for round := 0; round <= d.NTotal+1; round++ {
		changed := false
		for _, c := range d.Conns {
			if lv[c.Dst] < lv[c.Src]+1 {
				lv[c.Dst] = lv[c.Src] + 1
				changed = true
			}
		}
		if !changed {
			return lv, true
		}
	}
	return lv, false
}

func genHandCounts(g *G) *JFDesc {
	d := &JFDesc{NBias: g.intn(3), NInput: 1 + g.intn(4), NOutput: 1 + g.intn(3), Conns: []JFLink{}, Mods: []JFMod{}}
	nH := g.intn(7)
	if g.chance(0.3) {
		nH = g.intn(3)
	}
	nS := d.NBias + d.NInput
	d.NTotal = nS + d.NOutput + nH
	d.Acts = make([]int, d.NTotal)
	for i := range d.Acts {
		d.Acts[i] = int(pickExactAct(g))
		if i < nS && g.chance(0.6) {
			d.Acts[i] = int(neatmath.NullActivation)
		}
	}
	// biasList: random incl. zeros; with biasNeuronCount = 0 it is never read (sometimes nil then)
	if d.NBias == 0 && g.chance(0.3) {
		d.biases = nil
	} else {
		d.biases = make([]float64, d.NTotal)
		for i := range d.biases {
			if g.chance(0.55) {
				d.biases[i] = pickWeight(g)
			}
		}
	}
	d.Biases = bitsOf(d.biases)
	return d
}

// genHandFF: acyclic, no node pair joined twice, no modules; sources = sensors (bias neurons too) and earlier
// neurons of a random order in which outputs may precede hidden neurons; a few connections INTO sensors
func genHandFF(g *G) (*JFDesc, int, string) {
	d := genHandCounts(g)
	nS := d.NBias + d.NInput
	order := g.perm(d.NTotal - nS)
	avail := []int{}
	for i := 0; i < nS; i++ {
		avail = append(avail, i)
	}
	for _, k := range order {
		t := nS + k
		nSrc := 1 + g.intn(3)
		if g.chance(0.08) {
			nSrc = 0 // a neuron without incoming connection: activation(bias)
		}
		p := g.perm(len(avail))
		for q := 0; q < nSrc && q < len(p); q++ {
			src := avail[p[q]]
			if d.NBias > 0 && q == 0 && g.chance(0.35) {
				src = g.intn(d.NBias) // the connection the translation never produces: reads a bias signal
			}
			if d.connExists(src, t) {
				continue
			}
			d.addConn(src, t, pickWeight(g))
		}
		avail = append(avail, t)
	}
	family := "ff"
	if g.chance(0.12) {
		// connection into a sensor (its processing cell accumulates, nothing reads it without modules)
		src, dst := g.intn(d.NTotal), g.intn(nS)
		if !d.connExists(src, dst) {
			d.addConn(src, dst, pickWeight(g))
			if _, ok := d.levels(); !ok {
				d.dropLastConn()
			} else {
				family += "+sensorTarget"
			}
		}
	}
	if g.chance(0.7) {
		d.shuffleConns(g)
	}
	lv, _ := d.levels()
	depth := 0
	for j := 0; j < d.NOutput; j++ {
		if lv[nS+j] > depth {
			depth = lv[nS+j]
		}
	}
	return d, depth, family
}

func (d *JFDesc) connExists(src, dst int) bool {
	for _, c := range d.Conns {
		if c.Src == src && c.Dst == dst {
			return true
		}
	}
	return false
}

// genHandGraph: arbitrary connection list, 30% with modules
func genHandGraph(g *G) (*JFDesc, string) {
	d := genHandCounts(g)
	nS := d.NBias + d.NInput
	family := "graph"
	nConn := g.intn(2*d.NTotal + 1)
	if g.chance(0.05) {
		nConn = 0
	}
	sensorTarget, biasSrc, dup := false, false, false
	for k := 0; k < nConn; k++ {
		src := g.intn(d.NTotal)
		if d.NBias > 0 && g.chance(0.2) {
			src = g.intn(d.NBias)
		}
		dst := nS + g.intn(d.NTotal-nS)
		switch c := g.intn(25); {
		case c < 2:
			dst = g.intn(d.NTotal) // also sensors, bias neurons included
		case c < 4 && src >= nS:
			dst = src // self loop
		case c < 6 && len(d.Conns) > 0:
			prev := d.Conns[g.intn(len(d.Conns))] // parallel connection: adjacentMatrix keeps the last weight
			src, dst = prev.Src, prev.Dst
			dup = true
		}
		sensorTarget = sensorTarget || dst < nS
		biasSrc = biasSrc || src < d.NBias
		d.addConn(src, dst, pickWeight(g))
	}
	if g.chance(0.04) {
		d.Acts[nS+g.intn(d.NTotal-nS)] = []int{99, int(neatmath.MultiplyModuleActivation)}[g.intn(2)] // unregistered neuron activation
		family += "+badAct"
	}
	if biasSrc {
		family += "+biasSrc"
	}
	if sensorTarget {
		family += "+sensorTarget"
	}
	if dup {
		family += "+dup"
	}
	if g.chance(0.3) {
		nMod := 1 + g.intn(2)
		for k := 0; k < nMod; k++ {
			m := JFMod{Act: int(pickModuleAct(g)), Ins: []int{}, Outs: []int{}}
			nIn := 1 + g.intn(3)
			if g.chance(0.05) {
				nIn = 0
			}
			for t := 0; t < nIn; t++ {
				m.Ins = append(m.Ins, g.intn(d.NTotal))
			}
			nOut := 1
			switch c := g.intn(20); {
			case c == 0:
				nOut = 0
			case c == 1:
				nOut = 2 // one-valued activators: index panic after the first store
			}
			for t := 0; t < nOut; t++ {
				o := nS + g.intn(d.NTotal-nS)
				if g.chance(0.3) {
					o = g.intn(d.NTotal) // sensors and bias neurons too
				}
				m.Outs = append(m.Outs, o)
			}
			d.Mods = append(d.Mods, m)
		}
		family += "+mods"
	}
	return d, family
}

// pseudo node list for genLoad (only the number of input nodes matters for a fast solver)
func (d *JFDesc) pseudoSpec() *netSpec {
	sp := &netSpec{}
	for i := 0; i < d.NTotal; i++ {
		k := network.HiddenNeuron
		switch {
		case i < d.NBias:
			k = network.BiasNeuron
		case i < d.NBias+d.NInput:
			k = network.InputNeuron
		case i < d.NBias+d.NInput+d.NOutput:
			k = network.OutputNeuron
		}
		sp.nodes = append(sp.nodes, nodeSpec{id: i + 1, kind: k})
	}
	return sp
}

// genHandOps: call scripts of a fast solver; bigK = a step count that reaches every output of an acyclic description
func genHandOps(g *G, sp *netSpec, k int, allowFlush bool, bigK int, mods bool) []*JOp {
	ops := []*JOp{}
	for i := 0; i < k; i++ {
		c := g.intn(40)
		switch {
		case c < 13:
			ops = append(ops, genLoad(g, sp, true))
		case c < 26:
			ops = append(ops, &JOp{K: "fwd", N: []int{1, 1, 2, 3, 0, -1, bigK, bigK, bigK + 1, bigK + 2}[g.intn(10)]})
		case c < 31 && !mods || c < 27:
			ops = append(ops, &JOp{K: "rec"}) // refused by solvers with modules
		case c < 31:
			ops = append(ops, &JOp{K: "fwd", N: 1 + g.intn(3)})
		case c < 37:
			dl := []float64{0, -1, 1e-3, 0.5, 1e-9}[g.intn(5)]
			ops = append(ops, &JOp{K: "relax", N: g.intn(6), delta: dl, Delta: bits(dl)})
		default:
			if allowFlush {
				ops = append(ops, &JOp{K: "flush"})
			} else {
				ops = append(ops, genLoad(g, sp, true))
			}
		}
	}
	return ops
}

type fastHandIn struct {
	Desc    *JFDesc `json:"desc"`
	Family  string  `json:"family"`
	Depth   int     `json:"depth"` // ff family: largest rank of an output (generator's bookkeeping), else -1
	History []*JOp  `json:"history"`
	Seq     []*JOp  `json:"seq"`
}

func fastHandRun(g *G, withFlush bool) (interface{}, []uint64, int, interface{}) {
	var d *JFDesc
	var family string
	depth := -1
	pFF := 0.4
	if withFlush {
		pFF = 0.15
	}
	if g.chance(pFF) {
		d, depth, family = genHandFF(g)
	} else {
		d, family = genHandGraph(g)
	}
	in := &fastHandIn{Desc: d, Family: family, Depth: depth}
	sp := d.pseudoSpec()
	bigK := 4
	if depth >= 0 {
		bigK = depth + 1
	}
	mods := len(d.Mods) > 0
	hLen := g.intn(9)
	if g.chance(0.1) {
		hLen = 0
	}
	in.History = genHandOps(g, sp, hLen, true, bigK, mods)
	in.Seq = genHandOps(g, sp, 1+g.intn(8), g.chance(0.3), bigK, mods)
	var script []*JOp
	if withFlush {
		script = append(append([]*JOp{}, in.History...), &JOp{K: "flush"})
		script = append(script, in.Seq...)
	} else {
		script = append(append([]*JOp{}, in.History...), in.Seq...)
	}
	fa, fb := d.build(), d.build()
	out := &modRunOut{Flushed: []JStep{}, Fresh: []JStep{}}
	out.FastNet = dumpFastNet(fa)
	out.Mods = dumpFastMods(fa)
	out.Counts = &JCounts{Nodes: fb.NodeCount(), Links: fb.LinkCount()}
	out.Init = &JStep{Outs: bitsOf(fb.ReadOutputs()), Fast: dumpFastState(fb)}
	nan := false
	out.Flushed = runScriptM(fa, nil, script, &nan)
	if withFlush {
		out.Fresh = runScriptM(fb, nil, in.Seq, &nan)
	}
	if nan {
		return nil, nil, 0, nil
	}
	return in, nil, 0, out
}

func opFastHandFlushRun(g *G) (interface{}, []uint64, int, interface{}) { return fastHandRun(g, true) }

func opFastHandRun(g *G) (interface{}, []uint64, int, interface{}) { return fastHandRun(g, false) }
