package main

// C19: the real experiment.Floats statistics and the real Trial / Experiment aggregate accessors.
//
//   floatsStats    : one series -> Min Max Sum Mean MeanVariance Variance StdDev Median Q25 Q75 (panics recovered)
//   floatsPerms    : every permutation of a short series -> the same ten results per permutation
//   expAggregates  : a synthetic Experiment built from Trial/Generation records -> every aggregate accessor
//
// Series families: dyadic rationals k/2^e (every partial sum is exact in binary64, so the result does not depend
// on gonum's summation order and is compared bit for bit) and arbitrary doubles (compared with a tolerance where
// a sum is involved).

import (
	"fmt"
	"math"
	"sort"

	"github.com/yaricom/goNEAT/v4/experiment"
	"github.com/yaricom/goNEAT/v4/neat/genetics"
)

func init() {
	register("floatsStats", opFloatsStats)
	register("floatsPerms", opFloatsPerms)
	register("expAggregates", opExpAggregates)
}

// JStat is one result: the bit pattern, or the recovered panic
type JStat struct {
	V     uint64 `json:"v"`
	Panic string `json:"panic"`
}
type JFloatsOut struct {
	Min      JStat    `json:"min"`
	Max      JStat    `json:"max"`
	Sum      JStat    `json:"sum"`
	Mean     JStat    `json:"mean"`
	MV       []uint64 `json:"mv"`
	MVPanic  string   `json:"mvPanic"`
	Variance JStat    `json:"variance"`
	StdDev   JStat    `json:"stddev"`
	Median   JStat    `json:"median"`
	Q25      JStat    `json:"q25"`
	Q75      JStat    `json:"q75"`
	// the receiver after all calls (the accessors must not reorder the caller's series)
	After []uint64 `json:"after"`
}

func stat1(f func() float64) (r JStat) {
	defer func() {
		if p := recover(); p != nil {
			r = JStat{Panic: fmt.Sprint(p)}
		}
	}()
	return JStat{V: bits(f())}
}

func runFloats(series []float64) *JFloatsOut {
	x := experiment.Floats(append([]float64{}, series...))
	o := &JFloatsOut{}
	o.Min = stat1(x.Min)
	o.Max = stat1(x.Max)
	o.Sum = stat1(x.Sum)
	o.Mean = stat1(x.Mean)
	func() {
		defer func() {
			if p := recover(); p != nil {
				o.MVPanic = fmt.Sprint(p)
				o.MV = []uint64{}
			}
		}()
		o.MV = bitsOf(x.MeanVariance())
	}()
	o.Variance = stat1(x.Variance)
	o.StdDev = stat1(x.StdDev)
	o.Median = stat1(x.Median)
	o.Q25 = stat1(x.Q25)
	o.Q75 = stat1(x.Q75)
	o.After = bitsOf(x)
	return o
}

func dyadic(g *G) float64 {
	e := g.intn(11)
	k := g.intn(1<<21) - (1 << 20)
	if g.chance(0.3) {
		k = g.intn(33) - 16
	}
	v := float64(k) / float64(int(1)<<uint(e))
	if v == 0 {
		return 0 // never -0
	}
	return v
}

func arbitraryDouble(g *G, positive bool) float64 {
	m := 1 + g.f64()
	e := g.intn(21) - 10
	v := math.Ldexp(m, e)
	if !positive && g.chance(0.5) {
		v = -v
	}
	return v
}

type JSeriesIn struct {
	Xs     []uint64 `json:"xs"`
	Dyadic bool     `json:"dyadic"`
	Family string   `json:"family"`
}

func genSeries(g *G, maxLen int) ([]float64, bool, string) {
	n := g.intn(maxLen + 1)
	switch g.intn(12) {
	case 0:
		n = 0
	case 1:
		n = 1
	case 2:
		n = 2
	}
	dy := g.chance(0.6)
	fam := "arbitrary"
	if dy {
		fam = "dyadic"
	}
	positive := g.chance(0.3)
	xs := make([]float64, n)
	for i := range xs {
		if dy {
			xs[i] = dyadic(g)
		} else {
			xs[i] = arbitraryDouble(g, positive)
		}
	}
	switch g.intn(8) {
	case 0: // many ties
		for i := range xs {
			if i > 0 && g.chance(0.6) {
				xs[i] = xs[g.intn(i)]
			}
		}
		fam += "/ties"
	case 1:
		sort.Float64s(xs)
		fam += "/sorted"
	case 2:
		sort.Sort(sort.Reverse(sort.Float64Slice(xs)))
		fam += "/reversed"
	case 3:
		for i := range xs {
			xs[i] = xs[0]
		}
		fam += "/constant"
	}
	if n == 0 {
		fam = "empty"
	}
	return xs, dy, fam
}

func opFloatsStats(g *G) (interface{}, []uint64, int, interface{}) {
	maxLen := 40
	if g.thorough {
		maxLen = 300
	}
	xs, dy, fam := genSeries(g, maxLen)
	return &JSeriesIn{Xs: bitsOf(xs), Dyadic: dy, Family: fam}, nil, 0, runFloats(xs)
}

type JPermsOut struct {
	Perms   [][]uint64    `json:"perms"`
	Results []*JFloatsOut `json:"results"`
}

func opFloatsPerms(g *G) (interface{}, []uint64, int, interface{}) {
	maxLen := 5
	if g.thorough {
		maxLen = 6
	}
	xs, dy, fam := genSeries(g, maxLen)
	for k := 0; k < 3 && len(xs) < 3; k++ { // mostly series with something to permute
		xs, dy, fam = genSeries(g, maxLen)
	}
	out := &JPermsOut{Perms: [][]uint64{}, Results: []*JFloatsOut{}}
	var rec func(k int)
	p := append([]float64{}, xs...)
	rec = func(k int) {
		if k == len(p) {
			out.Perms = append(out.Perms, bitsOf(p))
			out.Results = append(out.Results, runFloats(p))
			return
		}
		for i := k; i < len(p); i++ {
			p[k], p[i] = p[i], p[k]
			rec(k + 1)
			p[k], p[i] = p[i], p[k]
		}
	}
	rec(0)
	return &JSeriesIn{Xs: bitsOf(xs), Dyadic: dy, Family: fam}, nil, 0, out
}

/* ---------- aggregates over synthetic records ---------- */

type JChamp struct {
	Fitness    uint64 `json:"fitness"`
	Age        *int   `json:"age"`
	Complexity *int   `json:"complexity"`
}
type JGenIn struct {
	Solved      bool     `json:"solved"`
	Champion    *JChamp  `json:"champion"`
	Diversity   int      `json:"diversity"`
	Fitness     []uint64 `json:"fitness"`
	Age         []uint64 `json:"age"`
	Complexity  []uint64 `json:"complexity"`
	WinnerNodes int      `json:"winnerNodes"`
	WinnerGenes int      `json:"winnerGenes"`
	WinnerEvals int      `json:"winnerEvals"`
}
type JTrialIn struct {
	Gens []JGenIn `json:"gens"`
}
type JExpIn struct {
	Trials    []JTrialIn `json:"trials"`
	NilChamps bool       `json:"nilChamps"`
	Family    string     `json:"family"`
}

type JFloatsRes struct {
	V     []uint64 `json:"v"`
	Panic string   `json:"panic"`
}
type JTrialOut struct {
	Solved     bool       `json:"solved"`
	Fitness    JFloatsRes `json:"championsFitness"`
	Ages       JFloatsRes `json:"championSpeciesAges"`
	Complex    JFloatsRes `json:"championsComplexities"`
	Diversity  JFloatsRes `json:"diversity"`
	AvgFitness JFloatsRes `json:"avgFitness"`
	AvgAge     JFloatsRes `json:"avgAge"`
	AvgComplex JFloatsRes `json:"avgComplexity"`
	Winner     []int      `json:"winner"`
	Panic      string     `json:"panic"`
}
type JExpOut struct {
	Trials         []JTrialOut `json:"trials"`
	Solved         bool        `json:"solved"`
	TrialsSolved   int         `json:"trialsSolved"`
	SuccessRate    uint64      `json:"successRate"`
	BestFitness    JFloatsRes  `json:"bestFitness"`
	BestSpeciesAge JFloatsRes  `json:"bestSpeciesAge"`
	BestComplexity JFloatsRes  `json:"bestComplexity"`
	AvgDiversity   JFloatsRes  `json:"avgDiversity"`
	EpochsPerTrial JFloatsRes  `json:"epochsPerTrial"`
	AvgWinner      []uint64    `json:"avgWinner"`
	AvgGenerations uint64      `json:"avgGenerationsPerTrial"`
	Panic          string      `json:"panic"`
}

func floatsRes(f func() experiment.Floats) (r JFloatsRes) {
	defer func() {
		if p := recover(); p != nil {
			r = JFloatsRes{V: []uint64{}, Panic: fmt.Sprint(p)}
		}
	}()
	return JFloatsRes{V: bitsOf(f())}
}

var aggGenomes []*genetics.Genome

func opExpAggregates(g *G) (interface{}, []uint64, int, interface{}) {
	if aggGenomes == nil {
		for _, n := range startGenomeFiles {
			aggGenomes = append(aggGenomes, loadStartGenome(n))
		}
	}
	maxT, maxG := 6, 8
	if g.thorough {
		maxT, maxG = 12, 25
	}
	in := &JExpIn{Trials: []JTrialIn{}, Family: "plain"}
	in.NilChamps = g.chance(0.15)
	tieProne := g.chance(0.3)
	if tieProne {
		in.Family = "tie-prone"
	}
	if in.NilChamps {
		in.Family += "/nil-champions"
	}
	nT := g.intn(maxT + 1)
	pSolved := []float64{0, 0.1, 0.4, 1}[g.intn(4)]
	realistic := g.chance(0.5) // solved only as the last generation of a trial
	exp := &experiment.Experiment{Id: 1, Name: "synthetic"}
	for t := 0; t < nT; t++ {
		nG := g.intn(maxG + 1)
		if g.chance(0.15) {
			nG = 0
		}
		trial := experiment.Trial{Id: t}
		jt := JTrialIn{Gens: []JGenIn{}}
		for k := 0; k < nG; k++ {
			gen := experiment.Generation{Id: k, TrialId: t}
			if realistic {
				gen.Solved = k == nG-1 && g.chance(pSolved)
			} else {
				gen.Solved = g.chance(pSolved * 0.5)
			}
			gen.Diversity = g.intn(6)
			if g.chance(0.1) {
				gen.Diversity = 0
			}
			mk := func(intValued bool) experiment.Floats {
				f := make(experiment.Floats, gen.Diversity)
				for i := range f {
					if intValued {
						f[i] = float64(1 + g.intn(30))
					} else {
						f[i] = dyadic(g)
					}
				}
				return f
			}
			gen.Fitness, gen.Age, gen.Complexity = mk(false), mk(true), mk(true)
			gen.WinnerNodes, gen.WinnerGenes, gen.WinnerEvals = g.intn(40), g.intn(80), g.intn(100000)
			jg := JGenIn{Solved: gen.Solved, Diversity: gen.Diversity, Fitness: bitsOf(gen.Fitness), Age: bitsOf(gen.Age),
				Complexity: bitsOf(gen.Complexity), WinnerNodes: gen.WinnerNodes, WinnerGenes: gen.WinnerGenes, WinnerEvals: gen.WinnerEvals}
			if !(in.NilChamps && g.chance(0.3)) {
				fit := dyadic(g)
				if tieProne {
					fit = float64(g.intn(3))
				}
				org, err := genetics.NewOrganism(fit, cloneGenome(aggGenomes[g.intn(len(aggGenomes))]), k)
				if err != nil {
					panic(err)
				}
				jc := &JChamp{Fitness: bits(fit)}
				if !g.chance(0.15) {
					org.Species = genetics.NewSpecies(1 + g.intn(9))
					org.Species.Age = 1 + g.intn(50)
					a := org.Species.Age
					jc.Age = &a
				}
				gen.Champion = org
				if c := gen.ChampionComplexity(); c != math.MaxInt {
					jc.Complexity = &c
				}
				jg.Champion = jc
			}
			trial.Generations = append(trial.Generations, gen)
			jt.Gens = append(jt.Gens, jg)
		}
		exp.Trials = append(exp.Trials, trial)
		in.Trials = append(in.Trials, jt)
	}

	out := &JExpOut{Trials: []JTrialOut{}}
	func() {
		defer func() {
			if p := recover(); p != nil {
				out.Panic = fmt.Sprint(p)
			}
		}()
		out.Solved = exp.Solved()
		out.TrialsSolved = exp.TrialsSolved()
		out.SuccessRate = bits(exp.SuccessRate())
		out.AvgDiversity = floatsRes(exp.AvgDiversity)
		out.EpochsPerTrial = floatsRes(exp.EpochsPerTrial)
		a, b, c, d := exp.AvgWinnerStatistics()
		out.AvgWinner = []uint64{bits(a), bits(b), bits(c), bits(d)}
		out.AvgGenerations = bits(exp.AvgGenerationsPerTrial())
	}()
	if !in.NilChamps {
		// Trial.BestOrganism sorts the champions: a nil champion is outside its contract
		out.BestFitness = floatsRes(exp.BestFitness)
		out.BestSpeciesAge = floatsRes(exp.BestSpeciesAge)
		out.BestComplexity = floatsRes(exp.BestComplexity)
	} else {
		out.BestFitness, out.BestSpeciesAge, out.BestComplexity = JFloatsRes{V: []uint64{}}, JFloatsRes{V: []uint64{}}, JFloatsRes{V: []uint64{}}
	}
	for i := range exp.Trials {
		t := &exp.Trials[i]
		jo := JTrialOut{Winner: []int{}}
		func() {
			defer func() {
				if p := recover(); p != nil {
					jo.Panic = fmt.Sprint(p)
				}
			}()
			jo.Solved = t.Solved()
			jo.Fitness = floatsRes(t.ChampionsFitness)
			jo.Ages = floatsRes(t.ChampionSpeciesAges)
			jo.Complex = floatsRes(t.ChampionsComplexities)
			jo.Diversity = floatsRes(t.Diversity)
			var af, aa, ac experiment.Floats
			r := floatsRes(func() experiment.Floats { af, aa, ac = t.Average(); return af })
			jo.AvgFitness = r
			jo.AvgAge = JFloatsRes{V: bitsOf(aa), Panic: r.Panic}
			jo.AvgComplex = JFloatsRes{V: bitsOf(ac), Panic: r.Panic}
			n, ge, ev, dv := t.WinnerStatistics()
			jo.Winner = []int{n, ge, ev, dv}
			// asked AGAIN after the recorded generations were reordered in place (Generations is a sort.Interface; with at
			// most one solved generation the winner does not depend on the order): the answer must not change
			nSolved := 0
			for k := range t.Generations {
				if t.Generations[k].Solved {
					nSolved++
				}
			}
			if nSolved <= 1 && len(t.Generations) >= 2 {
				rev := func() {
					for a, b := 0, len(t.Generations)-1; a < b; a, b = a+1, b-1 {
						t.Generations[a], t.Generations[b] = t.Generations[b], t.Generations[a]
					}
				}
				rev()
				n2, ge2, ev2, dv2 := t.WinnerStatistics()
				rev()
				if n2 != n || ge2 != ge || ev2 != ev || dv2 != dv {
					jo.Winner = []int{n2, ge2, ev2, dv2}
				}
			}
		}()
		out.Trials = append(out.Trials, jo)
	}
	return in, nil, 0, out
}
