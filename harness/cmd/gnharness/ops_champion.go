package main

// champQuery: the library's own champion queries on the species of real populations (spawned, after 0..2 real
// epochs, with assorted fitness landscapes): Species.FindChampion (public running maximum from -1.0), Species.Size,
// Organism.CheckChampionChildDamaged of every member, then Species.findChampion (sorts the member list in place,
// first element; index panic on an empty species).

import (
	"context"
	"math/rand"
	"sort"

	"github.com/yaricom/goNEAT/v4/neat"
	"github.com/yaricom/goNEAT/v4/neat/genetics"
)

func init() { register("champQuery", opChampQuery) }

type JChampSpecies struct {
	Public    *int    `json:"public"` // position of FindChampion's answer in the member list BEFORE sorting; nil = nil
	PubAlien  bool    `json:"publicAlien"`
	Size      int     `json:"size"`
	Damaged   []bool  `json:"damaged"`
	SortErr   *string `json:"sortErr"`
	SortChamp *int    `json:"sortChamp"` // position BEFORE sorting of findChampion's answer
	SortFirst bool    `json:"sortFirst"` // the answer is Organisms[0] after the call
	Order     []int   `json:"order"`     // positions BEFORE the call of the members, in the order AFTER it
	Max       uint64  `json:"max"`       // ComputeMaxAndAvgFitness on the member list before sorting
	Avg       uint64  `json:"avg"`
}

type JChampOut struct {
	Species []JChampSpecies `json:"species"`
	After   *JPop           `json:"after"`
	ByFit   []int           `json:"byFit"`     // species positions in the order after sort.Sort(ByOrganismFitness(copy))
	ByFitRv []int           `json:"byFitDesc"` // ... after sort.Sort(sort.Reverse(ByOrganismFitness(copy)))
}

func opChampQuery(g *G) (interface{}, []uint64, int, interface{}) {
	sc := newScenario(g)
	if sc == nil {
		return nil, nil, 0, nil
	}
	pop, opts := sc.pop, sc.opts
	epochs := g.intn(3)
	done := 0
	for e := 0; e < epochs; e++ {
		assignFitness(g, pop, landscapes[g.intn(len(landscapes))])
		rand.Seed(g.seed63())
		ok := func() (ok bool) {
			defer func() {
				if recover() != nil {
					ok = false
				}
			}()
			ex := &genetics.SequentialPopulationEpochExecutor{}
			return ex.NextEpoch(neat.NewContext(context.Background(), opts), e+1, pop) == nil
		}()
		if !ok {
			return nil, nil, 0, nil
		}
		done++
	}
	all := append(append([]string{}, landscapes...), fillLandscapes...)
	landscape := all[g.intn(len(all))]
	assignFillFitness(g, pop, landscape)
	// values around the start value -1.0 of the public query, and the flags CheckChampionChildDamaged reads
	variant := "plain"
	switch c := g.intn(10); {
	case c == 0:
		variant = "aroundMinusOne"
		vals := []float64{-1, -1.0000000000000002, -0.9999999999999999, -2, -0.5, 0, -1}
		for _, o := range pop.Organisms {
			o.Fitness = vals[g.intn(len(vals))]
		}
	case c == 1:
		variant = "allBelow"
		for _, o := range pop.Organisms {
			o.Fitness = -1 - g.f64()*3
		}
	case c == 2 && len(pop.Species) > 0:
		variant = "emptySpecies"
		pop.Species[g.intn(len(pop.Species))].Organisms = nil
	}
	for _, o := range pop.Organisms {
		if g.chance(0.4) {
			st := genetics.VerifOrganismState_(o)
			st.IsPopulationChampionChild = g.chance(0.6)
			switch g.intn(3) {
			case 0:
				st.HighestFitness = o.Fitness
			case 1:
				st.HighestFitness = o.Fitness + g.f64()
			default:
				st.HighestFitness = o.Fitness - g.f64()
			}
			genetics.VerifSetOrganismState(o, st)
		}
	}
	before := dumpPop(pop)
	out := &JChampOut{Species: []JChampSpecies{}}
	for _, sp := range pop.Species {
		js := JChampSpecies{Damaged: []bool{}, Order: []int{}}
		posBefore := map[*genetics.Organism]int{}
		for oi, o := range sp.Organisms {
			posBefore[o] = oi
			js.Damaged = append(js.Damaged, o.CheckChampionChildDamaged())
		}
		js.Size = sp.Size()
		mx, av := sp.ComputeMaxAndAvgFitness()
		js.Max, js.Avg = bits(mx), bits(av)
		if c := sp.FindChampion(); c != nil {
			if q, ok := posBefore[c]; ok {
				js.Public = &q
			} else {
				js.PubAlien = true
			}
		}
		var pan interface{}
		var champ *genetics.Organism
		func() {
			defer func() { pan = recover() }()
			champ = genetics.VerifFindChampion(sp)
		}()
		js.SortErr = errClass(nil, pan)
		if pan == nil && champ != nil {
			if q, ok := posBefore[champ]; ok {
				js.SortChamp = &q
			}
			js.SortFirst = len(sp.Organisms) > 0 && sp.Organisms[0] == champ
		}
		for _, o := range sp.Organisms {
			js.Order = append(js.Order, posBefore[o])
		}
		out.Species = append(out.Species, js)
	}
	out.After = dumpPop(pop)
	spPos := map[*genetics.Species]int{}
	for i, sp := range pop.Species {
		spPos[sp] = i
	}
	asc := append([]*genetics.Species{}, pop.Species...)
	sort.Sort(genetics.ByOrganismFitness(asc))
	desc := append([]*genetics.Species{}, pop.Species...)
	sort.Sort(sort.Reverse(genetics.ByOrganismFitness(desc)))
	out.ByFit, out.ByFitRv = []int{}, []int{}
	for _, sp := range asc {
		out.ByFit = append(out.ByFit, spPos[sp])
	}
	for _, sp := range desc {
		out.ByFitRv = append(out.ByFitRv, spPos[sp])
	}
	in := map[string]interface{}{"pop": before, "landscape": landscape, "variant": variant, "epochs": done, "origin": sc.origin}
	return in, nil, 0, out
}
