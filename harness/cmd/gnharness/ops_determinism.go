package main

// C17: twin runs of the REAL code.  One case = one scenario (start genome, options, deterministic fitness
// function, seed) executed three times:
//   A  plainly, in this process;
//   B  in this process again, AFTER run A and after unrelated work (garbage, map churn, goroutines that allocate),
//      with a different GOMAXPROCS, an aggressive GC setting and a forced collection before every epoch;
//   C  in a FRESH process (this executable re-invoked with op `twinChild`), different GOMAXPROCS / GOGC, so that
//      addresses, map seeds and start-up time differ.
// Each run = rand.Seed(seed); NewPopulation; k epochs of the sequential executor, fitness assigned before every
// epoch by a deterministic function of the genome.  After spawn and after every epoch the population is serialised
// (canonical dump incl. every float64 bit pattern, flags, registry, species) and the three serialisations must be
// identical byte for byte.

import (
	"context"
	"crypto/sha256"
	"encoding/hex"
	"encoding/json"
	"fmt"
	"math"
	"math/rand"
	"os"
	"os/exec"
	"runtime"
	"runtime/debug"
	"strings"
	"sync"

	"github.com/yaricom/goNEAT/v4/neat"
	"github.com/yaricom/goNEAT/v4/neat/genetics"
)

func init() {
	register("twinRun", opTwinRun)
	register("twinChild", opTwinChild)
}

// twinSpec is everything a run depends on (the scenario is regenerated from `ScenarioSeed` by a private generator)
type twinSpec struct {
	ScenarioSeed int64 `json:"scenarioSeed"`
	RunSeed      int64 `json:"runSeed"`
	Epochs       int   `json:"epochs"`
	Thorough     bool  `json:"thorough"`
	Big          bool  `json:"big"` // a population of several hundred organisms (few epochs)
}

type twinScenario struct {
	opts    *neat.Options
	start   *genetics.Genome
	origin  string
	fitKind int
}

func buildTwinScenario(spec twinSpec) *twinScenario {
	sg := newG(spec.ScenarioSeed, "twinScenario", spec.Thorough)
	opts := popOpts(sg)
	if spec.Big {
		opts.PopSize = 512 + sg.intn(400)
	}
	sc := &twinScenario{opts: opts}
	if sg.chance(0.7) {
		sc.origin = startGenomeFiles[sg.intn(len(startGenomeFiles))]
		sc.start = loadStartGenome(sc.origin)
	} else {
		sc.origin = "hand"
		sc.start = handGenome(sg, 0)
	}
	sc.fitKind = sg.intn(4)
	return sc
}

// deterministic fitness: a function of the genome (and the generation) only
func twinFitness(kind int, generation int, gn *genetics.Genome) float64 {
	acc := 0.0
	for i, gene := range gn.Genes {
		w := gene.Link.ConnectionWeight
		if gene.IsEnabled {
			acc += math.Abs(w) * float64(1+(i+int(gene.InnovationNum))%7)
		} else {
			acc += 0.25
		}
	}
	acc += float64(len(gn.Nodes)) * 0.5
	switch kind {
	case 0:
		return 0.01 + math.Mod(acc, 10)
	case 1:
		return math.Floor(math.Mod(acc, 4)) // quantised: many ties
	case 2:
		return 0.001 + math.Mod(acc*float64(1+generation%3), 100)
	default:
		return 1 / (1 + math.Mod(acc, 13))
	}
}

func serialisePop(p *genetics.Population) []byte {
	b, err := json.Marshal(dumpPop(p))
	if err != nil {
		panic(err)
	}
	return b
}

type twinResult struct {
	Hashes  []string `json:"hashes"` // after spawn, then after every epoch
	Sizes   []int    `json:"sizes"`
	Err     *string  `json:"err"`
	ErrAt   int      `json:"errAt"`
	Species int      `json:"species"`
	NextInn int64    `json:"nextInn"`
	raw     [][]byte
}

// runTwin executes the scenario once; `between` is called before every epoch (perturbation hook)
func runTwin(spec twinSpec, between func()) twinResult { return runTwinPrep(spec, between, nil) }

// usedOptions: the Options VALUE of the run already served other work with OTHER activator probabilities, which were
// then set back in place (a parameter sweep reusing one Options object): identical inputs as far as any field says
func usedOptions(o *neat.Options) {
	n := len(o.NodeActivatorsProb)
	if n < 2 || len(o.NodeActivators) != n {
		return
	}
	saved := append([]float64{}, o.NodeActivatorsProb...)
	for i := range o.NodeActivatorsProb {
		o.NodeActivatorsProb[i] = saved[(i+1)%n]*0.5 + 0.01*float64(i)
	}
	for k := 0; k < 4; k++ {
		_, _ = o.RandomNodeActivationType()
	}
	copy(o.NodeActivatorsProb, saved)
}

func runTwinPrep(spec twinSpec, between func(), prep func(*neat.Options)) twinResult {
	sc := buildTwinScenario(spec)
	res := twinResult{ErrAt: -1}
	if prep != nil {
		prep(sc.opts)
	}
	rand.Seed(spec.RunSeed)
	pop, err := genetics.NewPopulation(sc.start, sc.opts)
	if err != nil {
		res.Err = errClass(err, nil)
		return res
	}
	note := func() {
		b := serialisePop(pop)
		h := sha256.Sum256(b)
		res.Hashes = append(res.Hashes, hex.EncodeToString(h[:]))
		res.Sizes = append(res.Sizes, len(b))
		res.raw = append(res.raw, b)
	}
	note()
	ctx := neat.NewContext(context.Background(), sc.opts)
	ex := &genetics.SequentialPopulationEpochExecutor{}
	for e := 0; e < spec.Epochs; e++ {
		if between != nil {
			between()
		}
		generation := e + 1
		for _, o := range pop.Organisms {
			o.Fitness = twinFitness(sc.fitKind, generation, o.Genotype)
		}
		var pan interface{}
		func() {
			defer func() { pan = recover() }()
			err = ex.NextEpoch(ctx, generation, pop)
		}()
		if err != nil || pan != nil {
			res.Err = errClass(err, pan)
			res.ErrAt = e
			break
		}
		note()
	}
	res.Species = len(pop.Species)
	res.NextInn = genetics.VerifPopNextInnovNum(pop)
	return res
}

// unrelated work: garbage of many sizes, map churn, goroutines that allocate; none of it touches the global
// math/rand source (that would legitimately change the stream the evolution consumes)
var churnSink interface{}

func churn(r *rand.Rand, stop chan struct{}, wg *sync.WaitGroup) {
	m := map[string][]byte{}
	for i := 0; i < 4000; i++ {
		k := fmt.Sprintf("k%d", r.Intn(1000))
		if r.Intn(3) == 0 {
			delete(m, k)
		} else {
			m[k] = make([]byte, 1+r.Intn(4096))
		}
	}
	sum := 0
	for k, v := range m { // map iteration order differs from run to run
		sum += len(k) + len(v)
	}
	churnSink = []interface{}{m, sum}
	for w := 0; w < 3; w++ {
		wg.Add(1)
		seed := r.Int63()
		go func() {
			defer wg.Done()
			lr := rand.New(rand.NewSource(seed))
			keep := make([][]byte, 0, 64)
			for {
				select {
				case <-stop:
					return
				default:
				}
				keep = append(keep, make([]byte, 16+lr.Intn(1<<14)))
				if len(keep) > 64 {
					keep = keep[32:]
				}
				runtime.Gosched()
			}
		}()
	}
}

func firstDiff(a, b []byte) string {
	n := len(a)
	if len(b) < n {
		n = len(b)
	}
	for i := 0; i < n; i++ {
		if a[i] != b[i] {
			lo := i - 60
			if lo < 0 {
				lo = 0
			}
			hi := i + 60
			ha, hb := hi, hi
			if ha > len(a) {
				ha = len(a)
			}
			if hb > len(b) {
				hb = len(b)
			}
			return fmt.Sprintf("byte %d: …%s… vs …%s…", i, string(a[lo:ha]), string(b[lo:hb]))
		}
	}
	return fmt.Sprintf("lengths %d vs %d", len(a), len(b))
}

func opTwinRun(g *G) (interface{}, []uint64, int, interface{}) {
	spec := twinSpec{ScenarioSeed: g.seed63(), RunSeed: g.seed63(), Epochs: 3 + g.intn(6), Thorough: g.thorough}
	if g.thorough {
		spec.Epochs = 10 + g.intn(51)
	}
	// sizes at which an implementation might switch strategy (block-wise / per-processor work): few epochs, and the
	// perturbed twin runs on few processors while this one runs on all
	big := g.chance(0.1)
	if big {
		spec.Big = true
		spec.Epochs = 1 + g.intn(2)
	}
	// A: plain
	a := runTwin(spec, nil)
	// B: same process, perturbed
	priv := rand.New(rand.NewSource(g.seed63()))
	procsB := procChoices[g.intn(len(procChoices))]
	if big {
		procsB = 1 + g.intn(3)
	}
	prevProcs := runtime.GOMAXPROCS(procsB)
	prevGC := debug.SetGCPercent(5)
	stop := make(chan struct{})
	var wg sync.WaitGroup
	churn(priv, stop, &wg)
	// "earlier unrelated work in the process" may have left the library's process-global logger at another level: run B
	// under a different global log level than run A (the log sinks are silenced; the options handed in are identical)
	prevLevel, prevDebug, prevInfo, prevWarn := neat.LogLevel, neat.DebugLog, neat.InfoLog, neat.WarnLog
	neat.DebugLog, neat.InfoLog, neat.WarnLog = func(string) {}, func(string) {}, func(string) {}
	neat.LogLevel = []neat.LoggerLevel{neat.LogLevelDebug, neat.LogLevelInfo, neat.LogLevelError}[priv.Intn(3)]
	defer func() {
		neat.LogLevel, neat.DebugLog, neat.InfoLog, neat.WarnLog = prevLevel, prevDebug, prevInfo, prevWarn
	}()
	b := runTwinPrep(spec, func() {
		churnSink = make([]byte, 1+priv.Intn(1<<16))
		runtime.GC()
	}, usedOptions)
	close(stop)
	wg.Wait()
	debug.SetGCPercent(prevGC)
	runtime.GOMAXPROCS(prevProcs)
	// C: fresh process
	procsC := procChoices[g.intn(len(procChoices))]
	var c twinResult
	childErr := ""
	specJSON, _ := json.Marshal(spec)
	if exe, err := os.Executable(); err != nil {
		childErr = "os.Executable: " + err.Error()
	} else {
		cmd := exec.Command(exe, "-ops", "twinChild", "-n", "1", "-seed", "1")
		cmd.Env = append(os.Environ(), "VERIF_TWIN_SPEC="+string(specJSON), fmt.Sprintf("GOMAXPROCS=%d", procsC), "GOGC=20",
			fmt.Sprintf("VERIF_TWIN_PAD=%s", strings.Repeat("x", g.intn(4096)))) // environment size shifts the initial stack/heap layout
		outb, err := cmd.Output()
		if err != nil {
			childErr = "child failed: " + err.Error()
		} else {
			var line struct {
				Out twinResult `json:"out"`
			}
			if err := json.Unmarshal(outb, &line); err != nil {
				childErr = "child output: " + err.Error()
			} else {
				c = line.Out
			}
		}
	}
	diff := ""
	cmp := func(name string, x twinResult, haveRaw bool) {
		if diff != "" {
			return
		}
		if (a.Err == nil) != (x.Err == nil) || (a.Err != nil && *a.Err != *x.Err) || a.ErrAt != x.ErrAt {
			diff = fmt.Sprintf("run %s: error behaviour differs (A: %v at %d, %s: %v at %d)", name, strp(a.Err), a.ErrAt, name, strp(x.Err), x.ErrAt)
			return
		}
		if len(a.Hashes) != len(x.Hashes) {
			diff = fmt.Sprintf("run %s: %d serialisations vs %d", name, len(x.Hashes), len(a.Hashes))
			return
		}
		for i := range a.Hashes {
			if a.Hashes[i] != x.Hashes[i] {
				where := "after spawn"
				if i > 0 {
					where = fmt.Sprintf("after epoch %d", i)
				}
				d := fmt.Sprintf("sizes %d vs %d", a.Sizes[i], x.Sizes[i])
				if haveRaw {
					d = firstDiff(a.raw[i], x.raw[i])
				}
				diff = fmt.Sprintf("run %s differs from run A %s: %s", name, where, d)
				return
			}
		}
	}
	cmp("B(perturbed, same process)", b, true)
	if childErr == "" {
		cmp("C(fresh process)", c, false)
	}
	sc := buildTwinScenario(spec)
	in := map[string]interface{}{"spec": spec, "origin": sc.origin, "popSize": sc.opts.PopSize, "fitKind": sc.fitKind,
		"procsB": procsB, "procsC": procsC}
	out := map[string]interface{}{"hashesA": a.Hashes, "hashesB": b.Hashes, "hashesC": c.Hashes, "err": a.Err, "errAt": a.ErrAt,
		"childErr": childErr, "diff": diff, "species": a.Species, "nextInn": a.NextInn, "bytes": a.Sizes}
	return in, nil, 0, out
}

func strp(s *string) string {
	if s == nil {
		return "<nil>"
	}
	return *s
}

// opTwinChild: run C. The scenario comes through the environment; prints the hashes as the case's "out".
func opTwinChild(g *G) (interface{}, []uint64, int, interface{}) {
	var spec twinSpec
	if err := json.Unmarshal([]byte(os.Getenv("VERIF_TWIN_SPEC")), &spec); err != nil {
		return map[string]interface{}{"error": "no VERIF_TWIN_SPEC"}, nil, 0, twinResult{ErrAt: -1}
	}
	// a little start-up noise of its own
	priv := rand.New(rand.NewSource(int64(os.Getpid())))
	stop := make(chan struct{})
	var wg sync.WaitGroup
	churn(priv, stop, &wg)
	r := runTwin(spec, func() { runtime.GC() })
	close(stop)
	wg.Wait()
	return map[string]interface{}{"spec": spec}, nil, 0, r
}
