package main

// op quotaShift: the two quota redistributions of the preparation phase - Population.giveBabiesToTheBest and
// Population.deltaCoding - run directly (hooks VerifGiveBabiesToTheBest / VerifDeltaCoding) on real populations whose
// species got synthetic ages / quotas, so that states a short evolution rarely reaches (partly filled stolen pool,
// stagnant top species, odd population sizes, quota 1 and 2 species) are frequent.  (C09, C02)

import (
	"math/rand"

	"github.com/yaricom/goNEAT/v4/neat/genetics"
)

func init() { register("quotaShift", opQuotaShift) }

func opQuotaShift(g *G) (interface{}, []uint64, int, interface{}) {
	opts := popOpts(g)
	// many species
	switch g.intn(3) {
	case 0:
		opts.CompatThreshold = 0.05 + g.f64()*0.2
	case 1:
		opts.CompatThreshold = 0.3 + g.f64()
	}
	if opts.PopSize < 6 {
		opts.PopSize = 6 + g.intn(20)
	}
	start := handGenome(g, 0)
	if g.chance(0.5) {
		start = loadStartGenome(startGenomeFiles[g.intn(len(startGenomeFiles))])
	}
	rand.Seed(g.seed63())
	pop, err := genetics.NewPopulation(start, opts)
	if err != nil || len(pop.Species) == 0 {
		return nil, nil, 0, nil
	}
	// synthetic bookkeeping: ages, last improvement, quotas (non-negative; total = PopSize most of the time)
	n := len(pop.Species)
	left := opts.PopSize
	for i, sp := range pop.Species {
		sp.Age = 1 + g.intn(25)
		if g.chance(0.5) {
			sp.Age = 6 + g.intn(10) // old enough to be robbed
		}
		sp.AgeOfLastImprovement = g.intn(sp.Age + 1)
		sp.IsNovel = false
		q := 0
		if i == n-1 {
			q = left
		} else if left > 0 {
			q = g.intn(left + 1)
			if g.chance(0.5) {
				q = g.intn(left/(n-i) + 2)
			}
			if q > left {
				q = left
			}
		}
		left -= q
		sp.ExpectedOffspring = q
	}
	if g.chance(0.15) { // totals other than PopSize: the functions must conserve / fix whatever they get
		pop.Species[g.intn(n)].ExpectedOffspring += g.intn(4)
	}
	kind := "giveBabies"
	if g.chance(0.35) {
		kind = "deltaCoding"
	}
	switch g.intn(4) {
	case 0:
		opts.BabiesStolen = 1 + g.intn(6)
	case 1:
		opts.BabiesStolen = opts.PopSize/2 + g.intn(opts.PopSize)
	default:
		opts.BabiesStolen = 1 + g.intn(opts.PopSize+1)
	}
	// the order in which the species are handed over (the executor passes them sorted by fitness; any order is legal input)
	order := g.gr.Perm(n)
	sorted := make([]*genetics.Species, n)
	ids := make([]int, n)
	for i, k := range order {
		sorted[i] = pop.Species[k]
		ids[i] = pop.Species[k].Id
	}
	before := dumpPop(pop)
	var pan interface{}
	stream, consumed := withSeed(g.seed63(), func() {
		defer func() { pan = recover() }()
		if kind == "deltaCoding" {
			genetics.VerifDeltaCoding(pop, sorted, opts)
		} else {
			genetics.VerifGiveBabiesToTheBest(pop, sorted, opts)
		}
	})
	out := map[string]interface{}{"err": errClass(nil, pan), "pop": dumpPop(pop)}
	in := map[string]interface{}{"pop": before, "opts": dumpEpochOpts(opts), "kind": kind, "order": ids}
	return in, stream, consumed, out
}
