package main

// expTimes: the time / duration aggregates of the result records and the orders they are sorted by, on generated
// experiments: Trial.AvgEpochDuration, Trial.RecentEpochEvalTime, Experiment.AvgTrialDuration, AvgEpochDuration,
// MostRecentTrialEvalTime, and sort.Sort on Generations / Trials / Experiments (their Less methods).
// Instants cross the protocol as (seconds, nanoseconds) relative to the zero time.Time{}.

import (
	"sort"
	"strconv"
	"time"

	"github.com/yaricom/goNEAT/v4/experiment"
)

func init() { register("expTimes", opExpTimes) }

type JInstant struct {
	S int64 `json:"s"`
	N int64 `json:"n"`
}

type JTGen struct {
	Id       int      `json:"id"`
	Executed JInstant `json:"executed"`
	Duration int64    `json:"duration"`
}

type JTTrial struct {
	Id       int     `json:"id"`
	Gens     []JTGen `json:"gens"`
	Duration int64   `json:"duration"`
}

type JTExp struct {
	Id     int       `json:"id"`
	Trials []JTTrial `json:"trials"`
}

type JTExpOut struct {
	TrialAvg    []int64    `json:"trialAvg"`
	TrialRecent []JInstant `json:"trialRecent"`
	AvgTrial    int64      `json:"avgTrial"`
	AvgEpoch    int64      `json:"avgEpoch"`
	MostRecent  JInstant   `json:"mostRecent"`
	GenOrder    [][]int    `json:"genOrder"`   // per trial: positions before sort.Sort of the generations, in the order after it
	TrialOrder  []int      `json:"trialOrder"` // positions before sort.Sort(Trials) in the order after it
}

var zeroUnix = time.Time{}.Unix()

func instantOf(t time.Time) JInstant { return JInstant{S: t.Unix() - zeroUnix, N: int64(t.Nanosecond())} }

func genInstant(g *G, pool []time.Time) time.Time {
	switch c := g.intn(12); {
	case c == 0:
		return time.Time{}
	case c == 1:
		// before the zero time
		return time.Time{}.Add(-time.Duration(1+g.intn(5000)) * time.Millisecond)
	case c == 2:
		return time.Time{}.Add(time.Duration(g.intn(3)) * time.Nanosecond)
	case c < 7 && len(pool) > 0:
		return pool[g.intn(len(pool))] // exact ties
	case c == 7:
		// the same instant in another location: Equal / Before compare instants
		t := time.Unix(1700000000+int64(g.intn(1000)), int64(g.intn(1000000000)))
		return t.In(time.FixedZone("x", 3600*(g.intn(24)-12)))
	default:
		return time.Unix(1600000000+int64(g.intn(200000000)), int64(g.intn(4))*250000000+int64(g.intn(3))).UTC()
	}
}

func genDuration(g *G) time.Duration {
	switch c := g.intn(10); {
	case c == 0:
		return 0
	case c == 1:
		return -time.Duration(1 + g.intn(1000000)) // a clock that went backwards: truncation towards zero shows
	case c < 5:
		return time.Duration(1 + g.intn(10))
	default:
		return time.Duration(g.intn(2000000000))
	}
}

func buildTExp(g *G, id int, pool *[]time.Time) (*experiment.Experiment, JTExp) {
	nt := g.intn(6)
	if g.chance(0.1) {
		nt = 13 + g.intn(8) // pdqsort path of sort.Sort
	}
	e := &experiment.Experiment{Id: id, Name: strconv.Itoa(id), Trials: experiment.Trials{}}
	j := JTExp{Id: id, Trials: []JTTrial{}}
	for ti := 0; ti < nt; ti++ {
		tid := ti
		if g.chance(0.3) {
			tid = g.intn(4) // equal ids
		}
		ng := g.intn(6)
		if g.chance(0.1) {
			ng = 13 + g.intn(12)
		}
		tr := experiment.Trial{Id: tid, Duration: genDuration(g), Generations: experiment.Generations{}}
		jt := JTTrial{Id: tid, Duration: int64(tr.Duration), Gens: []JTGen{}}
		for gi := 0; gi < ng; gi++ {
			gid := gi
			if g.chance(0.3) {
				gid = g.intn(4)
			}
			ex := genInstant(g, *pool)
			*pool = append(*pool, ex)
			gen := experiment.Generation{Id: gid, Executed: ex, Duration: genDuration(g), TrialId: tid}
			tr.Generations = append(tr.Generations, gen)
			jt.Gens = append(jt.Gens, JTGen{Id: gid, Executed: instantOf(ex), Duration: int64(gen.Duration)})
		}
		e.Trials = append(e.Trials, tr)
		j.Trials = append(j.Trials, jt)
	}
	return e, j
}

func opExpTimes(g *G) (interface{}, []uint64, int, interface{}) {
	pool := []time.Time{}
	ne := 1 + g.intn(4)
	if g.chance(0.08) {
		ne = 13 + g.intn(5)
	}
	exps := []*experiment.Experiment{}
	jin := []JTExp{}
	for i := 0; i < ne; i++ {
		id := i
		if g.chance(0.3) {
			id = g.intn(3)
		}
		e, j := buildTExp(g, id, &pool)
		exps = append(exps, e)
		jin = append(jin, j)
	}
	outs := []JTExpOut{}
	for _, e := range exps {
		o := JTExpOut{TrialAvg: []int64{}, TrialRecent: []JInstant{}, GenOrder: [][]int{}, TrialOrder: []int{}}
		for i := range e.Trials {
			o.TrialAvg = append(o.TrialAvg, int64(e.Trials[i].AvgEpochDuration()))
			o.TrialRecent = append(o.TrialRecent, instantOf(e.Trials[i].RecentEpochEvalTime()))
		}
		o.AvgTrial = int64(e.AvgTrialDuration())
		o.AvgEpoch = int64(e.AvgEpochDuration())
		o.MostRecent = instantOf(e.MostRecentTrialEvalTime())
		outs = append(outs, o)
	}
	// the orders: experiments first (their keys read the unsorted trials), then trials, then generations of copies
	sorted := experiment.Experiments{}
	for i, e := range exps {
		c := *e
		c.Name = strconv.Itoa(i) // position tag (not read by the order)
		sorted = append(sorted, c)
	}
	sort.Sort(sorted)
	expOrder := []int{}
	for _, e := range sorted {
		k, _ := strconv.Atoi(e.Name)
		expOrder = append(expOrder, k)
	}
	for ei, e := range exps {
		// tag every record with its position (TrialId / WinnerEvals are not read by the orders)
		ts := append(experiment.Trials{}, e.Trials...)
		for ti := range ts {
			gs := append(experiment.Generations{}, ts[ti].Generations...)
			for gi := range gs {
				gs[gi].WinnerEvals = gi
			}
			sort.Sort(gs)
			ord := []int{}
			for _, x := range gs {
				ord = append(ord, x.WinnerEvals)
			}
			outs[ei].GenOrder = append(outs[ei].GenOrder, ord)
		}
		tagged := append(experiment.Trials{}, e.Trials...)
		for ti := range tagged {
			tagged[ti].WinnerGeneration = &experiment.Generation{WinnerEvals: ti}
		}
		sort.Sort(tagged)
		for _, x := range tagged {
			outs[ei].TrialOrder = append(outs[ei].TrialOrder, x.WinnerGeneration.WinnerEvals)
		}
	}
	in := map[string]interface{}{"exps": jin}
	out := map[string]interface{}{"exps": outs, "expOrder": expOrder}
	return in, nil, 0, out
}
