package main

// C16: the REAL ParallelPopulationEpochExecutor over several consecutive epochs.  One case = one run:
// scenario population (spawned by the real NewPopulation), k parallel epochs, the population dumped before every
// epoch (= after the previous one, with the new fitness values) and after the last one.  The driver evaluates the
// population guarantees on every dumped population and the innovation-number consistency accumulated over ALL
// organisms of ALL generations of the run.  The outcome of a parallel epoch depends on the schedule (arrival
// order of the species' results) — nothing is compared with a sequential run; only the stated guarantees are demanded.

import (
	"context"
	"encoding/json"
	"fmt"
	"math/rand"
	"runtime"

	"github.com/yaricom/goNEAT/v4/neat"
	"github.com/yaricom/goNEAT/v4/neat/genetics"
)

func init() {
	register("parEpochs", opParEpochs)
}

var procChoices = []int{1, 2, 3, 4, 8, 16}

func opParEpochs(g *G) (interface{}, []uint64, int, interface{}) {
	opts := popOpts(g)
	// species-count classes: one species … every organism its own species
	speciesClass := []string{"one", "each", "mid", "mid", "few"}[g.caseNo%5]
	switch speciesClass {
	case "one":
		opts.CompatThreshold = 1e6
	case "each":
		opts.CompatThreshold = 1e-9
		if opts.DisjointCoeff == 0 && opts.ExcessCoeff == 0 && opts.MutdiffCoeff == 0 {
			opts.MutdiffCoeff = 1
		}
	case "few":
		opts.CompatThreshold = 2 + g.f64()*6
	}
	if g.chance(0.6) {
		// many structural mutations in the same epoch (several goroutines inside the registry at once)
		opts.MutateOnlyProb = 0.5 + g.f64()*0.5
		opts.MutateAddNodeProb = 0.2 + g.f64()*0.5
		opts.MutateAddLinkProb = 0.3 + g.f64()*0.6
	}
	opts.EpochExecutorType = neat.EpochExecutorTypeParallel
	if g.caseNo%8 == 3 {
		opts.DropOffAge = 1 + g.intn(3)
		if opts.PopSize < 12 {
			opts.PopSize = 12 + g.intn(20)
		}
		if speciesClass == "one" {
			opts.CompatThreshold = 0.5 + g.f64()*3
		}
	}
	var start *genetics.Genome
	origin := ""
	if g.chance(0.7) {
		origin = startGenomeFiles[g.intn(len(startGenomeFiles))]
		start = loadStartGenome(origin)
	} else {
		origin = "hand"
		start = handGenome(g, 0)
	}
	if len(start.ControlGenes) > 0 {
		return nil, nil, 0, nil // the wire format between the goroutines has no syntax for modules (property text)
	}
	rand.Seed(g.seed63())
	pop, err := genetics.NewPopulation(start, opts)
	if err != nil {
		return nil, nil, 0, nil
	}
	k := 3 + g.intn(4)
	if g.thorough {
		k = 4 + g.intn(12)
	}
	// population-level stagnation long enough for delta coding under the parallel executor, with several species alive
	// (seeded C02-K: a species whose quota delta coding set to zero delivers no babies)
	stagnant := g.caseNo%8 == 3
	procs := procChoices[g.intn(len(procChoices))]
	prev := runtime.GOMAXPROCS(procs)
	defer runtime.GOMAXPROCS(prev)
	landscape := landscapes[g.intn(len(landscapes))]
	if stagnant {
		k = opts.DropOffAge + 7 + g.intn(3)
		landscape = []string{"constant", "zero", "plateaus"}[g.intn(3)]
		origin += "+stagnant"
	}
	ctx := neat.NewContext(context.Background(), opts)
	ex := &genetics.ParallelPopulationEpochExecutor{}
	pops := []*JPop{}
	fresh := []string{}
	verify := []*string{}
	var epochErr *string
	errAt := -1
	generation := 1
	rand.Seed(g.seed63())
	for e := 0; e < k; e++ {
		if g.chance(0.15) && !stagnant {
			landscape = landscapes[g.intn(len(landscapes))]
		}
		assignFitness(g, pop, landscape)
		pops = append(pops, dumpPop(pop))
		old := append([]*genetics.Organism{}, pop.Organisms...)
		oldSnap := snapshotGenomes(old)
		nSpeciesBefore := len(pop.Species)
		var pan interface{}
		var err error
		func() {
			defer func() { pan = recover() }()
			err = ex.NextEpoch(ctx, generation, pop)
		}()
		if err != nil || pan != nil {
			epochErr = errClass(err, pan)
			errAt = e
			break
		}
		fr := generationFresh(old, pop)
		if fr == "" && nSpeciesBefore >= 2 && opts.InterspeciesMateRate > 0 {
			// the old generation is shared, read-only input of all reproduction goroutines (every goroutine may draw
			// a dad from any other species): a genome of it that was written during reproduction is a data race
			// under some schedule and draw
			fr = oldGenerationModified(oldSnap, old)
		}
		fresh = append(fresh, fr)
		var v *string
		if ok, verr := safeVerify(pop); !ok || verr != nil {
			v = errStr(verr)
			if v == nil {
				s := "Verify returned false"
				v = &s
			}
		}
		verify = append(verify, v)
		generation++
		if v != nil {
			break // an ill-formed population is not turned over again (the next epoch would crash inside a goroutine)
		}
	}
	if epochErr == nil {
		pops = append(pops, dumpPop(pop))
	}
	in := map[string]interface{}{"opts": dumpEpochOpts(opts), "origin": origin, "procs": procs, "epochs": k,
		"speciesClass": speciesClass, "landscape": landscape}
	out := map[string]interface{}{"pops": pops, "fresh": fresh, "verify": verify, "err": epochErr, "errAt": errAt}
	return in, nil, 0, out
}

// snapshotGenomes: canonical dumps of the genomes of a generation (taken before the turnover)
func snapshotGenomes(orgs []*genetics.Organism) []string {
	r := make([]string, len(orgs))
	for i, o := range orgs {
		b, _ := json.Marshal(dumpGenome(o.Genotype))
		r[i] = string(b)
	}
	return r
}

func oldGenerationModified(snap []string, orgs []*genetics.Organism) string {
	for i, o := range orgs {
		b, _ := json.Marshal(dumpGenome(o.Genotype))
		if string(b) != snap[i] {
			return fmt.Sprintf("genome %d of the previous generation (shared by the reproduction goroutines) was written during the parallel turnover", o.Genotype.Id)
		}
	}
	return ""
}
