package main

import (
	"math/rand"

	"github.com/yaricom/goNEAT/v4/neat"
	"github.com/yaricom/goNEAT/v4/neat/genetics"
	"github.com/yaricom/goNEAT/v4/neat/network"
)

func init() {
	register("duplicate", opDuplicate)
	register("dupThenMutate", opDupThenMutate)
	register("compat", opCompat)
	register("geneInsert", opGeneInsert)
	register("nodeInsert", opNodeInsert)
}

// anyGenome draws a genome from all generator families (DESIGN §2.7)
func anyGenome(g *G) (*genetics.Genome, string) {
	switch c := g.intn(20); {
	case c < 9:
		p := g.poolOf(6)
		return p.pick(g), "evolved:" + p.origin
	case c < 12:
		return handGenome(g, g.intn(100)), "hand"
	case c < 14:
		name := startGenomeFiles[g.intn(len(startGenomeFiles))]
		return loadStartGenome(name), "file:" + name
	case c < 16:
		if g.chance(0.5) {
			// hand-built modular genome whose module wires carry recurrence flags and traits (the YAML reader only
			// makes plain wires of weight 1)
			gn := handGenome(g, g.intn(100))
			for k := 1 + g.intn(2); k > 0; k-- {
				addModule(g, gn, g.chance(0.7), false)
			}
			for _, cg := range gn.ControlGenes {
				for _, l := range append(append([]*network.Link{}, cg.ControlNode.Incoming...), cg.ControlNode.Outgoing...) {
					if g.chance(0.3) {
						l.IsRecurrent = !l.IsRecurrent
					}
					if g.chance(0.3) && len(gn.Traits) > 0 {
						l.Trait = gn.Traits[g.intn(len(gn.Traits))]
					}
				}
			}
			return gn, "modular:hand"
		}
		return loadYamlGenome("test_seed_genome.yml"), "modular"
	case c < 17:
		return loadYamlGenome("xorstartgenes.yml"), "yaml"
	default:
		opts := randOpts(g)
		rand.Seed(g.seed63())
		in, out, maxH := 1+g.intn(4), 1+g.intn(3), 1+g.intn(5)
		gn, err := genetics.VerifNewGenomeRand(g.intn(50), in, out, g.intn(maxH+1), maxH, g.chance(0.5), 0.2+g.f64()*0.7, opts)
		if err != nil || len(gn.Genes) == 0 {
			return handGenome(g, 1), "hand"
		}
		return gn, "rand"
	}
}

// malformed makes a genome ill-formed in one of the ways the model must reject like the code does
func malformed(g *G, gn *genetics.Genome) string {
	switch g.intn(4) {
	case 0: // dangling endpoint: gene refers to a node object that is not in the genome
		if len(gn.Genes) > 0 {
			x := gn.Genes[g.intn(len(gn.Genes))]
			x.Link.InNode = network.NewNNode(9000+g.intn(10), network.HiddenNeuron)
			return "danglingIn"
		}
	case 1:
		if len(gn.Genes) > 0 {
			x := gn.Genes[g.intn(len(gn.Genes))]
			x.Link.OutNode = network.NewNNode(9000+g.intn(10), network.HiddenNeuron)
			return "danglingOut"
		}
	case 2: // a trait reference with id 0 / not in the trait list
		if len(gn.Nodes) > 0 {
			t := neat.NewTrait()
			t.Id = 0
			gn.Nodes[g.intn(len(gn.Nodes))].Trait = t
			return "traitId0"
		}
	case 3:
		if len(gn.Genes) > 0 {
			t := neat.NewTrait()
			t.Id = 777
			gn.Genes[g.intn(len(gn.Genes))].Link.Trait = t
			return "foreignTrait"
		}
	}
	return ""
}

func opDuplicate(g *G) (interface{}, []uint64, int, interface{}) {
	src, family := anyGenome(g)
	// work on a private copy so that pool members are never damaged by the malformed stream
	src = cloneGenome(src)
	mal := ""
	if g.chance(0.1) {
		mal = malformed(g, src)
	}
	if g.chance(0.12) {
		// parameter vectors of other lengths than the customary 8 (Trait.Params is a free-length slice): 0..12, same for all
		n := g.intn(13)
		for _, t := range src.Traits {
			p := make([]float64, n)
			for i := range p {
				if i < len(t.Params) {
					p[i] = t.Params[i]
				} else {
					p[i] = float64(g.intn(100)) / 7
				}
			}
			t.Params = p
		}
		family += "/traitlen"
	}
	if g.chance(0.15) && len(src.Nodes) >= 2 {
		// nodes (and sometimes genes) listed in another order than ascending id (hand-built / file-loaded genomes, e.g.
		// sensors listed 2,1,3): the copy keeps every element at its position - sensor order is the network's input order
		g.gr.Shuffle(len(src.Nodes), func(i, j int) { src.Nodes[i], src.Nodes[j] = src.Nodes[j], src.Nodes[i] })
		if g.chance(0.3) {
			unsortGenome(g, src)
		}
		family += "/unsorted"
	}
	before := dumpGenome(src)
	newId := g.intn(1000)
	dup, err := genetics.VerifDuplicate(src, newId)
	out := map[string]interface{}{"err": errStr(err), "srcAfter": dumpGenome(src)}
	if err == nil {
		out["g"] = dumpGenome(dup)
		out["shared"] = sharesState(src, dup)
		out["genesis"] = genesisClass(dup)
	}
	return map[string]interface{}{"g": before, "newId": newId, "family": family, "malformed": mal}, nil, 0, out
}

// applyRandomMutations applies k random in-place mutators of the real code to gn
func applyRandomMutations(g *G, gn *genetics.Genome, pop *genetics.Population, opts *neat.Options, k int) []string {
	names := make([]string, 0, k)
	for i := 0; i < k; i++ {
		switch c := g.intn(10); c {
		case 0:
			gn.Phenotype = nil
			_, _ = genetics.VerifMutateAddNode(gn, pop, pop, opts)
			names = append(names, "addNode")
		case 1:
			gn.Phenotype = nil
			_, _ = genetics.VerifMutateAddLink(gn, pop, 1, opts)
			names = append(names, "addLink")
		case 2:
			_, _ = genetics.VerifMutateConnectSensors(gn, pop, opts)
			names = append(names, "connectSensors")
		case 3:
			_, _ = genetics.VerifMutateLinkWeights(gn, opts.WeightMutPower, 1.0, g.chance(0.3))
			names = append(names, "linkWeights")
		case 4:
			_, _ = genetics.VerifMutateRandomTrait(gn, opts)
			names = append(names, "randomTrait")
		case 5:
			_, _ = genetics.VerifMutateLinkTrait(gn, 1+g.intn(3))
			names = append(names, "linkTrait")
		case 6:
			_, _ = genetics.VerifMutateNodeTrait(gn, 1+g.intn(3))
			names = append(names, "nodeTrait")
		case 7:
			_, _ = genetics.VerifMutateToggleEnable(gn, 1+g.intn(3))
			names = append(names, "toggleEnable")
		case 8:
			_, _ = genetics.VerifMutateGeneReEnable(gn)
			names = append(names, "reEnable")
		default:
			_, _ = genetics.VerifMutateAllNonstructural(gn, opts)
			names = append(names, "allNonstructural")
		}
	}
	return names
}

// opDupThenMutate: duplicate, then mutate either side with the real mutators; the other side must not change
func opDupThenMutate(g *G) (interface{}, []uint64, int, interface{}) {
	src, family := anyGenome(g)
	if len(src.ControlGenes) > 0 && g.chance(0.5) {
		src, family = anyGenome(g)
	}
	src = cloneGenome(src)
	dup, err := genetics.VerifDuplicate(src, src.Id+1)
	if err != nil {
		return nil, nil, 0, nil
	}
	mutateCopy := g.chance(0.5)
	victim, witness := src, dup
	if mutateCopy {
		victim, witness = dup, src
	}
	before := dumpGenome(witness)
	opts := randOpts(g)
	pop := genetics.VerifNewEmptyPopulation()
	ln, _ := genetics.VerifLastNodeId(victim)
	ni, _ := genetics.VerifNextGeneInnovNum(victim)
	genetics.VerifPopSetCounters(pop, ni-1, int32(ln+1))
	rand.Seed(g.seed63())
	names := applyRandomMutations(g, victim, pop, opts, 1+g.intn(8))
	after := dumpGenome(witness)
	return map[string]interface{}{"family": family, "mutatedCopy": mutateCopy, "mutations": names, "witnessBefore": before},
		nil, 0, map[string]interface{}{"witnessAfter": after, "victimAfter": dumpGenome(victim)}
}

func opCompat(g *G) (interface{}, []uint64, int, interface{}) {
	var a, b *genetics.Genome
	family := ""
	switch c := g.intn(10); {
	case c < 6:
		p := g.poolOf(6)
		a, b = p.pick(g), p.pick(g)
		family = "evolved"
	case c < 7:
		a, _ = anyGenome(g)
		b = cloneGenome(a)
		family = "duplicate"
	case c < 8:
		a, _ = anyGenome(g)
		b = a
		family = "self"
	default:
		a, b = cornerPair(g)
		family = "corner"
	}
	if a == nil || b == nil {
		return nil, nil, 0, nil
	}
	opts := randOpts(g)
	o1, o2 := *opts, *opts
	o1.GenCompatMethod = neat.GenomeCompatibilityMethodLinear
	o2.GenCompatMethod = neat.GenomeCompatibilityMethodFast
	out := map[string]interface{}{
		"linAB":  bits(genetics.VerifCompatLinear(a, b, opts)),
		"linBA":  bits(genetics.VerifCompatLinear(b, a, opts)),
		"fastAB": bits(genetics.VerifCompatFast(a, b, opts)),
		"fastBA": bits(genetics.VerifCompatFast(b, a, opts)),
		"dispatchLin":  bits(genetics.VerifCompatibility(a, b, &o1)),
		"dispatchFast": bits(genetics.VerifCompatibility(a, b, &o2)),
	}
	return map[string]interface{}{"a": dumpGenome(a), "b": dumpGenome(b), "opts": dumpCompatOpts(opts), "family": family}, nil, 0, out
}

// cornerPair: hand-shaped gene lists (sorted by innovation number): empty overlap, interleaved disjoint genes,
// long excess tails, prefix, empty genome
func cornerPair(g *G) (*genetics.Genome, *genetics.Genome) {
	varyEnds := g.chance(0.4)
	mk := func(inns []int64) *genetics.Genome {
		tr := neat.NewTrait()
		tr.Id = 1
		n1 := network.NewSensorNode(1, false)
		n2 := network.NewNNode(2, network.OutputNeuron)
		n3 := network.NewNNode(3, network.HiddenNeuron)
		n4 := network.NewNNode(4, network.HiddenNeuron)
		srcs := []*network.NNode{n1, n3, n4, n2}
		dsts := []*network.NNode{n2, n3, n4}
		genes := make([]*genetics.Gene, 0)
		for _, inn := range inns {
			w := (g.f64() - 0.5) * 8
			from, to, rec := n1, n2, false
			if varyEnds {
				// the same innovation number may stand for different connections in the two genomes (hand-built /
				// file-loaded genomes of different lineages): the distance is defined by innovation numbers only
				from, to, rec = srcs[g.intn(len(srcs))], dsts[g.intn(len(dsts))], g.chance(0.3)
			}
			gn := genetics.NewGeneWithTrait(tr, w, from, to, rec, inn, w)
			if g.chance(0.3) {
				gn.MutationNum = (g.f64() - 0.5) * 8
			}
			genes = append(genes, gn)
		}
		return genetics.NewGenome(1, []*neat.Trait{tr}, []*network.NNode{n1, n2, n3, n4}, genes)
	}
	seq := func(from, n, step int) []int64 {
		r := make([]int64, 0)
		for i := 0; i < n; i++ {
			r = append(r, int64(from+i*step))
		}
		return r
	}
	switch g.intn(8) {
	case 0: // interleaved, no match
		n := 1 + g.intn(6)
		return mk(seq(1, n, 2)), mk(seq(2, 1+g.intn(6), 2))
	case 1: // prefix
		n := 1 + g.intn(6)
		return mk(seq(1, n, 1)), mk(seq(1, n+1+g.intn(6), 1))
	case 2: // empty overlap, one entirely above the other
		n := 1 + g.intn(5)
		return mk(seq(1, n, 1)), mk(seq(n+5, 1+g.intn(5), 1))
	case 3: // one empty
		return mk(nil), mk(seq(1, g.intn(5), 1))
	case 4: // both empty
		return mk(nil), mk(nil)
	case 5: // long excess tail + interleaved middle
		a := append(seq(1, 3, 1), seq(10, 3, 2)...)
		b := append(seq(1, 3, 1), seq(11, 3, 2)...)
		b = append(b, seq(40, 1+g.intn(20), 1)...)
		return mk(a), mk(b)
	default: // random subsets of 1..N
		n := 2 + g.intn(14)
		if g.chance(0.3) { // large genomes: sizes around and beyond 20, 50, 100 genes
			n = 15 + g.intn(200)
		}
		var a, b []int64
		for i := 1; i <= n; i++ {
			if g.chance(0.6) {
				a = append(a, int64(i))
			}
			if g.chance(0.6) {
				b = append(b, int64(i))
			}
		}
		return mk(a), mk(b)
	}
}

type JInsGene struct {
	Inn int64 `json:"inn"`
	Tag int   `json:"tag"`
}

func opGeneInsert(g *G) (interface{}, []uint64, int, interface{}) {
	n := g.intn(9)
	n1 := network.NewSensorNode(1, false)
	n2 := network.NewNNode(2, network.OutputNeuron)
	genes := make([]*genetics.Gene, 0)
	in := make([]JInsGene, 0)
	inn := int64(g.intn(3))
	sorted := !g.chance(0.1) // 10 %: unsorted list (malformed stream)
	for i := 0; i < n; i++ {
		if sorted {
			inn += int64(g.intn(3)) // steps of 0 give equal keys
		} else {
			inn = int64(g.intn(12))
		}
		gn := genetics.NewGene(float64(i), n1, n2, false, inn, 0)
		genes = append(genes, gn)
		in = append(in, JInsGene{Inn: inn, Tag: i})
	}
	newInn := int64(g.intn(int(inn) + 4))
	ng := genetics.NewGene(float64(1000), n1, n2, false, newInn, 0)
	keep := append([]*genetics.Gene{}, genes...)
	res := genetics.VerifGeneInsert(genes, ng)
	out := make([]JInsGene, 0)
	for _, x := range res {
		out = append(out, JInsGene{Inn: x.InnovationNum, Tag: int(x.Link.ConnectionWeight)})
	}
	// the input slice's visible prefix must be untouched
	intact := true
	for i := range keep {
		if genes[i] != keep[i] {
			intact = false
		}
	}
	return map[string]interface{}{"genes": in, "new": JInsGene{Inn: newInn, Tag: 1000}, "sorted": sorted},
		nil, 0, map[string]interface{}{"genes": out, "inputIntact": intact}
}

func opNodeInsert(g *G) (interface{}, []uint64, int, interface{}) {
	n := g.intn(9)
	nodes := make([]*network.NNode, 0)
	in := make([]JInsGene, 0)
	id := g.intn(3)
	sorted := !g.chance(0.1)
	for i := 0; i < n; i++ {
		if sorted {
			id += g.intn(3)
		} else {
			id = g.intn(12)
		}
		nd := network.NewNNode(id, network.HiddenNeuron)
		nd.ActivationsCount = int32(i) // tag
		nodes = append(nodes, nd)
		in = append(in, JInsGene{Inn: int64(id), Tag: i})
	}
	newId := g.intn(id + 4)
	nn := network.NewNNode(newId, network.HiddenNeuron)
	nn.ActivationsCount = 1000
	res := genetics.VerifNodeInsert(nodes, nn)
	out := make([]JInsGene, 0)
	for _, x := range res {
		out = append(out, JInsGene{Inn: int64(x.Id), Tag: int(x.ActivationsCount)})
	}
	return map[string]interface{}{"genes": in, "new": JInsGene{Inn: int64(newId), Tag: 1000}, "sorted": sorted},
		nil, 0, map[string]interface{}{"genes": out, "inputIntact": true}
}
