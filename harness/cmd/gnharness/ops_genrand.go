package main

// genomeRand / populationRandom: the random constructors `newGenomeRand` and `NewPopulationRandom` against their model
// (lean/GoNeat/Model/GenomeRand.lean): result compared gene for gene, node for node, float bits, and the number of raw
// random values consumed.

import (
	"strings"

	"github.com/yaricom/goNEAT/v4/neat"
	"github.com/yaricom/goNEAT/v4/neat/genetics"
)

func init() {
	register("genomeRand", opGenomeRand)
	register("populationRandom", opPopulationRandom)
}

// pickLinkProb: the end points 0 and 1 of the documented range, small and large values, and anything in between
func pickLinkProb(g *G) float64 {
	switch c := g.intn(10); {
	case c == 0:
		return 0.0
	case c == 1:
		return 1.0
	case c == 2:
		return g.f64() * 0.1
	case c == 3:
		return 0.9 + g.f64()*0.1
	default:
		return g.f64()
	}
}

// genRandActivators now and then breaks the activator registration the way `RandomNodeActivationType` reports
func genRandActivators(g *G, o *neat.Options) string {
	switch c := g.intn(40); {
	case c == 0:
		o.NodeActivators = nil
		o.NodeActivatorsProb = nil
		return "noActivators"
	case c == 1 && len(o.NodeActivators) > 1:
		o.NodeActivatorsProb = o.NodeActivatorsProb[:len(o.NodeActivatorsProb)-1]
		return "probsMismatch"
	}
	if len(o.NodeActivators) > 1 {
		return "roulette"
	}
	return "single"
}

func genRandErrClass(err error, pan interface{}) *string {
	if err != nil && pan == nil {
		es := err.Error()
		switch {
		case strings.Contains(es, "wrong population size"):
			s := "wrongPopSize"
			return &s
		case strings.Contains(es, "compatibility thershold is set to ZERO"), strings.Contains(es, "compatibility threshold is set to ZERO"):
			s := "compatThresholdZero"
			return &s
		}
	}
	return errClass(err, pan)
}

func opGenomeRand(g *G) (interface{}, []uint64, int, interface{}) {
	opts := randOpts(g)
	acts := genRandActivators(g, opts)
	in, out, maxH := 1+g.intn(5), 1+g.intn(4), g.intn(7)
	n := g.intn(maxH + 1)
	if g.chance(0.3) {
		n = maxH // all hidden slots in use
	}
	id := g.intn(1000)
	recurrent := g.chance(0.5)
	linkProb := pickLinkProb(g)
	var gn *genetics.Genome
	var err error
	var pan interface{}
	stream, consumed := withSeed(g.seed63(), func() {
		defer func() { pan = recover() }()
		gn, err = genetics.VerifNewGenomeRand(id, in, out, n, maxH, recurrent, linkProb, opts)
	})
	outm := map[string]interface{}{"err": genRandErrClass(err, pan)}
	if err == nil && pan == nil {
		outm["g"] = dumpGenome(gn)
	}
	return map[string]interface{}{"id": id, "in": in, "out": out, "n": n, "maxHidden": maxH, "recurrent": recurrent,
		"linkProb": bits(linkProb), "opts": dumpMutOpts(opts), "acts": acts}, stream, consumed, outm
}

func opPopulationRandom(g *G) (interface{}, []uint64, int, interface{}) {
	opts := popOpts(g)
	opts.PopSize = 1 + g.intn(12)
	if g.chance(0.03) {
		opts.PopSize = 0
	}
	acts := genRandActivators(g, opts)
	in, out, maxH := 1+g.intn(4), 1+g.intn(3), 1+g.intn(4)
	if g.chance(0.04) {
		maxH = 0 // rand.Intn(0) panics
	}
	recurrent := g.chance(0.5)
	linkProb := pickLinkProb(g)
	var pop *genetics.Population
	var err error
	var pan interface{}
	stream, consumed := withSeed(g.seed63(), func() {
		defer func() { pan = recover() }()
		pop, err = genetics.NewPopulationRandom(in, out, maxH, recurrent, linkProb, opts)
	})
	outm := map[string]interface{}{"err": genRandErrClass(err, pan)}
	if err == nil && pan == nil {
		outm["pop"] = dumpPop(pop)
	}
	return map[string]interface{}{"in": in, "out": out, "maxHidden": maxH, "recurrent": recurrent,
		"linkProb": bits(linkProb), "opts": dumpEpochOpts(opts), "acts": acts}, stream, consumed, outm
}
