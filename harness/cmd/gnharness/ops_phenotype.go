package main

// Phenotype op (C11): "the phenotype an organism is evaluated with expresses exactly the enabled genes of ITS genome".
//
//   mutated: a member of an evolved lineage pool is duplicated with the REAL Genome.duplicate (Phenotype == nil, as in
//            Species.reproduce), 0..2 REAL mutators that build no network (mutateAddNode, mutateConnectSensors,
//            toggle-enable, re-enable) and then, in 70%, the REAL mutateAddLink (it builds a network for its recurrence
//            test) are applied - as in reproduce nothing mutates the genome after mutateAddLink -, then
//            NewOrganism(...) and Organism.Phenotype().
//   epoch  : a scenario population is evolved by the REAL SequentialPopulationEpochExecutor.NextEpoch; after every
//            epoch up to 8 organisms of the new generation are asked for their Phenotype(), one per case.
//
// The genome is dumped AFTER the mutation / epoch; the dump of the network and the graph-view answers are those of
// op genesis (same driver handler, same `expresses` predicate).  The id of the network is whatever the code gave it
// (genome id, or the generation number when mutateAddLink's own Genesis result is legitimately kept): the driver
// takes it from the dump.

import (
	"context"
	"math/rand"

	"github.com/yaricom/goNEAT/v4/neat"
	"github.com/yaricom/goNEAT/v4/neat/genetics"
	"github.com/yaricom/goNEAT/v4/neat/network"
)

func init() {
	register("phenotype", opPhenotype)
}

type phenoScenario struct {
	sc     *scenario
	queue  []*genetics.Organism
	epochs int
}

var phenoScenarios = map[string]*phenoScenario{}

func opPhenotype(g *G) (interface{}, []uint64, int, interface{}) {
	if g.chance(0.6) {
		return phenoMutated(g)
	}
	return phenoEpoch(g)
}

func phenoMutated(g *G) (interface{}, []uint64, int, interface{}) {
	p := g.poolOf(6)
	src := p.pick(g)
	gn, err := genetics.VerifDuplicate(src, 100+g.intn(900))
	if err != nil || gn == nil {
		return nil, nil, 0, nil
	}
	fam := "evolved:" + p.origin
	generation := 1 + g.intn(50)
	rand.Seed(g.seed63())
	// as in Species.reproduce a baby gets ONE network-building mutator (mutateAddLink), and nothing mutates the genome
	// after it; mutators that never build a network may precede it
	for s := 0; s < g.intn(3); s++ {
		var res bool
		var name string
		switch c := g.intn(5); {
		case c < 2:
			name = "addNode"
			res, _ = genetics.VerifMutateAddNode(gn, p.pop, p.pop, p.opts)
		case c < 3:
			name = "connectSensors"
			res, _ = genetics.VerifMutateConnectSensors(gn, p.pop, p.opts)
		case c < 4:
			name = "toggle"
			res, _ = genetics.VerifMutateToggleEnable(gn, 1+g.intn(2))
		default:
			name = "reEnable"
			res, _ = genetics.VerifMutateGeneReEnable(gn)
		}
		if res {
			fam += "+" + name
		}
	}
	if g.chance(0.7) {
		if res, _ := genetics.VerifMutateAddLink(gn, p.pop, generation, p.opts); res {
			fam += "+addLink"
		} else {
			fam += "+addLinkFailed"
		}
	}
	in := &genesisIn{Family: fam, Path: "mutated"}
	out := &genesisOut{}
	org, _ := genetics.NewOrganism(g.f64(), gn, generation)
	net, err := org.Phenotype()
	return finishPheno(g, in, out, gn, org, net, err)
}

func phenoEpoch(g *G) (interface{}, []uint64, int, interface{}) {
	ps := phenoScenarios[g.opName]
	if ps == nil || (len(ps.queue) == 0 && ps.epochs >= 6+g.intn(10)) {
		sc := newScenario(g)
		if sc == nil {
			return nil, nil, 0, nil
		}
		ps = &phenoScenario{sc: sc}
		phenoScenarios[g.opName] = ps
	}
	if len(ps.queue) == 0 {
		sc := ps.sc
		assignFitness(g, sc.pop, sc.landscape)
		ex := &genetics.SequentialPopulationEpochExecutor{}
		ctx := neat.NewContext(context.Background(), sc.opts)
		rand.Seed(g.seed63())
		var pan interface{}
		var err error
		func() {
			defer func() { pan = recover() }()
			err = ex.NextEpoch(ctx, sc.generation, sc.pop)
		}()
		sc.generation++
		sc.epochs++
		ps.epochs++
		if err != nil || pan != nil {
			delete(phenoScenarios, g.opName)
			return nil, nil, 0, nil
		}
		perm := g.perm(len(sc.pop.Organisms))
		for _, q := range perm {
			if len(ps.queue) >= 8 {
				break
			}
			ps.queue = append(ps.queue, sc.pop.Organisms[q])
		}
		if len(ps.queue) == 0 {
			delete(phenoScenarios, g.opName)
			return nil, nil, 0, nil
		}
	}
	org := ps.queue[0]
	ps.queue = ps.queue[1:]
	in := &genesisIn{Family: "epoch:" + ps.sc.origin, Path: "epoch"}
	out := &genesisOut{}
	net, err := org.Phenotype()
	return finishPheno(g, in, out, org.Genotype, org, net, err)
}

func finishPheno(g *G, in *genesisIn, out *genesisOut, gn *genetics.Genome, org *genetics.Organism, net *network.Network, err error) (interface{}, []uint64, int, interface{}) {
	if err == nil && net != nil {
		in.NetId = net.Id
		again, _ := org.Phenotype()
		out.Cached = again == net
	}
	return finishGenesisCase(g, in, out, gn, net, err)
}
