package main

// C18 correspondence ops: the REAL activation functions and registry lookups of neat/math, reached only through the
// public factory API (ActivateByType, ActivateModuleByType, ActivationNameFromType, ActivationTypeFromName).

import (
	"math"
	"sort"
	"strings"

	neatmath "github.com/yaricom/goNEAT/v4/neat/math"
	"github.com/yaricom/goNEAT/v4/neat/network"
)

func init() {
	register("actScalar", opActScalar)
	register("actModule", opActModule)
	register("actRegistry", opActRegistry)
}

// breakpoints of the piecewise definitions (and the zero crossings of the shifted sigmoids' arguments)
var actBreakpoints = []float64{-4, -1, 0, 1, 4, -2.4621365, 2.4621365, -0.5, 0.5, -2.4621365 / 4.924273, 2.4621365 / 4.924273}

func logUniform(g *G, loExp, hiExp float64) float64 {
	e := loExp + g.f64()*(hiExp-loExp)
	v := math.Pow(10, e)
	if g.chance(0.5) {
		v = -v
	}
	return v
}

// actGrid: sorted (ascending, -0 before +0), duplicate-free grid of inputs with |x| <= 1e300
func actGrid(g *G) []float64 {
	xs := []float64{0, math.Copysign(0, -1), 1e300, -1e300, math.SmallestNonzeroFloat64, -math.SmallestNonzeroFloat64,
		2.2250738585072014e-308, -2.2250738585072014e-308}
	for _, b := range actBreakpoints {
		xs = append(xs, b, math.Nextafter(b, math.Inf(1)), math.Nextafter(b, math.Inf(-1)))
	}
	// decades: a random subset of ±10^k, k in [-300, 300], always a few fixed ones
	for _, k := range []int{-300, -100, -10, -1, 1, 2, 3, 10, 19, 100, 299} {
		xs = append(xs, math.Pow10(k), -math.Pow10(k))
	}
	for i := 0; i < 10; i++ {
		k := g.intn(601) - 300
		xs = append(xs, math.Pow10(k), -math.Pow10(k))
	}
	// random values: around the interesting region, wider, and log-uniform magnitudes
	for i := 0; i < 16; i++ {
		xs = append(xs, (g.f64()*2-1)*6)
	}
	for i := 0; i < 6; i++ {
		xs = append(xs, (g.f64()*2-1)*800)
	}
	for i := 0; i < 8; i++ {
		xs = append(xs, logUniform(g, -300, 300))
	}
	// a short run of adjacent floats somewhere (monotonicity at the finest scale)
	c := (g.f64()*2 - 1) * 5
	for i := 0; i < 4; i++ {
		xs = append(xs, c)
		c = math.Nextafter(c, math.Inf(1))
	}
	sort.Slice(xs, func(i, j int) bool {
		if xs[i] != xs[j] {
			return xs[i] < xs[j]
		}
		return math.Signbit(xs[i]) && !math.Signbit(xs[j])
	})
	out := xs[:0]
	for i, x := range xs {
		if math.Abs(x) > 1e300 {
			continue
		}
		if i > 0 && len(out) > 0 && bits(out[len(out)-1]) == bits(x) {
			continue
		}
		out = append(out, x)
	}
	return out
}

func actErrClass(err error) string {
	if err == nil {
		return ""
	}
	s := err.Error()
	switch {
	case strings.HasPrefix(s, "unknown neuron activation type"), strings.HasPrefix(s, "unknown module activation type"),
		strings.HasPrefix(s, "unsupported activation type"):
		return "unknown"
	}
	return "other:" + s
}

// scalar activation of a whole grid through ActivateByType
func opActScalar(g *G) (interface{}, []uint64, int, interface{}) {
	var t int
	switch k := g.caseNo % 24; {
	case k < 20:
		t = k + 1
	case k == 20:
		t = 21 + g.intn(3) // a module type asked for as a scalar
	case k == 21:
		t = 0
	default:
		t = 24 + g.intn(232)
	}
	xs := actGrid(g)
	in := map[string]interface{}{"t": t, "xs": bitsOf(xs)}
	ys := make([]uint64, 0, len(xs))
	errs := ""
	var errVal uint64
	// auxiliary parameters (NNode.Params; the closed-form definitions of the scalar activations do not use them) and, in a
	// third of the cases, the call path of the standard solver: network.ActivateNode on a hand-built node
	var aux []float64
	if g.chance(0.5) {
		aux = make([]float64, 1+g.intn(4))
		for i := range aux {
			aux[i] = (g.f64() - 0.3) * []float64{1, 3, 100}[g.intn(3)]
		}
	}
	viaNode := g.chance(0.33)
	for _, x := range xs {
		var y float64
		var err error
		if viaNode {
			nd := &network.NNode{Id: 1, NeuronType: network.HiddenNeuron, ActivationType: neatmath.NodeActivationType(t), ActivationSum: x, Params: aux}
			if err = network.ActivateNode(nd, neatmath.NodeActivators); err == nil {
				y = nd.Activation
			}
		} else {
			y, err = neatmath.NodeActivators.ActivateByType(x, aux, neatmath.NodeActivationType(t))
		}
		if err != nil {
			errs = actErrClass(err)
			errVal = bits(y)
			ys = ys[:0]
			break
		}
		ys = append(ys, bits(y))
	}
	return in, nil, 0, map[string]interface{}{"ys": ys, "err": errs, "errVal": errVal}
}

func moduleInputs(g *G) ([]float64, string) {
	n := 1 + g.intn(8)
	if g.chance(0.2) {
		n = 1
	}
	xs := make([]float64, n)
	fam := ""
	switch g.intn(7) {
	case 0:
		fam = "moderate"
		for i := range xs {
			xs[i] = (g.f64()*2 - 1) * 10
		}
	case 1:
		fam = "allHugeNegative" // every element below -9.3e18 (below float64(MinInt64))
		for i := range xs {
			xs[i] = -math.Abs(logUniform(g, 19, 300))
		}
	case 2:
		fam = "allHugePositive"
		for i := range xs {
			xs[i] = math.Abs(logUniform(g, 19, 300))
		}
	case 3:
		fam = "allNegative"
		for i := range xs {
			xs[i] = -math.Abs(logUniform(g, -5, 25))
		}
	case 4:
		fam = "zeros"
		for i := range xs {
			switch g.intn(4) {
			case 0:
				xs[i] = 0
			case 1:
				xs[i] = math.Copysign(0, -1)
			default:
				xs[i] = (g.f64()*2 - 1) * 3
			}
		}
	case 5:
		fam = "wideMagnitudes"
		for i := range xs {
			xs[i] = logUniform(g, -300, 300)
		}
	default:
		fam = "ties"
		v := (g.f64()*2 - 1) * 100
		for i := range xs {
			if g.chance(0.5) {
				xs[i] = v
			} else {
				xs[i] = (g.f64()*2 - 1) * 100
			}
		}
	}
	return xs, fam
}

// module activation through ActivateModuleByType
func opActModule(g *G) (interface{}, []uint64, int, interface{}) {
	var t int
	switch k := g.caseNo % 10; {
	case k < 9:
		t = 21 + k%3
	default:
		if g.chance(0.5) {
			t = 1 + g.intn(20) // a scalar type asked for as a module
		} else {
			t = []int{0, 24, 255, 100}[g.intn(4)]
		}
	}
	// about 40 % of the cases: the call path of the standard solver - network.ActivateModule on hand-built control nodes,
	// a SEQUENCE of modules of different fan-in activated one after another (opActModuleSeq)
	if g.chance(0.4) {
		return opActModuleSeq(g)
	}
	xs, fam := moduleInputs(g)
	in := map[string]interface{}{"t": t, "xs": bitsOf(xs), "family": fam}
	cp := append([]float64{}, xs...)
	ys, err := neatmath.NodeActivators.ActivateModuleByType(cp, nil, neatmath.NodeActivationType(t))
	inputsIntact := true
	for i := range xs {
		if bits(xs[i]) != bits(cp[i]) {
			inputsIntact = false
		}
	}
	return in, nil, 0, map[string]interface{}{"ys": bitsOf(ys), "err": actErrClass(err), "inputsIntact": inputsIntact}
}

type jSeqMod struct {
	T   int   `json:"t"`
	Inc []int `json:"inc"` // indices of the source nodes (Incoming order)
	Out []int `json:"out"` // indices of the target nodes (Outgoing order)
}

type jSeqNode struct {
	V      uint64 `json:"v"`
	Loaded bool   `json:"loaded"` // SensorLoad(v) was called (ActivationsCount = 1); otherwise a fresh hidden neuron
}

type jSeqNodeState struct {
	A      uint64 `json:"a"`
	Count  int    `json:"count"`
	Active bool   `json:"active"`
}

type jSeqRes struct {
	Err  string          `json:"err"`
	Outs []jSeqNodeState `json:"outs"` // state of the module's target nodes right after its activation
}

// a sequence of 2-4 modules of pairwise different fan-in (1..6; decreasing, increasing or mixed order) on hand-built
// control nodes, activated one after another through network.ActivateModule (the call of Network.ActivateSteps).
// Source nodes are sensors loaded with the input value; a later module may read the output node of the previous one.
// The error paths: a module type with 0 or 2 outgoing links (the module functions return one value), an unregistered
// or scalar type code.
func opActModuleSeq(g *G) (interface{}, []uint64, int, interface{}) {
	k := 2 + g.intn(3)
	fan := g.perm(6)[:k]
	for i := range fan {
		fan[i]++
	}
	shape := []string{"decreasing", "increasing", "mixed"}[g.intn(3)]
	switch shape {
	case "decreasing":
		sort.Sort(sort.Reverse(sort.IntSlice(fan)))
	case "increasing":
		sort.Ints(fan)
	default:
		// as drawn; make sure that at least one module is narrower than its predecessor
		if sort.IntsAreSorted(fan) {
			fan[0], fan[k-1] = fan[k-1], fan[0]
		}
	}
	var nodes []*network.NNode
	var jn []jSeqNode
	addNode := func(v float64, loaded bool) int {
		var nd *network.NNode
		if loaded {
			nd = network.NewNNode(len(nodes)+1, network.InputNeuron)
			nd.SensorLoad(v)
		} else {
			nd = network.NewNNode(len(nodes)+1, network.HiddenNeuron)
		}
		nodes = append(nodes, nd)
		jn = append(jn, jSeqNode{V: bits(v), Loaded: loaded})
		return len(nodes) - 1
	}
	sameType := -1
	if g.chance(0.5) {
		sameType = 21 + g.intn(3)
	}
	mods := make([]jSeqMod, 0, k)
	res := make([]jSeqRes, 0, k)
	fams := ""
	prevOut := -1
	for m := 0; m < k; m++ {
		t := sameType
		if t < 0 {
			t = 21 + g.intn(3)
		}
		nOut := 1
		switch r := g.intn(20); {
		case r == 0:
			nOut = 0
		case r == 1:
			nOut = 2
		case r == 2:
			t = []int{0, 1, 5, 20, 24, 100, 255}[g.intn(7)]
		}
		var xs []float64
		var fam string
		for {
			xs, fam = moduleInputs(g)
			if len(xs) >= fan[m] {
				break
			}
		}
		xs = xs[:fan[m]]
		fams += fam[:2]
		jm := jSeqMod{T: t, Inc: []int{}, Out: []int{}}
		cn := network.NewNNode(1000+m, network.HiddenNeuron)
		cn.ActivationType = neatmath.NodeActivationType(t)
		// chained: one source is the output node of the previous module (when that holds a finite value)
		chainAt := -1
		if prevOut >= 0 && g.chance(0.3) {
			if v := nodes[prevOut].GetActiveOut(); !math.IsInf(v, 0) && !math.IsNaN(v) {
				chainAt = g.intn(len(xs))
			}
		}
		for i, v := range xs {
			idx := prevOut
			if i != chainAt {
				if g.chance(0.05) {
					idx = addNode(v, false) // a source that was never activated: GetActiveOut = 0
				} else {
					idx = addNode(v, true)
				}
			}
			cn.AddIncoming(nodes[idx], 1.0)
			jm.Inc = append(jm.Inc, idx)
		}
		for i := 0; i < nOut; i++ {
			idx := addNode(0, false)
			cn.AddOutgoing(nodes[idx], 1.0)
			jm.Out = append(jm.Out, idx)
		}
		err := network.ActivateModule(cn, neatmath.NodeActivators)
		r := jSeqRes{Err: actErrClass(err), Outs: []jSeqNodeState{}}
		if err != nil && strings.HasPrefix(err.Error(), "number of output parameters") {
			r.Err = "outLen"
		}
		for _, idx := range jm.Out {
			st := network.VerifNodeState_(nodes[idx])
			r.Outs = append(r.Outs, jSeqNodeState{A: bits(st.Activation), Count: int(st.ActivationsCount), Active: st.IsActive})
		}
		mods = append(mods, jm)
		res = append(res, r)
		prevOut = -1
		if err == nil && nOut > 0 {
			prevOut = jm.Out[0]
		}
	}
	final := make([]jSeqNodeState, len(nodes))
	for i, nd := range nodes {
		st := network.VerifNodeState_(nd)
		final[i] = jSeqNodeState{A: bits(st.Activation), Count: int(st.ActivationsCount), Active: st.IsActive}
	}
	in := map[string]interface{}{"seq": true, "shape": shape, "family": fams, "nodes": jn, "mods": mods}
	return in, nil, 0, map[string]interface{}{"mods": res, "final": final}
}

type jLookup struct {
	Ok bool   `json:"ok"`
	S  string `json:"s"`
	N  int    `json:"n"`
}

// the registry: name of every type code 0..255, type of every name met plus perturbed / unknown names,
// and which codes the two Activate*ByType entry points accept
func opActRegistry(g *G) (interface{}, []uint64, int, interface{}) {
	f := neatmath.NodeActivators
	if g.caseNo%2 == 1 {
		f = neatmath.NewNodeActivatorsFactory() // a fresh factory must behave like the default one
	}
	codes := make([]int, 256)
	byCode := make([]jLookup, 256)
	scalarOk := make([]bool, 256)
	moduleOk := make([]bool, 256)
	nameSet := map[string]bool{}
	for c := 0; c < 256; c++ {
		codes[c] = c
		n, err := f.ActivationNameFromType(neatmath.NodeActivationType(c))
		byCode[c] = jLookup{Ok: err == nil, S: n}
		if err == nil {
			nameSet[n] = true
		}
		_, err = f.ActivateByType(0.25, nil, neatmath.NodeActivationType(c))
		scalarOk[c] = err == nil
		_, err = f.ActivateModuleByType([]float64{0.25, 0.5}, nil, neatmath.NodeActivationType(c))
		moduleOk[c] = err == nil
	}
	names := make([]string, 0, 64)
	for n := range nameSet {
		names = append(names, n)
	}
	sort.Strings(names)
	base := append([]string{}, names...)
	names = append(names, "", "sigmoid", "UNKNOWN", "Activation")
	for i := 0; i < 12 && len(base) > 0; i++ {
		n := base[g.intn(len(base))]
		switch g.intn(5) {
		case 0:
			names = append(names, strings.ToLower(n))
		case 1:
			names = append(names, n[:len(n)-1])
		case 2:
			names = append(names, n+" ")
		case 3:
			names = append(names, " "+n)
		default:
			names = append(names, strings.Replace(n, "Activation", "", 1))
		}
	}
	byName := make([]jLookup, len(names))
	for i, n := range names {
		t, err := f.ActivationTypeFromName(n)
		byName[i] = jLookup{Ok: err == nil, N: int(t)}
	}
	in := map[string]interface{}{"codes": codes, "names": names, "fresh": g.caseNo%2 == 1}
	return in, nil, 0, map[string]interface{}{"byCode": byCode, "byName": byName, "scalarOk": scalarOk, "moduleOk": moduleOk}
}
