package main

import (
	"fmt"
	"hash/fnv"
	"math"
	"math/rand"
	"os"
	"path/filepath"

	"github.com/yaricom/goNEAT/v4/neat"
	"github.com/yaricom/goNEAT/v4/neat/genetics"
	neatmath "github.com/yaricom/goNEAT/v4/neat/math"
	"github.com/yaricom/goNEAT/v4/neat/network"
)

// G is the generator state of one op: every random choice of the generator derives from gr, which is
// seeded from (VERIF_SEED, op name). The implementation under test draws from the *global* math/rand
// source, which is re-seeded for every case (see withSeed).
type G struct {
	gr       *rand.Rand
	thorough bool
	caseNo   int
	pool     *Pool // lazily built lineage pool
	opName   string
	negZero  bool // ops_io.go: ioFloat may produce -0.0
}

func newG(seed int64, op string, thorough bool) *G {
	h := fnv.New64a()
	_, _ = h.Write([]byte(op))
	s := seed*1000003 + int64(h.Sum64()&0x7fffffff)
	return &G{gr: rand.New(rand.NewSource(s)), thorough: thorough, opName: op, negZero: true}
}

func (g *G) intn(n int) int       { return g.gr.Intn(n) }
func (g *G) chance(p float64) bool { return g.gr.Float64() < p }
func (g *G) f64() float64         { return g.gr.Float64() }
func (g *G) seed63() int64        { return g.gr.Int63() }

// withSeed seeds the global source, runs f and reports the raw Int63 stream prefix f consumed
// (plus slack values so that a model that over-consumes is detected, not starved).
func withSeed(seed int64, f func()) (stream []uint64, consumed int) {
	rand.Seed(seed)
	f()
	next := rand.Int63()
	mirror := rand.New(rand.NewSource(seed))
	stream = make([]uint64, 0, 64)
	for {
		v := mirror.Int63()
		stream = append(stream, uint64(v))
		if v == next {
			break
		}
		consumed++
		if consumed > 50_000_000 {
			panic("withSeed: cannot locate the position of the global stream")
		}
	}
	for i := 0; i < 8; i++ {
		stream = append(stream, uint64(mirror.Int63()))
	}
	return stream, consumed
}

func bits(f float64) uint64 { return math.Float64bits(f) }

func bitsOf(fs []float64) []uint64 {
	r := make([]uint64, len(fs))
	for i, f := range fs {
		r[i] = bits(f)
	}
	return r
}

/* ---------- canonical dumps ---------- */

type JTrait struct {
	Id     int      `json:"id"`
	Params []uint64 `json:"params"`
}
type JNode struct {
	Id    int  `json:"id"`
	Kind  int  `json:"kind"`
	Act   int  `json:"act"`
	Trait *int `json:"trait"`
}
type JGene struct {
	Inn   int64  `json:"inn"`
	Src   int    `json:"src"`
	Dst   int    `json:"dst"`
	Rec   bool   `json:"rec"`
	W     uint64 `json:"w"`
	Mut   uint64 `json:"mut"`
	En    bool   `json:"en"`
	Trait *int   `json:"trait"`
}
type JWire struct {
	Node  int    `json:"node"`
	W     uint64 `json:"w"`
	Rec   bool   `json:"rec"`
	Trait *int   `json:"trait"`
}
type JModule struct {
	Inn  int64   `json:"inn"`
	Mut  uint64  `json:"mut"`
	En   bool    `json:"en"`
	Ctrl JNode   `json:"ctrl"`
	Ins  []JWire `json:"ins"`
	Outs []JWire `json:"outs"`
}
type JGenome struct {
	Id      int       `json:"id"`
	Traits  []JTrait  `json:"traits"`
	Nodes   []JNode   `json:"nodes"`
	Genes   []JGene   `json:"genes"`
	Modules []JModule `json:"modules"`
	// Own: every pointer held by the genome is one of its own objects: gene endpoints are the node
	// objects listed in Nodes and returned by NodeWithId, trait pointers are nil or elements of Traits,
	// and the id->node map holds exactly the listed nodes.
	Own    bool   `json:"own"`
	OwnWhy string `json:"ownWhy,omitempty"`
}

func traitRef(t *neat.Trait) *int {
	if t == nil {
		return nil
	}
	id := t.Id
	return &id
}

func dumpNode(n *network.NNode) JNode {
	return JNode{Id: n.Id, Kind: int(n.NeuronType), Act: int(n.ActivationType), Trait: traitRef(n.Trait)}
}

func dumpGenome(g *genetics.Genome) *JGenome {
	if g == nil {
		return nil
	}
	j := &JGenome{Id: g.Id, Own: true, Traits: []JTrait{}, Nodes: []JNode{}, Genes: []JGene{}, Modules: []JModule{}}
	why := func(s string) {
		if j.Own {
			j.Own = false
			j.OwnWhy = s
		}
	}
	traitSet := map[*neat.Trait]bool{}
	for _, t := range g.Traits {
		j.Traits = append(j.Traits, JTrait{Id: t.Id, Params: bitsOf(t.Params)})
		traitSet[t] = true
	}
	ownTrait := func(t *neat.Trait, what string) {
		if t != nil && !traitSet[t] {
			why("foreign trait pointer at " + what)
		}
	}
	nodeSet := map[*network.NNode]bool{}
	for _, n := range g.Nodes {
		j.Nodes = append(j.Nodes, dumpNode(n))
		nodeSet[n] = true
		ownTrait(n.Trait, fmt.Sprintf("node %d", n.Id))
	}
	idMap := genetics.VerifNodeByIdMap(g)
	if idMap != nil {
		// the map must agree with the list. (A nil map happens for genomes built by hand without constructor.)
		for _, n := range g.Nodes {
			if g.NodeWithId(n.Id) == nil {
				why(fmt.Sprintf("NodeWithId(%d) is nil for a listed node", n.Id))
			}
		}
		for id, n := range idMap {
			if !nodeSet[n] {
				why(fmt.Sprintf("id map entry %d is not a listed node", id))
			}
		}
	}
	for _, gn := range g.Genes {
		if gn.Link == nil || gn.Link.InNode == nil || gn.Link.OutNode == nil {
			// a gene without an endpoint object (cannot be built through the API; a defective reader can produce it):
			// dump it with the impossible node id -1<<30 so that every predicate on endpoints fails, and do not dereference
			src, dst := -(1 << 30), -(1 << 30)
			rec, w := false, uint64(0)
			var tr *int
			if gn.Link != nil {
				if gn.Link.InNode != nil {
					src = gn.Link.InNode.Id
				}
				if gn.Link.OutNode != nil {
					dst = gn.Link.OutNode.Id
				}
				rec, w, tr = gn.Link.IsRecurrent, bits(gn.Link.ConnectionWeight), traitRef(gn.Link.Trait)
			}
			j.Genes = append(j.Genes, JGene{Inn: gn.InnovationNum, Src: src, Dst: dst, Rec: rec, W: w, Mut: bits(gn.MutationNum),
				En: gn.IsEnabled, Trait: tr})
			why(fmt.Sprintf("gene %d: missing endpoint object", gn.InnovationNum))
			continue
		}
		j.Genes = append(j.Genes, JGene{Inn: gn.InnovationNum, Src: gn.Link.InNode.Id, Dst: gn.Link.OutNode.Id,
			Rec: gn.Link.IsRecurrent, W: bits(gn.Link.ConnectionWeight), Mut: bits(gn.MutationNum), En: gn.IsEnabled,
			Trait: traitRef(gn.Link.Trait)})
		if !nodeSet[gn.Link.InNode] {
			why(fmt.Sprintf("gene %d: in-node is not a listed node object", gn.InnovationNum))
		}
		if !nodeSet[gn.Link.OutNode] {
			why(fmt.Sprintf("gene %d: out-node is not a listed node object", gn.InnovationNum))
		}
		if idMap != nil {
			if g.NodeWithId(gn.Link.InNode.Id) != gn.Link.InNode && nodeSet[gn.Link.InNode] && uniqueId(g, gn.Link.InNode.Id) {
				why(fmt.Sprintf("gene %d: NodeWithId(in) returns another object", gn.InnovationNum))
			}
			if g.NodeWithId(gn.Link.OutNode.Id) != gn.Link.OutNode && nodeSet[gn.Link.OutNode] && uniqueId(g, gn.Link.OutNode.Id) {
				why(fmt.Sprintf("gene %d: NodeWithId(out) returns another object", gn.InnovationNum))
			}
		}
		ownTrait(gn.Link.Trait, fmt.Sprintf("gene %d", gn.InnovationNum))
	}
	for _, cg := range g.ControlGenes {
		m := JModule{Inn: cg.InnovationNum, Mut: bits(cg.MutationNum), En: cg.IsEnabled, Ctrl: dumpNode(cg.ControlNode),
			Ins: []JWire{}, Outs: []JWire{}}
		for _, l := range cg.ControlNode.Incoming {
			m.Ins = append(m.Ins, JWire{Node: l.InNode.Id, W: bits(l.ConnectionWeight), Rec: l.IsRecurrent, Trait: traitRef(l.Trait)})
			if !nodeSet[l.InNode] {
				why(fmt.Sprintf("module %d: input wire endpoint is not a listed node object", cg.ControlNode.Id))
			}
		}
		for _, l := range cg.ControlNode.Outgoing {
			m.Outs = append(m.Outs, JWire{Node: l.OutNode.Id, W: bits(l.ConnectionWeight), Rec: l.IsRecurrent, Trait: traitRef(l.Trait)})
			if !nodeSet[l.OutNode] {
				why(fmt.Sprintf("module %d: output wire endpoint is not a listed node object", cg.ControlNode.Id))
			}
		}
		ownTrait(cg.ControlNode.Trait, fmt.Sprintf("control node %d", cg.ControlNode.Id))
		j.Modules = append(j.Modules, m)
	}
	return j
}

func uniqueId(g *genetics.Genome, id int) bool {
	c := 0
	for _, n := range g.Nodes {
		if n.Id == id {
			c++
		}
	}
	return c == 1
}

// sharesState reports whether two genomes share any mutable object (trait, node, gene, link)
func sharesState(a, b *genetics.Genome) string {
	ptrs := map[interface{}]bool{}
	for _, t := range a.Traits {
		ptrs[t] = true
	}
	for _, n := range a.Nodes {
		ptrs[n] = true
	}
	for _, gn := range a.Genes {
		ptrs[gn] = true
		ptrs[gn.Link] = true
	}
	for _, cg := range a.ControlGenes {
		ptrs[cg] = true
		ptrs[cg.ControlNode] = true
		for _, l := range cg.ControlNode.Incoming {
			ptrs[l] = true
		}
		for _, l := range cg.ControlNode.Outgoing {
			ptrs[l] = true
		}
	}
	chk := func(p interface{}, what string) string {
		if ptrs[p] {
			return what
		}
		return ""
	}
	for _, t := range b.Traits {
		if s := chk(t, "trait"); s != "" {
			return s
		}
	}
	for _, n := range b.Nodes {
		if s := chk(n, "node"); s != "" {
			return s
		}
		if n.Trait != nil && ptrs[n.Trait] {
			return "node.trait"
		}
	}
	for _, gn := range b.Genes {
		if ptrs[gn] {
			return "gene"
		}
		if ptrs[gn.Link] {
			return "link"
		}
		if ptrs[gn.Link.InNode] || ptrs[gn.Link.OutNode] {
			return "link endpoint"
		}
		if gn.Link.Trait != nil && ptrs[gn.Link.Trait] {
			return "link.trait"
		}
	}
	for _, cg := range b.ControlGenes {
		if ptrs[cg] || ptrs[cg.ControlNode] {
			return "control gene/node"
		}
		for _, l := range append(append([]*network.Link{}, cg.ControlNode.Incoming...), cg.ControlNode.Outgoing...) {
			if ptrs[l] || ptrs[l.InNode] || ptrs[l.OutNode] {
				return "module wire"
			}
		}
	}
	return ""
}

/* ---------- options ---------- */

type JCompatOpts struct {
	Disjoint uint64 `json:"disjoint"`
	Excess   uint64 `json:"excess"`
	Mutdiff  uint64 `json:"mutdiff"`
	Linear   bool   `json:"linear"`
}

func dumpCompatOpts(o *neat.Options) JCompatOpts {
	return JCompatOpts{Disjoint: bits(o.DisjointCoeff), Excess: bits(o.ExcessCoeff), Mutdiff: bits(o.MutdiffCoeff),
		Linear: o.GenCompatMethod == neat.GenomeCompatibilityMethodLinear}
}

// exactActivators are the activation types whose Go implementation uses only + - * / abs and comparisons
// (bit-reproducible in Lean, DESIGN §2.2)
var exactActivators = []neatmath.NodeActivationType{
	neatmath.LinearActivation, neatmath.LinearAbsActivation, neatmath.LinearClippedActivation, neatmath.NullActivation,
	neatmath.SignActivation, neatmath.StepActivation, neatmath.SigmoidApproximationActivation,
	neatmath.SigmoidSteepenedApproximationActivation, neatmath.SigmoidInverseAbsoluteActivation,
}

func pickCoeff(g *G) float64 {
	switch g.intn(6) {
	case 0:
		return 0
	case 1:
		return 1
	case 2:
		return 0.4
	case 3:
		return 3
	default:
		return float64(g.intn(4000)) / 1000.0
	}
}

// pickSurvivalThresh: half of the time a "round" threshold, so that survival_thresh*n is an exact integer for many species
// sizes (the boundary of floor(thresh*n)+1), otherwise any value in (0.05, 1]
func pickSurvivalThresh(g *G) float64 {
	if g.chance(0.5) {
		round := []float64{0.1, 0.2, 0.25, 0.3, 0.4, 0.5, 0.5, 0.6, 0.75, 0.8, 1.0}
		return round[g.intn(len(round))]
	}
	return 0.05 + g.f64()*0.95
}

// randOpts draws option settings within their documented ranges
func randOpts(g *G) *neat.Options {
	o := &neat.Options{
		TraitParamMutProb:      g.f64(),
		TraitMutationPower:     g.f64() * 2,
		WeightMutPower:         0.1 + g.f64()*3,
		DisjointCoeff:          pickCoeff(g),
		ExcessCoeff:            pickCoeff(g),
		MutdiffCoeff:           pickCoeff(g),
		CompatThreshold:        0.5 + g.f64()*6,
		AgeSignificance:        1.0 + float64(g.intn(3))*0.5,
		SurvivalThresh:         pickSurvivalThresh(g),
		MutateOnlyProb:         g.f64() * 0.5,
		MutateRandomTraitProb:  g.f64() * 0.3,
		MutateLinkTraitProb:    g.f64() * 0.3,
		MutateNodeTraitProb:    g.f64() * 0.3,
		MutateLinkWeightsProb:  0.5 + g.f64()*0.5,
		MutateToggleEnableProb: g.f64() * 0.3,
		MutateGeneReenableProb: g.f64() * 0.3,
		MutateAddNodeProb:      g.f64() * 0.3,
		MutateAddLinkProb:      g.f64() * 0.4,
		MutateConnectSensors:   g.f64() * 0.5,
		InterspeciesMateRate:   g.f64() * 0.3,
		MateMultipointProb:     0.2 + g.f64()*0.4,
		MateMultipointAvgProb:  0.1 + g.f64()*0.3,
		MateSinglepointProb:    0.05 + g.f64()*0.3,
		MateOnlyProb:           g.f64() * 0.5,
		RecurOnlyProb:          g.f64() * 0.4,
		PopSize:                10,
		DropOffAge:             1 + g.intn(20),
		NewLinkTries:           1 + g.intn(30),
		BabiesStolen:           0,
		NumRuns:                1,
		NumGenerations:         10,
		EpochExecutorType:      neat.EpochExecutorTypeSequential,
		GenCompatMethod:        neat.GenomeCompatibilityMethodFast,
		NodeActivators:         []neatmath.NodeActivationType{neatmath.SigmoidSteepenedActivation},
		NodeActivatorsProb:     []float64{1.0},
	}
	if g.chance(0.5) {
		o.GenCompatMethod = neat.GenomeCompatibilityMethodLinear
	}
	// documented ranges include their end points: now and then a probability is exactly 0 or exactly 1
	for _, pp := range []*float64{&o.TraitParamMutProb, &o.MutateOnlyProb, &o.MutateRandomTraitProb, &o.MutateLinkTraitProb,
		&o.MutateNodeTraitProb, &o.MutateLinkWeightsProb, &o.MutateToggleEnableProb, &o.MutateGeneReenableProb, &o.MutateAddNodeProb,
		&o.MutateAddLinkProb, &o.MutateConnectSensors, &o.InterspeciesMateRate, &o.MateMultipointProb, &o.MateMultipointAvgProb,
		&o.MateSinglepointProb, &o.MateOnlyProb, &o.RecurOnlyProb} {
		if g.chance(0.05) {
			*pp = float64(g.intn(2))
		}
	}
	if g.chance(0.5) {
		// several activators with a roulette choice
		k := 2 + g.intn(3)
		o.NodeActivators = nil
		o.NodeActivatorsProb = nil
		for i := 0; i < k; i++ {
			o.NodeActivators = append(o.NodeActivators, exactActivators[g.intn(len(exactActivators))])
			o.NodeActivatorsProb = append(o.NodeActivatorsProb, float64(1+g.intn(4))*0.25)
		}
	}
	return o
}

/* ---------- genome generators ---------- */

var startGenomeFiles = []string{"xorstartgenes", "pole1startgenes", "pole2_markov_startgenes",
	"pole2_non-markov_startgenes", "xordisconnectedstartgenes"}

func repoDir() string {
	if d := os.Getenv("VERIF_REPO"); d != "" {
		return d
	}
	return "/repo"
}

func loadStartGenome(name string) *genetics.Genome {
	p := filepath.Join(repoDir(), "data", name)
	f, err := os.Open(p)
	if err != nil {
		panic(err)
	}
	defer f.Close()
	r, err := genetics.NewGenomeReader(f, genetics.PlainGenomeEncoding)
	if err != nil {
		panic(err)
	}
	gn, err := r.Read()
	if err != nil {
		panic(err)
	}
	return gn
}

func loadYamlGenome(name string) *genetics.Genome {
	p := filepath.Join(repoDir(), "data", name)
	f, err := os.Open(p)
	if err != nil {
		panic(err)
	}
	defer f.Close()
	r, err := genetics.NewGenomeReader(f, genetics.YAMLGenomeEncoding)
	if err != nil {
		panic(err)
	}
	gn, err := r.Read()
	if err != nil {
		panic(err)
	}
	return gn
}

// handGenome builds a small well-formed genome by hand: nIn inputs (+1 bias), nOut outputs, nHid hidden nodes,
// random forward links, consecutive trait ids starting at t0, some nil traits.
func handGenome(g *G, id int) *genetics.Genome {
	nTraits := 1 + g.intn(4)
	t0 := 1 + g.intn(3)
	traits := make([]*neat.Trait, nTraits)
	for i := range traits {
		tr := neat.NewTrait()
		tr.Id = t0 + i
		for k := range tr.Params {
			tr.Params[k] = float64(g.intn(100)) / 10
		}
		traits[i] = tr
	}
	pickTrait := func() *neat.Trait {
		if g.chance(0.3) {
			return nil
		}
		return traits[g.intn(nTraits)]
	}
	nIn, nOut, nHid := 1+g.intn(3), 1+g.intn(2), g.intn(4)
	nodes := make([]*network.NNode, 0)
	id0 := 1
	if g.chance(0.15) {
		id0 = 0 // node ids may start at zero (legal: ascending unique ids; several library helpers treat 0 as "no id")
	}
	bias := network.NewSensorNode(id0, true)
	bias.Trait = pickTrait()
	nodes = append(nodes, bias)
	id0++
	for i := 0; i < nIn; i++ {
		n := network.NewSensorNode(id0, false)
		n.Trait = pickTrait()
		nodes = append(nodes, n)
		id0++
	}
	// outputs may come before or after hidden nodes in id order
	mk := func(kind network.NodeNeuronType) {
		n := network.NewNNode(id0, kind)
		n.ActivationType = exactActivators[g.intn(len(exactActivators))]
		n.Trait = pickTrait()
		nodes = append(nodes, n)
		id0++
	}
	for i := 0; i < nOut; i++ {
		mk(network.OutputNeuron)
	}
	for i := 0; i < nHid; i++ {
		mk(network.HiddenNeuron)
	}
	genes := make([]*genetics.Gene, 0)
	inn := int64(1 + g.intn(3))
	seen := map[[3]int]bool{}
	tries := 3 + g.intn(10)
	for k := 0; k < tries; k++ {
		a := nodes[g.intn(len(nodes))]
		b := nodes[1+nIn+g.intn(len(nodes)-1-nIn)]
		rec := g.chance(0.15)
		key := [3]int{a.Id, b.Id, 0}
		if rec {
			key[2] = 1
		}
		if seen[key] {
			continue
		}
		seen[key] = true
		w := (g.f64() - 0.5) * 4
		gn := genetics.NewGeneWithTrait(pickTrait(), w, a, b, rec, inn, w)
		if g.chance(0.2) {
			gn.IsEnabled = false
		}
		genes = append(genes, gn)
		inn += int64(1 + g.intn(2))
	}
	if len(genes) == 0 {
		gn := genetics.NewGeneWithTrait(pickTrait(), 0.5, nodes[0], nodes[1+nIn], false, inn, 0.5)
		genes = append(genes, gn)
	}
	return genetics.NewGenome(id, traits, nodes, genes)
}

/* ---------- lineage pool: genomes with a common ancestry, evolved by the real operators ---------- */

type Pool struct {
	members []*genetics.Genome
	pop     *genetics.Population // innovation observer + node id generator
	opts    *neat.Options
	origin  string
}

// newPool builds a pool of k descendants of one start genome and evolves it for `steps` operator applications
func newPool(g *G, k, steps int) *Pool {
	var start *genetics.Genome
	origin := ""
	switch c := g.intn(10); {
	case c < 5:
		origin = startGenomeFiles[g.intn(len(startGenomeFiles))]
		start = loadStartGenome(origin)
	default:
		origin = "hand"
		start = handGenome(g, 0)
	}
	p := &Pool{pop: genetics.VerifNewEmptyPopulation(), opts: randOpts(g), origin: origin}
	lastNode, err := genetics.VerifLastNodeId(start)
	if err != nil {
		panic(err)
	}
	nextInn, err := genetics.VerifNextGeneInnovNum(start)
	if err != nil {
		panic(err)
	}
	genetics.VerifPopSetCounters(p.pop, nextInn-1, int32(lastNode+1))
	rand.Seed(g.seed63())
	for i := 0; i < k; i++ {
		d := cloneGenome(start)
		d.Id = i
		_, _ = genetics.VerifMutateLinkWeights(d, 1.0, 1.0, false)
		p.members = append(p.members, d)
	}
	p.evolve(g, steps)
	return p
}

// evolve applies `steps` random operators (global rand is seeded from the generator PRNG)
func (p *Pool) evolve(g *G, steps int) {
	rand.Seed(g.seed63())
	for s := 0; s < steps; s++ {
		i := g.intn(len(p.members))
		m := p.members[i]
		switch c := g.intn(20); {
		case c < 4:
			m.Phenotype = nil
			_, _ = genetics.VerifMutateAddNode(m, p.pop, p.pop, p.opts)
		case c < 8:
			m.Phenotype = nil
			_, _ = genetics.VerifMutateAddLink(m, p.pop, 1, p.opts)
		case c < 9:
			_, _ = genetics.VerifMutateConnectSensors(m, p.pop, p.opts)
		case c < 11:
			_, _ = genetics.VerifMutateLinkWeights(m, p.opts.WeightMutPower, 1.0, false)
		case c < 13:
			_, _ = genetics.VerifMutateToggleEnable(m, 1+g.intn(2))
		case c < 14:
			_, _ = genetics.VerifMutateGeneReEnable(m)
		case c < 15:
			_, _ = genetics.VerifMutateAllNonstructural(m, p.opts)
		case c < 16:
			// forget the generation's innovation records (as the epoch end does)
			genetics.VerifPopSetInnovations(p.pop, nil)
		default:
			j := g.intn(len(p.members))
			o := p.members[j]
			var child *genetics.Genome
			var err error
			f1, f2 := float64(g.intn(3)), float64(g.intn(3))
			switch g.intn(3) {
			case 0:
				child, err = genetics.VerifMateMultipoint(m, o, i, f1, f2)
			case 1:
				child, err = genetics.VerifMateMultipointAvg(m, o, i, f1, f2)
			default:
				child, err = genetics.VerifMateSinglePoint(m, o, i)
			}
			if err == nil && child != nil && len(child.Genes) > 0 {
				p.members[g.intn(len(p.members))] = child
			}
		}
	}
	for _, m := range p.members {
		m.Phenotype = nil
	}
}

// poolGenome returns an evolved genome (the pool itself keeps evolving between cases)
func (g *G) poolOf(k int) *Pool {
	if g.pool == nil || g.caseNo%25 == 0 {
		g.pool = newPool(g, k, 5+g.intn(60))
	} else {
		g.pool.evolve(g, 1+g.intn(6))
	}
	return g.pool
}

func (p *Pool) pick(g *G) *genetics.Genome { return p.members[g.intn(len(p.members))] }

func errStr(err error) *string {
	if err == nil {
		return nil
	}
	s := err.Error()
	return &s
}

// cloneGenome is the harness's own deep copy (independent of Genome.duplicate, which is under test):
// generators use it to get private, exact copies of pool members.
func cloneGenome(src *genetics.Genome) *genetics.Genome {
	traits := make([]*neat.Trait, len(src.Traits))
	tmap := map[*neat.Trait]*neat.Trait{}
	for i, t := range src.Traits {
		nt := &neat.Trait{Id: t.Id, Params: append([]float64{}, t.Params...)}
		traits[i] = nt
		tmap[t] = nt
	}
	tr := func(t *neat.Trait) *neat.Trait {
		if t == nil {
			return nil
		}
		if nt, ok := tmap[t]; ok {
			return nt
		}
		return &neat.Trait{Id: t.Id, Params: append([]float64{}, t.Params...)} // foreign trait stays foreign
	}
	nodes := make([]*network.NNode, len(src.Nodes))
	nmap := map[*network.NNode]*network.NNode{}
	cn := func(n *network.NNode) *network.NNode {
		c := network.NewNNode(n.Id, n.NeuronType)
		c.ActivationType = n.ActivationType
		c.Trait = tr(n.Trait)
		return c
	}
	for i, n := range src.Nodes {
		nodes[i] = cn(n)
		nmap[n] = nodes[i]
	}
	nd := func(n *network.NNode) *network.NNode {
		if c, ok := nmap[n]; ok {
			return c
		}
		return cn(n) // dangling endpoint stays dangling
	}
	genes := make([]*genetics.Gene, len(src.Genes))
	for i, gn := range src.Genes {
		l := network.NewLinkWithTrait(tr(gn.Link.Trait), gn.Link.ConnectionWeight, nd(gn.Link.InNode), nd(gn.Link.OutNode), gn.Link.IsRecurrent)
		genes[i] = genetics.NewConnectionGene(l, gn.InnovationNum, gn.MutationNum, gn.IsEnabled)
	}
	if len(src.ControlGenes) == 0 {
		return genetics.NewGenome(src.Id, traits, nodes, genes)
	}
	mods := make([]*genetics.MIMOControlGene, len(src.ControlGenes))
	for i, cg := range src.ControlGenes {
		c := cn(cg.ControlNode)
		for _, l := range cg.ControlNode.Incoming {
			nl := network.NewLinkWithTrait(tr(l.Trait), l.ConnectionWeight, nd(l.InNode), c, l.IsRecurrent)
			c.Incoming = append(c.Incoming, nl)
		}
		for _, l := range cg.ControlNode.Outgoing {
			nl := network.NewLinkWithTrait(tr(l.Trait), l.ConnectionWeight, c, nd(l.OutNode), l.IsRecurrent)
			c.Outgoing = append(c.Outgoing, nl)
		}
		m := genetics.NewMIMOGene(c, cg.InnovationNum, cg.MutationNum, cg.IsEnabled)
		mods[i] = m
	}
	return genetics.NewModularGenome(src.Id, traits, nodes, genes, mods)
}
