package main

// fillStats: Generation.FillPopulationStatistics / Average / ChampionComplexity of the real code on real populations
// (spawned from a start genome or random-topology, after 0..3 real epochs), with assorted fitness landscapes; the
// record is then read through a one-generation Trial (ChampionsFitness, ChampionSpeciesAges, ChampionsComplexities,
// Diversity, Average).

import (
	"context"
	"math"
	"math/rand"

	"github.com/yaricom/goNEAT/v4/experiment"
	"github.com/yaricom/goNEAT/v4/neat"
	"github.com/yaricom/goNEAT/v4/neat/genetics"
)

func init() { register("fillStats", opFillStats) }

var fillLandscapes = []string{"negative", "hugeNegative", "mixedHuge", "atMinInt", "speciesTies", "secondKey", "allEqual"}

// assignFillFitness: the landscapes of assignFitness plus the ones that matter for the running maximum that starts at
// float64(math.MinInt64) and for the two-key order of Organisms.Less
func assignFillFitness(g *G, pop *genetics.Population, landscape string) {
	minInt := float64(math.MinInt64)
	below := []float64{minInt, minInt * 2, -1e19, -9.3e18, -1e300, -math.MaxFloat64, math.Nextafter(minInt, math.Inf(-1))}
	setHighest := func(o *genetics.Organism, h float64) {
		st := genetics.VerifOrganismState_(o)
		st.HighestFitness = h
		genetics.VerifSetOrganismState(o, st)
	}
	switch landscape {
	case "negative":
		for _, o := range pop.Organisms {
			o.Fitness = -(0.01 + g.f64()*10)
			if g.chance(0.3) {
				o.Fitness = -float64(1 + g.intn(3))
			}
		}
	case "hugeNegative":
		// every value at or below float64(MinInt64): no species best exceeds the initial maximum
		for _, o := range pop.Organisms {
			o.Fitness = below[g.intn(len(below))]
		}
	case "mixedHuge":
		// some species entirely at or below the initial maximum, others above (also only just: MinInt64 + 1 ulp)
		for _, sp := range pop.Species {
			low := g.chance(0.5)
			for _, o := range sp.Organisms {
				switch {
				case low:
					o.Fitness = below[g.intn(len(below))]
				case g.chance(0.3):
					o.Fitness = math.Nextafter(minInt, 0)
				case g.chance(0.3):
					o.Fitness = -1e18 * g.f64()
				default:
					o.Fitness = -5 + g.f64()*10
				}
			}
		}
	case "atMinInt":
		for _, o := range pop.Organisms {
			o.Fitness = minInt
			if g.chance(0.2) {
				o.Fitness = math.Nextafter(minInt, 0)
			}
		}
	case "speciesTies":
		// the best values of several species coincide: the FIRST species attaining the maximum must win
		top := float64(1 + g.intn(3))
		for _, sp := range pop.Species {
			for _, o := range sp.Organisms {
				o.Fitness = top * g.f64() * 0.9
			}
			if len(sp.Organisms) > 0 && g.chance(0.7) {
				sp.Organisms[g.intn(len(sp.Organisms))].Fitness = top
				if g.chance(0.3) {
					sp.Organisms[g.intn(len(sp.Organisms))].Fitness = top
				}
			}
		}
	case "secondKey":
		// equal fitness inside a species, order decided by the highest-fitness key (also tied there)
		for _, o := range pop.Organisms {
			o.Fitness = float64(g.intn(3))
			setHighest(o, float64(g.intn(4)))
		}
	case "allEqual":
		v := []float64{0, 3.5, -2, minInt}[g.intn(4)]
		for _, o := range pop.Organisms {
			o.Fitness = v
			if g.chance(0.5) {
				setHighest(o, float64(g.intn(2)))
			}
		}
	default:
		assignFitness(g, pop, landscape)
	}
}

type JFillOut struct {
	Err        *string    `json:"err"`
	Diversity  int        `json:"diversity"`
	Fitness    []uint64   `json:"fitness"`
	Age        []uint64   `json:"age"`
	Complexity []uint64   `json:"complexity"`
	Champion   *[2]int    `json:"champion"` // position (species, organism) in the population AFTER the call
	ChampAlien bool       `json:"champAlien"`
	Order      [][]int    `json:"order"` // per species: the positions BEFORE the call of its organisms, in the order AFTER it
	After      *JPop      `json:"after"`
	Avg        [3]uint64  `json:"avg"`
	ChampCx    int        `json:"champComplexity"`
	OrgCx      [][]int    `json:"orgComplexity"` // organismComplexity of every organism (after-order)
	Trial      *JFillTrial `json:"trial"`
}

type JFillTrial struct {
	Fitness []uint64    `json:"fitness"`
	Ages    []uint64    `json:"ages"`
	Complex []uint64    `json:"complex"`
	Divers  []uint64    `json:"diversity"`
	Avg     [3][]uint64 `json:"avg"`
}

func opFillStats(g *G) (interface{}, []uint64, int, interface{}) {
	// ---- a real population ----
	var pop *genetics.Population
	var opts *neat.Options
	origin := ""
	if g.chance(0.25) {
		opts = popOpts(g)
		in, out, maxH := 1+g.intn(3), 1+g.intn(2), 1+g.intn(4)
		for try := 0; try < 30 && pop == nil; try++ {
			rand.Seed(g.seed63())
			func() {
				defer func() {
					if recover() != nil {
						pop = nil
					}
				}()
				var err error
				pop, err = genetics.NewPopulationRandom(in, out, maxH, g.chance(0.5), 0.4+g.f64()*0.5, opts)
				if err != nil {
					pop = nil
				}
			}()
		}
		origin = "randpop"
	}
	if pop == nil {
		sc := newScenario(g)
		if sc == nil {
			return nil, nil, 0, nil
		}
		pop, opts, origin = sc.pop, sc.opts, sc.origin
	}
	// ---- 0..3 real epochs (public NextEpoch), each after an evaluation with some landscape ----
	epochs := g.intn(4)
	done := 0
	all := append(append([]string{}, landscapes...), fillLandscapes...)
	for e := 0; e < epochs; e++ {
		assignFitness(g, pop, landscapes[g.intn(len(landscapes))])
		rand.Seed(g.seed63())
		ok := func() (ok bool) {
			defer func() {
				if recover() != nil {
					ok = false
				}
			}()
			ex := &genetics.SequentialPopulationEpochExecutor{}
			return ex.NextEpoch(neat.NewContext(context.Background(), opts), e+1, pop) == nil
		}()
		if !ok {
			return nil, nil, 0, nil
		}
		done++
	}
	landscape := all[g.intn(len(all))]
	assignFillFitness(g, pop, landscape)
	// ---- variants ----
	variant := "plain"
	switch c := g.intn(40); {
	case c == 0 && len(pop.Species) > 0:
		// an empty species (C02's invariant violated): Organisms[0] panics
		variant = "emptySpecies"
		pop.Species[g.intn(len(pop.Species))].Organisms = nil
	case c == 1:
		variant = "noSpecies"
		pop.Species = nil
	case c < 6:
		variant = "solved"
	}
	gen := &experiment.Generation{Id: done}
	var champ0 *[2]int
	if variant == "solved" {
		gen.Solved = true
		if g.chance(0.7) && len(pop.Species) > 0 {
			si := g.intn(len(pop.Species))
			if n := len(pop.Species[si].Organisms); n > 0 {
				oi := g.intn(n)
				gen.Champion = pop.Species[si].Organisms[oi]
				champ0 = &[2]int{si, oi}
			}
		}
	}
	before := dumpPop(pop)
	posBefore := map[*genetics.Organism]int{}
	for _, sp := range pop.Species {
		for oi, o := range sp.Organisms {
			posBefore[o] = oi
		}
	}
	// ---- the real call ----
	var pan interface{}
	func() {
		defer func() { pan = recover() }()
		gen.FillPopulationStatistics(pop)
	}()
	out := &JFillOut{Err: errClass(nil, pan)}
	if pan == nil {
		out.Diversity = gen.Diversity
		out.Fitness, out.Age, out.Complexity = bitsOf(gen.Fitness), bitsOf(gen.Age), bitsOf(gen.Complexity)
		out.Order = [][]int{}
		out.OrgCx = [][]int{}
		for si, sp := range pop.Species {
			ord, cx := []int{}, []int{}
			for oi, o := range sp.Organisms {
				ord = append(ord, posBefore[o])
				if o == gen.Champion {
					out.Champion = &[2]int{si, oi}
				}
				ph, err := o.Phenotype()
				if err != nil {
					cx = append(cx, math.MaxInt)
				} else {
					cx = append(cx, ph.Complexity())
				}
			}
			out.Order = append(out.Order, ord)
			out.OrgCx = append(out.OrgCx, cx)
		}
		out.ChampAlien = gen.Champion != nil && out.Champion == nil
		out.After = dumpPop(pop)
		f, a, c := gen.Average()
		out.Avg = [3]uint64{bits(f), bits(a), bits(c)}
		out.ChampCx = gen.ChampionComplexity()
		tr := &experiment.Trial{Id: 0, Generations: experiment.Generations{*gen}}
		tf, ta, tc := tr.Average()
		out.Trial = &JFillTrial{Fitness: bitsOf(tr.ChampionsFitness()), Ages: bitsOf(tr.ChampionSpeciesAges()),
			Complex: bitsOf(tr.ChampionsComplexities()), Divers: bitsOf(tr.Diversity()),
			Avg: [3][]uint64{bitsOf(tf), bitsOf(ta), bitsOf(tc)}}
	}
	in := map[string]interface{}{"pop": before, "solved": gen.Solved, "champ0": champ0, "landscape": landscape,
		"origin": origin, "epochs": done, "variant": variant}
	return in, nil, 0, out
}
