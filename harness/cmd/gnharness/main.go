// gnharness: correspondence harness (DESIGN §2.5a). Runs the real goNEAT functions (built from /repo's
// working tree with -tags verif) on generated inputs and prints one JSON object per line:
//   {"i":n,"op":name,"in":{...},"rand":[raw int63...],"consumed":k,"out":{...}}
// The Lean driver recomputes "out" from "in" with the model and evaluates the specification predicates
// on the implementation's "out".
package main

import (
	"bufio"
	"encoding/json"
	"flag"
	"fmt"
	"os"
	"sort"
	"strings"

	"github.com/yaricom/goNEAT/v4/neat"
)

// Case is one line of the protocol
type Case struct {
	I        int         `json:"i"`
	Op       string      `json:"op"`
	In       interface{} `json:"in"`
	Rand     []uint64    `json:"rand,omitempty"`
	Consumed int         `json:"consumed"`
	Out      interface{} `json:"out"`
}

// OpFunc generates one case for an op using the generator PRNG state in G
type OpFunc func(g *G) (in interface{}, rnd []uint64, consumed int, out interface{})

var ops = map[string]OpFunc{}

func register(name string, f OpFunc) { ops[name] = f }

func main() {
	opList := flag.String("ops", "", "comma separated op names (or 'list')")
	n := flag.Int("n", 100, "cases per op")
	seed := flag.Int64("seed", 1, "generator seed")
	tier := flag.String("tier", "quick", "quick|thorough (generators may widen)")
	replay := flag.String("replay", "", "replay file: re-run the listed cases' generator positions")
	flag.Parse()
	neat.LogLevel = neat.LogLevelError

	if *opList == "list" {
		names := make([]string, 0)
		for k := range ops {
			names = append(names, k)
		}
		sort.Strings(names)
		fmt.Println(strings.Join(names, "\n"))
		return
	}
	_ = replay
	w := bufio.NewWriterSize(os.Stdout, 1<<20)
	defer w.Flush()
	enc := json.NewEncoder(w)
	idx := 0
	for _, name := range strings.Split(*opList, ",") {
		f, ok := ops[name]
		if !ok {
			fmt.Fprintf(os.Stderr, "unknown op %q\n", name)
			os.Exit(2)
		}
		g := newG(*seed, name, *tier == "thorough")
		for k := 0; k < *n; k++ {
			g.caseNo = k
			in, rnd, consumed, out := f(g)
			if in == nil {
				continue
			}
			if err := enc.Encode(Case{I: idx, Op: name, In: in, Rand: rnd, Consumed: consumed, Out: out}); err != nil {
				fmt.Fprintf(os.Stderr, "encode: %v\n", err)
				os.Exit(2)
			}
			idx++
		}
	}
}
