package main

// op parInterleave (C16): deterministic interleavings of the registry traffic of several structural mutations on ONE shared
// Population, at the granularity of the InnovationsObserver / NodeIdGenerator calls (the registry operations of
// Model/ParEpoch.lean: snapshot / nextNode / nextInn / store).
// Thread i mutates its own genome; at a chosen observer call of thread i the whole thread i+1 runs (nested), i.e. another
// goroutine gets all its counter draws / record lookups / stores in between two calls of thread i. No goroutines, no locks
// held across calls - every such schedule is one the parallel executor can produce.
//
// CORRESPONDENCE under interference: the case records
//   - the TRACE of registry operations in global order: [thread, kind, value] per observer call (kind 0 snapshot, 1 nextNode,
//     2 nextInn, 3 store; value = number of records seen / the number returned) plus the stored record for kind 3 -
//     one scheduler pick of the model's `pstep` per entry;
//   - per thread the raw Int63 values it consumed from the global math/rand source, in its own order: the position of the
//     global stream is located (as withSeed does, by a probe draw that is found in a mirror source) whenever control passes
//     between threads - at hook entry before the nested thread starts and when it returns;
//   - inputs (genome, mutator kind, trigger point per thread; options; registry before) and outputs (flag / error class and
//     genome per thread; registry afterwards).

import (
	"math/rand"

	"github.com/yaricom/goNEAT/v4/neat"
	"github.com/yaricom/goNEAT/v4/neat/genetics"
)

func init() { register("parInterleave", opParInterleave) }

type ilThread struct {
	genome *genetics.Genome
	kind   int // 0 add-node, 1 add-link, 2 connect-sensors
	at     int // the observer call before which the next thread runs (-1: never)
	ok     bool
	err    string
	nested int // the observer call at which the next thread really ran nested (-1: it ran afterwards / there is none)
	stream []uint64
}

type ilTraceEntry struct {
	T   int     `json:"t"`
	K   int     `json:"k"`
	V   int64   `json:"v"`
	Rec *JInnov `json:"rec,omitempty"`
}

type ilRun struct {
	pop     *genetics.Population
	opts    *neat.Options
	threads []*ilThread
	trace   []ilTraceEntry
	mirror  *rand.Rand
	owner   int
	probes  int
}

// switchTo: control passes to thread `owner`. A probe draw from the global source is located in the mirror; the values in
// front of it were consumed by the thread that ran until now. (The probe value itself belongs to nobody.)
func (r *ilRun) switchTo(owner int) {
	probe := rand.Int63()
	r.probes++
	cur := r.threads[r.owner]
	for n := 0; ; n++ {
		v := r.mirror.Int63()
		if v == probe {
			break
		}
		cur.stream = append(cur.stream, uint64(v))
		if n > 50_000_000 {
			panic("parInterleave: cannot locate the position of the global stream")
		}
	}
	r.owner = owner
}

type ilObserver struct {
	run   *ilRun
	idx   int
	calls int
	fired bool
}

func (o *ilObserver) hook() {
	r := o.run
	t := r.threads[o.idx]
	if !o.fired && t.at == o.calls && o.idx+1 < len(r.threads) {
		o.fired = true
		t.nested = o.calls
		r.switchTo(o.idx + 1)
		r.runThread(o.idx + 1)
		r.switchTo(o.idx)
	}
	o.calls++
}

func innovRec(in genetics.Innovation) *JInnov {
	v := genetics.VerifInnovationFields(in)
	return &JInnov{Typ: v.Type, InId: v.InNodeId, OutId: v.OutNodeId, Inn: v.InnovationNum, Inn2: v.InnovationNum2,
		W: bits(v.NewWeight), TraitNum: v.NewTraitNum, NewNode: v.NewNodeId, OldInn: v.OldInnovNum, Rec: v.IsRecurrent}
}

func (o *ilObserver) Innovations() []genetics.Innovation {
	o.hook()
	recs := o.run.pop.Innovations()
	o.run.trace = append(o.run.trace, ilTraceEntry{T: o.idx, K: 0, V: int64(len(recs))})
	return recs
}
func (o *ilObserver) NextNodeId() int {
	o.hook()
	v := o.run.pop.NextNodeId()
	o.run.trace = append(o.run.trace, ilTraceEntry{T: o.idx, K: 1, V: int64(v)})
	return v
}
func (o *ilObserver) NextInnovationNumber() int64 {
	o.hook()
	v := o.run.pop.NextInnovationNumber()
	o.run.trace = append(o.run.trace, ilTraceEntry{T: o.idx, K: 2, V: v})
	return v
}
func (o *ilObserver) StoreInnovation(in genetics.Innovation) {
	o.hook()
	o.run.trace = append(o.run.trace, ilTraceEntry{T: o.idx, K: 3, V: 0, Rec: innovRec(in)})
	o.run.pop.StoreInnovation(in)
}

func (r *ilRun) runThread(i int) {
	t := r.threads[i]
	obs := &ilObserver{run: r, idx: i}
	defer func() {
		if rec := recover(); rec != nil {
			if e := errClass(nil, rec); e != nil {
				t.err = *e
			}
		}
		// a thread whose trigger point was never reached still lets the following threads run (sequentially afterwards)
		if !obs.fired && i+1 < len(r.threads) {
			obs.fired = true
			r.switchTo(i + 1)
			r.runThread(i + 1)
			r.switchTo(i)
		}
	}()
	var err error
	switch t.kind {
	case 0:
		t.ok, err = genetics.VerifMutateAddNode(t.genome, obs, obs, r.opts)
	case 1:
		t.genome.Phenotype = nil
		t.ok, err = genetics.VerifMutateAddLink(t.genome, obs, 1, r.opts)
	default:
		t.ok, err = genetics.VerifMutateConnectSensors(t.genome, obs, r.opts)
	}
	if err != nil {
		if e := errClass(err, nil); e != nil {
			t.err = *e
		}
	}
}

func opParInterleave(g *G) (interface{}, []uint64, int, interface{}) {
	opts := popOpts(g)
	opts.PopSize = 2 + g.intn(3) // 2..4 threads
	opts.CompatThreshold = 1e6
	opts.RecurOnlyProb = g.f64() * 0.3
	start := handGenome(g, 0)
	origin := "hand"
	if g.chance(0.6) {
		origin = startGenomeFiles[g.intn(len(startGenomeFiles))]
		start = loadStartGenome(origin)
	}
	if len(start.ControlGenes) > 0 {
		return nil, nil, 0, nil
	}
	rand.Seed(g.seed63())
	pop, err := genetics.NewPopulation(start, opts)
	if err != nil {
		return nil, nil, 0, nil
	}
	// a few sequential structural mutations first, so that genomes differ and records exist; on a twin (70%) the record
	// exists while no genome carries the innovation yet: every thread that makes the same choice finds a MATCHING record
	warm := g.intn(4)
	for i := 0; i < warm; i++ {
		gn := pop.Organisms[g.intn(len(pop.Organisms))].Genotype
		if g.chance(0.7) {
			gn = cloneGenome(gn)
		}
		func() {
			defer func() { _ = recover() }()
			if g.chance(0.5) {
				_, _ = genetics.VerifMutateAddNode(gn, pop, pop, opts)
			} else {
				gn.Phenotype = nil
				_, _ = genetics.VerifMutateAddLink(gn, pop, 1, opts)
			}
		}()
	}
	regMode := "records"
	if g.chance(0.4) {
		genetics.VerifPopSetInnovations(pop, nil) // a new generation: records forgotten, counters kept
		regMode = "cleared"
	}
	if len(genetics.VerifPopInnovationsRaw(pop)) == 0 {
		regMode = "empty"
	}
	n := len(pop.Organisms)
	threads := make([]*ilThread, n)
	var before []*JGenome
	for i, o := range pop.Organisms {
		k := 0
		switch r := g.intn(10); {
		case r < 6:
			k = 0
		case r < 9:
			k = 1
		default:
			k = 2
		}
		if origin == "xordisconnectedstartgenes" && g.chance(0.4) {
			k = 2 // the shipped genome with a disconnected sensor: connect-sensors really adds links
		}
		// add-node performs at most 5 registry calls (indices 0..4), add-link 3, connect-sensors up to 3 per output: EVERY call
		// index occurs as trigger point; 10%: never, 10%: an index beyond the last call (the next thread then runs afterwards)
		last := 4
		switch k {
		case 1:
			last = 2
		case 2:
			last = 8
		}
		at := g.intn(last + 1)
		switch c := g.intn(10); {
		case c == 0:
			at = -1
		case c == 1:
			at = last + 1 + g.intn(2)
		}
		threads[i] = &ilThread{genome: o.Genotype, kind: k, at: at, nested: -1}
		before = append(before, dumpGenome(o.Genotype))
	}
	regBefore := dumpReg(pop)
	seed := g.seed63()
	run := &ilRun{pop: pop, opts: opts, threads: threads, mirror: rand.New(rand.NewSource(seed))}
	rand.Seed(seed)
	run.runThread(0)
	run.switchTo(0) // flush the last segment
	total := 0
	var slack []uint64
	for i := 0; i < 8; i++ {
		slack = append(slack, uint64(run.mirror.Int63()))
	}
	var inThreads, outThreads []map[string]interface{}
	for i, t := range threads {
		consumed := len(t.stream)
		total += consumed
		// slack values so that a model that over-consumes is detected, not starved
		inThreads = append(inThreads, map[string]interface{}{"g": before[i], "kind": t.kind, "at": t.at,
			"rand": append(append([]uint64{}, t.stream...), slack...), "consumed": consumed})
		var e *string
		if t.err != "" {
			s := t.err
			e = &s
		}
		outThreads = append(outThreads, map[string]interface{}{"ok": t.ok, "err": e, "nested": t.nested, "g": dumpGenome(t.genome)})
	}
	trace := run.trace
	if trace == nil {
		trace = []ilTraceEntry{}
	}
	in := map[string]interface{}{"threads": inThreads, "reg": regBefore, "opts": dumpMutOpts(opts), "origin": origin, "regMode": regMode}
	out := map[string]interface{}{"threads": outThreads, "reg": dumpReg(pop), "trace": trace}
	return in, nil, total, out
}
