package main

// op parInterleave (C16): deterministic interleavings of the registry traffic of several structural mutations on ONE shared
// Population, at the granularity of the InnovationsObserver / NodeIdGenerator calls (the micro-steps of Model/RegistryPar.lean).
// Thread i mutates its own genome; at a chosen observer call of thread i the whole thread i+1 runs (nested), i.e. another
// goroutine gets all its counter draws / record lookups / stores in between two calls of thread i. No goroutines, no locks
// held across calls - every such schedule is one the parallel executor can produce.

import (
	"math/rand"

	"github.com/yaricom/goNEAT/v4/neat"
	"github.com/yaricom/goNEAT/v4/neat/genetics"
)

func init() { register("parInterleave", opParInterleave) }

type ilThread struct {
	genome *genetics.Genome
	kind   int // 0 add-node, 1 add-link, 2 connect-sensors
	at     int // the observer call before which the next thread runs (-1: never)
	ok     bool
	err    string
}

type ilObserver struct {
	pop     *genetics.Population
	opts    *neat.Options
	threads []*ilThread
	idx     int
	calls   int
	fired   bool
}

func (o *ilObserver) hook() {
	t := o.threads[o.idx]
	if !o.fired && t.at == o.calls && o.idx+1 < len(o.threads) {
		o.fired = true
		runIlThread(o.pop, o.opts, o.threads, o.idx+1)
	}
	o.calls++
}
func (o *ilObserver) StoreInnovation(in genetics.Innovation) { o.hook(); o.pop.StoreInnovation(in) }
func (o *ilObserver) Innovations() []genetics.Innovation     { o.hook(); return o.pop.Innovations() }
func (o *ilObserver) NextInnovationNumber() int64            { o.hook(); return o.pop.NextInnovationNumber() }
func (o *ilObserver) NextNodeId() int                        { o.hook(); return o.pop.NextNodeId() }

func runIlThread(pop *genetics.Population, opts *neat.Options, threads []*ilThread, i int) {
	t := threads[i]
	obs := &ilObserver{pop: pop, opts: opts, threads: threads, idx: i}
	defer func() {
		if r := recover(); r != nil {
			if e := errClass(nil, r); e != nil {
				t.err = *e
			}
		}
		// a thread whose trigger point was never reached still lets the following threads run (sequentially afterwards)
		if !obs.fired && i+1 < len(threads) {
			obs.fired = true
			runIlThread(pop, opts, threads, i+1)
		}
	}()
	var err error
	switch t.kind {
	case 0:
		t.ok, err = genetics.VerifMutateAddNode(t.genome, obs, obs, opts)
	case 1:
		t.genome.Phenotype = nil
		t.ok, err = genetics.VerifMutateAddLink(t.genome, obs, 1, opts)
	default:
		t.ok, err = genetics.VerifMutateConnectSensors(t.genome, obs, opts)
	}
	if err != nil {
		if e := errClass(err, nil); e != nil {
			t.err = *e
		}
	}
}

func opParInterleave(g *G) (interface{}, []uint64, int, interface{}) {
	opts := popOpts(g)
	opts.PopSize = 2 + g.intn(4)
	opts.CompatThreshold = 1e6
	opts.RecurOnlyProb = g.f64() * 0.3
	start := handGenome(g, 0)
	origin := "hand"
	if g.chance(0.6) {
		origin = startGenomeFiles[g.intn(len(startGenomeFiles))]
		start = loadStartGenome(origin)
	}
	rand.Seed(g.seed63())
	pop, err := genetics.NewPopulation(start, opts)
	if err != nil {
		return nil, nil, 0, nil
	}
	// a few sequential structural mutations first, so that genomes differ and records exist
	warm := g.intn(4)
	for i := 0; i < warm; i++ {
		o := pop.Organisms[g.intn(len(pop.Organisms))]
		if g.chance(0.5) {
			_, _ = genetics.VerifMutateAddNode(o.Genotype, pop, pop, opts)
		} else {
			o.Genotype.Phenotype = nil
			_, _ = genetics.VerifMutateAddLink(o.Genotype, pop, 1, opts)
		}
	}
	if g.chance(0.5) {
		genetics.VerifPopSetInnovations(pop, nil) // a new generation: records forgotten, counters kept
	}
	var before []*JGenome
	for _, o := range pop.Organisms {
		before = append(before, dumpGenome(o.Genotype))
	}
	regBefore := dumpReg(pop)
	n := len(pop.Organisms)
	threads := make([]*ilThread, n)
	for i, o := range pop.Organisms {
		k := 0
		switch r := g.intn(10); {
		case r < 6:
			k = 0
		case r < 9:
			k = 1
		default:
			k = 2
		}
		threads[i] = &ilThread{genome: o.Genotype, kind: k, at: g.intn(7) - 1}
	}
	stream, consumed := withSeed(g.seed63(), func() { runIlThread(pop, opts, threads, 0) })
	var after []*JGenome
	var res []map[string]interface{}
	for i, o := range pop.Organisms {
		after = append(after, dumpGenome(o.Genotype))
		res = append(res, map[string]interface{}{"kind": threads[i].kind, "at": threads[i].at, "ok": threads[i].ok, "err": threads[i].err})
	}
	in := map[string]interface{}{"genomes": before, "reg": regBefore, "origin": origin}
	out := map[string]interface{}{"genomes": after, "reg": dumpReg(pop), "threads": res}
	return in, stream, consumed, out
}
