package main

// Solver ops (C12, C13): networks are built with the public API (network.NewNNode, ConnectFrom, NewNetwork,
// Network.FastNetworkSolver), driven through the Solver interface, and dumped together with the hidden per-node
// state (hooks VerifNodeState_, VerifFastState_).
//
//   flushRun : (history; Flush; sequence) on one instance vs (sequence) on a freshly built identical instance,
//              standard solver or fast solver, any topology (self-loops, longer cycles, parallel links,
//              time-delayed links, shuffled node order); every step dumps result, error class, outputs and state.
//   solverRun: feed-forward DAGs; standard ForwardSteps(k), standard RecursiveSteps, fast ForwardSteps(k),
//              fast RecursiveSteps, fast Relax(maxSteps, delta), each on a fresh instance.

import (
	"errors"
	"math"
	"strings"

	neatmath "github.com/yaricom/goNEAT/v4/neat/math"
	"github.com/yaricom/goNEAT/v4/neat/network"
)

func init() {
	register("flushRun", opFlushRun)
	register("solverRun", opSolverRun)
}

/* ---------- network specifications and canonical dumps ---------- */

type linkSpec struct {
	src, dst int
	w        float64
	td       bool
	rec      bool // Link.IsRecurrent: a per-link flag copied from the gene at Genesis, NOT a statement about the topology
}

type nodeSpec struct {
	id   int
	kind network.NodeNeuronType
	act  neatmath.NodeActivationType
}

type netSpec struct {
	nodes   []nodeSpec
	links   []linkSpec
	inputs  []int
	outputs []int
	id      int
}

func (sp *netSpec) build() *network.Network {
	nodes := make([]*network.NNode, len(sp.nodes))
	for i, ns := range sp.nodes {
		n := network.NewNNode(ns.id, ns.kind)
		n.ActivationType = ns.act
		nodes[i] = n
	}
	for _, l := range sp.links {
		lk := nodes[l.dst].ConnectFrom(nodes[l.src], l.w)
		lk.IsTimeDelayed = l.td
		lk.IsRecurrent = l.rec
	}
	in := make([]*network.NNode, len(sp.inputs))
	for i, k := range sp.inputs {
		in[i] = nodes[k]
	}
	out := make([]*network.NNode, len(sp.outputs))
	for i, k := range sp.outputs {
		out[i] = nodes[k]
	}
	return network.NewNetwork(in, out, nodes, sp.id)
}

type JNLink struct {
	Src int    `json:"src"`
	Dst int    `json:"dst"`
	W   uint64 `json:"w"`
	Rec bool   `json:"rec"`
	Td  bool   `json:"td"`
}

type JNNode struct {
	Id   int      `json:"id"`
	Kind int      `json:"kind"`
	Act  int      `json:"act"`
	In   []JNLink `json:"in"`
}

type JNet struct {
	Id      int      `json:"id"`
	Nodes   []JNNode `json:"nodes"`
	Inputs  []int    `json:"inputs"`
	Outputs []int    `json:"outputs"`
}

// dumpNet dumps the network from the Go objects (pointer identity -> index in allNodes; -1 = foreign node)
func dumpNet(n *network.Network) *JNet {
	all := network.VerifNetAllNodes(n)
	idx := map[*network.NNode]int{}
	for i, nd := range all {
		if _, ok := idx[nd]; !ok {
			idx[nd] = i
		}
	}
	at := func(p *network.NNode) int {
		if i, ok := idx[p]; ok {
			return i
		}
		return -1
	}
	j := &JNet{Id: n.Id, Nodes: []JNNode{}, Inputs: []int{}, Outputs: []int{}}
	for _, nd := range all {
		jn := JNNode{Id: nd.Id, Kind: int(nd.NeuronType), Act: int(nd.ActivationType), In: []JNLink{}}
		for _, l := range nd.Incoming {
			jn.In = append(jn.In, JNLink{Src: at(l.InNode), Dst: at(l.OutNode), W: bits(l.ConnectionWeight), Rec: l.IsRecurrent, Td: l.IsTimeDelayed})
		}
		j.Nodes = append(j.Nodes, jn)
	}
	for _, p := range network.VerifNetInputs(n) {
		j.Inputs = append(j.Inputs, at(p))
	}
	for _, p := range n.Outputs {
		j.Outputs = append(j.Outputs, at(p))
	}
	return j
}

type JNodeState struct {
	Count   int    `json:"count"`
	Active  bool   `json:"active"`
	Visited bool   `json:"visited"`
	Act     uint64 `json:"act"`
	Last    uint64 `json:"last"`
	Last2   uint64 `json:"last2"`
	Sum     uint64 `json:"sum"`
}

func dumpStdState(n *network.Network) []JNodeState {
	res := []JNodeState{}
	for _, nd := range network.VerifNetAllNodes(n) {
		s := network.VerifNodeState_(nd)
		res = append(res, JNodeState{Count: int(s.ActivationsCount), Active: s.IsActive, Visited: s.Visited,
			Act: bits(s.Activation), Last: bits(s.LastActivation), Last2: bits(s.LastActivation2), Sum: bits(s.ActivationSum)})
	}
	return res
}

type JFastState struct {
	Signals    []uint64 `json:"signals"`
	Processing []uint64 `json:"processing"`
	Activated  []bool   `json:"activated"`
	InAct      []bool   `json:"inAct"`
	LastAct    []uint64 `json:"lastAct"`
}

func cpBools(b []bool) []bool { return append([]bool{}, b...) }

func dumpFastState(s *network.FastModularNetworkSolver) *JFastState {
	st := network.VerifFastState_(s)
	return &JFastState{Signals: bitsOf(st.NeuronSignals), Processing: bitsOf(st.NeuronSignalsBeingProcessed),
		Activated: cpBools(st.Activated), InAct: cpBools(st.InActivation), LastAct: bitsOf(st.LastActivation)}
}

type JFLink struct {
	Src int    `json:"src"`
	Dst int    `json:"dst"`
	W   uint64 `json:"w"`
}

type JFastNet struct {
	NBias   int        `json:"nBias"`
	NInput  int        `json:"nInput"`
	NSensor int        `json:"nSensor"`
	NOutput int        `json:"nOutput"`
	NTotal  int        `json:"nTotal"`
	Acts    []int      `json:"acts"`
	Biases  []uint64   `json:"biases"`
	Conns   []JFLink   `json:"conns"`
	RevAdj  [][]int    `json:"revAdj"`
	Matrix  [][]uint64 `json:"matrix"`
	Modules int        `json:"modules"`
}

func dumpFastNet(s *network.FastModularNetworkSolver) *JFastNet {
	st := network.VerifFastState_(s)
	j := &JFastNet{NBias: st.BiasNeuronCount, NInput: st.InputNeuronCount, NSensor: st.SensorNeuronCount,
		NOutput: st.OutputNeuronCount, NTotal: st.TotalNeuronCount, Acts: []int{}, Biases: bitsOf(st.BiasList),
		Conns: []JFLink{}, RevAdj: [][]int{}, Matrix: [][]uint64{}, Modules: len(st.Modules)}
	for _, a := range st.ActivationFunctions {
		j.Acts = append(j.Acts, int(a))
	}
	for _, c := range st.Connections {
		j.Conns = append(j.Conns, JFLink{Src: c.SourceIndex, Dst: c.TargetIndex, W: bits(c.Weight)})
	}
	for _, r := range st.ReverseAdjacentList {
		j.RevAdj = append(j.RevAdj, append([]int{}, r...))
	}
	for _, r := range st.AdjacentMatrix {
		j.Matrix = append(j.Matrix, bitsOf(r))
	}
	return j
}

func solverErrClass(err error) *string {
	if err == nil {
		return nil
	}
	var c string
	msg := err.Error()
	switch {
	case errors.Is(err, network.ErrZeroActivationStepsRequested):
		c = "zeroSteps"
	case errors.Is(err, network.ErrNetExceededMaxActivationAttempts):
		c = "exceeded"
	case errors.Is(err, network.ErrNetUnsupportedSensorsArraySize):
		c = "sensorsSize"
	case strings.HasPrefix(msg, "unknown neuron activation type"):
		c = "unknownAct"
	case strings.HasPrefix(msg, "relax is not implemented"):
		c = "notImpl"
	case strings.HasPrefix(msg, "failed to lookup"):
		c = "lookup"
	case strings.HasPrefix(msg, "failed to recursively activate"):
		c = "recFailed"
	case strings.HasPrefix(msg, "NNODE:"):
		c = "flushCheck"
	case strings.HasPrefix(msg, "panic:"):
		c = "panic"
	default:
		c = "other:" + msg
	}
	return &c
}

/* ---------- solver scripts ---------- */

type JOp struct {
	K     string   `json:"k"` // load | act | fwd | rec | relax | flush | depth (standard Network only; N = cap, 0 = MaxActivationDepth())
	Xs    []uint64 `json:"xs,omitempty"`
	N     int      `json:"n"`
	Delta uint64   `json:"delta"`
	xs    []float64
	delta float64
}

type JStep struct {
	Res   bool         `json:"res"`
	Err   *string      `json:"err"`
	Outs  []uint64     `json:"outs"`
	State []JNodeState `json:"state,omitempty"`
	Fast  *JFastState  `json:"fast,omitempty"`
	Depth *JDepthAns   `json:"depth,omitempty"` // answer of a depth query (op kind "depth")
}

// JDepthAns is what MaxActivationDepth / MaxActivationDepthWithCap returned
type JDepthAns struct {
	D int    `json:"d"`
	E string `json:"e"` // ok | exceeded | modular | other:<msg>
}

// applyDepth runs the depth query of a history on the standard network: cap 0 = MaxActivationDepth(), any other cap
// (negative ones too) = MaxActivationDepthWithCap(cap)
func applyDepth(n *network.Network, cap int) *JDepthAns {
	var d int
	var err error
	if cap == 0 {
		d, err = n.MaxActivationDepth()
	} else {
		d, err = n.MaxActivationDepthWithCap(cap)
	}
	a := &JDepthAns{D: d, E: "ok"}
	switch {
	case err == nil:
	case errors.Is(err, network.ErrMaximalNetDepthExceeded):
		a.E = "exceeded"
	case strings.HasPrefix(err.Error(), "unsupported for modular"):
		a.E = "modular"
	default:
		a.E = "other:" + err.Error()
	}
	return a
}

// applyOp runs one Solver-interface call, converting a run-time panic into the error class "panic"
func applyOp(s network.Solver, op *JOp) (res bool, err error) {
	defer func() {
		if r := recover(); r != nil {
			res = false
			err = errors.New("panic: run-time panic")
		}
	}()
	switch op.K {
	case "load":
		err = s.LoadSensors(op.xs)
		res = err == nil
	case "act":
		if op.N == 20 {
			// the documented shorthand: Activate() = ActivateSteps(20)
			res, err = s.(*network.Network).Activate()
		} else {
			res, err = s.(*network.Network).ActivateSteps(op.N)
		}
	case "fwd":
		res, err = s.ForwardSteps(op.N)
	case "rec":
		res, err = s.RecursiveSteps()
	case "relax":
		res, err = s.Relax(op.N, op.delta)
	case "flush":
		res, err = s.Flush()
	default:
		panic("unknown op kind " + op.K)
	}
	return res, err
}

func hasNaN(bs []uint64) bool {
	for _, b := range bs {
		if math.IsNaN(math.Float64frombits(b)) {
			return true
		}
	}
	return false
}

func hasInf(bs []uint64) bool {
	for _, b := range bs {
		if math.IsInf(math.Float64frombits(b), 0) {
			return true
		}
	}
	return false
}

// runScript runs the calls and dumps every step. *nan is set when the case must be discarded: a NaN was dumped, or
// an activation call ran on a state that held an infinity (the -Inf Go stores on an activation error, or an
// overflow) - such a call can produce NaNs transiently, and the sign/payload of a NaN is not portable to the model
// (Lean's Float.toBits canonicalises NaNs, math.Signbit does not).
func runScript(s network.Solver, std *network.Network, ops []*JOp, nan *bool) []JStep {
	steps := []JStep{}
	infBefore := false
	for _, op := range ops {
		if infBefore && op.K != "load" && op.K != "flush" && op.K != "depth" {
			*nan = true
		}
		var st JStep
		if op.K == "depth" {
			// a depth query between the solver calls: reads and writes nothing but the visited marks (dumped below)
			a := applyDepth(std, op.N)
			st = JStep{Res: a.E == "ok", Outs: bitsOf(s.ReadOutputs()), Depth: a}
		} else {
			res, err := applyOp(s, op)
			st = JStep{Res: res, Err: solverErrClass(err), Outs: bitsOf(s.ReadOutputs())}
		}
		if std != nil {
			st.State = dumpStdState(std)
			for _, x := range st.State {
				if hasNaN([]uint64{x.Act, x.Last, x.Last2, x.Sum}) {
					*nan = true
				}
			}
			infBefore = false
			for _, x := range st.State {
				infBefore = infBefore || hasInf([]uint64{x.Act, x.Last, x.Last2, x.Sum})
			}
		} else {
			st.Fast = dumpFastState(s.(*network.FastModularNetworkSolver))
			if hasNaN(st.Fast.Signals) || hasNaN(st.Fast.Processing) || hasNaN(st.Fast.LastAct) {
				*nan = true
			}
			infBefore = hasInf(st.Fast.Signals) || hasInf(st.Fast.Processing) || hasInf(st.Fast.LastAct)
		}
		steps = append(steps, st)
	}
	return steps
}

/* ---------- generators ---------- */

func pickWeight(g *G) float64 {
	switch g.intn(12) {
	case 0:
		return 0
	case 1:
		return 1
	case 2:
		return -1
	case 3:
		return 0.5
	case 4:
		return math.Copysign(0, -1)
	default:
		return (g.f64()*2 - 1) * 1.5
	}
}

func pickInput(g *G) float64 {
	switch g.intn(10) {
	case 0:
		return 0
	case 1:
		return 1
	case 2:
		return -1
	case 3:
		return math.Copysign(0, -1)
	default:
		return (g.f64()*2 - 1) * 2
	}
}

func pickExactAct(g *G) neatmath.NodeActivationType {
	return exactActivators[g.intn(len(exactActivators))]
}

// shuffle order of ints with the generator PRNG
func (g *G) perm(n int) []int {
	p := make([]int, n)
	for i := range p {
		p[i] = i
	}
	for i := n - 1; i > 0; i-- {
		j := g.intn(i + 1)
		p[i], p[j] = p[j], p[i]
	}
	return p
}

// genGraph: arbitrary topology (recurrent, self-loops, parallel links, time-delayed links), family name returned
// bigGraph: the next genGraph call builds a network of 520..1150 nodes (sizes at which an implementation might switch
// strategy - seeded C13-K: chunked parallel Flush for 512+ nodes), sparse enough for the model to follow
var bigGraph bool

func genGraph(g *G) (*netSpec, string) {
	sp := &netSpec{id: g.intn(100)}
	nBias, nIn, nOut, nHid := g.intn(3), 1+g.intn(3), 1+g.intn(3), g.intn(6)
	big := bigGraph
	bigGraph = false
	if big {
		nHid = 512 + g.intn(630)
	}
	if g.chance(0.1) {
		nBias = 0
	}
	kinds := []network.NodeNeuronType{}
	for i := 0; i < nBias; i++ {
		kinds = append(kinds, network.BiasNeuron)
	}
	for i := 0; i < nIn; i++ {
		kinds = append(kinds, network.InputNeuron)
	}
	for i := 0; i < nOut; i++ {
		kinds = append(kinds, network.OutputNeuron)
	}
	for i := 0; i < nHid; i++ {
		kinds = append(kinds, network.HiddenNeuron)
	}
	family := "ordered"
	if g.chance(0.5) { // allNodes in an arbitrary order: the in-place sweeps depend on it
		p := g.perm(len(kinds))
		k2 := make([]network.NodeNeuronType, len(kinds))
		for i, q := range p {
			k2[i] = kinds[q]
		}
		kinds = k2
		family = "shuffled"
	}
	idBase := 1 + g.intn(5)
	for i, k := range kinds {
		act := pickExactAct(g)
		if k == network.InputNeuron || k == network.BiasNeuron {
			if g.chance(0.7) {
				act = neatmath.NullActivation
			}
		}
		sp.nodes = append(sp.nodes, nodeSpec{id: idBase + i, kind: k, act: act})
		switch k {
		case network.InputNeuron, network.BiasNeuron:
			sp.inputs = append(sp.inputs, i)
		case network.OutputNeuron:
			sp.outputs = append(sp.outputs, i)
		}
	}
	if g.chance(0.1) && len(sp.inputs) > 1 { // inputs list in another order than allNodes
		p := g.perm(len(sp.inputs))
		in2 := make([]int, len(p))
		for i, q := range p {
			in2[i] = sp.inputs[q]
		}
		sp.inputs = in2
		family += "+inperm"
	}
	n := len(kinds)
	neurons := []int{}
	for i, k := range kinds {
		if k == network.HiddenNeuron || k == network.OutputNeuron {
			neurons = append(neurons, i)
		}
	}
	nLinks := 1 + g.intn(3*n)
	if big {
		nLinks = n + g.intn(n)
		family += "+big"
	}
	tdProb := 0.0
	if g.chance(0.4) {
		tdProb = 0.25
		family += "+td"
	}
	selfLoops, cyc := false, false
	if big {
		// a shallow forest (every neuron one or two sources of a lower level, at most 5 levels): the number of paths stays
		// linear, so depth queries and the activation loops are cheap; a few self loops keep recurrent state in play
		level := make([]int, n)
		byLevel := [][]int{append([]int{}, sp.inputs...)}
		for _, i := range neurons {
			if kinds[i] != network.HiddenNeuron {
				continue
			}
			lv := g.intn(len(byLevel))
			if lv > 3 {
				lv = 3
			}
			for c := 0; c < 1+g.intn(2); c++ {
				src := byLevel[lv][g.intn(len(byLevel[lv]))]
				sp.links = append(sp.links, linkSpec{src: src, dst: i, w: pickWeight(g)})
			}
			if g.chance(0.05) {
				sp.links = append(sp.links, linkSpec{src: i, dst: i, w: pickWeight(g)})
				selfLoops = true
			}
			level[i] = lv + 1
			if len(byLevel) <= lv+1 {
				byLevel = append(byLevel, []int{})
			}
			byLevel[lv+1] = append(byLevel[lv+1], i)
		}
		for _, i := range neurons {
			if kinds[i] == network.OutputNeuron {
				for c := 0; c < 1+g.intn(3); c++ {
					lv := g.intn(len(byLevel))
					sp.links = append(sp.links, linkSpec{src: byLevel[lv][g.intn(len(byLevel[lv]))], dst: i, w: pickWeight(g)})
				}
			}
		}
		nLinks = 0
	}
	for k := 0; k < nLinks; k++ {
		dst := neurons[g.intn(len(neurons))]
		if g.chance(0.03) { // a link INTO a sensor
			dst = sp.inputs[g.intn(len(sp.inputs))]
		}
		src := g.intn(n)
		if g.chance(0.12) {
			src = dst
		}
		if src == dst {
			selfLoops = true
		}
		sp.links = append(sp.links, linkSpec{src: src, dst: dst, w: pickWeight(g), td: g.chance(tdProb)})
		if g.chance(0.05) { // parallel link
			sp.links = append(sp.links, linkSpec{src: src, dst: dst, w: pickWeight(g)})
		}
		if g.chance(0.15) && src != dst && (kinds[src] == network.HiddenNeuron || kinds[src] == network.OutputNeuron) {
			// close a 2-cycle
			sp.links = append(sp.links, linkSpec{src: dst, dst: src, w: pickWeight(g)})
			cyc = true
		}
	}
	if selfLoops {
		family += "+self"
	}
	if cyc {
		family += "+cycle"
	}
	if g.chance(0.04) && len(neurons) > 0 { // unregistered activation type: error paths
		sp.nodes[neurons[g.intn(len(neurons))]].act = neatmath.NodeActivationType(99)
		family += "+badact"
	}
	return sp, family
}

// genDAG: feed-forward network; rank[i] = longest sensor-to-node path. deadEnd adds hidden nodes without incoming
// links (negative stream of C12).
func genDAG(g *G, deadEnd bool) (*netSpec, int, string) {
	sp := &netSpec{id: g.intn(100)}
	nBias, nIn, nOut, nHid := g.intn(4), 1+g.intn(4), 1+g.intn(3), g.intn(7)
	type nd struct {
		kind network.NodeNeuronType
		ord  int // topological position
	}
	nds := []nd{}
	for i := 0; i < nBias; i++ {
		nds = append(nds, nd{network.BiasNeuron, 0})
	}
	for i := 0; i < nIn; i++ {
		nds = append(nds, nd{network.InputNeuron, 0})
	}
	// neurons in a random topological order: outputs may feed hidden nodes and other outputs
	neuronKinds := []network.NodeNeuronType{}
	for i := 0; i < nOut; i++ {
		neuronKinds = append(neuronKinds, network.OutputNeuron)
	}
	for i := 0; i < nHid; i++ {
		neuronKinds = append(neuronKinds, network.HiddenNeuron)
	}
	family := "layered"
	if g.chance(0.6) {
		p := g.perm(len(neuronKinds))
		k2 := make([]network.NodeNeuronType, len(p))
		for i, q := range p {
			k2[i] = neuronKinds[q]
		}
		neuronKinds = k2
		family = "mixed"
	} else {
		// hidden first then outputs (classic)
		k2 := []network.NodeNeuronType{}
		for i := 0; i < nHid; i++ {
			k2 = append(k2, network.HiddenNeuron)
		}
		for i := 0; i < nOut; i++ {
			k2 = append(k2, network.OutputNeuron)
		}
		neuronKinds = k2
	}
	for i, k := range neuronKinds {
		nds = append(nds, nd{k, 1 + i})
	}
	// position in allNodes: sometimes shuffled
	pos := make([]int, len(nds))
	for i := range pos {
		pos[i] = i
	}
	if g.chance(0.5) {
		pos = g.perm(len(nds))
		family += "+shuffled"
	}
	// pos[k] = index in allNodes of topological item k
	sp.nodes = make([]nodeSpec, len(nds))
	idBase := 1 + g.intn(5)
	for k, x := range nds {
		act := pickExactAct(g)
		if x.ord == 0 {
			act = neatmath.NullActivation
		}
		sp.nodes[pos[k]] = nodeSpec{id: idBase + pos[k], kind: x.kind, act: act}
	}
	for i, ns := range sp.nodes {
		switch ns.kind {
		case network.InputNeuron, network.BiasNeuron:
			sp.inputs = append(sp.inputs, i)
		case network.OutputNeuron:
			sp.outputs = append(sp.outputs, i)
		}
	}
	nSens := nBias + nIn
	rank := make([]int, len(nds))
	dead := map[int]bool{}
	for k := nSens; k < len(nds); k++ {
		if deadEnd && nds[k].kind == network.HiddenNeuron && g.chance(0.5) {
			dead[k] = true
			continue // no incoming links at all
		}
		// sources: distinct earlier items
		nSrc := 1 + g.intn(4)
		used := map[int]bool{}
		for t := 0; t < nSrc; t++ {
			var s int
			if g.chance(0.5) && k > nSens {
				s = nSens + g.intn(k-nSens) // an earlier neuron (skip connections arise naturally)
			} else {
				s = g.intn(k)
			}
			if used[s] {
				continue
			}
			used[s] = true
			sp.links = append(sp.links, linkSpec{src: pos[s], dst: pos[k], w: pickWeight(g)})
			if rank[s]+1 > rank[k] {
				rank[k] = rank[s] + 1
			}
		}
	}
	if deadEnd {
		if len(dead) == 0 {
			return nil, 0, ""
		}
		family += "+deadend"
	}
	depth := 0
	for k := range nds {
		if rank[k] > depth {
			depth = rank[k]
		}
	}
	if depth == 0 {
		depth = 1
	}
	return sp, depth, family
}

func countKind(sp *netSpec, k network.NodeNeuronType) int {
	c := 0
	for _, n := range sp.nodes {
		if n.kind == k {
			c++
		}
	}
	return c
}

func genLoad(g *G, sp *netSpec, fast bool) *JOp {
	nIn := countKind(sp, network.InputNeuron)
	n := nIn
	if !fast {
		switch c := g.intn(20); {
		case c < 9:
			n = len(sp.inputs) // first branch: bias values supplied by the caller
		case c == 9:
			n = nIn + len(sp.inputs) + 1 // longer than anything: second branch, surplus ignored
		case c == 10 && nIn > 0:
			n = nIn - 1 // too short: run-time panic in the second branch (unless it equals len(inputs))
		}
	} else if g.chance(0.1) {
		n = nIn + 1 - 2*g.intn(2)
		if n < 0 {
			n = 0
		}
	}
	op := &JOp{K: "load", xs: make([]float64, n)}
	for i := range op.xs {
		op.xs[i] = pickInput(g)
	}
	op.Xs = bitsOf(op.xs)
	return op
}

func genOps(g *G, sp *netSpec, fast bool, k int, allowFlush bool) []*JOp {
	ops := []*JOp{}
	for i := 0; i < k; i++ {
		c := g.intn(20)
		switch {
		case c < 7:
			ops = append(ops, genLoad(g, sp, fast))
		case c < 11:
			if fast {
				ops = append(ops, &JOp{K: "fwd", N: g.intn(5) - g.intn(2)})
			} else {
				ops = append(ops, &JOp{K: "act", N: []int{-1, 0, 1, 2, 3, 5, 20}[g.intn(7)]})
			}
		case c < 15:
			ops = append(ops, &JOp{K: "fwd", N: []int{-1, 0, 1, 1, 2, 2, 3, 4}[g.intn(8)]})
		case c < 17:
			ops = append(ops, &JOp{K: "rec"})
		case c < 19:
			d := []float64{0, -1, 1e-3, 0.5, 1e-9}[g.intn(5)]
			ops = append(ops, &JOp{K: "relax", N: g.intn(6), delta: d, Delta: bits(d)})
		default:
			if allowFlush {
				ops = append(ops, &JOp{K: "flush"})
			} else {
				ops = append(ops, genLoad(g, sp, fast))
			}
		}
	}
	return ops
}

// insertAt puts op at position i of ops
func insertAt(ops []*JOp, i int, op *JOp) []*JOp {
	r := append([]*JOp{}, ops[:i]...)
	r = append(r, op)
	return append(r, ops[i:]...)
}

// addDepthQueries puts depth queries (MaxActivationDepth / MaxActivationDepthWithCap) into the history before the
// flush and into the sequence after it (standard Network only). Caps: 0 (uncapped), negative, and small positive ones
// below / at / above the true depth d of the network (taken from a separate instance). A shaped quarter of the deep
// networks gets the usage pattern "capped query that hits the cap ... Flush; LoadSensors; RecursiveSteps".
func addDepthQueries(g *G, sp *netSpec, hist, seq []*JOp) ([]*JOp, []*JOp) {
	d, err := sp.build().MaxActivationDepth()
	if err != nil {
		d = 1
	}
	pickCap := func() int {
		switch c := g.intn(10); {
		case c < 2:
			return 0
		case c == 2:
			return -1 - g.intn(2)
		case c < 6 && d >= 2:
			return 1 + g.intn(d-1) // below the depth: the cap is hit
		case c < 8:
			return d
		default:
			return d + 1 + g.intn(2)
		}
	}
	switch c := g.intn(8); {
	case c < 3: // no depth query: the histories of before
	case c < 5 && d >= 2:
		hist = insertAt(hist, g.intn(len(hist)+1), &JOp{K: "depth", N: 1 + g.intn(d-1)})
		seq = append([]*JOp{genLoad(g, sp, false), {K: "rec"}}, seq...)
	default:
		for k := g.intn(3); k > 0; k-- {
			hist = insertAt(hist, g.intn(len(hist)+1), &JOp{K: "depth", N: pickCap()})
		}
		for k := g.intn(3); k > 0; k-- {
			seq = insertAt(seq, g.intn(len(seq)+1), &JOp{K: "depth", N: pickCap()})
		}
	}
	return hist, seq
}

/* ---------- flushRun ---------- */

type flushRunIn struct {
	Net     *JNet  `json:"net"`
	Solver  string `json:"solver"` // std | fast
	Family  string `json:"family"`
	History []*JOp `json:"history"`
	Seq     []*JOp `json:"seq"`
}

type flushRunOut struct {
	BuildErr *string   `json:"buildErr"`
	FastNet  *JFastNet `json:"fastNet,omitempty"`
	Init     *JStep    `json:"init"`    // state of the freshly built instance before any call
	Flushed  []JStep   `json:"flushed"` // history ++ [flush] ++ seq
	Fresh    []JStep   `json:"fresh"`   // seq
}

func opFlushRun(g *G) (interface{}, []uint64, int, interface{}) {
	bigGraph = g.caseNo%250 == 7 || g.chance(0.002)
	sp, family := genGraph(g)
	fast := g.chance(0.5)
	in := &flushRunIn{Family: family, Solver: "std"}
	if fast {
		in.Solver = "fast"
	}
	hLen := g.intn(9)
	if g.chance(0.1) {
		hLen = 0
	}
	in.History = genOps(g, sp, fast, hLen, true)
	in.Seq = genOps(g, sp, fast, 1+g.intn(8), g.chance(0.3))

	if !fast {
		in.History, in.Seq = addDepthQueries(g, sp, in.History, in.Seq)
	}

	netA, netB := sp.build(), sp.build()
	in.Net = dumpNet(netA)
	out := &flushRunOut{Flushed: []JStep{}, Fresh: []JStep{}}
	nan := false
	script := append(append([]*JOp{}, in.History...), &JOp{K: "flush"})
	script = append(script, in.Seq...)
	if !fast {
		out.Init = &JStep{Outs: bitsOf(netB.ReadOutputs()), State: dumpStdState(netB)}
		out.Flushed = runScript(netA, netA, script, &nan)
		out.Fresh = runScript(netB, netB, in.Seq, &nan)
	} else {
		sa, errA := netA.FastNetworkSolver()
		sb, errB := netB.FastNetworkSolver()
		if errA != nil || errB != nil {
			out.BuildErr = solverErrClass(errA)
			return in, nil, 0, out
		}
		fa, fb := sa.(*network.FastModularNetworkSolver), sb.(*network.FastModularNetworkSolver)
		out.FastNet = dumpFastNet(fa)
		out.Init = &JStep{Outs: bitsOf(fb.ReadOutputs()), Fast: dumpFastState(fb)}
		out.Flushed = runScript(fa, nil, script, &nan)
		out.Fresh = runScript(fb, nil, in.Seq, &nan)
	}
	if nan {
		return nil, nil, 0, nil // NaN payloads are not portable across the protocol: draw another case
	}
	return in, nil, 0, out
}

/* ---------- solverRun ---------- */

type solverRunIn struct {
	Net      *JNet    `json:"net"`
	Family   string   `json:"family"`
	DeadEnd  bool     `json:"deadEnd"`
	Xs       []uint64 `json:"xs"`
	K        int      `json:"k"`     // steps for the forward paths (>= depth)
	Depth    int      `json:"depth"` // longest sensor-to-neuron path (generator's own bookkeeping)
	RelaxMax int      `json:"relaxMax"`
	Delta    uint64   `json:"delta"`
	Xs2      []uint64 `json:"xs2"` // second input vector, evaluated on the SAME instance without a flush
}

type solverRunOut struct {
	BuildErr *string   `json:"buildErr"`
	FastNet  *JFastNet `json:"fastNet,omitempty"`
	StdLoad  *string   `json:"stdLoad"`
	Std      *JStep    `json:"std"`
	StdRec   *JStep    `json:"stdRec"`
	Fwd      *JStep    `json:"fwd"`
	Rec      *JStep    `json:"rec"`
	Relax    *JStep    `json:"relax"`
	// second evaluation (LoadSensors(xs2); same propagation) on the same instance, no Flush in between
	Std2, StdRec2, Fwd2, Rec2, Relax2 *JStep
}

func opSolverRun(g *G) (interface{}, []uint64, int, interface{}) {
	deadEnd := g.chance(0.12)
	sp, depth, family := genDAG(g, deadEnd)
	if sp == nil {
		return nil, nil, 0, nil
	}
	if len(sp.outputs) >= 2 && g.chance(0.3) {
		// Network.Outputs need not list the outputs in allNodes order (hand-built / file-loaded networks): output i is
		// Outputs[i] for every solver
		g.gr.Shuffle(len(sp.outputs), func(i, j int) { sp.outputs[i], sp.outputs[j] = sp.outputs[j], sp.outputs[i] })
		family += ":outsShuffled"
	}
	nIn := countKind(sp, network.InputNeuron)
	xs := make([]float64, nIn)
	for i := range xs {
		xs[i] = pickInput(g)
	}
	in := &solverRunIn{Family: family, DeadEnd: deadEnd, Xs: bitsOf(xs), Depth: depth, K: depth + g.intn(3),
		RelaxMax: depth + 1 + g.intn(3)}
	d := []float64{1e-9, 1e-6, 1e-12}[g.intn(3)]
	in.Delta = bits(d)
	load := &JOp{K: "load", xs: xs}
	xs2 := make([]float64, nIn)
	for i := range xs2 {
		xs2[i] = pickInput(g)
	}
	in.Xs2 = bitsOf(xs2)
	load2 := &JOp{K: "load", xs: xs2}
	out := &solverRunOut{}
	nan := false
	oneWith := func(s network.Solver, std *network.Network, ld *JOp, op *JOp) *JStep {
		if _, err := applyOp(s, ld); err != nil {
			c := solverErrClass(err)
			return &JStep{Err: c, Outs: []uint64{}}
		}
		st := runScript(s, std, []*JOp{op}, &nan)
		return &st[0]
	}
	one := func(s network.Solver, std *network.Network, op *JOp) *JStep { return oneWith(s, std, load, op) }
	n1 := sp.build()
	in.Net = dumpNet(n1)
	out.Std = one(n1, n1, &JOp{K: "fwd", N: in.K})
	out.Std2 = oneWith(n1, n1, load2, &JOp{K: "fwd", N: in.K})
	n2 := sp.build()
	out.StdRec = one(n2, n2, &JOp{K: "rec"})
	out.StdRec2 = oneWith(n2, n2, load2, &JOp{K: "rec"})
	// half of the cases: all fast solvers are requested from ONE Network object (each call must return an independent
	// solver: another solver requested, loaded and run in between does not disturb one that is already loaded)
	sharedNet := g.chance(0.5)
	nShared := sp.build()
	mk := func() *network.FastModularNetworkSolver {
		src := nShared
		if !sharedNet {
			src = sp.build()
		}
		s, err := src.FastNetworkSolver()
		if err != nil {
			out.BuildErr = solverErrClass(err)
			return nil
		}
		return s.(*network.FastModularNetworkSolver)
	}
	if f := mk(); f != nil {
		out.FastNet = dumpFastNet(f)
		if sharedNet {
			if _, err := applyOp(f, load); err == nil {
				if other := mk(); other != nil {
					_, _ = applyOp(other, load2)
					_, _ = applyOp(other, &JOp{K: "fwd", N: in.K})
				}
				st := runScript(f, nil, []*JOp{{K: "fwd", N: in.K}}, &nan)
				out.Fwd = &st[0]
			} else {
				out.Fwd = one(f, nil, &JOp{K: "fwd", N: in.K})
			}
		} else {
			out.Fwd = one(f, nil, &JOp{K: "fwd", N: in.K})
		}
		out.Fwd2 = oneWith(f, nil, load2, &JOp{K: "fwd", N: in.K})
		fr := mk()
		out.Rec = one(fr, nil, &JOp{K: "rec"})
		out.Rec2 = oneWith(fr, nil, load2, &JOp{K: "rec"})
		fx := mk()
		out.Relax = one(fx, nil, &JOp{K: "relax", N: in.RelaxMax, delta: d, Delta: bits(d)})
		out.Relax2 = oneWith(fx, nil, load2, &JOp{K: "relax", N: in.RelaxMax, delta: d, Delta: bits(d)})
	}
	if nan {
		return nil, nil, 0, nil
	}
	return in, nil, 0, out
}
