package main

// op goSort: the model of `sort.Sort` itself (lean/GoNeat/Model/GoSort.lean: transliteration of the toolchain's pdqsort).
// A key vector of length 0..200 (families rich in duplicates and in the patterns pdqsort special-cases) is sorted as an
// INDEX slice through a sort.Interface whose Less compares the keys - once with sort.Sort, once with
// sort.Sort(sort.Reverse(.)), exactly the two calls goNEAT makes (species.go:74,151,247; population_epoch.go:69).
// The order of equal keys is decided by the algorithm, so the resulting index order pins it down.  (C02, C09, C10, C17)

import (
	"sort"
)

func init() { register("goSort", opGoSort) }

type keyIdx struct {
	keys []int
	idx  []int
}

func (s keyIdx) Len() int           { return len(s.idx) }
func (s keyIdx) Less(i, j int) bool { return s.keys[s.idx[i]] < s.keys[s.idx[j]] }
func (s keyIdx) Swap(i, j int)      { s.idx[i], s.idx[j] = s.idx[j], s.idx[i] }

func sortKeyVector(g *G) ([]int, string) {
	n := 0
	switch c := g.intn(20); {
	case c < 2:
		n = g.intn(14) // around the insertion-sort bound
	case c < 5:
		n = 11 + g.intn(6) // 11..16
	case c < 9:
		n = 13 + g.intn(40) // below shortestNinther / shortestShifting (50)
	case c < 11:
		n = 45 + g.intn(12) // around 50
	default:
		n = 13 + g.intn(188) // up to 200
	}
	keys := make([]int, n)
	fam := ""
	distinct := func() int {
		switch g.intn(4) {
		case 0:
			return 2
		case 1:
			return 3 + g.intn(3)
		case 2:
			return 6 + g.intn(10)
		}
		return 1 + n/4
	}
	switch g.intn(12) {
	case 0:
		fam = "allEqual"
		for i := range keys {
			keys[i] = 7
		}
	case 1:
		fam = "fewDistinct"
		m := distinct()
		for i := range keys {
			keys[i] = g.intn(m)
		}
	case 2:
		fam = "sortedDup"
		m := distinct()
		for i := range keys {
			keys[i] = g.intn(m)
		}
		sort.Ints(keys)
	case 3:
		fam = "reversedDup"
		m := distinct()
		for i := range keys {
			keys[i] = g.intn(m)
		}
		sort.Sort(sort.Reverse(sort.IntSlice(keys)))
	case 4:
		fam = "organPipe"
		d := 1 + g.intn(4)
		for i := range keys {
			k := i
			if n-1-i < k {
				k = n - 1 - i
			}
			keys[i] = k / d
		}
	case 5:
		fam = "random"
		for i := range keys {
			keys[i] = g.intn(1000000)
		}
	case 6:
		fam = "sortedDistinct"
		for i := range keys {
			keys[i] = i
		}
		if g.chance(0.5) {
			fam = "reversedDistinct"
			for i := range keys {
				keys[i] = n - i
			}
		}
	case 7:
		fam = "nearlySorted" // sorted (with duplicates) plus a few displaced elements: partialInsertionSort paths
		m := 1 + n/(1+g.intn(4))
		for i := range keys {
			keys[i] = g.intn(m)
		}
		sort.Ints(keys)
		if g.chance(0.5) {
			fam = "nearlyReversed"
			sort.Sort(sort.Reverse(sort.IntSlice(keys)))
		}
		for k := g.intn(7); k > 0 && n > 1; k-- {
			a, b := g.intn(n), g.intn(n)
			keys[a], keys[b] = keys[b], keys[a]
		}
	case 8:
		fam = "plateau" // one dominant value and a few others
		for i := range keys {
			if g.chance(0.75) {
				keys[i] = 5
			} else {
				keys[i] = g.intn(10)
			}
		}
	case 9:
		fam = "sawtooth"
		p := 2 + g.intn(9)
		for i := range keys {
			keys[i] = i % p
		}
	case 10:
		fam = "blocks" // ascending blocks concatenated: unbalanced partitions (breakPatterns / heapSort limit)
		p := 1 + g.intn(8)
		for i := range keys {
			keys[i] = (i*p)%(n+1) + g.intn(2)
		}
	default:
		fam = "killer" // median-of-3 adversarial shape: even positions ascending, odd positions large
		for i := range keys {
			if i%2 == 0 {
				keys[i] = i / 2
			} else {
				keys[i] = n - i/(1+g.intn(3))
			}
		}
	}
	return keys, fam
}

// McIlroy's quicksort adversary ("A Killer Adversary for Quicksort", 1999) run against the real sort.Sort: keys are
// decided lazily so that every pivot turns out to be small.  The frozen key vector is consistent with every answer given,
// so sorting it again replays the same bad pivots: repeated unbalanced partitions, breakPatterns, and - when the limit
// bits.Len(n) is used up - heapSort.
type adversary struct {
	val       []int
	idx       []int
	nsolid    int
	candidate int
	gas       int
}

func (s *adversary) Len() int { return len(s.idx) }
func (s *adversary) Less(i, j int) bool {
	x, y := s.idx[i], s.idx[j]
	if s.val[x] == s.gas && s.val[y] == s.gas {
		if x == s.candidate {
			s.val[x] = s.nsolid
		} else {
			s.val[y] = s.nsolid
		}
		s.nsolid++
	}
	if s.val[x] == s.gas {
		s.candidate = x
	} else if s.val[y] == s.gas {
		s.candidate = y
	}
	return s.val[x] < s.val[y]
}
func (s *adversary) Swap(i, j int) { s.idx[i], s.idx[j] = s.idx[j], s.idx[i] }

func adversaryKeys(g *G, n int, reversed bool) []int {
	a := &adversary{val: make([]int, n), idx: make([]int, n), gas: n}
	for i := range a.val {
		a.val[i] = a.gas
		a.idx[i] = i
	}
	if reversed {
		sort.Sort(sort.Reverse(a))
	} else {
		sort.Sort(a)
	}
	if g.chance(0.4) { // coarsen: equal keys on top of the adversarial shape
		d := 2 + g.intn(3)
		for i := range a.val {
			a.val[i] /= d
		}
	}
	return a.val
}

func opGoSort(g *G) (interface{}, []uint64, int, interface{}) {
	keys, fam := sortKeyVector(g)
	if g.chance(0.1) {
		fam = "adversary"
		rev := g.chance(0.5)
		if rev {
			fam = "adversaryRev"
		}
		keys = adversaryKeys(g, 13+g.intn(188), rev)
	}
	n := len(keys)
	asc := make([]int, n)
	desc := make([]int, n)
	for i := range asc {
		asc[i] = i
		desc[i] = i
	}
	sort.Sort(keyIdx{keys, asc})
	sort.Sort(sort.Reverse(keyIdx{keys, desc}))
	in := map[string]interface{}{"keys": keys, "family": fam}
	out := map[string]interface{}{"asc": asc, "desc": desc}
	return in, nil, 0, out
}
