package main

// C01 (every genetic operator and epoch yields only well-formed genomes): operator histories.
//
// opHistory: a small pool of genomes descending from one start genome (shipped start genomes, hand-built,
// newGenomeRand) plus one Population as innovation registry; a random history of 1..200 applications of the
// real operators (ten mutators, three crossovers, duplication, "forget the generation's innovation records").
// Every genome an operator produced is dumped (with the outcome of the real Genome.Genesis on it), so that the
// driver evaluates WF / Retains / pairwise SameLineage on each.  Non-modular genomes only.
//
// The family "randpop" is the random-topology population of NewPopulationRandom (every member its own
// newGenomeRand genome over common dimensions): there parents need not share their first gene, which is the
// precondition of known finding K1 (single-point crossover may return a gene-less child).
//
// epochRand: whole epochs (same dump as op "epoch") on NewPopulationRandom populations.

import (
	"encoding/json"
	"math/rand"
	"strings"

	"github.com/yaricom/goNEAT/v4/neat"
	"github.com/yaricom/goNEAT/v4/neat/genetics"
	"github.com/yaricom/goNEAT/v4/neat/network"
)

func init() {
	register("opHistory", opHistory)
	register("epochRand", opEpochRand)
	register("genesisOk", opGenesisOk)
}

// genesisClass runs the real Genome.Genesis on a private copy (Genesis writes PhenotypeAnalogue / Phenotype)
// and returns the error class ("" = a network was built)
func genesisClass(gn *genetics.Genome) (cls string) {
	c := cloneGenome(gn)
	defer func() {
		if p := recover(); p != nil {
			cls = *errClass(nil, p)
		}
	}()
	net, err := c.Genesis(c.Id)
	if err != nil {
		switch es := err.Error(); {
		case strings.Contains(es, "without GENES"):
			return "genesis:noGenes"
		case strings.Contains(es, "without OUTPUTS"):
			return "genesis:noOutputs"
		default:
			return es
		}
	}
	if net == nil {
		return "genesis:nilNetwork"
	}
	return ""
}

// popGenesisClass: the first error class of the real Genesis over all organisms of a population ("" = all fine)
func popGenesisClass(p *genetics.Population) string {
	for _, o := range p.Organisms {
		if c := genesisClass(o.Genotype); c != "" {
			return c
		}
	}
	return ""
}

// JHistStep is one operator application of a history
type JHistStep struct {
	Op  string  `json:"op"`
	A   int     `json:"a"`   // pool index of the subject / first parent
	B   int     `json:"b"`   // pool index of the second parent (-1 if none)
	Dst int     `json:"dst"` // pool index the produced genome is stored at (-1: dropped)
	Res bool    `json:"res"`
	Err *string `json:"err"`
	// G: the produced genome (nil if the operator failed); Genesis: error class of the real Genesis on it
	G       *JGenome `json:"g"`
	Genesis string   `json:"genesis"`
	// Intact: the parents of a crossover / the source of a duplication are unchanged
	Intact bool `json:"intact"`
}

func sameDump(a, b *JGenome) bool {
	ja, _ := json.Marshal(a)
	jb, _ := json.Marshal(b)
	return string(ja) == string(jb)
}

var historyMutators = []string{"mutAddNode", "mutAddLink", "mutConnectSensors", "mutLinkWeights", "mutRandomTrait",
	"mutLinkTrait", "mutNodeTrait", "mutToggleEnable", "mutGeneReEnable", "mutAllNonstructural"}

// lateSensorGenome: a hand-built genome with one more input node whose id is *higher* than the ids of the output and
// hidden nodes (nodes stay sorted by id, but the sensors are no longer a prefix of the node list). Only on such
// genomes is add-link's "don't allow sensors to get input" test live: the target index is drawn from the nodes
// behind the leading sensors.
func lateSensorGenome(g *G, id int) *genetics.Genome {
	base := handGenome(g, id)
	maxId := 0
	for _, n := range base.Nodes {
		if n.Id > maxId {
			maxId = n.Id
		}
	}
	late := network.NewSensorNode(maxId+1, false)
	if len(base.Traits) > 0 && g.chance(0.7) {
		late.Trait = base.Traits[g.intn(len(base.Traits))]
	}
	nodes := append(append([]*network.NNode{}, base.Nodes...), late)
	genes := append([]*genetics.Gene{}, base.Genes...)
	if g.chance(0.7) {
		var target *network.NNode
		for _, n := range base.Nodes {
			if !n.IsSensor() {
				target = n
				break
			}
		}
		inn := base.Genes[len(base.Genes)-1].InnovationNum + 1
		genes = append(genes, genetics.NewGeneWithTrait(late.Trait, 0.25, late, target, false, inn, 0.25))
	}
	return genetics.NewGenome(id, base.Traits, nodes, genes)
}

// historyPool builds the initial pool and its registry
func historyPool(g *G) (members []*genetics.Genome, pop *genetics.Population, opts *neat.Options, family string) {
	opts = randOpts(g)
	pop = genetics.VerifNewEmptyPopulation()
	k := 2 + g.intn(5)
	rand.Seed(g.seed63())
	randGenome := func(id, in, out, maxH int, rec bool, lp float64) *genetics.Genome {
		for try := 0; try < 20; try++ {
			gn, err := genetics.VerifNewGenomeRand(id, in, out, g.intn(maxH+1), maxH, rec, lp, opts)
			if err == nil && len(gn.Genes) > 0 {
				return gn
			}
		}
		return nil
	}
	var start *genetics.Genome
	switch c := g.intn(20); {
	case c < 7:
		family = startGenomeFiles[g.intn(len(startGenomeFiles))]
		start = loadStartGenome(family)
		family = "file:" + family
	case c < 10:
		family = "hand"
		start = handGenome(g, 0)
	case c < 13:
		family = "hand-late-sensor"
		start = lateSensorGenome(g, 0)
	case c < 16:
		family = "rand"
		start = randGenome(0, 1+g.intn(4), 1+g.intn(3), 1+g.intn(5), g.chance(0.5), 0.3+g.f64()*0.6)
	default:
		// random-topology population: common dimensions, every member its own random genome
		family = "randpop"
		in, out, maxH := 1+g.intn(3), 1+g.intn(2), 1+g.intn(4)
		rec, lp := g.chance(0.5), 0.3+g.f64()*0.6
		for i := 0; i < k; i++ {
			if m := randGenome(i, in, out, maxH, rec, lp); m != nil {
				members = append(members, m)
			}
		}
		if len(members) >= 2 {
			// counters exactly as NewPopulationRandom sets them
			tot := in + out + maxH
			genetics.VerifPopSetCounters(pop, int64(tot*tot+1), int32(tot+1))
			return
		}
		members = nil
		family = "hand"
		start = handGenome(g, 0)
	}
	if start == nil {
		family = "hand"
		start = handGenome(g, 0)
	}
	// counters exactly as Population.spawn sets them
	lastNode, err := genetics.VerifLastNodeId(start)
	if err != nil {
		panic(err)
	}
	nextInn, err := genetics.VerifNextGeneInnovNum(start)
	if err != nil {
		panic(err)
	}
	genetics.VerifPopSetCounters(pop, nextInn-1, int32(lastNode+1))
	for i := 0; i < k; i++ {
		d := cloneGenome(start)
		d.Id = i
		if i > 0 {
			_, _ = genetics.VerifMutateLinkWeights(d, 1.0, 1.0, false)
		}
		members = append(members, d)
	}
	return
}

func opHistory(g *G) (interface{}, []uint64, int, interface{}) {
	members, pop, opts, family := historyPool(g)
	steps := 1 + g.intn(200)
	switch g.intn(4) {
	case 0:
		steps = 1 + g.intn(10)
	case 1:
		steps = 1 + g.intn(50)
	}
	initial := make([]*JGenome, len(members))
	for i, m := range members {
		initial[i] = dumpGenome(m)
	}
	regBefore := dumpReg(pop)
	rand.Seed(g.seed63())
	out := make([]JHistStep, 0, steps)
	// scripted re-split sequences (seeded C01-K): X splits a link; a single-point child of X takes over part of the split
	// (the split link comes in disabled); the child's link is re-enabled; the child splits while X's record is still listed
	type forcedStep struct {
		op        string
		a, b, dst int
	}
	scripted := len(members) >= 3 && g.chance(0.3)
	if scripted {
		family += "+resplit"
		if steps < 24 {
			steps = 24 + g.intn(60)
		}
	}
	var queue []forcedStep
	for s := 0; s < steps; s++ {
		a := g.intn(len(members))
		var f *forcedStep
		if scripted && len(queue) == 0 && g.chance(0.8) {
			x, y, c := g.intn(len(members)), g.intn(len(members)), g.intn(len(members))
			if x != c && y != c {
				pa, pb := x, y
				if g.chance(0.5) {
					pa, pb = y, x
				}
				queue = []forcedStep{{"mutAddNode", x, -1, x}, {"mateSinglePoint", pa, pb, c}, {"mutGeneReEnable", c, -1, c},
					{"mutGeneReEnable", c, -1, c}, {"mutAddNode", c, -1, c}, {"mutAddNode", c, -1, c}}
			}
		}
		if len(queue) > 0 {
			f = &queue[0]
			queue = queue[1:]
			a = f.a
		}
		m := members[a]
		st := JHistStep{A: a, B: -1, Dst: -1, Intact: true}
		var produced *genetics.Genome
		var err error
		var pan interface{}
		switch c := g.intn(20); {
		case (f == nil && c < 11) || (f != nil && f.b < 0):
			// in-place mutation of a pool member
			name := historyMutators[g.intn(len(historyMutators))]
			if c < 6 {
				name = historyMutators[g.intn(3)] // structural mutations more often
			}
			if f != nil {
				name = f.op
			}
			st.Op = name
			m.Phenotype = nil
			times := 1 + g.intn(3)
			func() {
				defer func() { pan = recover() }()
				st.Res, err = runMutation(name, m, pop, opts, times, opts.WeightMutPower, 1.0, g.chance(0.2))
			}()
			m.Phenotype = nil
			st.Dst = a
			st.G = dumpGenome(m)
			produced = m
		case f == nil && c < 13:
			st.Op = "duplicate"
			before := dumpGenome(m)
			var d *genetics.Genome
			func() {
				defer func() { pan = recover() }()
				d, err = genetics.VerifDuplicate(m, g.intn(1000))
			}()
			st.Intact = sameDump(before, dumpGenome(m))
			if err == nil && pan == nil && d != nil {
				st.G = dumpGenome(d)
				produced = d
				st.Dst = g.intn(len(members))
				members[st.Dst] = d
			}
		case f == nil && c < 14:
			// the generation ends: innovation records are forgotten (counters stay)
			st.Op = "clearInnovations"
			genetics.VerifPopSetInnovations(pop, nil)
			st.G = dumpGenome(m)
			produced = m
			st.Dst = a
		default:
			b := g.intn(len(members))
			if f != nil {
				b = f.b
			}
			o := members[b]
			st.B = b
			f1, f2 := float64(g.intn(3)), float64(g.intn(3))
			beforeA, beforeB := dumpGenome(m), dumpGenome(o)
			var child *genetics.Genome
			method := g.intn(3)
			if f != nil {
				method = 2
			}
			st.Op = []string{"mateMultipoint", "mateMultipointAvg", "mateSinglePoint"}[method]
			func() {
				defer func() { pan = recover() }()
				switch method {
				case 0:
					child, err = genetics.VerifMateMultipoint(m, o, g.intn(1000), f1, f2)
				case 1:
					child, err = genetics.VerifMateMultipointAvg(m, o, g.intn(1000), f1, f2)
				default:
					child, err = genetics.VerifMateSinglePoint(m, o, g.intn(1000))
				}
			}()
			st.Intact = sameDump(beforeA, dumpGenome(m)) && sameDump(beforeB, dumpGenome(o))
			if err == nil && pan == nil && child != nil {
				st.G = dumpGenome(child)
				produced = child
				st.Res = true
				if len(child.Genes) > 0 {
					// (a gene-less child - known finding K1 - is dumped but not bred from: every operator rejects it)
					st.Dst = g.intn(len(members))
					if f != nil {
						st.Dst = f.dst
					}
					members[st.Dst] = child
				}
			}
		}
		st.Err = errClass(err, pan)
		if produced != nil {
			st.Genesis = genesisClass(produced)
		}
		out = append(out, st)
		if st.Err != nil && st.Dst >= 0 && st.Op != "duplicate" {
			// a mutator failed half-way: stop the history here (the driver judges the failure)
			break
		}
	}
	in := map[string]interface{}{"pool": initial, "reg": regBefore, "family": family, "opts": dumpMutOpts(opts)}
	return in, nil, 0, map[string]interface{}{"steps": out, "reg": dumpReg(pop)}
}

/* ---------- whole epochs on random-topology populations (known finding K1) ---------- */

func opEpochRand(g *G) (interface{}, []uint64, int, interface{}) {
	sc := scenarios[g.opName]
	if sc == nil || sc.epochs >= 10 {
		opts := popOpts(g)
		in, out, maxH := 1+g.intn(3), 1+g.intn(2), 1+g.intn(4)
		var pop *genetics.Population
		var err error
		for try := 0; try < 30 && pop == nil; try++ {
			rand.Seed(g.seed63())
			func() {
				defer func() {
					if recover() != nil {
						pop = nil
					}
				}()
				pop, err = genetics.NewPopulationRandom(in, out, maxH, g.chance(0.5), 0.4+g.f64()*0.5, opts)
				if err != nil {
					pop = nil
				}
			}()
		}
		if pop == nil {
			return nil, nil, 0, nil
		}
		sc = &scenario{pop: pop, opts: opts, generation: 1, landscape: landscapes[g.intn(len(landscapes))], origin: "randpop"}
		scenarios[g.opName] = sc
	}
	return opEpoch(g)
}

/* ---------- Genesis error exits on arbitrary (also malformed) genomes ---------- */

func opGenesisOk(g *G) (interface{}, []uint64, int, interface{}) {
	src, family := anyGenome(g)
	src = cloneGenome(src)
	if len(src.ControlGenes) > 0 {
		return nil, nil, 0, nil
	}
	mal := ""
	switch g.intn(12) {
	case 0:
		mal = malformed(g, src)
	case 1:
		src.Genes = nil
		mal = "noGenes"
	case 3, 4:
		// every connection gene disabled: still a sound genome that must be expressible (seeded C01-L)
		for _, gn := range src.Genes {
			gn.IsEnabled = false
		}
		family += "+allDisabled"
	case 2:
		kept := src.Nodes[:0]
		for _, n := range src.Nodes {
			if n.NeuronType != network.OutputNeuron {
				kept = append(kept, n)
			}
		}
		src.Nodes = kept
		mal = "noOutputs"
	}
	before := dumpGenome(src)
	return map[string]interface{}{"g": before, "family": family, "malformed": mal}, nil, 0,
		map[string]interface{}{"genesis": genesisClass(src)}
}
