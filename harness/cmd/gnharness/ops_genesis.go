package main

// Genesis op (C11): the real Genome.Genesis / Organism.Phenotype / Organism.UpdatePhenotype on generated genomes
// (shipped start genomes, random, hand-made and EVOLVED genomes with disabled / recurrent / self-loop genes; the
// shipped modular genome and modular variants with disabled / extra / overlapping modules), then the complete
// network (nodes, Incoming AND Outgoing of every node, inputs, outputs, control nodes) and the answers of the
// gonum graph view for every id and every ORDERED pair of ids including absent ones.
//
// To keep the lines small only the pairs with a non-empty answer are listed ("loud"); the harness states how many
// pairs it asked; every unlisted pair answered nil / nil / (0,false) / false / false.

import (
	"github.com/yaricom/goNEAT/v4/neat/genetics"
	neatmath "github.com/yaricom/goNEAT/v4/neat/math"
	"github.com/yaricom/goNEAT/v4/neat/network"
	"gonum.org/v1/gonum/graph"
)

func init() {
	register("genesis", opGenesis)
}

/* ---------- complete network dump ---------- */

type JXLink struct {
	Src int    `json:"src"`
	Dst int    `json:"dst"`
	W   uint64 `json:"w"`
	Rec bool   `json:"rec"`
}

type JXNode struct {
	Id   int      `json:"id"`
	Kind int      `json:"kind"`
	Act  int      `json:"act"`
	In   []JXLink `json:"in"`
	Out  []JXLink `json:"out"`
}

type JXNet struct {
	Id      int      `json:"id"`
	Nodes   []JXNode `json:"nodes"`
	Inputs  []int    `json:"inputs"`
	Outputs []int    `json:"outputs"`
	Ctrl    []JXNode `json:"ctrl"`
	// MimoOk: allNodesMIMO is allNodes followed by the control nodes (same objects)
	MimoOk bool `json:"mimoOk"`
}

func dumpNetFull(n *network.Network) *JXNet {
	all := network.VerifNetAllNodes(n)
	ctrl := network.VerifNetControlNodes(n)
	mimo := network.VerifNetAllNodesMIMO(n)
	idx := map[*network.NNode]int{}
	for i, nd := range all {
		if _, ok := idx[nd]; !ok {
			idx[nd] = i
		}
	}
	for k, nd := range ctrl {
		if _, ok := idx[nd]; !ok {
			idx[nd] = len(all) + k
		}
	}
	at := func(p *network.NNode) int {
		if i, ok := idx[p]; ok {
			return i
		}
		return -1
	}
	dn := func(nd *network.NNode) JXNode {
		jn := JXNode{Id: nd.Id, Kind: int(nd.NeuronType), Act: int(nd.ActivationType), In: []JXLink{}, Out: []JXLink{}}
		for _, l := range nd.Incoming {
			jn.In = append(jn.In, JXLink{Src: at(l.InNode), Dst: at(l.OutNode), W: bits(l.ConnectionWeight), Rec: l.IsRecurrent})
		}
		for _, l := range nd.Outgoing {
			jn.Out = append(jn.Out, JXLink{Src: at(l.InNode), Dst: at(l.OutNode), W: bits(l.ConnectionWeight), Rec: l.IsRecurrent})
		}
		return jn
	}
	j := &JXNet{Id: n.Id, Nodes: []JXNode{}, Inputs: []int{}, Outputs: []int{}, Ctrl: []JXNode{}}
	for _, nd := range all {
		j.Nodes = append(j.Nodes, dn(nd))
	}
	for _, nd := range ctrl {
		j.Ctrl = append(j.Ctrl, dn(nd))
	}
	for _, p := range network.VerifNetInputs(n) {
		j.Inputs = append(j.Inputs, at(p))
	}
	for _, p := range n.Outputs {
		j.Outputs = append(j.Outputs, at(p))
	}
	j.MimoOk = len(mimo) == len(all)+len(ctrl)
	if j.MimoOk {
		for i, nd := range mimo {
			if i < len(all) && nd != all[i] || i >= len(all) && nd != ctrl[i-len(all)] {
				j.MimoOk = false
			}
		}
	}
	// the public accessors report the same lists (same objects, same order), and IsControlNode is true exactly for the
	// ids of the control nodes
	same := func(a, b []*network.NNode) bool {
		if len(a) != len(b) {
			return false
		}
		for i := range a {
			if a[i] != b[i] {
				return false
			}
		}
		return true
	}
	if !same(n.BaseNodes(), all) || !same(n.ControlNodes(), ctrl) || !same(n.AllNodes(), mimo) {
		j.MimoOk = false
	}
	isCtrl := map[int]bool{}
	for _, c := range ctrl {
		isCtrl[c.Id] = true
	}
	for _, nd := range mimo {
		if n.IsControlNode(nd.Id) != isCtrl[nd.Id] {
			j.MimoOk = false
		}
	}
	return j
}

/* ---------- graph view answers ---------- */

type JEdge struct {
	From int64  `json:"from"`
	To   int64  `json:"to"`
	W    uint64 `json:"w"`
	Rec  bool   `json:"rec"`
}

type JPair struct {
	U          int64  `json:"u"`
	V          int64  `json:"v"`
	Edge       *JEdge `json:"edge"`
	WEdge      *JEdge `json:"wedge"`
	Weight     uint64 `json:"weight"`
	WeightOk   bool   `json:"weightOk"`
	HasFromTo  bool   `json:"hasFromTo"`
	HasBetween bool   `json:"hasBetween"`
}

type JNodeT struct {
	Id   int64 `json:"id"`
	Kind int   `json:"kind"`
	Act  int   `json:"act"`
}

type JIdAns struct {
	U    int64   `json:"u"`
	Node *JNodeT `json:"node"`
	From []int64 `json:"from"`
	To   []int64 `json:"to"`
}

func edgeOf(e graph.Edge) *JEdge {
	if e == nil {
		return nil
	}
	l, ok := e.(*network.Link)
	if !ok || l == nil {
		return nil
	}
	return &JEdge{From: e.From().ID(), To: e.To().ID(), W: bits(l.Weight()), Rec: l.IsRecurrent}
}

func idsOf(it graph.Nodes) []int64 {
	res := []int64{}
	for it.Next() {
		res = append(res, it.Node().ID())
	}
	return res
}

/* ---------- genome generators ---------- */

func maxNodeId(gn *genetics.Genome) int {
	m := 0
	for _, n := range gn.Nodes {
		if n.Id > m {
			m = n.Id
		}
	}
	for _, cg := range gn.ControlGenes {
		if cg.ControlNode.Id > m {
			m = cg.ControlNode.Id
		}
	}
	return m
}

func maxInnov(gn *genetics.Genome) int64 {
	var m int64
	for _, x := range gn.Genes {
		if x.InnovationNum > m {
			m = x.InnovationNum
		}
	}
	for _, cg := range gn.ControlGenes {
		if cg.InnovationNum > m {
			m = cg.InnovationNum
		}
	}
	return m
}

// addModule attaches a MIMO control gene over random nodes of the genome; overlap = one node is input AND output
func addModule(g *G, gn *genetics.Genome, enabled bool, overlap bool) {
	cn := network.NewNNode(maxNodeId(gn)+1+g.intn(3), network.HiddenNeuron)
	cn.ActivationType = neatmath.MultiplyModuleActivation
	nIn, nOut := 1+g.intn(3), 1+g.intn(2)
	p := g.perm(len(gn.Nodes))
	if nIn+nOut > len(p) {
		nIn, nOut = 1, 1
		if len(p) < 2 {
			return
		}
	}
	for k := 0; k < nIn; k++ {
		l := network.NewLink(pickWeight(g), gn.Nodes[p[k]], cn, g.chance(0.2))
		cn.Incoming = append(cn.Incoming, l)
	}
	if g.chance(0.2) { // the same node listed twice as input, with another weight
		l := network.NewLink(pickWeight(g), gn.Nodes[p[0]], cn, false)
		cn.Incoming = append(cn.Incoming, l)
	}
	for k := 0; k < nOut; k++ {
		t := gn.Nodes[p[nIn+k]]
		if overlap && k == 0 {
			t = gn.Nodes[p[0]]
		}
		l := network.NewLink(pickWeight(g), cn, t, false)
		cn.Outgoing = append(cn.Outgoing, l)
	}
	if g.chance(0.15) { // ... and twice as output
		l := network.NewLink(pickWeight(g), cn, gn.Nodes[p[nIn]], false)
		cn.Outgoing = append(cn.Outgoing, l)
	}
	gn.ControlGenes = append(gn.ControlGenes, genetics.NewMIMOGene(cn, maxInnov(gn)+1, g.f64(), enabled))
}

// addGene appends a connection gene between existing nodes (self-loops, links into sensors, duplicates of an
// existing connection included)
func addGene(g *G, gn *genetics.Genome, self bool) {
	if len(gn.Nodes) == 0 {
		return
	}
	a := gn.Nodes[g.intn(len(gn.Nodes))]
	b := gn.Nodes[g.intn(len(gn.Nodes))]
	if self {
		b = a
	}
	l := network.NewLinkWithTrait(nil, pickWeight(g), a, b, self || g.chance(0.3))
	gn.Genes = append(gn.Genes, genetics.NewConnectionGene(l, maxInnov(gn)+1, g.f64(), g.chance(0.8)))
}

func genesisSubject(g *G) (*genetics.Genome, string) {
	src, fam := anyGenome(g)
	gn := cloneGenome(src)
	if len(gn.ControlGenes) > 0 {
		// variants of the shipped modular genome
		if g.chance(0.4) {
			gn.ControlGenes[g.intn(len(gn.ControlGenes))].IsEnabled = false
			fam += "+modOff"
		}
		if g.chance(0.3) {
			addModule(g, gn, g.chance(0.8), false)
			fam += "+mod"
		}
		if g.chance(0.15) {
			addModule(g, gn, true, true)
			fam += "+modOverlap"
		}
	} else if g.chance(0.15) {
		for k := 0; k < 1+g.intn(2); k++ {
			addModule(g, gn, g.chance(0.8), false)
		}
		fam += "+mod"
		if g.chance(0.2) {
			addModule(g, gn, true, true)
			fam += "+modOverlap"
		}
	}
	if g.chance(0.3) {
		for k := 0; k < 1+g.intn(3); k++ {
			x := gn.Genes[g.intn(len(gn.Genes))]
			x.IsEnabled = !x.IsEnabled
		}
		fam += "+toggled"
	}
	if g.chance(0.2) {
		addGene(g, gn, true)
		fam += "+self"
	}
	if g.chance(0.2) {
		for k := 0; k < 1+g.intn(2); k++ {
			addGene(g, gn, false)
		}
		fam += "+extra"
	}
	if g.chance(0.02) {
		for _, x := range gn.Genes {
			x.IsEnabled = false
		}
		fam += "+allOff"
	}
	if g.chance(0.01) {
		gn.Genes = nil
		fam += "+noGenes"
	}
	return gn, fam
}

/* ---------- the op ---------- */

type genesisIn struct {
	Family string   `json:"family"`
	Path   string   `json:"path"`
	NetId  int      `json:"netId"`
	Genome *JGenome `json:"genome"`
	Ids    []int64  `json:"ids"`
}

type genesisOut struct {
	Err        *string  `json:"err"`
	Net        *JXNet   `json:"net"`
	Cached     bool     `json:"cached"` // Organism.Phenotype() returned the identical object on the second call
	NodesIter  []int64  `json:"nodesIter"`
	IdAnswers  []JIdAns `json:"idAnswers"`
	Loud       []JPair  `json:"loud"`
	PairsAsked int      `json:"pairsAsked"`
	// typed-nil observations: number of queries whose interface result was != nil although it holds a nil pointer
	// (gonum's contract, and C11, say "nil")
	EdgeTypedNil  int `json:"edgeTypedNil"`
	WEdgeTypedNil int `json:"wedgeTypedNil"`
	NodeTypedNil  int `json:"nodeTypedNil"`
	NodeCount  int      `json:"nodeCount"`
	LinkCount  int      `json:"linkCount"`
	Complexity int      `json:"complexity"`
}

func genesisErrClass(err error) *string {
	if err == nil {
		return nil
	}
	msg := err.Error()
	var c string
	switch {
	case len(msg) >= 27 && msg[:27] == "network built without GENES":
		c = "noGenes"
	case len(msg) >= 23 && msg[:23] == "network without OUTPUTS":
		c = "noOutputs"
	default:
		c = "other:" + msg
	}
	return &c
}

func opGenesis(g *G) (interface{}, []uint64, int, interface{}) {
	gn, fam := genesisSubject(g)
	if g.chance(0.08) && len(gn.ControlGenes) == 0 {
		// node list NOT ascending by id (a hand-built genome or a file that lists the output first): expression and the
		// graph view must not depend on the order; the driver treats the family as in-domain only for what it can decide
		// (`GenomeOk` does not ask for sorted nodes)
		gn = cloneGenome(gn)
		g.gr.Shuffle(len(gn.Nodes), func(i, j int) { gn.Nodes[i], gn.Nodes[j] = gn.Nodes[j], gn.Nodes[i] })
		fam += "/nodes-unsorted"
	}
	in := &genesisIn{Family: fam}
	out := &genesisOut{}
	var net *network.Network
	var err error
	switch c := g.intn(10); {
	case c < 6:
		in.Path = "genesis"
		in.NetId = g.intn(1000)
		net, err = gn.Genesis(in.NetId)
	case c < 8:
		in.Path = "org"
		in.NetId = gn.Id
		org, _ := genetics.NewOrganism(g.f64(), gn, 1)
		net, err = org.Phenotype()
		if err == nil {
			again, _ := org.Phenotype()
			out.Cached = again == net
		}
	default:
		in.Path = "orgUpdate"
		in.NetId = gn.Id
		org, _ := genetics.NewOrganism(g.f64(), gn, 1)
		_, _ = org.Phenotype()
		// change the genotype, then rebuild: the new phenotype must express the CHANGED genome
		if len(gn.Genes) > 0 {
			for k := 0; k < 1+g.intn(2); k++ {
				x := gn.Genes[g.intn(len(gn.Genes))]
				x.IsEnabled = !x.IsEnabled
			}
		}
		if g.chance(0.3) {
			addGene(g, gn, g.chance(0.3))
		}
		err = org.UpdatePhenotype()
		if err == nil {
			net, err = org.Phenotype()
			again, _ := org.Phenotype()
			out.Cached = again == net
		}
	}
	return finishGenesisCase(g, in, out, gn, net, err)
}

// finishGenesisCase dumps the genome, the network and the answers of the graph view for all ids / ordered id pairs
func finishGenesisCase(g *G, in *genesisIn, out *genesisOut, gn *genetics.Genome, net *network.Network, err error) (interface{}, []uint64, int, interface{}) {
	in.Genome = dumpGenome(gn)
	out.Err = genesisErrClass(err)
	if err != nil || net == nil {
		return in, nil, 0, out
	}
	out.Net = dumpNetFull(net)
	// ids: every node id, every control-node id (enabled or not), and ids that exist nowhere
	seen := map[int64]bool{}
	add := func(id int64) {
		if !seen[id] {
			seen[id] = true
			in.Ids = append(in.Ids, id)
		}
	}
	for _, n := range gn.Nodes {
		add(int64(n.Id))
	}
	for _, cg := range gn.ControlGenes {
		add(int64(cg.ControlNode.Id))
	}
	mx := int64(maxNodeId(gn))
	add(mx + 1 + int64(g.intn(3)))
	add(mx + 10)
	add(-1)
	add(0)
	if len(in.Ids) > 26 { // large evolved genomes: all absent ids, all control ids and a random subset of the rest
		keep := in.Ids[len(in.Ids)-4-len(gn.ControlGenes):]
		rest := in.Ids[:len(in.Ids)-4-len(gn.ControlGenes)]
		p := g.perm(len(rest))
		sel := []int64{}
		for _, q := range p[:20] {
			sel = append(sel, rest[q])
		}
		in.Ids = append(sel, keep...)
	}
	out.NodesIter = idsOf(net.Nodes())
	for _, u := range in.Ids {
		a := JIdAns{U: u, From: idsOf(net.From(u)), To: idsOf(net.To(u))}
		if nd := net.Node(u); nd != nil {
			if p, ok := nd.(*network.NNode); ok && p != nil {
				a.Node = &JNodeT{Id: nd.ID(), Kind: int(p.NeuronType), Act: int(p.ActivationType)}
			} else {
				out.NodeTypedNil++
			}
		}
		out.IdAnswers = append(out.IdAnswers, a)
	}
	out.Loud = []JPair{}
	for _, u := range in.Ids {
		for _, v := range in.Ids {
			out.PairsAsked++
			e := net.Edge(u, v)
			p := JPair{U: u, V: v, Edge: edgeOf(e), HasFromTo: net.HasEdgeFromTo(u, v), HasBetween: net.HasEdgeBetween(u, v)}
			if e != nil && p.Edge == nil {
				out.EdgeTypedNil++
			}
			if we := net.WeightedEdge(u, v); we != nil {
				p.WEdge = edgeOf(we)
				if p.WEdge == nil {
					out.WEdgeTypedNil++
				}
			}
			w, ok := net.Weight(u, v)
			p.Weight, p.WeightOk = bits(w), ok
			if p.Edge != nil || p.WEdge != nil || ok || w != 0 || p.HasFromTo || p.HasBetween {
				out.Loud = append(out.Loud, p)
			}
		}
	}
	out.NodeCount = net.NodeCount()
	out.LinkCount = net.LinkCount()
	out.Complexity = net.Complexity()
	return in, nil, 0, out
}
