package main

// Modular-network solver ops (C13, modules): networks WITH MIMO control nodes, built (a) by the real
// Genome.Genesis from genomes carrying control genes and (b) by hand with NewNNode / ConnectFrom / AddIncoming /
// AddOutgoing / NewModularNetwork; driven through the Solver interface (standard solver, and the fast solver made by
// FastNetworkSolver()), dumping after every call the result, error class, outputs and the complete hidden state
// of ALL nodes of allNodesMIMO (control nodes included) resp. all arrays of the fast solver.
//
//   modFlushRun : (history; Flush; sequence) on one instance vs (sequence) on a freshly built identical instance
//   modSolverRun: one random call sequence on one instance (+ NodeCount / LinkCount / Complexity)

import (
	"github.com/yaricom/goNEAT/v4/neat/genetics"
	neatmath "github.com/yaricom/goNEAT/v4/neat/math"
	"github.com/yaricom/goNEAT/v4/neat/network"
)

func init() {
	register("modFlushRun", opModFlushRun)
	register("modSolverRun", opModSolverRun)
}

/* ---------- specifications of hand-built modular networks ---------- */

type ctrlSpec struct {
	id   int
	kind network.NodeNeuronType
	act  neatmath.NodeActivationType
	ins  []linkSpec // src = index in allNodesMIMO
	outs []linkSpec // dst = index in allNodesMIMO; td=true: made with target.ConnectFrom(ctrl) (full duplex)
}

type modSpec struct {
	base *netSpec
	ctrl []ctrlSpec
	// extra: links INTO an ordinary node whose source is a control node, attached to the target's Incoming only
	extra []linkSpec
}

func (ms *modSpec) build() *network.Network {
	sp := ms.base
	n := len(sp.nodes)
	all := make([]*network.NNode, n+len(ms.ctrl))
	for i, ns := range sp.nodes {
		nd := network.NewNNode(ns.id, ns.kind)
		nd.ActivationType = ns.act
		all[i] = nd
	}
	for k, cs := range ms.ctrl {
		nd := network.NewNNode(cs.id, cs.kind)
		nd.ActivationType = cs.act
		all[n+k] = nd
	}
	for _, l := range sp.links {
		lk := all[l.dst].ConnectFrom(all[l.src], l.w)
		lk.IsTimeDelayed = l.td
		lk.IsRecurrent = l.rec
	}
	for k, cs := range ms.ctrl {
		cn := all[n+k]
		for _, l := range cs.ins {
			cn.AddIncoming(all[l.src], l.w)
		}
		for _, l := range cs.outs {
			if l.td {
				all[l.dst].ConnectFrom(cn, l.w)
			} else {
				cn.AddOutgoing(all[l.dst], l.w)
			}
		}
	}
	for _, l := range ms.extra {
		all[l.dst].AddIncoming(all[l.src], l.w)
	}
	in := make([]*network.NNode, len(sp.inputs))
	for i, k := range sp.inputs {
		in[i] = all[k]
	}
	out := make([]*network.NNode, len(sp.outputs))
	for i, k := range sp.outputs {
		out[i] = all[k]
	}
	if len(ms.ctrl) == 0 {
		return network.NewNetwork(in, out, all[:n], sp.id)
	}
	return network.NewModularNetwork(in, out, all[:n:n], all[n:], sp.id)
}

var moduleActivators = []neatmath.NodeActivationType{
	neatmath.MultiplyModuleActivation, neatmath.MaxModuleActivation, neatmath.MinModuleActivation,
}

func pickModuleAct(g *G) neatmath.NodeActivationType {
	switch c := g.intn(40); {
	case c == 0:
		return neatmath.LinearActivation // registered as a scalar activator only: unknown module activation type
	case c == 1:
		return neatmath.NodeActivationType(99)
	case c < 22:
		return neatmath.MultiplyModuleActivation
	default:
		return moduleActivators[g.intn(3)]
	}
}

// genCtrlChain: sensor -> module -> (full duplex link) hidden -> output, in a random allNodes order: the shape on
// which a control node's isActive flag is READ by the first sweep
func genCtrlChain(g *G) (*modSpec, string) {
	lin := neatmath.LinearActivation
	kinds := []network.NodeNeuronType{network.InputNeuron, network.HiddenNeuron, network.OutputNeuron}
	p := []int{0, 1, 2}
	if g.chance(0.5) {
		p = g.perm(3)
	}
	sp := &netSpec{id: g.intn(100), nodes: make([]nodeSpec, 3)}
	for k, q := range p {
		sp.nodes[q] = nodeSpec{id: 1 + q, kind: kinds[k], act: lin}
	}
	in, h, o := p[0], p[1], p[2]
	sp.inputs, sp.outputs = []int{in}, []int{o}
	sp.links = []linkSpec{{src: h, dst: o, w: pickWeight(g), td: g.chance(0.2)}}
	if g.chance(0.3) {
		sp.links = append(sp.links, linkSpec{src: in, dst: o, w: pickWeight(g)})
	}
	cs := ctrlSpec{id: 9, kind: network.HiddenNeuron, act: moduleActivators[g.intn(3)],
		ins:  []linkSpec{{src: in, dst: 3, w: 1}},
		outs: []linkSpec{{src: 3, dst: h, w: pickWeight(g), td: true}}}
	return &modSpec{base: sp, ctrl: []ctrlSpec{cs}}, "ctrlChain+ctrlRead"
}

// genBiasRelay: module M1 writes a BIAS neuron's cell, module M0 (earlier in the list) reads it: the fast solver's
// Flush leaves neuronSignalsBeingProcessed of bias neurons alone
func genBiasRelay(g *G) (*modSpec, string) {
	lin := neatmath.LinearActivation
	sp := &netSpec{id: g.intn(100), nodes: []nodeSpec{
		{id: 1, kind: network.BiasNeuron, act: neatmath.NullActivation}, {id: 2, kind: network.InputNeuron, act: neatmath.NullActivation},
		{id: 3, kind: network.HiddenNeuron, act: lin}, {id: 4, kind: network.OutputNeuron, act: lin}},
		inputs: []int{0, 1}, outputs: []int{3}}
	sp.links = []linkSpec{{src: 1, dst: 2, w: pickWeight(g)}}
	if g.chance(0.5) {
		sp.links = append(sp.links, linkSpec{src: 2, dst: 3, w: pickWeight(g)})
	}
	m0 := ctrlSpec{id: 8, kind: network.HiddenNeuron, act: moduleActivators[g.intn(3)],
		ins: []linkSpec{{src: 0, dst: 4, w: 1}}, outs: []linkSpec{{src: 4, dst: 3, w: 1}}}
	m1 := ctrlSpec{id: 9, kind: network.HiddenNeuron, act: neatmath.MultiplyModuleActivation,
		ins: []linkSpec{{src: 2, dst: 5, w: 1}}, outs: []linkSpec{{src: 5, dst: 0, w: 1}}}
	return &modSpec{base: sp, ctrl: []ctrlSpec{m0, m1}}, "biasRelay"
}

// genModSpec: an arbitrary topology (genGraph) plus control nodes. family "+ctrlRead" = some neuron / module reads
// from a control node or an output is... (the wiring Genesis never produces)
func genModSpec(g *G) (*modSpec, string) {
	sp, family := genGraph(g)
	ms := &modSpec{base: sp}
	n := len(sp.nodes)
	nCtrl := 1 + g.intn(3)
	if g.chance(0.06) {
		nCtrl = 0
		family += "+noctrl"
	}
	maxId := 0
	for _, ns := range sp.nodes {
		if ns.id > maxId {
			maxId = ns.id
		}
	}
	neurons := []int{}
	for i, ns := range sp.nodes {
		if ns.kind == network.HiddenNeuron || ns.kind == network.OutputNeuron {
			neurons = append(neurons, i)
		}
	}
	exotic := g.chance(0.15)
	ctrlRead := false
	for k := 0; k < nCtrl; k++ {
		cs := ctrlSpec{id: maxId + 1 + k, kind: network.HiddenNeuron, act: pickModuleAct(g)}
		nIn := 1 + g.intn(3)
		if g.chance(0.05) {
			nIn = 0
		}
		for t := 0; t < nIn; t++ {
			src := g.intn(n)
			if g.chance(0.6) && len(neurons) > 0 {
				src = neurons[g.intn(len(neurons))]
			}
			if exotic && g.chance(0.15) {
				src = n + g.intn(nCtrl) // a module reading a control node
				ctrlRead = true
			}
			cs.ins = append(cs.ins, linkSpec{src: src, dst: n + k, w: pickWeight(g)})
		}
		nOut := 1
		switch c := g.intn(20); {
		case c == 0:
			nOut = 0
		case c == 1:
			nOut = 2
		}
		for t := 0; t < nOut; t++ {
			dst := neurons[g.intn(len(neurons))]
			if g.chance(0.08) {
				dst = g.intn(n) // also sensors
			}
			l := linkSpec{src: n + k, dst: dst, w: pickWeight(g)}
			if exotic && g.chance(0.1) {
				l.dst = n + g.intn(nCtrl) // a module writing a control node
			} else if exotic && g.chance(0.35) {
				l.td = true // full duplex: the target reads the control node in the first sweep
				ctrlRead = true
			}
			cs.outs = append(cs.outs, l)
		}
		ms.ctrl = append(ms.ctrl, cs)
	}
	if exotic && nCtrl > 0 && g.chance(0.3) {
		ms.extra = append(ms.extra, linkSpec{src: n + g.intn(nCtrl), dst: neurons[g.intn(len(neurons))], w: pickWeight(g)})
		ctrlRead = true
	}
	if exotic {
		family += "+exotic"
	}
	if ctrlRead {
		family += "+ctrlRead"
	}
	return ms, family
}

/* ---------- modular genomes for the Genesis path ---------- */

// modGenome: a genome with control genes whose neuron activations are all arithmetic-only
func modGenome(g *G) (*genetics.Genome, string) {
	var gn *genetics.Genome
	var fam string
	for try := 0; try < 5; try++ {
		gn, fam = genesisSubject(g)
		if len(gn.Nodes) >= 2 && len(gn.Nodes) <= 14 && len(gn.Genes) > 0 {
			break
		}
		gn = nil
	}
	if gn == nil {
		gn = cloneGenome(handGenome(g, 1+g.intn(50)))
		fam = "hand"
	}
	enabled := 0
	for _, cg := range gn.ControlGenes {
		if cg.IsEnabled {
			enabled++
		}
	}
	if enabled == 0 && !g.chance(0.05) {
		for k := 0; k < 1+g.intn(2); k++ {
			addModule(g, gn, true, g.chance(0.15))
		}
		fam += "+mod!"
	}
	for _, nd := range gn.Nodes {
		nd.ActivationType = pickExactAct(g)
		if nd.IsSensor() && g.chance(0.7) {
			nd.ActivationType = neatmath.NullActivation
		}
	}
	for _, cg := range gn.ControlGenes {
		cg.ControlNode.ActivationType = pickModuleAct(g)
		// the registered module activators return ONE value: more output neurons is an error (standard solver) resp.
		// a run-time panic (fast solver) on every activation; keep that rare
		if len(cg.ControlNode.Outgoing) > 1 && g.chance(0.9) {
			cg.ControlNode.Outgoing = cg.ControlNode.Outgoing[:1]
		}
	}
	return gn, fam
}

/* ---------- dumps ---------- */

type JMCtrl struct {
	Id   int      `json:"id"`
	Kind int      `json:"kind"`
	Act  int      `json:"act"`
	In   []JNLink `json:"in"`
	Out  []JNLink `json:"out"`
}

type JMNet struct {
	Id      int      `json:"id"`
	Nodes   []JNNode `json:"nodes"`
	Inputs  []int    `json:"inputs"`
	Outputs []int    `json:"outputs"`
	Ctrl    []JMCtrl `json:"ctrl"`
	// closed: every link endpoint, input and output is a node of allNodesMIMO, allNodesMIMO = allNodes ++ controlNodes
	Closed bool `json:"closed"`
}

func dumpMNet(n *network.Network) *JMNet {
	all := network.VerifNetAllNodes(n)
	ctrl := network.VerifNetControlNodes(n)
	mimo := network.VerifNetAllNodesMIMO(n)
	idx := map[*network.NNode]int{}
	for i, nd := range all {
		if _, ok := idx[nd]; !ok {
			idx[nd] = i
		}
	}
	for k, nd := range ctrl {
		if _, ok := idx[nd]; !ok {
			idx[nd] = len(all) + k
		}
	}
	j := &JMNet{Id: n.Id, Nodes: []JNNode{}, Inputs: []int{}, Outputs: []int{}, Ctrl: []JMCtrl{}, Closed: true}
	at := func(p *network.NNode) int {
		if i, ok := idx[p]; ok {
			return i
		}
		j.Closed = false
		return len(all) + len(ctrl) + 7
	}
	lk := func(l *network.Link) JNLink {
		return JNLink{Src: at(l.InNode), Dst: at(l.OutNode), W: bits(l.ConnectionWeight), Rec: l.IsRecurrent, Td: l.IsTimeDelayed}
	}
	for _, nd := range all {
		jn := JNNode{Id: nd.Id, Kind: int(nd.NeuronType), Act: int(nd.ActivationType), In: []JNLink{}}
		for _, l := range nd.Incoming {
			jn.In = append(jn.In, lk(l))
		}
		j.Nodes = append(j.Nodes, jn)
	}
	for _, nd := range ctrl {
		jc := JMCtrl{Id: nd.Id, Kind: int(nd.NeuronType), Act: int(nd.ActivationType), In: []JNLink{}, Out: []JNLink{}}
		for _, l := range nd.Incoming {
			jc.In = append(jc.In, lk(l))
		}
		for _, l := range nd.Outgoing {
			jc.Out = append(jc.Out, lk(l))
		}
		j.Ctrl = append(j.Ctrl, jc)
	}
	for _, p := range network.VerifNetInputs(n) {
		j.Inputs = append(j.Inputs, at(p))
	}
	for _, p := range n.Outputs {
		j.Outputs = append(j.Outputs, at(p))
	}
	if len(mimo) != len(all)+len(ctrl) {
		j.Closed = false
	} else {
		for i, nd := range mimo {
			if i < len(all) && nd != all[i] || i >= len(all) && nd != ctrl[i-len(all)] {
				j.Closed = false
			}
		}
	}
	return j
}

// dumpMimoState: hidden state of every node of allNodesMIMO (allNodes, then the control nodes)
func dumpMimoState(n *network.Network) []JNodeState {
	res := []JNodeState{}
	for _, nd := range network.VerifNetAllNodesMIMO(n) {
		s := network.VerifNodeState_(nd)
		res = append(res, JNodeState{Count: int(s.ActivationsCount), Active: s.IsActive, Visited: s.Visited,
			Act: bits(s.Activation), Last: bits(s.LastActivation), Last2: bits(s.LastActivation2), Sum: bits(s.ActivationSum)})
	}
	return res
}

type JFMod struct {
	Act  int   `json:"act"`
	Ins  []int `json:"ins"`
	Outs []int `json:"outs"`
}

func dumpFastMods(s *network.FastModularNetworkSolver) []JFMod {
	res := []JFMod{}
	for _, m := range network.VerifFastState_(s).Modules {
		res = append(res, JFMod{Act: int(m.ActivationType), Ins: append([]int{}, m.InputIndexes...), Outs: append([]int{}, m.OutputIndexes...)})
	}
	return res
}

type JCounts struct {
	Nodes      int `json:"nodes"`
	Links      int `json:"links"`
	Complexity int `json:"complexity"`
}

/* ---------- scripts ---------- */

// runScriptM: as runScript, with the state of ALL nodes (control nodes too) for the standard solver
func runScriptM(s network.Solver, std *network.Network, ops []*JOp, nan *bool) []JStep {
	steps := []JStep{}
	infBefore := false
	for _, op := range ops {
		if infBefore && op.K != "load" && op.K != "flush" {
			*nan = true
		}
		res, err := applyOp(s, op)
		st := JStep{Res: res, Err: modErrClass(err), Outs: bitsOf(s.ReadOutputs())}
		if std != nil {
			st.State = dumpMimoState(std)
			infBefore = false
			for _, x := range st.State {
				if hasNaN([]uint64{x.Act, x.Last, x.Last2, x.Sum}) {
					*nan = true
				}
				infBefore = infBefore || hasInf([]uint64{x.Act, x.Last, x.Last2, x.Sum})
			}
		} else {
			st.Fast = dumpFastState(s.(*network.FastModularNetworkSolver))
			if hasNaN(st.Fast.Signals) || hasNaN(st.Fast.Processing) || hasNaN(st.Fast.LastAct) {
				*nan = true
			}
			infBefore = hasInf(st.Fast.Signals) || hasInf(st.Fast.Processing) || hasInf(st.Fast.LastAct)
		}
		steps = append(steps, st)
	}
	return steps
}

func hasPrefix(s, p string) bool { return len(s) >= len(p) && s[:len(p)] == p }

func modErrClass(err error) *string {
	if err == nil {
		return nil
	}
	msg := err.Error()
	var c string
	switch {
	case hasPrefix(msg, "unsupported for modular networks"):
		c = "modular"
	case hasPrefix(msg, "unknown module activation type"):
		c = "unknownModAct"
	case hasPrefix(msg, "number of output parameters"):
		c = "moduleOutLen"
	case hasPrefix(msg, "recursive activation can not be used"):
		c = "recModules"
	default:
		return solverErrClass(err)
	}
	return &c
}

// pseudoSpec: what genLoad / genOps need to know about a network (node kinds and the inputs list)
func pseudoSpec(n *network.Network) *netSpec {
	sp := &netSpec{id: n.Id}
	for _, nd := range network.VerifNetAllNodes(n) {
		sp.nodes = append(sp.nodes, nodeSpec{id: nd.Id, kind: nd.NeuronType, act: nd.ActivationType})
	}
	for i := range network.VerifNetInputs(n) {
		sp.inputs = append(sp.inputs, i)
	}
	return sp
}

// genModOps: call sequences; activation step counts kept small (every ActivateSteps iteration runs all modules)
func genModOps(g *G, sp *netSpec, fast bool, k int, allowFlush bool) []*JOp {
	ops := []*JOp{}
	for i := 0; i < k; i++ {
		c := g.intn(40)
		switch {
		case c < 14:
			ops = append(ops, genLoad(g, sp, fast))
		case c < 24:
			if fast {
				ops = append(ops, &JOp{K: "fwd", N: []int{1, 1, 2, 3, 4, 0, -1}[g.intn(7)]})
			} else {
				ops = append(ops, &JOp{K: "act", N: []int{1, 2, 3, 5, 20, 20, 0, -1}[g.intn(8)]})
			}
		case c < 33:
			ops = append(ops, &JOp{K: "fwd", N: []int{1, 1, 2, 2, 3, 4, 0, -1}[g.intn(8)]})
		case c < 34:
			ops = append(ops, &JOp{K: "rec"}) // refused by modular networks / solvers with modules
		case c < 38:
			if fast {
				d := []float64{0, -1, 1e-3, 0.5, 1e-9}[g.intn(5)]
				ops = append(ops, &JOp{K: "relax", N: g.intn(6), delta: d, Delta: bits(d)})
			} else if g.chance(0.15) {
				ops = append(ops, &JOp{K: "relax", N: g.intn(6)})
			} else {
				ops = append(ops, &JOp{K: "act", N: 1 + g.intn(4)})
			}
		default:
			if allowFlush {
				ops = append(ops, &JOp{K: "flush"})
			} else {
				ops = append(ops, genLoad(g, sp, fast))
			}
		}
	}
	return ops
}

/* ---------- subjects ---------- */

// modSubject returns a builder of identical, independent instances
func modSubject(g *G) (mk func() *network.Network, build string, family string) {
	if g.chance(0.45) {
		gn, fam := modGenome(g)
		id := g.intn(100)
		if _, err := gn.Genesis(id); err != nil {
			return nil, "", ""
		}
		return func() *network.Network {
			n, err := gn.Genesis(id)
			if err != nil {
				panic(err)
			}
			return n
		}, "genesis", fam
	}
	var ms *modSpec
	var fam string
	switch c := g.intn(40); {
	case c == 0:
		ms, fam = genCtrlChain(g)
	case c == 1:
		ms, fam = genBiasRelay(g)
	default:
		ms, fam = genModSpec(g)
	}
	return ms.build, "hand", fam
}

type modRunIn struct {
	Net     *JMNet `json:"net"`
	Build   string `json:"build"`  // genesis | hand
	Solver  string `json:"solver"` // std | fast
	Family  string `json:"family"`
	History []*JOp `json:"history"`
	Seq     []*JOp `json:"seq"`
}

type modRunOut struct {
	BuildErr *string   `json:"buildErr"`
	FastNet  *JFastNet `json:"fastNet,omitempty"`
	Mods     []JFMod   `json:"mods"`
	Counts   *JCounts  `json:"counts"`
	Init     *JStep    `json:"init"`
	Flushed  []JStep   `json:"flushed"` // history ++ [flush] ++ seq   (modSolverRun: the one sequence)
	Fresh    []JStep   `json:"fresh"`   // seq on the twin
}

func modRun(g *G, withFlush bool) (interface{}, []uint64, int, interface{}) {
	mk, build, family := modSubject(g)
	if mk == nil {
		return nil, nil, 0, nil
	}
	fast := g.chance(0.45)
	in := &modRunIn{Build: build, Family: family, Solver: "std"}
	if fast {
		in.Solver = "fast"
	}
	netA, netB := mk(), mk()
	in.Net = dumpMNet(netA)
	if !in.Net.Closed {
		return nil, nil, 0, nil
	}
	sp := pseudoSpec(netA)
	hLen := g.intn(9)
	if g.chance(0.1) {
		hLen = 0
	}
	in.History = genModOps(g, sp, fast, hLen, true)
	in.Seq = genModOps(g, sp, fast, 1+g.intn(8), g.chance(0.3))
	var script []*JOp
	if withFlush {
		script = append(append([]*JOp{}, in.History...), &JOp{K: "flush"})
		script = append(script, in.Seq...)
	} else {
		script = append(append([]*JOp{}, in.History...), in.Seq...)
	}
	out := &modRunOut{Flushed: []JStep{}, Fresh: []JStep{}, Mods: []JFMod{}}
	nan := false
	if !fast {
		out.Counts = &JCounts{Nodes: netB.NodeCount(), Links: netB.LinkCount(), Complexity: netB.Complexity()}
		out.Init = &JStep{Outs: bitsOf(netB.ReadOutputs()), State: dumpMimoState(netB)}
		out.Flushed = runScriptM(netA, netA, script, &nan)
		if withFlush {
			out.Fresh = runScriptM(netB, netB, in.Seq, &nan)
		}
	} else {
		sa, errA := netA.FastNetworkSolver()
		sb, errB := netB.FastNetworkSolver()
		if errA != nil || errB != nil {
			out.BuildErr = modErrClass(errA)
			return in, nil, 0, out
		}
		fa, fb := sa.(*network.FastModularNetworkSolver), sb.(*network.FastModularNetworkSolver)
		out.FastNet = dumpFastNet(fa)
		out.Mods = dumpFastMods(fa)
		out.Counts = &JCounts{Nodes: fb.NodeCount(), Links: fb.LinkCount()}
		out.Init = &JStep{Outs: bitsOf(fb.ReadOutputs()), Fast: dumpFastState(fb)}
		out.Flushed = runScriptM(fa, nil, script, &nan)
		if withFlush {
			out.Fresh = runScriptM(fb, nil, in.Seq, &nan)
		}
	}
	if nan {
		return nil, nil, 0, nil
	}
	return in, nil, 0, out
}

func opModFlushRun(g *G) (interface{}, []uint64, int, interface{}) { return modRun(g, true) }

func opModSolverRun(g *G) (interface{}, []uint64, int, interface{}) { return modRun(g, false) }
