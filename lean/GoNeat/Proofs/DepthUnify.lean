/-
  The private depth function of the solver model (Model/Solver.lean: `depthAux`, `maxDepth`, used by
  `Network.RecursiveSteps`, C13/C12) computes the same depth and leaves the same marks as the depth model of C14
  (Model/Depth.lean) with cap 0, whenever the latter does not run out of fuel — which C14.no_fuel_error shows it
  never does.  So the C14 theorems (longest path, termination, marks restored) apply to the depth used by
  RecursiveSteps.
-/
import GoNeat.Model.Solver
import GoNeat.Model.Depth

namespace GoNeat.DepthUnify
open GoNeat
variable {W : Type} [Scalar W]

theorem overCap_zero (d : Nat) : Depth.overCap 0 d = false := by simp [Depth.overCap]

/-- the solver's fold over the incoming links is the depth model's loop, as long as no callee reports an error -/
theorem fold_eq_loop (net : Net W) (f f' : Nat) (d : Nat)
    (ih : ∀ vis i d r, Depth.depth net 0 f vis i d = r → r.err = .ok → Solver.depthAux net f' vis i d = (r.d, r.vis))
    (ls : List (NLink W)) (mx : Nat) (vis : List Bool) (r : Depth.DRes)
    (h : Depth.loop (fun v j => Depth.depth net 0 f v j (d + 1)) (ls.map (·.src)) mx vis = r) (hok : r.err = .ok) :
    ls.foldl (fun (acc : Nat × List Bool) l =>
        if acc.2.getD l.src false then acc
        else
          let c := Solver.depthAux net f' acc.2 l.src (d + 1)
          (if c.1 > acc.1 then c.1 else acc.1, c.2)) (mx, vis) = (r.d, r.vis) := by
  induction ls generalizing mx vis with
  | nil => simp only [List.map_nil, Depth.loop] at h; subst h; rfl
  | cons l ls ihl =>
    simp only [List.map_cons, Depth.loop] at h
    simp only [List.foldl_cons]
    by_cases hm : Depth.marked vis l.src = true
    · simp only [hm, ↓reduceIte] at h
      have : vis.getD l.src false = true := hm
      simp only [this, ↓reduceIte]
      exact ihl mx vis h
    · simp only [hm, Bool.false_eq_true, ↓reduceIte] at h
      have hg : vis.getD l.src false = false := by
        have : Depth.marked vis l.src = false := by simpa using hm
        exact this
      simp only [hg, Bool.false_eq_true, ↓reduceIte]
      by_cases he : (Depth.depth net 0 f vis l.src (d + 1)).err = .ok
      · simp only [he, ne_eq, not_true_eq_false, ↓reduceIte] at h
        rw [ih vis l.src (d + 1) _ rfl he]
        exact ihl _ _ h
      · simp only [ne_eq, he, not_false_eq_true, ↓reduceIte] at h
        rw [← h] at hok
        exact absurd hok he

theorem depthAux_eq (net : Net W) (f : Nat) : ∀ (f' : Nat), f ≤ f' → ∀ vis i d r,
    Depth.depth net 0 f vis i d = r → r.err = .ok → Solver.depthAux net f' vis i d = (r.d, r.vis) := by
  induction f with
  | zero => intro f' _ vis i d r h hok; simp only [Depth.depth] at h; subst h; cases hok
  | succ f ihf =>
    intro f' hle vis i d r h hok
    obtain ⟨g, rfl⟩ : ∃ g, f' = g + 1 := ⟨f' - 1, by omega⟩
    simp only [Depth.depth, overCap_zero, Bool.false_eq_true, ↓reduceIte] at h
    simp only [Solver.depthAux]
    cases hn : net.nodes[i]? with
    | none => simp only [hn] at h; subst h; rfl
    | some nd =>
      simp only [hn] at h
      by_cases hs : nd.isSensor = true
      · simp only [hs, ↓reduceIte] at h ⊢; subst h; rfl
      · simp only [hs, Bool.false_eq_true, ↓reduceIte] at h ⊢
        subst h
        simp only at hok
        rw [fold_eq_loop net f g d (ihf g (by omega)) nd.incoming d (vis.set i true) _ rfl hok]

/-- the loop over the outputs -/
theorem outFold_eq (net : Net W) (os : List Nat) (mx : Nat) (vis : List Bool) (r : Depth.DRes)
    (h : Depth.outLoop net 0 os mx vis = r) (hok : r.err = .ok) :
    os.foldl (fun (acc : Nat × List Bool) o =>
        let c := Solver.depthAux net (net.nodes.length + 2) acc.2 o 0
        (if c.1 > acc.1 then c.1 else acc.1, c.2)) (mx, vis) = (r.d, r.vis) := by
  induction os generalizing mx vis with
  | nil => simp only [Depth.outLoop] at h; subst h; rfl
  | cons o os ih =>
    simp only [Depth.outLoop] at h
    simp only [List.foldl_cons]
    by_cases he : (Depth.depth net 0 (Depth.fuelOf net) vis o 0).err = .ok
    · simp only [he, ne_eq, not_true_eq_false, ↓reduceIte] at h
      rw [depthAux_eq net (Depth.fuelOf net) (net.nodes.length + 2) (by simp [Depth.fuelOf]) vis o 0 _ rfl he]
      exact ih _ _ h
    · simp only [ne_eq, he, not_false_eq_true, ↓reduceIte] at h
      rw [← h] at hok
      exact absurd hok he

/-- **the depth `RecursiveSteps` uses is the C14 depth**: for a non-modular network, whenever the C14 model's
    uncapped query succeeds (it always does on marks that fit the network — `C14.no_fuel_error`, and cap 0 never
    yields `exceeded`), the solver model's `maxDepth` returns the same depth and the same marks -/
theorem solver_maxDepth_eq (net : Net W) (vis : List Bool) (hc : net.ctrl.length = 0)
    (hok : (Depth.maxDepthCap net 0 vis).err = .ok) :
    Solver.maxDepth net vis = ((Depth.maxDepthCap net 0 vis).depth.toNat, (Depth.maxDepthCap net 0 vis).vis) := by
  unfold Depth.maxDepthCap at hok ⊢
  unfold Solver.maxDepth
  simp only [hc, gt_iff_lt, Nat.lt_irrefl, ↓reduceIte] at hok ⊢
  by_cases hs : Depth.noHiddenShortcut net = true
  · have : (net.nodes.length == net.inputs.length + net.outputs.length) = true := hs
    simp [hs, this]
  · have hs' : (net.nodes.length == net.inputs.length + net.outputs.length) = false := by
      simpa [Depth.noHiddenShortcut] using hs
    simp only [hs, Bool.false_eq_true, ↓reduceIte] at hok ⊢
    simp only [hs', Bool.false_eq_true, ↓reduceIte]
    rw [outFold_eq net net.outputs 0 vis _ rfl hok]
    simp

end GoNeat.DepthUnify
