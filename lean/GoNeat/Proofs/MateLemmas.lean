/-
  C04 helper lemmas (Kind A): exact descriptions of `addChosen`, `ensureNode`, `ioNodes`, `avgChosen`,
  `disableDraw`, `mateTraits`; a generic invariant principle for each of the three crossover walks; the node-set
  invariant of the child under construction.
-/
import GoNeat.Proofs.WFMate2

namespace GoNeat.C04
open GoNeat Scalar
variable {W : Type} [Scalar W]

theorem tl {α} {p : α → Prop} {a : α} {l : List α} (h : ∀ z ∈ a :: l, p z) : ∀ z ∈ l, p z :=
  fun z hz => h z (List.mem_cons_of_mem _ hz)

/-! ### exact effect of the building blocks -/

omit [Scalar W] in
theorem ensureNode_exact (nt : List (Trait W)) (t0 : Option Int) (nodes nodes' : List Node) (n : Node)
    (h : ensureNode nt t0 nodes n = .ok nodes') :
    (∀ m ∈ nodes, m ∈ nodes') ∧ (∃ m ∈ nodes', m.id = n.id) ∧
    (∀ m ∈ nodes', m ∈ nodes ∨ ∃ tr, m = { n with trait := tr }) := by
  unfold ensureNode at h
  split at h
  · rename_i hany
    cases h
    obtain ⟨m, hm, e⟩ := List.any_eq_true.mp hany
    exact ⟨fun m hm => hm, ⟨m, hm, by simpa using e⟩, fun m hm => Or.inl hm⟩
  · split at h
    · cases h
    · rename_i tr _
      cases h
      have hmem : ∀ m, m ∈ nodeInsert nodes { n with trait := tr } ↔ m = { n with trait := tr } ∨ m ∈ nodes :=
        fun m => C01.mem_insertAt _ _ _ _
      refine ⟨fun m hm => (hmem m).mpr (Or.inr hm), ⟨_, (hmem _).mpr (Or.inl rfl), rfl⟩, ?_⟩
      intro m hm
      rcases (hmem m).mp hm with e | e
      · exact Or.inr ⟨tr, e⟩
      · exact Or.inl e

omit [Scalar W] in
/-- everything `addChosen` does: nothing on a same-link conflict; otherwise the two endpoint nodes are ensured and
    the chosen gene is appended with its trait pointer redirected and (when `dis`) disabled -/
theorem addChosen_exact (nt : List (Trait W)) (t0 : Option Int) (acc acc' : MateAcc W) (c : Chosen W) (dis : Bool)
    (h : addChosen nt t0 acc c dis = .ok acc') :
    (acc.genes.any (·.sameLink c.gene) = true ∧ acc' = acc) ∨
    (acc.genes.any (·.sameLink c.gene) = false ∧ ∃ sn dn n1 tr, c.srcN = some sn ∧ c.dstN = some dn ∧
      ensureNode nt t0 acc.nodes sn = .ok n1 ∧ ensureNode nt t0 n1 dn = .ok acc'.nodes ∧
      childTraitRef nt t0 c.gene.trait = .ok tr ∧
      acc'.genes = acc.genes ++ [{ c.gene with trait := tr, en := if dis then false else c.gene.en }]) := by
  unfold addChosen at h
  split at h
  · rename_i hany; left; cases h; exact ⟨hany, rfl⟩
  · rename_i hany
    right
    refine ⟨by simpa using hany, ?_⟩
    split at h
    · rename_i sn dn hsn hdn
      split at h
      · cases h
      · rename_i n1 h1
        split at h
        · cases h
        · rename_i n2 h2
          split at h
          · cases h
          · rename_i tr htr
            cases h
            exact ⟨sn, dn, n1, tr, hsn, hdn, h1, h2, htr, rfl⟩
    · cases h

/-- `c` is a verbatim copy of the parent gene `x` (number, endpoints, recurrence, weight, mutation number, enabled
    flag), its trait pointer redirected into the child's averaged traits -/
def CopyOf (nt : List (Trait W)) (t0 : Option Int) (c x : Gene W) : Prop :=
  ∃ tr, childTraitRef nt t0 x.trait = .ok tr ∧ c = { x with trait := tr }

/-- the enabled flag `e` of a gene built from two matching genes with flags `e1` (first parent) and `e2` (second
    parent), exactly as the code decides it (`!e1 || !e2 && rand.Float64() < 0.75` ⇒ disabled):
    disabled in the first parent ⇒ disabled; enabled in both ⇒ enabled; enabled in the first and disabled in the second
    ⇒ disabled iff a `rand.Float64()` draw is below 0.75 -/
def EnRule (e1 e2 e : Bool) : Prop :=
  (e1 = false → e = false) ∧ (e1 = true → e2 = true → e = true) ∧
  (e1 = true → e2 = false → ∃ (rs rs' : List Nat) (f : W), Rand.float64 rs = .ok (f, rs') ∧ e = !(lt f (ofDec 75 2)))

theorem disableDraw_exact (e1 e2 dis : Bool) (rs rs' : List Nat) (h : disableDraw (W := W) e1 e2 rs = .ok (dis, rs')) :
    EnRule (W := W) e1 e2 (!dis) := by
  unfold disableDraw at h
  cases e1 <;> cases e2 <;> simp at h
  · obtain ⟨rfl, _⟩ := h; exact ⟨by simp, by simp, by simp⟩
  · obtain ⟨rfl, _⟩ := h; exact ⟨by simp, by simp, by simp⟩
  · split at h
    · cases h
    · rename_i f rs1 hf
      simp only [Except.ok.injEq, Prod.mk.injEq] at h
      obtain ⟨rfl, rfl⟩ := h
      exact ⟨by simp, by simp, fun _ _ => ⟨rs, _, f, hf, rfl⟩⟩
  · obtain ⟨rfl, _⟩ := h; exact ⟨by simp, by simp, by simp⟩

/-- `c` is the code's average of the matching genes `x` (of the walk's first genome) and `y` (of its second):
    weight and mutation number are exactly `(x+y)/2` in the scalar's own arithmetic; source, target, recurrence flag
    and trait are each taken from one of the two; the enabled flag follows `EnRule` -/
structure AvgOf (nt : List (Trait W)) (t0 : Option Int) (x y c : Gene W) : Prop where
  inn : c.inn = x.inn
  w : c.w = avg x.w y.w
  mnum : c.mnum = avg x.mnum y.mnum
  src : c.src = x.src ∨ c.src = y.src
  dst : c.dst = x.dst ∨ c.dst = y.dst
  recur : c.recur = x.recur ∨ c.recur = y.recur
  trait : childTraitRef nt t0 x.trait = .ok c.trait ∨ childTraitRef nt t0 y.trait = .ok c.trait
  en : EnRule (W := W) x.en y.en c.en

/-- the gene `avgChosen` hands to `addChosen` -/
structure PreAvg (x y c : Gene W) : Prop where
  inn : c.inn = x.inn
  w : c.w = avg x.w y.w
  mnum : c.mnum = avg x.mnum y.mnum
  src : c.src = x.src ∨ c.src = y.src
  dst : c.dst = x.dst ∨ c.dst = y.dst
  recur : c.recur = x.recur ∨ c.recur = y.recur
  trait : c.trait = x.trait ∨ c.trait = y.trait
  en : EnRule (W := W) x.en y.en c.en

theorem avgChosen_exact (p1 p2 : Genome W) (x y : Gene W) (c : Chosen W) (rs rs' : List Nat)
    (h : avgChosen p1 p2 x y rs = .ok (c, rs')) : PreAvg x y c.gene := by
  unfold avgChosen at h
  split at h
  · cases h
  · split at h
    · cases h
    · split at h
      · cases h
      · split at h
        · cases h
        · split at h
          · cases h
          · rename_i dis rs5 hdd
            simp only [Except.ok.injEq, Prod.mk.injEq] at h
            obtain ⟨rfl, _⟩ := h
            refine ⟨rfl, rfl, rfl, ?_, ?_, ?_, ?_, disableDraw_exact _ _ _ _ _ hdd⟩
            all_goals (dsimp only; split <;> simp)

theorem PreAvg.link_eq {x y c : Gene W} (h : PreAvg x y c) (hxy : x.link = y.link) : c.link = x.link := by
  unfold Gene.link at hxy ⊢
  simp only [Prod.mk.injEq] at hxy ⊢
  obtain ⟨h1, h2, h3⟩ := hxy
  refine ⟨?_, ?_, ?_⟩
  · rcases h.src with e | e <;> simp [e, h1]
  · rcases h.dst with e | e <;> simp [e, h2]
  · rcases h.recur with e | e <;> simp [e, h3]

/-- appending an averaged gene (never with `dis`) gives an `AvgOf` gene -/
theorem avgOf_of_pre (nt : List (Trait W)) (t0 : Option Int) {x y c : Gene W} (h : PreAvg x y c) (tr : Option Int)
    (htr : childTraitRef nt t0 c.trait = .ok tr) :
    AvgOf nt t0 x y { c with trait := tr, en := if false then false else c.en } :=
  ⟨h.inn, h.w, h.mnum, h.src, h.dst, h.recur,
   by rcases h.trait with e | e
      · left; rw [← e]; exact htr
      · right; rw [← e]; exact htr,
   h.en⟩

/-! ### averaged traits -/

/-- the code's average of two traits: the first parent's id, parameters averaged element-wise -/
def avgTrait (a b : Trait W) : Trait W := { id := a.id, params := List.zipWith avg a.params b.params }

/-- `mateTraits` returns, position by position, the code's average of the two parents' traits; all parameter
    vectors had equal lengths -/
theorem mateTraits_exact (ts1 ts2 nt : List (Trait W)) (h : mateTraits ts1 ts2 = .ok nt) (hl : ts1.length = ts2.length) :
    nt = List.zipWith avgTrait ts1 ts2 ∧ nt.length = ts1.length ∧
    (∀ p ∈ List.zip ts1 ts2, p.1.params.length = p.2.params.length) := by
  induction ts1 generalizing ts2 nt with
  | nil => unfold mateTraits at h; cases h; cases ts2 <;> simp
  | cons t1 r1 ih =>
    cases ts2 with
    | nil => simp at hl
    | cons t2 r2 =>
      unfold mateTraits at h
      split at h
      · cases h
      · rename_i t ht
        split at h
        · cases h
        · rename_i ts hts
          cases h
          obtain ⟨e1, e2, e3⟩ := ih r2 ts hts (by simpa using hl)
          unfold traitAvg at ht
          split at ht
          · cases ht
          · rename_i hlen
            cases ht
            refine ⟨by simp [e1, avgTrait], by simp [e2], ?_⟩
            intro p hp
            simp only [List.zip_cons_cons, List.mem_cons] at hp
            rcases hp with rfl | hp
            · simpa using hlen
            · exact e3 p hp

/-- what a successful prologue fixes -/
theorem matePrologue_exact (g og : Genome W) (nt : List (Trait W)) (t0 : Option Int) (nodes : List Node)
    (h : matePrologue g og = .ok (nt, t0, nodes)) :
    g.traits.length = og.traits.length ∧ mateTraits g.traits og.traits = .ok nt ∧
    ioNodes nt t0 og.nodes [] = .ok nodes ∧ t0 = g.traits.head?.map (·.id) := by
  unfold matePrologue at h
  split at h
  · cases h
  · split at h
    · cases h
    · rename_i hlen
      split at h
      · cases h
      · rename_i nt' hmt
        simp only at h
        split at h
        · cases h
        · rename_i nodes' hio
          simp only [Except.ok.injEq, Prod.mk.injEq] at h
          obtain ⟨rfl, rfl, rfl⟩ := h
          exact ⟨by simpa using hlen, hmt, hio, rfl⟩

/-! ### the copies of the second parent's input/bias/output nodes -/

def isIO (n : Node) : Bool := n.kind == Kind.input || n.kind == Kind.bias || n.kind == Kind.output

omit [Scalar W] in
theorem ioNodes_exact (nt : List (Trait W)) (t0 : Option Int) (ns acc res : List Node)
    (h : ioNodes nt t0 ns acc = .ok res) :
    (∀ m ∈ acc, m ∈ res) ∧
    (∀ m ∈ res, m ∈ acc ∨ ∃ n ∈ ns, isIO n = true ∧ ∃ tr, m = { n with trait := tr }) ∧
    (∀ n ∈ ns, isIO n = true → ∃ tr, { n with trait := tr } ∈ res) := by
  induction ns generalizing acc with
  | nil => unfold ioNodes at h; cases h; exact ⟨fun m hm => hm, fun m hm => Or.inl hm, by simp⟩
  | cons n rest ih =>
    unfold ioNodes at h
    split at h
    · rename_i hio
      split at h
      · cases h
      · rename_i tr _
        have hmem : ∀ m, m ∈ nodeInsert acc { n with trait := tr } ↔ m = { n with trait := tr } ∨ m ∈ acc :=
          fun m => C01.mem_insertAt _ _ _ _
        obtain ⟨r1, r2, r3⟩ := ih _ h
        refine ⟨fun m hm => r1 m ((hmem m).mpr (Or.inr hm)), ?_, ?_⟩
        · intro m hm
          rcases r2 m hm with h' | ⟨k, hk, e⟩
          · rcases (hmem m).mp h' with e | e
            · exact Or.inr ⟨n, by simp, hio, tr, e⟩
            · exact Or.inl e
          · exact Or.inr ⟨k, List.mem_cons_of_mem _ hk, e⟩
        · intro k hk hkio
          rcases List.mem_cons.mp hk with rfl | hk'
          · exact ⟨tr, r1 _ ((hmem _).mpr (Or.inl rfl))⟩
          · exact r3 k hk' hkio
    · rename_i hio
      obtain ⟨r1, r2, r3⟩ := ih _ h
      refine ⟨r1, ?_, ?_⟩
      · intro m hm
        rcases r2 m hm with h' | ⟨k, hk, e⟩
        · exact Or.inl h'
        · exact Or.inr ⟨k, List.mem_cons_of_mem _ hk, e⟩
      · intro k hk hkio
        rcases List.mem_cons.mp hk with rfl | hk'
        · exact absurd hkio hio
        · exact r3 k hk' hkio

/-! ### a generic invariant principle for each walk -/

theorem multipointWalk_ind (P : MateAcc W → Prop) (p1 p2 : Genome W) (nt : List (Trait W)) (t0 : Option Int)
    (better : Bool) (xs ys : List (Gene W)) (acc acc' : MateAcc W) (rs rs' : List Nat)
    (h1 : ∀ x ∈ xs, ∀ a a' dis, P a → addChosen nt t0 a (chooseFrom p1 x) dis = .ok a' → P a')
    (h2 : ∀ y ∈ ys, ∀ a a' dis, P a → addChosen nt t0 a (chooseFrom p2 y) dis = .ok a' → P a')
    (h : multipointWalk p1 p2 nt t0 better xs ys acc rs = .ok (acc', rs')) (hacc : P acc) : P acc' := by
  fun_induction multipointWalk p1 p2 nt t0 better xs ys acc rs
  all_goals try (cases h; done)
  case case1 => cases h; exact hacc
  case case2 ih => exact ih h1 (tl h2) h hacc
  case case4 y ys acc rs hb acc1 he ih =>
    exact ih h1 (tl h2) h (h2 y List.mem_cons_self _ _ _ hacc he)
  case case5 ih => exact ih (tl h1) h2 h hacc
  case case7 x xs acc rs hb acc1 he ih =>
    exact ih (tl h1) h2 h (h1 x List.mem_cons_self _ _ _ hacc he)
  case case11 x xs y ys acc rs heq f rs1 hf c dis rs2 hdd acc1 he ih =>
    refine ih (tl h1) (tl h2) h ?_
    dsimp only [c] at he
    split at he
    · exact h1 x List.mem_cons_self _ _ _ hacc he
    · exact h2 y List.mem_cons_self _ _ _ hacc he
  case case12 ih => exact ih (tl h1) h2 h hacc
  case case14 x xs y ys acc rs hne hlt hb acc1 he ih =>
    exact ih (tl h1) h2 h (h1 x List.mem_cons_self _ _ _ hacc he)
  case case15 ih => exact ih h1 (tl h2) h hacc
  case case17 x xs y ys acc rs hne hlt hb acc1 he ih =>
    exact ih h1 (tl h2) h (h2 y List.mem_cons_self _ _ _ hacc he)

theorem multipointAvgWalk_ind (P : MateAcc W → Prop) (p1 p2 : Genome W) (nt : List (Trait W)) (t0 : Option Int)
    (better : Bool) (xs ys : List (Gene W)) (acc acc' : MateAcc W) (rs rs' : List Nat)
    (h1 : ∀ x ∈ xs, ∀ a a' dis, P a → addChosen nt t0 a (chooseFrom p1 x) dis = .ok a' → P a')
    (h2 : ∀ y ∈ ys, ∀ a a' dis, P a → addChosen nt t0 a (chooseFrom p2 y) dis = .ok a' → P a')
    (h3 : ∀ x ∈ xs, ∀ y ∈ ys, x.inn = y.inn → ∀ c r r', avgChosen p1 p2 x y r = .ok (c, r') →
      ∀ a a', P a → addChosen nt t0 a c false = .ok a' → P a')
    (h : multipointAvgWalk p1 p2 nt t0 better xs ys acc rs = .ok (acc', rs')) (hacc : P acc) : P acc' := by
  fun_induction multipointAvgWalk p1 p2 nt t0 better xs ys acc rs
  all_goals try (cases h; done)
  case case1 => cases h; exact hacc
  case case2 ih => exact ih h1 (tl h2) (fun x hx y hy => h3 x hx y (List.mem_cons_of_mem _ hy)) h hacc
  case case4 y ys acc rs hb acc1 he ih =>
    exact ih h1 (tl h2) (fun x hx y hy => h3 x hx y (List.mem_cons_of_mem _ hy)) h (h2 y List.mem_cons_self _ _ _ hacc he)
  case case5 ih => exact ih (tl h1) h2 (fun x hx => h3 x (List.mem_cons_of_mem _ hx)) h hacc
  case case7 x xs acc rs hb acc1 he ih =>
    exact ih (tl h1) h2 (fun x hx => h3 x (List.mem_cons_of_mem _ hx)) h (h1 x List.mem_cons_self _ _ _ hacc he)
  case case10 x xs y ys acc rs heq c rs1 hav acc1 he ih =>
    exact ih (tl h1) (tl h2) (fun x hx y hy => h3 x (List.mem_cons_of_mem _ hx) y (List.mem_cons_of_mem _ hy)) h
      (h3 x List.mem_cons_self y List.mem_cons_self heq _ _ _ hav _ _ hacc he)
  case case11 ih => exact ih (tl h1) h2 (fun x hx => h3 x (List.mem_cons_of_mem _ hx)) h hacc
  case case13 x xs y ys acc rs hne hlt hb acc1 he ih =>
    exact ih (tl h1) h2 (fun x hx => h3 x (List.mem_cons_of_mem _ hx)) h (h1 x List.mem_cons_self _ _ _ hacc he)
  case case14 ih => exact ih h1 (tl h2) (fun x hx y hy => h3 x hx y (List.mem_cons_of_mem _ hy)) h hacc
  case case16 x xs y ys acc rs hne hlt hb acc1 he ih =>
    exact ih h1 (tl h2) (fun x hx y hy => h3 x hx y (List.mem_cons_of_mem _ hy)) h (h2 y List.mem_cons_self _ _ _ hacc he)

theorem singlePointWalk_ind (P : MateAcc W → Prop) (q1 q2 : Genome W) (nt : List (Trait W)) (t0 : Option Int)
    (cp : Nat) (xs ys : List (Gene W)) (gc : Nat) (last : Option (Chosen W)) (acc acc' : MateAcc W) (rs rs' : List Nat)
    (h1 : ∀ x ∈ xs, ∀ a a' dis, P a → addChosen nt t0 a (chooseFrom q1 x) dis = .ok a' → P a')
    (h2 : ∀ y ∈ ys, ∀ a a' dis, P a → addChosen nt t0 a (chooseFrom q2 y) dis = .ok a' → P a')
    (h3 : ∀ x ∈ xs, ∀ y ∈ ys, x.inn = y.inn → ∀ c r r', avgChosen q1 q2 x y r = .ok (c, r') →
      ∀ a a', P a → addChosen nt t0 a c false = .ok a' → P a')
    (h : singlePointWalk q1 q2 nt t0 cp xs ys gc last acc rs = .ok (acc', rs')) (hacc : P acc) : P acc' := by
  fun_induction singlePointWalk q1 q2 nt t0 cp xs ys gc last acc rs
  all_goals try (cases h; done)
  case case1 => cases h; exact hacc
  case case3 y ys gc l acc rs c acc1 he ih =>
    exact ih h1 (tl h2) (fun x hx y hy => h3 x hx y (List.mem_cons_of_mem _ hy)) h (h2 y List.mem_cons_self _ _ _ hacc he)
  case case5 x xs y ys gc l acc rs heq hlt c acc1 he ih =>
    exact ih (tl h1) (tl h2) (fun x hx y hy => h3 x (List.mem_cons_of_mem _ hx) y (List.mem_cons_of_mem _ hy)) h
      (h1 x List.mem_cons_self _ _ _ hacc he)
  case case7 x xs y ys gc l acc rs heq hnlt hgt c acc1 he ih =>
    exact ih (tl h1) (tl h2) (fun x hx y hy => h3 x (List.mem_cons_of_mem _ hx) y (List.mem_cons_of_mem _ hy)) h
      (h2 y List.mem_cons_self _ _ _ hacc he)
  case case10 x xs y ys gc l acc rs heq hnlt hngt c rs1 hav acc1 he ih =>
    exact ih (tl h1) (tl h2) (fun x hx y hy => h3 x (List.mem_cons_of_mem _ hx) y (List.mem_cons_of_mem _ hy)) h
      (h3 x List.mem_cons_self y List.mem_cons_self heq _ _ _ hav _ _ hacc he)
  case case12 x xs y ys gc l acc rs hne hlt hgc c acc1 he ih =>
    exact ih (tl h1) h2 (fun x hx => h3 x (List.mem_cons_of_mem _ hx)) h (h1 x List.mem_cons_self _ _ _ hacc he)
  case case14 x xs y ys gc l acc rs hne hlt hgc c acc1 he ih =>
    exact ih h1 (tl h2) (fun x hx y hy => h3 x hx y (List.mem_cons_of_mem _ hy)) h (h2 y List.mem_cons_self _ _ _ hacc he)
  case case15 => cases h; exact hacc
  case case16 ih => exact ih h1 (tl h2) (fun x hx y hy => h3 x hx y (List.mem_cons_of_mem _ hy)) h hacc

/-! ### one step of a walk on the gene list -/

omit [Scalar W] in
theorem copy_link {nt : List (Trait W)} {t0 : Option Int} {c x : Gene W} (h : CopyOf nt t0 c x) : c.link = x.link ∧ c.inn = x.inn := by
  obtain ⟨tr, _, rfl⟩ := h; exact ⟨rfl, rfl⟩

/-- a parent's gene whose link is not yet in the child is appended as a verbatim copy -/
theorem step_copy (nt : List (Trait W)) (t0 : Option Int) (p : Genome W) (x : Gene W) (acc acc1 : MateAcc W)
    (he : addChosen nt t0 acc (chooseFrom p x) false = .ok acc1) (hf : ∀ a ∈ acc.genes, a.link ≠ x.link) :
    ∃ g', acc1.genes = acc.genes ++ [g'] ∧ CopyOf nt t0 g' x := by
  rcases addChosen_exact nt t0 acc acc1 _ _ he with ⟨hany, _⟩ | ⟨_, sn, dn, n1, tr, _, _, _, _, htr, hg⟩
  · obtain ⟨a, ha, hs⟩ := List.any_eq_true.mp hany
    exact absurd ((sameLink_iff a _).mp hs) (hf a ha)
  · exact ⟨_, hg, tr, htr, rfl⟩

/-- the average of two matching genes with one link, that link not yet in the child, is appended -/
theorem step_avg (nt : List (Trait W)) (t0 : Option Int) (p1 p2 : Genome W) (x y : Gene W) (c : Chosen W)
    (rs rs1 : List Nat) (acc acc1 : MateAcc W) (hav : avgChosen p1 p2 x y rs = .ok (c, rs1))
    (he : addChosen nt t0 acc c false = .ok acc1) (hxy : x.link = y.link) (hf : ∀ a ∈ acc.genes, a.link ≠ x.link) :
    ∃ g', acc1.genes = acc.genes ++ [g'] ∧ AvgOf nt t0 x y g' ∧ g'.link = x.link := by
  have hp := avgChosen_exact p1 p2 x y c rs rs1 hav
  have hl := hp.link_eq hxy
  rcases addChosen_exact nt t0 acc acc1 _ _ he with ⟨hany, _⟩ | ⟨_, sn, dn, n1, tr, _, _, _, _, htr, hg⟩
  · obtain ⟨a, ha, hs⟩ := List.any_eq_true.mp hany
    exact absurd (((sameLink_iff a _).mp hs).trans hl) (hf a ha)
  · exact ⟨_, hg, avgOf_of_pre nt t0 hp tr htr, hl⟩

/-! ### alignment of the averaging multipoint walk with the fitter parent -/

/-- the child gene `c` standing for gene `x` of the fitter parent when that is the FIRST parent (`other` = the second
    parent's genes): a verbatim copy if no gene of the other parent carries the number, else the code's average
    with the matching gene -/
def InheritsAvg1 (nt : List (Trait W)) (t0 : Option Int) (other : List (Gene W)) (c x : Gene W) : Prop :=
  ((∀ y ∈ other, y.inn ≠ x.inn) ∧ CopyOf nt t0 c x) ∨ (∃ y ∈ other, y.inn = x.inn ∧ AvgOf nt t0 x y c)

/-- the same when the fitter parent is the SECOND parent (`other` = the first parent's genes; the average still
    takes the first parent's gene as its first operand) -/
def InheritsAvg2 (nt : List (Trait W)) (t0 : Option Int) (other : List (Gene W)) (c y : Gene W) : Prop :=
  ((∀ x ∈ other, x.inn ≠ y.inn) ∧ CopyOf nt t0 c y) ∨ (∃ x ∈ other, x.inn = y.inn ∧ AvgOf nt t0 x y c)

theorem inh1_inn {nt : List (Trait W)} {t0 : Option Int} {other : List (Gene W)} {c x : Gene W}
    (h : InheritsAvg1 nt t0 other c x) : c.inn = x.inn := by
  rcases h with ⟨_, h⟩ | ⟨y, _, _, h⟩
  · exact (copy_link h).2
  · exact h.inn

theorem inh2_inn {nt : List (Trait W)} {t0 : Option Int} {other : List (Gene W)} {c y : Gene W}
    (h : InheritsAvg2 nt t0 other c y) : c.inn = y.inn := by
  rcases h with ⟨_, h⟩ | ⟨x, _, e, h⟩
  · exact (copy_link h).2
  · rw [h.inn, e]

theorem multipointAvgWalk_p1 (p1 p2 : Genome W) (nt : List (Trait W)) (t0 : Option Int)
    (pre xs ys : List (Gene W)) (acc acc' : MateAcc W) (rs rs' : List Nat)
    (h : multipointAvgWalk p1 p2 nt t0 true xs ys acc rs = .ok (acc', rs'))
    (hs1 : GenesSorted xs) (hs2 : GenesSorted ys) (hpre : ∀ p ∈ pre, ∀ x ∈ xs, p.inn < x.inn)
    (hd : LinksDistinct xs) (hc : Consistent xs ys) (hacc : ∀ a ∈ acc.genes, ∀ x ∈ xs, a.link ≠ x.link) :
    ∃ news, acc'.genes = acc.genes ++ news ∧ Aligned (InheritsAvg1 nt t0 (pre ++ ys)) news xs := by
  fun_induction multipointAvgWalk p1 p2 nt t0 true xs ys acc rs generalizing pre
  all_goals try (cases h; done)
  all_goals try (rename_i hb; simp at hb; done)
  all_goals try (rename_i hb _; simp at hb; done)
  all_goals try (rename_i hb _ _; simp at hb; done)
  all_goals try (rename_i hb _ _ _; simp at hb; done)
  case case1 => cases h; exact ⟨[], by simp, Aligned.nil⟩
  case case2 y ys acc rs hb ih =>
    obtain ⟨news, hn, hal⟩ := ih (pre ++ [y]) h hs1 (C01.sorted_cons hs2).1 (by simp) hd (by intro x hx; cases hx) hacc
    cases hal; exact ⟨[], hn, Aligned.nil⟩
  case case7 x xs acc rs hb acc1 he ih =>
    obtain ⟨g', hg, hcp⟩ := step_copy nt t0 p1 x acc acc1 he (fun a ha => hacc a ha x (by simp))
    obtain ⟨news, hn, hal⟩ := ih pre h (C01.sorted_cons hs1).1 hs2 (fun p hp z hz => hpre p hp z (by simp [hz]))
      (List.pairwise_cons.mp hd).2 (by intro a _ b hb; cases hb)
      (by rw [hg]; exact fresh_after _ _ _ _ (copy_link hcp).1 hd hacc)
    refine ⟨g' :: news, by rw [hn, hg]; simp, Aligned.cons (Or.inl ⟨?_, hcp⟩) hal⟩
    intro y hy e
    simp only [List.append_nil] at hy
    have := hpre y hy x (by simp); omega
  case case10 x xs y ys acc rs heq c rs1 hav acc1 he ih =>
    have hxy : x.link = y.link := hc x (by simp) y (by simp) heq
    obtain ⟨g', hg, havg, hl⟩ := step_avg nt t0 p1 p2 x y c rs rs1 acc acc1 hav he hxy (fun a ha => hacc a ha x (by simp))
    obtain ⟨news, hn, hal⟩ := ih (pre ++ [y]) h (C01.sorted_cons hs1).1 (C01.sorted_cons hs2).1
      (by
        intro p hp z hz
        have hxz := (C01.sorted_cons hs1).2 z hz
        rcases List.mem_append.mp hp with hp | hp
        · exact hpre p hp z (by simp [hz])
        · simp only [List.mem_singleton] at hp; subst hp; omega)
      (List.pairwise_cons.mp hd).2 (fun a ha b hb => hc a (by simp [ha]) b (by simp [hb]))
      (by rw [hg]; exact fresh_after _ _ _ _ hl hd hacc)
    have e : (pre ++ [y]) ++ ys = pre ++ y :: ys := by simp
    rw [e] at hal
    exact ⟨g' :: news, by rw [hn, hg]; simp, Aligned.cons (Or.inr ⟨y, by simp, heq.symm, havg⟩) hal⟩
  case case13 x xs y ys acc rs hne hlt hb acc1 he ih =>
    obtain ⟨g', hg, hcp⟩ := step_copy nt t0 p1 x acc acc1 he (fun a ha => hacc a ha x (by simp))
    obtain ⟨news, hn, hal⟩ := ih pre h (C01.sorted_cons hs1).1 hs2 (fun p hp z hz => hpre p hp z (by simp [hz]))
      (List.pairwise_cons.mp hd).2 (fun a ha b hb => hc a (by simp [ha]) b hb)
      (by rw [hg]; exact fresh_after _ _ _ _ (copy_link hcp).1 hd hacc)
    refine ⟨g' :: news, by rw [hn, hg]; simp, Aligned.cons (Or.inl ⟨?_, hcp⟩) hal⟩
    intro y' hy' e
    rcases List.mem_append.mp hy' with hy' | hy'
    · have := hpre y' hy' x (by simp); omega
    · rcases List.mem_cons.mp hy' with rfl | hy''
      · omega
      · have := (C01.sorted_cons hs2).2 y' hy''; omega
  case case14 x xs y ys acc rs hne hlt hb ih =>
    obtain ⟨news, hn, hal⟩ := ih (pre ++ [y]) h hs1 (C01.sorted_cons hs2).1
      (by
        intro p hp z hz
        rcases List.mem_append.mp hp with hp | hp
        · exact hpre p hp z hz
        · simp only [List.mem_singleton] at hp; subst hp
          rcases List.mem_cons.mp hz with rfl | hz'
          · omega
          · have := (C01.sorted_cons hs1).2 z hz'; omega)
      hd (fun a ha b hb => hc a ha b (by simp [hb])) hacc
    have e : (pre ++ [y]) ++ ys = pre ++ y :: ys := by simp
    rw [e] at hal
    exact ⟨news, hn, hal⟩

theorem multipointAvgWalk_p2 (p1 p2 : Genome W) (nt : List (Trait W)) (t0 : Option Int)
    (pre xs ys : List (Gene W)) (acc acc' : MateAcc W) (rs rs' : List Nat)
    (h : multipointAvgWalk p1 p2 nt t0 false xs ys acc rs = .ok (acc', rs'))
    (hs1 : GenesSorted xs) (hs2 : GenesSorted ys) (hpre : ∀ p ∈ pre, ∀ y ∈ ys, p.inn < y.inn)
    (hd : LinksDistinct ys) (hc : Consistent xs ys) (hacc : ∀ a ∈ acc.genes, ∀ y ∈ ys, a.link ≠ y.link) :
    ∃ news, acc'.genes = acc.genes ++ news ∧ Aligned (InheritsAvg2 nt t0 (pre ++ xs)) news ys := by
  fun_induction multipointAvgWalk p1 p2 nt t0 false xs ys acc rs generalizing pre
  all_goals try (cases h; done)
  all_goals try (rename_i hb; simp at hb; done)
  all_goals try (rename_i hb _; simp at hb; done)
  all_goals try (rename_i hb _ _; simp at hb; done)
  all_goals try (rename_i hb _ _ _; simp at hb; done)
  case case1 => cases h; exact ⟨[], by simp, Aligned.nil⟩
  case case5 x xs acc rs hb ih =>
    obtain ⟨news, hn, hal⟩ := ih (pre ++ [x]) h (C01.sorted_cons hs1).1 hs2 (by simp) hd (by intro a _ b hb; cases hb) hacc
    cases hal; exact ⟨[], hn, Aligned.nil⟩
  case case4 y ys acc rs hb acc1 he ih =>
    obtain ⟨g', hg, hcp⟩ := step_copy nt t0 p2 y acc acc1 he (fun a ha => hacc a ha y (by simp))
    obtain ⟨news, hn, hal⟩ := ih pre h hs1 (C01.sorted_cons hs2).1 (fun p hp z hz => hpre p hp z (by simp [hz]))
      (List.pairwise_cons.mp hd).2 (by intro a ha; cases ha)
      (by rw [hg]; exact fresh_after _ _ _ _ (copy_link hcp).1 hd hacc)
    refine ⟨g' :: news, by rw [hn, hg]; simp, Aligned.cons (Or.inl ⟨?_, hcp⟩) hal⟩
    intro x hx e
    simp only [List.append_nil] at hx
    have := hpre x hx y (by simp); omega
  case case10 x xs y ys acc rs heq c rs1 hav acc1 he ih =>
    have hxy : x.link = y.link := hc x (by simp) y (by simp) heq
    obtain ⟨g', hg, havg, hl⟩ := step_avg nt t0 p1 p2 x y c rs rs1 acc acc1 hav he hxy
      (fun a ha => by rw [hxy]; exact hacc a ha y (by simp))
    obtain ⟨news, hn, hal⟩ := ih (pre ++ [x]) h (C01.sorted_cons hs1).1 (C01.sorted_cons hs2).1
      (by
        intro p hp z hz
        have hyz := (C01.sorted_cons hs2).2 z hz
        rcases List.mem_append.mp hp with hp | hp
        · exact hpre p hp z (by simp [hz])
        · simp only [List.mem_singleton] at hp; subst hp; omega)
      (List.pairwise_cons.mp hd).2 (fun a ha b hb => hc a (by simp [ha]) b (by simp [hb]))
      (by rw [hg]; exact fresh_after _ _ _ _ (hl.trans hxy) hd hacc)
    have e : (pre ++ [x]) ++ xs = pre ++ x :: xs := by simp
    rw [e] at hal
    exact ⟨g' :: news, by rw [hn, hg]; simp, Aligned.cons (Or.inr ⟨x, by simp, heq, havg⟩) hal⟩
  case case16 x xs y ys acc rs hne hlt hb acc1 he ih =>
    obtain ⟨g', hg, hcp⟩ := step_copy nt t0 p2 y acc acc1 he (fun a ha => hacc a ha y (by simp))
    obtain ⟨news, hn, hal⟩ := ih pre h hs1 (C01.sorted_cons hs2).1 (fun p hp z hz => hpre p hp z (by simp [hz]))
      (List.pairwise_cons.mp hd).2 (fun a ha b hb => hc a ha b (by simp [hb]))
      (by rw [hg]; exact fresh_after _ _ _ _ (copy_link hcp).1 hd hacc)
    refine ⟨g' :: news, by rw [hn, hg]; simp, Aligned.cons (Or.inl ⟨?_, hcp⟩) hal⟩
    intro x' hx' e
    rcases List.mem_append.mp hx' with hx' | hx'
    · have := hpre x' hx' y (by simp); omega
    · rcases List.mem_cons.mp hx' with rfl | hx''
      · omega
      · have := (C01.sorted_cons hs1).2 x' hx''; omega
  case case11 x xs y ys acc rs hne hlt hb ih =>
    obtain ⟨news, hn, hal⟩ := ih (pre ++ [x]) h (C01.sorted_cons hs1).1 hs2
      (by
        intro p hp z hz
        rcases List.mem_append.mp hp with hp | hp
        · exact hpre p hp z hz
        · simp only [List.mem_singleton] at hp; subst hp
          rcases List.mem_cons.mp hz with rfl | hz'
          · omega
          · have := (C01.sorted_cons hs2).2 z hz'; omega)
      hd (fun a ha b hb => hc a (by simp [ha]) b hb) hacc
    have e : (pre ++ [x]) ++ xs = pre ++ x :: xs := by simp
    rw [e] at hal
    exact ⟨news, hn, hal⟩

/-! ### the node set of the child under construction -/

/-- a child node has id, role and activation type of a node of one of the parents -/
def NodeFrom (g og : Genome W) (m : Node) : Prop :=
  ∃ n, (n ∈ g.nodes ∨ n ∈ og.nodes) ∧ n.id = m.id ∧ n.kind = m.kind ∧ n.act = m.act

/-- `io` = the copies of the second parent's input/bias/output nodes made by the prologue: they stay, every node is
    a parent's node, and every other node is an endpoint of a collected gene -/
structure NodeInv (g og : Genome W) (io : List Node) (acc : MateAcc W) : Prop where
  from_ : ∀ m ∈ acc.nodes, NodeFrom g og m
  only : ∀ m ∈ acc.nodes, m ∈ io ∨ ∃ x ∈ acc.genes, m.id = x.src ∨ m.id = x.dst
  keep : ∀ m ∈ io, m ∈ acc.nodes

omit [Scalar W] in
theorem addChosen_nodeInv (g og : Genome W) (io : List Node) (nt : List (Trait W)) (t0 : Option Int)
    (c : Chosen W) (hc : C01.Legit g og c) (acc acc' : MateAcc W) (dis : Bool)
    (hinv : NodeInv g og io acc) (h : addChosen nt t0 acc c dis = .ok acc') : NodeInv g og io acc' := by
  rcases addChosen_exact nt t0 acc acc' c dis h with ⟨_, rfl⟩ | ⟨_, sn, dn, n1, tr, hsn, hdn, e1, e2, _, hg⟩
  · exact hinv
  · obtain ⟨a1, _, a3⟩ := ensureNode_exact nt t0 _ _ _ e1
    obtain ⟨b1, _, b3⟩ := ensureNode_exact nt t0 _ _ _ e2
    have hnew : ({ c.gene with trait := tr, en := if dis then false else c.gene.en } : Gene W) ∈ acc'.genes := by
      rw [hg]; simp
    have hold : ∀ x ∈ acc.genes, x ∈ acc'.genes := fun x hx => by rw [hg]; simp [hx]
    have cases3 : ∀ m ∈ acc'.nodes, m ∈ acc.nodes ∨ (∃ t, m = { sn with trait := t }) ∨ (∃ t, m = { dn with trait := t }) := by
      intro m hm
      rcases b3 m hm with hm | hm
      · rcases a3 m hm with hm | hm
        · exact Or.inl hm
        · exact Or.inr (Or.inl hm)
      · exact Or.inr (Or.inr hm)
    refine ⟨?_, ?_, fun m hm => b1 m (a1 m (hinv.keep m hm))⟩
    · intro m hm
      rcases cases3 m hm with hm | ⟨t, rfl⟩ | ⟨t, rfl⟩
      · exact hinv.from_ m hm
      · exact ⟨sn, (hc.src sn hsn).2, rfl, rfl, rfl⟩
      · exact ⟨dn, (hc.dst dn hdn).2, rfl, rfl, rfl⟩
    · intro m hm
      rcases cases3 m hm with hm | ⟨t, rfl⟩ | ⟨t, rfl⟩
      · rcases hinv.only m hm with h' | ⟨x, hx, e⟩
        · exact Or.inl h'
        · exact Or.inr ⟨x, hold x hx, e⟩
      · exact Or.inr ⟨_, hnew, Or.inl (hc.src sn hsn).1⟩
      · exact Or.inr ⟨_, hnew, Or.inr (hc.dst dn hdn).1⟩

omit [Scalar W] in
theorem isIO_iff (n : Node) (h : n.kind ≤ 3) : isIO n = true ↔ n.kind ≠ Kind.hidden := by
  unfold isIO
  have key : ∀ z : Nat, z ≤ 3 → ((z == 1 || z == 3 || z == 2) = true ↔ z ≠ 0) := by
    intro z hz
    have : z = 0 ∨ z = 1 ∨ z = 2 ∨ z = 3 := by omega
    rcases this with rfl | rfl | rfl | rfl <;> simp
  exact key n.kind h

/-- **the node-set clause of C04** for a finished child `c` of parents `g`, `og`: ids strictly ascending (hence unique);
    every input/bias/output node of the second parent is kept with its role and activation type; every endpoint of a
    child gene is a child node; there is no other node; every node has id, role and activation type of a parent's node -/
def NodeClause (g og c : Genome W) : Prop :=
  NodesSorted c.nodes ∧
  (∀ n ∈ og.nodes, n.kind ≠ Kind.hidden → ∃ m ∈ c.nodes, m.id = n.id ∧ m.kind = n.kind ∧ m.act = n.act) ∧
  (∀ x ∈ c.genes, x.src ∈ c.nodes.map (·.id) ∧ x.dst ∈ c.nodes.map (·.id)) ∧
  (∀ m ∈ c.nodes, (∃ n ∈ og.nodes, n.kind ≠ Kind.hidden ∧ n.id = m.id) ∨ ∃ x ∈ c.genes, m.id = x.src ∨ m.id = x.dst) ∧
  (∀ m ∈ c.nodes, NodeFrom g og m)

omit [Scalar W] in
theorem nodeClause_of (g og : Genome W) (nt : List (Trait W)) (t0 : Option Int) (io : List Node) (acc : MateAcc W) (id : Int)
    (hk : C01.KindsValid og) (hio : ioNodes nt t0 og.nodes [] = .ok io)
    (hacc : C01.AccInv g og nt acc) (hn : NodeInv g og io acc) :
    NodeClause g og { id := id, traits := nt, nodes := acc.nodes, genes := acc.genes } := by
  obtain ⟨_, r2, r3⟩ := ioNodes_exact nt t0 _ _ _ hio
  refine ⟨hacc.nodesSorted, ?_, hacc.endpoints, ?_, hn.from_⟩
  · intro n hnm hkind
    obtain ⟨tr, hm⟩ := r3 n hnm ((isIO_iff n (hk n hnm)).mpr hkind)
    exact ⟨_, hn.keep _ hm, rfl, rfl, rfl⟩
  · intro m hm
    rcases hn.only m hm with h' | h'
    · rcases r2 m h' with h'' | ⟨n, hnm, hio', tr, rfl⟩
      · simp at h''
      · exact Or.inl ⟨n, hnm, (isIO_iff n (hk n hnm)).mp hio', rfl⟩
    · exact Or.inr h'

omit [Scalar W] in
theorem nodeInv_start (g og : Genome W) (io : List Node) (nt : List (Trait W)) (t0 : Option Int)
    (hio : ioNodes nt t0 og.nodes [] = .ok io) : NodeInv g og io { nodes := io, genes := [] } := by
  obtain ⟨_, r2, _⟩ := ioNodes_exact nt t0 _ _ _ hio
  refine ⟨?_, fun m hm => Or.inl hm, fun m hm => hm⟩
  intro m hm
  rcases r2 m hm with h' | ⟨n, hnm, _, tr, rfl⟩
  · simp at h'
  · exact ⟨n, Or.inr hnm, rfl, rfl, rfl⟩

/-! ### the single-point crossover as a plan over the two gene lists -/

/-- where a child gene of the single-point crossover comes from: a copy of gene `x` of the parent with fewer genes,
    the average of the matching genes `x` (fewer genes) and `y` (more genes), or a copy of gene `y` of the parent with
    more genes -/
inductive Origin (W : Type) where
  | short (x : Gene W)
  | mean (x y : Gene W)
  | long (y : Gene W)

def Origin.link : Origin W → Int × Int × Bool
  | .short x => x.link
  | .mean x _ => x.link
  | .long y => y.link

def Origin.inn : Origin W → Int
  | .short x => x.inn
  | .mean x _ => x.inn
  | .long y => y.inn

/-- the alignment the single-point crossover performs on the two gene lists alone (no nodes, traits, randomness):
    `xs` = rest of the parent with fewer genes, `ys` = rest of the other, `gc` = genes of `xs`' parent consumed so far,
    `cp` = the crossing point, `started` = a gene has been chosen before.
    The walk ends with `ys`.  Matching genes: before the point from `xs`, at the point averaged, after it from `ys`.
    A gene only in `xs`: taken before the point, afterwards never (the `xs` pointer stays on it and every further gene
    of `ys` is taken).  A gene only in `ys` that lies below the current `xs` gene is skipped (before anything was
    chosen the walk stops there - known finding K1). -/
def spPlan (cp : Nat) : List (Gene W) → List (Gene W) → Nat → Bool → List (Origin W)
  | _, [], _, _ => []
  | [], y :: ys, gc, _ => .long y :: spPlan cp [] ys gc true
  | x :: xs, y :: ys, gc, started =>
    if x.inn = y.inn then
      (if gc < cp then .short x else if gc > cp then .long y else .mean x y) :: spPlan cp xs ys (gc + 1) true
    else if x.inn < y.inn then
      if gc < cp then .short x :: spPlan cp xs (y :: ys) (gc + 1) true
      else .long y :: spPlan cp (x :: xs) ys gc true
    else if started then spPlan cp (x :: xs) ys gc started
    else []
termination_by l1 l2 => l1.length + l2.length

/-- the same-link conflict check: an origin whose link is already in the child is dropped -/
def spKeep : List (Int × Int × Bool) → List (Origin W) → List (Origin W)
  | _, [] => []
  | seen, o :: os => if o.link ∈ seen then spKeep seen os else o :: spKeep (seen ++ [o.link]) os

/-- the child gene `c` realises an origin -/
def Realises (nt : List (Trait W)) (t0 : Option Int) (c : Gene W) : Origin W → Prop
  | .short x => CopyOf nt t0 c x
  | .mean x y => AvgOf nt t0 x y c
  | .long y => CopyOf nt t0 c y

theorem any_sameLink_iff (l : List (Gene W)) (g : Gene W) :
    l.any (·.sameLink g) = true ↔ g.link ∈ l.map (·.link) := by
  rw [List.any_eq_true, List.mem_map]
  constructor
  · rintro ⟨a, ha, hs⟩; exact ⟨a, ha, (sameLink_iff a g).mp hs⟩
  · rintro ⟨a, ha, hs⟩; exact ⟨a, ha, (sameLink_iff a g).mpr hs⟩

/-- one "add the chosen gene" step against the plan -/
theorem keep_step (nt : List (Trait W)) (t0 : Option Int) (acc acc1 : MateAcc W) (c : Chosen W) (o : Origin W)
    (rest : List (Origin W)) (he : addChosen nt t0 acc c false = .ok acc1) (hl : c.gene.link = o.link)
    (hreal : ∀ tr, childTraitRef nt t0 c.gene.trait = .ok tr →
      Realises nt t0 { c.gene with trait := tr, en := if false then false else c.gene.en } o)
    (news : List (Gene W)) (hal : Aligned (Realises nt t0) news (spKeep (acc1.genes.map (·.link)) rest)) :
    ∃ news', acc1.genes ++ news = acc.genes ++ news' ∧
      Aligned (Realises nt t0) news' (spKeep (acc.genes.map (·.link)) (o :: rest)) := by
  rcases addChosen_exact nt t0 acc acc1 c false he with ⟨hany, rfl⟩ | ⟨hany, sn, dn, n1, tr, _, _, _, _, htr, hg⟩
  · refine ⟨news, rfl, ?_⟩
    have : o.link ∈ acc1.genes.map (·.link) := by rw [← hl]; exact (any_sameLink_iff _ _).mp hany
    simp only [spKeep, this, ↓reduceIte]; exact hal
  · have hnot : o.link ∉ acc.genes.map (·.link) := by
      rw [← hl]; intro hm
      have := (any_sameLink_iff _ _).mpr hm
      rw [hany] at this; cases this
    refine ⟨({ c.gene with trait := tr, en := if false then false else c.gene.en } : Gene W) :: news, by rw [hg]; simp, ?_⟩
    simp only [spKeep, hnot, ↓reduceIte]
    refine Aligned.cons (hreal tr htr) ?_
    have e : acc1.genes.map (·.link) = acc.genes.map (·.link) ++ [o.link] := by
      rw [hg, List.map_append, ← hl]; rfl
    rw [← e]; exact hal

omit [Scalar W] in
theorem real_copy (nt : List (Trait W)) (t0 : Option Int) (x : Gene W) (tr : Option Int)
    (h : childTraitRef nt t0 x.trait = .ok tr) :
    CopyOf nt t0 ({ x with trait := tr, en := if false then false else x.en } : Gene W) x := ⟨tr, h, rfl⟩

/-- **the single-point walk realises the plan**: the genes it appends are, one for one and in order, realisations of
    the plan's origins that survive the same-link conflict check -/
theorem singlePointWalk_plan (q1 q2 : Genome W) (nt : List (Trait W)) (t0 : Option Int) (cp : Nat)
    (xs ys : List (Gene W)) (gc : Nat) (last : Option (Chosen W)) (acc acc' : MateAcc W) (rs rs' : List Nat)
    (h : singlePointWalk q1 q2 nt t0 cp xs ys gc last acc rs = .ok (acc', rs')) (hc : Consistent xs ys) :
    ∃ news, acc'.genes = acc.genes ++ news ∧
      Aligned (Realises nt t0) news (spKeep (acc.genes.map (·.link)) (spPlan cp xs ys gc last.isSome)) := by
  fun_induction singlePointWalk q1 q2 nt t0 cp xs ys gc last acc rs
  all_goals try (cases h; done)
  case case1 l _ _ acc rs =>
    cases h
    refine ⟨[], by simp, ?_⟩
    cases l <;> simp only [spPlan, spKeep] <;> exact Aligned.nil
  case case3 y ys gc l acc rs c acc1 he ih =>
    obtain ⟨news, hn, hal⟩ := ih h (by intro a ha; cases ha)
    obtain ⟨news', e, hal'⟩ := keep_step nt t0 acc acc1 c (.long y) _ he rfl (fun tr htr => real_copy nt t0 y tr htr) news hal
    refine ⟨news', by rw [hn, e], ?_⟩
    rw [spPlan]; exact hal'
  case case5 x xs y ys gc l acc rs heq hlt c acc1 he ih =>
    obtain ⟨news, hn, hal⟩ := ih h (fun a ha b hb => hc a (by simp [ha]) b (by simp [hb]))
    obtain ⟨news', e, hal'⟩ := keep_step nt t0 acc acc1 c (.short x) _ he rfl (fun tr htr => real_copy nt t0 x tr htr) news hal
    refine ⟨news', by rw [hn, e], ?_⟩
    rw [spPlan]; simp only [heq, ↓reduceIte, hlt]; exact hal'
  case case7 x xs y ys gc l acc rs heq hnlt hgt c acc1 he ih =>
    obtain ⟨news, hn, hal⟩ := ih h (fun a ha b hb => hc a (by simp [ha]) b (by simp [hb]))
    obtain ⟨news', e, hal'⟩ := keep_step nt t0 acc acc1 c (.long y) _ he rfl (fun tr htr => real_copy nt t0 y tr htr) news hal
    refine ⟨news', by rw [hn, e], ?_⟩
    rw [spPlan]; simp only [heq, ↓reduceIte, hnlt, hgt]; exact hal'
  case case10 x xs y ys gc l acc rs heq hnlt hngt c rs1 hav acc1 he ih =>
    obtain ⟨news, hn, hal⟩ := ih h (fun a ha b hb => hc a (by simp [ha]) b (by simp [hb]))
    have hp := avgChosen_exact q1 q2 x y c rs rs1 hav
    have hxy : x.link = y.link := hc x (by simp) y (by simp) heq
    obtain ⟨news', e, hal'⟩ := keep_step nt t0 acc acc1 c (.mean x y) _ he (hp.link_eq hxy)
      (fun tr htr => avgOf_of_pre nt t0 hp tr htr) news hal
    refine ⟨news', by rw [hn, e], ?_⟩
    rw [spPlan]; simp only [heq, ↓reduceIte, hnlt, hngt]; exact hal'
  case case12 x xs y ys gc l acc rs hne hlt hgc c acc1 he ih =>
    obtain ⟨news, hn, hal⟩ := ih h (fun a ha b hb => hc a (by simp [ha]) b hb)
    obtain ⟨news', e, hal'⟩ := keep_step nt t0 acc acc1 c (.short x) _ he rfl (fun tr htr => real_copy nt t0 x tr htr) news hal
    refine ⟨news', by rw [hn, e], ?_⟩
    rw [spPlan]; simp only [hne, ↓reduceIte, hlt, hgc]; exact hal'
  case case14 x xs y ys gc l acc rs hne hlt hgc c acc1 he ih =>
    obtain ⟨news, hn, hal⟩ := ih h (fun a ha b hb => hc a ha b (by simp [hb]))
    obtain ⟨news', e, hal'⟩ := keep_step nt t0 acc acc1 c (.long y) _ he rfl (fun tr htr => real_copy nt t0 y tr htr) news hal
    refine ⟨news', by rw [hn, e], ?_⟩
    rw [spPlan]; simp only [hne, ↓reduceIte, hlt, hgc]; exact hal'
  case case15 x xs y ys gc acc rs hne hnlt =>
    cases h
    refine ⟨[], by simp, ?_⟩
    rw [spPlan]; simp only [hne, ↓reduceIte, hnlt, Option.isSome_none, Bool.false_eq_true, spKeep]; exact Aligned.nil
  case case16 x xs y ys gc acc rs hne hnlt l ih =>
    obtain ⟨news, hn, hal⟩ := ih h (fun a ha b hb => hc a ha b (by simp [hb]))
    refine ⟨news, hn, ?_⟩
    rw [spPlan]; simp only [hne, ↓reduceIte, hnlt, Option.isSome_some]; exact hal

/-! ### what the plan contains -/

/-- position of an origin relative to the crossing point `cp`; `l1` = genes of the parent with fewer genes,
    `ys` = genes of the other parent:
    a copied gene of `l1` is one of its first `cp` genes; the averaged gene is gene number `cp` of `l1` and a gene of `ys`
    with the same innovation number; a copied gene of `ys` has a larger innovation number than each of the first
    `cp + 1` genes of `l1` -/
def OriginOk (cp : Nat) (l1 ys : List (Gene W)) : Origin W → Prop
  | .short x => ∃ k, k < cp ∧ l1[k]? = some x
  | .mean x y => l1[cp]? = some x ∧ y ∈ ys ∧ x.inn = y.inn
  | .long y => y ∈ ys ∧ ∀ x ∈ l1.take (cp + 1), x.inn < y.inn

omit [Scalar W] in
theorem OriginOk.mono {cp : Nat} {l1 ys ys' : List (Gene W)} {o : Origin W} (h : OriginOk cp l1 ys o)
    (hsub : ∀ y ∈ ys, y ∈ ys') : OriginOk cp l1 ys' o := by
  cases o with
  | short x => exact h
  | mean x y => exact ⟨h.1, hsub y h.2.1, h.2.2⟩
  | long y => exact ⟨hsub y h.1, h.2⟩

omit [Scalar W] in
theorem take_pre_lt (cp : Nat) (pre rest : List (Gene W)) (hlen : cp + 1 ≤ pre.length) :
    ∀ x ∈ (pre ++ rest).take (cp + 1), x ∈ pre := by
  intro x hx
  rw [List.take_append_of_le_length hlen] at hx
  exact List.mem_of_mem_take hx

omit [Scalar W] in
theorem take_pre_cons (cp : Nat) (pre : List (Gene W)) (x0 : Gene W) (rest : List (Gene W)) (hlen : cp ≤ pre.length) :
    ∀ x ∈ (pre ++ x0 :: rest).take (cp + 1), x ∈ pre ∨ x = x0 := by
  intro x hx
  have e : pre ++ x0 :: rest = (pre ++ [x0]) ++ rest := by simp
  rw [e, List.take_append_of_le_length (by simp; omega)] at hx
  have := List.mem_of_mem_take hx
  simpa using this

omit [Scalar W] in
/-- **soundness of the plan** (sorted gene lists): every origin sits on its side of the crossing point -/
theorem spPlan_sound (cp : Nat) (pre xs ys : List (Gene W)) (gc : Nat) (st : Bool)
    (hs1 : GenesSorted xs) (hs2 : GenesSorted ys) (hlen : pre.length = gc)
    (hpre : ∀ p ∈ pre, ∀ y ∈ ys, p.inn < y.inn) :
    ∀ o ∈ spPlan cp xs ys gc st, OriginOk cp (pre ++ xs) ys o := by
  fun_induction spPlan cp xs ys gc st generalizing pre
  case case1 => intro o ho; simp at ho
  case case2 y ys gc st ih =>
    intro o ho
    rcases List.mem_cons.mp ho with rfl | ho
    · refine ⟨by simp, fun x hx => ?_⟩
      simp only [List.append_nil] at hx
      exact hpre x (List.mem_of_mem_take hx) y (by simp)
    · exact (ih pre (by simp [GenesSorted]) (C01.sorted_cons hs2).1 hlen (fun p hp z hz => hpre p hp z (by simp [hz])) o ho).mono
        (fun z hz => by simp [hz])
  case case3 x xs y ys gc st heq ih =>
    intro o ho
    have hx0 : (pre ++ x :: xs)[gc]? = some x := by rw [← hlen]; simp
    rcases List.mem_cons.mp ho with rfl | ho
    · split
      · rename_i hlt; exact ⟨gc, hlt, hx0⟩
      · rename_i hnlt
        split
        · rename_i hgt
          refine ⟨by simp, fun z hz => ?_⟩
          exact hpre z (take_pre_lt cp pre _ (by omega) z hz) y (by simp)
        · rename_i hngt
          have : gc = cp := by omega
          subst this
          exact ⟨hx0, by simp, heq⟩
    · have e : (pre ++ [x]) ++ xs = pre ++ x :: xs := by simp
      have := ih (pre ++ [x]) (C01.sorted_cons hs1).1 (C01.sorted_cons hs2).1 (by simp [hlen])
        (by
          intro p hp z hz
          have hyz := (C01.sorted_cons hs2).2 z hz
          rcases List.mem_append.mp hp with hp | hp
          · exact hpre p hp z (by simp [hz])
          · simp only [List.mem_singleton] at hp; subst hp; omega) o ho
      rw [e] at this
      exact this.mono (fun z hz => by simp [hz])
  case case4 x xs y ys gc st hne hlt hgc ih =>
    intro o ho
    have hx0 : (pre ++ x :: xs)[gc]? = some x := by rw [← hlen]; simp
    rcases List.mem_cons.mp ho with rfl | ho
    · exact ⟨gc, hgc, hx0⟩
    · have e : (pre ++ [x]) ++ xs = pre ++ x :: xs := by simp
      have := ih (pre ++ [x]) (C01.sorted_cons hs1).1 hs2 (by simp [hlen])
        (by
          intro p hp z hz
          rcases List.mem_append.mp hp with hp | hp
          · exact hpre p hp z hz
          · simp only [List.mem_singleton] at hp; subst hp
            rcases List.mem_cons.mp hz with rfl | hz'
            · exact hlt
            · have := (C01.sorted_cons hs2).2 z hz'; omega) o ho
      rw [e] at this
      exact this
  case case5 x xs y ys gc st hne hlt hgc ih =>
    intro o ho
    rcases List.mem_cons.mp ho with rfl | ho
    · refine ⟨by simp, fun z hz => ?_⟩
      rcases take_pre_cons cp pre x xs (by omega) z hz with hz | rfl
      · exact hpre z hz y (by simp)
      · exact hlt
    · exact (ih pre hs1 (C01.sorted_cons hs2).1 hlen (fun p hp z hz => hpre p hp z (by simp [hz])) o ho).mono
        (fun z hz => by simp [hz])
  case case6 x xs y ys gc hne hnlt ih =>
    intro o ho
    exact (ih pre hs1 (C01.sorted_cons hs2).1 hlen (fun p hp z hz => hpre p hp z (by simp [hz])) o ho).mono
      (fun z hz => by simp [hz])
  case case7 x xs y ys gc st hne hnlt hst =>
    intro o ho
    simp at ho

omit [Scalar W] in
/-- **every matching pair is in the plan** (sorted gene lists; a gene has been chosen before, or the first gene of the
    shorter list does not come after the first gene of the longer one): for `x` at position `k` of `xs` and `y` in `ys`
    with the same innovation number the plan holds the copy of `x` when `gc + k` lies before the crossing point, their
    average when it is the crossing point, and the copy of `y` when it lies behind -/
theorem spPlan_matched (cp : Nat) (xs ys : List (Gene W)) (gc : Nat) (st : Bool)
    (hs1 : GenesSorted xs) (hs2 : GenesSorted ys)
    (hst : st = true ∨ ∀ x0 ∈ xs.head?, ∀ y0 ∈ ys.head?, x0.inn ≤ y0.inn)
    (k : Nat) (x y : Gene W) (hx : xs[k]? = some x) (hy : y ∈ ys) (heq : x.inn = y.inn) :
    (gc + k < cp → Origin.short x ∈ spPlan cp xs ys gc st) ∧
    (gc + k = cp → Origin.mean x y ∈ spPlan cp xs ys gc st) ∧
    (gc + k > cp → Origin.long y ∈ spPlan cp xs ys gc st) := by
  fun_induction spPlan cp xs ys gc st generalizing k
  case case1 => cases hy
  case case2 => simp at hx
  case case3 x0 xs y0 ys gc st heq0 ih =>
    have hys := C01.sorted_cons hs2
    have hxs := C01.sorted_cons hs1
    cases k with
    | zero =>
      simp only [List.getElem?_cons_zero, Option.some.injEq] at hx
      subst hx
      have : y = y0 := by
        rcases List.mem_cons.mp hy with rfl | hy'
        · rfl
        · have := hys.2 y hy'; omega
      subst this
      refine ⟨fun h => ?_, fun h => ?_, fun h => ?_⟩
      · simp only [Nat.add_zero] at h; simp [h]
      · simp only [Nat.add_zero] at h; subst h; simp
      · simp only [Nat.add_zero] at h
        have h1 : ¬ gc < cp := by omega
        simp [h1, h]
    | succ k =>
      simp only [List.getElem?_cons_succ] at hx
      have hxm : x ∈ xs := List.mem_of_getElem? hx
      have hy' : y ∈ ys := by
        rcases List.mem_cons.mp hy with rfl | hy'
        · have := hxs.2 x hxm; omega
        · exact hy'
      obtain ⟨a, b, c⟩ := ih hxs.1 hys.1 (Or.inl rfl) k hx hy'
      refine ⟨fun h => ?_, fun h => ?_, fun h => ?_⟩
      · exact List.mem_cons_of_mem _ (a (by omega))
      · exact List.mem_cons_of_mem _ (b (by omega))
      · exact List.mem_cons_of_mem _ (c (by omega))
  case case4 x0 xs y0 ys gc st hne hlt hgc ih =>
    have hys := C01.sorted_cons hs2
    have hxs := C01.sorted_cons hs1
    cases k with
    | zero =>
      simp only [List.getElem?_cons_zero, Option.some.injEq] at hx
      subst hx
      exfalso
      rcases List.mem_cons.mp hy with rfl | hy'
      · exact hne heq
      · have := hys.2 y hy'; omega
    | succ k =>
      simp only [List.getElem?_cons_succ] at hx
      obtain ⟨a, b, c⟩ := ih hxs.1 hs2 (Or.inl rfl) k hx hy
      refine ⟨fun h => ?_, fun h => ?_, fun h => ?_⟩
      · exact List.mem_cons_of_mem _ (a (by omega))
      · exact List.mem_cons_of_mem _ (b (by omega))
      · exact List.mem_cons_of_mem _ (c (by omega))
  case case5 x0 xs y0 ys gc st hne hlt hgc ih =>
    have hys := C01.sorted_cons hs2
    have hxs := C01.sorted_cons hs1
    rcases List.mem_cons.mp hy with rfl | hy'
    · -- the matching gene of `ys` is taken now; `x` cannot be the head of `xs`
      cases k with
      | zero =>
        simp only [List.getElem?_cons_zero, Option.some.injEq] at hx
        subst hx; exact absurd heq hne
      | succ k =>
        refine ⟨fun h => by omega, fun h => by omega, fun _ => by simp⟩
    · obtain ⟨a, b, c⟩ := ih hs1 hys.1 (Or.inl rfl) k hx hy'
      exact ⟨fun h => List.mem_cons_of_mem _ (a h), fun h => List.mem_cons_of_mem _ (b h), fun h => List.mem_cons_of_mem _ (c h)⟩
  case case6 x0 xs y0 ys gc hne hnlt ih =>
    have hys := C01.sorted_cons hs2
    have hxs := C01.sorted_cons hs1
    have hy' : y ∈ ys := by
      rcases List.mem_cons.mp hy with rfl | hy'
      · exfalso
        have hxm : x ∈ x0 :: xs := List.mem_of_getElem? hx
        rcases List.mem_cons.mp hxm with rfl | hxm'
        · exact hne heq
        · have := hxs.2 x hxm'; omega
      · exact hy'
    exact ih hs1 hys.1 (Or.inl rfl) k hx hy'
  case case7 x0 xs y0 ys gc st hne hnlt hst' =>
    exfalso
    rcases hst with h | h
    · exact hst' h
    · have := h x0 (by simp) y0 (by simp); omega

omit [Scalar W] in
/-- without a same-link conflict among the plan's origins nothing is dropped -/
theorem spKeep_all (seen : List (Int × Int × Bool)) (os : List (Origin W))
    (hd : (os.map Origin.link).Pairwise (· ≠ ·)) (hs : ∀ o ∈ os, o.link ∉ seen) : spKeep seen os = os := by
  induction os generalizing seen with
  | nil => rfl
  | cons o os ih =>
    simp only [List.map_cons, List.pairwise_cons] at hd
    have h0 : o.link ∉ seen := hs o (by simp)
    simp only [spKeep, h0, ↓reduceIte]
    congr 1
    refine ih _ hd.2 ?_
    intro o' ho' hm
    rcases List.mem_append.mp hm with hm | hm
    · exact hs o' (by simp [ho']) hm
    · simp only [List.mem_singleton] at hm
      exact hd.1 _ (List.mem_map_of_mem ho') hm.symm

omit [Scalar W] in
theorem spKeep_sub (seen : List (Int × Int × Bool)) (os : List (Origin W)) : ∀ o ∈ spKeep seen os, o ∈ os := by
  induction os generalizing seen with
  | nil => intro o ho; simp [spKeep] at ho
  | cons o os ih =>
    intro o' ho'
    simp only [spKeep] at ho'
    split at ho'
    · exact List.mem_cons_of_mem _ (ih _ o' ho')
    · rcases List.mem_cons.mp ho' with rfl | h
      · simp
      · exact List.mem_cons_of_mem _ (ih _ o' h)

omit [Scalar W] in
/-- the plan's innovation numbers ascend strictly (sorted gene lists); each is a number of the rest of the longer
    list or - before the crossing point - of the rest of the shorter one -/
theorem spPlan_inns (cp : Nat) (xs ys : List (Gene W)) (gc : Nat) (st : Bool)
    (hs1 : GenesSorted xs) (hs2 : GenesSorted ys) :
    (∀ o ∈ spPlan cp xs ys gc st, o.inn ∈ ys.map (·.inn) ∨ (gc < cp ∧ o.inn ∈ xs.map (·.inn))) ∧
    ((spPlan cp xs ys gc st).map Origin.inn).Pairwise (· < ·) := by
  fun_induction spPlan cp xs ys gc st
  case case1 => simp
  case case2 y ys gc st ih =>
    obtain ⟨b, p⟩ := ih (by simp [GenesSorted]) (C01.sorted_cons hs2).1
    have hys := (C01.sorted_cons hs2).2
    have hgt : ∀ o ∈ spPlan cp [] ys gc true, y.inn < o.inn := by
      intro o ho
      rcases b o ho with h | ⟨_, h⟩
      · obtain ⟨z, hz, e⟩ := List.mem_map.mp h; rw [← e]; exact hys z hz
      · simp at h
    refine ⟨?_, ?_⟩
    · intro o ho
      rcases List.mem_cons.mp ho with rfl | ho
      · left; simp [Origin.inn]
      · rcases b o ho with h | ⟨_, h⟩
        · left; simp only [List.map_cons, List.mem_cons]; exact Or.inr h
        · simp at h
    · simp only [List.map_cons, List.pairwise_cons]
      refine ⟨?_, p⟩
      intro i hi
      obtain ⟨o, ho, rfl⟩ := List.mem_map.mp hi
      exact hgt o ho
  case case3 x xs y ys gc st heq ih =>
    obtain ⟨b, p⟩ := ih (C01.sorted_cons hs1).1 (C01.sorted_cons hs2).1
    have hys := (C01.sorted_cons hs2).2
    have hxs := (C01.sorted_cons hs1).2
    have h0 : (if gc < cp then Origin.short x else if gc > cp then Origin.long y else Origin.mean x y).inn = y.inn := by
      split
      · simp [Origin.inn, heq]
      · split <;> simp [Origin.inn, heq]
    have hgt : ∀ o ∈ spPlan cp xs ys (gc + 1) true, y.inn < o.inn := by
      intro o ho
      rcases b o ho with h | ⟨_, h⟩
      · obtain ⟨z, hz, e⟩ := List.mem_map.mp h; rw [← e]; exact hys z hz
      · obtain ⟨z, hz, e⟩ := List.mem_map.mp h; rw [← e, ← heq]; exact hxs z hz
    refine ⟨?_, ?_⟩
    · intro o ho
      rcases List.mem_cons.mp ho with rfl | ho
      · left; rw [h0]; simp
      · rcases b o ho with h | ⟨h1, h⟩
        · left; simp only [List.map_cons, List.mem_cons]; exact Or.inr h
        · right; exact ⟨by omega, by simp only [List.map_cons, List.mem_cons]; exact Or.inr h⟩
    · simp only [List.map_cons, List.pairwise_cons]
      refine ⟨?_, p⟩
      intro i hi
      obtain ⟨o, ho, rfl⟩ := List.mem_map.mp hi
      rw [h0]; exact hgt o ho
  case case4 x xs y ys gc st hne hlt hgc ih =>
    obtain ⟨b, p⟩ := ih (C01.sorted_cons hs1).1 hs2
    have hys := (C01.sorted_cons hs2).2
    have hxs := (C01.sorted_cons hs1).2
    have hgt : ∀ o ∈ spPlan cp xs (y :: ys) (gc + 1) true, x.inn < o.inn := by
      intro o ho
      rcases b o ho with h | ⟨_, h⟩
      · obtain ⟨z, hz, e⟩ := List.mem_map.mp h
        rw [← e]
        rcases List.mem_cons.mp hz with rfl | hz'
        · exact hlt
        · have := hys z hz'; omega
      · obtain ⟨z, hz, e⟩ := List.mem_map.mp h; rw [← e]; exact hxs z hz
    refine ⟨?_, ?_⟩
    · intro o ho
      rcases List.mem_cons.mp ho with rfl | ho
      · right; exact ⟨hgc, by simp [Origin.inn]⟩
      · rcases b o ho with h | ⟨h1, h⟩
        · left; exact h
        · right; exact ⟨by omega, by simp only [List.map_cons, List.mem_cons]; exact Or.inr h⟩
    · simp only [List.map_cons, List.pairwise_cons]
      refine ⟨?_, p⟩
      intro i hi
      obtain ⟨o, ho, rfl⟩ := List.mem_map.mp hi
      exact hgt o ho
  case case5 x xs y ys gc st hne hlt hgc ih =>
    obtain ⟨b, p⟩ := ih hs1 (C01.sorted_cons hs2).1
    have hys := (C01.sorted_cons hs2).2
    have hin : ∀ o ∈ spPlan cp (x :: xs) ys gc true, o.inn ∈ ys.map (·.inn) := by
      intro o ho
      rcases b o ho with h | ⟨h1, _⟩
      · exact h
      · exact absurd h1 hgc
    refine ⟨?_, ?_⟩
    · intro o ho
      rcases List.mem_cons.mp ho with rfl | ho
      · left; simp [Origin.inn]
      · left; simp only [List.map_cons, List.mem_cons]; exact Or.inr (hin o ho)
    · simp only [List.map_cons, List.pairwise_cons]
      refine ⟨?_, p⟩
      intro i hi
      obtain ⟨o, ho, rfl⟩ := List.mem_map.mp hi
      obtain ⟨z, hz, e⟩ := List.mem_map.mp (hin o ho)
      rw [← e]; exact hys z hz
  case case6 x xs y ys gc hne hnlt ih =>
    obtain ⟨b, p⟩ := ih hs1 (C01.sorted_cons hs2).1
    refine ⟨?_, p⟩
    intro o ho
    rcases b o ho with h | h
    · left; simp only [List.map_cons, List.mem_cons]; exact Or.inr h
    · right; exact h
  case case7 => simp

omit [Scalar W] in
theorem linksDistinct_mem (l : List (Gene W)) (hd : LinksDistinct l) (a b : Gene W) (ha : a ∈ l) (hb : b ∈ l)
    (hne : a.inn ≠ b.inn) : a.link ≠ b.link := by
  induction l with
  | nil => cases ha
  | cons h t ih =>
    have hc := List.pairwise_cons.mp hd
    rcases List.mem_cons.mp ha with rfl | ha' <;> rcases List.mem_cons.mp hb with rfl | hb'
    · exact absurd rfl hne
    · exact hc.1 b hb'
    · exact fun e => hc.1 a ha' e.symm
    · exact ih hc.2 ha' hb'

/-- a link carries one innovation number across the two parents (the converse of `Consistent`) -/
def CrossDistinct (l1 l2 : List (Gene W)) : Prop := ∀ x ∈ l1, ∀ y ∈ l2, x.link = y.link → x.inn = y.inn
instance (l1 l2 : List (Gene W)) : Decidable (CrossDistinct l1 l2) := by unfold CrossDistinct Gene.link; infer_instance

omit [Scalar W] in
/-- **no conflict in the plan** when within each parent links are pairwise distinct and across the parents a link
    carries one innovation number -/
theorem spPlan_links_distinct (cp : Nat) (l1 l2 : List (Gene W)) (hs1 : GenesSorted l1) (hs2 : GenesSorted l2)
    (hd1 : LinksDistinct l1) (hd2 : LinksDistinct l2) (hx : CrossDistinct l1 l2) :
    ((spPlan cp l1 l2 0 false).map Origin.link).Pairwise (· ≠ ·) := by
  have hsound := spPlan_sound cp [] l1 l2 0 false hs1 hs2 rfl (by simp)
  simp only [List.nil_append] at hsound
  have hp := (spPlan_inns cp l1 l2 0 false hs1 hs2).2
  rw [List.pairwise_map] at hp ⊢
  -- every origin has the number and link of a gene of one of the two lists
  have src : ∀ o ∈ spPlan cp l1 l2 0 false, ∃ z, (z ∈ l1 ∨ z ∈ l2) ∧ z.inn = o.inn ∧ z.link = o.link := by
    intro o ho
    have := hsound o ho
    cases o with
    | short x => obtain ⟨k, _, hk⟩ := this; exact ⟨x, Or.inl (List.mem_of_getElem? hk), rfl, rfl⟩
    | mean x y => exact ⟨x, Or.inl (List.mem_of_getElem? this.1), rfl, rfl⟩
    | long y => exact ⟨y, Or.inr this.1, rfl, rfl⟩
  refine hp.imp_of_mem ?_
  intro o1 o2 h1 h2 hlt
  obtain ⟨z1, m1, i1, k1⟩ := src o1 h1
  obtain ⟨z2, m2, i2, k2⟩ := src o2 h2
  have hne : z1.inn ≠ z2.inn := by omega
  rw [← k1, ← k2]
  rcases m1 with m1 | m1 <;> rcases m2 with m2 | m2
  · exact linksDistinct_mem l1 hd1 z1 z2 m1 m2 hne
  · exact fun e => hne (hx z1 m1 z2 m2 e)
  · exact fun e => hne (hx z2 m2 z1 m1 e.symm).symm
  · exact linksDistinct_mem l2 hd2 z1 z2 m1 m2 hne

/-! ### the three operators unfolded -/

theorem mateMultipoint_unfold (g og : Genome W) (id : Int) (f1 f2 : W) (rs rs' : List Nat) (c : Genome W)
    (h : mateMultipoint g og id f1 f2 rs = .ok (c, rs')) :
    ∃ nt t0 io acc, matePrologue g og = .ok (nt, t0, io) ∧
      multipointWalk g og nt t0 (p1Better f1 f2 g.genes.length og.genes.length) g.genes og.genes
        { nodes := io, genes := [] } rs = .ok (acc, rs') ∧
      c = { id := id, traits := nt, nodes := acc.nodes, genes := acc.genes } := by
  unfold mateMultipoint at h
  split at h
  · cases h
  · rename_i nt t0 nodes hpro
    simp only at h
    split at h
    · cases h
    · rename_i acc rs1 hw
      simp only [Except.ok.injEq, Prod.mk.injEq] at h
      obtain ⟨rfl, rfl⟩ := h
      exact ⟨nt, t0, nodes, acc, hpro, hw, rfl⟩

theorem mateMultipointAvg_unfold (g og : Genome W) (id : Int) (f1 f2 : W) (rs rs' : List Nat) (c : Genome W)
    (h : mateMultipointAvg g og id f1 f2 rs = .ok (c, rs')) :
    ∃ nt t0 io acc, matePrologue g og = .ok (nt, t0, io) ∧
      multipointAvgWalk g og nt t0 (p1Better f1 f2 g.genes.length og.genes.length) g.genes og.genes
        { nodes := io, genes := [] } rs = .ok (acc, rs') ∧
      c = { id := id, traits := nt, nodes := acc.nodes, genes := acc.genes } := by
  unfold mateMultipointAvg at h
  split at h
  · cases h
  · rename_i nt t0 nodes hpro
    simp only at h
    split at h
    · cases h
    · rename_i acc rs1 hw
      simp only [Except.ok.injEq, Prod.mk.injEq] at h
      obtain ⟨rfl, rfl⟩ := h
      exact ⟨nt, t0, nodes, acc, hpro, hw, rfl⟩

/-- the parent whose genes the single-point crossover walks as its first list: the first parent if it has strictly
    fewer genes, else the second -/
def shorter (g og : Genome W) : Genome W := if g.genes.length < og.genes.length then g else og
/-- the other parent -/
def longer (g og : Genome W) : Genome W := if g.genes.length < og.genes.length then og else g

omit [Scalar W] in
theorem shorter_longer (g og : Genome W) :
    (shorter g og = g ∧ longer g og = og) ∨ (shorter g og = og ∧ longer g og = g) := by
  unfold shorter longer; split <;> simp

theorem mateSinglePoint_unfold (g og : Genome W) (id : Int) (rs rs' : List Nat) (c : Genome W)
    (h : mateSinglePoint g og id rs = .ok (c, rs')) :
    ∃ nt t0 io cp rs1 acc, matePrologue g og = .ok (nt, t0, io) ∧
      Rand.intn (shorter g og).genes.length rs = .ok (cp, rs1) ∧
      singlePointWalk (shorter g og) (longer g og) nt t0 cp (shorter g og).genes (longer g og).genes 0 none
        { nodes := io, genes := [] } rs1 = .ok (acc, rs') ∧
      c = { id := id, traits := nt, nodes := acc.nodes, genes := acc.genes } := by
  unfold mateSinglePoint at h
  split at h
  · cases h
  · rename_i nt t0 nodes hpro
    simp only at h
    split at h
    · cases h
    · rename_i cp rs1 hcp
      split at h
      · cases h
      · rename_i acc rs2 hw
        simp only [Except.ok.injEq, Prod.mk.injEq] at h
        obtain ⟨rfl, rfl⟩ := h
        exact ⟨nt, t0, nodes, cp, rs1, acc, hpro, hcp, hw, rfl⟩

theorem int31nLoop_lt (n max : Nat) (hn : 0 < n) (rs rs' : List Nat) (v : Nat)
    (h : Rand.int31nLoop n max rs = .ok (v, rs')) : v < n := by
  induction rs with
  | nil => simp [Rand.int31nLoop] at h
  | cons x rs ih =>
    unfold Rand.int31nLoop at h
    simp only at h
    split at h
    · exact ih h
    · simp only [Except.ok.injEq, Prod.mk.injEq] at h
      rw [← h.1]; exact Nat.mod_lt _ hn

/-- `rand.Intn(n)` returns a value below `n` -/
theorem intn_lt (n : Nat) (rs rs' : List Nat) (v : Nat) (h : Rand.intn n rs = .ok (v, rs')) : v < n := by
  unfold Rand.intn at h
  split at h
  · cases h
  · rename_i hn
    split at h
    · split at h
      · cases h
      · simp only [Except.ok.injEq, Prod.mk.injEq] at h
        rw [← h.1]
        have := @Nat.and_le_right (Rand.int31OfRaw ‹Nat›) (n - 1)
        omega
    · exact int31nLoop_lt n _ (by omega) rs rs' v h

end GoNeat.C04
