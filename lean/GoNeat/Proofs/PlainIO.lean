/-
  Helper lemmas for C15: integer/boolean token round trips and the line-by-line behaviour of the plain reader on
  the lines the plain writer produces.  Core Lean only.
-/
import GoNeat.Model.PlainIO

namespace GoNeat.PlainIO
variable {F : Type}

/-! ### tokens -/

theorem parseNatChars_toDigits (n : Nat) : parseNatChars (Nat.toDigits 10 n) = some n := by
  unfold parseNatChars
  have hne : (Nat.toDigits 10 n).isEmpty = false := by
    cases h : Nat.toDigits 10 n with
    | nil => exact absurd h Nat.toDigits_ne_nil
    | cons => rfl
  have hall : (Nat.toDigits 10 n).all Char.isDigit = true := by
    rw [List.all_eq_true]
    intro c hc
    exact Nat.isDigit_of_mem_toDigits (by decide) (by decide) hc
  simp [hne, hall]

theorem parseInt_fmtNat (n : Nat) : parseInt (fmtNat n) = some (n : Int) := by
  unfold parseInt fmtNat
  rw [String.toList_ofList]
  have hd : ∀ c ∈ Nat.toDigits 10 n, c.isDigit = true := fun c hc =>
    Nat.isDigit_of_mem_toDigits (by decide) (by decide) hc
  split
  · rename_i cs h
    have := hd '-' (by rw [h]; exact List.mem_cons_self)
    exact absurd this (by decide)
  · rename_i cs h
    have := hd '+' (by rw [h]; exact List.mem_cons_self)
    exact absurd this (by decide)
  · simp [parseNatChars_toDigits]

theorem parseInt_fmtInt (i : Int) : parseInt (fmtInt i) = some i := by
  cases i with
  | ofNat n => exact parseInt_fmtNat n
  | negSucc n =>
    unfold parseInt fmtInt
    rw [String.toList_ofList]
    simp only [parseNatChars_toDigits]
    rfl

theorem parseBool_fmtBool (b : Bool) : parseBool (fmtBool b) = some b := by
  cases b <;> simp [parseBool, fmtBool]

theorem parseIntBits_fmtInt {bits : Nat} {i : Int} (h : fits bits i = true) :
    parseIntBits bits (fmtInt i) = .ok i := by
  unfold parseIntBits
  rw [parseInt_fmtInt]
  simp only [fits, Bool.and_eq_true, decide_eq_true_eq] at h
  simp [h.1, h.2]

theorem kindOfInt_natCast (k : Nat) : kindOfInt (k : Int) = k := by
  unfold kindOfInt
  have : ¬ ((k : Int) < 0) := by omega
  simp [this]

/-! ### trait pointers -/

theorem traitRef_of_refOK {traits : List (Trait F)} {r : Option Int} (h : refOK traits r = true) :
    traitRef traits (traitIdOf r) = r := by
  cases r with
  | none => simp [traitRef, traitIdOf, traitWithId]
  | some id =>
    simp only [refOK, Bool.and_eq_true, bne_iff_ne, ne_eq, List.any_eq_true, beq_iff_eq] at h
    obtain ⟨hne, t, ht, hid⟩ := h
    simp only [traitRef, traitIdOf, traitWithId, hne, if_false]
    have hsome : (traits.find? (·.id == id)).isSome = true := by
      rw [List.find?_isSome]; exact ⟨t, ht, by simp [hid]⟩
    cases hf : traits.find? (·.id == id) with
    | none => simp [hf] at hsome
    | some t' =>
      have := List.find?_some hf
      simp only [beq_iff_eq] at this
      simp [this]

theorem traitWithId_none_of_not_mem {traits : List (Trait F)} {id : Int}
    (h : id ∉ traits.map (·.id)) : traitWithId id traits = none := by
  unfold traitWithId
  split
  · rfl
  · rw [List.find?_eq_none]
    intro t ht hb
    simp only [beq_iff_eq] at hb
    exact h (List.mem_map.mpr ⟨t, ht, hb⟩)

theorem any_id_false_of_not_mem {nodes : List Node} {id : Int}
    (h : id ∉ nodes.map (·.id)) : nodes.any (·.id == id) = false := by
  rw [Bool.eq_false_iff]
  intro hc
  rw [List.any_eq_true] at hc
  obtain ⟨n, hn, hb⟩ := hc
  simp only [beq_iff_eq] at hb
  exact h (List.mem_map.mpr ⟨n, hn, hb⟩)

/-! ### floats -/

/-- the explicit hypothesis about the float spelling: what is printed parses back to the same value -/
def FloatsRoundTrip (C : Codec F) : Prop := ∀ x : F, C.parseF (C.fmtF x) = some x

/-- the two registry maps are inverse on the registered types -/
def ActsRoundTrip (C : Codec F) : Prop := ∀ (a : Nat) (nm : String), C.actName a = some nm → C.actOfName nm = some a

theorem readFloats_map (C : Codec F) (hF : FloatsRoundTrip C) (xs : List F) (extra : Line) :
    readFloats C xs.length (xs.map C.fmtF ++ extra) = .ok xs := by
  induction xs with
  | nil => simp [readFloats]
  | cons x xs ih => simp [readFloats, hF x, ih]

/-! ### the reader on one written line -/

theorem parseLines_append (C : Codec F) (st : St F) (l1 l2 : List Line) :
    parseLines C st (l1 ++ l2) =
      match parseLines C st l1 with
      | .error e => .error e
      | .ok st' => parseLines C st' l2 := by
  induction l1 generalizing st with
  | nil => simp [parseLines]
  | cons l ls ih =>
    simp only [List.cons_append, parseLines]
    cases step C st l with
    | error e => rfl
    | ok st' => exact ih st'

theorem step_startLine (C : Codec F) (st : St F) (id : Int) : step C st (startLine id) = .ok st := by
  simp [step, stepKw, startLine]

theorem step_endLine (C : Codec F) (st : St F) (id : Int) :
    step C st (endLine id) = .ok { st with id := id } := by
  simp [step, stepKw, endLine, parseInt_fmtInt]

theorem step_traitLine (C : Codec F) (hF : FloatsRoundTrip C) (st : St F) (t : Trait F)
    (hlen : t.params.length = numTraitParams) (hnew : t.id ∉ st.traits.map (·.id)) :
    step C st (traitLine C t) = .ok { st with traits := st.traits ++ [t] } := by
  have hne : t.params.isEmpty = false := by
    cases hp : t.params with
    | nil => rw [hp] at hlen; simp [numTraitParams] at hlen
    | cons => rfl
  have hrf : readFloats C numTraitParams (t.params.map C.fmtF) = .ok t.params := by
    have := readFloats_map C hF t.params []
    rw [hlen, List.append_nil] at this
    exact this
  simp [step, stepKw, traitLine, hne, readTrait, parseInt_fmtInt, hrf, traitWithId_none_of_not_mem hnew]

theorem step_nodeLine (C : Codec F) (hA : ActsRoundTrip C) (st : St F) (n : Node)
    (hok : nodeOK C st.traits n = true) (hnew : n.id ∉ st.nodes.map (·.id)) :
    step C st (nodeLine C n) = .ok { st with nodes := st.nodes ++ [n] } := by
  simp only [nodeOK, Bool.and_eq_true, decide_eq_true_eq] at hok
  obtain ⟨⟨⟨⟨hid, htid⟩, hk⟩, href⟩, hact⟩ := hok
  cases hnm : C.actName n.act with
  | none => simp [hnm] at hact
  | some nm =>
    have hback : C.actOfName nm = some n.act := hA _ _ hnm
    have hkind : parseIntBits 8 (fmtNat n.kind) = .ok (n.kind : Int) := by
      have : fmtNat n.kind = fmtInt (n.kind : Int) := rfl
      rw [this]
      apply parseIntBits_fmtInt
      simp only [fits, Bool.and_eq_true, decide_eq_true_eq]
      have h128 : (2 : Int) ^ (8 - 1) = 128 := by decide
      rw [h128]
      have hk' : ((n.kind : Nat) : Int) < 128 := Int.ofNat_lt.mpr hk
      have h0 : (0 : Int) ≤ ((n.kind : Nat) : Int) := Int.natCast_nonneg _
      exact ⟨Int.le_trans (by decide) h0, hk'⟩
    simp [step, stepKw, nodeLine, readNode, parseIntBits_fmtInt hid, parseIntBits_fmtInt htid, hkind, hnm, hback,
      kindOfInt_natCast, traitRef_of_refOK href, any_id_false_of_not_mem hnew]

theorem step_geneLine (C : Codec F) (hF : FloatsRoundTrip C) (st : St F) (g : Gene F)
    (hok : geneOK st.traits st.nodes g = true) :
    step C st (geneLine C g) = .ok { st with genes := st.genes ++ [g] } := by
  simp only [geneOK, Bool.and_eq_true] at hok
  obtain ⟨⟨href, hsrc⟩, hdst⟩ := hok
  simp [step, stepKw, geneLine, readGene, parseInt_fmtInt, parseBool_fmtBool, hF g.w, hF g.mnum, hsrc, hdst,
    traitRef_of_refOK href]

end GoNeat.PlainIO

namespace GoNeat.PlainIO
variable {F : Type}

/-! ### the reader on the three blocks of written lines (induction over the lists: genomes of every size) -/

theorem parseLines_traits (C : Codec F) (hF : FloatsRoundTrip C) (ts : List (Trait F)) (st : St F)
    (hlen : ∀ t ∈ ts, t.params.length = numTraitParams)
    (hnd : ((st.traits ++ ts).map (·.id)).Nodup) :
    parseLines C st (ts.map (traitLine C)) = .ok { st with traits := st.traits ++ ts } := by
  induction ts generalizing st with
  | nil => simp [parseLines]
  | cons t ts ih =>
    have hnew : t.id ∉ st.traits.map (·.id) := by
      simp only [List.map_append, List.map_cons, List.nodup_append, List.nodup_cons] at hnd
      intro hmem
      exact hnd.2.2 _ hmem _ List.mem_cons_self rfl
    simp only [List.map_cons, parseLines, step_traitLine C hF st t (hlen t List.mem_cons_self) hnew]
    have := ih { st with traits := st.traits ++ [t] } (fun t' ht' => hlen t' (List.mem_cons_of_mem _ ht'))
      (by simpa [List.append_assoc] using hnd)
    simpa [List.append_assoc] using this

theorem parseLines_nodes (C : Codec F) (hA : ActsRoundTrip C) (ns : List Node) (st : St F)
    (hok : ∀ n ∈ ns, nodeOK C st.traits n = true)
    (hnd : ((st.nodes ++ ns).map (·.id)).Nodup) :
    parseLines C st (ns.map (nodeLine C)) = .ok { st with nodes := st.nodes ++ ns } := by
  induction ns generalizing st with
  | nil => simp [parseLines]
  | cons n ns ih =>
    have hnew : n.id ∉ st.nodes.map (·.id) := by
      simp only [List.map_append, List.map_cons, List.nodup_append, List.nodup_cons] at hnd
      intro hmem
      exact hnd.2.2 _ hmem _ List.mem_cons_self rfl
    simp only [List.map_cons, parseLines, step_nodeLine C hA st n (hok n List.mem_cons_self) hnew]
    have := ih { st with nodes := st.nodes ++ [n] } (fun n' hn' => hok n' (List.mem_cons_of_mem _ hn'))
      (by simpa [List.append_assoc] using hnd)
    simpa [List.append_assoc] using this

theorem any_append_left {α} (p : α → Bool) (l r : List α) (h : l.any p = true) : (l ++ r).any p = true := by
  simp [List.any_append, h]

theorem parseLines_genes (C : Codec F) (hF : FloatsRoundTrip C) (gs : List (Gene F)) (st : St F)
    (hok : ∀ g ∈ gs, geneOK st.traits st.nodes g = true) :
    parseLines C st (gs.map (geneLine C)) = .ok { st with genes := st.genes ++ gs } := by
  induction gs generalizing st with
  | nil => simp [parseLines]
  | cons g gs ih =>
    simp only [List.map_cons, parseLines, step_geneLine C hF st g (hok g List.mem_cons_self)]
    have := ih { st with genes := st.genes ++ [g] } (fun g' hg' => hok g' (List.mem_cons_of_mem _ hg'))
    simpa [List.append_assoc] using this

/-! ### population files -/

/-- a line the population reader appends to the current genome buffer: at least two tokens, keyword none of
    `genomestart`, `genomeend`, `/*` -/
def bodyLine (ln : Line) : Bool :=
  match ln with
  | kw :: _ :: _ => kw != "genomestart" && kw != "genomeend" && kw != "/*"
  | _ => false

theorem popLines_body (C : Codec F) (ls : List Line) (st : PSt F) (b : List Line) (hb : st.buf = some b)
    (h : ∀ l ∈ ls, bodyLine l = true) :
    popLines C st ls = .ok { st with buf := some (b ++ ls) } := by
  induction ls generalizing st b with
  | nil => cases st; simp_all [popLines]
  | cons l ls ih =>
    have hl := h l List.mem_cons_self
    match l, hl with
    | kw :: t :: ts, hl =>
      simp only [bodyLine, Bool.and_eq_true, bne_iff_ne, ne_eq] at hl
      simp only [popLines, popStep, popStepKw, hl.1.1, hl.1.2, hl.2, if_false, hb]
      have := ih { st with buf := some (b ++ [kw :: t :: ts]) } (b ++ [kw :: t :: ts]) rfl
        (fun l' hl' => h l' (List.mem_cons_of_mem _ hl'))
      simpa [List.append_assoc] using this

theorem popLines_comments (C : Codec F) (cs : List (List String)) (ls : List Line) (st : PSt F)
    (hne : ∀ c ∈ cs, c ≠ []) :
    popLines C st (cs.map commentLine ++ ls) = popLines C st ls := by
  induction cs with
  | nil => simp
  | cons c cs ih =>
    match c, hne c List.mem_cons_self with
    | t :: ts, _ =>
      simp only [List.map_cons, List.cons_append, popLines, commentLine, popStep, popStepKw]
      simp only [show ¬ ("/*" = "genomestart") by decide, show ¬ ("/*" = "genomeend") by decide, if_false, if_true]
      exact ih (fun c' hc' => hne c' (List.mem_cons_of_mem _ hc'))

/-! ### whole genome -/

theorem parse_render_aux (C : Codec F) (hF : FloatsRoundTrip C) (hA : ActsRoundTrip C) (g : Genome F)
    (h : WFio C g = true) : parse C (render C g) = .ok g := by
  simp only [WFio, Bool.and_eq_true, decide_eq_true_eq, List.all_eq_true, beq_iff_eq, bne_iff_ne, ne_eq,
    List.isEmpty_iff] at h
  obtain ⟨⟨⟨⟨⟨htr, hndT⟩, hndN⟩, hnodes⟩, hgenes⟩, hmods⟩ := h
  unfold parse render
  simp only [parseLines, step_startLine]
  rw [parseLines_append, parseLines_traits C hF g.traits {} (fun t ht => (htr t ht).1) (by simpa using hndT)]
  simp only [List.nil_append]
  rw [parseLines_append, parseLines_nodes C hA g.nodes _ (by simpa using hnodes) (by simpa using hndN)]
  simp only [List.nil_append]
  rw [parseLines_append, parseLines_genes C hF g.genes _ (by simpa using hgenes)]
  simp only [List.nil_append, parseLines, step_endLine, St.toGenome]
  cases g
  simp_all


theorem readGenome_render_aux (C : Codec F) (hF : FloatsRoundTrip C) (hA : ActsRoundTrip C) (g : Genome F)
    (h : WFio C g = true) : readGenome C (render C g) g.id = .ok g := by
  simp [readGenome, parse_render_aux C hF hA g h]

end GoNeat.PlainIO
