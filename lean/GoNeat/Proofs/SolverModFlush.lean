/-
  Helper lemmas for C13 on MODULAR networks (standard solver, Model/SolverMod.lean).

  A. refinement: for `net.ctrl = []` every operation of the modular model IS the operation of Model/Solver.lean;
  B. congruence: every modular operation respects `Solver.Equiv` (equality up to `ActivationSum`, at ALL indices of
     `allNodesMIMO`), for every network and wiring;
  C. truncation: if no neuron, no module and no output reads a control node (`ctrlUnread`), erasing the whole
     control-node part of the state (`List.take nodes.length`) commutes with every operation and changes no
     observation - the control-node state (`isActive`, `Activation`, ...) is dead (before repair 842abdd `Network.Flush`
     did not reset it; that was harmless exactly under this wiring).
  Kind A: no arithmetic law (only `hz : lt 0 0 = false` for `FlushbackCheck`).
-/
import GoNeat.Proofs.SolverFlush
import GoNeat.Model.SolverMod

set_option linter.unusedSectionVars false
set_option linter.unusedVariables false

namespace GoNeat.SolverMod
open GoNeat.Solver

variable {W : Type} [Scalar W]

/-! ## A. refinement -/

theorem flat_eq (net : Net W) (h : net.ctrl = []) : flat net = net := by
  cases net
  simp_all [flat]

theorem init_refine (net : Net W) (h : net.ctrl = []) : SolverMod.init net = Solver.init net := by
  simp [SolverMod.init, Solver.init, h]

theorem sweeps_refine (net : Net W) (σ : Nat → W → Option W) (μ : Nat → List W → Option (List W)) (s : St W)
    (h : net.ctrl = []) : sweeps net σ μ s = sweep2 net σ (Solver.sweep1 net s) := by
  unfold sweeps sweep3 SolverMod.sweep1
  rw [flat_eq net h, h]
  unfold Solver.sweep1
  rcases sweep2 net σ (sweep1Aux net net.nodes 0 s) with ⟨s2, _ | e⟩ <;> simp [sweep3Aux]

theorem actLoop_refine (net : Net W) (σ : Nat → W → Option W) (μ : Nat → List W → Option (List W)) (n : Int)
    (h : net.ctrl = []) (fuel abort : Nat) (one : Bool) (s : St W) :
    SolverMod.actLoop net σ μ n fuel abort one s = Solver.actLoop net σ n fuel abort one s := by
  induction fuel generalizing abort one s with
  | zero => rfl
  | succ fuel ih =>
    unfold SolverMod.actLoop Solver.actLoop
    rw [sweeps_refine net σ μ s h]
    simp only [ih]
    rfl

theorem activateSteps_refine (net : Net W) (σ : Nat → W → Option W) (μ : Nat → List W → Option (List W)) (n : Int)
    (h : net.ctrl = []) (s : St W) :
    SolverMod.activateSteps net σ μ n s = Solver.activateSteps net σ n s := by
  unfold SolverMod.activateSteps Solver.activateSteps
  simp only [actLoop_refine net σ μ n h]

theorem fwdLoop_refine (net : Net W) (σ : Nat → W → Option W) (μ : Nat → List W → Option (List W)) (n : Int)
    (h : net.ctrl = []) (k : Nat) (res : Bool) (s : St W) :
    SolverMod.fwdLoop net σ μ n k res s = Solver.fwdLoop net σ n k res s := by
  induction k generalizing res s with
  | zero => rfl
  | succ k ih =>
    unfold SolverMod.fwdLoop Solver.fwdLoop
    rw [activateSteps_refine net σ μ n h]
    simp only [ih]
    rfl

theorem forwardSteps_refine (net : Net W) (σ : Nat → W → Option W) (μ : Nat → List W → Option (List W)) (n : Int)
    (h : net.ctrl = []) (s : St W) :
    SolverMod.forwardSteps net σ μ n s = Solver.forwardSteps net σ n s := by
  unfold SolverMod.forwardSteps Solver.forwardSteps
  simp only [fwdLoop_refine net σ μ n h]

theorem recursiveSteps_refine (net : Net W) (σ : Nat → W → Option W) (μ : Nat → List W → Option (List W))
    (h : net.ctrl = []) (s : St W) :
    SolverMod.recursiveSteps net σ μ s = Solver.recursiveSteps net σ s := by
  unfold SolverMod.recursiveSteps Solver.recursiveSteps
  simp [h, forwardSteps_refine net σ μ _ h]

/-- for a network without control nodes one call of the modular model is the call of Model/Solver.lean -/
theorem step_refine (net : Net W) (σ : Nat → W → Option W) (μ : Nat → List W → Option (List W))
    (h : net.ctrl = []) (s : St W) (op : Op W) :
    SolverMod.step net σ μ s op = Solver.step net σ s op := by
  cases op with
  | load xs => simp only [SolverMod.step, Solver.step, SolverMod.loadSensors, flat_eq net h]
  | activate n => exact activateSteps_refine net σ μ n h s
  | forward n => exact forwardSteps_refine net σ μ n h s
  | recursive => exact recursiveSteps_refine net σ μ h s
  | relax => rfl
  | flush => rfl

theorem run_refine (net : Net W) (σ : Nat → W → Option W) (μ : Nat → List W → Option (List W))
    (h : net.ctrl = []) (ops : List (Op W)) (s : St W) :
    SolverMod.run net σ μ ops s = Solver.run net σ ops s := by
  induction ops generalizing s with
  | nil => rfl
  | cons op ops ih => simp only [SolverMod.run, Solver.run, step_refine net σ μ h s op, ih]

/-! ## B. congruence with respect to `Equiv` (all indices) -/

theorem setOuts_congr {S : Nat → Prop} (ls : List (NLink W)) (vs : List W) {s t : St W} (h : Solver.R S s t) :
    Solver.R S (setOuts ls vs s) (setOuts ls vs t) := by
  induction ls generalizing vs s t with
  | nil => simpa [setOuts] using h
  | cons l ls ih =>
    cases vs with
    | nil => simpa [setOuts] using h
    | cons v vs =>
      unfold setOuts
      apply ih
      have hn := setActivation_congr v (h.2 l.dst).1
      exact R_upd h l.dst _ _ (fun _ _ hs => hs)
        ⟨hn.activation, hn.count, hn.last, hn.last2, rfl, hn.visited⟩
        (fun hs => by simpa [setActivation, saveActs] using (h.2 l.dst).2 hs)

theorem moduleInputs_congr {S : Nat → Prop} (cn : NNodeS W) {s t : St W} (h : Solver.R S s t) :
    moduleInputs cn s = moduleInputs cn t := by
  unfold moduleInputs
  apply List.map_congr_left
  intro l _
  exact activeOut_congr (h.2 l.src).1

theorem activateModule_congr {S : Nat → Prop} (μ : Nat → List W → Option (List W)) (cn : NNodeS W) {s t : St W}
    (h : Solver.R S s t) :
    Solver.R S (activateModule μ cn s).1 (activateModule μ cn t).1 ∧ (activateModule μ cn s).2 = (activateModule μ cn t).2 := by
  unfold activateModule
  rw [moduleInputs_congr cn h]
  cases μ cn.act (moduleInputs cn t) with
  | none => exact ⟨h, rfl⟩
  | some outs =>
    simp only
    split
    · exact ⟨h, rfl⟩
    · exact ⟨setOuts_congr _ _ h, rfl⟩

theorem R_setIsActive {S : Nat → Prop} {s t : St W} (h : Solver.R S s t) (i : Nat) (b : Bool) :
    Solver.R S (upd s i (fun x => { x with isActive := b })) (upd t i (fun x => { x with isActive := b })) :=
  R_upd h i (fun x => { x with isActive := b }) (fun x => { x with isActive := b }) (fun _ _ hs => hs)
    ⟨(h.2 i).1.activation, (h.2 i).1.count, (h.2 i).1.last, (h.2 i).1.last2, rfl, (h.2 i).1.visited⟩
    (fun hs => (h.2 i).2 hs)

theorem sweep3Aux_congr {S : Nat → Prop} (μ : Nat → List W → Option (List W)) (cs : List (NNodeS W)) (i : Nat)
    {s t : St W} (h : Solver.R S s t) :
    Solver.R S (sweep3Aux μ cs i s).1 (sweep3Aux μ cs i t).1 ∧ (sweep3Aux μ cs i s).2 = (sweep3Aux μ cs i t).2 := by
  induction cs generalizing i s t with
  | nil => exact ⟨h, rfl⟩
  | cons cn cs ih =>
    unfold sweep3Aux
    have ha := activateModule_congr μ cn (R_setIsActive h i false)
    rcases hs : activateModule μ cn (upd s i (fun x => { x with isActive := false })) with ⟨s2, e⟩
    rcases ht : activateModule μ cn (upd t i (fun x => { x with isActive := false })) with ⟨t2, e'⟩
    rw [hs, ht] at ha
    simp only at ha
    obtain ⟨ha1, rfl⟩ := ha
    cases e with
    | some e => exact ⟨ha1, rfl⟩
    | none => exact ih (i + 1) (R_setIsActive ha1 i true)

theorem sweep1_congr (net : Net W) {s t : St W} (h : Equiv s t) :
    Solver.R (neuronSet net) (SolverMod.sweep1 net s) (SolverMod.sweep1 net t) := by
  refine (sweep1Aux_congr (flat net) net.nodes 0 h).mono ?_
  rintro j ⟨nd, hnd, hn⟩
  exact Or.inr ⟨j, nd, hnd, hn, by omega⟩

theorem sweeps_congr (net : Net W) (σ : Nat → W → Option W) (μ : Nat → List W → Option (List W)) {s t : St W}
    (h : Equiv s t) :
    Equiv (sweeps net σ μ s).1 (sweeps net σ μ t).1 ∧ (sweeps net σ μ s).2 = (sweeps net σ μ t).2 := by
  unfold sweeps
  have h2 := sweep2_congr net σ (sweep1_congr net h)
  rcases hs : sweep2 net σ (SolverMod.sweep1 net s) with ⟨s2, e⟩
  rcases ht : sweep2 net σ (SolverMod.sweep1 net t) with ⟨t2, e'⟩
  rw [hs, ht] at h2
  simp only at h2
  obtain ⟨h2a, rfl⟩ := h2
  cases e with
  | some e => exact ⟨h2a, rfl⟩
  | none => exact sweep3Aux_congr μ net.ctrl net.nodes.length h2a

theorem actLoop_congr (net : Net W) (σ : Nat → W → Option W) (μ : Nat → List W → Option (List W)) (maxSteps : Int)
    (fuel abort : Nat) (one : Bool) {s t : St W} (h : Equiv s t) :
    Equiv (SolverMod.actLoop net σ μ maxSteps fuel abort one s).1 (SolverMod.actLoop net σ μ maxSteps fuel abort one t).1 ∧
      (SolverMod.actLoop net σ μ maxSteps fuel abort one s).2 = (SolverMod.actLoop net σ μ maxSteps fuel abort one t).2 := by
  induction fuel generalizing abort one s t with
  | zero => exact ⟨h, rfl⟩
  | succ fuel ih =>
    unfold SolverMod.actLoop
    rw [outputIsOff_congr net h]
    split
    · split
      · exact ⟨h, rfl⟩
      · have h2 := sweeps_congr net σ μ h
        rcases hs : sweeps net σ μ s with ⟨s2, e⟩
        rcases ht : sweeps net σ μ t with ⟨t2, e'⟩
        rw [hs, ht] at h2
        simp only at h2
        obtain ⟨h2a, rfl⟩ := h2
        cases e with
        | some e => exact ⟨h2a, rfl⟩
        | none => exact ih (abort + 1) true h2a
    · exact ⟨h, rfl⟩

theorem activateSteps_congr (net : Net W) (σ : Nat → W → Option W) (μ : Nat → List W → Option (List W)) (n : Int)
    {s t : St W} (h : Equiv s t) :
    Equiv (SolverMod.activateSteps net σ μ n s).1 (SolverMod.activateSteps net σ μ n t).1 ∧
      (SolverMod.activateSteps net σ μ n s).2 = (SolverMod.activateSteps net σ μ n t).2 := by
  unfold SolverMod.activateSteps
  split
  · exact ⟨h, rfl⟩
  · exact actLoop_congr net σ μ n _ 0 false h

theorem fwdLoop_congr (net : Net W) (σ : Nat → W → Option W) (μ : Nat → List W → Option (List W)) (n : Int) (k : Nat)
    (res : Bool) {s t : St W} (h : Equiv s t) :
    Equiv (SolverMod.fwdLoop net σ μ n k res s).1 (SolverMod.fwdLoop net σ μ n k res t).1 ∧
      (SolverMod.fwdLoop net σ μ n k res s).2 = (SolverMod.fwdLoop net σ μ n k res t).2 := by
  induction k generalizing res s t with
  | zero => exact ⟨h, rfl⟩
  | succ k ih =>
    unfold SolverMod.fwdLoop
    have ha := activateSteps_congr net σ μ n h
    rcases hs : SolverMod.activateSteps net σ μ n s with ⟨s', r, e⟩
    rcases ht : SolverMod.activateSteps net σ μ n t with ⟨t', r', e'⟩
    rw [hs, ht] at ha
    simp only [Prod.mk.injEq] at ha
    obtain ⟨ha1, rfl, rfl⟩ := ha
    cases e with
    | some e => exact ⟨ha1, rfl⟩
    | none => exact ih r ha1

theorem forwardSteps_congr (net : Net W) (σ : Nat → W → Option W) (μ : Nat → List W → Option (List W)) (n : Int)
    {s t : St W} (h : Equiv s t) :
    Equiv (SolverMod.forwardSteps net σ μ n s).1 (SolverMod.forwardSteps net σ μ n t).1 ∧
      (SolverMod.forwardSteps net σ μ n s).2 = (SolverMod.forwardSteps net σ μ n t).2 := by
  unfold SolverMod.forwardSteps
  split
  · exact ⟨h, rfl⟩
  · exact fwdLoop_congr net σ μ n _ false h

theorem recursiveSteps_congr (net : Net W) (σ : Nat → W → Option W) (μ : Nat → List W → Option (List W))
    {s t : St W} (h : Equiv s t) :
    Equiv (SolverMod.recursiveSteps net σ μ s).1 (SolverMod.recursiveSteps net σ μ t).1 ∧
      (SolverMod.recursiveSteps net σ μ s).2 = (SolverMod.recursiveSteps net σ μ t).2 := by
  unfold SolverMod.recursiveSteps
  split
  · exact ⟨h, rfl⟩
  · rw [Equiv_visited h]
    exact forwardSteps_congr net σ μ _ (setVisited_congr _ h)

theorem step_congr (hz : Scalar.lt (Scalar.zero : W) Scalar.zero = false) (net : Net W) (σ : Nat → W → Option W)
    (μ : Nat → List W → Option (List W)) (op : Op W) {s t : St W} (h : Equiv s t) :
    Equiv (SolverMod.step net σ μ s op).1 (SolverMod.step net σ μ t op).1 ∧
      (SolverMod.step net σ μ s op).2 = (SolverMod.step net σ μ t op).2 := by
  cases op with
  | load xs =>
    have := loadSensors_congr (flat net) _ xs h
    simp only [SolverMod.step, SolverMod.loadSensors]
    exact ⟨this.1, by rw [this.2]⟩
  | activate n => exact activateSteps_congr net σ μ n h
  | forward n => exact forwardSteps_congr net σ μ n h
  | recursive => exact recursiveSteps_congr net σ μ h
  | relax => exact ⟨h, rfl⟩
  | flush => exact flush_congr hz h

/-- `ActivationSum` is dead in modular networks too: states equal up to it (at every node, control nodes included)
    give the same observations under every call sequence -/
theorem run_congr (hz : Scalar.lt (Scalar.zero : W) Scalar.zero = false) (net : Net W) (σ : Nat → W → Option W)
    (μ : Nat → List W → Option (List W)) (ops : List (Op W)) {s t : St W} (h : Equiv s t) :
    Equiv (SolverMod.run net σ μ ops s).1 (SolverMod.run net σ μ ops t).1 ∧
      (SolverMod.run net σ μ ops s).2 = (SolverMod.run net σ μ ops t).2 := by
  induction ops generalizing s t with
  | nil => exact ⟨h, rfl⟩
  | cons op ops ih =>
    have hs := step_congr hz net σ μ op h
    have hr := ih hs.1
    simp only [SolverMod.run]
    refine ⟨hr.1, ?_⟩
    rw [hr.2]
    congr 1
    unfold obsOf
    rw [hs.2, readOutputs_congr net hs.1]

/-! ## C. truncation: the control-node part of the state is dead when nothing reads it -/

theorem take_upd (s : St W) (i : Nat) (f : NState W → NState W) (k : Nat) :
    (upd s i f).take k = upd (s.take k) i f := by
  induction s generalizing i k with
  | nil => simp [upd]
  | cons a l ih =>
    cases k with
    | zero => simp [upd]
    | succ k =>
      cases i with
      | zero => simp [upd]
      | succ i => simp [upd, ih]

theorem get_take (s : St W) (i k : Nat) (h : i < k) : get (s.take k) i = get s i := by
  simp [Solver.get, List.getD, h]

theorem linkStep_take (net : Net W) (i : Nat) (s : St W) (l : NLink W) (k : Nat) (h : l.src < k) :
    (linkStep net i s l).take k = linkStep net i (s.take k) l := by
  unfold linkStep
  rw [get_take s l.src k h]
  simp only
  split
  · split <;> simp only [take_upd]
  · simp only [take_upd]

theorem foldl_linkStep_take (net : Net W) (i : Nat) (ls : List (NLink W)) (s : St W) (k : Nat)
    (h : ∀ l ∈ ls, l.src < k) :
    (ls.foldl (linkStep net i) s).take k = ls.foldl (linkStep net i) (s.take k) := by
  induction ls generalizing s with
  | nil => rfl
  | cons l ls ih =>
    simp only [List.foldl_cons]
    rw [ih _ (fun l' hl' => h l' (by simp [hl'])), linkStep_take net i s l k (h l (by simp))]

theorem sweep1Aux_take (net : Net W) (rest : List (NNodeS W)) (i : Nat) (s : St W) (k : Nat)
    (h : ∀ nd ∈ rest, nd.isNeuron = true → ∀ l ∈ nd.incoming, l.src < k) :
    (sweep1Aux net rest i s).take k = sweep1Aux net rest i (s.take k) := by
  induction rest generalizing i s with
  | nil => rfl
  | cons nd rest ih =>
    unfold sweep1Aux
    rw [ih _ _ (fun nd' hnd' => h nd' (by simp [hnd']))]
    by_cases hn : nd.isNeuron = true
    · simp only [hn, if_true]
      unfold sumNode
      rw [foldl_linkStep_take net i nd.incoming _ k (h nd (by simp) hn), take_upd]
    · simp [hn]

theorem sweep2Aux_take (σ : Nat → W → Option W) (rest : List (NNodeS W)) (i : Nat) (s : St W) (k : Nat)
    (h : i + rest.length ≤ k) :
    (sweep2Aux σ rest i s).1.take k = (sweep2Aux σ rest i (s.take k)).1 ∧
      (sweep2Aux σ rest i s).2 = (sweep2Aux σ rest i (s.take k)).2 := by
  induction rest generalizing i s with
  | nil => exact ⟨rfl, rfl⟩
  | cons nd rest ih =>
    have hi : i < k := by simp at h; omega
    have hr : i + 1 + rest.length ≤ k := by simp at h; omega
    unfold sweep2Aux
    rw [get_take s i k hi]
    split
    · cases σ nd.act (get s i).sum with
      | none => exact ⟨rfl, rfl⟩
      | some out =>
        simp only
        rw [← take_upd]
        exact ih (i + 1) _ hr
    · exact ih (i + 1) s hr

theorem setOuts_take (ls : List (NLink W)) (vs : List W) (s : St W) (k : Nat) :
    (setOuts ls vs s).take k = setOuts ls vs (s.take k) := by
  induction ls generalizing vs s with
  | nil => simp [setOuts]
  | cons l ls ih =>
    cases vs with
    | nil => simp [setOuts]
    | cons v vs =>
      unfold setOuts
      rw [ih, take_upd]

theorem moduleInputs_take (cn : NNodeS W) (s : St W) (k : Nat) (h : ∀ l ∈ cn.incoming, l.src < k) :
    moduleInputs cn (s.take k) = moduleInputs cn s := by
  unfold moduleInputs
  apply List.map_congr_left
  intro l hl
  rw [get_take s l.src k (h l hl)]

theorem activateModule_take (μ : Nat → List W → Option (List W)) (cn : NNodeS W) (s : St W) (k : Nat)
    (h : ∀ l ∈ cn.incoming, l.src < k) :
    (activateModule μ cn s).1.take k = (activateModule μ cn (s.take k)).1 ∧
      (activateModule μ cn s).2 = (activateModule μ cn (s.take k)).2 := by
  unfold activateModule
  rw [moduleInputs_take cn s k h]
  cases μ cn.act (moduleInputs cn s) with
  | none => exact ⟨rfl, rfl⟩
  | some outs =>
    simp only
    split
    · exact ⟨rfl, rfl⟩
    · exact ⟨setOuts_take _ _ _ _, rfl⟩

theorem sweep3Aux_take (μ : Nat → List W → Option (List W)) (cs : List (NNodeS W)) (i : Nat) (s : St W) (k : Nat)
    (h : ∀ cn ∈ cs, ∀ l ∈ cn.incoming, l.src < k) :
    (sweep3Aux μ cs i s).1.take k = (sweep3Aux μ cs i (s.take k)).1 ∧
      (sweep3Aux μ cs i s).2 = (sweep3Aux μ cs i (s.take k)).2 := by
  induction cs generalizing i s with
  | nil => exact ⟨rfl, rfl⟩
  | cons cn cs ih =>
    unfold sweep3Aux
    have ha := activateModule_take μ cn (upd s i (fun x => { x with isActive := false })) k (h cn (by simp))
    rw [take_upd] at ha
    rcases hs : activateModule μ cn (upd s i (fun x => { x with isActive := false })) with ⟨s2, e⟩
    rcases ht : activateModule μ cn (upd (s.take k) i (fun x => { x with isActive := false })) with ⟨t2, e'⟩
    rw [hs, ht] at ha
    simp only at ha
    obtain ⟨ha1, rfl⟩ := ha
    cases e with
    | some e => exact ⟨ha1, rfl⟩
    | none =>
      simp only
      have := ih (i + 1) (upd s2 i (fun x => { x with isActive := true })) (fun cn' hcn' => h cn' (by simp [hcn']))
      rw [take_upd, ha1] at this
      exact this

theorem any_congr_mem {α : Type} (l : List α) (p q : α → Bool) (h : ∀ o ∈ l, p o = q o) : l.any p = l.any q := by
  induction l with
  | nil => rfl
  | cons a l ih =>
    simp only [List.any_cons]
    rw [h a (by simp), ih (fun o ho => h o (by simp [ho]))]

theorem outputIsOff_take (net : Net W) (s : St W) (k : Nat) (h : ∀ o ∈ net.outputs, o < k) :
    outputIsOff net (s.take k) = outputIsOff net s := by
  unfold outputIsOff
  apply any_congr_mem
  intro o ho
  rw [get_take s o k (h o ho)]

theorem readOutputs_take (net : Net W) (s : St W) (k : Nat) (h : ∀ o ∈ net.outputs, o < k) :
    readOutputs net (s.take k) = readOutputs net s := by
  unfold readOutputs
  apply List.map_congr_left
  intro o ho
  rw [get_take s o k (h o ho)]

theorem loadEq_take (net : Net W) (is : List Nat) (xs : List W) (s : St W) (k : Nat) :
    (loadEq net is xs s).1.take k = (loadEq net is xs (s.take k)).1 ∧
      (loadEq net is xs s).2 = (loadEq net is xs (s.take k)).2 := by
  induction is generalizing xs s with
  | nil => exact ⟨rfl, rfl⟩
  | cons i rest ih =>
    unfold loadEq
    split
    · cases xs with
      | nil => exact ⟨rfl, rfl⟩
      | cons x xs' =>
        simp only
        rw [← take_upd]
        exact ih xs' _
    · exact ih xs s

theorem loadNe_take (net : Net W) (is : List Nat) (xs : List W) (s : St W) (k : Nat) :
    (loadNe net is xs s).1.take k = (loadNe net is xs (s.take k)).1 ∧
      (loadNe net is xs s).2 = (loadNe net is xs (s.take k)).2 := by
  induction is generalizing xs s with
  | nil => exact ⟨rfl, rfl⟩
  | cons i rest ih =>
    unfold loadNe
    split
    · cases xs with
      | nil => exact ⟨rfl, rfl⟩
      | cons x xs' =>
        simp only
        rw [← take_upd]
        exact ih xs' _
    · split
      · rw [← take_upd]
        exact ih xs _
      · exact ih xs s

theorem loadSensors_take (net : Net W) (xs : List W) (s : St W) (k : Nat) :
    (Solver.loadSensors net xs s).1.take k = (Solver.loadSensors net xs (s.take k)).1 ∧
      (Solver.loadSensors net xs s).2 = (Solver.loadSensors net xs (s.take k)).2 := by
  unfold Solver.loadSensors
  split
  · exact loadEq_take ..
  · exact loadNe_take ..

/-- the wiring hypothesis in `Prop` form -/
structure Unread (net : Net W) : Prop where
  nodes : ∀ nd ∈ net.nodes, nd.isNeuron = true → ∀ l ∈ nd.incoming, l.src < net.nodes.length
  ctrl : ∀ cn ∈ net.ctrl, ∀ l ∈ cn.incoming, l.src < net.nodes.length
  outs : ∀ o ∈ net.outputs, o < net.nodes.length

theorem unread_of_bool (net : Net W) (h : ctrlUnread net = true) : Unread net := by
  unfold ctrlUnread at h
  simp only [Bool.and_eq_true, List.all_eq_true, Bool.or_eq_true, Bool.not_eq_true', decide_eq_true_eq] at h
  obtain ⟨⟨h1, h2⟩, h3⟩ := h
  refine ⟨fun nd hnd hn l hl => ?_, h2, h3⟩
  rcases h1 nd hnd with hf | hall
  · rw [hn] at hf; cases hf
  · exact hall l hl

theorem sweeps_take (net : Net W) (σ : Nat → W → Option W) (μ : Nat → List W → Option (List W)) (hu : Unread net)
    (s : St W) :
    (sweeps net σ μ s).1.take net.nodes.length = (sweeps net σ μ (s.take net.nodes.length)).1 ∧
      (sweeps net σ μ s).2 = (sweeps net σ μ (s.take net.nodes.length)).2 := by
  unfold sweeps SolverMod.sweep1 sweep2 sweep3
  have h1 := sweep1Aux_take (flat net) net.nodes 0 s net.nodes.length hu.nodes
  have h2 := sweep2Aux_take σ net.nodes 0 (sweep1Aux (flat net) net.nodes 0 s) net.nodes.length (by omega)
  rw [h1] at h2
  rcases hs : sweep2Aux σ net.nodes 0 (sweep1Aux (flat net) net.nodes 0 s) with ⟨s2, e⟩
  rcases ht : sweep2Aux σ net.nodes 0 (sweep1Aux (flat net) net.nodes 0 (s.take net.nodes.length)) with ⟨t2, e'⟩
  rw [hs, ht] at h2
  simp only at h2
  obtain ⟨h2a, rfl⟩ := h2
  cases e with
  | some e => exact ⟨h2a, rfl⟩
  | none =>
    simp only
    have := sweep3Aux_take μ net.ctrl net.nodes.length s2 net.nodes.length hu.ctrl
    rw [h2a] at this
    exact this

theorem actLoop_take (net : Net W) (σ : Nat → W → Option W) (μ : Nat → List W → Option (List W)) (hu : Unread net)
    (maxSteps : Int) (fuel abort : Nat) (one : Bool) (s : St W) :
    (SolverMod.actLoop net σ μ maxSteps fuel abort one s).1.take net.nodes.length =
        (SolverMod.actLoop net σ μ maxSteps fuel abort one (s.take net.nodes.length)).1 ∧
      (SolverMod.actLoop net σ μ maxSteps fuel abort one s).2 =
        (SolverMod.actLoop net σ μ maxSteps fuel abort one (s.take net.nodes.length)).2 := by
  induction fuel generalizing abort one s with
  | zero => exact ⟨rfl, rfl⟩
  | succ fuel ih =>
    unfold SolverMod.actLoop
    rw [outputIsOff_take net s _ hu.outs]
    split
    · split
      · exact ⟨rfl, rfl⟩
      · have h2 := sweeps_take net σ μ hu s
        rcases hs : sweeps net σ μ s with ⟨s2, e⟩
        rcases ht : sweeps net σ μ (s.take net.nodes.length) with ⟨t2, e'⟩
        rw [hs, ht] at h2
        simp only at h2
        obtain ⟨h2a, rfl⟩ := h2
        cases e with
        | some e => exact ⟨h2a, rfl⟩
        | none =>
          simp only
          rw [← h2a]
          exact ih (abort + 1) true s2
    · exact ⟨rfl, rfl⟩

theorem activateSteps_take (net : Net W) (σ : Nat → W → Option W) (μ : Nat → List W → Option (List W))
    (hu : Unread net) (n : Int) (s : St W) :
    (SolverMod.activateSteps net σ μ n s).1.take net.nodes.length =
        (SolverMod.activateSteps net σ μ n (s.take net.nodes.length)).1 ∧
      (SolverMod.activateSteps net σ μ n s).2 = (SolverMod.activateSteps net σ μ n (s.take net.nodes.length)).2 := by
  unfold SolverMod.activateSteps
  split
  · exact ⟨rfl, rfl⟩
  · exact actLoop_take net σ μ hu n _ 0 false s

theorem fwdLoop_take (net : Net W) (σ : Nat → W → Option W) (μ : Nat → List W → Option (List W)) (hu : Unread net)
    (n : Int) (k : Nat) (res : Bool) (s : St W) :
    (SolverMod.fwdLoop net σ μ n k res s).1.take net.nodes.length =
        (SolverMod.fwdLoop net σ μ n k res (s.take net.nodes.length)).1 ∧
      (SolverMod.fwdLoop net σ μ n k res s).2 = (SolverMod.fwdLoop net σ μ n k res (s.take net.nodes.length)).2 := by
  induction k generalizing res s with
  | zero => exact ⟨rfl, rfl⟩
  | succ k ih =>
    unfold SolverMod.fwdLoop
    have ha := activateSteps_take net σ μ hu n s
    rcases hs : SolverMod.activateSteps net σ μ n s with ⟨s', r, e⟩
    rcases ht : SolverMod.activateSteps net σ μ n (s.take net.nodes.length) with ⟨t', r', e'⟩
    rw [hs, ht] at ha
    simp only [Prod.mk.injEq] at ha
    obtain ⟨ha1, rfl, rfl⟩ := ha
    cases e with
    | some e => exact ⟨ha1, rfl⟩
    | none =>
      simp only
      rw [← ha1]
      exact ih r s'

theorem forwardSteps_take (net : Net W) (σ : Nat → W → Option W) (μ : Nat → List W → Option (List W))
    (hu : Unread net) (n : Int) (s : St W) :
    (SolverMod.forwardSteps net σ μ n s).1.take net.nodes.length =
        (SolverMod.forwardSteps net σ μ n (s.take net.nodes.length)).1 ∧
      (SolverMod.forwardSteps net σ μ n s).2 = (SolverMod.forwardSteps net σ μ n (s.take net.nodes.length)).2 := by
  unfold SolverMod.forwardSteps
  split
  · exact ⟨rfl, rfl⟩
  · exact fwdLoop_take net σ μ hu n _ false s

theorem flushAux_take (hz : Scalar.lt (Scalar.zero : W) Scalar.zero = false) (s : St W) (k : Nat) :
    (flushAux s).1.take k = (flushAux (s.take k)).1 ∧ (flushAux s).2 = (flushAux (s.take k)).2 := by
  rw [flushAux_eq hz, flushAux_eq hz]
  exact ⟨by simp [List.map_take], rfl⟩

/-- one call on a network WITH control nodes, none of which is read: the control-node part of the state neither
    influences the observation nor the ordinary part of the next state -/
theorem step_take (hz : Scalar.lt (Scalar.zero : W) Scalar.zero = false) (net : Net W) (σ : Nat → W → Option W)
    (μ : Nat → List W → Option (List W)) (hu : Unread net) (hc : net.ctrl ≠ []) (s : St W) (op : Op W) :
    (SolverMod.step net σ μ s op).1.take net.nodes.length = (SolverMod.step net σ μ (s.take net.nodes.length) op).1 ∧
      (SolverMod.step net σ μ s op).2 = (SolverMod.step net σ μ (s.take net.nodes.length) op).2 := by
  cases op with
  | load xs =>
    have := loadSensors_take (flat net) xs s net.nodes.length
    simp only [SolverMod.step, SolverMod.loadSensors]
    exact ⟨this.1, by rw [this.2]⟩
  | activate n => exact activateSteps_take net σ μ hu n s
  | forward n => exact forwardSteps_take net σ μ hu n s
  | recursive =>
    have : net.ctrl.length > 0 := by
      cases hcc : net.ctrl with
      | nil => exact absurd hcc hc
      | cons _ _ => simp
    simp [SolverMod.step, SolverMod.recursiveSteps, this]
  | relax => exact ⟨rfl, rfl⟩
  | flush => exact flushAux_take hz s _

theorem run_take (hz : Scalar.lt (Scalar.zero : W) Scalar.zero = false) (net : Net W) (σ : Nat → W → Option W)
    (μ : Nat → List W → Option (List W)) (hu : Unread net) (hc : net.ctrl ≠ []) (ops : List (Op W)) (s : St W) :
    (SolverMod.run net σ μ ops s).1.take net.nodes.length = (SolverMod.run net σ μ ops (s.take net.nodes.length)).1 ∧
      (SolverMod.run net σ μ ops s).2 = (SolverMod.run net σ μ ops (s.take net.nodes.length)).2 := by
  induction ops generalizing s with
  | nil => exact ⟨rfl, rfl⟩
  | cons op ops ih =>
    have hs := step_take hz net σ μ hu hc s op
    have hr := ih (SolverMod.step net σ μ s op).1
    rw [hs.1] at hr
    simp only [SolverMod.run]
    refine ⟨hr.1, ?_⟩
    rw [hr.2]
    congr 1
    unfold obsOf
    rw [← hs.2, ← hs.1, readOutputs_take net _ _ hu.outs]

/-! ## D. lengths -/

theorem length_setOuts (ls : List (NLink W)) (vs : List W) (s : St W) : (setOuts ls vs s).length = s.length := by
  induction ls generalizing vs s with
  | nil => simp [setOuts]
  | cons l ls ih =>
    cases vs with
    | nil => simp [setOuts]
    | cons v vs => unfold setOuts; rw [ih]; simp

theorem length_activateModule (μ : Nat → List W → Option (List W)) (cn : NNodeS W) (s : St W) :
    (activateModule μ cn s).1.length = s.length := by
  unfold activateModule
  cases μ cn.act (moduleInputs cn s) with
  | none => rfl
  | some outs =>
    simp only
    split
    · rfl
    · exact length_setOuts ..

theorem length_sweep3Aux (μ : Nat → List W → Option (List W)) (cs : List (NNodeS W)) (i : Nat) (s : St W) :
    (sweep3Aux μ cs i s).1.length = s.length := by
  induction cs generalizing i s with
  | nil => rfl
  | cons cn cs ih =>
    unfold sweep3Aux
    have ha := length_activateModule μ cn (upd s i (fun x => { x with isActive := false }))
    rcases hs : activateModule μ cn (upd s i (fun x => { x with isActive := false })) with ⟨s2, e⟩
    rw [hs] at ha
    simp only [length_upd] at ha
    cases e with
    | some e => exact ha
    | none => simp only; rw [ih]; simpa using ha

theorem length_sweeps (net : Net W) (σ : Nat → W → Option W) (μ : Nat → List W → Option (List W)) (s : St W) :
    (sweeps net σ μ s).1.length = s.length := by
  unfold sweeps SolverMod.sweep1 sweep2 sweep3
  have h2 := length_sweep2Aux σ net.nodes 0 (sweep1Aux (flat net) net.nodes 0 s)
  rw [length_sweep1Aux] at h2
  rcases hs : sweep2Aux σ net.nodes 0 (sweep1Aux (flat net) net.nodes 0 s) with ⟨s2, e⟩
  rw [hs] at h2
  cases e with
  | some e => exact h2
  | none => simp only; rw [length_sweep3Aux]; exact h2

theorem length_actLoop (net : Net W) (σ : Nat → W → Option W) (μ : Nat → List W → Option (List W)) (maxSteps : Int)
    (fuel abort : Nat) (one : Bool) (s : St W) :
    (SolverMod.actLoop net σ μ maxSteps fuel abort one s).1.length = s.length := by
  induction fuel generalizing abort one s with
  | zero => rfl
  | succ fuel ih =>
    unfold SolverMod.actLoop
    split
    · split
      · rfl
      · have h2 := length_sweeps net σ μ s
        rcases hs : sweeps net σ μ s with ⟨s2, e⟩
        rw [hs] at h2
        cases e with
        | some e => exact h2
        | none => simp only; rw [ih]; exact h2
    · rfl

theorem length_activateSteps (net : Net W) (σ : Nat → W → Option W) (μ : Nat → List W → Option (List W)) (n : Int)
    (s : St W) : (SolverMod.activateSteps net σ μ n s).1.length = s.length := by
  unfold SolverMod.activateSteps
  split
  · rfl
  · exact length_actLoop ..

theorem length_fwdLoop (net : Net W) (σ : Nat → W → Option W) (μ : Nat → List W → Option (List W)) (n : Int) (k : Nat)
    (res : Bool) (s : St W) : (SolverMod.fwdLoop net σ μ n k res s).1.length = s.length := by
  induction k generalizing res s with
  | zero => rfl
  | succ k ih =>
    unfold SolverMod.fwdLoop
    have ha := length_activateSteps net σ μ n s
    rcases hs : SolverMod.activateSteps net σ μ n s with ⟨s', r, e⟩
    rw [hs] at ha
    cases e with
    | some e => exact ha
    | none => simp only; rw [ih]; exact ha

theorem length_forwardSteps (net : Net W) (σ : Nat → W → Option W) (μ : Nat → List W → Option (List W)) (n : Int)
    (s : St W) : (SolverMod.forwardSteps net σ μ n s).1.length = s.length := by
  unfold SolverMod.forwardSteps
  split
  · rfl
  · exact length_fwdLoop ..

theorem length_step (net : Net W) (σ : Nat → W → Option W) (μ : Nat → List W → Option (List W)) (s : St W)
    (op : Op W) : (SolverMod.step net σ μ s op).1.length = s.length := by
  cases op with
  | load xs =>
    simp only [SolverMod.step, SolverMod.loadSensors, Solver.loadSensors]
    split
    · exact length_loadEq ..
    · exact length_loadNe ..
  | activate n => exact length_activateSteps ..
  | forward n => exact length_forwardSteps ..
  | recursive =>
    simp only [SolverMod.step, SolverMod.recursiveSteps]
    split
    · rfl
    · simp [length_forwardSteps, length_setVisited]
  | relax => rfl
  | flush => exact length_flushAux s

theorem length_run (net : Net W) (σ : Nat → W → Option W) (μ : Nat → List W → Option (List W)) (ops : List (Op W))
    (s : St W) : (SolverMod.run net σ μ ops s).1.length = s.length := by
  induction ops generalizing s with
  | nil => rfl
  | cons op ops ih => simp [SolverMod.run, ih, length_step]

end GoNeat.SolverMod
