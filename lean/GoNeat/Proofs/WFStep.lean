/-
  C01 helper lemmas for the population-level closure of the structural mutators: how the registry grows
  (`RegExt`: only records made of fresh numbers are appended, counters only grow) and what a structural step does to
  the node set, the trait ids and the first gene (`StepRel`).
-/
import GoNeat.Proofs.WFLemmas
import GoNeat.Proofs.WFParam
import GoNeat.Proofs.WFStruct
import GoNeat.Proofs.WFMate2

namespace GoNeat.C01
open GoNeat Scalar
variable {W : Type} [Scalar W]

/-! ### growth of the registry -/

/-- `reg'` extends `reg`: counters only grow, and the appended records consist of numbers above `reg`'s counters -/
structure RegExt (reg reg' : Reg W) : Prop where
  inn : reg.nextInn ≤ reg'.nextInn
  node : reg.nextNode ≤ reg'.nextNode
  recs : ∃ new : List (Innov W), reg'.records = reg.records ++ new ∧
    ∀ r ∈ new, (r.typ = 2 → reg.nextInn < r.inn) ∧
               (r.typ = 1 → reg.nextInn < r.inn ∧ reg.nextInn < r.inn2 ∧ reg.nextNode < r.newNode)

omit [Scalar W] in
theorem RegExt.refl (reg : Reg W) : RegExt reg reg := ⟨Int.le_refl _, Int.le_refl _, [], by simp, by simp⟩

omit [Scalar W] in
theorem RegExt.trans {a b c : Reg W} (h1 : RegExt a b) (h2 : RegExt b c) : RegExt a c := by
  obtain ⟨n1, e1, p1⟩ := h1.recs
  obtain ⟨n2, e2, p2⟩ := h2.recs
  refine ⟨Int.le_trans h1.inn h2.inn, Int.le_trans h1.node h2.node, n1 ++ n2, by rw [e2, e1, List.append_assoc], ?_⟩
  intro r hr
  rcases List.mem_append.mp hr with h | h
  · exact p1 r h
  · have := p2 r h
    have hi := h1.inn
    have hn := h1.node
    exact ⟨fun t => by have := this.1 t; omega, fun t => by have := this.2 t; omega⟩

omit [Scalar W] in
theorem RegExt.fresh2 (reg : Reg W) (r : Innov W) (ht : r.typ = 2) (hi : r.inn = reg.nextInn + 1) :
    RegExt reg (reg.nextInnovation.2.store r) := by
  refine ⟨by simp [Reg.store, Reg.nextInnovation]; omega, by simp [Reg.store, Reg.nextInnovation], [r], rfl, ?_⟩
  intro r' hr'
  simp only [List.mem_singleton] at hr'
  subst hr'
  exact ⟨fun _ => by omega, fun t => by omega⟩

omit [Scalar W] in
theorem RegExt.fresh1 (reg : Reg W) (r : Innov W) (ht : r.typ = 1) (h1 : r.inn = reg.nextInn + 1)
    (h2 : r.inn2 = reg.nextInn + 1 + 1) (hn : r.newNode = reg.nextNode + 1) : RegExt reg (regAfterSplit reg r) := by
  refine ⟨by simp [regAfterSplit, Reg.store, Reg.nextInnovation, Reg.nextNodeId]; omega,
          by simp [regAfterSplit, Reg.store, Reg.nextInnovation, Reg.nextNodeId]; omega, [r], rfl, ?_⟩
  intro r' hr'
  simp only [List.mem_singleton] at hr'
  subst hr'
  exact ⟨fun t => by omega, fun _ => by omega⟩

omit [Scalar W] in
/-- a genome that satisfied the invariant of the old registry satisfies that of the extended one -/
theorem RegInv.ext {reg reg' : Reg W} {g : Genome W} (h : RegInv reg g) (he : RegExt reg reg') (hok : RegOk reg') :
    RegInv reg' g := by
  obtain ⟨new, e, p⟩ := he.recs
  refine ⟨?_, ⟨fun x hx => Int.le_trans (h.above.1 x hx) he.inn, fun n hn => Int.le_trans (h.above.2 n hn) he.node⟩, hok⟩
  intro i hi
  rw [e] at hi
  rcases List.mem_append.mp hi with hi | hi
  · exact h.compat i hi
  · have pi := p i hi
    refine ⟨fun t x hx e' => ?_, fun t => ⟨fun x hx e' => ?_, fun x hx e' => ?_, fun n hn e' => ?_⟩⟩
    · have := h.above.1 x hx; have := pi.1 t; omega
    · have := h.above.1 x hx; have := pi.2 t; omega
    · have := h.above.1 x hx; have := pi.2 t; omega
    · have := h.above.2 n hn; have := pi.2 t; omega

omit [Scalar W] in
theorem HeadBelowRecords.ext {reg reg' : Reg W} {g : Genome W} (h : HeadBelowRecords reg g) (ha : CounterAbove reg g)
    (he : RegExt reg reg') : HeadBelowRecords reg' g := by
  obtain ⟨new, e, p⟩ := he.recs
  intro h0 hh i hi
  have hm : h0 ∈ g.genes := List.mem_of_mem_take hh
  rw [e] at hi
  rcases List.mem_append.mp hi with hi | hi
  · exact h h0 hh i hi
  · have pi := p i hi
    have := ha.1 h0 hm
    exact ⟨fun t => by have := pi.1 t; omega, fun t => by have := pi.2 t; omega⟩

/-! ### what a structural step does to nodes, traits and the first gene -/

structure StepRel (reg : Reg W) (g : Genome W) (reg' : Reg W) (g' : Genome W) : Prop where
  ext : RegExt reg reg'
  nodesOld : ∀ n ∈ g.nodes, n ∈ g'.nodes
  nodesNew : ∀ m ∈ g'.nodes, m ∈ g.nodes ∨
    (m.kind = Kind.hidden ∧ (reg.nextNode < m.id ∨ ∃ i ∈ reg.records, i.typ = 1 ∧ i.newNode = m.id))
  tids : traitIds g' = traitIds g
  head : g'.genes.head?.map (·.inn) = g.genes.head?.map (·.inn)
  mods : g'.modules = g.modules

omit [Scalar W] in
theorem StepRel.refl (reg : Reg W) (g : Genome W) : StepRel reg g reg g :=
  ⟨RegExt.refl reg, fun _ h => h, fun _ h => Or.inl h, rfl, rfl, rfl⟩

omit [Scalar W] in
theorem StepRel.of_sameSkel (reg : Reg W) {g g' : Genome W} (h : SameSkel g g') (hm : g'.modules = g.modules)
    (hn : g'.nodes = g.nodes) : StepRel reg g reg g' := by
  refine ⟨RegExt.refl reg, fun n h' => by rw [hn]; exact h', fun m h' => Or.inl (by rw [← hn]; exact h'), h.tids, ?_, hm⟩
  have := congrArg List.head? h.inns
  simpa [List.head?_map] using this

omit [Scalar W] in
/-- ordered insertion of a gene with a number above the first gene's keeps the first gene -/
theorem geneInsert_head (genes : List (Gene W)) (x : Gene W) (hs : GenesSorted genes) (a : Int)
    (hh : genes.head?.map (·.inn) = some a) (hlt : a < x.inn) : (geneInsert genes x).head?.map (·.inn) = some a := by
  cases genes with
  | nil => simp at hh
  | cons h0 t =>
    simp only [List.head?_cons, Option.map_some, Option.some.injEq] at hh
    unfold geneInsert
    rw [insertAt_spec (fun y : Gene W => y.inn) (h0 :: t) x hs]
    split
    · simp [hh]
    · have : decide (h0.inn < x.inn) = true := by simp; omega
      simp [List.filter_cons, this, hh, hlt]

omit [Scalar W] in
/-- the first gene survives a step that keeps every old number and only adds numbers above the first one -/
theorem head_preserved (g g' : Genome W) (hw : WFT g) (hs' : GenesSorted g'.genes)
    (hold : ∀ y ∈ g.genes, ∃ z ∈ g'.genes, z.inn = y.inn)
    (hnew : ∀ z ∈ g'.genes, (∃ y ∈ g.genes, y.inn = z.inn) ∨ (∀ h0 ∈ g.genes.take 1, h0.inn < z.inn)) :
    g'.genes.head?.map (·.inn) = g.genes.head?.map (·.inn) := by
  cases hg : g.genes with
  | nil => exact absurd hg hw.wf.hasGene
  | cons h0 t =>
    have hs := hw.wf.genesSorted
    rw [hg] at hs
    have hmin : ∀ y ∈ g.genes, h0.inn ≤ y.inn := by
      intro y hy
      rw [hg] at hy
      rcases List.mem_cons.mp hy with rfl | hy'
      · omega
      · have := (sorted_cons hs).2 y hy'; omega
    obtain ⟨z0, hz0, e0⟩ := hold h0 (by rw [hg]; simp)
    cases hg' : g'.genes with
    | nil => rw [hg'] at hz0; simp at hz0
    | cons f t' =>
      rw [hg'] at hs' hz0
      have hf : h0.inn ≤ f.inn := by
        rcases hnew f (by rw [hg']; simp) with ⟨y, hy, e⟩ | h'
        · rw [← e]; exact hmin y hy
        · have := h' h0 (by rw [hg]; simp); omega
      have hle : f.inn ≤ z0.inn := by
        rcases List.mem_cons.mp hz0 with rfl | h'
        · omega
        · have := (sorted_cons hs').2 z0 h'; omega
      simp only [List.head?_cons, Option.map_some, Option.some.injEq]
      omega

omit [Scalar W] in
theorem StepRel.trans {r0 r1 r2 : Reg W} {g0 g1 g2 : Genome W} (h1 : StepRel r0 g0 r1 g1) (h2 : StepRel r1 g1 r2 g2) :
    StepRel r0 g0 r2 g2 := by
  refine ⟨h1.ext.trans h2.ext, fun n hn => h2.nodesOld n (h1.nodesOld n hn), ?_, h2.tids.trans h1.tids,
          h2.head.trans h1.head, h2.mods.trans h1.mods⟩
  intro m hm
  rcases h2.nodesNew m hm with h' | ⟨hk, h' | ⟨i, hi, ti, ei⟩⟩
  · exact h1.nodesNew m h'
  · exact Or.inr ⟨hk, Or.inl (by have := h1.ext.node; omega)⟩
  · obtain ⟨new, e, p⟩ := h1.ext.recs
    rw [e] at hi
    rcases List.mem_append.mp hi with hi' | hi'
    · exact Or.inr ⟨hk, Or.inr ⟨i, hi', ti, ei⟩⟩
    · exact Or.inr ⟨hk, Or.inl (by have := (p i hi').2 ti; omega)⟩

omit [Scalar W] in
/-- the step relation gives the node lineage and first-gene facts of the new genome against any other member -/
theorem StepRel.fits {reg reg' : Reg W} {g g' : Genome W} (h : StepRel reg g reg' g') (hw' : WFT g') (hw : WFT g)
    (hi : RegInv reg g) (hb : HeadBelowRecords reg g) :
    HeadBelowRecords reg' g' ∧
    (∀ b : Genome W, RegInv reg b → NodeLineage g b → NodeLineage g' b) ∧
    (∀ b : Genome W, SharedHead g b → SharedHead g' b) := by
  refine ⟨?_, ?_, ?_⟩
  · -- the first gene's number is unchanged; new records are above the old counter, which is above that number
    have h1 : HeadBelowRecords reg' g := hb.ext hi.above h.ext
    intro h0 hh i hi'
    have hhead := h.head
    cases hg' : g'.genes with
    | nil => rw [hg'] at hh; simp at hh
    | cons f' t' =>
      rw [hg'] at hh hhead
      simp only [List.take_succ_cons, List.take_zero, List.mem_singleton] at hh
      subst hh
      cases hg : g.genes with
      | nil => rw [hg] at hhead; simp at hhead
      | cons f t =>
        rw [hg] at hhead
        simp only [List.head?_cons, Option.map_some, Option.some.injEq] at hhead
        have := h1 f (by rw [hg]; simp) i hi'
        rw [hhead]; exact this
  · intro b hib hl
    refine ⟨?_, by rw [h.tids]; exact hl.2.1, ?_⟩
    · intro m hm k hk e
      rcases h.nodesNew m hm with h' | ⟨hk', h' | ⟨i, hi', ti, ei⟩⟩
      · exact hl.1 m h' k hk e
      · have := hib.above.2 k hk; omega
      · rw [hk']; exact (((hib.compat i hi').2 ti).2.2 k hk (by rw [← e, ei])).symm
    · have : ioIds g' = ioIds g := by
        apply sorted_ext _ _ (ioIds_sorted g' hw'.wf.nodesSorted) (ioIds_sorted g hw.wf.nodesSorted)
        intro i
        rw [mem_ioIds, mem_ioIds]
        constructor
        · rintro ⟨m, hm, hk, e⟩
          rcases h.nodesNew m hm with h' | ⟨hk', _⟩
          · exact ⟨m, h', hk, e⟩
          · exact absurd hk' hk
        · rintro ⟨n, hn, hk, e⟩
          exact ⟨n, h.nodesOld n hn, hk, e⟩
      rw [this]; exact hl.2.2
  · intro b hs
    unfold SharedHead at hs ⊢
    rw [h.head]; exact hs

end GoNeat.C01
