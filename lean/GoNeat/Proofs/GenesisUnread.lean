/-
  Every network built by `Genome.Genesis` (Model/Genesis.lean) satisfies `SolverMod.ctrlUnread`: the links of the
  ordinary nodes come from connection genes (endpoints resolved among the genome's nodes), the wires of a control
  gene are attached to the control node only and resolved among the genome's nodes, outputs are genome nodes.
  Hence the control-node state that `Network.Flush` does not reset is dead in every phenotype (C13Mod).
-/
import GoNeat.Proofs.Genesis
import GoNeat.Model.SolverMod

set_option linter.unusedSectionVars false

namespace GoNeat.Genesis

variable {W : Type}

theorem idxOf_lt {nodes : List Node} {a : Int} {s : Nat} (h : idxOf nodes a = some s) : s < nodes.length := by
  have := idxOf_some h
  cases hg : nodes[s]? with
  | none => simp [hg] at this
  | some n => exact (List.getElem?_eq_some_iff.mp hg).1

theorem length_linkGenes (nodes : List Node) (genes : List (Gene W)) :
    ∀ tbl tbl', linkGenes nodes genes tbl = .ok tbl' → tbl'.length = tbl.length := by
  induction genes with
  | nil => intro tbl tbl' h; simp only [linkGenes, Except.ok.injEq] at h; subst h; rfl
  | cons x gs ih =>
    intro tbl tbl' h
    unfold linkGenes at h
    split at h
    · exact ih _ _ h
    · cases hl : geneLink nodes x with
      | none => simp [hl] at h
      | some l =>
        simp only [hl] at h
        rw [ih _ _ h, length_addLink]

theorem wireLinks_src_lt {nodes : List Node} {c : Nat} (ws : List (Wire W)) :
    ∀ ls, wireLinks nodes c true ws = .ok ls → ∀ l ∈ ls, l.src < nodes.length := by
  induction ws with
  | nil => intro ls h; simp only [wireLinks, Except.ok.injEq] at h; subst h; simp
  | cons w ws ih =>
    intro ls h
    unfold wireLinks at h
    cases hk : idxOf nodes w.node with
    | none => simp [hk] at h
    | some k =>
      cases hrec : wireLinks nodes c true ws with
      | error e => simp [hk, hrec] at h
      | ok ls' =>
        simp only [hk, hrec, Except.ok.injEq, if_true] at h
        subst h
        intro l hl
        simp only [List.mem_cons] at hl
        rcases hl with rfl | hl
        · exact idxOf_lt hk
        · exact ih ls' hrec l hl

theorem ctrlNodes_src_lt (nodes : List Node) (mods : List (Module W)) :
    ∀ next cs, ctrlNodes nodes mods next = .ok cs → ∀ cn ∈ cs, ∀ l ∈ cn.incoming, l.src < nodes.length := by
  induction mods with
  | nil => intro next cs h; simp only [ctrlNodes, Except.ok.injEq] at h; subst h; simp
  | cons m ms ih =>
    intro next cs h
    unfold ctrlNodes at h
    split at h
    · exact ih _ _ h
    · cases hi : wireLinks nodes next true m.ins with
      | error e => simp [hi] at h
      | ok ins =>
        cases ho : wireLinks nodes next false m.outs with
        | error e => simp [hi, ho] at h
        | ok outs =>
          cases hr : ctrlNodes nodes ms (next + 1) with
          | error e => simp [hi, ho, hr] at h
          | ok cs' =>
            simp only [hi, ho, hr, Except.ok.injEq] at h
            subst h
            intro cn hcn
            simp only [List.mem_cons] at hcn
            rcases hcn with rfl | hcn
            · exact wireLinks_src_lt m.ins ins hi
            · exact ih _ _ hr cn hcn

theorem positions_lt (p : Node → Bool) (nodes : List Node) (i : Nat) :
    ∀ o ∈ positions p nodes i, o < i + nodes.length := by
  induction nodes generalizing i with
  | nil => simp [positions]
  | cons n ns ih =>
    intro o ho
    unfold positions at ho
    split at ho
    · simp only [List.mem_cons] at ho
      rcases ho with rfl | ho
      · simp
      · have := ih (i + 1) o ho; simp; omega
    · have := ih (i + 1) o ho; simp; omega

/-- every phenotype satisfies the wiring hypothesis of the C13 theorems for modular networks -/
theorem genesis_ctrlUnread [Scalar W] {g : Genome W} {netId : Int} {net : Net W} (h : genesis g netId = .ok net) :
    SolverMod.ctrlUnread net = true := by
  obtain ⟨tbl, cs, hl, hc, rfl, _, _⟩ := genesis_ok h
  have hlen : tbl.length = g.nodes.length := by rw [length_linkGenes _ _ _ _ hl]; simp
  unfold SolverMod.ctrlUnread
  simp only [Bool.and_eq_true, List.all_eq_true, Bool.or_eq_true, Bool.not_eq_true', decide_eq_true_eq, hlen]
  refine ⟨⟨fun nd hnd => Or.inr (fun l hlk => ?_), ctrlNodes_src_lt _ _ _ _ hc⟩, fun o ho => ?_⟩
  · obtain ⟨i, hi, hget⟩ := List.getElem_of_mem hnd
    have hspec := linkGenes_spec g.nodes g.genes _ _ hl i
    rw [List.getElem?_eq_getElem hi, hget] at hspec
    have hi' : i < g.nodes.length := by omega
    simp only [List.getElem?_map, List.getElem?_eq_getElem hi', Option.map_some, Option.some.injEq] at hspec
    rw [hspec] at hlk
    simp only [withLinks, copyNode, List.nil_append, into, List.mem_filter, List.mem_filterMap] at hlk
    obtain ⟨⟨x, _, hx⟩, _⟩ := hlk
    unfold expr at hx
    split at hx
    · exact (geneLink_lt hx).1
    · cases hx
  · have := positions_lt _ g.nodes 0 o ho
    omega

end GoNeat.Genesis
