/-
  C16(b): the thread-local obligation of a whole species goroutine (`reproduceSpeciesP`, Model/ParEpoch.lean).
  Mating, duplication and the parametric mutators do not touch the registry: per thread they are the sequential
  lemmas of C01 (`dup_closed`, `child_closed`, `nonstructural_closed`, …) and C03 (`duplicate_binds`, `mate_from`,
  `mutateAllNonstructural_sameBinds`) against the STATIC registry and pool of the epoch's start; the structural
  mutations are `mutKind_valid` (Proofs/ParFrameMut.lean).

  Postcondition of a goroutine (`SpeciesPost`): it delivers exactly its quota of babies; every baby genome is well-formed
  (`WFT`), is a structural step (`LStep`) of a genome that fits the pool of the epoch's start (`Fits reg0 P0`), and
  its bindings are in the thread's view.
-/
import GoNeat.Proofs.ParFrameMut
import GoNeat.Proofs.ParFrameAtomic
import GoNeat.Proofs.EpochRegistry

set_option linter.unusedSectionVars false
set_option linter.unusedVariables false

namespace GoNeat.C16
open GoNeat GoNeat.C03 GoNeat.C01 Scalar
variable {W : Type} [Scalar W]

/-! ### steps that keep all bindings -/

theorem head_of_gb {g g' : Genome W} (hb : gb g' = gb g) : g'.genes.head?.map (·.inn) = g.genes.head?.map (·.inn) := by
  have h1 : ∀ l : List (Gene W), (l.map geneBind).head?.map (·.1) = l.head?.map (·.inn) := by
    intro l; cases l <;> rfl
  rw [← h1, ← h1]
  show (gb g').head?.map _ = (gb g).head?.map _
  rw [hb]

theorem lstep_of_same {g g' : Genome W} (hb : gb g' = gb g) (hr : gr g' = gr g) (ht : traitIds g' = traitIds g)
    (hm : g'.modules = g.modules) : LStep g g' := by
  refine ⟨fun b h => hb ▸ h, fun n hn => ?_, fun m hm' => ?_, ht, head_of_gb hb, hm⟩
  · have : nodeRole n ∈ gr g' := hr ▸ List.mem_map_of_mem hn
    obtain ⟨m, hm', e⟩ := List.mem_map.mp this
    simp only [nodeRole, Prod.mk.injEq] at e
    exact ⟨m, hm', e.1, e.2⟩
  · have : nodeRole m ∈ gr g := hr ▸ List.mem_map_of_mem hm'
    obtain ⟨n, hn, e⟩ := List.mem_map.mp this
    simp only [nodeRole, Prod.mk.injEq] at e
    exact .inl ⟨n, hn, e.1, e.2⟩

theorem holds_congr {L : Local W} {g g' : Genome W} (h : Holds L g) (hb : gb g' = gb g) (hr : gr g' = gr g) : Holds L g' := by
  refine ⟨fun x hx => ?_, fun n hn => ?_⟩
  · have : geneBind x ∈ gb g := hb ▸ List.mem_map_of_mem hx
    obtain ⟨y, hy, e⟩ := List.mem_map.mp this
    rw [← e]; exact h.B y hy
  · have : nodeRole n ∈ gr g := hr ▸ List.mem_map_of_mem hn
    obtain ⟨y, hy, e⟩ := List.mem_map.mp this
    rw [← e]; exact h.R y hy

theorem ViewExt.congr {L L' : Local W} {g g' : Genome W} (h : ViewExt L L' g) (hb : gb g' = gb g) (hr : gr g' = gr g) :
    ViewExt L L' g' :=
  ⟨h.subB, h.subR, (holds_congr h.holds hb hr).B, (holds_congr h.holds hb hr).R,
   fun b hb' => (h.exactB b hb').elim .inl (fun h' => .inr (hb ▸ h')),
   fun p hp => (h.exactR p hp).elim .inl (fun h' => .inr (hr ▸ h'))⟩

/-! ### the static context of an epoch and what a thread knows about a genome -/

/-- the registry `reg0` and the population's genomes `P0` at the start of the parallel phase, inside the history `H` -/
structure EpochCtx (reg0 : Reg W) (H P0 : List (Genome W)) : Prop where
  inv : C03.Inv reg0 H
  pool : PoolOk reg0 P0
  cov : ∀ g ∈ P0, GenomeIn H g

/-- the view contains the bindings of the whole history -/
def Base (H : List (Genome W)) (L : Local W) : Prop := (∀ b ∈ binds H, b ∈ L.B) ∧ (∀ p ∈ roles H, p ∈ L.R)

def ViewGrow (L L' : Local W) : Prop := (∀ b ∈ L.B, b ∈ L'.B) ∧ (∀ p ∈ L.R, p ∈ L'.R)

theorem ViewGrow.refl (L : Local W) : ViewGrow L L := ⟨fun _ h => h, fun _ h => h⟩
theorem ViewGrow.trans {a b c : Local W} (h1 : ViewGrow a b) (h2 : ViewGrow b c) : ViewGrow a c :=
  ⟨fun x hx => h2.1 x (h1.1 x hx), fun x hx => h2.2 x (h1.2 x hx)⟩
theorem ViewExt.grow {L L' : Local W} {g : Genome W} (h : ViewExt L L' g) : ViewGrow L L' := ⟨h.subB, h.subR⟩
theorem Base.mono {H : List (Genome W)} {L L' : Local W} (h : Base H L) (hg : ViewGrow L L') : Base H L' :=
  ⟨fun b hb => hg.1 b (h.1 b hb), fun p hp => hg.2 p (h.2 p hp)⟩
theorem Holds.mono {L L' : Local W} {g : Genome W} (h : Holds L g) (hg : ViewGrow L L') : Holds L' g :=
  ⟨fun x hx => hg.1 _ (h.B x hx), fun n hn => hg.2 _ (h.R n hn)⟩

/-- a genome a thread has made: well-formed, a structural step of a genome that fits the start pool, held in the view -/
structure GenOk (reg0 : Reg W) (P0 : List (Genome W)) (L : Local W) (g1 : Genome W) : Prop where
  wft : WFT g1
  src : ∃ g0, Fits reg0 P0 g0 ∧ LStep g0 g1
  wit : ∃ x, x ∈ P0
  holds : Holds L g1

theorem GenOk.mono {reg0 : Reg W} {P0 : List (Genome W)} {L L' : Local W} {g : Genome W} (h : GenOk reg0 P0 L g)
    (hg : ViewGrow L L') : GenOk reg0 P0 L' g := ⟨h.wft, h.src, h.wit, h.holds.mono hg⟩

theorem GenOk.of_fits {reg0 : Reg W} {P0 : List (Genome W)} {L : Local W} {g x : Genome W} (hx : x ∈ P0)
    (hf : Fits reg0 P0 g) (hh : Holds L g) : GenOk reg0 P0 L g := ⟨hf.wft, ⟨g, hf, LStep.refl g⟩, ⟨x, hx⟩, hh⟩

theorem fits_headLe {reg0 : Reg W} {P0 : List (Genome W)} {g : Genome W} (hf : Fits reg0 P0 g) : HeadLe reg0.nextInn g :=
  fun h0 h0m => hf.rinv.above.1 h0 (List.mem_of_mem_take h0m)

theorem holds_of_mem {H : List (Genome W)} {L : Local W} (hb : Base H L) {g : Genome W} (hg : GenomeIn H g) : Holds L g :=
  ⟨fun x hx => hb.1 _ (hg.1 _ (List.mem_map_of_mem hx)), fun n hn => hb.2 _ (hg.2 _ (List.mem_map_of_mem hn))⟩

theorem dup_ok {reg0 : Reg W} {P0 : List (Genome W)} {L : Local W} {g d : Genome W} (id : Int) (hf : Fits reg0 P0 g)
    (hh : Holds L g) (h : g.duplicate id = .ok d) : Fits reg0 P0 d ∧ Holds L d := by
  obtain ⟨e1, e2⟩ := duplicate_binds g d id h
  exact ⟨dup_closed id hf h, holds_congr hh e1 e2⟩

/-! ### the mutation chain of a baby -/

theorem flagTrue_valid {bi : Int} {g0 : Genome W} {L L' : Local W} (r : MRes W) (hp : MutPost g0 L L' r) :
    PValid bi (MutPost g0 L) L' (flagTrue r) := by
  unfold flagTrue
  split
  · exact .done trivial
  · exact .done hp

theorem structStageP_valid {bi : Int} (o : EpochOpts W) (g0 : Genome W) (f1 : W) (rs1 : List Nat) (L : Local W)
    (hw : WFT g0) (hh : Holds L g0) (hd : HeadLe bi g0) : PValid bi (MutPost g0 L) L (structStageP o g0 f1 rs1) := by
  unfold structStageP
  split
  · exact (mutateAddNodeP_valid g0 o.mopts rs1 L hw hh hd).bind (fun L' r hp => flagTrue_valid r hp)
  split
  · exact .done trivial
  split
  · exact (mutateAddLinkP_valid g0 o.mopts _ L hw hh hd).bind (fun L' r hp => flagTrue_valid r hp)
  split
  · exact .done trivial
  split
  · exact mutateConnectSensorsP_valid g0 _ L hw hh hd
  · exact .done ⟨hw, LStep.refl g0, ViewExt.of_holds hh rfl rfl⟩

theorem paramStage_valid {bi : Int} (o : EpochOpts W) {g0 : Genome W} {L L' : Local W} (r : MRes W) (hp : MutPost g0 L L' r) :
    PValid bi (MutPost g0 L) L' (paramStage o r) := by
  unfold paramStage
  split
  · exact .done trivial
  · exact .done hp
  · rename_i g' rs'
    obtain ⟨hw', hs', hv'⟩ := hp
    split
    · exact .done trivial
    · rename_i g'' rs'' hns
      obtain ⟨w, _, _, hsk⟩ := mutateAllNonstructural_wf g' g'' o.mopts rs' rs'' hw' hns
      obtain ⟨e1, e2⟩ := mutateAllNonstructural_sameBinds g' g'' o.mopts rs' rs'' hns
      exact .done ⟨w, hs'.trans (lstep_of_same e1 e2 hsk.tids hsk.mods), hv'.congr e1 e2⟩

theorem mutateBabyP_valid {bi : Int} (o : EpochOpts W) (g0 : Genome W) (rs : List Nat) (L : Local W)
    (hw : WFT g0) (hh : Holds L g0) (hd : HeadLe bi g0) : PValid bi (MutPost g0 L) L (mutateBabyP o g0 rs) := by
  unfold mutateBabyP
  split
  · exact .done trivial
  · exact (structStageP_valid o g0 _ _ L hw hh hd).bind (fun L' r hp => paramStage_valid o r hp)

/-- from the mutator postcondition to `GenOk` -/
theorem genOk_of_post {reg0 : Reg W} {P0 : List (Genome W)} {L L' : Local W} {g0 g1 x : Genome W} {b : Bool} {rs' : List Nat}
    (hx : x ∈ P0) (hf : Fits reg0 P0 g0) (hp : MutPost g0 L L' (.ok ((g1, b), rs'))) : GenOk reg0 P0 L' g1 ∧ ViewGrow L L' :=
  ⟨⟨hp.1, ⟨g0, hf, hp.2.1⟩, ⟨x, hx⟩, hp.2.2.holds⟩, hp.2.2.grow⟩

/-! ### one offspring -/

def StOk (reg0 : Reg W) (P0 : List (Genome W)) (L : Local W) (st : ReproState W) : Prop :=
  ∀ b ∈ st.babies, GenOk reg0 P0 L b.genome

def OnePost (reg0 : Reg W) (P0 : List (Genome W)) (L : Local W) (st : ReproState W) (L' : Local W) (r : SRes W) : Prop :=
  match r with
  | .error _ => True
  | .ok (st', _) => ViewGrow L L' ∧ StOk reg0 P0 L' st' ∧ st'.babies.length = st.babies.length + 1

theorem stOk_finish {reg0 : Reg W} {P0 : List (Genome W)} {L L' : Local W} {st : ReproState W} (hst : StOk reg0 P0 L st)
    (hg : ViewGrow L L') {g1 : Genome W} (h1 : GenOk reg0 P0 L' g1) (generation : Int) (a b c : Bool) (hf : W) :
    StOk reg0 P0 L' (finishP generation g1 a b c hf st) ∧
    (finishP generation g1 a b c hf st).babies.length = st.babies.length + 1 := by
  refine ⟨fun x hx => ?_, by simp [finishP]⟩
  simp only [finishP, List.mem_append, List.mem_singleton] at hx
  rcases hx with hx | rfl
  · exact (hst x hx).mono hg
  · exact h1

theorem superChampMutP_valid {bi : Int} (o : EpochOpts W) (g0 : Genome W) (sc : Int) (rs : List Nat) (L : Local W)
    (hw : WFT g0) (hh : Holds L g0) (hd : HeadLe bi g0) : PValid bi (MutPost g0 L) L (superChampMutP o g0 sc rs) := by
  unfold superChampMutP
  split
  · split
    · exact .done trivial
    split
    · split
      · exact .done trivial
      · rename_i g1 rs2 hlw
        obtain ⟨w, _, _, hsk⟩ := mutateLinkWeights_wf g0 g1 _ _ _ _ rs2 hw hlw
        obtain ⟨e1, e2⟩ := (parametric_sameBinds g0 g1 o.mopts _ _ _ 0 _ rs2).1 hlw
        exact .done ⟨w, lstep_of_same e1 e2 hsk.tids hsk.mods, (ViewExt.of_holds hh rfl rfl).congr e1 e2⟩
    · exact (mutateAddLinkP_valid g0 o.mopts _ L hw hh hd).bind (fun L' r hp => flagTrue_valid r hp)
  · exact .done ⟨hw, LStep.refl g0, ViewExt.of_holds hh rfl rfl⟩

theorem pickDad_mem (o : EpochOpts W) (s : Species W) (sorted : List (Species W)) (f2 : W) (rs3 rs4 : List Nat) (dad : Org W)
    (P0 : List (Genome W)) (hs : ∀ x ∈ s.orgs, x.genome ∈ P0) (hsorted : ∀ sp ∈ sorted, ∀ x ∈ sp.orgs, x.genome ∈ P0)
    (hd : pickDad o s sorted f2 rs3 = .ok (dad, rs4)) : dad.genome ∈ P0 := by
  unfold pickDad at hd
  split at hd
  · split at hd
    · cases hd
    · split at hd
      · cases hd
      · rename_i d hk2
        simp only [Except.ok.injEq, Prod.mk.injEq] at hd
        obtain ⟨rfl, _⟩ := hd
        exact hs _ (List.mem_of_getElem? hk2)
  · split at hd
    · cases hd
    · rename_i sp rs4' hpick
      split at hd
      · cases hd
      · rename_i d hhead
        simp only [Except.ok.injEq, Prod.mk.injEq] at hd
        obtain ⟨rfl, _⟩ := hd
        have hdm : d ∈ sp.orgs := List.mem_of_mem_head? hhead
        rcases C01.pickOtherSpecies_mem s sorted 5 s sp rs3 rs4' hpick with rfl | hsp
        · exact hs d hdm
        · exact hsorted sp hsp d hdm

theorem mateChild_ok {reg0 : Reg W} {H P0 : List (Genome W)} (ctx : EpochCtx reg0 H P0) {L : Local W} (hb : Base H L)
    (o : EpochOpts W) (mom dad : Org W) (count : Int) (f3 : W) (rs5 rs7 : List Nat) (child : Genome W)
    (hm : mom.genome ∈ P0) (hd : dad.genome ∈ P0) (hc : mateChild o mom dad count f3 rs5 = .ok (child, rs7)) :
    Fits reg0 P0 child ∧ Holds L child := by
  have fm := ctx.pool _ hm
  have fd := ctx.pool _ hd
  have hl : NodeLineage mom.genome dad.genome := fm.nodes _ hd
  have hh : SharedHead mom.genome dad.genome := fm.head _ hd
  have hp1 : ∀ b ∈ mom.genome.genes.map geneBind, b ∈ binds H := (ctx.cov _ hm).1
  have hq1 : ∀ r ∈ mom.genome.nodes.map nodeRole, r ∈ roles H := (ctx.cov _ hm).2
  have hp2 : ∀ b ∈ dad.genome.genes.map geneBind, b ∈ binds H := (ctx.cov _ hd).1
  have hq2 : ∀ r ∈ dad.genome.nodes.map nodeRole, r ∈ roles H := (ctx.cov _ hd).2
  have hold : ∀ {c : Genome W}, ((∀ b ∈ c.genes.map geneBind, b ∈ binds H) ∧ (∀ r ∈ c.nodes.map nodeRole, r ∈ roles H)) →
      Holds L c := fun h => ⟨fun x hx => hb.1 _ (h.1 _ (List.mem_map_of_mem hx)), fun n hn => hb.2 _ (h.2 _ (List.mem_map_of_mem hn))⟩
  unfold mateChild at hc
  split at hc
  · obtain ⟨m1, _, _⟩ := mate_from ctx.inv.genes mom.genome dad.genome count mom.originalFitness dad.originalFitness
      rs5 rs7 child hp1 hq1 hp2 hq2
    exact ⟨child_closed fm fd hl hh (mateMultipoint_out _ _ _ _ _ _ _ _ fm.wft fd.wft hc), hold (m1 hc)⟩
  · split at hc
    · cases hc
    · rename_i f4 rs6 _
      obtain ⟨_, m2, m3⟩ := mate_from ctx.inv.genes mom.genome dad.genome count mom.originalFitness dad.originalFitness
        rs6 rs7 child hp1 hq1 hp2 hq2
      split at hc
      · exact ⟨child_closed fm fd hl hh (mateMultipointAvg_out _ _ _ _ _ _ _ _ fm.wft fd.wft hc), hold (m2 hc)⟩
      · exact ⟨child_closed fm fd hl hh (mateSinglePoint_out _ _ _ _ _ _ fm.wft fd.wft hc), hold (m3 hc)⟩

theorem reproduceOneP_valid {reg0 : Reg W} {H P0 : List (Genome W)} (ctx : EpochCtx reg0 H P0) (o : EpochOpts W)
    (generation : Int) (s : Species W) (sorted : List (Species W)) (champ : Org W) (count : Int) (st : ReproState W)
    (rs : List Nat) (L : Local W) (hchamp : champ.genome ∈ P0) (hs : ∀ x ∈ s.orgs, x.genome ∈ P0)
    (hsorted : ∀ sp ∈ sorted, ∀ x ∈ sp.orgs, x.genome ∈ P0) (hb : Base H L) (hst : StOk reg0 P0 L st) :
    PValid reg0.nextInn (OnePost reg0 P0 L st) L (reproduceOneP o generation s sorted champ count st rs) := by
  have hin : ∀ g ∈ P0, Fits reg0 P0 g ∧ Holds L g := fun g hg => ⟨ctx.pool g hg, holds_of_mem hb (ctx.cov g hg)⟩
  -- a mutated baby genome finishes the offspring
  have fin : ∀ {g0 : Genome W} (hf : Fits reg0 P0 g0) {L' : Local W} {g1 : Genome W} {ms : Bool} {rs' : List Nat}
      (hp : MutPost g0 L L' (.ok ((g1, ms), rs'))) (a b c : Bool) (hfit : W),
      ViewGrow L L' ∧ StOk reg0 P0 L' (finishP generation g1 a b c hfit st) ∧
        (finishP generation g1 a b c hfit st).babies.length = st.babies.length + 1 := by
    intro g0 hf L' g1 ms rs' hp a b c hfit
    obtain ⟨hgo, hgr⟩ := genOk_of_post hchamp hf hp
    exact ⟨hgr, stOk_finish hst hgr hgo generation a b c hfit⟩
  unfold reproduceOneP
  simp only
  split
  · split
    · exact .done trivial
    · rename_i g0 hd
      obtain ⟨f0, h0⟩ := dup_ok count (hin _ hchamp).1 (hin _ hchamp).2 hd
      refine (superChampMutP_valid o g0 st.superChamp rs L f0.wft h0 (fits_headLe f0)).bind (fun L' r hp => ?_)
      split
      · exact .done trivial
      · rename_i g1 ms rs'
        have := fin f0 hp ms false (st.superChamp == 1 && champ.isPopChampion)
          (if (st.superChamp == 1 && champ.isPopChampion) = true then champ.originalFitness else zero)
        exact .done ⟨this.1, this.2.1, this.2.2⟩
  · split
    · split
      · exact .done trivial
      · rename_i g0 hd
        obtain ⟨f0, h0⟩ := dup_ok count (hin _ hchamp).1 (hin _ hchamp).2 hd
        obtain ⟨h1, h2⟩ := stOk_finish hst (ViewGrow.refl L) (GenOk.of_fits hchamp f0 h0) generation false false false zero
        exact .done ⟨ViewGrow.refl L, h1, h2⟩
    · split
      · exact .done trivial
      · rename_i f rs1 _
        split
        · split
          · exact .done trivial
          rename_i k rs2 _
          split
          · exact .done trivial
          rename_i mom hmom
          have hm : mom.genome ∈ P0 := hs mom (List.mem_of_getElem? hmom)
          split
          · exact .done trivial
          rename_i g0 hd
          obtain ⟨f0, h0⟩ := dup_ok count (hin _ hm).1 (hin _ hm).2 hd
          refine (mutateBabyP_valid o g0 rs2 L f0.wft h0 (fits_headLe f0)).bind (fun L' r hp => ?_)
          split
          · exact .done trivial
          · exact .done (fin f0 hp _ _ _ _)
        · split
          · exact .done trivial
          rename_i k rs2 _
          split
          · exact .done trivial
          rename_i mom hmom
          have hm : mom.genome ∈ P0 := hs mom (List.mem_of_getElem? hmom)
          split
          · exact .done trivial
          rename_i f2 rs3 _
          split
          · exact .done trivial
          rename_i dad rs4 hdad
          have hdm := pickDad_mem o s sorted f2 rs3 rs4 dad P0 hs hsorted hdad
          split
          · exact .done trivial
          rename_i f3 rs5 _
          split
          · exact .done trivial
          rename_i child rs7 hc
          obtain ⟨fc, hcH⟩ := mateChild_ok ctx hb o mom dad count f3 rs5 rs7 child hm hdm hc
          split
          · exact .done trivial
          rename_i f5 rs8 _
          split
          · refine (mutateBabyP_valid o child rs8 L fc.wft hcH (fits_headLe fc)).bind (fun L' r hp => ?_)
            split
            · exact .done trivial
            · exact .done (fin fc hp _ _ _ _)
          · obtain ⟨h1, h2⟩ := stOk_finish hst (ViewGrow.refl L) (GenOk.of_fits hchamp fc hcH) generation false true false zero
            exact .done ⟨ViewGrow.refl L, h1, h2⟩

/-! ### the whole goroutine -/

def LoopPost (reg0 : Reg W) (P0 : List (Genome W)) (L : Local W) (st : ReproState W) (n : Nat) (L' : Local W) (r : SRes W) : Prop :=
  match r with
  | .error _ => True
  | .ok (st', _) => ViewGrow L L' ∧ StOk reg0 P0 L' st' ∧ st'.babies.length = st.babies.length + n

theorem reproduceLoopP_valid {reg0 : Reg W} {H P0 : List (Genome W)} (ctx : EpochCtx reg0 H P0) (o : EpochOpts W)
    (generation : Int) (s : Species W) (sorted : List (Species W)) (champ : Org W) (hchamp : champ.genome ∈ P0)
    (hs : ∀ x ∈ s.orgs, x.genome ∈ P0) (hsorted : ∀ sp ∈ sorted, ∀ x ∈ sp.orgs, x.genome ∈ P0) (n : Nat) :
    ∀ (count : Int) (st : ReproState W) (rs : List Nat) (L : Local W), Base H L → StOk reg0 P0 L st →
      PValid reg0.nextInn (LoopPost reg0 P0 L st n) L (reproduceLoopP o generation s sorted champ n count st rs) := by
  induction n with
  | zero =>
    intro count st rs L hb hst
    exact .done ⟨ViewGrow.refl L, hst, rfl⟩
  | succ n ih =>
    intro count st rs L hb hst
    unfold reproduceLoopP
    refine (reproduceOneP_valid ctx o generation s sorted champ count st rs L hchamp hs hsorted hb hst).bind
      (fun L' r hp => ?_)
    split
    · exact .done trivial
    · rename_i st' rs'
      obtain ⟨hg, hst', hlen⟩ := hp
      refine (ih (count + 1) st' rs' L' (hb.mono hg) hst').mono (fun L'' r' hp' => ?_)
      unfold LoopPost at hp' ⊢
      split
      · trivial
      · rename_i st'' _
        simp only at hp'
        exact ⟨hg.trans hp'.1, hp'.2.1, by rw [hp'.2.2, hlen]; omega⟩

/-- postcondition of a species goroutine: exactly `quota` babies, each `GenOk` -/
def SpeciesPost (reg0 : Reg W) (P0 : List (Genome W)) (quota : Nat) (L : Local W) (L' : Local W) (r : BRes W) : Prop :=
  match r with
  | .error _ => True
  | .ok ((babies, _), _) => ViewGrow L L' ∧ (∀ b ∈ babies, GenOk reg0 P0 L' b.genome) ∧ babies.length = quota

theorem reproduceSpeciesP_valid {reg0 : Reg W} {H P0 : List (Genome W)} (ctx : EpochCtx reg0 H P0) (o : EpochOpts W)
    (generation : Int) (s : Species W) (sorted : List (Species W)) (r0 : Reg W) (uid : Nat) (rs : List Nat) (L : Local W)
    (hs : ∀ x ∈ s.orgs, x.genome ∈ P0) (hsorted : ∀ sp ∈ sorted, ∀ x ∈ sp.orgs, x.genome ∈ P0) (hb : Base H L) :
    PValid reg0.nextInn (SpeciesPost reg0 P0 s.expectedOffspring.toNat L) L
      (reproduceSpeciesP o generation s sorted r0 uid rs) := by
  unfold reproduceSpeciesP
  split
  · split <;> exact .done trivial
  · rename_i champ hchamp
    simp only
    refine (reproduceLoopP_valid ctx o generation s sorted champ (hs champ (List.mem_of_mem_head? hchamp)) hs hsorted
      s.expectedOffspring.toNat 0 _ rs L hb (fun b hb' => by simp at hb')).bind (fun L' r hp => ?_)
    split
    · exact .done trivial
    · rename_i st rs'
      obtain ⟨hg, hst, hlen⟩ := hp
      exact .done ⟨hg, hst, by simpa using hlen⟩

end GoNeat.C16
