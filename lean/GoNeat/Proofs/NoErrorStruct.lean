/-
  C02 "without error": the three structural mutators (`mutateConnectSensors`, `mutateAddLink`, `mutateAddNode`) never
  return an implementation error, given
    * a gene, an output node, a trait; node ids pairwise distinct (`NodesSorted`);
    * `RecTraits T reg`: every link record of the innovation registry names a trait index below the common trait
      count `T` (new invariant; records are written with `rand.Intn(len(g.Traits))`, and all genomes of a population
      have the same number of traits);
    * `ActOk o`: the node-activator table of the options is usable (one activator, or as many probabilities as
      activators with a non-negative total) together with the float fact `UnitMulLe` (a draw `f < 1` times a
      non-negative total does not exceed the total).
  Each lemma also returns `RecTraits` for the registry after the step and that the trait list is untouched.
  Kind A (the float fact is an explicit hypothesis; proved for exact arithmetic in Props/C02NoErrorExact.lean).
-/
import GoNeat.Proofs.NoErrorParam

set_option linter.unusedSectionVars false

namespace GoNeat.NoErr
open GoNeat Scalar
variable {W : Type} [Scalar W]

/-- every link record names a valid trait index -/
def RecTraits (T : Nat) (reg : Reg W) : Prop := ∀ i ∈ reg.records, i.typ = 2 → 0 ≤ i.traitNum ∧ i.traitNum.toNat < T
instance (T : Nat) (reg : Reg W) : Decidable (RecTraits T reg) := by unfold RecTraits; infer_instance

theorem RecTraits.store {T : Nat} {reg reg1 : Reg W} (h : RecTraits T reg) (he : reg1.records = reg.records) (i : Innov W)
    (hi : i.typ = 2 → 0 ≤ i.traitNum ∧ i.traitNum.toNat < T) : RecTraits T (reg1.store i) := by
  intro j hj
  simp only [Reg.store, he, List.mem_append, List.mem_singleton] at hj
  rcases hj with hj | rfl
  · exact h j hj
  · exact hi

/-- float fact used by `SingleRouletteThrow`: a draw below one times a non-negative total is at most the total -/
def UnitMulLe (W : Type) [Scalar W] : Prop :=
  ∀ (x : Nat) (t : W), x < 2 ^ 63 → eq (ofUnit63 x : W) one = false → le zero t = true → le (mul (ofUnit63 x) t) t = true

/-- the activator table of the options can be drawn from -/
def ActOk (o : MutOpts W) : Prop :=
  o.activators.length = 1 ∨
  (2 ≤ o.activators.length ∧ o.activators.length = o.activatorProbs.length ∧ le zero (o.activatorProbs.foldl add zero) = true)
instance (o : MutOpts W) : Decidable (ActOk o) := by unfold ActOk; infer_instance

theorem safe_newLinkWeight (rs : List Nat) : Safe (fun _ => True) (newLinkWeight (W := W) rs) := by
  unfold newLinkWeight
  have h := safe_signedUnit (W := W) rs
  split
  · next e he => rw [he] at h; exact h.of_error
  · trivial

theorem rouletteScan_some (t : W) (vs : List W) (acc : W) (i : Nat) (hne : vs ≠ []) (h : le t (vs.foldl add acc) = true) :
    ∃ k, rouletteScan t vs acc i = some k ∧ k < i + vs.length := by
  induction vs generalizing acc i with
  | nil => exact absurd rfl hne
  | cons v vs ih =>
    unfold rouletteScan
    simp only
    split
    · exact ⟨i, rfl, by simp⟩
    · next hle =>
      cases vs with
      | nil => simp only [List.foldl_cons, List.foldl_nil] at h; exact absurd h hle
      | cons v2 vs2 =>
        obtain ⟨k, hk, hlt⟩ := ih (add acc v) (i + 1) (by simp) (by simpa using h)
        exact ⟨k, hk, by simp only [List.length_cons] at hlt ⊢; omega⟩

theorem safe_randomNodeActivationType (hlaw : UnitMulLe W) (o : MutOpts W) (ha : ActOk o) (rs : List Nat) (hv : Valid rs) :
    Safe (fun _ => True) (randomNodeActivationType o rs) := by
  unfold randomNodeActivationType
  split
  · next h0 => rcases ha with h | ⟨h, _⟩ <;> simp [h0] at h
  · trivial
  · next hn0 hn1 =>
    rcases ha with h | ⟨h2, hlen, htot⟩
    · exfalso
      match hacts : o.activators, h with
      | [a], _ => exact hn1 a hacts
    · rw [if_neg (by simpa using hlen)]
      unfold singleRouletteThrow
      simp only
      have hf := safe_float64 (W := W) rs
      split
      · next e he =>
        split at he
        · next e' he' => cases he; rw [he'] at hf; exact hf.of_error
        · cases he
      · next rs' he =>
        exfalso
        split at he
        · cases he
        · next f rs1 hf1 =>
          rw [hf1] at hf
          obtain ⟨x, hxm, rfl, hx⟩ := hf
          have hne : o.activatorProbs ≠ [] := by
            intro hnil; have hl0 := hlen; rw [hnil] at hl0; simp only [List.length_nil] at hl0; omega
          obtain ⟨k, hk, _⟩ := rouletteScan_some (mul (ofUnit63 x) (o.activatorProbs.foldl add zero)) o.activatorProbs zero 0 hne
            (hlaw x _ (hv x hxm) hx htot)
          simp only [Except.ok.injEq, Prod.mk.injEq] at he
          rw [hk] at he; exact absurd he.1 (by simp)
      · next i rs' he =>
        split
        · next hnone =>
          exfalso
          split at he
          · cases he
          · next f rs1 hf1 =>
            rw [hf1] at hf
            obtain ⟨x, hxm, rfl, hx⟩ := hf
            have hne : o.activatorProbs ≠ [] := by
              intro hnil; have hl0 := hlen; rw [hnil] at hl0; simp only [List.length_nil] at hl0; omega
            obtain ⟨k, hk, hlt⟩ := rouletteScan_some (mul (ofUnit63 x) (o.activatorProbs.foldl add zero)) o.activatorProbs zero 0 hne
              (hlaw x _ (hv x hxm) hx htot)
            simp only [Except.ok.injEq, Prod.mk.injEq] at he
            rw [hk] at he
            have : k = i := by simpa using he.1
            subst this
            rw [List.getElem?_eq_none_iff] at hnone
            omega
        · trivial

/-! ### mutateConnectSensors -/

/-- postcondition of a structural mutation: registry still names valid trait indices, trait list untouched -/
def StructPost (g : Genome W) (r : Genome W × Reg W × Bool) : Prop :=
  RecTraits g.traits.length r.2.1 ∧ r.1.traits = g.traits

theorem find_rec (reg : Reg W) (p : Innov W → Bool) (inn : Innov W) (h : reg.records.find? p = some inn) :
    inn ∈ reg.records ∧ p inn = true := ⟨List.mem_of_find?_eq_some h, List.find?_some h⟩

theorem safe_connectOne (sensor output : Node) (g : Genome W) (reg : Reg W) (added : Bool) (rs : List Nat)
    (ht : g.traits ≠ []) (hr : RecTraits g.traits.length reg) :
    Safe (fun r => ∀ x, r = some x → StructPost g x) (connectOne sensor output g reg added rs) := by
  unfold connectOne
  split
  · intro x hx; cases hx; exact ⟨hr, rfl⟩
  · split
    · next inn hfind =>
      obtain ⟨hmem, hp⟩ := find_rec reg _ inn hfind
      have htyp : inn.typ = 2 := by simp only [Bool.and_eq_true, beq_iff_eq] at hp; exact hp.1.1.1
      have h3 := traitAt_safe g inn.traitNum (hr inn hmem htyp).1 (hr inn hmem htyp).2
      split
      · next e he => rw [he] at h3; exact h3.of_error
      · next tr he =>
        simp only
        split
        · intro x hx; cases hx
        · intro x hx; cases hx; exact ⟨hr, rfl⟩
    · have h1 := safe_intn g.traits.length (List.length_pos_iff.mpr ht) rs
      split
      · next e he => rw [he] at h1; exact h1.of_error
      · next traitNum rs1 he =>
        rw [he] at h1
        have h2 := safe_newLinkWeight (W := W) rs1
        split
        · next e he2 => rw [he2] at h2; exact h2.of_error
        · next w rs2 he2 =>
          simp only [Reg.nextInnovation]
          have h3 := traitAt_safe_nat g traitNum h1
          split
          · next e he3 => rw [he3] at h3; exact h3.of_error
          · next tr he3 =>
            intro x hx; cases hx
            have hk : traitNum < g.traits.length := h1
            refine ⟨hr.store rfl _ (fun _ => ⟨by simp, by simpa using hk⟩), rfl⟩

theorem safe_connectLoop (sensor : Node) (outs : List Node) (g : Genome W) (reg : Reg W) (added : Bool) (rs : List Nat)
    (ht : g.traits ≠ []) (hr : RecTraits g.traits.length reg) :
    Safe (StructPost g) (connectLoop sensor outs g reg added rs) := by
  induction outs generalizing g reg added rs with
  | nil => unfold connectLoop; exact ⟨hr, rfl⟩
  | cons o os ih =>
    unfold connectLoop
    have h1 := safe_connectOne sensor o g reg added rs ht hr
    split
    · next e he => rw [he] at h1; exact h1.of_error
    · exact ⟨hr, rfl⟩
    · next g' reg' added' rs' he =>
      rw [he] at h1
      obtain ⟨hr', htr⟩ := (h1 : ∀ x, _ → StructPost g x) _ rfl
      simp only at hr' htr
      have := ih g' reg' added' rs' (by rw [htr]; exact ht) (by rw [htr]; exact hr')
      refine this.mono (fun a ha => ?_)
      unfold StructPost at ha ⊢
      rw [htr] at ha; exact ha

theorem safe_mutateConnectSensors (g : Genome W) (reg : Reg W) (rs : List Nat)
    (hg : g.genes ≠ []) (ht : g.traits ≠ []) (hr : RecTraits g.traits.length reg) :
    Safe (StructPost g) (mutateConnectSensors g reg rs) := by
  unfold mutateConnectSensors
  rw [if_neg (by simpa using hg)]
  simp only
  split
  · exact ⟨hr, rfl⟩
  · next hne =>
    have hpos : 0 < ((g.nodes.filter (·.isSensor)).filter (fun s => !g.genes.any (fun x => x.src == s.id))).length := by
      apply List.length_pos_iff.mpr; intro h; simp [h] at hne
    have h1 := safe_intn _ hpos rs
    split
    · next e he => rw [he] at h1; exact h1.of_error
    · next k rs1 he =>
      rw [he] at h1
      split
      · next hn => rw [List.getElem?_eq_none_iff] at hn; have : k < _ := h1; omega
      · exact safe_connectLoop _ _ g reg false rs1 ht hr

/-! ### mutateAddLink -/

theorem safe_pickDistinct (nodesLen fns : Nat) (h1 : 0 < nodesLen) (h2 : fns < nodesLen) (fuel : Nat) (rs : List Nat) :
    Safe (fun r => r.1 < nodesLen ∧ r.2 < nodesLen ∧ r.1 ≠ r.2) (pickDistinct nodesLen fns fuel rs) := by
  induction fuel generalizing rs with
  | zero => simp [pickDistinct, Safe]
  | succ n ih =>
    unfold pickDistinct
    have ha := safe_intn nodesLen h1 rs
    split
    · next e he => rw [he] at ha; exact ha.of_error
    · next n1 rs1 he =>
      rw [he] at ha
      have hb := safe_intn (nodesLen - fns) (by omega) rs1
      split
      · next e he2 => rw [he2] at hb; exact hb.of_error
      · next k rs2 he2 =>
        rw [he2] at hb
        simp only
        split
        · exact ih rs2
        · next hne =>
          have hk : k < nodesLen - fns := hb
          exact ⟨ha, by show fns + k < nodesLen; omega, by simpa using hne⟩

theorem safe_pickPair (nodesLen fns : Nat) (h1 : 0 < nodesLen) (h2 : fns < nodesLen) (doRecur : Bool) (rs : List Nat) :
    Safe (fun r => r.1 < nodesLen ∧ r.2 < nodesLen ∧ (doRecur = false → r.1 ≠ r.2)) (pickPair (W := W) nodesLen fns doRecur rs) := by
  unfold pickPair
  split
  · next hd =>
    have hf := safe_float64 (W := W) rs
    split
    · next e he => rw [he] at hf; exact hf.of_error
    · next f rs1 he =>
      split
      · have hb := safe_intn (nodesLen - fns) (by omega) rs1
        split
        · next e he2 => rw [he2] at hb; exact hb.of_error
        · next k rs2 he2 =>
          rw [he2] at hb
          have hk : k < nodesLen - fns := hb
          exact ⟨by show fns + k < nodesLen; omega, by show fns + k < nodesLen; omega, by simp [hd]⟩
      · exact (safe_pickDistinct nodesLen fns h1 h2 _ rs1).mono (fun a ha => ⟨ha.1, ha.2.1, fun _ => ha.2.2⟩)
  · exact (safe_pickDistinct nodesLen fns h1 h2 _ rs).mono (fun a ha => ⟨ha.1, ha.2.1, fun _ => ha.2.2⟩)

/-- the pair found by the search loop consists of two listed nodes, at different positions unless a recurrent link was asked for -/
def FoundOk (g : Genome W) (doRecur : Bool) (r : Option (Node × Node) × Bool) : Prop :=
  r.2 = true → ∃ (n1 n2 : Node) (i1 i2 : Nat), r.1 = some (n1, n2) ∧ g.nodes[i1]? = some n1 ∧ g.nodes[i2]? = some n2 ∧ (doRecur = false → i1 ≠ i2)

theorem safe_findOpenLink (g : Genome W) (fns : Nat) (h1 : 0 < g.nodes.length) (h2 : fns < g.nodes.length) (doRecur : Bool)
    (tries : Nat) (last : Option (Node × Node)) (rs : List Nat) :
    Safe (FoundOk g doRecur) (findOpenLink g fns doRecur tries last rs) := by
  induction tries generalizing last rs with
  | zero => unfold findOpenLink; show FoundOk g doRecur _; intro h; cases h
  | succ n ih =>
    unfold findOpenLink
    have hp := safe_pickPair (W := W) g.nodes.length fns h1 h2 doRecur rs
    split
    · next e he => rw [he] at hp; exact hp.of_error
    · next i1 i2 rs1 he =>
      rw [he] at hp
      obtain ⟨hi1, hi2, hne⟩ : i1 < g.nodes.length ∧ i2 < g.nodes.length ∧ (doRecur = false → i1 ≠ i2) := hp
      split
      · next n1 n2 hn1 hn2 =>
        simp only
        split
        · exact ih _ rs1
        · split
          · exact ih _ rs1
          · show FoundOk g doRecur _; intro _; exact ⟨n1, n2, i1, i2, rfl, hn1, hn2, hne⟩
      · next hnone =>
        exfalso
        have a1 : g.nodes[i1]? = some g.nodes[i1] := List.getElem?_eq_getElem hi1
        have a2 : g.nodes[i2]? = some g.nodes[i2] := List.getElem?_eq_getElem hi2
        exact hnone _ _ a1 a2

theorem ids_ne_of_sorted (nodes : List Node) (hs : NodesSorted nodes) {i j : Nat} {a b : Node}
    (hi : nodes[i]? = some a) (hj : nodes[j]? = some b) (hne : i ≠ j) : a.id ≠ b.id := by
  obtain ⟨hi', rfl⟩ := List.getElem?_eq_some_iff.mp hi
  obtain ⟨hj', rfl⟩ := List.getElem?_eq_some_iff.mp hj
  unfold NodesSorted at hs
  rw [List.pairwise_iff_getElem] at hs
  rcases Nat.lt_or_gt_of_ne hne with h | h
  · have := hs i j hi' hj' h; omega
  · have := hs j i hj' hi' h; omega

theorem takeWhile_lt {α} (p : α → Bool) (l : List α) (h : ∃ a ∈ l, p a = false) : (l.takeWhile p).length < l.length := by
  induction l with
  | nil => obtain ⟨a, ha, _⟩ := h; cases ha
  | cons x xs ih =>
    rw [List.takeWhile_cons]
    split
    · next hx =>
      obtain ⟨a, ha, hpa⟩ := h
      rcases List.mem_cons.mp ha with rfl | ha'
      · rw [hx] at hpa; cases hpa
      · have := ih ⟨a, ha', hpa⟩; simp only [List.length_cons]; omega
    · simp

theorem safe_mutateAddLink (g : Genome W) (reg : Reg W) (o : MutOpts W) (rs : List Nat)
    (hg : g.genes ≠ []) (hout : ∃ n ∈ g.nodes, n.kind = Kind.output) (hs : NodesSorted g.nodes)
    (ht : g.traits ≠ []) (hr : RecTraits g.traits.length reg) :
    Safe (StructPost g) (mutateAddLink g reg o rs) := by
  unfold mutateAddLink
  rw [if_neg (by simpa using hg)]
  rw [if_neg (by
    obtain ⟨n, hn, hk⟩ := hout
    simp only [Bool.not_eq_true, Bool.not_eq_false', List.any_eq_true]
    exact ⟨n, hn, by simp [hk]⟩)]
  have hf := safe_float64 (W := W) rs
  split
  · next e he => rw [he] at hf; exact hf.of_error
  · next f rs1 he =>
    simp only
    generalize lt f o.recurOnlyProb = doRecur
    have hfns : (g.nodes.takeWhile (·.isSensor)).length < g.nodes.length := by
      obtain ⟨n, hn, hk⟩ := hout
      exact takeWhile_lt _ _ ⟨n, hn, by simp [Node.isSensor, hk, Kind.output, Kind.input, Kind.bias]⟩
    have hfo := safe_findOpenLink g _ (by omega) hfns doRecur o.newLinkTries none rs1
    split
    · next e he2 => rw [he2] at hfo; exact hfo.of_error
    · exact ⟨hr, rfl⟩
    · exact ⟨hr, rfl⟩
    · next n1 n2 rs2 he2 =>
      rw [he2] at hfo
      have hfo' : FoundOk g doRecur (some (n1, n2), true) := hfo
      obtain ⟨m1, m2, i1, i2, hm, hn1, hn2, hne⟩ := hfo' rfl
      simp only [Option.some.injEq, Prod.mk.injEq] at hm
      obtain ⟨rfl, rfl⟩ := hm
      have hself : (n1.id == n2.id && !doRecur) = false := by
        cases hd : doRecur with
        | true => simp
        | false =>
          have := ids_ne_of_sorted g.nodes hs hn1 hn2 (hne hd)
          simp [this]
      split
      · next inn hfind =>
        obtain ⟨hmem, hp⟩ := find_rec reg _ inn hfind
        have htyp : inn.typ = 2 := by simp only [Bool.and_eq_true, beq_iff_eq] at hp; exact hp.1.1.1
        have h3 := traitAt_safe g inn.traitNum (hr inn hmem htyp).1 (hr inn hmem htyp).2
        split
        · next e he3 => rw [he3] at h3; exact h3.of_error
        · next tr he3 =>
          split
          · exact ⟨hr, rfl⟩
          · rw [if_neg (by simp [hself])]
            exact ⟨hr, rfl⟩
      · have h1 := safe_intn g.traits.length (List.length_pos_iff.mpr ht) rs2
        split
        · next e he3 => rw [he3] at h1; exact h1.of_error
        · next traitNum rs3 he3 =>
          rw [he3] at h1
          have h2 := safe_newLinkWeight (W := W) rs3
          split
          · next e he4 => rw [he4] at h2; exact h2.of_error
          · next w rs4 he4 =>
            simp only [Reg.nextInnovation]
            have h3 := traitAt_safe_nat g traitNum h1
            split
            · next e he5 => rw [he5] at h3; exact h3.of_error
            · next tr he5 =>
              rw [if_neg (by simp [hself])]
              have hk : traitNum < g.traits.length := h1
              exact ⟨hr.store rfl _ (fun _ => ⟨by simp, by simpa using hk⟩), rfl⟩

/-! ### mutateAddNode -/

theorem safe_pickSplitSmall (g : Genome W) (l : List (Gene W)) (i : Nat) (rs : List Nat) :
    Safe (fun r => ∀ k, r = some k → k < i + l.length) (pickSplitSmall g l i rs) := by
  induction l generalizing i rs with
  | nil => unfold pickSplitSmall; intro k h; cases h
  | cons x xs ih =>
    unfold pickSplitSmall
    split
    · have hf := safe_float32 (W := W) rs
      split
      · next e he => rw [he] at hf; exact hf.of_error
      · intro k h; cases h; simp
      · exact (ih (i + 1) _).mono (fun a ha k hk => by have := ha k hk; simp only [List.length_cons]; omega)
    · exact (ih (i + 1) _).mono (fun a ha k hk => by have := ha k hk; simp only [List.length_cons]; omega)

theorem safe_pickSplitLarge (g : Genome W) (hg : g.genes ≠ []) (tries : Nat) (rs : List Nat) :
    Safe (fun r => ∀ k, r = some k → k < g.genes.length) (pickSplitLarge g tries rs) := by
  induction tries generalizing rs with
  | zero => unfold pickSplitLarge; intro k h; cases h
  | succ n ih =>
    unfold pickSplitLarge
    have h1 := safe_intn g.genes.length (List.length_pos_iff.mpr hg) rs
    split
    · next e he => rw [he] at h1; exact h1.of_error
    · next k rs1 he =>
      rw [he] at h1
      have hk : k < g.genes.length := h1
      split
      · next hn => rw [List.getElem?_eq_none_iff] at hn; omega
      · split
        · intro k' h; cases h; exact hk
        · exact ih rs1

theorem safe_mutateAddNode (hlaw : UnitMulLe W) (g : Genome W) (reg : Reg W) (o : MutOpts W) (rs : List Nat) (hv : Valid rs)
    (ha : ActOk o) (ht : g.traits ≠ []) (hr : RecTraits g.traits.length reg) :
    Safe (StructPost g) (mutateAddNode g reg o rs) := by
  unfold mutateAddNode
  split
  · exact ⟨hr, rfl⟩
  · next hg =>
    have hg' : g.genes ≠ [] := by simpa using hg
    simp only
    have hp : Safe (fun r => ∀ k, r = some k → k < g.genes.length)
        (if g.genes.length < 15 then pickSplitSmall g g.genes 0 rs else pickSplitLarge g 20 rs) := by
      split
      · exact (safe_pickSplitSmall g g.genes 0 rs).mono (fun a ha k hk => by have := ha k hk; omega)
      · exact safe_pickSplitLarge g hg' 20 rs
    split
    · next e he => rw [he] at hp; exact hp.of_error
    · exact ⟨hr, rfl⟩
    · next k rs1 he =>
      rw [he] at hp
      have hk : k < g.genes.length := (hp : ∀ k', some k = some k' → k' < g.genes.length) k rfl
      have hv1 : Valid rs1 := by
        split at he
        · exact valid_of_ok (pickSplitSmall_prefixDet g g.genes 0) hv he
        · exact valid_of_ok (pickSplitLarge_prefixDet g 20) hv he
      split
      · next hn => rw [List.getElem?_eq_none_iff] at hn; omega
      · next gene hgene =>
        have h3 := traitAt_safe ({ g with genes := setEnabledAt g.genes k false } : Genome W) 0 (Int.le_refl 0)
          (by simpa using List.length_pos_iff.mpr ht)
        split
        · split
          · next e he3 => rw [he3] at h3; exact h3.of_error
          · next tr0 he3 =>
            split
            · exact ⟨hr, rfl⟩
            · exact ⟨hr, rfl⟩
        · simp only [Reg.nextNodeId]
          split
          · next e he3 => rw [he3] at h3; exact h3.of_error
          · next tr0 he3 =>
            have h4 := safe_randomNodeActivationType hlaw o ha rs1 hv1
            split
            · next e he4 => rw [he4] at h4; exact h4.of_error
            · next act rs2 he4 =>
              simp only [Reg.nextInnovation]
              exact ⟨hr.store rfl _ (fun h => by simp at h), rfl⟩

end GoNeat.NoErr
