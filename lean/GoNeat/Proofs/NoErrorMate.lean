/-
  C02 "without error": the three crossovers never return an implementation error on two non-modular parents with the
  same trait shape whose references resolve (`MateOk`; follows from `WFT` of both, equal trait ids and equal trait
  parameter counts, see `mateOk_of_wft`).  The child has the trait shape of the parents.
  (Known finding K1 is not an error of the crossover: single-point crossover may return a gene-less child; that is
  excluded later by `SharedHead`, Props/C01.)
  Kind A.
-/
import GoNeat.Proofs.NoErrorStruct
import GoNeat.Props.C06

set_option linter.unusedSectionVars false

namespace GoNeat.NoErr
open GoNeat Scalar
variable {W : Type} [Scalar W]

/-- `newTraits[t.Id - g.Traits[0].Id]` (index 0 for a nil trait) is in range for `n` child traits -/
def RefRes (n : Nat) (t0 t : Option Int) : Prop :=
  match t with
  | none => 0 < n
  | some id => ∃ b, t0 = some b ∧ 0 ≤ id - b ∧ (id - b).toNat < n

theorem childTraitRef_safe (nt : List (Trait W)) (t0 t : Option Int) (h : RefRes nt.length t0 t) :
    SafeE (fun _ => True) (childTraitRef nt t0 t) := by
  unfold childTraitRef
  cases t with
  | none =>
    simp only
    rw [if_neg (by omega)]
    split
    · next hn => rw [List.getElem?_eq_none_iff] at hn; simp only [RefRes] at h; simp only [Int.toNat_zero] at hn; omega
    · trivial
  | some id =>
    obtain ⟨b, rfl, h0, h1⟩ := h
    simp only
    rw [if_neg (by omega)]
    split
    · next hn => rw [List.getElem?_eq_none_iff] at hn; omega
    · trivial

/-- a chosen gene whose endpoint node objects exist and whose trait references resolve -/
structure ChosenOk (n : Nat) (t0 : Option Int) (c : Chosen W) : Prop where
  src : ∃ sn, c.srcN = some sn ∧ RefRes n t0 sn.trait
  dst : ∃ dn, c.dstN = some dn ∧ RefRes n t0 dn.trait
  tr : RefRes n t0 c.gene.trait

theorem ensureNode_safe (nt : List (Trait W)) (t0 : Option Int) (nodes : List Node) (n : Node) (h : RefRes nt.length t0 n.trait) :
    SafeE (fun _ => True) (ensureNode nt t0 nodes n) := by
  unfold ensureNode
  split
  · trivial
  · have := childTraitRef_safe nt t0 n.trait h
    split
    · next e he => rw [he] at this; exact this.of_errorE
    · trivial

theorem addChosen_safe (nt : List (Trait W)) (t0 : Option Int) (acc : MateAcc W) (c : Chosen W) (dis : Bool)
    (h : ChosenOk nt.length t0 c) : SafeE (fun _ => True) (addChosen nt t0 acc c dis) := by
  unfold addChosen
  obtain ⟨⟨sn, hs, hsr⟩, ⟨dn, hd, hdr⟩, htr⟩ := h
  split
  · trivial
  · rw [hs, hd]
    simp only
    have h1 := ensureNode_safe nt t0 acc.nodes sn hsr
    split
    · next e he => rw [he] at h1; exact h1.of_errorE
    · next nodes1 he =>
      have h2 := ensureNode_safe nt t0 nodes1 dn hdr
      split
      · next e he2 => rw [he2] at h2; exact h2.of_errorE
      · have h3 := childTraitRef_safe nt t0 c.gene.trait htr
        split
        · next e he3 => rw [he3] at h3; exact h3.of_errorE
        · trivial

theorem addChosen_ne {nt : List (Trait W)} {t0 : Option Int} {acc : MateAcc W} {c : Chosen W} {dis : Bool} {e : Stop}
    (h : ChosenOk nt.length t0 c) : addChosen nt t0 acc c dis ≠ .error e := by
  intro he; have := addChosen_safe nt t0 acc c dis h; rw [he] at this; exact this

/-- all references of a parent resolve in a child with `n` traits based at `t0` -/
structure ParentOk (n : Nat) (t0 : Option Int) (p : Genome W) : Prop where
  genes : ∀ x ∈ p.genes, (nodeById p.nodes x.src).isSome ∧ (nodeById p.nodes x.dst).isSome ∧ RefRes n t0 x.trait
  nodes : ∀ m ∈ p.nodes, RefRes n t0 m.trait

theorem chosenOk_chooseFrom {n : Nat} {t0 : Option Int} {p : Genome W} (hp : ParentOk n t0 p) {x : Gene W} (hx : x ∈ p.genes) :
    ChosenOk n t0 (chooseFrom p x) := by
  obtain ⟨h1, h2, h3⟩ := hp.genes x hx
  obtain ⟨sn, hs⟩ := Option.isSome_iff_exists.mp h1
  obtain ⟨dn, hd⟩ := Option.isSome_iff_exists.mp h2
  exact ⟨⟨sn, hs, hp.nodes sn (C01.nodeById_some _ _ _ hs).2⟩, ⟨dn, hd, hp.nodes dn (C01.nodeById_some _ _ _ hd).2⟩, h3⟩

theorem safe_disableDraw (e1 e2 : Bool) (rs : List Nat) : Safe (fun _ => True) (disableDraw (W := W) e1 e2 rs) := by
  unfold disableDraw
  split
  · trivial
  · split
    · have hf := safe_float64 (W := W) rs
      split
      · next e he => rw [he] at hf; exact hf.of_error
      · trivial
    · trivial

theorem safe_avgChosen {n : Nat} {t0 : Option Int} {p1 p2 : Genome W} (hp1 : ParentOk n t0 p1) (hp2 : ParentOk n t0 p2)
    {x y : Gene W} (hx : x ∈ p1.genes) (hy : y ∈ p2.genes) (rs : List Nat) :
    Safe (ChosenOk n t0) (avgChosen p1 p2 x y rs) := by
  have cx := chosenOk_chooseFrom hp1 hx
  have cy := chosenOk_chooseFrom hp2 hy
  unfold avgChosen
  have f1 := safe_float64 (W := W) rs
  split
  · next e he => rw [he] at f1; exact f1.of_error
  · next fT rs1 _ =>
    have f2 := safe_float64 (W := W) rs1
    split
    · next e he => rw [he] at f2; exact f2.of_error
    · next fI rs2 _ =>
      have f3 := safe_float64 (W := W) rs2
      split
      · next e he => rw [he] at f3; exact f3.of_error
      · next fO rs3 _ =>
        have f4 := safe_float64 (W := W) rs3
        split
        · next e he => rw [he] at f4; exact f4.of_error
        · next fR rs4 _ =>
          have f5 := safe_disableDraw (W := W) x.en y.en rs4
          split
          · next e he => rw [he] at f5; exact f5.of_error
          · next dis rs5 _ =>
            refine ⟨?_, ?_, ?_⟩
            · show ∃ sn, (if gt fI (ofDec 5 1) = true then nodeById p1.nodes x.src else nodeById p2.nodes y.src) = some sn ∧ _
              split
              · exact cx.src
              · exact cy.src
            · show ∃ dn, (if gt fO (ofDec 5 1) = true then nodeById p1.nodes x.dst else nodeById p2.nodes y.dst) = some dn ∧ _
              split
              · exact cx.dst
              · exact cy.dst
            · show RefRes n t0 (if gt fT (ofDec 5 1) = true then x.trait else y.trait)
              split
              · exact cx.tr
              · exact cy.tr

/-! ### the three walks -/

theorem float64_err {β} {Q : β → Prop} {rs : List Nat} {e : Stop} (h : Rand.float64 (W := W) rs = .error e) : Safe Q (.error e : R β) := by
  have := safe_float64 (W := W) rs; rw [h] at this; exact this.of_error

theorem disableDraw_err {β} {Q : β → Prop} {e1 e2 : Bool} {rs : List Nat} {e : Stop}
    (h : disableDraw (W := W) e1 e2 rs = .error e) : Safe Q (.error e : R β) := by
  have := safe_disableDraw (W := W) e1 e2 rs; rw [h] at this; exact this.of_error

theorem safe_multipointWalk (p1 p2 : Genome W) (nt : List (Trait W)) (t0 : Option Int) (better : Bool)
    (hp1 : ParentOk nt.length t0 p1) (hp2 : ParentOk nt.length t0 p2)
    (xs ys : List (Gene W)) (acc : MateAcc W) (rs : List Nat)
    (h1 : ∀ x ∈ xs, x ∈ p1.genes) (h2 : ∀ y ∈ ys, y ∈ p2.genes) :
    Safe (fun _ => True) (multipointWalk p1 p2 nt t0 better xs ys acc rs) := by
  fun_induction multipointWalk p1 p2 nt t0 better xs ys acc rs
  all_goals first
    | trivial
    | exact float64_err (by assumption)
    | exact disableDraw_err (by assumption)
    | exact absurd (by assumption) (addChosen_ne (chosenOk_chooseFrom hp1 (h1 _ List.mem_cons_self)))
    | exact absurd (by assumption) (addChosen_ne (chosenOk_chooseFrom hp2 (h2 _ List.mem_cons_self)))
    | skip
  case case2 ih => exact ih h1 (C04.tl h2)
  case case4 ih => exact ih h1 (C04.tl h2)
  case case5 ih => exact ih (C04.tl h1) h2
  case case7 ih => exact ih (C04.tl h1) h2
  case case10 c dis rs2 hdd e he =>
    refine absurd he (addChosen_ne ?_)
    dsimp only [c]
    split
    · exact chosenOk_chooseFrom hp1 (h1 _ List.mem_cons_self)
    · exact chosenOk_chooseFrom hp2 (h2 _ List.mem_cons_self)
  case case11 ih => exact ih (C04.tl h1) (C04.tl h2)
  case case12 ih => exact ih (C04.tl h1) h2
  case case14 ih => exact ih (C04.tl h1) h2
  case case15 ih => exact ih h1 (C04.tl h2)
  case case17 ih => exact ih h1 (C04.tl h2)

theorem avgChosen_err {β} {Q : β → Prop} {n : Nat} {t0 : Option Int} {p1 p2 : Genome W} (hp1 : ParentOk n t0 p1) (hp2 : ParentOk n t0 p2)
    {x y : Gene W} (hx : x ∈ p1.genes) (hy : y ∈ p2.genes) {rs : List Nat} {e : Stop}
    (h : avgChosen p1 p2 x y rs = .error e) : Safe Q (.error e : R β) := by
  have := safe_avgChosen hp1 hp2 hx hy rs; rw [h] at this; exact this.of_error

theorem avgChosen_ok {n : Nat} {t0 : Option Int} {p1 p2 : Genome W} (hp1 : ParentOk n t0 p1) (hp2 : ParentOk n t0 p2)
    {x y : Gene W} (hx : x ∈ p1.genes) (hy : y ∈ p2.genes) {rs rs' : List Nat} {c : Chosen W}
    (h : avgChosen p1 p2 x y rs = .ok (c, rs')) : ChosenOk n t0 c := by
  have := safe_avgChosen hp1 hp2 hx hy rs; rw [h] at this; exact this

theorem safe_multipointAvgWalk (p1 p2 : Genome W) (nt : List (Trait W)) (t0 : Option Int) (better : Bool)
    (hp1 : ParentOk nt.length t0 p1) (hp2 : ParentOk nt.length t0 p2)
    (xs ys : List (Gene W)) (acc : MateAcc W) (rs : List Nat)
    (h1 : ∀ x ∈ xs, x ∈ p1.genes) (h2 : ∀ y ∈ ys, y ∈ p2.genes) :
    Safe (fun _ => True) (multipointAvgWalk p1 p2 nt t0 better xs ys acc rs) := by
  fun_induction multipointAvgWalk p1 p2 nt t0 better xs ys acc rs
  all_goals first
    | trivial
    | exact avgChosen_err hp1 hp2 (h1 _ List.mem_cons_self) (h2 _ List.mem_cons_self) (by assumption)
    | exact absurd (by assumption) (addChosen_ne (chosenOk_chooseFrom hp1 (h1 _ List.mem_cons_self)))
    | exact absurd (by assumption) (addChosen_ne (chosenOk_chooseFrom hp2 (h2 _ List.mem_cons_self)))
    | exact absurd (by assumption) (addChosen_ne (avgChosen_ok hp1 hp2 (h1 _ List.mem_cons_self) (h2 _ List.mem_cons_self) (by assumption)))
    | skip
  case case2 ih => exact ih h1 (C04.tl h2)
  case case4 ih => exact ih h1 (C04.tl h2)
  case case5 ih => exact ih (C04.tl h1) h2
  case case7 ih => exact ih (C04.tl h1) h2
  case case10 ih => exact ih (C04.tl h1) (C04.tl h2)
  case case11 ih => exact ih (C04.tl h1) h2
  case case13 ih => exact ih (C04.tl h1) h2
  case case14 ih => exact ih h1 (C04.tl h2)
  case case16 ih => exact ih h1 (C04.tl h2)

theorem safe_singlePointWalk (q1 q2 : Genome W) (nt : List (Trait W)) (t0 : Option Int) (cp : Nat)
    (hp1 : ParentOk nt.length t0 q1) (hp2 : ParentOk nt.length t0 q2)
    (xs ys : List (Gene W)) (gc : Nat) (last : Option (Chosen W)) (acc : MateAcc W) (rs : List Nat)
    (h1 : ∀ x ∈ xs, x ∈ q1.genes) (h2 : ∀ y ∈ ys, y ∈ q2.genes) :
    Safe (fun _ => True) (singlePointWalk q1 q2 nt t0 cp xs ys gc last acc rs) := by
  fun_induction singlePointWalk q1 q2 nt t0 cp xs ys gc last acc rs
  all_goals first
    | trivial
    | exact avgChosen_err hp1 hp2 (h1 _ List.mem_cons_self) (h2 _ List.mem_cons_self) (by assumption)
    | exact absurd (by assumption) (addChosen_ne (chosenOk_chooseFrom hp1 (h1 _ List.mem_cons_self)))
    | exact absurd (by assumption) (addChosen_ne (chosenOk_chooseFrom hp2 (h2 _ List.mem_cons_self)))
    | exact absurd (by assumption) (addChosen_ne (avgChosen_ok hp1 hp2 (h1 _ List.mem_cons_self) (h2 _ List.mem_cons_self) (by assumption)))
    | skip
  case case3 ih => exact ih h1 (C04.tl h2)
  case case5 ih => exact ih (C04.tl h1) (C04.tl h2)
  case case7 ih => exact ih (C04.tl h1) (C04.tl h2)
  case case10 ih => exact ih (C04.tl h1) (C04.tl h2)
  case case12 ih => exact ih (C04.tl h1) h2
  case case14 ih => exact ih h1 (C04.tl h2)
  case case16 ih => exact ih h1 (C04.tl h2)

/-! ### prologue and the three operators -/

theorem safe_mateTraits (ts1 ts2 : List (Trait W)) (hs : ts1.map (·.params.length) = ts2.map (·.params.length)) :
    SafeE (fun nt => nt.map (·.params.length) = ts1.map (·.params.length)) (mateTraits ts1 ts2) := by
  induction ts1 generalizing ts2 with
  | nil => unfold mateTraits; rfl
  | cons t1 ts1 ih =>
    cases ts2 with
    | nil => simp at hs
    | cons t2 ts2 =>
      simp only [List.map_cons, List.cons.injEq] at hs
      unfold mateTraits
      simp only [traitAvg]
      rw [if_neg (by simpa using hs.1)]
      simp only
      have := ih ts2 hs.2
      split
      · next e he => rw [he] at this; exact this.of_errorE
      · next ts he =>
        rw [he] at this
        show (_ :: ts).map _ = _
        simp only [List.map_cons, List.length_zipWith, hs.1, Nat.min_self]
        exact congrArg _ this

theorem ioNodes_safe (nt : List (Trait W)) (t0 : Option Int) (ns acc : List Node) (h : ∀ n ∈ ns, RefRes nt.length t0 n.trait) :
    SafeE (fun _ => True) (ioNodes nt t0 ns acc) := by
  induction ns generalizing acc with
  | nil => unfold ioNodes; trivial
  | cons n ns ih =>
    unfold ioNodes
    split
    · have := childTraitRef_safe nt t0 n.trait (h n List.mem_cons_self)
      split
      · next e he => rw [he] at this; exact this.of_errorE
      · exact ih _ (C04.tl h)
    · exact ih _ (C04.tl h)

/-- what the crossovers need of two parents -/
structure MateOk (g og : Genome W) : Prop where
  nomod1 : g.modules = []
  nomod2 : og.modules = []
  shape : shape g = shape og
  par1 : ParentOk g.traits.length (g.traits.head?.map (·.id)) g
  par2 : ParentOk g.traits.length (g.traits.head?.map (·.id)) og

theorem safe_matePrologue (g og : Genome W) (h : MateOk g og) :
    SafeE (fun r => r.1.length = g.traits.length ∧ r.2.1 = g.traits.head?.map (·.id) ∧ r.1.map (·.params.length) = shape g)
      (matePrologue g og) := by
  unfold matePrologue
  rw [if_neg (by simp [h.nomod1, h.nomod2])]
  have hlen : g.traits.length = og.traits.length := by
    have := congrArg List.length h.shape; simpa [NoErr.shape] using this
  rw [if_neg (by simpa using hlen)]
  have h1 := safe_mateTraits g.traits og.traits h.shape
  split
  · next e he => rw [he] at h1; exact h1.of_errorE
  · next nt he =>
    rw [he] at h1
    have hsh : nt.map (·.params.length) = g.traits.map (·.params.length) := h1
    have hl : nt.length = g.traits.length := by simpa using congrArg List.length hsh
    simp only
    have h2 := ioNodes_safe nt (g.traits.head?.map (·.id)) og.nodes [] (by rw [hl]; exact h.par2.nodes)
    split
    · next e he2 => rw [he2] at h2; exact h2.of_errorE
    · exact ⟨hl, rfl, hsh⟩

theorem safe_mateMultipoint (g og : Genome W) (id : Int) (f1 f2 : W) (rs : List Nat) (h : MateOk g og) :
    Safe (fun c => shape c = shape g) (mateMultipoint g og id f1 f2 rs) := by
  unfold mateMultipoint
  have hp := safe_matePrologue g og h
  split
  · next e he => rw [he] at hp; exact hp.of_error
  · next nt t0 nodes he =>
    rw [he] at hp
    obtain ⟨hl, ht0, hsh⟩ : nt.length = g.traits.length ∧ t0 = g.traits.head?.map (·.id) ∧ nt.map (·.params.length) = shape g := hp
    subst ht0
    have hw := safe_multipointWalk g og nt _ (p1Better f1 f2 g.genes.length og.genes.length) (by rw [hl]; exact h.par1)
      (by rw [hl]; exact h.par2) g.genes og.genes { nodes := nodes, genes := [] } rs (fun _ h => h) (fun _ h => h)
    simp only
    split
    · next e he2 => rw [he2] at hw; exact hw.of_error
    · exact hsh

theorem safe_mateMultipointAvg (g og : Genome W) (id : Int) (f1 f2 : W) (rs : List Nat) (h : MateOk g og) :
    Safe (fun c => shape c = shape g) (mateMultipointAvg g og id f1 f2 rs) := by
  unfold mateMultipointAvg
  have hp := safe_matePrologue g og h
  split
  · next e he => rw [he] at hp; exact hp.of_error
  · next nt t0 nodes he =>
    rw [he] at hp
    obtain ⟨hl, ht0, hsh⟩ : nt.length = g.traits.length ∧ t0 = g.traits.head?.map (·.id) ∧ nt.map (·.params.length) = shape g := hp
    subst ht0
    have hw := safe_multipointAvgWalk g og nt _ (p1Better f1 f2 g.genes.length og.genes.length) (by rw [hl]; exact h.par1)
      (by rw [hl]; exact h.par2) g.genes og.genes { nodes := nodes, genes := [] } rs (fun _ h => h) (fun _ h => h)
    simp only
    split
    · next e he2 => rw [he2] at hw; exact hw.of_error
    · exact hsh

theorem safe_mateSinglePoint (g og : Genome W) (id : Int) (rs : List Nat) (h : MateOk g og)
    (hg1 : g.genes ≠ []) (hg2 : og.genes ≠ []) :
    Safe (fun c => shape c = shape g) (mateSinglePoint g og id rs) := by
  unfold mateSinglePoint
  have hp := safe_matePrologue g og h
  split
  · next e he => rw [he] at hp; exact hp.of_error
  · next nt t0 nodes he =>
    rw [he] at hp
    obtain ⟨hl, ht0, hsh⟩ : nt.length = g.traits.length ∧ t0 = g.traits.head?.map (·.id) ∧ nt.map (·.params.length) = shape g := hp
    subst ht0
    have hq : ∀ (q1 q2 : Genome W), ParentOk nt.length (g.traits.head?.map (·.id)) q1 →
        ParentOk nt.length (g.traits.head?.map (·.id)) q2 → q1.genes ≠ [] →
        Safe (fun c => shape c = shape g)
          (match Rand.intn q1.genes.length rs with
           | .error e => .error e
           | .ok (crossPoint, rs1) =>
             match singlePointWalk q1 q2 nt (g.traits.head?.map (·.id)) crossPoint q1.genes q2.genes 0 none
                 { nodes := nodes, genes := [] } rs1 with
             | .error e => .error e
             | .ok (acc, rs') => .ok ({ id := id, traits := nt, nodes := acc.nodes, genes := acc.genes }, rs')) := by
      intro q1 q2 hq1 hq2 hne
      have hi := safe_intn q1.genes.length (List.length_pos_iff.mpr hne) rs
      split
      · next e he2 => rw [he2] at hi; exact hi.of_error
      · next cp rs1 he2 =>
        have hw := safe_singlePointWalk q1 q2 nt _ cp hq1 hq2 q1.genes q2.genes 0 none { nodes := nodes, genes := [] } rs1
          (fun _ h => h) (fun _ h => h)
        split
        · next e he3 => rw [he3] at hw; exact hw.of_error
        · exact hsh
    simp only
    by_cases hfs : g.genes.length < og.genes.length
    · simp only [hfs, if_true]
      exact hq g og (by rw [hl]; exact h.par1) (by rw [hl]; exact h.par2) hg1
    · simp only [hfs, if_false]
      exact hq og g (by rw [hl]; exact h.par2) (by rw [hl]; exact h.par1) hg2

/-! ### `MateOk` from well-formedness -/

theorem refRes_of_traitRefOk (g p : Genome W) (hc : TraitsConsecutive g) (hti : traitIds p = traitIds g) (t : Option Int)
    (h : TraitRefOk p t) : RefRes g.traits.length (g.traits.head?.map (·.id)) t := by
  unfold TraitsConsecutive at hc
  split at hc
  · exact hc.elim
  · next t1 rest heq =>
    cases t with
    | none => simp [RefRes, heq]
    | some id =>
      obtain ⟨_, hmem⟩ := h
      rw [hti, hc] at hmem
      obtain ⟨i, hi, rfl⟩ := List.mem_map.mp hmem
      have := List.mem_range.mp hi
      refine ⟨t1.id, by simp [heq], ?_, ?_⟩
      · simp only [Int.ofNat_eq_natCast]; omega
      · simp only [Int.ofNat_eq_natCast]; omega

theorem parentOk_of_wf (g p : Genome W) (hc : TraitsConsecutive g) (hp : WF p) (hti : traitIds p = traitIds g) :
    ParentOk g.traits.length (g.traits.head?.map (·.id)) p := by
  refine ⟨fun x hx => ⟨?_, ?_, ?_⟩, fun m hm => ?_⟩
  · exact C06.nodeById_isSome _ _ (hp.endpoints x hx).1
  · exact C06.nodeById_isSome _ _ (hp.endpoints x hx).2
  · exact refRes_of_traitRefOk g p hc hti _ (hp.traitRefs.1 x hx)
  · exact refRes_of_traitRefOk g p hc hti _ (hp.traitRefs.2 m hm)

/-- two well-formed non-modular genomes with the same trait ids and the same trait parameter counts can be crossed -/
theorem mateOk_of_wf (g og : Genome W) (hw1 : WF g) (hw2 : WF og) (hm1 : g.modules = []) (hm2 : og.modules = [])
    (hti : traitIds g = traitIds og) (hsh : shape g = shape og) : MateOk g og :=
  ⟨hm1, hm2, hsh, parentOk_of_wf g g hw1.traits hw1 rfl, parentOk_of_wf g og hw1.traits hw2 hti.symm⟩

end GoNeat.NoErr
