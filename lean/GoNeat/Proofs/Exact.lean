/-
  The exact-arithmetic instance of `Scalar` (DESIGN §2.2, "Kind B"): any linearly ordered field with a floor.
  Theorems stated with this instance speak about the model evaluated in exact arithmetic; the rounding
  behaviour of float64 is outside (trusted base).
-/
import GoNeat.Model.Scalar
import Mathlib.Algebra.Order.Floor.Ring
import Mathlib.Algebra.Order.Field.Basic
import Mathlib.Tactic.Linarith
import Mathlib.Tactic.Ring
import Mathlib.Tactic.FieldSimp

namespace GoNeat

open Classical in
/-- exact instance: operations are the field operations, comparisons the order, draws `x / 2^63` -/
noncomputable instance exactScalar (K : Type) [Field K] [LinearOrder K] [IsStrictOrderedRing K] [FloorRing K] : Scalar K where
  zero := 0
  one := 1
  add := (· + ·)
  sub := (· - ·)
  mul := (· * ·)
  div := (· / ·)
  neg := fun x => -x
  abs := fun x => |x|
  lt := fun a b => decide (a < b)
  le := fun a b => decide (a ≤ b)
  eq := fun a b => decide (a = b)
  ofInt := fun i => (i : K)
  ofDec := fun m e => (m : K) / (10 : K) ^ e
  ofUnit63 := fun x => (x : K) / (2 : K) ^ 63
  floorInt := fun x => ⌊x⌋
  floor := fun x => (⌊x⌋ : K)
  fmod1 := fun x => if 0 ≤ x then Int.fract x else -(Int.fract (-x))
  f32IsOne := fun _ => false
  f32Ge03 := fun x => decide ((3 : K) / 10 ≤ x)
  maxVal := 0   -- no largest element in a field; only used as the initial "best distance" sentinel (see C08)

end GoNeat

namespace GoNeat.Exact
open GoNeat
variable {K : Type} [Field K] [LinearOrder K] [IsStrictOrderedRing K] [FloorRing K]

@[simp] theorem zero_eq : (Scalar.zero : K) = 0 := rfl
@[simp] theorem one_eq : (Scalar.one : K) = 1 := rfl
@[simp] theorem add_eq (a b : K) : Scalar.add a b = a + b := rfl
@[simp] theorem sub_eq (a b : K) : Scalar.sub a b = a - b := rfl
@[simp] theorem mul_eq (a b : K) : Scalar.mul a b = a * b := rfl
@[simp] theorem div_eq (a b : K) : Scalar.div a b = a / b := rfl
@[simp] theorem neg_eq (a : K) : Scalar.neg a = -a := rfl
@[simp] theorem abs_eq (a : K) : Scalar.abs a = |a| := rfl
@[simp] theorem ofInt_eq (i : Int) : (Scalar.ofInt i : K) = (i : K) := rfl
@[simp] theorem lt_eq (a b : K) : Scalar.lt a b = decide (a < b) := rfl
@[simp] theorem le_eq (a b : K) : Scalar.le a b = decide (a ≤ b) := rfl
@[simp] theorem eq_eq (a b : K) : Scalar.eq a b = decide (a = b) := rfl
@[simp] theorem gt_eq (a b : K) : Scalar.gt a b = decide (b < a) := rfl
@[simp] theorem ge_eq (a b : K) : Scalar.ge a b = decide (b ≤ a) := rfl
@[simp] theorem floorInt_eq (a : K) : Scalar.floorInt a = ⌊a⌋ := rfl
@[simp] theorem floor_eq (a : K) : Scalar.floor a = (⌊a⌋ : K) := rfl

end GoNeat.Exact
