/-
  C18 helper lemmas (Kind R: over the reals).  The specification's closed forms (Spec/Activations.lean, polymorphic)
  are instantiated at ℝ through the instance below; ranges and monotonicity are proved here function by function.
-/
import Mathlib.Analysis.Complex.Trigonometric
import Mathlib.Data.EReal.Basic
import Mathlib.Data.List.MinMax
import Mathlib.Tactic.Linarith
import Mathlib.Tactic.Positivity
import Mathlib.Tactic.NormNum
import Mathlib.Tactic.FieldSimp
import Mathlib.Tactic.Ring
import GoNeat.Spec.Activations

namespace GoNeat.Spec.Act

/-- the reals as a scalar of the specification -/
noncomputable instance instActFnsReal : ActFns ℝ where
  exp := Real.exp
  tanh := Real.tanh
  sin := Real.sin
  abs := fun x => |x|
  lt x y := decide (x < y)

@[simp] theorem exp_real (x : ℝ) : ActFns.exp x = Real.exp x := rfl
@[simp] theorem tanh_real (x : ℝ) : ActFns.tanh x = Real.tanh x := rfl
@[simp] theorem sin_real (x : ℝ) : ActFns.sin x = Real.sin x := rfl
@[simp] theorem abs_real (x : ℝ) : ActFns.abs x = |x| := rfl
@[simp] theorem lt_real (x y : ℝ) : (ActFns.lt x y = true) ↔ x < y := by simp [ActFns.lt]

/-! ### the logistic function -/

theorem logistic_real (t : ℝ) : logistic t = 1 / (1 + Real.exp (-t)) := by
  simp only [logistic, exp_real]; norm_num

theorem logistic_pos (t : ℝ) : 0 < logistic t := by
  rw [logistic_real]; have := Real.exp_pos (-t); positivity

theorem logistic_lt_one (t : ℝ) : logistic t < 1 := by
  rw [logistic_real]; have := Real.exp_pos (-t)
  rw [div_lt_one (by linarith)]; linarith

theorem logistic_mono : Monotone (logistic : ℝ → ℝ) := by
  intro a b h
  rw [logistic_real, logistic_real]
  have ha := Real.exp_pos (-a)
  have hb := Real.exp_pos (-b)
  have : Real.exp (-b) ≤ Real.exp (-a) := Real.exp_le_exp.mpr (by linarith)
  apply one_div_le_one_div_of_le (by linarith) (by linarith)

theorem tanh_eq_logistic (t : ℝ) : Real.tanh t = 2 * logistic (2 * t) - 1 := by
  rw [Real.tanh_eq, logistic_real]
  have h2 : Real.exp (-(2 * t)) = Real.exp (-t) * Real.exp (-t) := by rw [← Real.exp_add]; congr 1; ring
  have h1 : Real.exp t = (Real.exp (-t))⁻¹ := by rw [Real.exp_neg, inv_inv]
  have hp := Real.exp_pos (-t)
  rw [h2, h1]
  field_simp
  ring

theorem tanh_mono : Monotone Real.tanh := by
  intro a b h
  rw [tanh_eq_logistic, tanh_eq_logistic]
  have := logistic_mono (show 2 * a ≤ 2 * b by linarith)
  linarith

/-! ### the 20 closed forms at ℝ: range and monotonicity -/

theorem plainSigmoid_range (x : ℝ) : 0 < plainSigmoid x ∧ plainSigmoid x < 1 :=
  ⟨logistic_pos _, logistic_lt_one _⟩
theorem plainSigmoid_mono : Monotone (plainSigmoid : ℝ → ℝ) := fun _ _ h => logistic_mono h

theorem reducedSigmoid_range (x : ℝ) : 0 < reducedSigmoid x ∧ reducedSigmoid x < 1 :=
  ⟨logistic_pos _, logistic_lt_one _⟩
theorem reducedSigmoid_mono : Monotone (reducedSigmoid : ℝ → ℝ) := fun a b h =>
  logistic_mono (show (0.5 : ℝ) * a ≤ 0.5 * b by linarith)

theorem steepenedSigmoid_range (x : ℝ) : 0 < steepenedSigmoid x ∧ steepenedSigmoid x < 1 :=
  ⟨logistic_pos _, logistic_lt_one _⟩
theorem steepenedSigmoid_mono : Monotone (steepenedSigmoid : ℝ → ℝ) := fun a b h =>
  logistic_mono (show (4.924273 : ℝ) * a ≤ 4.924273 * b by linarith)

theorem bipolarSigmoid_range (x : ℝ) : -1 < bipolarSigmoid x ∧ bipolarSigmoid x < 1 := by
  have h1 := logistic_pos ((4.924273 : ℝ) * x)
  have h2 := logistic_lt_one ((4.924273 : ℝ) * x)
  unfold bipolarSigmoid
  constructor <;> norm_num <;> linarith
theorem bipolarSigmoid_mono : Monotone (bipolarSigmoid : ℝ → ℝ) := fun a b h => by
  have := logistic_mono (show (4.924273 : ℝ) * a ≤ 4.924273 * b by linarith)
  unfold bipolarSigmoid
  norm_num; linarith

theorem leftShiftedSigmoid_range (x : ℝ) : 0 < leftShiftedSigmoid x ∧ leftShiftedSigmoid x < 1 :=
  ⟨logistic_pos _, logistic_lt_one _⟩
theorem leftShiftedSigmoid_mono : Monotone (leftShiftedSigmoid : ℝ → ℝ) := fun a b h =>
  logistic_mono (show a + (2.4621365 : ℝ) ≤ b + 2.4621365 by linarith)

theorem leftShiftedSteepenedSigmoid_range (x : ℝ) :
    0 < leftShiftedSteepenedSigmoid x ∧ leftShiftedSteepenedSigmoid x < 1 :=
  ⟨logistic_pos _, logistic_lt_one _⟩
theorem leftShiftedSteepenedSigmoid_mono : Monotone (leftShiftedSteepenedSigmoid : ℝ → ℝ) := fun a b h =>
  logistic_mono (show (4.924273 : ℝ) * a + 2.4621365 ≤ 4.924273 * b + 2.4621365 by linarith)

theorem rightShiftedSteepenedSigmoid_range (x : ℝ) :
    0 < rightShiftedSteepenedSigmoid x ∧ rightShiftedSteepenedSigmoid x < 1 :=
  ⟨logistic_pos _, logistic_lt_one _⟩
theorem rightShiftedSteepenedSigmoid_mono : Monotone (rightShiftedSteepenedSigmoid : ℝ → ℝ) := fun a b h =>
  logistic_mono (show (4.924273 : ℝ) * a - 2.4621365 ≤ 4.924273 * b - 2.4621365 by linarith)

theorem hyperbolicTangent_range (x : ℝ) : -1 < hyperbolicTangent x ∧ hyperbolicTangent x < 1 :=
  ⟨Real.neg_one_lt_tanh _, Real.tanh_lt_one _⟩
theorem hyperbolicTangent_mono : Monotone (hyperbolicTangent : ℝ → ℝ) := fun a b h =>
  tanh_mono (show (0.9 : ℝ) * a ≤ 0.9 * b by linarith)

theorem gaussian_range (x : ℝ) : 0 < gaussian x ∧ gaussian x ≤ 1 := by
  unfold gaussian
  refine ⟨Real.exp_pos _, ?_⟩
  rw [exp_real, Real.exp_le_one_iff]
  nlinarith [mul_self_nonneg x]

theorem bipolarGaussian_range (x : ℝ) : -1 < bipolarGaussian x ∧ bipolarGaussian x ≤ 1 := by
  unfold bipolarGaussian
  have h1 := Real.exp_pos (-((2.5 : ℝ) * x * (2.5 * x)))
  have h2 : Real.exp (-((2.5 : ℝ) * x * (2.5 * x))) ≤ 1 := by
    rw [Real.exp_le_one_iff]; nlinarith [mul_self_nonneg ((2.5 : ℝ) * x)]
  rw [exp_real]
  constructor
  · norm_num; linarith
  · have : (2.0 : ℝ) * Real.exp (-((2.5 : ℝ) * x * (2.5 * x))) ≤ 2.0 * 1 :=
      mul_le_mul_of_nonneg_left h2 (by norm_num)
    linarith

theorem sineFunction_range (x : ℝ) : -1 ≤ sineFunction x ∧ sineFunction x ≤ 1 :=
  ⟨Real.neg_one_le_sin _, Real.sin_le_one _⟩

theorem linear_mono : Monotone (linear : ℝ → ℝ) := fun _ _ h => h

theorem absoluteLinear_range (x : ℝ) : 0 ≤ absoluteLinear x := abs_nonneg x

theorem nullFunctor_eq (x : ℝ) : nullFunctor x = 0 := by unfold nullFunctor; norm_num

/-! ### piecewise closed forms -/

theorem approximationSigmoid_real (x : ℝ) : approximationSigmoid x =
    if x < -4 then 0 else if x < 0 then (x + 4) * (x + 4) / 32
    else if x < 4 then 1 - (x - 4) * (x - 4) / 32 else 1 := by
  simp only [approximationSigmoid, lt_real]
  norm_num

theorem approximationSigmoid_range (x : ℝ) : 0 ≤ approximationSigmoid x ∧ approximationSigmoid x ≤ 1 := by
  rw [approximationSigmoid_real]
  split_ifs <;> constructor <;> nlinarith [mul_self_nonneg (x + 4), mul_self_nonneg (x - 4)]

theorem approximationSigmoid_mono : Monotone (approximationSigmoid : ℝ → ℝ) := by
  intro a b h
  rw [approximationSigmoid_real, approximationSigmoid_real]
  split_ifs <;> nlinarith [mul_self_nonneg (a + 4), mul_self_nonneg (a - 4), mul_self_nonneg (b + 4), mul_self_nonneg (b - 4)]

theorem approximationSteepenedSigmoid_real (x : ℝ) : approximationSteepenedSigmoid x =
    if x < -1 then 0 else if x < 0 then (x + 1) * (x + 1) / 2
    else if x < 1 then 1 - (x - 1) * (x - 1) / 2 else 1 := by
  simp only [approximationSteepenedSigmoid, lt_real]
  norm_num

theorem approximationSteepenedSigmoid_range (x : ℝ) :
    0 ≤ approximationSteepenedSigmoid x ∧ approximationSteepenedSigmoid x ≤ 1 := by
  rw [approximationSteepenedSigmoid_real]
  split_ifs <;> constructor <;> nlinarith [mul_self_nonneg (x + 1), mul_self_nonneg (x - 1)]

theorem approximationSteepenedSigmoid_mono : Monotone (approximationSteepenedSigmoid : ℝ → ℝ) := by
  intro a b h
  rw [approximationSteepenedSigmoid_real, approximationSteepenedSigmoid_real]
  split_ifs <;> nlinarith [mul_self_nonneg (a + 1), mul_self_nonneg (a - 1), mul_self_nonneg (b + 1), mul_self_nonneg (b - 1)]

theorem clippedLinear_real (x : ℝ) : clippedLinear x = if x < -1 then -1 else if 1 < x then 1 else x := by
  simp only [clippedLinear, lt_real]
  norm_num

theorem clippedLinear_range (x : ℝ) : -1 ≤ clippedLinear x ∧ clippedLinear x ≤ 1 := by
  rw [clippedLinear_real]
  split_ifs <;> constructor <;> linarith

theorem clippedLinear_mono : Monotone (clippedLinear : ℝ → ℝ) := by
  intro a b h
  rw [clippedLinear_real, clippedLinear_real]
  split_ifs <;> linarith

theorem stepFunction_real (x : ℝ) : stepFunction x = if x < 0 then 0 else 1 := by
  simp only [stepFunction, lt_real]
  norm_num

theorem stepFunction_range (x : ℝ) : stepFunction x = 0 ∨ stepFunction x = 1 := by
  rw [stepFunction_real]; split_ifs <;> simp

theorem stepFunction_mono : Monotone (stepFunction : ℝ → ℝ) := by
  intro a b h
  rw [stepFunction_real, stepFunction_real]
  split_ifs <;> linarith

theorem signFunction_real (x : ℝ) : signFunction x = if x < 0 then -1 else if 0 < x then 1 else 0 := by
  simp only [signFunction, lt_real]
  norm_num

theorem signFunction_range (x : ℝ) : signFunction x = -1 ∨ signFunction x = 0 ∨ signFunction x = 1 := by
  rw [signFunction_real]; split_ifs <;> simp

theorem inverseAbsoluteSigmoid_real (x : ℝ) : inverseAbsoluteSigmoid x = 1 / 2 + 1 / 2 * (x / (1 + |x|)) := by
  simp only [inverseAbsoluteSigmoid, abs_real]
  norm_num

theorem inverseAbsoluteSigmoid_range (x : ℝ) : 0 < inverseAbsoluteSigmoid x ∧ inverseAbsoluteSigmoid x < 1 := by
  rw [inverseAbsoluteSigmoid_real]
  have hd : 0 < 1 + |x| := by positivity
  have h1 : -1 < x / (1 + |x|) := by
    rw [lt_div_iff₀ hd]; have := neg_abs_le x; linarith
  have h2 : x / (1 + |x|) < 1 := by
    rw [div_lt_one hd]; have := le_abs_self x; linarith
  constructor <;> linarith

theorem inverseAbsoluteSigmoid_mono : Monotone (inverseAbsoluteSigmoid : ℝ → ℝ) := by
  intro a b h
  rw [inverseAbsoluteSigmoid_real, inverseAbsoluteSigmoid_real]
  have ha : 0 < 1 + |a| := by positivity
  have hb : 0 < 1 + |b| := by positivity
  have : a / (1 + |a|) ≤ b / (1 + |b|) := by
    rw [div_le_div_iff₀ ha hb]
    rcases abs_cases a with ⟨e1, _⟩ | ⟨e1, _⟩ <;> rcases abs_cases b with ⟨e2, _⟩ | ⟨e2, _⟩ <;> rw [e1, e2] <;> nlinarith
  linarith

/-! ### generic helpers for Props/C18 -/

open GoNeat.Act

theorem inRange_of (d : ScalarDoc ℝ) (y : ℝ) (hlo : ∀ l, d.lo = some l → l ≤ y) (hhi : ∀ h, d.hi = some h → y ≤ h) :
    d.inRange y = true := by
  unfold ScalarDoc.inRange
  rcases hl : d.lo with _ | l <;> rcases hh : d.hi with _ | h <;> simp [ActFns.lt]
  · exact hhi h hh
  · exact hlo l hl
  · exact ⟨hlo l hl, hhi h hh⟩

theorem multiplyModule_fold (l : List ℝ) (a : ℝ) :
    l.foldl (fun (ret : EReal) (v : ℝ) => ret * (v : EReal)) (a : EReal) = ((a * l.prod : ℝ) : EReal) := by
  induction l generalizing a with
  | nil => simp
  | cons x t ih => rw [List.foldl_cons, ← EReal.coe_mul, ih, List.prod_cons, mul_assoc]

theorem foldl_max_spec (l : List ℝ) (a : EReal) :
    let r := l.foldl (fun (acc : EReal) (v : ℝ) => max acc (v : EReal)) a
    a ≤ r ∧ (∀ x ∈ l, (x : EReal) ≤ r) ∧ (r = a ∨ ∃ x ∈ l, r = (x : EReal)) := by
  induction l generalizing a with
  | nil => simp
  | cons y t ih =>
    obtain ⟨h1, h2, h3⟩ := ih (max a (y : EReal))
    simp only [List.foldl_cons, List.mem_cons, forall_eq_or_imp]
    refine ⟨le_trans (le_max_left _ _) h1, ⟨le_trans (le_max_right _ _) h1, h2⟩, ?_⟩
    rcases h3 with h3 | ⟨x, hx, h3⟩
    · rcases max_choice a (y : EReal) with hm | hm
      · left; rw [h3, hm]
      · right; exact ⟨y, Or.inl rfl, by rw [h3, hm]⟩
    · right; exact ⟨x, Or.inr hx, h3⟩

theorem foldl_min_spec (l : List ℝ) (a : EReal) :
    let r := l.foldl (fun (acc : EReal) (v : ℝ) => min acc (v : EReal)) a
    r ≤ a ∧ (∀ x ∈ l, r ≤ (x : EReal)) ∧ (r = a ∨ ∃ x ∈ l, r = (x : EReal)) := by
  induction l generalizing a with
  | nil => simp
  | cons y t ih =>
    obtain ⟨h1, h2, h3⟩ := ih (min a (y : EReal))
    simp only [List.foldl_cons, List.mem_cons, forall_eq_or_imp]
    refine ⟨le_trans h1 (min_le_left _ _), ⟨le_trans h1 (min_le_right _ _), h2⟩, ?_⟩
    rcases h3 with h3 | ⟨x, hx, h3⟩
    · rcases min_choice a (y : EReal) with hm | hm
      · left; rw [h3, hm]
      · right; exact ⟨y, Or.inl rfl, by rw [h3, hm]⟩
    · right; exact ⟨x, Or.inr hx, h3⟩

theorem lookup_none_of_keys {α β} [BEq α] [LawfulBEq α] (l : List (α × β)) (k : α) (h : ∀ p ∈ l, p.1 ≠ k) :
    l.lookup k = none := by
  induction l with
  | nil => rfl
  | cons p t ih =>
    obtain ⟨a, b⟩ := p
    have hne : a ≠ k := h (a, b) (List.mem_cons_self)
    have : (k == a) = false := by simpa [beq_eq_false_iff_ne] using fun e => hne e.symm
    simp only [List.lookup, this]
    exact ih (fun p hp => h p (List.mem_cons_of_mem _ hp))

theorem run_miss (l : Lookup) (f : Factory) (k : Val) (hm : l.missErr = true) (h : ∀ p ∈ f.get l.map, p.1 ≠ k) :
    l.run f k = .err := by
  unfold Lookup.run
  rw [lookup_none_of_keys _ _ h]
  simp [hm]

theorem mem_of_lookup {α β} [BEq α] [LawfulBEq α] (l : List (α × β)) (k : α) (v : β) (h : l.lookup k = some v) :
    (k, v) ∈ l := by
  induction l with
  | nil => simp at h
  | cons p t ih =>
    obtain ⟨a, b⟩ := p
    simp only [List.lookup] at h
    cases hka : (k == a) with
    | true =>
      rw [hka] at h; simp only [Option.some.injEq] at h
      rw [← h, eq_of_beq hka]; exact List.mem_cons_self
    | false => rw [hka] at h; exact List.mem_cons_of_mem _ (ih h)

end GoNeat.Spec.Act
