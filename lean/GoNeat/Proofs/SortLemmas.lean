/-
  Go's insertion sort (the model of `sort.Sort` for short slices, Model/Population.lean) returns a permutation
  of its input; consequences for lists of species keyed by id.
-/
import GoNeat.Model.Population

namespace GoNeat
variable {α : Type}

theorem goInsertionSort_go_perm (less : α → α → Bool) (x : α) (revLeft acc : List α) :
    (goInsertionSort.go less x revLeft acc).Perm (x :: (revLeft.reverse ++ acc)) := by
  induction revLeft generalizing acc with
  | nil => simp [goInsertionSort.go]
  | cons y ys ih =>
    unfold goInsertionSort.go
    split
    · refine (ih (y :: acc)).trans ?_
      simp
    · exact List.perm_middle

theorem goInsertionSort_perm (less : α → α → Bool) (l : List α) : (goInsertionSort less l).Perm l := by
  unfold goInsertionSort
  suffices h : ∀ (init : List α), (l.foldl (fun sorted x => goInsertionSort.go less x sorted.reverse []) init).Perm (init ++ l) by
    simpa using h []
  induction l with
  | nil => intro init; simp
  | cons x xs ih =>
    intro init
    simp only [List.foldl_cons]
    refine (ih _).trans ?_
    have := goInsertionSort_go_perm less x init.reverse []
    simp only [List.reverse_reverse, List.append_nil] at this
    refine (List.Perm.append_right xs this).trans ?_
    simp only [List.cons_append]
    exact List.perm_middle.symm

end GoNeat
