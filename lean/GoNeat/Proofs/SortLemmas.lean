/-
  Go's insertion sort (the model of `sort.Sort` for short slices, Model/Population.lean) returns a permutation
  of its input; consequences for lists of species keyed by id.
-/
import GoNeat.Model.Population

namespace GoNeat
variable {α : Type}

theorem goInsertionSort_go_perm (less : α → α → Bool) (x : α) (revLeft acc : List α) :
    (goInsertionSort.go less x revLeft acc).Perm (x :: (revLeft.reverse ++ acc)) := by
  induction revLeft generalizing acc with
  | nil => simp [goInsertionSort.go]
  | cons y ys ih =>
    unfold goInsertionSort.go
    split
    · refine (ih (y :: acc)).trans ?_
      simp
    · exact List.perm_middle

theorem goInsertionSort_perm (less : α → α → Bool) (l : List α) : (goInsertionSort less l).Perm l := by
  unfold goInsertionSort
  suffices h : ∀ (init : List α), (l.foldl (fun sorted x => goInsertionSort.go less x sorted.reverse []) init).Perm (init ++ l) by
    simpa using h []
  induction l with
  | nil => intro init; simp
  | cons x xs ih =>
    intro init
    simp only [List.foldl_cons]
    refine (ih _).trans ?_
    have := goInsertionSort_go_perm less x init.reverse []
    simp only [List.reverse_reverse, List.append_nil] at this
    refine (List.Perm.append_right xs this).trans ?_
    simp only [List.cons_append]
    exact List.perm_middle.symm

end GoNeat

namespace GoNeat
variable {α : Type}

/-- the two order facts insertion sort needs from a strict comparison -/
structure LessLaws (less : α → α → Bool) : Prop where
  asymm : ∀ a b, less a b = true → less b a = false
  negTrans : ∀ a b c, less a b = false → less b c = false → less a c = false

/-- sorted: no later element is strictly less than an earlier one -/
def SortedBy (less : α → α → Bool) (l : List α) : Prop := l.Pairwise (fun a b => less b a = false)

theorem goInsertionSort_go_sorted (less : α → α → Bool) (hl : LessLaws less) (x : α) (revLeft acc : List α)
    (hs : SortedBy less (revLeft.reverse ++ acc)) (hacc : ∀ a ∈ acc, less x a = true) :
    SortedBy less (goInsertionSort.go less x revLeft acc) := by
  induction revLeft generalizing acc with
  | nil =>
    simp only [goInsertionSort.go, SortedBy, List.pairwise_cons]
    refine ⟨fun a ha => hl.asymm _ _ (hacc a ha), ?_⟩
    simpa [SortedBy] using hs
  | cons y ys ih =>
    unfold goInsertionSort.go
    split
    · rename_i hxy
      apply ih
      · simpa [SortedBy, List.append_assoc] using hs
      · intro a ha
        rcases List.mem_cons.mp ha with rfl | ha'
        · exact hxy
        · exact hacc a ha'
    · rename_i hxy
      have hxy' : less x y = false := by simpa using hxy
      simp only [SortedBy, List.reverse_cons, List.append_assoc, List.singleton_append] at hs ⊢
      rw [List.pairwise_append] at hs ⊢
      obtain ⟨h1, h2, h3⟩ := hs
      rw [List.pairwise_cons] at h2
      refine ⟨h1, ?_, ?_⟩
      · rw [List.pairwise_cons, List.pairwise_cons]
        refine ⟨?_, ⟨fun a ha => hl.asymm _ _ (hacc a ha), h2.2⟩⟩
        intro a ha
        rcases List.mem_cons.mp ha with rfl | ha'
        · exact hxy'
        · exact h2.1 a ha'
      · intro a ha b hb
        rcases List.mem_cons.mp hb with rfl | hb'
        · exact h3 a ha b (by simp)
        · rcases List.mem_cons.mp hb' with rfl | hb''
          · -- x against an element a before y: ¬ x < y and ¬ y < a give ¬ x < a
            exact hl.negTrans _ _ _ hxy' (h3 a ha y (by simp))
          · exact h3 a ha b (by simp [hb''])

theorem goInsertionSort_sorted (less : α → α → Bool) (hl : LessLaws less) (l : List α) : SortedBy less (goInsertionSort less l) := by
  unfold goInsertionSort
  suffices h : ∀ (init : List α), SortedBy less init →
      SortedBy less (l.foldl (fun sorted x => goInsertionSort.go less x sorted.reverse []) init) by
    exact h [] (by simp [SortedBy])
  induction l with
  | nil => intro init h; simpa using h
  | cons x xs ih =>
    intro init h
    simp only [List.foldl_cons]
    apply ih
    apply goInsertionSort_go_sorted less hl
    · simpa using h
    · intro a ha; cases ha

/-- the head of the sorted list is minimal for `less`: nothing in the input is strictly less than it -/
theorem goInsertionSort_head_min (less : α → α → Bool) (hl : LessLaws less) (l : List α) (top : α) (rest : List α)
    (h : goInsertionSort less l = top :: rest) (hirr : less top top = false) : ∀ x ∈ l, less x top = false := by
  intro x hx
  have hs := goInsertionSort_sorted less hl l
  rw [h] at hs
  have hm : x ∈ top :: rest := h ▸ (goInsertionSort_perm less l).mem_iff.mpr hx
  rcases List.mem_cons.mp hm with rfl | hm'
  · exact hirr
  · simp only [SortedBy, List.pairwise_cons] at hs
    exact hs.1 x hm'

end GoNeat

/-! ### `goSort` (Model/GoSort.lean): the checked wrapper around the transliterated pdqsort.
    The three facts below hold unconditionally - the pdq branch is only taken when its result passed the
    executable "sorted permutation" check, every other case is `goInsertionSort`. -/
namespace GoNeat
variable {α : Type}

theorem goSort_small (less : α → α → Bool) (l : List α) (h : l.length ≤ 12) : goSort less l = goInsertionSort less l := by
  simp [goSort, h]

theorem sortedByB_iff (less : α → α → Bool) (l : List α) : sortedByB less l = true ↔ SortedBy less l := by
  induction l with
  | nil => simp [sortedByB, SortedBy]
  | cons x xs ih =>
    simp only [sortedByB, SortedBy, Bool.and_eq_true, List.all_eq_true, Bool.not_eq_eq_eq_not, Bool.not_true,
      List.pairwise_cons]
    rw [ih]; rfl

theorem filterMap_getElem?_range (l : List α) : (List.range l.length).filterMap (fun i => l[i]?) = l := by
  induction l with
  | nil => rfl
  | cons x xs ih =>
    rw [List.length_cons, List.range_succ_eq_map, List.filterMap_cons]
    simp only [List.getElem?_cons_zero, List.filterMap_map]
    congr 1

theorem goSortPdq?_spec (less : α → α → Bool) (l r : List α) (h : goSortPdq? less l = some r) :
    r.Perm l ∧ SortedBy less r := by
  unfold goSortPdq? at h
  simp only [List.getElem?_toArray] at h
  split at h
  · rename_i hc
    simp only [Bool.and_eq_true] at hc
    cases h
    refine ⟨?_, (sortedByB_iff _ _).mp hc.2⟩
    have hp := (List.isPerm_iff.mp hc.1).filterMap (fun i => l[i]?)
    rw [filterMap_getElem?_range] at hp
    exact hp
  · cases h

theorem goSort_perm (less : α → α → Bool) (l : List α) : (goSort less l).Perm l := by
  unfold goSort
  split
  · exact goInsertionSort_perm less l
  · split
    · rename_i r h; exact (goSortPdq?_spec less l r h).1
    · exact goInsertionSort_perm less l

theorem goSort_sorted (less : α → α → Bool) (hl : LessLaws less) (l : List α) : SortedBy less (goSort less l) := by
  unfold goSort
  split
  · exact goInsertionSort_sorted less hl l
  · split
    · rename_i r h; exact (goSortPdq?_spec less l r h).2
    · exact goInsertionSort_sorted less hl l

theorem goSort_mem (less : α → α → Bool) (l : List α) (z : α) : z ∈ goSort less l ↔ z ∈ l :=
  (goSort_perm less l).mem_iff

theorem goSort_length (less : α → α → Bool) (l : List α) : (goSort less l).length = l.length :=
  (goSort_perm less l).length_eq

/-- the head of the sorted list is minimal for `less`: nothing in the input is strictly less than it -/
theorem goSort_head_min (less : α → α → Bool) (hl : LessLaws less) (l : List α) (top : α) (rest : List α)
    (h : goSort less l = top :: rest) (hirr : less top top = false) : ∀ x ∈ l, less x top = false := by
  intro x hx
  have hs := goSort_sorted less hl l
  rw [h] at hs
  have hm : x ∈ top :: rest := h ▸ (goSort_perm less l).mem_iff.mpr hx
  rcases List.mem_cons.mp hm with rfl | hm'
  · exact hirr
  · simp only [SortedBy, List.pairwise_cons] at hs
    exact hs.1 x hm'

end GoNeat
