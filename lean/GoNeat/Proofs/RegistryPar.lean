/-
  C16(b): consistency of the shared innovation registry under ARBITRARY interleavings
  (model: GoNeat/Model/RegistryPar.lean).

  Structure of the proof:
    * `CInv` : the invariant of ONE fetch-add counter (issued numbers, numbers held by records, numbers a
      thread holds in its `pc` between issue and store = "pending" numbers), generic in the counter, so that
      it is instantiated twice (innovation numbers, node ids).  Three preservation lemmas
      (`CInv.of_anc` = nothing but pcs shrink, `CInv.issue`, `CInv.store`).
    * `Inv` : the whole-state invariant; four preservation lemmas, one per KIND of micro-step
      (`Inv.quiet`, `Inv.issueInn`, `Inv.issueNode`, `Inv.store`), `Inv.stepThread` dispatches the micro-steps
      of `stepThread` to them, `Inv.step`, `Inv.run` (induction over the scheduler list), `Inv.init`.
    * `interleaved_consistent`.
    * non-vacuity: a concrete epoch in which two threads store DIFFERENT numbers for the same link / split.

  CORE LEAN ONLY.
-/
import GoNeat.Model.RegistryPar

namespace GoNeat.RegPar

/-! ### generic list facts -/

theorem getElem?_set_some {α : Type} {l : List α} {i j : Nat} {a u : α}
    (h : (l.set i a)[j]? = some u) : (j = i ∧ u = a) ∨ (j ≠ i ∧ l[j]? = some u) := by
  rw [List.getElem?_set] at h
  by_cases hij : i = j
  · subst hij
    rw [if_pos rfl] at h
    split at h
    · left; exact ⟨rfl, (Option.some.inj h).symm⟩
    · cases h
  · right
    rw [if_neg hij] at h
    exact ⟨fun e => hij e.symm, h⟩

theorem functional_append {α β : Type} {l₁ l₂ : List (α × β)} (h₁ : Functional l₁) (h₂ : Functional l₂)
    (hd : ∀ a b b', (a, b) ∈ l₁ → (a, b') ∈ l₂ → False) : Functional (l₁ ++ l₂) := by
  intro a b b' hb hb'
  rcases List.mem_append.1 hb with hb | hb <;> rcases List.mem_append.1 hb' with hb' | hb'
  · exact h₁ a b b' hb hb'
  · exact (hd a b b' hb hb').elim
  · exact (hd a b' b hb' hb).elim
  · exact h₂ a b b' hb hb'

theorem functional_of_subset {α β : Type} {l₁ l₂ : List (α × β)} (h : Functional l₂)
    (hs : ∀ b ∈ l₁, b ∈ l₂) : Functional l₁ :=
  fun a b b' hb hb' => h a b b' (hs _ hb) (hs _ hb')

theorem functional_of_nodup_keys {α β : Type} :
    ∀ {l : List (α × β)}, (l.map Prod.fst).Nodup → Functional l
  | [], _ => fun _ _ _ h => by cases h
  | x :: l, h => by
    rw [List.map_cons, List.nodup_cons] at h
    intro a b b' hb hb'
    rcases List.mem_cons.1 hb with hb | hb <;> rcases List.mem_cons.1 hb' with hb' | hb'
    · rw [← hb'] at hb; exact (Prod.mk.inj hb).2
    · exfalso; apply h.1; rw [← hb]; exact List.mem_map.2 ⟨(a, b'), hb', rfl⟩
    · exfalso; apply h.1; rw [← hb']; exact List.mem_map.2 ⟨(a, b), hb, rfl⟩
    · exact functional_of_nodup_keys h.2 a b b' hb hb'

/-- appending one record whose keys are new keeps the bindings functional -/
theorem functional_flatMap_snoc {α β : Type} {f : Rec → List (α × β)} {keys : Rec → List α}
    (hk : ∀ r b, b ∈ f r → b.1 ∈ keys r) {recs : List Rec} {r : Rec}
    (h : Functional (recs.flatMap f)) (hr : Functional (f r))
    (hfresh : ∀ n ∈ keys r, ∀ r' ∈ recs, n ∉ keys r') : Functional ((recs ++ [r]).flatMap f) := by
  rw [List.flatMap_append, List.flatMap_singleton]
  refine functional_append h hr ?_
  intro a b b' hb hb'
  obtain ⟨r', hr', hb⟩ := List.mem_flatMap.1 hb
  exact hfresh a (hk r _ hb') r' hr' (hk r' _ hb)

theorem mem_flatMap_snoc {β : Type} {f : Rec → List β} {recs : List Rec} {r : Rec} {b : β} :
    b ∈ (recs ++ [r]).flatMap f ↔ b ∈ recs.flatMap f ∨ b ∈ f r := by
  rw [List.flatMap_append, List.flatMap_singleton, List.mem_append]

/-! ### keys of records, pending numbers of threads -/

def Rec.keysInn : Rec → List Nat
  | .link _ n => [n]
  | .node _ _ _ _ n1 n2 => [n1, n2]

def Rec.keysNode : Rec → List Nat
  | .link _ _ => []
  | .node _ _ _ nid _ _ => [nid]

/-- innovation numbers a thread has fetched but not yet stored -/
def Pc.pendInn : Pc → List Nat
  | .linkStore n => [n]
  | .nodeNeedInn2 _ n1 => [n1]
  | .nodeStore _ n1 n2 => [n1, n2]
  | _ => []

/-- node ids a thread has fetched but not yet stored -/
def Pc.pendNode : Pc → List Nat
  | .nodeNeedInn1 nid => [nid]
  | .nodeNeedInn2 nid _ => [nid]
  | .nodeStore nid _ _ => [nid]
  | _ => []

theorem Rec.fst_mem_keysInn {linkOf : Nat → Link} (r : Rec) (b : Nat × Link)
    (h : b ∈ r.bindings linkOf) : b.1 ∈ r.keysInn := by
  cases r with
  | link l n =>
    simp only [Rec.bindings, List.mem_singleton] at h
    subst h; simp [Rec.keysInn]
  | node src dst old nid n1 n2 =>
    simp only [Rec.bindings, List.mem_cons, List.not_mem_nil, or_false] at h
    rcases h with h | h <;> subst h <;> simp [Rec.keysInn]

theorem Rec.fst_mem_keysNode (r : Rec) (b : Nat × Role) (h : b ∈ r.nodeBindings) : b.1 ∈ r.keysNode := by
  cases r with
  | link l n => simp [Rec.nodeBindings] at h
  | node src dst old nid n1 n2 =>
    simp only [Rec.nodeBindings, List.mem_singleton] at h
    subst h; simp [Rec.keysNode]

theorem Rec.functional_bindings {linkOf : Nat → Link} {r : Rec} (h : r.keysInn.Nodup) :
    Functional (r.bindings linkOf) := by
  cases r with
  | link l n =>
    intro a b b' hb hb'
    simp only [Rec.bindings, List.mem_singleton, Prod.mk.injEq] at hb hb'
    rw [hb.2, hb'.2]
  | node src dst old nid n1 n2 =>
    have hne : n1 ≠ n2 := by simpa [Rec.keysInn] using h
    intro a b b' hb hb'
    simp only [Rec.bindings, List.mem_cons, List.not_mem_nil, or_false, Prod.mk.injEq] at hb hb'
    rcases hb with ⟨h1, h2⟩ | ⟨h1, h2⟩ <;> rcases hb' with ⟨h1', h2'⟩ | ⟨h1', h2'⟩
    · rw [h2, h2']
    · exact (hne (h1.symm.trans h1')).elim
    · exact (hne (h1'.symm.trans h1)).elim
    · rw [h2, h2']

theorem Rec.functional_nodeBindings (r : Rec) : Functional r.nodeBindings := by
  cases r with
  | link l n => intro a b b' hb; simp [Rec.nodeBindings] at hb
  | node src dst old nid n1 n2 =>
    intro a b b' hb hb'
    simp only [Rec.nodeBindings, List.mem_singleton, Prod.mk.injEq] at hb hb'
    rw [hb.2, hb'.2]

/-! ### the invariant of one counter -/

/-- `base` = the counter at the start of the epoch, `ctr` = now, `issued` = the ghost list of fetch-add results,
    `keys r` = the numbers record `r` holds, `pend pc` = the numbers a thread at `pc` holds privately -/
structure CInv (base ctr : Nat) (issued : List Nat) (recs : List Rec) (keys : Rec → List Nat)
    (pend : Pc → List Nat) (threads : List Thread) : Prop where
  base_le : base ≤ ctr
  issued_nodup : issued.Nodup
  issued_rng : ∀ n ∈ issued, base < n ∧ n ≤ ctr
  keys_le : ∀ r ∈ recs, ∀ n ∈ keys r, n ≤ ctr
  pend_issued : ∀ (i : Nat) (t : Thread), threads[i]? = some t → ∀ n ∈ pend t.pc, n ∈ issued
  pend_fresh : ∀ (i : Nat) (t : Thread), threads[i]? = some t → ∀ n ∈ pend t.pc, ∀ r ∈ recs, n ∉ keys r
  pend_nodup : ∀ (i : Nat) (t : Thread), threads[i]? = some t → (pend t.pc).Nodup
  pend_cross : ∀ (i j : Nat) (t u : Thread), i ≠ j → threads[i]? = some t → threads[j]? = some u →
    ∀ n ∈ pend t.pc, n ∉ pend u.pc

section CInvLemmas
variable {base ctr : Nat} {issued : List Nat} {recs : List Rec} {keys : Rec → List Nat}
  {pend : Pc → List Nat} {threads threads' : List Thread}

/-- every thread of `threads'` holds a sub-list of what the thread with the same index held in `threads` -/
theorem CInv.of_anc (h : CInv base ctr issued recs keys pend threads)
    (hanc : ∀ (j : Nat) (u : Thread), threads'[j]? = some u →
      ∃ u₀ : Thread, threads[j]? = some u₀ ∧ (pend u.pc).Sublist (pend u₀.pc)) :
    CInv base ctr issued recs keys pend threads' where
  base_le := h.base_le
  issued_nodup := h.issued_nodup
  issued_rng := h.issued_rng
  keys_le := h.keys_le
  pend_issued := fun j u hj n hn => by
    obtain ⟨u₀, hj₀, hs⟩ := hanc j u hj
    exact h.pend_issued j u₀ hj₀ n (hs.subset hn)
  pend_fresh := fun j u hj n hn => by
    obtain ⟨u₀, hj₀, hs⟩ := hanc j u hj
    exact h.pend_fresh j u₀ hj₀ n (hs.subset hn)
  pend_nodup := fun j u hj => by
    obtain ⟨u₀, hj₀, hs⟩ := hanc j u hj
    exact (h.pend_nodup j u₀ hj₀).sublist hs
  pend_cross := fun j k u v hjk hj hk n hn hn' => by
    obtain ⟨u₀, hj₀, hs⟩ := hanc j u hj
    obtain ⟨v₀, hk₀, hs'⟩ := hanc k v hk
    exact h.pend_cross j k u₀ v₀ hjk hj₀ hk₀ n (hs.subset hn) (hs'.subset hn')

theorem anc_set {i : Nat} {t t' : Thread} (hi : threads[i]? = some t)
    (hs : (pend t'.pc).Sublist (pend t.pc)) :
    ∀ (j : Nat) (u : Thread), (threads.set i t')[j]? = some u →
      ∃ u₀ : Thread, threads[j]? = some u₀ ∧ (pend u.pc).Sublist (pend u₀.pc) := by
  intro j u hj
  rcases getElem?_set_some hj with ⟨rfl, rfl⟩ | ⟨_, hj⟩
  · exact ⟨t, hi, hs⟩
  · exact ⟨u, hj, List.Sublist.refl _⟩

/-- thread `i` moves, its pending numbers do not grow, nothing else changes -/
theorem CInv.shrink (h : CInv base ctr issued recs keys pend threads) {i : Nat} {t t' : Thread}
    (hi : threads[i]? = some t) (hs : (pend t'.pc).Sublist (pend t.pc)) :
    CInv base ctr issued recs keys pend (threads.set i t') :=
  h.of_anc (anc_set hi hs)

theorem CInv.addRec (h : CInv base ctr issued recs keys pend threads) {r : Rec}
    (hle : ∀ n ∈ keys r, n ≤ ctr)
    (hfr : ∀ (j : Nat) (u : Thread), threads[j]? = some u → ∀ n ∈ pend u.pc, n ∉ keys r) :
    CInv base ctr issued (recs ++ [r]) keys pend threads where
  base_le := h.base_le
  issued_nodup := h.issued_nodup
  issued_rng := h.issued_rng
  keys_le := fun r' hr' n hn => by
    rcases List.mem_append.1 hr' with hr' | hr'
    · exact h.keys_le r' hr' n hn
    · rw [List.mem_singleton.1 hr'] at hn; exact hle n hn
  pend_issued := h.pend_issued
  pend_fresh := fun j u hj n hn r' hr' => by
    rcases List.mem_append.1 hr' with hr' | hr'
    · exact h.pend_fresh j u hj n hn r' hr'
    · rw [List.mem_singleton.1 hr']; exact hfr j u hj n hn
  pend_nodup := h.pend_nodup
  pend_cross := h.pend_cross

/-- thread `i` stores a record made of (some of) its pending numbers and forgets them -/
theorem CInv.store (h : CInv base ctr issued recs keys pend threads) {i : Nat} {t t' : Thread} {r : Rec}
    (hi : threads[i]? = some t) (hk : ∀ n ∈ keys r, n ∈ pend t.pc) (hp : pend t'.pc = []) :
    CInv base ctr issued (recs ++ [r]) keys pend (threads.set i t') := by
  have h1 : CInv base ctr issued recs keys pend (threads.set i t') :=
    h.shrink hi (by rw [hp]; exact List.nil_sublist _)
  refine h1.addRec ?_ ?_
  · intro n hn; exact (h.issued_rng n (h.pend_issued i t hi n (hk n hn))).2
  · intro j u hj n hn hnr
    rcases getElem?_set_some hj with ⟨rfl, rfl⟩ | ⟨hji, hj⟩
    · rw [hp] at hn; cases hn
    · exact h.pend_cross j i u t hji hj hi n hn (hk n hnr)

/-- thread `i` performs the fetch-add and keeps the result -/
theorem CInv.issue (h : CInv base ctr issued recs keys pend threads) {i : Nat} {t t' : Thread}
    (hi : threads[i]? = some t) (hp : pend t'.pc = pend t.pc ++ [ctr + 1]) :
    CInv base (ctr + 1) (issued ++ [ctr + 1]) recs keys pend (threads.set i t') := by
  have hle : ∀ (j : Nat) (u : Thread), threads[j]? = some u → ∀ n ∈ pend u.pc, n ≤ ctr :=
    fun j u hj n hn => (h.issued_rng n (h.pend_issued j u hj n hn)).2
  have hnew : ∀ (j : Nat) (u : Thread), threads[j]? = some u → ctr + 1 ∉ pend u.pc :=
    fun j u hj hn => by have := hle j u hj _ hn; omega
  refine
    { base_le := Nat.le_succ_of_le h.base_le
      issued_nodup := ?_, issued_rng := ?_, keys_le := ?_, pend_issued := ?_, pend_fresh := ?_
      pend_nodup := ?_, pend_cross := ?_ }
  · refine List.nodup_append.2 ⟨h.issued_nodup, (by simp), ?_⟩
    intro a ha b hb
    rw [List.mem_singleton.1 hb]
    have := (h.issued_rng a ha).2; omega
  · intro n hn
    rcases List.mem_append.1 hn with hn | hn
    · have := h.issued_rng n hn; exact ⟨this.1, Nat.le_succ_of_le this.2⟩
    · rw [List.mem_singleton.1 hn]; have := h.base_le; omega
  · intro r hr n hn; exact Nat.le_succ_of_le (h.keys_le r hr n hn)
  · intro j u hj n hn
    rcases getElem?_set_some hj with ⟨rfl, rfl⟩ | ⟨_, hj⟩
    · rw [hp] at hn
      rcases List.mem_append.1 hn with hn | hn
      · exact List.mem_append_left _ (h.pend_issued _ t hi n hn)
      · exact List.mem_append_right _ hn
    · exact List.mem_append_left _ (h.pend_issued j u hj n hn)
  · intro j u hj n hn r hr hnr
    rcases getElem?_set_some hj with ⟨rfl, rfl⟩ | ⟨_, hj⟩
    · rw [hp] at hn
      rcases List.mem_append.1 hn with hn | hn
      · exact h.pend_fresh _ t hi n hn r hr hnr
      · rw [List.mem_singleton.1 hn] at hnr
        have := h.keys_le r hr _ hnr; omega
    · exact h.pend_fresh j u hj n hn r hr hnr
  · intro j u hj
    rcases getElem?_set_some hj with ⟨rfl, rfl⟩ | ⟨_, hj⟩
    · rw [hp]
      refine List.nodup_append.2 ⟨h.pend_nodup _ t hi, (by simp), ?_⟩
      intro a ha b hb
      rw [List.mem_singleton.1 hb]
      have := hle _ t hi a ha; omega
    · exact h.pend_nodup j u hj
  · intro j k u v hjk hj hk n hn hn'
    rcases getElem?_set_some hj with ⟨rfl, rfl⟩ | ⟨hji, hj₀⟩
    · rcases getElem?_set_some hk with ⟨rfl, rfl⟩ | ⟨hki, hk⟩
      · exact hjk rfl
      · rw [hp] at hn
        rcases List.mem_append.1 hn with hn | hn
        · exact h.pend_cross _ k t v hjk hi hk n hn hn'
        · rw [List.mem_singleton.1 hn] at hn'; exact hnew k v hk hn'
    · rcases getElem?_set_some hk with ⟨rfl, rfl⟩ | ⟨hki, hk⟩
      · rw [hp] at hn'
        rcases List.mem_append.1 hn' with hn' | hn'
        · exact h.pend_cross j _ u t hjk hj₀ hi n hn hn'
        · rw [List.mem_singleton.1 hn'] at hn; exact hnew j u hj₀ hn
      · exact h.pend_cross j k u v hjk hj₀ hk n hn hn'

end CInvLemmas

/-! ### the invariant of the whole state -/

structure Inv (linkOf : Nat → Link) (s₀ : Shared) (st : State) : Prop where
  inn : CInv s₀.nextInn st.shared.nextInn st.shared.issuedInn st.shared.records Rec.keysInn Pc.pendInn
    st.threads
  node : CInv s₀.nextNode st.shared.nextNode st.shared.issuedNode st.shared.records Rec.keysNode Pc.pendNode
    st.threads
  func : Functional (st.shared.records.flatMap (Rec.bindings linkOf))
  nfunc : Functional (st.shared.records.flatMap Rec.nodeBindings)
  log_sub : ∀ b ∈ st.shared.log, b ∈ st.shared.records.flatMap (Rec.bindings linkOf)
  nlog_sub : ∀ b ∈ st.shared.nodeLog, b ∈ st.shared.records.flatMap Rec.nodeBindings
  ext : ∃ ext, st.shared.records = s₀.records ++ ext ∧
    (∀ r ∈ ext, ∀ n ∈ r.keysInn, n ∈ st.shared.issuedInn) ∧
    (∀ r ∈ ext, ∀ n ∈ r.keysNode, n ∈ st.shared.issuedNode)

section InvLemmas
variable {linkOf : Nat → Link} {s₀ : Shared} {st : State} {i : Nat} {t t' : Thread} {s' : Shared}

/-- a micro-step that touches neither the records nor the counters: snapshot without match, reuse of an
    existing record, the no-op fallbacks -/
theorem Inv.quiet (h : Inv linkOf s₀ st) (hi : st.threads[i]? = some t)
    (hrec : s'.records = st.shared.records) (hni : s'.nextInn = st.shared.nextInn)
    (hnn : s'.nextNode = st.shared.nextNode) (hii : s'.issuedInn = st.shared.issuedInn)
    (hin : s'.issuedNode = st.shared.issuedNode)
    (hlog : ∀ b ∈ s'.log, b ∈ st.shared.log ∨ b ∈ st.shared.records.flatMap (Rec.bindings linkOf))
    (hnlog : ∀ b ∈ s'.nodeLog, b ∈ st.shared.nodeLog ∨ b ∈ st.shared.records.flatMap Rec.nodeBindings)
    (hpi : t'.pc.pendInn.Sublist t.pc.pendInn) (hpn : t'.pc.pendNode.Sublist t.pc.pendNode) :
    Inv linkOf s₀ ⟨s', st.threads.set i t'⟩ where
  inn := by
    show CInv _ s'.nextInn s'.issuedInn s'.records _ _ _
    rw [hrec, hni, hii]; exact h.inn.shrink hi hpi
  node := by
    show CInv _ s'.nextNode s'.issuedNode s'.records _ _ _
    rw [hrec, hnn, hin]; exact h.node.shrink hi hpn
  func := by
    show Functional (s'.records.flatMap _)
    rw [hrec]; exact h.func
  nfunc := by
    show Functional (s'.records.flatMap _)
    rw [hrec]; exact h.nfunc
  log_sub := by
    show ∀ b ∈ s'.log, b ∈ s'.records.flatMap _
    rw [hrec]; intro b hb
    rcases hlog b hb with hb | hb
    · exact h.log_sub b hb
    · exact hb
  nlog_sub := by
    show ∀ b ∈ s'.nodeLog, b ∈ s'.records.flatMap _
    rw [hrec]; intro b hb
    rcases hnlog b hb with hb | hb
    · exact h.nlog_sub b hb
    · exact hb
  ext := by
    show ∃ ext : List Rec, s'.records = s₀.records ++ ext ∧
      (∀ r ∈ ext, ∀ n ∈ Rec.keysInn r, n ∈ s'.issuedInn) ∧
      (∀ r ∈ ext, ∀ n ∈ Rec.keysNode r, n ∈ s'.issuedNode)
    rw [hrec, hii, hin]; exact h.ext

/-- fetch-add on the innovation counter -/
theorem Inv.issueInn (h : Inv linkOf s₀ st) (hi : st.threads[i]? = some t)
    (hrec : s'.records = st.shared.records) (hni : s'.nextInn = st.shared.nextInn + 1)
    (hnn : s'.nextNode = st.shared.nextNode)
    (hii : s'.issuedInn = st.shared.issuedInn ++ [st.shared.nextInn + 1])
    (hin : s'.issuedNode = st.shared.issuedNode)
    (hlog : s'.log = st.shared.log) (hnlog : s'.nodeLog = st.shared.nodeLog)
    (hpi : t'.pc.pendInn = t.pc.pendInn ++ [st.shared.nextInn + 1])
    (hpn : t'.pc.pendNode = t.pc.pendNode) :
    Inv linkOf s₀ ⟨s', st.threads.set i t'⟩ where
  inn := by
    show CInv _ s'.nextInn s'.issuedInn s'.records _ _ _
    rw [hrec, hni, hii]; exact h.inn.issue hi hpi
  node := by
    show CInv _ s'.nextNode s'.issuedNode s'.records _ _ _
    rw [hrec, hnn, hin]; exact h.node.shrink hi (by rw [hpn]; exact List.Sublist.refl _)
  func := by
    show Functional (s'.records.flatMap _)
    rw [hrec]; exact h.func
  nfunc := by
    show Functional (s'.records.flatMap _)
    rw [hrec]; exact h.nfunc
  log_sub := by
    show ∀ b ∈ s'.log, b ∈ s'.records.flatMap _
    rw [hrec, hlog]; exact h.log_sub
  nlog_sub := by
    show ∀ b ∈ s'.nodeLog, b ∈ s'.records.flatMap _
    rw [hrec, hnlog]; exact h.nlog_sub
  ext := by
    show ∃ ext : List Rec, s'.records = s₀.records ++ ext ∧
      (∀ r ∈ ext, ∀ n ∈ Rec.keysInn r, n ∈ s'.issuedInn) ∧
      (∀ r ∈ ext, ∀ n ∈ Rec.keysNode r, n ∈ s'.issuedNode)
    rw [hrec, hii, hin]
    obtain ⟨ext, he, h1, h2⟩ := h.ext
    exact ⟨ext, he, fun r hr n hn => List.mem_append_left _ (h1 r hr n hn), h2⟩

/-- fetch-add on the node-id counter -/
theorem Inv.issueNode (h : Inv linkOf s₀ st) (hi : st.threads[i]? = some t)
    (hrec : s'.records = st.shared.records) (hni : s'.nextInn = st.shared.nextInn)
    (hnn : s'.nextNode = st.shared.nextNode + 1)
    (hii : s'.issuedInn = st.shared.issuedInn)
    (hin : s'.issuedNode = st.shared.issuedNode ++ [st.shared.nextNode + 1])
    (hlog : s'.log = st.shared.log) (hnlog : s'.nodeLog = st.shared.nodeLog)
    (hpi : t'.pc.pendInn = t.pc.pendInn)
    (hpn : t'.pc.pendNode = t.pc.pendNode ++ [st.shared.nextNode + 1]) :
    Inv linkOf s₀ ⟨s', st.threads.set i t'⟩ where
  inn := by
    show CInv _ s'.nextInn s'.issuedInn s'.records _ _ _
    rw [hrec, hni, hii]; exact h.inn.shrink hi (by rw [hpi]; exact List.Sublist.refl _)
  node := by
    show CInv _ s'.nextNode s'.issuedNode s'.records _ _ _
    rw [hrec, hnn, hin]; exact h.node.issue hi hpn
  func := by
    show Functional (s'.records.flatMap _)
    rw [hrec]; exact h.func
  nfunc := by
    show Functional (s'.records.flatMap _)
    rw [hrec]; exact h.nfunc
  log_sub := by
    show ∀ b ∈ s'.log, b ∈ s'.records.flatMap _
    rw [hrec, hlog]; exact h.log_sub
  nlog_sub := by
    show ∀ b ∈ s'.nodeLog, b ∈ s'.records.flatMap _
    rw [hrec, hnlog]; exact h.nlog_sub
  ext := by
    show ∃ ext : List Rec, s'.records = s₀.records ++ ext ∧
      (∀ r ∈ ext, ∀ n ∈ Rec.keysInn r, n ∈ s'.issuedInn) ∧
      (∀ r ∈ ext, ∀ n ∈ Rec.keysNode r, n ∈ s'.issuedNode)
    rw [hrec, hii, hin]
    obtain ⟨ext, he, h1, h2⟩ := h.ext
    exact ⟨ext, he, h1, fun r hr n hn => List.mem_append_left _ (h2 r hr n hn)⟩

/-- the thread stores the record built from exactly its pending numbers -/
theorem Inv.store (h : Inv linkOf s₀ st) (hi : st.threads[i]? = some t) {r : Rec}
    (hrec : s'.records = st.shared.records ++ [r]) (hni : s'.nextInn = st.shared.nextInn)
    (hnn : s'.nextNode = st.shared.nextNode) (hii : s'.issuedInn = st.shared.issuedInn)
    (hin : s'.issuedNode = st.shared.issuedNode)
    (hlog : ∀ b ∈ s'.log, b ∈ st.shared.log ∨ b ∈ r.bindings linkOf)
    (hnlog : ∀ b ∈ s'.nodeLog, b ∈ st.shared.nodeLog ∨ b ∈ r.nodeBindings)
    (hki : r.keysInn = t.pc.pendInn) (hkn : r.keysNode = t.pc.pendNode)
    (hpi : t'.pc.pendInn = []) (hpn : t'.pc.pendNode = []) :
    Inv linkOf s₀ ⟨s', st.threads.set i t'⟩ where
  inn := by
    show CInv _ s'.nextInn s'.issuedInn s'.records _ _ _
    rw [hrec, hni, hii]; exact h.inn.store hi (fun n hn => hki ▸ hn) hpi
  node := by
    show CInv _ s'.nextNode s'.issuedNode s'.records _ _ _
    rw [hrec, hnn, hin]; exact h.node.store hi (fun n hn => hkn ▸ hn) hpn
  func := by
    show Functional (s'.records.flatMap _)
    rw [hrec]
    refine functional_flatMap_snoc (keys := Rec.keysInn) Rec.fst_mem_keysInn h.func
      (Rec.functional_bindings (by rw [hki]; exact h.inn.pend_nodup i t hi)) ?_
    intro n hn r' hr'
    exact h.inn.pend_fresh i t hi n (hki ▸ hn) r' hr'
  nfunc := by
    show Functional (s'.records.flatMap _)
    rw [hrec]
    refine functional_flatMap_snoc (keys := Rec.keysNode) Rec.fst_mem_keysNode h.nfunc
      (Rec.functional_nodeBindings r) ?_
    intro n hn r' hr'
    exact h.node.pend_fresh i t hi n (hkn ▸ hn) r' hr'
  log_sub := by
    show ∀ b ∈ s'.log, b ∈ s'.records.flatMap _
    rw [hrec]; intro b hb
    rcases hlog b hb with hb | hb
    · exact mem_flatMap_snoc.2 (Or.inl (h.log_sub b hb))
    · exact mem_flatMap_snoc.2 (Or.inr hb)
  nlog_sub := by
    show ∀ b ∈ s'.nodeLog, b ∈ s'.records.flatMap _
    rw [hrec]; intro b hb
    rcases hnlog b hb with hb | hb
    · exact mem_flatMap_snoc.2 (Or.inl (h.nlog_sub b hb))
    · exact mem_flatMap_snoc.2 (Or.inr hb)
  ext := by
    show ∃ ext : List Rec, s'.records = s₀.records ++ ext ∧
      (∀ r ∈ ext, ∀ n ∈ Rec.keysInn r, n ∈ s'.issuedInn) ∧
      (∀ r ∈ ext, ∀ n ∈ Rec.keysNode r, n ∈ s'.issuedNode)
    rw [hrec, hii, hin]
    obtain ⟨ext, he, h1, h2⟩ := h.ext
    refine ⟨ext ++ [r], by rw [he, List.append_assoc], ?_, ?_⟩
    · intro r' hr' n hn
      rcases List.mem_append.1 hr' with hr' | hr'
      · exact h1 r' hr' n hn
      · rw [List.mem_singleton.1 hr', hki] at hn; exact h.inn.pend_issued i t hi n hn
    · intro r' hr' n hn
      rcases List.mem_append.1 hr' with hr' | hr'
      · exact h2 r' hr' n hn
      · rw [List.mem_singleton.1 hr', hkn] at hn; exact h.node.pend_issued i t hi n hn

/-- the no-op: shared state and thread unchanged -/
theorem Inv.noop (h : Inv linkOf s₀ st) (hi : st.threads[i]? = some t) :
    Inv linkOf s₀ ⟨st.shared, st.threads.set i t⟩ :=
  h.quiet hi rfl rfl rfl rfl rfl (fun _ hb => Or.inl hb) (fun _ hb => Or.inl hb)
    (List.Sublist.refl _) (List.Sublist.refl _)

/-- every micro-step of `stepThread` is of one of the four kinds -/
theorem Inv.stepThread (h : Inv linkOf s₀ st) (hi : st.threads[i]? = some t) :
    Inv linkOf s₀ ⟨(stepThread linkOf st.shared t).1, st.threads.set i (stepThread linkOf st.shared t).2⟩ := by
  obtain ⟨todo, pc⟩ := t
  cases todo with
  | nil => exact h.noop hi
  | cons rq rest =>
    cases rq with
    | addLink l =>
      cases pc with
      | idle =>
        simp only [GoNeat.RegPar.stepThread]
        split
        next r hr =>
          have hmem : r ∈ st.shared.records := List.mem_of_find?_eq_some hr
          refine h.quiet hi rfl rfl rfl rfl rfl ?_ (fun _ hb => Or.inl hb)
            (List.nil_sublist _) (List.nil_sublist _)
          intro b hb
          rcases List.mem_append.1 hb with hb | hb
          · exact Or.inl hb
          · exact Or.inr (List.mem_flatMap.2 ⟨r, hmem, hb⟩)
        next =>
          exact h.quiet hi rfl rfl rfl rfl rfl (fun _ hb => Or.inl hb) (fun _ hb => Or.inl hb)
            (List.nil_sublist _) (List.nil_sublist _)
      | linkNeedInn => exact h.issueInn hi rfl rfl rfl rfl rfl rfl rfl rfl rfl
      | linkStore n =>
        exact h.store (r := .link l n) hi rfl rfl rfl rfl rfl (fun _ hb => List.mem_append.1 hb)
          (fun _ hb => Or.inl hb) rfl rfl rfl rfl
      | nodeNeedNode => exact h.noop hi
      | nodeNeedInn1 nid => exact h.noop hi
      | nodeNeedInn2 nid n1 => exact h.noop hi
      | nodeStore nid n1 n2 => exact h.noop hi
    | addNode old =>
      cases pc with
      | idle =>
        simp only [GoNeat.RegPar.stepThread]
        split
        next r hr =>
          have hmem : r ∈ st.shared.records := List.mem_of_find?_eq_some hr
          refine h.quiet hi rfl rfl rfl rfl rfl ?_ ?_ (List.nil_sublist _) (List.nil_sublist _)
          · intro b hb
            rcases List.mem_append.1 hb with hb | hb
            · exact Or.inl hb
            · exact Or.inr (List.mem_flatMap.2 ⟨r, hmem, hb⟩)
          · intro b hb
            rcases List.mem_append.1 hb with hb | hb
            · exact Or.inl hb
            · exact Or.inr (List.mem_flatMap.2 ⟨r, hmem, hb⟩)
        next =>
          exact h.quiet hi rfl rfl rfl rfl rfl (fun _ hb => Or.inl hb) (fun _ hb => Or.inl hb)
            (List.nil_sublist _) (List.nil_sublist _)
      | linkNeedInn => exact h.noop hi
      | linkStore n => exact h.noop hi
      | nodeNeedNode => exact h.issueNode hi rfl rfl rfl rfl rfl rfl rfl rfl rfl
      | nodeNeedInn1 nid => exact h.issueInn hi rfl rfl rfl rfl rfl rfl rfl rfl rfl
      | nodeNeedInn2 nid n1 => exact h.issueInn hi rfl rfl rfl rfl rfl rfl rfl rfl rfl
      | nodeStore nid n1 n2 =>
        exact h.store (r := .node (linkOf old).src (linkOf old).dst old nid n1 n2) hi
          rfl rfl rfl rfl rfl (fun _ hb => List.mem_append.1 hb) (fun _ hb => List.mem_append.1 hb)
          rfl rfl rfl rfl

end InvLemmas

theorem step_eq (linkOf : Nat → Link) (st : State) (i : Nat) :
    step linkOf st i =
      match st.threads[i]? with
      | none => st
      | some t => ⟨(stepThread linkOf st.shared t).1, st.threads.set i (stepThread linkOf st.shared t).2⟩ := by
  unfold step
  cases st.threads[i]? with
  | none => rfl
  | some t => rfl

theorem Inv.step {linkOf : Nat → Link} {s₀ : Shared} {st : State} (h : Inv linkOf s₀ st) (i : Nat) :
    Inv linkOf s₀ (step linkOf st i) := by
  rw [step_eq]
  split
  next => exact h
  next t hi => exact h.stepThread hi

theorem Inv.run {linkOf : Nat → Link} {s₀ : Shared} (sched : List Nat) :
    ∀ {st : State}, Inv linkOf s₀ st → Inv linkOf s₀ (runSched linkOf st sched) := by
  induction sched with
  | nil => intro st h; exact h
  | cons i sched ih =>
    intro st h
    show Inv linkOf s₀ (runSched linkOf (GoNeat.RegPar.step linkOf st i) sched)
    exact ih (h.step i)

theorem initState_pc {s₀ : Shared} {progs : List (List Req)} {i : Nat} {t : Thread}
    (h : (initState s₀ progs).threads[i]? = some t) : t.pc = .idle := by
  simp only [initState, List.getElem?_map] at h
  cases hp : progs[i]? with
  | none => rw [hp] at h; cases h
  | some p => rw [hp] at h; cases h; rfl

theorem Inv.init {linkOf : Nat → Link} {s₀ : Shared} (h₀ : RegInv₀ linkOf s₀) (progs : List (List Req)) :
    Inv linkOf s₀ (initState s₀ progs) := by
  obtain ⟨hlog, hnlog, hii, hin⟩ := h₀.log_empty
  have hpi : ∀ (i : Nat) (t : Thread), (initState s₀ progs).threads[i]? = some t → t.pc.pendInn = [] :=
    fun i t hi => by rw [initState_pc hi]; rfl
  have hpn : ∀ (i : Nat) (t : Thread), (initState s₀ progs).threads[i]? = some t → t.pc.pendNode = [] :=
    fun i t hi => by rw [initState_pc hi]; rfl
  refine
    { inn := ?_, node := ?_, func := h₀.functional, nfunc := h₀.nodeFunctional, log_sub := ?_, nlog_sub := ?_
      ext := ⟨[], (List.append_nil _).symm, (fun _ hr => by cases hr), (fun _ hr => by cases hr)⟩ }
  · show CInv _ s₀.nextInn s₀.issuedInn s₀.records _ _ _
    rw [hii]
    refine
      { base_le := Nat.le_refl _, issued_nodup := List.nodup_nil, issued_rng := fun _ hn => by cases hn
        keys_le := ?_, pend_issued := ?_, pend_fresh := ?_, pend_nodup := ?_, pend_cross := ?_ }
    · intro r hr n hn
      cases r with
      | link l m =>
        have := h₀.bindings_le _ hr (m, l) (by simp [Rec.bindings])
        simp only [Rec.keysInn, List.mem_singleton] at hn
        subst hn; exact this
      | node src dst old nid n1 n2 =>
        have h1 := h₀.bindings_le _ hr (n1, _) (List.mem_cons_self ..)
        have h2 := h₀.bindings_le _ hr (n2, _) (List.mem_cons_of_mem _ (List.mem_cons_self ..))
        simp only [Rec.keysInn, List.mem_cons, List.not_mem_nil, or_false] at hn
        rcases hn with hn | hn <;> subst hn
        · exact h1
        · exact h2
    · intro i t hi n hn; rw [hpi i t hi] at hn; cases hn
    · intro i t hi n hn; rw [hpi i t hi] at hn; cases hn
    · intro i t hi; rw [hpi i t hi]; exact List.nodup_nil
    · intro i j t u _ hi _ n hn; rw [hpi i t hi] at hn; cases hn
  · show CInv _ s₀.nextNode s₀.issuedNode s₀.records _ _ _
    rw [hin]
    refine
      { base_le := Nat.le_refl _, issued_nodup := List.nodup_nil, issued_rng := fun _ hn => by cases hn
        keys_le := ?_, pend_issued := ?_, pend_fresh := ?_, pend_nodup := ?_, pend_cross := ?_ }
    · intro r hr n hn
      cases r with
      | link l m => simp [Rec.keysNode] at hn
      | node src dst old nid n1 n2 =>
        have h1 := h₀.nodes_le _ hr (nid, ⟨old⟩) (by simp [Rec.nodeBindings])
        simp only [Rec.keysNode, List.mem_singleton] at hn
        subst hn; exact h1
    · intro i t hi n hn; rw [hpn i t hi] at hn; cases hn
    · intro i t hi n hn; rw [hpn i t hi] at hn; cases hn
    · intro i t hi; rw [hpn i t hi]; exact List.nodup_nil
    · intro i j t u _ hi _ n hn; rw [hpn i t hi] at hn; cases hn
  · show ∀ b ∈ s₀.log, _
    rw [hlog]; intro b hb; cases hb
  · show ∀ b ∈ s₀.nodeLog, _
    rw [hnlog]; intro b hb; cases hb

/-- the invariant holds after ANY schedule -/
theorem inv_runSched {linkOf : Nat → Link} {s₀ : Shared} (h₀ : RegInv₀ linkOf s₀) (progs : List (List Req))
    (sched : List Nat) : Inv linkOf s₀ (runSched linkOf (initState s₀ progs) sched) :=
  Inv.run sched (Inv.init h₀ progs)

/-! ### main theorem -/

theorem interleaved_consistent (linkOf : Nat → Link) (progs : List (List Req)) (sched : List Nat) (s₀ : Shared)
    (h₀ : RegInv₀ linkOf s₀) :
    let s := (runSched linkOf (initState s₀ progs) sched).shared
    -- an innovation number denotes one connection, a node id one role
    Functional s.log ∧ Functional s.nodeLog ∧
    Functional (s.records.flatMap (Rec.bindings linkOf)) ∧ Functional (s.records.flatMap Rec.nodeBindings) ∧
    -- issued numbers are pairwise distinct and above the epoch's base counters
    s.issuedInn.Nodup ∧ (∀ n ∈ s.issuedInn, s₀.nextInn < n) ∧
    s.issuedNode.Nodup ∧ (∀ n ∈ s.issuedNode, s₀.nextNode < n) ∧
    -- every number a thread put into a gene is either freshly issued in this epoch or keeps the meaning the
    -- registry gave it before
    (∀ b ∈ s.log, b.1 ∈ s.issuedInn ∨ b ∈ s₀.records.flatMap (Rec.bindings linkOf)) ∧
    (∀ b ∈ s.nodeLog, b.1 ∈ s.issuedNode ∨ b ∈ s₀.records.flatMap Rec.nodeBindings) ∧
    -- the log agrees with the records (a stored record and the genes that use its numbers say the same)
    (∀ b ∈ s.log, b ∈ s.records.flatMap (Rec.bindings linkOf)) ∧
    -- the records only grow
    (∃ ext, s.records = s₀.records ++ ext) := by
  intro s
  have h : Inv linkOf s₀ (runSched linkOf (initState s₀ progs) sched) := inv_runSched h₀ progs sched
  obtain ⟨ext, he, h1, h2⟩ := h.ext
  refine ⟨functional_of_subset h.func h.log_sub, functional_of_subset h.nfunc h.nlog_sub, h.func, h.nfunc,
    h.inn.issued_nodup, fun n hn => (h.inn.issued_rng n hn).1,
    h.node.issued_nodup, fun n hn => (h.node.issued_rng n hn).1, ?_, ?_, h.log_sub, ⟨ext, he⟩⟩
  · intro b hb
    have hb' := h.log_sub b hb
    rw [he, List.flatMap_append, List.mem_append] at hb'
    rcases hb' with hb' | hb'
    · exact Or.inr hb'
    · obtain ⟨r, hr, hbr⟩ := List.mem_flatMap.1 hb'
      exact Or.inl (h1 r hr _ (Rec.fst_mem_keysInn r b hbr))
  · intro b hb
    have hb' := h.nlog_sub b hb
    rw [he, List.flatMap_append, List.mem_append] at hb'
    rcases hb' with hb' | hb'
    · exact Or.inr hb'
    · obtain ⟨r, hr, hbr⟩ := List.mem_flatMap.1 hb'
      exact Or.inl (h2 r hr _ (Rec.fst_mem_keysNode r b hbr))

/-! ### non-vacuity: a concrete epoch with a race

  The registry starts with one link record (`1→3` has number 1) and one node record (gene 2 = `2→3` was split by
  node 4 into genes 5 and 6); both counters stand at 10.  Threads 0 and 1 both request the NEW link `1→4` and
  then both split gene 1; thread 2 requests things the registry already knows.  The schedule lets threads 0
  and 1 take their snapshots before either of them stores, so both miss the other's record: the resulting
  registry has TWO records for the link `1→4` (numbers 11 and 12) and TWO records for the split of gene 1
  (nodes 11 and 12, genes 13/15 and 14/16) — duplicates are possible in parallel — and yet every number has a
  single meaning (the theorem applies; its hypotheses are satisfiable). -/
namespace Example

def linkOf : Nat → Link
  | 1 => ⟨1, 3, false⟩
  | 2 => ⟨2, 3, false⟩
  | _ => ⟨0, 0, false⟩

def s₀ : Shared :=
  { records := [.link ⟨1, 3, false⟩ 1, .node 2 3 2 4 5 6]
    nextInn := 10, nextNode := 10, log := [], nodeLog := [], issuedInn := [], issuedNode := [] }

def progs : List (List Req) :=
  [ [.addLink ⟨1, 4, false⟩, .addNode 1],
    [.addLink ⟨1, 4, false⟩, .addNode 1],
    [.addLink ⟨1, 3, false⟩, .addNode 2] ]

/-- threads 0 and 1 in lock-step (snapshot, snapshot, issue, issue, store, store, …), thread 2 in between;
    picks of a non-existent thread (7) and of finished threads at the end are no-ops -/
def sched : List Nat :=
  [0, 1, 2, 0, 1, 0, 1,            -- add-link: both snapshot, (thread 2 reuses record 1), both issue, both store
   0, 1, 0, 1, 2, 7, 0, 1, 0, 1, 0, 1,  -- add-node: both snapshot, both fetch a node id, (thread 2 reuses), 2×2 inns, both store
   0, 2, 1]

theorem regInv₀ : RegInv₀ linkOf s₀ where
  bindings_le := by decide
  nodes_le := by decide
  functional := functional_of_nodup_keys (by decide)
  nodeFunctional := functional_of_nodup_keys (by decide)
  nodeRecs := by
    intro src dst old nid n1 n2 h
    simp only [s₀, List.mem_cons, List.not_mem_nil, or_false, reduceCtorEq, false_or, Rec.node.injEq] at h
    obtain ⟨rfl, rfl, rfl, -⟩ := h
    exact ⟨rfl, rfl⟩
  log_empty := ⟨rfl, rfl, rfl, rfl⟩

/-- the final registry: the race produced duplicate records with different numbers -/
theorem final_records :
    (runSched linkOf (initState s₀ progs) sched).shared.records =
      s₀.records ++ [.link ⟨1, 4, false⟩ 11, .link ⟨1, 4, false⟩ 12,
                     .node 1 3 1 11 13 15, .node 1 3 1 12 14 16] := by decide

/-- every thread ran to completion -/
theorem final_threads :
    (runSched linkOf (initState s₀ progs) sched).threads = [⟨[], .idle⟩, ⟨[], .idle⟩, ⟨[], .idle⟩] := by decide

/-- what the threads put into their genes (thread 2 reused the old numbers 1, 5, 6 and node 4) -/
theorem final_logs :
    (runSched linkOf (initState s₀ progs) sched).shared.log =
      [(1, ⟨1, 3, false⟩), (11, ⟨1, 4, false⟩), (12, ⟨1, 4, false⟩), (5, ⟨2, 4, false⟩), (6, ⟨4, 3, false⟩),
       (13, ⟨1, 11, false⟩), (15, ⟨11, 3, false⟩), (14, ⟨1, 12, false⟩), (16, ⟨12, 3, false⟩)] ∧
    (runSched linkOf (initState s₀ progs) sched).shared.nodeLog = [(4, ⟨2⟩), (11, ⟨1⟩), (12, ⟨1⟩)] ∧
    (runSched linkOf (initState s₀ progs) sched).shared.issuedInn = [11, 12, 13, 14, 15, 16] ∧
    (runSched linkOf (initState s₀ progs) sched).shared.issuedNode = [11, 12] := by decide

/-- duplicates happen (same link, two numbers; same split, two nodes) … -/
example :
    let s := (runSched linkOf (initState s₀ progs) sched).shared
    (∃ l n m, n ≠ m ∧ Rec.link l n ∈ s.records ∧ Rec.link l m ∈ s.records) ∧
    (∃ src dst old nid nid' a b c d, nid ≠ nid' ∧
      Rec.node src dst old nid a b ∈ s.records ∧ Rec.node src dst old nid' c d ∈ s.records) := by
  intro s
  refine ⟨⟨⟨1, 4, false⟩, 11, 12, by decide, ?_, ?_⟩, ⟨1, 3, 1, 11, 12, 13, 15, 14, 16, by decide, ?_, ?_⟩⟩ <;>
    (show _ ∈ (runSched linkOf (initState s₀ progs) sched).shared.records; rw [final_records]; decide)

/-- … and the theorem's conclusions hold for this run (instance of `interleaved_consistent`) -/
example :
    let s := (runSched linkOf (initState s₀ progs) sched).shared
    Functional s.log ∧ Functional s.nodeLog ∧
    Functional (s.records.flatMap (Rec.bindings linkOf)) ∧ Functional (s.records.flatMap Rec.nodeBindings) ∧
    s.issuedInn.Nodup ∧ (∀ n ∈ s.issuedInn, s₀.nextInn < n) ∧
    s.issuedNode.Nodup ∧ (∀ n ∈ s.issuedNode, s₀.nextNode < n) ∧
    (∀ b ∈ s.log, b.1 ∈ s.issuedInn ∨ b ∈ s₀.records.flatMap (Rec.bindings linkOf)) ∧
    (∀ b ∈ s.nodeLog, b.1 ∈ s.issuedNode ∨ b ∈ s₀.records.flatMap Rec.nodeBindings) ∧
    (∀ b ∈ s.log, b ∈ s.records.flatMap (Rec.bindings linkOf)) ∧
    (∃ ext, s.records = s₀.records ++ ext) :=
  interleaved_consistent linkOf progs sched s₀ regInv₀

end Example

end GoNeat.RegPar
