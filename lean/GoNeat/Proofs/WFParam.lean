/-
  C01 helper lemmas: every parametric mutation is a skeleton-preserving step (`SameSkel`) whose trait references
  still resolve.  Built on the C05 theorems (`*_paramOnly`, `mutateToggleEnable_spec`, `mutateGeneReEnable_spec`).
-/
import GoNeat.Proofs.WFLemmas
import GoNeat.Props.C05

namespace GoNeat.C01
open GoNeat Scalar
variable {W : Type} [Scalar W]

omit [Scalar W] in
theorem mem_modify {α} (f : α → α) (l : List α) (k : Nat) (x : α) (h : x ∈ l.modify k f) :
    x ∈ l ∨ ∃ y ∈ l, x = f y := by
  induction l generalizing k with
  | nil => simp at h
  | cons a t ih =>
    cases k with
    | zero =>
      simp only [List.modify_zero_cons, List.mem_cons] at h
      rcases h with rfl | h
      · exact Or.inr ⟨a, by simp, rfl⟩
      · exact Or.inl (List.mem_cons_of_mem _ h)
    | succ k =>
      simp only [List.modify_succ_cons, List.mem_cons] at h
      rcases h with rfl | h
      · exact Or.inl (by simp)
      · rcases ih k h with h | ⟨y, hy, e⟩
        · exact Or.inl (List.mem_cons_of_mem _ h)
        · exact Or.inr ⟨y, List.mem_cons_of_mem _ hy, e⟩

omit [Scalar W] in
theorem traitRefsOwned_of (g g' : Genome W) (ht : traitIds g' = traitIds g)
    (hg : ∀ x ∈ g'.genes, TraitRefOk g x.trait) (hn : ∀ n ∈ g'.nodes, TraitRefOk g n.trait) : TraitRefsOwned g' :=
  ⟨fun x hx => traitRefOk_congr g g' ht _ (hg x hx), fun n hn' => traitRefOk_congr g g' ht _ (hn n hn')⟩

omit [Scalar W] in
/-- the reference `traitAt` hands out resolves (given that no trait has id 0) -/
theorem traitAt_ok (g : Genome W) (i : Int) (tr : Option Int) (h : traitAt g i = .ok tr) (hz : TraitIdsNonzero g) :
    TraitRefOk g tr := by
  unfold traitAt at h
  split at h
  · cases h
  · split at h
    · cases h
    · rename_i t ht
      cases h
      have hm : t ∈ g.traits := List.mem_of_getElem? ht
      exact ⟨hz t hm, List.mem_map_of_mem hm⟩

omit [Scalar W] in
theorem core_to_key (l l' : List (Gene W)) (h : l'.map C05.Gene.core = l.map C05.Gene.core) :
    l'.map geneKey = l.map geneKey := by
  have := congrArg (List.map (fun c : Int × Int × Int × Bool × Bool × Option Int => (c.1, (c.2.1, c.2.2.1, c.2.2.2.1)))) h
  simp only [List.map_map, Function.comp_def, C05.Gene.core] at this
  exact this

omit [Scalar W] in
theorem skel_to_key (l l' : List (Gene W)) (h : l'.map C05.Gene.skel = l.map C05.Gene.skel) :
    l'.map geneKey = l.map geneKey := by
  have := congrArg (List.map (fun c : Int × Int × Int × Bool => (c.1, (c.2.1, c.2.2.1, c.2.2.2)))) h
  simp only [List.map_map, Function.comp_def, C05.Gene.skel] at this
  exact this

/-! ### link weights -/

theorem mutateLinkWeights_skel (g g' : Genome W) (power rate : W) (mt : WeightMutator) (rs rs' : List Nat)
    (h : mutateLinkWeights g power rate mt rs = .ok (g', rs')) (hr : TraitRefsOwned g) :
    SameSkel g g' ∧ TraitRefsOwned g' := by
  obtain ⟨_, hn, ht, hmo, hc, _⟩ := C05.mutateLinkWeights_paramOnly g g' power rate mt rs rs' h
  have hti : traitIds g' = traitIds g := by unfold traitIds; rw [ht]
  refine ⟨⟨core_to_key _ _ hc, by rw [hn], hti, hmo⟩, traitRefsOwned_of g g' hti ?_ ?_⟩
  · intro x hx
    obtain ⟨y, hy, e⟩ := exists_of_map_eq C05.Gene.core hc hx
    have : y.trait = x.trait := by
      unfold C05.Gene.core at e; simp only [Prod.mk.injEq] at e; exact e.2.2.2.2.2
    rw [← this]; exact hr.1 y hy
  · rw [hn]; exact hr.2

/-! ### random trait -/

theorem mutateRandomTrait_skel (g g' : Genome W) (o : MutOpts W) (rs rs' : List Nat)
    (h : mutateRandomTrait g o rs = .ok (g', rs')) (hr : TraitRefsOwned g) :
    SameSkel g g' ∧ TraitRefsOwned g' := by
  obtain ⟨hn, hg, hmo, ht⟩ := C05.mutateRandomTrait_paramOnly g g' o rs rs' h
  have hti : traitIds g' = traitIds g := ht
  refine ⟨⟨by rw [hg], by rw [hn], hti, hmo⟩, traitRefsOwned_of g g' hti ?_ ?_⟩
  · rw [hg]; exact hr.1
  · rw [hn]; exact hr.2

/-! ### link trait -/

theorem mutateLinkTrait_refs (times : Nat) (g g' : Genome W) (rs rs' : List Nat)
    (h : mutateLinkTrait g times rs = .ok (g', rs')) (hz : TraitIdsNonzero g)
    (hr : ∀ x ∈ g.genes, TraitRefOk g x.trait) : ∀ x ∈ g'.genes, TraitRefOk g x.trait := by
  induction times generalizing g rs with
  | zero =>
    unfold mutateLinkTrait at h
    split at h
    · cases h
    · cases h; exact hr
  | succ n ih =>
    unfold mutateLinkTrait at h
    split at h
    · cases h
    · split at h
      · cases h
      · split at h
        · cases h
        · split at h
          · cases h
          · rename_i tr htr
            have htr' := traitAt_ok g _ tr htr hz
            have key := ih _ _ h
            exact key hz (fun x hx => by
              rcases mem_modify _ _ _ _ hx with hx | ⟨y, _, rfl⟩
              · exact hr x hx
              · exact htr')

theorem mutateLinkTrait_skel (times : Nat) (g g' : Genome W) (rs rs' : List Nat)
    (h : mutateLinkTrait g times rs = .ok (g', rs')) (hz : TraitIdsNonzero g) (hr : TraitRefsOwned g) :
    SameSkel g g' ∧ TraitRefsOwned g' := by
  obtain ⟨hn, ht, hmo, hs, _, _⟩ := C05.mutateLinkTrait_paramOnly times g g' rs rs' h
  have hti : traitIds g' = traitIds g := by unfold traitIds; rw [ht]
  refine ⟨⟨skel_to_key _ _ hs, by rw [hn], hti, hmo⟩, traitRefsOwned_of g g' hti ?_ ?_⟩
  · exact mutateLinkTrait_refs times g g' rs rs' h hz hr.1
  · rw [hn]; exact hr.2

/-! ### node trait -/

theorem mutateNodeTrait_refs (times : Nat) (g g' : Genome W) (rs rs' : List Nat)
    (h : mutateNodeTrait g times rs = .ok (g', rs')) (hz : TraitIdsNonzero g)
    (hr : ∀ n ∈ g.nodes, TraitRefOk g n.trait) : ∀ n ∈ g'.nodes, TraitRefOk g n.trait := by
  induction times generalizing g rs with
  | zero =>
    unfold mutateNodeTrait at h
    split at h
    · cases h
    · cases h; exact hr
  | succ n ih =>
    unfold mutateNodeTrait at h
    split at h
    · cases h
    · split at h
      · cases h
      · split at h
        · cases h
        · split at h
          · cases h
          · rename_i tr htr
            have htr' := traitAt_ok g _ tr htr hz
            have key := ih _ _ h
            exact key hz (fun x hx => by
              rcases mem_modify _ _ _ _ hx with hx | ⟨y, _, rfl⟩
              · exact hr x hx
              · exact htr')

theorem mutateNodeTrait_skel (times : Nat) (g g' : Genome W) (rs rs' : List Nat)
    (h : mutateNodeTrait g times rs = .ok (g', rs')) (hz : TraitIdsNonzero g) (hr : TraitRefsOwned g) :
    SameSkel g g' ∧ TraitRefsOwned g' := by
  obtain ⟨hg, ht, hmo, hs⟩ := C05.mutateNodeTrait_paramOnly times g g' rs rs' h
  have hti : traitIds g' = traitIds g := by unfold traitIds; rw [ht]
  have hsh : g'.nodes.map Node.shape = g.nodes.map Node.shape := by
    have := congrArg (List.map (fun c : Int × Nat × Nat => (c.1, c.2.1))) hs
    simp only [List.map_map, Function.comp_def] at this
    exact this
  refine ⟨⟨by rw [hg], hsh, hti, hmo⟩, traitRefsOwned_of g g' hti ?_ ?_⟩
  · rw [hg]; exact hr.1
  · exact mutateNodeTrait_refs times g g' rs rs' h hz hr.2

/-! ### toggle enable -/

theorem mutateToggleEnable_traits (times : Nat) (g g' : Genome W) (rs rs' : List Nat)
    (h : mutateToggleEnable g times rs = .ok (g', rs')) :
    ∀ x ∈ g'.genes, ∃ y ∈ g.genes, x.trait = y.trait := by
  induction times generalizing g rs with
  | zero =>
    unfold mutateToggleEnable at h
    split at h
    · cases h
    · cases h; exact fun x hx => ⟨x, hx, rfl⟩
  | succ n ih =>
    unfold mutateToggleEnable at h
    split at h
    · cases h
    · split at h
      · cases h
      · split at h
        · cases h
        · intro x hx
          obtain ⟨y, hy, e⟩ := ih _ _ h x hx
          split at hy
          · unfold setEnabledAt at hy
            rcases mem_modify _ _ _ _ hy with hy | ⟨z, hz, rfl⟩
            · exact ⟨y, hy, e⟩
            · exact ⟨z, hz, e⟩
          · exact ⟨y, hy, e⟩

theorem mutateToggleEnable_skel (times : Nat) (g g' : Genome W) (rs rs' : List Nat)
    (h : mutateToggleEnable g times rs = .ok (g', rs')) (hr : TraitRefsOwned g) :
    SameSkel g g' ∧ TraitRefsOwned g' := by
  obtain ⟨hn, ht, hmo, hs, _⟩ := C05.mutateToggleEnable_spec times g g' rs rs' h
  have hti : traitIds g' = traitIds g := by unfold traitIds; rw [ht]
  refine ⟨⟨skel_to_key _ _ hs, by rw [hn], hti, hmo⟩, traitRefsOwned_of g g' hti ?_ ?_⟩
  · intro x hx
    obtain ⟨y, hy, e⟩ := mutateToggleEnable_traits times g g' rs rs' h x hx
    rw [e]; exact hr.1 y hy
  · rw [hn]; exact hr.2

/-! ### re-enable -/

omit [Scalar W] in
theorem reenableFirst_key (l : List (Gene W)) :
    (reenableFirst l).map geneKey = l.map geneKey ∧ (reenableFirst l).map (·.trait) = l.map (·.trait) := by
  induction l with
  | nil => exact ⟨rfl, rfl⟩
  | cons a t ih =>
    unfold reenableFirst
    split
    · exact ⟨rfl, rfl⟩
    · simp only [List.map_cons, ih.1, ih.2, and_self]

theorem mutateGeneReEnable_skel (g g' : Genome W) (h : mutateGeneReEnable g = .ok g') (hr : TraitRefsOwned g) :
    SameSkel g g' ∧ TraitRefsOwned g' := by
  obtain ⟨hn, ht, hmo, hg⟩ := C05.mutateGeneReEnable_spec g g' h
  have hti : traitIds g' = traitIds g := by unfold traitIds; rw [ht]
  refine ⟨⟨by rw [hg]; exact (reenableFirst_key _).1, by rw [hn], hti, hmo⟩, traitRefsOwned_of g g' hti ?_ ?_⟩
  · intro x hx
    rw [hg] at hx
    obtain ⟨y, hy, e⟩ := exists_of_map_eq (fun x : Gene W => x.trait) (reenableFirst_key g.genes).2 hx
    rw [← e]; exact hr.1 y hy
  · rw [hn]; exact hr.2

/-! ### all non-structural mutations (a composition of the six above, each behind a probability draw) -/

omit [Scalar W] in
theorem SameSkel.tnz {g g' : Genome W} (h : SameSkel g g') (hz : TraitIdsNonzero g) : TraitIdsNonzero g' := by
  intro t ht
  have : t.id ∈ traitIds g := by rw [← h.tids]; exact List.mem_map_of_mem ht
  obtain ⟨t0, ht0, e⟩ := List.mem_map.mp this
  rw [← e]; exact hz t0 ht0

/-- a skeleton-preserving step with resolving references, given that the input's references resolve -/
def Good (g g' : Genome W) : Prop := TraitIdsNonzero g → TraitRefsOwned g → SameSkel g g' ∧ TraitRefsOwned g'

omit [Scalar W] in
theorem Good.trans {a b c : Genome W} (h1 : Good a b) (h2 : Good b c) : Good a c := by
  intro hz hr
  obtain ⟨s1, r1⟩ := h1 hz hr
  obtain ⟨s2, r2⟩ := h2 (s1.tnz hz) r1
  exact ⟨s1.trans s2, r2⟩

/-- one stage of `mutateAllNonstructural`: draw, compare with the probability, maybe run the mutator -/
def stageF (prob : W) (f : Genome W → Rand (Genome W)) (g : Genome W) : Rand (Genome W) := fun rs =>
  match Rand.float64 (W := W) rs with
  | .error e => .error e
  | .ok (x, rs') => if lt x prob then f g rs' else .ok (g, rs')

theorem stageF_good (prob : W) (f : Genome W → Rand (Genome W)) (hf : ∀ g g' rs rs', f g rs = .ok (g', rs') → Good g g')
    (g g' : Genome W) (rs rs' : List Nat) (h : stageF prob f g rs = .ok (g', rs')) : Good g g' := by
  unfold stageF at h
  split at h
  · cases h
  · split at h
    · exact hf _ _ _ _ h
    · cases h; exact fun _ hr => ⟨SameSkel.refl g, hr⟩

theorem mutateAllNonstructural_eq (g : Genome W) (o : MutOpts W) (rs : List Nat) :
    mutateAllNonstructural g o rs =
      match stageF o.mutateRandomTraitProb (fun g => mutateRandomTrait g o) g rs with
      | .error e => .error e
      | .ok (g1, rs1) =>
        match stageF o.mutateLinkTraitProb (fun g => mutateLinkTrait g 1) g1 rs1 with
        | .error e => .error e
        | .ok (g2, rs2) =>
          match stageF o.mutateNodeTraitProb (fun g => mutateNodeTrait g 1) g2 rs2 with
          | .error e => .error e
          | .ok (g3, rs3) =>
            match stageF o.mutateLinkWeightsProb (fun g => mutateLinkWeights g o.weightMutPower one .gaussian) g3 rs3 with
            | .error e => .error e
            | .ok (g4, rs4) =>
              match stageF o.mutateToggleEnableProb (fun g => mutateToggleEnable g 1) g4 rs4 with
              | .error e => .error e
              | .ok (g5, rs5) =>
                stageF o.mutateGeneReenableProb (fun g => fun rs => match mutateGeneReEnable g with
                                                                  | .error e => .error e
                                                                  | .ok g' => .ok (g', rs)) g5 rs5 := rfl

theorem mutateAllNonstructural_skel (g g' : Genome W) (o : MutOpts W) (rs rs' : List Nat)
    (h : mutateAllNonstructural g o rs = .ok (g', rs')) (hz : TraitIdsNonzero g) (hr : TraitRefsOwned g) :
    SameSkel g g' ∧ TraitRefsOwned g' := by
  rw [mutateAllNonstructural_eq] at h
  split at h
  · cases h
  · rename_i g1 rs1 h1
    split at h
    · cases h
    · rename_i g2 rs2 h2
      split at h
      · cases h
      · rename_i g3 rs3 h3
        split at h
        · cases h
        · rename_i g4 rs4 h4
          split at h
          · cases h
          · rename_i g5 rs5 h5
            have s1 := stageF_good _ _ (fun a b c d e _ hr => mutateRandomTrait_skel a b o c d e hr) _ _ _ _ h1
            have s2 := stageF_good _ _ (fun a b c d e hz hr => mutateLinkTrait_skel 1 a b c d e hz hr) _ _ _ _ h2
            have s3 := stageF_good _ _ (fun a b c d e hz hr => mutateNodeTrait_skel 1 a b c d e hz hr) _ _ _ _ h3
            have s4 := stageF_good _ _ (fun a b c d e _ hr => mutateLinkWeights_skel a b _ _ _ c d e hr) _ _ _ _ h4
            have s5 := stageF_good _ _ (fun a b c d e _ hr => mutateToggleEnable_skel 1 a b c d e hr) _ _ _ _ h5
            have s6 := stageF_good _ _ (fun a b c d e _ hr => by
              split at e
              · cases e
              · rename_i g'' he
                cases e
                exact mutateGeneReEnable_skel a _ he hr) _ _ _ _ h
            exact (((((s1.trans s2).trans s3).trans s4).trans s5).trans s6) hz hr

end GoNeat.C01
