/-
  The running maximum of the repaired counter accessors (`getLastNodeId`, `getNextGeneInnovNum`, fix 48b1f99):
  the result is at least the start value and at least every listed key - no ordering of the list is needed.
-/
import GoNeat.Model.Genome

namespace GoNeat
variable {W : Type}

theorem maxFrom_ge_init (keys : List Int) (init : Int) : init ≤ maxFrom keys init := by
  unfold maxFrom
  induction keys generalizing init with
  | nil => exact Int.le_refl _
  | cons k ks ih =>
    simp only [List.foldl_cons]
    refine Int.le_trans ?_ (ih _)
    split <;> omega

theorem maxFrom_ge_mem (keys : List Int) (init : Int) : ∀ k ∈ keys, k ≤ maxFrom keys init := by
  induction keys generalizing init with
  | nil => intro k hk; cases hk
  | cons a ks ih =>
    intro k hk
    have hstep : maxFrom (a :: ks) init = maxFrom ks (if a > init then a else init) := rfl
    rw [hstep]
    rcases List.mem_cons.mp hk with rfl | hk
    · refine Int.le_trans ?_ (maxFrom_ge_init ks _)
      split <;> omega
    · exact ih _ k hk

/-- `getLastNodeId` is at least every node id of the genome, in whatever order the nodes are listed -/
theorem Genome.lastNodeId_ge (g : Genome W) (ln : Int) (h : g.lastNodeId = .ok ln) : ∀ n ∈ g.nodes, n.id ≤ ln := by
  unfold Genome.lastNodeId at h
  split at h
  · cases h
  · simp only [Except.ok.injEq] at h
    subst h
    intro n hn
    exact Int.le_trans (maxFrom_ge_mem _ _ n.id (List.mem_map_of_mem hn)) (maxFrom_ge_init _ _)

/-- `getNextGeneInnovNum` is above every innovation number of the genome, in whatever order the genes are listed -/
theorem Genome.nextGeneInnov_gt (g : Genome W) (ni : Int) (h : g.nextGeneInnov = .ok ni) : ∀ x ∈ g.genes, x.inn ≤ ni - 1 := by
  unfold Genome.nextGeneInnov at h
  split at h
  · cases h
  · rename_i last _
    simp only [Except.ok.injEq] at h
    subst h
    intro x hx
    have h1 := maxFrom_ge_mem (g.genes.map (·.inn)) last.inn x.inn (List.mem_map_of_mem hx)
    have h2 := maxFrom_ge_init (g.modules.map (·.inn)) (maxFrom (g.genes.map (·.inn)) last.inn)
    omega

theorem Genome.lastNodeId_ok (g : Genome W) (h : g.nodes ≠ []) : ∃ ln, g.lastNodeId = .ok ln := by
  unfold Genome.lastNodeId
  cases hl : g.nodes.getLast? with
  | none => exact absurd (List.getLast?_eq_none_iff.mp hl) h
  | some n => exact ⟨_, rfl⟩

theorem Genome.nextGeneInnov_ok (g : Genome W) (h : g.genes ≠ []) : ∃ ni, g.nextGeneInnov = .ok ni := by
  unfold Genome.nextGeneInnov
  cases hl : g.genes.getLast? with
  | none => exact absurd (List.getLast?_eq_none_iff.mp hl) h
  | some n => exact ⟨_, rfl⟩

end GoNeat
