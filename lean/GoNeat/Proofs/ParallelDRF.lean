/-
  C16(b): the lock-set / ownership discipline of `GoNeat.Model.Parallel` implies data-race freedom.

  Main result: `lockset_drf` — every valid trace that is `Disciplined` has no `Race`.
  At the end: a non-vacuity example (a concrete valid, disciplined trace exercising every protection class)
  and a negative example (a concrete valid trace with a provable `Race`).

  CORE LEAN ONLY.
-/
import GoNeat.Model.Parallel

namespace GoNeat.Par

variable {L M : Type}

/-! ### basic facts -/

theorem lt_length_of_getElem? {α : Type} {l : List α} {k : Nat} {x : α} (h : l[k]? = some x) : k < l.length := by
  have := List.getElem?_eq_some_iff.mp h
  exact this.1

/-- happens-before never points backwards in the trace -/
theorem hb_lt {tr : Trace L M} {i j : Nat} (h : HB tr i j) : i < j := by
  induction h with
  | po h _ _ _ => exact h
  | sw h _ _ => exact h
  | fork h _ _ _ => exact h
  | join h _ _ _ => exact h
  | trans _ _ ih1 ih2 => exact Nat.lt_trans ih1 ih2

section
variable [DecidableEq M]

theorem holder_take_succ (m : M) (tr : Trace L M) (k : Nat) (e : Event L M) (h : tr[k]? = some e) :
    holder m (tr.take (k + 1)) = holderStep m (holder m (tr.take k)) e := by
  unfold holder
  rw [List.take_add_one, h, List.foldl_append]
  rfl

/-- L1: after an `acq m` by `t` with no later `rel m` by `t`, the holder of `m` is `t`. -/
theorem holder_of_acq_no_rel {tr : Trace L M} (hv : Valid tr) {a : Nat} {t : Tid} {m : M}
    (ha : tr[a]? = some (⟨t, .acq m⟩ : Event L M)) :
    ∀ k, a < k → k ≤ tr.length →
      (∀ r, a < r → r < k → tr[r]? ≠ some (⟨t, .rel m⟩ : Event L M)) →
      holder m (tr.take k) = some t := by
  intro k
  induction k with
  | zero => intro h; exact absurd h (Nat.not_lt_zero _)
  | succ k ih =>
    intro hak hkl hnr
    rcases Nat.lt_or_eq_of_le (Nat.le_of_lt_succ hak) with hlt | heq
    · -- a < k
      have ihk : holder m (tr.take k) = some t :=
        ih hlt (Nat.le_of_succ_le hkl) (fun r h1 h2 => hnr r h1 (Nat.lt_succ_of_lt h2))
      have hk : k < tr.length := hkl
      have hek : tr[k]? = some tr[k] := List.getElem?_eq_getElem hk
      rw [holder_take_succ m tr k _ hek]
      generalize hgen : tr[k] = e at hek
      obtain ⟨u, op⟩ := e
      cases op with
      | acq m' =>
        by_cases hm : m' = m
        · subst hm
          have := hv.acq_free k u m' hek
          rw [ihk] at this
          exact absurd this (by simp)
        · simp [holderStep, hm, ihk]
      | rel m' =>
        by_cases hm : m' = m
        · subst hm
          have := hv.rel_held k u m' hek
          rw [ihk] at this
          have hut : t = u := by simpa using this
          subst hut
          exact absurd hek (hnr k hlt (Nat.lt_succ_self k))
        · simp [holderStep, hm, ihk]
      | rd l => simp [holderStep, ihk]
      | wr l => simp [holderStep, ihk]
      | atomic l => simp [holderStep, ihk]
      | fork c => simp [holderStep, ihk]
      | join c => simp [holderStep, ihk]
    · -- a = k
      subst heq
      rw [holder_take_succ m tr a _ ha]
      simp [holderStep]

/-- mutual exclusion gives happens-before: two lock-protected accesses by different threads are ordered -/
theorem hb_of_holds {tr : Trace L M} (hv : Valid tr) {i j : Nat} {ei ej : Event L M} {m : M}
    (hij : i < j) (hi : tr[i]? = some ei) (hj : tr[j]? = some ej) (hne : ei.tid ≠ ej.tid)
    (hnrel : ∀ m', ei.op ≠ .rel m')
    (Hi : Holds tr i ei.tid m) (Hj : Holds tr j ej.tid m) : HB tr i j := by
  obtain ⟨a, hai, haa, hnra⟩ := Hi
  obtain ⟨a', haj, haa', hnra'⟩ := Hj
  have hane : a ≠ a' := by
    intro h; subst h
    rw [haa] at haa'
    have : ei.tid = ej.tid := by
      have := Option.some.inj haa'
      simpa using congrArg Event.tid this
    exact hne this
  rcases Nat.lt_or_gt_of_ne hane with hlt | hgt
  · -- a < a'
    have hfree := hv.acq_free a' ej.tid m haa'
    have hex : ∃ r, a < r ∧ r < a' ∧ tr[r]? = some (⟨ei.tid, .rel m⟩ : Event L M) := by
      apply Classical.byContradiction
      intro hno
      have := holder_of_acq_no_rel hv haa a' hlt (Nat.le_of_lt (lt_length_of_getElem? haa'))
        (fun r h1 h2 h3 => hno ⟨r, h1, h2, h3⟩)
      rw [hfree] at this
      exact absurd this (by simp)
    obtain ⟨r, har, hra', hr⟩ := hex
    have hir : i < r := by
      rcases Nat.lt_trichotomy r i with h | h | h
      · exact absurd hr (hnra r har h)
      · subst h
        rw [hi] at hr
        have := Option.some.inj hr
        exact absurd (congrArg Event.op this) (hnrel m)
      · exact h
    have h1 : HB tr i r := HB.po hir hi hr rfl
    have h2 : HB tr r a' := HB.sw hra' hr haa'
    have h3 : HB tr a' j := HB.po haj haa' hj rfl
    exact HB.trans h1 (HB.trans h2 h3)
  · -- a' < a
    have hfree := hv.acq_free a ei.tid m haa
    have := holder_of_acq_no_rel hv haa' a hgt (Nat.le_of_lt (lt_length_of_getElem? haa))
      (fun r h1 h2 => hnra' r h1 (Nat.lt_trans h2 (Nat.lt_trans hai hij)))
    rw [hfree] at this
    exact absurd this (by simp)

/-- a serial access is happens-before-ordered with every event of every non-main thread -/
theorem serial_ordered {tr : Trace L M} (hv : Valid tr) {k : Nat} {e : Event L M}
    (hk : tr[k]? = some e) (hs : Serial tr k e) :
    ∀ (j : Nat) (e' : Event L M), tr[j]? = some e' → e'.tid ≠ mainTid →
      (j < k ∧ HB tr j k) ∨ (k < j ∧ HB tr k j) := by
  obtain ⟨hmain, hall⟩ := hs
  intro j
  induction j using Nat.strongRecOn with
  | _ j ih =>
    intro e' hj hnm
    rcases hall j e' hj hnm with ⟨x, hxk, hx⟩ | hfa
    · -- joined before k
      left
      have hjx : j < x := by
        rcases Nat.lt_trichotomy j x with h | h | h
        · exact h
        · subst h
          rw [hj] at hx
          have := congrArg Event.tid (Option.some.inj hx)
          exact absurd this hnm
        · exact absurd rfl (hv.join_after_end x mainTid e'.tid hx j e' h hj)
      have h1 : HB tr j x := HB.join hjx hj rfl hx
      have h2 : HB tr x k := HB.po hxk hx hk (by simp [hmain])
      exact ⟨Nat.lt_trans hjx hxk, HB.trans h1 h2⟩
    · -- forked after k
      right
      obtain ⟨f, u, hfj, hf⟩ := hv.fork_before_run j e' hj hnm
      have hkf : k < f := hfa f u hf
      have h2 : HB tr f j := HB.fork hfj hf hj rfl
      have h1 : HB tr k f := by
        by_cases hu : u = mainTid
        · exact HB.po hkf hk hf (by simp [hmain, hu])
        · rcases ih f hfj ⟨u, .fork e'.tid⟩ hf hu with ⟨hfk, _⟩ | ⟨_, h⟩
          · exact absurd hkf (Nat.lt_asymm hfk)
          · exact h
      exact ⟨Nat.lt_trans hkf hfj, HB.trans h1 h2⟩
end

/-- the protection-class obligation of an access that is not serial -/
def ClassOk (cls : L → LocClass M) (tr : Trace L M) (k : Nat) (e : Event L M) (l : L) : Prop :=
  match cls l with
  | .guarded m => Holds tr k e.tid m
  | .owned t => e.tid = t
  | .readOnly => e.op.isWrite = false
  | .atomicOnly => e.op.isAtomic = true

theorem accessOk_cases {cls : L → LocClass M} {tr : Trace L M} {k : Nat} {e : Event L M} {l : L}
    (h : AccessOk cls tr k e) (hl : e.op.loc? = some l) : Serial tr k e ∨ ClassOk cls tr k e l := by
  obtain ⟨t, op⟩ := e
  unfold ClassOk
  cases op with
  | rd l' =>
    have : l' = l := by simpa [Op.loc?] using hl
    subst this
    rcases h with h | h
    · exact Or.inl h
    · right
      revert h
      cases cls l' <;> simp [Op.isWrite]
  | wr l' =>
    have : l' = l := by simpa [Op.loc?] using hl
    subst this
    rcases h with h | h
    · exact Or.inl h
    · right
      revert h
      cases cls l' <;> simp
  | atomic l' =>
    have : l' = l := by simpa [Op.loc?] using hl
    subst this
    rcases h with h | h
    · exact Or.inl h
    · right
      revert h
      cases cls l' <;> simp [Op.isAtomic]
  | acq m => simp [Op.loc?] at hl
  | rel m => simp [Op.loc?] at hl
  | fork c => simp [Op.loc?] at hl
  | join c => simp [Op.loc?] at hl

/-- **C16**: a valid trace that follows the locking discipline has no data race. -/
theorem lockset_drf {L M : Type} [DecidableEq M] (cls : L → LocClass M) (tr : Trace L M)
    (hv : Valid tr) (hd : Disciplined cls tr) : ∀ i j, ¬ Race tr i j := by
  intro i j ⟨hij, a, b, hi, hj, ⟨hne, l, hla, hlb, hw, hna⟩, hnhb⟩
  apply hnhb
  rcases accessOk_cases (hd i a hi) hla with hsa | hca
  · -- a serial
    have hb : b.tid ≠ mainTid := fun h => hne (by rw [hsa.1, h])
    rcases serial_ordered hv hi hsa j b hj hb with ⟨h, _⟩ | ⟨_, h⟩
    · exact absurd hij (Nat.lt_asymm h)
    · exact h
  · rcases accessOk_cases (hd j b hj) hlb with hsb | hcb
    · -- b serial
      have ha : a.tid ≠ mainTid := fun h => hne (by rw [hsb.1, h])
      rcases serial_ordered hv hj hsb i a hi ha with ⟨_, h⟩ | ⟨h, _⟩
      · exact h
      · exact absurd hij (Nat.lt_asymm h)
    · unfold ClassOk at hca hcb
      cases hc : cls l with
      | guarded m =>
        rw [hc] at hca hcb
        refine hb_of_holds hv hij hi hj hne ?_ hca hcb
        intro m' h
        rw [h] at hla
        simp [Op.loc?] at hla
      | owned t =>
        rw [hc] at hca hcb
        exact absurd (hca.trans hcb.symm) hne
      | readOnly =>
        rw [hc] at hca hcb
        simp only at hca hcb
        rcases hw with h | h
        · rw [hca] at h; exact absurd h (by simp)
        · rw [hcb] at h; exact absurd h (by simp)
      | atomicOnly =>
        rw [hc] at hca hcb
        exact absurd ⟨hca, hcb⟩ hna

/-! ### executable checkers (used for the concrete examples below) -/

section Checkers
variable [DecidableEq M]

theorem all_range_iff {n : Nat} {p : Nat → Bool} : (List.range n).all p = true ↔ ∀ k, k < n → p k = true := by
  simp [List.all_eq_true, List.mem_range]

theorem any_range_iff {n : Nat} {p : Nat → Bool} : (List.range n).any p = true ↔ ∃ k, k < n ∧ p k = true := by
  simp [List.any_eq_true, List.mem_range]

def acqFreeB (tr : Trace L M) : Bool :=
  (List.range tr.length).all fun k =>
    match tr[k]? with
    | some ⟨_, .acq m⟩ => decide (holder m (tr.take k) = none)
    | _ => true

def relHeldB (tr : Trace L M) : Bool :=
  (List.range tr.length).all fun k =>
    match tr[k]? with
    | some ⟨t, .rel m⟩ => decide (holder m (tr.take k) = some t)
    | _ => true

def isForkOf (c : Tid) : Option (Event L M) → Bool
  | some ⟨_, .fork c'⟩ => decide (c' = c)
  | _ => false

def forkBeforeRunB (tr : Trace L M) : Bool :=
  (List.range tr.length).all fun k =>
    match tr[k]? with
    | some e => decide (e.tid = mainTid) || (List.range k).any fun f => isForkOf e.tid tr[f]?
    | none => true

def tidIsNot (c : Tid) : Option (Event L M) → Bool
  | some e => decide (e.tid ≠ c)
  | none => true

def joinAfterEndB (tr : Trace L M) : Bool :=
  (List.range tr.length).all fun k =>
    match tr[k]? with
    | some ⟨_, .join c⟩ => (List.range tr.length).all fun j => !(decide (k < j)) || tidIsNot c tr[j]?
    | _ => true

def validB (tr : Trace L M) : Bool := acqFreeB tr && relHeldB tr && forkBeforeRunB tr && joinAfterEndB tr

omit [DecidableEq M] in
theorem isForkOf_true {c : Tid} {o : Option (Event L M)} (h : isForkOf c o = true) :
    ∃ u, o = some (⟨u, .fork c⟩ : Event L M) := by
  unfold isForkOf at h
  split at h
  · next u c' => exact ⟨u, by simp at h; rw [h]⟩
  · simp at h

theorem valid_of_validB {tr : Trace L M} (h : validB tr = true) : Valid tr := by
  simp only [validB, Bool.and_eq_true] at h
  obtain ⟨⟨⟨h1, h2⟩, h3⟩, h4⟩ := h
  refine ⟨?_, ?_, ?_, ?_⟩
  · intro k t m hk
    have := all_range_iff.mp h1 k (lt_length_of_getElem? hk)
    simp only [hk] at this
    simpa using this
  · intro k t m hk
    have := all_range_iff.mp h2 k (lt_length_of_getElem? hk)
    simp only [hk] at this
    simpa using this
  · intro k e hk hnm
    have := all_range_iff.mp h3 k (lt_length_of_getElem? hk)
    simp only [hk, Bool.or_eq_true, decide_eq_true_eq] at this
    rcases this with h | h
    · exact absurd h hnm
    · obtain ⟨f, hf, hff⟩ := any_range_iff.mp h
      obtain ⟨u, hu⟩ := isForkOf_true hff
      exact ⟨f, u, hf, hu⟩
  · intro k u c hk j e hkj hj
    have := all_range_iff.mp h4 k (lt_length_of_getElem? hk)
    simp only [hk] at this
    have := all_range_iff.mp this j (lt_length_of_getElem? hj)
    simp only [hj, tidIsNot, hkj, decide_true, Bool.not_true, Bool.false_or, decide_eq_true_eq] at this
    exact this

variable [DecidableEq L]

def holdsB (tr : Trace L M) (k : Nat) (t : Tid) (m : M) : Bool :=
  (List.range k).any fun a =>
    decide (tr[a]? = some (⟨t, .acq m⟩ : Event L M)) &&
      (List.range k).all fun r => !(decide (a < r)) || decide (tr[r]? ≠ some (⟨t, .rel m⟩ : Event L M))

theorem holds_of_holdsB {tr : Trace L M} {k : Nat} {t : Tid} {m : M} (h : holdsB tr k t m = true) :
    Holds tr k t m := by
  obtain ⟨a, hak, ha⟩ := any_range_iff.mp h
  simp only [Bool.and_eq_true, decide_eq_true_eq] at ha
  refine ⟨a, hak, ha.1, ?_⟩
  intro r har hrk
  have := all_range_iff.mp ha.2 r hrk
  simpa [har] using this

def joinedBeforeB (tr : Trace L M) (c : Tid) (k : Nat) : Bool :=
  (List.range k).any fun x => decide (tr[x]? = some (⟨mainTid, .join c⟩ : Event L M))

def forkNotBefore (c : Tid) (k f : Nat) : Option (Event L M) → Bool
  | some ⟨_, .fork c'⟩ => decide (c' ≠ c) || decide (k < f)
  | _ => true

def forkedAfterB (tr : Trace L M) (c : Tid) (k : Nat) : Bool :=
  (List.range tr.length).all fun f => forkNotBefore c k f tr[f]?

def serialB (tr : Trace L M) (k : Nat) (e : Event L M) : Bool :=
  decide (e.tid = mainTid) &&
    tr.all fun e' => decide (e'.tid = mainTid) || joinedBeforeB tr e'.tid k || forkedAfterB tr e'.tid k

theorem serial_of_serialB {tr : Trace L M} {k : Nat} {e : Event L M} (h : serialB tr k e = true) :
    Serial tr k e := by
  simp only [serialB, Bool.and_eq_true, decide_eq_true_eq, List.all_eq_true, Bool.or_eq_true] at h
  refine ⟨h.1, ?_⟩
  intro j e' hj hnm
  have hmem : e' ∈ tr := List.mem_of_getElem? hj
  rcases h.2 e' hmem with (h' | h') | h'
  · exact absurd h' hnm
  · left
    obtain ⟨x, hx, hxx⟩ := any_range_iff.mp h'
    exact ⟨x, hx, by simpa using hxx⟩
  · right
    intro f u hf
    have := all_range_iff.mp h' f (lt_length_of_getElem? hf)
    simpa [hf, forkNotBefore] using this

def classB (cls : L → LocClass M) (tr : Trace L M) (k : Nat) (e : Event L M) (l : L) (ro ato : Bool) : Bool :=
  match cls l with
  | .guarded m => holdsB tr k e.tid m
  | .owned t => decide (e.tid = t)
  | .readOnly => ro
  | .atomicOnly => ato

def accessOkB (cls : L → LocClass M) (tr : Trace L M) (k : Nat) (e : Event L M) : Bool :=
  match e.op with
  | .rd l => serialB tr k e || classB cls tr k e l true false
  | .wr l => serialB tr k e || classB cls tr k e l false false
  | .atomic l => serialB tr k e || classB cls tr k e l false true
  | _ => true

def disciplinedB (cls : L → LocClass M) (tr : Trace L M) : Bool :=
  (List.range tr.length).all fun k =>
    match tr[k]? with
    | some e => accessOkB cls tr k e
    | none => true

theorem disciplined_of_disciplinedB {cls : L → LocClass M} {tr : Trace L M} (h : disciplinedB cls tr = true) :
    Disciplined cls tr := by
  intro k e hk
  have := all_range_iff.mp h k (lt_length_of_getElem? hk)
  simp only [hk] at this
  obtain ⟨t, op⟩ := e
  unfold AccessOk
  unfold accessOkB at this
  cases op with
  | rd l =>
    simp only [Bool.or_eq_true] at this ⊢
    rcases this with h | h
    · exact Or.inl (serial_of_serialB h)
    · right
      unfold classB at h
      revert h
      cases cls l <;> simp
      exact holds_of_holdsB
  | wr l =>
    simp only [Bool.or_eq_true] at this ⊢
    rcases this with h | h
    · exact Or.inl (serial_of_serialB h)
    · right
      unfold classB at h
      revert h
      cases cls l <;> simp
      exact holds_of_holdsB
  | atomic l =>
    simp only [Bool.or_eq_true] at this ⊢
    rcases this with h | h
    · exact Or.inl (serial_of_serialB h)
    · right
      unfold classB at h
      revert h
      cases cls l <;> simp
      exact holds_of_holdsB
  | acq m => trivial
  | rel m => trivial
  | fork c => trivial
  | join c => trivial

end Checkers

/-! ### non-vacuity: a concrete valid, disciplined trace exercising every protection class -/

/-- locations: `0` guarded by mutex `0`; `1` atomic-only; `2` read-only; `10 + t` owned by thread `t` -/
def exCls (l : Nat) : LocClass Nat :=
  if l = 0 then .guarded 0
  else if l = 1 then .atomicOnly
  else if l < 10 then .readOnly
  else .owned (l - 10)

/-- main initialises location 0, forks workers 1 and 2, the workers run interleaved
    (`acq 0; rd 0; wr 0; rel 0`, an atomic on 1, a read of 2, a write to their own location),
    main joins both and writes location 0 again. -/
def exTrace : Trace Nat Nat :=
  [ ⟨0, .wr 0⟩,        -- 0  serial (before the forks)
    ⟨0, .wr 2⟩,        -- 1  serial write of the later read-only location
    ⟨0, .fork 1⟩,      -- 2
    ⟨0, .fork 2⟩,      -- 3
    ⟨1, .acq 0⟩,       -- 4
    ⟨2, .atomic 1⟩,    -- 5
    ⟨1, .rd 0⟩,        -- 6
    ⟨2, .wr 12⟩,       -- 7
    ⟨2, .rd 2⟩,        -- 8
    ⟨1, .wr 0⟩,        -- 9
    ⟨1, .rel 0⟩,       -- 10
    ⟨2, .acq 0⟩,       -- 11
    ⟨1, .atomic 1⟩,    -- 12
    ⟨2, .rd 0⟩,        -- 13
    ⟨1, .rd 2⟩,        -- 14
    ⟨2, .wr 0⟩,        -- 15
    ⟨1, .wr 11⟩,       -- 16
    ⟨2, .rel 0⟩,       -- 17
    ⟨0, .join 1⟩,      -- 18
    ⟨0, .join 2⟩,      -- 19
    ⟨0, .wr 0⟩,        -- 20 serial (after the joins)
    ⟨0, .rd 11⟩ ]      -- 21 serial read of a worker-owned location

theorem exTrace_valid : Valid exTrace := valid_of_validB (by decide)

theorem exTrace_disciplined : Disciplined exCls exTrace := disciplined_of_disciplinedB (by decide)

/-- the hypotheses of `lockset_drf` are satisfiable by a trace with real concurrency -/
theorem exTrace_race_free : ∀ i j, ¬ Race exTrace i j :=
  lockset_drf exCls exTrace exTrace_valid exTrace_disciplined

/-! ### the other direction: `Race` is satisfiable — an undisciplined valid trace with a provable race -/

/-- two workers write location 0 without any synchronisation -/
def racyTrace : Trace Nat Nat :=
  [ ⟨0, .fork 1⟩, ⟨0, .fork 2⟩, ⟨1, .wr 0⟩, ⟨2, .wr 0⟩ ]

theorem racyTrace_valid : Valid racyTrace := valid_of_validB (by decide)

/-- in `racyTrace` every happens-before edge starts at one of the two `fork` events -/
theorem racyTrace_hb_src {i j : Nat} (h : HB racyTrace i j) : i < 2 := by
  induction h with
  | @po i j e e' hij hi hj ht =>
    have hj4 : j < 4 := lt_length_of_getElem? hj
    apply Classical.byContradiction
    intro hn
    obtain rfl : i = 2 := by omega
    obtain rfl : j = 3 := by omega
    simp [racyTrace] at hi hj
    subst hi hj
    simp at ht
  | @sw i j t t' m hij hi hj =>
    have hi4 : i < 4 := lt_length_of_getElem? hi
    match i, hi4, hi with
    | 0, _, hi => simp [racyTrace] at hi
    | 1, _, hi => simp [racyTrace] at hi
    | 2, _, hi => simp [racyTrace] at hi
    | 3, _, hi => simp [racyTrace] at hi
  | @fork i j t c e hij hi hj ht =>
    have hi4 : i < 4 := lt_length_of_getElem? hi
    match i, hi4, hi with
    | 0, _, _ => omega
    | 1, _, _ => omega
    | 2, _, hi => simp [racyTrace] at hi
    | 3, _, hi => simp [racyTrace] at hi
  | @join i j u c e hij hi ht hj =>
    have hj4 : j < 4 := lt_length_of_getElem? hj
    match j, hj4, hj with
    | 0, _, hj => simp [racyTrace] at hj
    | 1, _, hj => simp [racyTrace] at hj
    | 2, _, hj => simp [racyTrace] at hj
    | 3, _, hj => simp [racyTrace] at hj
  | trans _ _ ih1 _ => exact ih1

theorem racyTrace_race : Race racyTrace 2 3 := by
  refine ⟨by omega, ⟨1, .wr 0⟩, ⟨2, .wr 0⟩, rfl, rfl, ⟨by simp, 0, rfl, rfl, Or.inl rfl, by simp [Op.isAtomic]⟩, ?_⟩
  intro h
  exact absurd (racyTrace_hb_src h) (by omega)

/-- consequently no protection-class assignment makes `racyTrace` disciplined -/
theorem racyTrace_not_disciplined (cls : Nat → LocClass Nat) : ¬ Disciplined cls racyTrace :=
  fun hd => lockset_drf cls racyTrace racyTrace_valid hd 2 3 racyTrace_race

end GoNeat.Par
