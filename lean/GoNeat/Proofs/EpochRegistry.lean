/-
  Population-level helper lemmas for property C03: one offspring (`reproduceOne`), one species, all species, the
  reproduction phase and the end of the epoch keep the invariant `Inv` for the registry and the growing history of
  genomes, and every number a baby carries is one its generation started with or lies above the counters of the
  generation start.
-/
import GoNeat.Proofs.RegistrySteps
import GoNeat.Model.Epoch
import GoNeat.Spec.PopInv

set_option linter.unusedSectionVars false

namespace GoNeat.C03
open GoNeat Scalar
variable {W : Type} [Scalar W]

/-! ### histories -/

/-- the history only grows: `H'` is `H` with further genomes put in front -/
def Ext (H H' : List (Genome W)) : Prop := ∃ e, H' = e ++ H
theorem Ext.refl (H : List (Genome W)) : Ext H H := ⟨[], rfl⟩
theorem Ext.trans {a b c : List (Genome W)} (h1 : Ext a b) (h2 : Ext b c) : Ext a c := by
  obtain ⟨e1, rfl⟩ := h1; obtain ⟨e2, rfl⟩ := h2; exact ⟨e2 ++ e1, by simp⟩
theorem Ext.cons (g : Genome W) (H : List (Genome W)) : Ext H (g :: H) := ⟨[g], rfl⟩

theorem binds_append (a b : List (Genome W)) : binds (a ++ b) = binds a ++ binds b := by simp [binds]
theorem roles_append (a b : List (Genome W)) : roles (a ++ b) = roles a ++ roles b := by simp [roles]

/-- all bindings of `g` satisfy `φ` / `ψ` -/
def AllB (φ : Bind → Prop) (ψ : Role → Prop) (g : Genome W) : Prop := (∀ b ∈ gb g, φ b) ∧ (∀ r ∈ gr g, ψ r)

/-- all bindings of `g` occur in the history -/
def GenomeIn (H : List (Genome W)) (g : Genome W) : Prop := AllB (· ∈ binds H) (· ∈ roles H) g

/-- every binding of `g` was held when the generation started (history `H0`) or lies above the counters `(bi, bn)` the
    generation started with -/
def FreshG (bi bn : Int) (H0 : List (Genome W)) (g : Genome W) : Prop :=
  AllB (fun b => b ∈ binds H0 ∨ bi < b.1) (fun r => r ∈ roles H0 ∨ bn < r.1) g

theorem AllB.same {φ : Bind → Prop} {ψ : Role → Prop} {g g' : Genome W} (h : AllB φ ψ g) (hs : SameBinds g g') : AllB φ ψ g' :=
  ⟨fun b hb => h.1 b (hs.1 ▸ hb), fun r hr => h.2 r (hs.2 ▸ hr)⟩

theorem GenomeIn.mono {H H' : List (Genome W)} {g : Genome W} (h : GenomeIn H g) (he : Ext H H') : GenomeIn H' g := by
  obtain ⟨e, rfl⟩ := he
  exact ⟨fun b hb => by rw [binds_append]; exact List.mem_append_right _ (h.1 b hb),
         fun r hr => by rw [roles_append]; exact List.mem_append_right _ (h.2 r hr)⟩

theorem GenomeIn.of_mem {H : List (Genome W)} {g : Genome W} (h : g ∈ H) : GenomeIn H g :=
  ⟨fun _ hb => by obtain ⟨x, hx, rfl⟩ := List.mem_map.mp hb; exact mem_binds_of_mem h hx,
   fun _ hr => by obtain ⟨x, hx, rfl⟩ := List.mem_map.mp hr; exact mem_roles_of_mem h hx⟩

theorem GenomeIn.fresh {H0 : List (Genome W)} {g : Genome W} (h : GenomeIn H0 g) (bi bn : Int) : FreshG bi bn H0 g :=
  ⟨fun b hb => .inl (h.1 b hb), fun r hr => .inl (h.2 r hr)⟩

theorem Inv.add_in {reg : Reg W} {H : List (Genome W)} (h : Inv reg H) {g : Genome W} (hg : GenomeIn H g) : Inv reg (g :: H) :=
  h.add_copy g hg.1 hg.2

/-! ### one derivation: a structural step followed by binding-preserving changes -/

/-- `g1` derives from `g0`: at most one structural mutation (a split, or some new links) resolved against the registry,
    then only changes that keep all bindings -/
def Derives (g0 : Genome W) (reg : Reg W) (g1 : Genome W) (reg1 : Reg W) : Prop :=
  ∃ gm, (NodeStep g0 reg gm reg1 ∨ LinkSteps g0 reg gm reg1) ∧ SameBinds gm g1

theorem Derives.same {g0 g1 : Genome W} (reg : Reg W) (h : SameBinds g0 g1) : Derives g0 reg g1 reg :=
  ⟨g0, .inr (.refl _ _), h⟩
theorem Derives.refl (g0 : Genome W) (reg : Reg W) : Derives g0 reg g0 reg := .same reg (.refl _)
theorem Derives.link {g0 g1 : Genome W} {reg reg1 : Reg W} (h : LinkStep g0 reg g1 reg1) : Derives g0 reg g1 reg1 :=
  ⟨g1, .inr (.step h (.refl _ _)), .refl _⟩

/-- what one derivation keeps: the invariant for the history with the result added, `GenInv`, freshness -/
theorem Derives.keeps {g0 g1 : Genome W} {reg reg1 : Reg W} (hd : Derives g0 reg g1 reg1) {H H0 : List (Genome W)} {bi bn : Int}
    (hinv : Inv reg H) (hgen : GenInv bi bn reg) (hin : GenomeIn H g0) (hfr : FreshG bi bn H0 g0) :
    Inv reg1 (g1 :: H) ∧ GenInv bi bn reg1 ∧ FreshG bi bn H0 g1 ∧ reg.nextInn ≤ reg1.nextInn ∧ reg.nextNode ≤ reg1.nextNode := by
  obtain ⟨gm, hstep, hs⟩ := hd
  have hloc : InvB reg (gb g0 ++ binds H) (gr g0 ++ roles H) := InvB.add_known hinv hin.1 hin.2
  have hi : InvB reg1 (gb gm ++ binds H) (gr gm ++ roles H) ∧ Issued bi bn g0 reg gm reg1 := by
    rcases hstep with h | h
    · exact ⟨h.inv hloc, h.issued hgen⟩
    · exact ⟨h.inv hloc, h.issued hgen⟩
  obtain ⟨hi1, hi2⟩ := hi
  refine ⟨?_, hi2.gen, ?_, hi2.innMono, hi2.nodeMono⟩
  · apply Inv.of_local
    rw [hs.1, hs.2]; exact hi1
  · have hm : FreshG bi bn H0 gm := by
      refine ⟨fun b hb => ?_, fun r hr => ?_⟩
      · obtain ⟨x, hx, rfl⟩ := List.mem_map.mp hb
        rcases hi2.above.1 x hx with h1 | h1
        · exact hfr.1 _ h1
        · exact .inr h1
      · obtain ⟨x, hx, rfl⟩ := List.mem_map.mp hr
        rcases hi2.above.2 x hx with h1 | h1
        · exact hfr.2 _ h1
        · exact .inr h1
    exact hm.same hs

/-! ### the mutation chain of a baby -/

/-- the structural part of `mutateBaby` (the `afterStruct` value of the model) -/
theorem afterStruct_steps (o : EpochOpts W) (g : Genome W) (reg : Reg W) (f1 : W) (rs1 : List Nat)
    (g1 : Genome W) (reg1 : Reg W) (b : Bool) (rs2 : List Nat)
    (hst : (if lt f1 o.mutateAddNodeProb then
              match mutateAddNode g reg o.mopts rs1 with
              | .error e => .error e
              | .ok ((g', reg', _), rs2) => .ok ((g', reg', true), rs2)
            else
              match Rand.float64 (W := W) rs1 with
              | .error e => .error e
              | .ok (f2, rs2) =>
                if lt f2 o.mutateAddLinkProb then
                  match mutateAddLink g reg o.mopts rs2 with
                  | .error e => .error e
                  | .ok ((g', reg', _), rs3) => .ok ((g', reg', true), rs3)
                else
                  match Rand.float64 (W := W) rs2 with
                  | .error e => .error e
                  | .ok (f3, rs3) =>
                    if lt f3 o.mutateConnectSensors then mutateConnectSensors g reg rs3
                    else .ok ((g, reg, false), rs3) : R (Genome W × Reg W × Bool)) = .ok ((g1, reg1, b), rs2)) :
    NodeStep g reg g1 reg1 ∨ LinkSteps g reg g1 reg1 := by
  split at hst
  · split at hst
    · cases hst
    · rename_i hmut
      simp only [Except.ok.injEq, Prod.mk.injEq] at hst
      obtain ⟨⟨rfl, rfl, _⟩, _⟩ := hst
      exact .inl (mutateAddNode_steps _ _ _ _ _ _ _ _ hmut)
  · split at hst
    · cases hst
    · split at hst
      · split at hst
        · cases hst
        · rename_i hmut
          simp only [Except.ok.injEq, Prod.mk.injEq] at hst
          obtain ⟨⟨rfl, rfl, _⟩, _⟩ := hst
          exact .inr (.step (mutateAddLink_steps _ _ _ _ _ _ _ _ hmut) (.refl _ _))
      · split at hst
        · cases hst
        · split at hst
          · exact .inr (mutateConnectSensors_steps _ _ _ _ _ _ _ hst)
          · simp only [Except.ok.injEq, Prod.mk.injEq] at hst
            obtain ⟨⟨rfl, rfl, _⟩, _⟩ := hst
            exact .inr (.refl _ _)

theorem mutateBaby_derives (o : EpochOpts W) (g g' : Genome W) (reg reg' : Reg W) (ms : Bool) (rs rs' : List Nat)
    (h : mutateBaby o g reg rs = .ok ((g', reg', ms), rs')) : Derives g reg g' reg' := by
  unfold mutateBaby at h
  split at h
  · cases h
  · simp only at h
    split at h
    · cases h
    · rename_i hst
      simp only [Except.ok.injEq, Prod.mk.injEq] at h
      obtain ⟨⟨rfl, rfl, _⟩, _⟩ := h
      exact ⟨_, afterStruct_steps _ _ _ _ _ _ _ _ _ hst, .refl _⟩
    · rename_i hst
      split at h
      · cases h
      · rename_i hns
        simp only [Except.ok.injEq, Prod.mk.injEq] at h
        obtain ⟨⟨rfl, rfl, _⟩, _⟩ := h
        exact ⟨_, afterStruct_steps _ _ _ _ _ _ _ _ _ hst, mutateAllNonstructural_sameBinds _ _ _ _ _ hns⟩

/-! ### one offspring -/

/-- where the genome a baby starts from comes from: a duplicate of the champion / a member of the species, or a
    crossover of a member with a member of this or of another (sorted) species -/
inductive Source (s : Species W) (sorted : List (Species W)) (champ : Org W) : Genome W → Prop where
  | dup (p : Org W) (id : Int) (g0 : Genome W) : (p = champ ∨ p ∈ s.orgs) → p.genome.duplicate id = .ok g0 →
      Source s sorted champ g0
  | mate (mom dad : Org W) (g0 : Genome W) (id : Int) (f1 f2 : W) (rs rs' : List Nat) :
      mom ∈ s.orgs → (dad ∈ s.orgs ∨ ∃ sp ∈ sorted, dad ∈ sp.orgs) →
      (mateMultipoint mom.genome dad.genome id f1 f2 rs = .ok (g0, rs') ∨
       mateMultipointAvg mom.genome dad.genome id f1 f2 rs = .ok (g0, rs') ∨
       mateSinglePoint mom.genome dad.genome id rs = .ok (g0, rs')) → Source s sorted champ g0

theorem pickOtherSpecies_mem (s : Species W) (sorted : List (Species W)) (n : Nat) (cur sp : Species W) (rs rs' : List Nat)
    (h : pickOtherSpecies s sorted n cur rs = .ok (sp, rs')) (hc : cur = s ∨ cur ∈ sorted) : sp = s ∨ sp ∈ sorted := by
  induction n generalizing cur rs with
  | zero =>
    simp only [pickOtherSpecies, Except.ok.injEq, Prod.mk.injEq] at h
    obtain ⟨rfl, _⟩ := h; exact hc
  | succ n ih =>
    unfold pickOtherSpecies at h
    split at h
    · split at h
      · cases h
      · simp only at h
        split at h
        · cases h
        · split at h
          · cases h
          · rename_i sp' hsp
            exact ih _ _ h (.inr (List.mem_of_getElem? hsp))
    · simp only [Except.ok.injEq, Prod.mk.injEq] at h
      obtain ⟨rfl, _⟩ := h; exact hc

theorem reproduceOne_shape (o : EpochOpts W) (gen : Int) (s : Species W) (sorted : List (Species W)) (champ : Org W)
    (count : Int) (st st' : ReproState W) (rs rs' : List Nat)
    (h : reproduceOne o gen s sorted champ count st rs = .ok (st', rs')) :
    ∃ g0 g1 b, Source s sorted champ g0 ∧ Derives g0 st.reg g1 st'.reg ∧ st'.babies = st.babies ++ [b] ∧ b.genome = g1 := by
  unfold reproduceOne at h
  simp only at h
  split at h
  · -- super-champion offspring
    split at h
    · cases h
    · rename_i g0 hdup
      split at h
      · cases h
      · rename_i g1 reg1 ms rs1 hmut
        simp only [Except.ok.injEq, Prod.mk.injEq] at h
        obtain ⟨rfl, _⟩ := h
        refine ⟨g0, g1, _, .dup champ count g0 (.inl rfl) hdup, ?_, rfl, rfl⟩
        dsimp only
        split at hmut
        · split at hmut
          · cases hmut
          · split at hmut
            · split at hmut
              · cases hmut
              · rename_i hw
                simp only [Except.ok.injEq, Prod.mk.injEq] at hmut
                obtain ⟨⟨rfl, rfl, _⟩, _⟩ := hmut
                exact .same _ ((parametric_sameBinds _ _ o.mopts _ _ _ 0 _ _).1 hw)
            · split at hmut
              · cases hmut
              · rename_i hl
                simp only [Except.ok.injEq, Prod.mk.injEq] at hmut
                obtain ⟨⟨rfl, rfl, _⟩, _⟩ := hmut
                exact .link (mutateAddLink_steps _ _ _ _ _ _ _ _ hl)
        · simp only [Except.ok.injEq, Prod.mk.injEq] at hmut
          obtain ⟨⟨rfl, rfl, _⟩, _⟩ := hmut
          exact .refl _ _
  · split at h
    · -- champion clone
      split at h
      · cases h
      · rename_i g0 hdup
        simp only [Except.ok.injEq, Prod.mk.injEq] at h
        obtain ⟨rfl, _⟩ := h
        exact ⟨g0, g0, _, .dup champ count g0 (.inl rfl) hdup, .refl _ _, rfl, rfl⟩
    · split at h
      · cases h
      · split at h
        · -- mutation only
          split at h
          · cases h
          · split at h
            · cases h
            · rename_i mom hmom
              split at h
              · cases h
              · rename_i g0 hdup
                split at h
                · cases h
                · rename_i g1 reg1 ms rs3 hmb
                  simp only [Except.ok.injEq, Prod.mk.injEq] at h
                  obtain ⟨rfl, _⟩ := h
                  exact ⟨g0, g1, _, .dup mom count g0 (.inr (List.mem_of_getElem? hmom)) hdup, mutateBaby_derives _ _ _ _ _ _ _ _ hmb, rfl, rfl⟩
        · -- mating
          split at h
          · cases h
          · split at h
            · cases h
            · rename_i mom hmom
              split at h
              · cases h
              · split at h
                · cases h
                · rename_i dad rs4 hdad
                  have hdadIn : dad ∈ s.orgs ∨ ∃ sp ∈ sorted, dad ∈ sp.orgs := by
                    split at hdad
                    · split at hdad
                      · cases hdad
                      · split at hdad
                        · cases hdad
                        · rename_i d hd
                          simp only [Except.ok.injEq, Prod.mk.injEq] at hdad
                          obtain ⟨rfl, _⟩ := hdad
                          exact .inl (List.mem_of_getElem? hd)
                    · split at hdad
                      · cases hdad
                      · rename_i sp rs5 hpick
                        split at hdad
                        · cases hdad
                        · rename_i d hd
                          simp only [Except.ok.injEq, Prod.mk.injEq] at hdad
                          obtain ⟨rfl, _⟩ := hdad
                          have hdm : d ∈ sp.orgs := List.mem_of_mem_head? hd
                          rcases pickOtherSpecies_mem _ _ _ _ _ _ _ hpick (.inl rfl) with rfl | hsp
                          · exact .inl hdm
                          · exact .inr ⟨sp, hsp, hdm⟩
                  split at h
                  · cases h
                  · split at h
                    · cases h
                    · rename_i child rs7 hchild
                      have hsrc : Source s sorted champ child := by
                        split at hchild
                        · exact .mate mom dad child count _ _ _ _ (List.mem_of_getElem? hmom) hdadIn (.inl hchild)
                        · split at hchild
                          · cases hchild
                          · split at hchild
                            · exact .mate mom dad child count _ _ _ _ (List.mem_of_getElem? hmom) hdadIn (.inr (.inl hchild))
                            · exact .mate mom dad child count zero zero _ _ (List.mem_of_getElem? hmom) hdadIn (.inr (.inr hchild))
                      split at h
                      · cases h
                      · split at h
                        · split at h
                          · cases h
                          · rename_i g1 reg1 ms rs9 hmb
                            simp only [Except.ok.injEq, Prod.mk.injEq] at h
                            obtain ⟨rfl, _⟩ := h
                            exact ⟨child, g1, _, hsrc, mutateBaby_derives _ _ _ _ _ _ _ _ hmb, rfl, rfl⟩
                        · simp only [Except.ok.injEq, Prod.mk.injEq] at h
                          obtain ⟨rfl, _⟩ := h
                          exact ⟨child, child, _, hsrc, .refl _ _, rfl, rfl⟩

/-! ### the running invariant of a reproduction phase -/

/-- the possible parents are part of the history `H0` the generation started with -/
structure Parents (H0 : List (Genome W)) (s : Species W) (sorted : List (Species W)) (champ : Org W) : Prop where
  own : ∀ org ∈ s.orgs, GenomeIn H0 org.genome
  others : ∀ sp ∈ sorted, ∀ org ∈ sp.orgs, GenomeIn H0 org.genome
  champ : GenomeIn H0 champ.genome

/-- the counters only grow -/
def CtrLe (a b : Reg W) : Prop := a.nextInn ≤ b.nextInn ∧ a.nextNode ≤ b.nextNode
theorem CtrLe.refl (a : Reg W) : CtrLe a a := ⟨Int.le_refl _, Int.le_refl _⟩
theorem CtrLe.trans {a b c : Reg W} (h1 : CtrLe a b) (h2 : CtrLe b c) : CtrLe a c :=
  ⟨Int.le_trans h1.1 h2.1, Int.le_trans h1.2 h2.2⟩

/-- what holds at every moment of the reproduction phase of the generation that started with history `H0` and counters
    `(bi, bn)`: the history `H` has only grown, the invariant holds for the current registry and `H`, every record is
    above the start counters, and every baby made so far lies in `H` and carries only bindings of `H0` or numbers above
    the start counters -/
structure RInv (bi bn : Int) (H0 H : List (Genome W)) (reg : Reg W) (babies : List (Org W)) : Prop where
  ext : Ext H0 H
  inv : Inv reg H
  gen : GenInv bi bn reg
  babiesIn : ∀ b ∈ babies, GenomeIn H b.genome
  babiesFresh : ∀ b ∈ babies, FreshG bi bn H0 b.genome

theorem consistent_of_ext {H0 H : List (Genome W)} {reg : Reg W} (he : Ext H0 H) (h : Inv reg H) : ConsistentB (binds H0) := by
  obtain ⟨e, rfl⟩ := he
  intro a ha b hb
  refine h.genes a ?_ b ?_ <;> (rw [binds_append]; exact List.mem_append_right _ ‹_›)

theorem Source.genomeIn {s : Species W} {sorted : List (Species W)} {champ : Org W} {g0 : Genome W}
    (hs : Source s sorted champ g0) {H0 : List (Genome W)} (hp : Parents H0 s sorted champ) (hc : ConsistentB (binds H0)) :
    GenomeIn H0 g0 := by
  cases hs with
  | dup p id g0 hp' hdup =>
    have hin : GenomeIn H0 p.genome := by
      rcases hp' with rfl | hm
      · exact hp.champ
      · exact hp.own p hm
    obtain ⟨a, b⟩ := duplicate_binds _ _ _ hdup
    exact AllB.same hin ⟨a, b⟩
  | mate mom dad g0 id f1 f2 rs rs' hm hd hmate =>
    have hmom := hp.own mom hm
    have hdad : GenomeIn H0 dad.genome := by
      rcases hd with hd | ⟨sp, hsp, hd⟩
      · exact hp.own dad hd
      · exact hp.others sp hsp dad hd
    obtain ⟨m1, m2, m3⟩ := mate_from hc mom.genome dad.genome id f1 f2 rs rs' g0 hmom.1 hmom.2 hdad.1 hdad.2
    rcases hmate with h | h | h
    · exact m1 h
    · exact m2 h
    · exact m3 h

theorem reproduceOne_rinv (o : EpochOpts W) (gen : Int) (s : Species W) (sorted : List (Species W)) (champ : Org W)
    (count : Int) (st st' : ReproState W) (rs rs' : List Nat) {bi bn : Int} {H0 H : List (Genome W)}
    (hp : Parents H0 s sorted champ) (hr : RInv bi bn H0 H st.reg st.babies)
    (h : reproduceOne o gen s sorted champ count st rs = .ok (st', rs')) :
    ∃ H', RInv bi bn H0 H' st'.reg st'.babies ∧ Ext H H' ∧ CtrLe st.reg st'.reg := by
  obtain ⟨g0, g1, b, hsrc, hder, hbab, rfl⟩ := reproduceOne_shape o gen s sorted champ count st st' rs rs' h
  have hin0 := hsrc.genomeIn hp (consistent_of_ext hr.ext hr.inv)
  obtain ⟨hinv', hgen', hfr', hm1, hm2⟩ := hder.keeps hr.inv hr.gen (hin0.mono hr.ext) (hin0.fresh bi bn)
  refine ⟨b.genome :: H, ⟨hr.ext.trans (.cons _ _), hinv', hgen', ?_, ?_⟩, .cons _ _, ⟨hm1, hm2⟩⟩
  · intro x hx
    rw [hbab] at hx
    rcases List.mem_append.mp hx with hx | hx
    · exact (hr.babiesIn x hx).mono (.cons _ _)
    · simp only [List.mem_singleton] at hx; subst hx
      exact .of_mem List.mem_cons_self
  · intro x hx
    rw [hbab] at hx
    rcases List.mem_append.mp hx with hx | hx
    · exact hr.babiesFresh x hx
    · simp only [List.mem_singleton] at hx; subst hx
      exact hfr'

theorem reproduceLoop_rinv (o : EpochOpts W) (gen : Int) (s : Species W) (sorted : List (Species W)) (champ : Org W)
    (n : Nat) (count : Int) (st st' : ReproState W) (rs rs' : List Nat) {bi bn : Int} {H0 H : List (Genome W)}
    (hp : Parents H0 s sorted champ) (hr : RInv bi bn H0 H st.reg st.babies)
    (h : reproduceLoop o gen s sorted champ n count st rs = .ok (st', rs')) :
    ∃ H', RInv bi bn H0 H' st'.reg st'.babies ∧ Ext H H' ∧ CtrLe st.reg st'.reg := by
  induction n generalizing count st rs H with
  | zero =>
    simp only [reproduceLoop, Except.ok.injEq, Prod.mk.injEq] at h
    obtain ⟨rfl, _⟩ := h
    exact ⟨H, hr, .refl _, .refl _⟩
  | succ n ih =>
    unfold reproduceLoop at h
    split at h
    · cases h
    · rename_i st1 rs1 h1
      obtain ⟨H1, hr1, he1, hc1⟩ := reproduceOne_rinv o gen s sorted champ count st st1 rs rs1 hp hr h1
      obtain ⟨H2, hr2, he2, hc2⟩ := ih _ _ _ hr1 h
      exact ⟨H2, hr2, he1.trans he2, hc1.trans hc2⟩

theorem reproduceSpecies_rinv (o : EpochOpts W) (gen : Int) (s : Species W) (sorted : List (Species W)) (reg reg' : Reg W)
    (uid uid' : Nat) (bs : List (Org W)) (rs rs' : List Nat) {bi bn : Int} {H0 H : List (Genome W)} (babies : List (Org W))
    (hown : ∀ org ∈ s.orgs, GenomeIn H0 org.genome) (hoth : ∀ sp ∈ sorted, ∀ org ∈ sp.orgs, GenomeIn H0 org.genome)
    (hr : RInv bi bn H0 H reg babies)
    (h : reproduceSpecies o gen s sorted reg uid rs = .ok ((bs, reg', uid'), rs')) :
    ∃ H', RInv bi bn H0 H' reg' (babies ++ bs) ∧ Ext H H' ∧ CtrLe reg reg' := by
  unfold reproduceSpecies at h
  split at h
  · split at h <;> cases h
  · rename_i champ hchamp
    simp only at h
    split at h
    · cases h
    · rename_i st rs1 hl
      simp only [Except.ok.injEq, Prod.mk.injEq] at h
      obtain ⟨⟨rfl, rfl, _⟩, _⟩ := h
      have hp : Parents H0 s sorted champ := ⟨hown, hoth, hown champ (List.mem_of_mem_head? hchamp)⟩
      have hr0 : RInv bi bn H0 H reg ([] : List (Org W)) := ⟨hr.ext, hr.inv, hr.gen, by simp, by simp⟩
      obtain ⟨H1, hr1, he1, hc1⟩ := reproduceLoop_rinv o gen s sorted champ _ 0 _ st rs rs1 hp hr0 hl
      refine ⟨H1, ⟨hr1.ext, hr1.inv, hr1.gen, ?_, ?_⟩, he1, hc1⟩
      · intro x hx
        rcases List.mem_append.mp hx with hx | hx
        · exact (hr.babiesIn x hx).mono he1
        · exact hr1.babiesIn x hx
      · intro x hx
        rcases List.mem_append.mp hx with hx | hx
        · exact hr.babiesFresh x hx
        · exact hr1.babiesFresh x hx

theorem reproduceAll_rinv (o : EpochOpts W) (gen : Int) (sorted ss : List (Species W)) (reg reg' : Reg W)
    (uid uid' : Nat) (babies bs : List (Org W)) (rs rs' : List Nat) {bi bn : Int} {H0 H : List (Genome W)}
    (hss : ∀ sp ∈ ss, ∀ org ∈ sp.orgs, GenomeIn H0 org.genome) (hoth : ∀ sp ∈ sorted, ∀ org ∈ sp.orgs, GenomeIn H0 org.genome)
    (hr : RInv bi bn H0 H reg babies)
    (h : reproduceAll o gen sorted ss reg uid babies rs = .ok ((bs, reg', uid'), rs')) :
    ∃ H', RInv bi bn H0 H' reg' bs ∧ Ext H H' ∧ CtrLe reg reg' := by
  induction ss generalizing reg uid babies rs H with
  | nil =>
    simp only [reproduceAll, Except.ok.injEq, Prod.mk.injEq] at h
    obtain ⟨⟨rfl, rfl, _⟩, _⟩ := h
    exact ⟨H, hr, .refl _, .refl _⟩
  | cons s ss ih =>
    unfold reproduceAll at h
    split at h
    · cases h
    · rename_i bs1 reg1 uid1 rs1 h1
      obtain ⟨H1, hr1, he1, hc1⟩ := reproduceSpecies_rinv o gen s sorted reg reg1 uid uid1 bs1 rs rs1 babies
        (hss s List.mem_cons_self) hoth hr h1
      obtain ⟨H2, hr2, he2, hc2⟩ := ih _ _ _ _ (tail_of hss) hr1 h
      exact ⟨H2, hr2, he1.trans he2, hc1.trans hc2⟩

end GoNeat.C03
