/-
  Population-level helper lemmas for property C03: one offspring (`reproduceOne`), one species, all species, the
  reproduction phase and the end of the epoch keep the invariant `Inv` for the registry and the growing history of
  genomes, and every number a baby carries is one its generation started with or lies above the counters of the
  generation start.
-/
import GoNeat.Proofs.RegistrySteps
import GoNeat.Proofs.MaxFrom
import GoNeat.Model.Epoch
import GoNeat.Spec.PopInv
import GoNeat.Proofs.SortLemmas

set_option linter.unusedSectionVars false

namespace GoNeat.C03
open GoNeat Scalar
variable {W : Type} [Scalar W]

/-! ### histories -/

/-- the history only grows: `H'` is `H` with further genomes put in front -/
def Ext (H H' : List (Genome W)) : Prop := ∃ e, H' = e ++ H
theorem Ext.refl (H : List (Genome W)) : Ext H H := ⟨[], rfl⟩
theorem Ext.trans {a b c : List (Genome W)} (h1 : Ext a b) (h2 : Ext b c) : Ext a c := by
  obtain ⟨e1, rfl⟩ := h1; obtain ⟨e2, rfl⟩ := h2; exact ⟨e2 ++ e1, by simp⟩
theorem Ext.cons (g : Genome W) (H : List (Genome W)) : Ext H (g :: H) := ⟨[g], rfl⟩

theorem binds_append (a b : List (Genome W)) : binds (a ++ b) = binds a ++ binds b := by simp [binds]
theorem roles_append (a b : List (Genome W)) : roles (a ++ b) = roles a ++ roles b := by simp [roles]

/-- all bindings of `g` satisfy `φ` / `ψ` -/
def AllB (φ : Bind → Prop) (ψ : Role → Prop) (g : Genome W) : Prop := (∀ b ∈ gb g, φ b) ∧ (∀ r ∈ gr g, ψ r)

/-- all bindings of `g` occur in the history -/
def GenomeIn (H : List (Genome W)) (g : Genome W) : Prop := AllB (· ∈ binds H) (· ∈ roles H) g

/-- every binding of `g` was held when the generation started (history `H0`) or lies above the counters `(bi, bn)` the
    generation started with -/
def FreshG (bi bn : Int) (H0 : List (Genome W)) (g : Genome W) : Prop :=
  AllB (fun b => b ∈ binds H0 ∨ bi < b.1) (fun r => r ∈ roles H0 ∨ bn < r.1) g

theorem AllB.same {φ : Bind → Prop} {ψ : Role → Prop} {g g' : Genome W} (h : AllB φ ψ g) (hs : SameBinds g g') : AllB φ ψ g' :=
  ⟨fun b hb => h.1 b (hs.1 ▸ hb), fun r hr => h.2 r (hs.2 ▸ hr)⟩

theorem GenomeIn.mono {H H' : List (Genome W)} {g : Genome W} (h : GenomeIn H g) (he : Ext H H') : GenomeIn H' g := by
  obtain ⟨e, rfl⟩ := he
  exact ⟨fun b hb => by rw [binds_append]; exact List.mem_append_right _ (h.1 b hb),
         fun r hr => by rw [roles_append]; exact List.mem_append_right _ (h.2 r hr)⟩

theorem GenomeIn.of_mem {H : List (Genome W)} {g : Genome W} (h : g ∈ H) : GenomeIn H g :=
  ⟨fun _ hb => by obtain ⟨x, hx, rfl⟩ := List.mem_map.mp hb; exact mem_binds_of_mem h hx,
   fun _ hr => by obtain ⟨x, hx, rfl⟩ := List.mem_map.mp hr; exact mem_roles_of_mem h hx⟩

theorem GenomeIn.fresh {H0 : List (Genome W)} {g : Genome W} (h : GenomeIn H0 g) (bi bn : Int) : FreshG bi bn H0 g :=
  ⟨fun b hb => .inl (h.1 b hb), fun r hr => .inl (h.2 r hr)⟩

theorem Inv.add_in {reg : Reg W} {H : List (Genome W)} (h : Inv reg H) {g : Genome W} (hg : GenomeIn H g) : Inv reg (g :: H) :=
  h.add_copy g hg.1 hg.2

/-! ### one derivation: a structural step followed by binding-preserving changes -/

/-- `g1` derives from `g0`: at most one structural mutation (a split, or some new links) resolved against the registry,
    then only changes that keep all bindings -/
def Derives (g0 : Genome W) (reg : Reg W) (g1 : Genome W) (reg1 : Reg W) : Prop :=
  ∃ gm, (NodeStep g0 reg gm reg1 ∨ LinkSteps g0 reg gm reg1) ∧ SameBinds gm g1

theorem Derives.same {g0 g1 : Genome W} (reg : Reg W) (h : SameBinds g0 g1) : Derives g0 reg g1 reg :=
  ⟨g0, .inr (.refl _ _), h⟩
theorem Derives.refl (g0 : Genome W) (reg : Reg W) : Derives g0 reg g0 reg := .same reg (.refl _)
theorem Derives.link {g0 g1 : Genome W} {reg reg1 : Reg W} (h : LinkStep g0 reg g1 reg1) : Derives g0 reg g1 reg1 :=
  ⟨g1, .inr (.step h (.refl _ _)), .refl _⟩

/-- what one derivation keeps: the invariant for the history with the result added, `GenInv`, freshness -/
theorem Derives.keeps {g0 g1 : Genome W} {reg reg1 : Reg W} (hd : Derives g0 reg g1 reg1) {H H0 : List (Genome W)} {bi bn : Int}
    (hinv : Inv reg H) (hgen : GenInv bi bn reg) (hin : GenomeIn H g0) (hfr : FreshG bi bn H0 g0) :
    Inv reg1 (g1 :: H) ∧ GenInv bi bn reg1 ∧ FreshG bi bn H0 g1 ∧ reg.nextInn ≤ reg1.nextInn ∧ reg.nextNode ≤ reg1.nextNode := by
  obtain ⟨gm, hstep, hs⟩ := hd
  have hloc : InvB reg (gb g0 ++ binds H) (gr g0 ++ roles H) := InvB.add_known hinv hin.1 hin.2
  have hi : InvB reg1 (gb gm ++ binds H) (gr gm ++ roles H) ∧ Issued bi bn g0 reg gm reg1 := by
    rcases hstep with h | h
    · exact ⟨h.inv hloc, h.issued hgen⟩
    · exact ⟨h.inv hloc, h.issued hgen⟩
  obtain ⟨hi1, hi2⟩ := hi
  refine ⟨?_, hi2.gen, ?_, hi2.innMono, hi2.nodeMono⟩
  · apply Inv.of_local
    rw [hs.1, hs.2]; exact hi1
  · have hm : FreshG bi bn H0 gm := by
      refine ⟨fun b hb => ?_, fun r hr => ?_⟩
      · obtain ⟨x, hx, rfl⟩ := List.mem_map.mp hb
        rcases hi2.above.1 x hx with h1 | h1
        · exact hfr.1 _ h1
        · exact .inr h1
      · obtain ⟨x, hx, rfl⟩ := List.mem_map.mp hr
        rcases hi2.above.2 x hx with h1 | h1
        · exact hfr.2 _ h1
        · exact .inr h1
    exact hm.same hs

/-! ### the mutation chain of a baby -/

/-- the structural part of `mutateBaby` (the `afterStruct` value of the model) -/
theorem afterStruct_steps (o : EpochOpts W) (g : Genome W) (reg : Reg W) (f1 : W) (rs1 : List Nat)
    (g1 : Genome W) (reg1 : Reg W) (b : Bool) (rs2 : List Nat)
    (hst : (if lt f1 o.mutateAddNodeProb then
              match mutateAddNode g reg o.mopts rs1 with
              | .error e => .error e
              | .ok ((g', reg', _), rs2) => .ok ((g', reg', true), rs2)
            else
              match Rand.float64 (W := W) rs1 with
              | .error e => .error e
              | .ok (f2, rs2) =>
                if lt f2 o.mutateAddLinkProb then
                  match mutateAddLink g reg o.mopts rs2 with
                  | .error e => .error e
                  | .ok ((g', reg', _), rs3) => .ok ((g', reg', true), rs3)
                else
                  match Rand.float64 (W := W) rs2 with
                  | .error e => .error e
                  | .ok (f3, rs3) =>
                    if lt f3 o.mutateConnectSensors then mutateConnectSensors g reg rs3
                    else .ok ((g, reg, false), rs3) : R (Genome W × Reg W × Bool)) = .ok ((g1, reg1, b), rs2)) :
    NodeStep g reg g1 reg1 ∨ LinkSteps g reg g1 reg1 := by
  split at hst
  · split at hst
    · cases hst
    · rename_i hmut
      simp only [Except.ok.injEq, Prod.mk.injEq] at hst
      obtain ⟨⟨rfl, rfl, _⟩, _⟩ := hst
      exact .inl (mutateAddNode_steps _ _ _ _ _ _ _ _ hmut)
  · split at hst
    · cases hst
    · split at hst
      · split at hst
        · cases hst
        · rename_i hmut
          simp only [Except.ok.injEq, Prod.mk.injEq] at hst
          obtain ⟨⟨rfl, rfl, _⟩, _⟩ := hst
          exact .inr (.step (mutateAddLink_steps _ _ _ _ _ _ _ _ hmut) (.refl _ _))
      · split at hst
        · cases hst
        · split at hst
          · exact .inr (mutateConnectSensors_steps _ _ _ _ _ _ _ hst)
          · simp only [Except.ok.injEq, Prod.mk.injEq] at hst
            obtain ⟨⟨rfl, rfl, _⟩, _⟩ := hst
            exact .inr (.refl _ _)

theorem mutateBaby_derives (o : EpochOpts W) (g g' : Genome W) (reg reg' : Reg W) (ms : Bool) (rs rs' : List Nat)
    (h : mutateBaby o g reg rs = .ok ((g', reg', ms), rs')) : Derives g reg g' reg' := by
  unfold mutateBaby at h
  split at h
  · cases h
  · simp only at h
    split at h
    · cases h
    · rename_i hst
      simp only [Except.ok.injEq, Prod.mk.injEq] at h
      obtain ⟨⟨rfl, rfl, _⟩, _⟩ := h
      exact ⟨_, afterStruct_steps _ _ _ _ _ _ _ _ _ hst, .refl _⟩
    · rename_i hst
      split at h
      · cases h
      · rename_i hns
        simp only [Except.ok.injEq, Prod.mk.injEq] at h
        obtain ⟨⟨rfl, rfl, _⟩, _⟩ := h
        exact ⟨_, afterStruct_steps _ _ _ _ _ _ _ _ _ hst, mutateAllNonstructural_sameBinds _ _ _ _ _ hns⟩

/-! ### one offspring -/

/-- where the genome a baby starts from comes from: a duplicate of the champion / a member of the species, or a
    crossover of a member with a member of this or of another (sorted) species -/
inductive Source (s : Species W) (sorted : List (Species W)) (champ : Org W) : Genome W → Prop where
  | dup (p : Org W) (id : Int) (g0 : Genome W) : (p = champ ∨ p ∈ s.orgs) → p.genome.duplicate id = .ok g0 →
      Source s sorted champ g0
  | mate (mom dad : Org W) (g0 : Genome W) (id : Int) (f1 f2 : W) (rs rs' : List Nat) :
      mom ∈ s.orgs → (dad ∈ s.orgs ∨ ∃ sp ∈ sorted, dad ∈ sp.orgs) →
      (mateMultipoint mom.genome dad.genome id f1 f2 rs = .ok (g0, rs') ∨
       mateMultipointAvg mom.genome dad.genome id f1 f2 rs = .ok (g0, rs') ∨
       mateSinglePoint mom.genome dad.genome id rs = .ok (g0, rs')) → Source s sorted champ g0

theorem pickOtherSpecies_mem (s : Species W) (sorted : List (Species W)) (n : Nat) (cur sp : Species W) (rs rs' : List Nat)
    (h : pickOtherSpecies s sorted n cur rs = .ok (sp, rs')) (hc : cur = s ∨ cur ∈ sorted) : sp = s ∨ sp ∈ sorted := by
  induction n generalizing cur rs with
  | zero =>
    simp only [pickOtherSpecies, Except.ok.injEq, Prod.mk.injEq] at h
    obtain ⟨rfl, _⟩ := h; exact hc
  | succ n ih =>
    unfold pickOtherSpecies at h
    split at h
    · split at h
      · cases h
      · simp only at h
        split at h
        · cases h
        · split at h
          · cases h
          · rename_i sp' hsp
            exact ih _ _ h (.inr (List.mem_of_getElem? hsp))
    · simp only [Except.ok.injEq, Prod.mk.injEq] at h
      obtain ⟨rfl, _⟩ := h; exact hc

theorem reproduceOne_shape (o : EpochOpts W) (gen : Int) (s : Species W) (sorted : List (Species W)) (champ : Org W)
    (count : Int) (st st' : ReproState W) (rs rs' : List Nat)
    (h : reproduceOne o gen s sorted champ count st rs = .ok (st', rs')) :
    ∃ g0 g1 b, Source s sorted champ g0 ∧ Derives g0 st.reg g1 st'.reg ∧ st'.babies = st.babies ++ [b] ∧ b.genome = g1 := by
  unfold reproduceOne at h
  simp only at h
  split at h
  · -- super-champion offspring
    split at h
    · cases h
    · rename_i g0 hdup
      split at h
      · cases h
      · rename_i g1 reg1 ms rs1 hmut
        simp only [Except.ok.injEq, Prod.mk.injEq] at h
        obtain ⟨rfl, _⟩ := h
        refine ⟨g0, g1, _, .dup champ count g0 (.inl rfl) hdup, ?_, rfl, rfl⟩
        dsimp only
        split at hmut
        · split at hmut
          · cases hmut
          · split at hmut
            · split at hmut
              · cases hmut
              · rename_i hw
                simp only [Except.ok.injEq, Prod.mk.injEq] at hmut
                obtain ⟨⟨rfl, rfl, _⟩, _⟩ := hmut
                exact .same _ ((parametric_sameBinds _ _ o.mopts _ _ _ 0 _ _).1 hw)
            · split at hmut
              · cases hmut
              · rename_i hl
                simp only [Except.ok.injEq, Prod.mk.injEq] at hmut
                obtain ⟨⟨rfl, rfl, _⟩, _⟩ := hmut
                exact .link (mutateAddLink_steps _ _ _ _ _ _ _ _ hl)
        · simp only [Except.ok.injEq, Prod.mk.injEq] at hmut
          obtain ⟨⟨rfl, rfl, _⟩, _⟩ := hmut
          exact .refl _ _
  · split at h
    · -- champion clone
      split at h
      · cases h
      · rename_i g0 hdup
        simp only [Except.ok.injEq, Prod.mk.injEq] at h
        obtain ⟨rfl, _⟩ := h
        exact ⟨g0, g0, _, .dup champ count g0 (.inl rfl) hdup, .refl _ _, rfl, rfl⟩
    · split at h
      · cases h
      · split at h
        · -- mutation only
          split at h
          · cases h
          · split at h
            · cases h
            · rename_i mom hmom
              split at h
              · cases h
              · rename_i g0 hdup
                split at h
                · cases h
                · rename_i g1 reg1 ms rs3 hmb
                  simp only [Except.ok.injEq, Prod.mk.injEq] at h
                  obtain ⟨rfl, _⟩ := h
                  exact ⟨g0, g1, _, .dup mom count g0 (.inr (List.mem_of_getElem? hmom)) hdup, mutateBaby_derives _ _ _ _ _ _ _ _ hmb, rfl, rfl⟩
        · -- mating
          split at h
          · cases h
          · split at h
            · cases h
            · rename_i mom hmom
              split at h
              · cases h
              · split at h
                · cases h
                · rename_i dad rs4 hdad
                  have hdadIn : dad ∈ s.orgs ∨ ∃ sp ∈ sorted, dad ∈ sp.orgs := by
                    split at hdad
                    · split at hdad
                      · cases hdad
                      · split at hdad
                        · cases hdad
                        · rename_i d hd
                          simp only [Except.ok.injEq, Prod.mk.injEq] at hdad
                          obtain ⟨rfl, _⟩ := hdad
                          exact .inl (List.mem_of_getElem? hd)
                    · split at hdad
                      · cases hdad
                      · rename_i sp rs5 hpick
                        split at hdad
                        · cases hdad
                        · rename_i d hd
                          simp only [Except.ok.injEq, Prod.mk.injEq] at hdad
                          obtain ⟨rfl, _⟩ := hdad
                          have hdm : d ∈ sp.orgs := List.mem_of_mem_head? hd
                          rcases pickOtherSpecies_mem _ _ _ _ _ _ _ hpick (.inl rfl) with rfl | hsp
                          · exact .inl hdm
                          · exact .inr ⟨sp, hsp, hdm⟩
                  split at h
                  · cases h
                  · split at h
                    · cases h
                    · rename_i child rs7 hchild
                      have hsrc : Source s sorted champ child := by
                        split at hchild
                        · exact .mate mom dad child count _ _ _ _ (List.mem_of_getElem? hmom) hdadIn (.inl hchild)
                        · split at hchild
                          · cases hchild
                          · split at hchild
                            · exact .mate mom dad child count _ _ _ _ (List.mem_of_getElem? hmom) hdadIn (.inr (.inl hchild))
                            · exact .mate mom dad child count zero zero _ _ (List.mem_of_getElem? hmom) hdadIn (.inr (.inr hchild))
                      split at h
                      · cases h
                      · split at h
                        · split at h
                          · cases h
                          · rename_i g1 reg1 ms rs9 hmb
                            simp only [Except.ok.injEq, Prod.mk.injEq] at h
                            obtain ⟨rfl, _⟩ := h
                            exact ⟨child, g1, _, hsrc, mutateBaby_derives _ _ _ _ _ _ _ _ hmb, rfl, rfl⟩
                        · simp only [Except.ok.injEq, Prod.mk.injEq] at h
                          obtain ⟨rfl, _⟩ := h
                          exact ⟨child, child, _, hsrc, .refl _ _, rfl, rfl⟩

/-! ### the running invariant of a reproduction phase -/

/-- the possible parents are part of the history `H0` the generation started with -/
structure Parents (H0 : List (Genome W)) (s : Species W) (sorted : List (Species W)) (champ : Org W) : Prop where
  own : ∀ org ∈ s.orgs, GenomeIn H0 org.genome
  others : ∀ sp ∈ sorted, ∀ org ∈ sp.orgs, GenomeIn H0 org.genome
  champ : GenomeIn H0 champ.genome

/-- the counters only grow -/
def CtrLe (a b : Reg W) : Prop := a.nextInn ≤ b.nextInn ∧ a.nextNode ≤ b.nextNode
theorem CtrLe.refl (a : Reg W) : CtrLe a a := ⟨Int.le_refl _, Int.le_refl _⟩
theorem CtrLe.trans {a b c : Reg W} (h1 : CtrLe a b) (h2 : CtrLe b c) : CtrLe a c :=
  ⟨Int.le_trans h1.1 h2.1, Int.le_trans h1.2 h2.2⟩

/-- what holds at every moment of the reproduction phase of the generation that started with history `H0` and counters
    `(bi, bn)`: the history `H` has only grown, the invariant holds for the current registry and `H`, every record is
    above the start counters, and every baby made so far lies in `H` and carries only bindings of `H0` or numbers above
    the start counters -/
structure RInv (bi bn : Int) (H0 H : List (Genome W)) (reg : Reg W) (babies : List (Org W)) : Prop where
  ext : Ext H0 H
  inv : Inv reg H
  gen : GenInv bi bn reg
  babiesIn : ∀ b ∈ babies, GenomeIn H b.genome
  babiesFresh : ∀ b ∈ babies, FreshG bi bn H0 b.genome

theorem consistent_of_ext {H0 H : List (Genome W)} {reg : Reg W} (he : Ext H0 H) (h : Inv reg H) : ConsistentB (binds H0) := by
  obtain ⟨e, rfl⟩ := he
  intro a ha b hb
  refine h.genes a ?_ b ?_ <;> (rw [binds_append]; exact List.mem_append_right _ ‹_›)

theorem Source.genomeIn {s : Species W} {sorted : List (Species W)} {champ : Org W} {g0 : Genome W}
    (hs : Source s sorted champ g0) {H0 : List (Genome W)} (hp : Parents H0 s sorted champ) (hc : ConsistentB (binds H0)) :
    GenomeIn H0 g0 := by
  cases hs with
  | dup p id g0 hp' hdup =>
    have hin : GenomeIn H0 p.genome := by
      rcases hp' with rfl | hm
      · exact hp.champ
      · exact hp.own p hm
    obtain ⟨a, b⟩ := duplicate_binds _ _ _ hdup
    exact AllB.same hin ⟨a, b⟩
  | mate mom dad g0 id f1 f2 rs rs' hm hd hmate =>
    have hmom := hp.own mom hm
    have hdad : GenomeIn H0 dad.genome := by
      rcases hd with hd | ⟨sp, hsp, hd⟩
      · exact hp.own dad hd
      · exact hp.others sp hsp dad hd
    obtain ⟨m1, m2, m3⟩ := mate_from hc mom.genome dad.genome id f1 f2 rs rs' g0 hmom.1 hmom.2 hdad.1 hdad.2
    rcases hmate with h | h | h
    · exact m1 h
    · exact m2 h
    · exact m3 h

theorem reproduceOne_rinv (o : EpochOpts W) (gen : Int) (s : Species W) (sorted : List (Species W)) (champ : Org W)
    (count : Int) (st st' : ReproState W) (rs rs' : List Nat) {bi bn : Int} {H0 H : List (Genome W)}
    (hp : Parents H0 s sorted champ) (hr : RInv bi bn H0 H st.reg st.babies)
    (h : reproduceOne o gen s sorted champ count st rs = .ok (st', rs')) :
    ∃ H', RInv bi bn H0 H' st'.reg st'.babies ∧ Ext H H' ∧ CtrLe st.reg st'.reg := by
  obtain ⟨g0, g1, b, hsrc, hder, hbab, rfl⟩ := reproduceOne_shape o gen s sorted champ count st st' rs rs' h
  have hin0 := hsrc.genomeIn hp (consistent_of_ext hr.ext hr.inv)
  obtain ⟨hinv', hgen', hfr', hm1, hm2⟩ := hder.keeps hr.inv hr.gen (hin0.mono hr.ext) (hin0.fresh bi bn)
  refine ⟨b.genome :: H, ⟨hr.ext.trans (.cons _ _), hinv', hgen', ?_, ?_⟩, .cons _ _, ⟨hm1, hm2⟩⟩
  · intro x hx
    rw [hbab] at hx
    rcases List.mem_append.mp hx with hx | hx
    · exact (hr.babiesIn x hx).mono (.cons _ _)
    · simp only [List.mem_singleton] at hx; subst hx
      exact .of_mem List.mem_cons_self
  · intro x hx
    rw [hbab] at hx
    rcases List.mem_append.mp hx with hx | hx
    · exact hr.babiesFresh x hx
    · simp only [List.mem_singleton] at hx; subst hx
      exact hfr'

theorem reproduceLoop_rinv (o : EpochOpts W) (gen : Int) (s : Species W) (sorted : List (Species W)) (champ : Org W)
    (n : Nat) (count : Int) (st st' : ReproState W) (rs rs' : List Nat) {bi bn : Int} {H0 H : List (Genome W)}
    (hp : Parents H0 s sorted champ) (hr : RInv bi bn H0 H st.reg st.babies)
    (h : reproduceLoop o gen s sorted champ n count st rs = .ok (st', rs')) :
    ∃ H', RInv bi bn H0 H' st'.reg st'.babies ∧ Ext H H' ∧ CtrLe st.reg st'.reg := by
  induction n generalizing count st rs H with
  | zero =>
    simp only [reproduceLoop, Except.ok.injEq, Prod.mk.injEq] at h
    obtain ⟨rfl, _⟩ := h
    exact ⟨H, hr, .refl _, .refl _⟩
  | succ n ih =>
    unfold reproduceLoop at h
    split at h
    · cases h
    · rename_i st1 rs1 h1
      obtain ⟨H1, hr1, he1, hc1⟩ := reproduceOne_rinv o gen s sorted champ count st st1 rs rs1 hp hr h1
      obtain ⟨H2, hr2, he2, hc2⟩ := ih _ _ _ hr1 h
      exact ⟨H2, hr2, he1.trans he2, hc1.trans hc2⟩

theorem reproduceSpecies_rinv (o : EpochOpts W) (gen : Int) (s : Species W) (sorted : List (Species W)) (reg reg' : Reg W)
    (uid uid' : Nat) (bs : List (Org W)) (rs rs' : List Nat) {bi bn : Int} {H0 H : List (Genome W)} (babies : List (Org W))
    (hown : ∀ org ∈ s.orgs, GenomeIn H0 org.genome) (hoth : ∀ sp ∈ sorted, ∀ org ∈ sp.orgs, GenomeIn H0 org.genome)
    (hr : RInv bi bn H0 H reg babies)
    (h : reproduceSpecies o gen s sorted reg uid rs = .ok ((bs, reg', uid'), rs')) :
    ∃ H', RInv bi bn H0 H' reg' (babies ++ bs) ∧ Ext H H' ∧ CtrLe reg reg' := by
  unfold reproduceSpecies at h
  split at h
  · split at h <;> cases h
  · rename_i champ hchamp
    simp only at h
    split at h
    · cases h
    · rename_i st rs1 hl
      simp only [Except.ok.injEq, Prod.mk.injEq] at h
      obtain ⟨⟨rfl, rfl, _⟩, _⟩ := h
      have hp : Parents H0 s sorted champ := ⟨hown, hoth, hown champ (List.mem_of_mem_head? hchamp)⟩
      have hr0 : RInv bi bn H0 H reg ([] : List (Org W)) := ⟨hr.ext, hr.inv, hr.gen, by simp, by simp⟩
      obtain ⟨H1, hr1, he1, hc1⟩ := reproduceLoop_rinv o gen s sorted champ _ 0 _ st rs rs1 hp hr0 hl
      refine ⟨H1, ⟨hr1.ext, hr1.inv, hr1.gen, ?_, ?_⟩, he1, hc1⟩
      · intro x hx
        rcases List.mem_append.mp hx with hx | hx
        · exact (hr.babiesIn x hx).mono he1
        · exact hr1.babiesIn x hx
      · intro x hx
        rcases List.mem_append.mp hx with hx | hx
        · exact hr.babiesFresh x hx
        · exact hr1.babiesFresh x hx

theorem reproduceAll_rinv (o : EpochOpts W) (gen : Int) (sorted ss : List (Species W)) (reg reg' : Reg W)
    (uid uid' : Nat) (babies bs : List (Org W)) (rs rs' : List Nat) {bi bn : Int} {H0 H : List (Genome W)}
    (hss : ∀ sp ∈ ss, ∀ org ∈ sp.orgs, GenomeIn H0 org.genome) (hoth : ∀ sp ∈ sorted, ∀ org ∈ sp.orgs, GenomeIn H0 org.genome)
    (hr : RInv bi bn H0 H reg babies)
    (h : reproduceAll o gen sorted ss reg uid babies rs = .ok ((bs, reg', uid'), rs')) :
    ∃ H', RInv bi bn H0 H' reg' bs ∧ Ext H H' ∧ CtrLe reg reg' := by
  induction ss generalizing reg uid babies rs H with
  | nil =>
    simp only [reproduceAll, Except.ok.injEq, Prod.mk.injEq] at h
    obtain ⟨⟨rfl, rfl, _⟩, _⟩ := h
    exact ⟨H, hr, .refl _, .refl _⟩
  | cons s ss ih =>
    unfold reproduceAll at h
    split at h
    · cases h
    · rename_i bs1 reg1 uid1 rs1 h1
      obtain ⟨H1, hr1, he1, hc1⟩ := reproduceSpecies_rinv o gen s sorted reg reg1 uid uid1 bs1 rs rs1 babies
        (hss s List.mem_cons_self) hoth hr h1
      obtain ⟨H2, hr2, he2, hc2⟩ := ih _ _ _ _ (tail_of hss) hr1 h
      exact ⟨H2, hr2, he1.trans he2, hc1.trans hc2⟩

/-! ### organisms only move around: the bookkeeping phases create no genome -/

/-- every organism of `ss'` carries the genome (up to its id) of an organism of `ss` -/
def GenomesFrom (ss ss' : List (Species W)) : Prop :=
  ∀ s' ∈ ss', ∀ o' ∈ s'.orgs, ∃ s ∈ ss, ∃ o ∈ s.orgs, SameBinds o.genome o'.genome

theorem GenomesFrom.refl (ss : List (Species W)) : GenomesFrom ss ss := fun s hs o ho => ⟨s, hs, o, ho, .refl _⟩
theorem GenomesFrom.trans {a b c : List (Species W)} (h1 : GenomesFrom a b) (h2 : GenomesFrom b c) : GenomesFrom a c := by
  intro s'' hs'' o'' ho''
  obtain ⟨s', hs', o', ho', e'⟩ := h2 s'' hs'' o'' ho''
  obtain ⟨s, hs, o, ho, e⟩ := h1 s' hs' o' ho'
  exact ⟨s, hs, o, ho, e.trans e'⟩

/-- species-wise: each species of `ss'` takes its organisms from one species of `ss` -/
theorem GenomesFrom.of_species {ss ss' : List (Species W)}
    (h : ∀ s' ∈ ss', ∃ s ∈ ss, ∀ o' ∈ s'.orgs, ∃ o ∈ s.orgs, o'.genome = o.genome) : GenomesFrom ss ss' := by
  intro s' hs' o' ho'
  obtain ⟨s, hs, hall⟩ := h s' hs'
  obtain ⟨o, ho, e⟩ := hall o' ho'
  exact ⟨s, hs, o, ho, by rw [e]; exact .refl _⟩

def AllOrgs (φ : Bind → Prop) (ψ : Role → Prop) (ss : List (Species W)) : Prop := ∀ s ∈ ss, ∀ o ∈ s.orgs, AllB φ ψ o.genome

theorem AllOrgs.from {φ : Bind → Prop} {ψ : Role → Prop} {ss ss' : List (Species W)} (h : AllOrgs φ ψ ss) (hf : GenomesFrom ss ss') :
    AllOrgs φ ψ ss' := by
  intro s' hs' o' ho'
  obtain ⟨s, hs, o, ho, e⟩ := hf s' hs' o' ho'
  exact (h s hs o ho).same e

/-- every organism of the population lies in the history -/
def Covered (H : List (Genome W)) (ss : List (Species W)) : Prop := AllOrgs (· ∈ binds H) (· ∈ roles H) ss

theorem Covered.mono {H H' : List (Genome W)} {ss : List (Species W)} (h : Covered H ss) (he : Ext H H') : Covered H' ss :=
  fun s hs o ho => GenomeIn.mono (h s hs o ho) he

/-! #### sorting -/

theorem go_mem {α} (less : α → α → Bool) (x : α) (revLeft acc : List α) :
    ∀ y ∈ goInsertionSort.go less x revLeft acc, y = x ∨ y ∈ revLeft ∨ y ∈ acc := by
  induction revLeft generalizing acc with
  | nil => intro y hy; simp only [goInsertionSort.go, List.mem_cons] at hy; rcases hy with h | h; exact .inl h; exact .inr (.inr h)
  | cons z zs ih =>
    intro y hy
    unfold goInsertionSort.go at hy
    split at hy
    · rcases ih _ y hy with h | h | h
      · exact .inl h
      · exact .inr (.inl (List.mem_cons_of_mem _ h))
      · rcases List.mem_cons.mp h with rfl | h
        · exact .inr (.inl List.mem_cons_self)
        · exact .inr (.inr h)
    · simp only [List.mem_append, List.mem_reverse, List.mem_cons] at hy
      rcases hy with h | h | h
      · exact .inr (.inl (List.mem_cons.mpr h))
      · exact .inl h
      · exact .inr (.inr h)

theorem sort_mem {α : Type} (less : α → α → Bool) (l : List α) : ∀ y ∈ goSort less l, y ∈ l :=
  fun y hy => (GoNeat.goSort_mem less l y).mp hy

theorem mem_modify {α} (f : α → α) (l : List α) (i : Nat) : ∀ x ∈ l.modify i f, x ∈ l ∨ ∃ y ∈ l, x = f y := by
  induction l generalizing i with
  | nil => intro x hx; simp at hx
  | cons a t ih =>
    intro x hx
    cases i with
    | zero =>
      simp only [List.modify_zero_cons, List.mem_cons] at hx
      rcases hx with rfl | hx
      · exact .inr ⟨a, List.mem_cons_self, rfl⟩
      · exact .inl (List.mem_cons_of_mem _ hx)
    | succ i =>
      simp only [List.modify_succ_cons, List.mem_cons] at hx
      rcases hx with rfl | hx
      · exact .inl List.mem_cons_self
      · rcases ih i x hx with h | ⟨y, hy, e⟩
        · exact .inl (List.mem_cons_of_mem _ h)
        · exact .inr ⟨y, List.mem_cons_of_mem _ hy, e⟩

/-! #### speciation -/

theorem speciateOne_all {φ : Bind → Prop} {ψ : Role → Prop} (o : EpochOpts W) (p p' : Pop W) (org : Org W)
    (h : speciateOne o p org = .ok p') (hc : AllOrgs φ ψ p.species) (ho : AllB φ ψ org.genome) :
    AllOrgs φ ψ p'.species ∧ p'.reg = p.reg := by
  have hnew : ∀ sp : Species W, sp.orgs = [org] → AllOrgs φ ψ (p.species ++ [sp]) := by
    intro sp hsp s hs x hx
    rcases List.mem_append.mp hs with hs | hs
    · exact hc s hs x hx
    · simp only [List.mem_singleton] at hs; subst hs
      rw [hsp] at hx
      simp only [List.mem_singleton] at hx; subst hx; exact ho
  unfold speciateOne at h
  simp only at h
  split at h
  · cases h; exact ⟨hnew _ rfl, rfl⟩
  · split at h
    · cases h
    · split at h
      · cases h
        refine ⟨?_, rfl⟩
        intro s hs x hx
        rcases mem_modify _ _ _ s hs with hs | ⟨y, hy, rfl⟩
        · exact hc s hs x hx
        · rcases List.mem_append.mp hx with hx | hx
          · exact hc y hy x hx
          · simp only [List.mem_singleton] at hx; subst hx; exact ho
      · cases h; exact ⟨hnew _ rfl, rfl⟩

theorem speciateLoop_all {φ : Bind → Prop} {ψ : Role → Prop} (o : EpochOpts W) (p p' : Pop W) (orgs : List (Org W))
    (h : speciateLoop o p orgs = .ok p') (hc : AllOrgs φ ψ p.species) (ho : ∀ x ∈ orgs, AllB φ ψ x.genome) :
    AllOrgs φ ψ p'.species ∧ p'.reg = p.reg := by
  induction orgs generalizing p with
  | nil => simp only [speciateLoop, Except.ok.injEq] at h; subst h; exact ⟨hc, rfl⟩
  | cons x xs ih =>
    unfold speciateLoop at h
    split at h
    · cases h
    · rename_i p1 h1
      obtain ⟨c1, r1⟩ := speciateOne_all o p p1 x h1 hc (ho x List.mem_cons_self)
      obtain ⟨c2, r2⟩ := ih p1 h c1 (tail_of ho)
      exact ⟨c2, r2.trans r1⟩

theorem speciate_all {φ : Bind → Prop} {ψ : Role → Prop} (o : EpochOpts W) (p p' : Pop W) (orgs : List (Org W))
    (h : speciate o p orgs = .ok p') (hc : AllOrgs φ ψ p.species) (ho : ∀ x ∈ orgs, AllB φ ψ x.genome) :
    AllOrgs φ ψ p'.species ∧ p'.reg = p.reg := by
  unfold speciate at h
  split at h
  · cases h
  · exact speciateLoop_all o p p' orgs h hc ho

/-! #### the end of the epoch -/

theorem renumber_from (l : List (Org W)) (k : Int) : ∀ o' ∈ renumber l k, ∃ o ∈ l, SameBinds o.genome o'.genome := by
  induction l generalizing k with
  | nil => intro o' h; simp [renumber] at h
  | cons x xs ih =>
    intro o' h
    simp only [renumber, List.mem_cons] at h
    rcases h with rfl | h
    · exact ⟨x, List.mem_cons_self, ⟨rfl, rfl⟩⟩
    · obtain ⟨o, ho, e⟩ := ih _ o' h
      exact ⟨o, List.mem_cons_of_mem _ ho, e⟩

theorem purgeOrAgeLoop_from (ss : List (Species W)) (k : Int) : GenomesFrom ss (purgeOrAgeLoop ss k) := by
  induction ss generalizing k with
  | nil => intro s' h; simp [purgeOrAgeLoop] at h
  | cons s ss ih =>
    intro s' hs' o' ho'
    unfold purgeOrAgeLoop at hs'
    split at hs'
    · obtain ⟨s0, hs0, r⟩ := ih _ s' hs' o' ho'
      exact ⟨s0, List.mem_cons_of_mem _ hs0, r⟩
    · rcases List.mem_cons.mp hs' with rfl | hs'
      · obtain ⟨o, ho, e⟩ := renumber_from _ _ o' ho'
        exact ⟨s, List.mem_cons_self, o, ho, e⟩
      · obtain ⟨s0, hs0, r⟩ := ih _ s' hs' o' ho'
        exact ⟨s0, List.mem_cons_of_mem _ hs0, r⟩

theorem map_filter_from (ss : List (Species W)) (keep : Species W → Org W → Bool) :
    GenomesFrom ss (ss.map (fun s => { s with orgs := s.orgs.filter (keep s) })) := by
  intro s' hs' o' ho'
  obtain ⟨s, hs, rfl⟩ := List.mem_map.mp hs'
  exact ⟨s, hs, o', (List.mem_filter.mp ho').1, .refl _⟩

theorem finalize_from (p : Pop W) :
    GenomesFrom p.species (finalizeReproduction p).species ∧ (finalizeReproduction p).reg = { p.reg with records := [] } := by
  unfold finalizeReproduction purgeOrAgeSpecies purgeOldGeneration
  exact ⟨(map_filter_from p.species (fun _ o => !p.organisms.contains o.uid)).trans (purgeOrAgeLoop_from _ 0), rfl⟩

/-- forgetting the records keeps the invariant (the counters stay) -/
theorem Inv.clear {reg : Reg W} {H : List (Genome W)} (h : Inv reg H) : Inv ({ reg with records := [] } : Reg W) H :=
  { genes := h.genes, roles := h.roles,
    compat := { recs := fun i hi => by simp at hi, innsNodup := by simp [regInns_def], nodesNodup := by simp [regNodes_def] },
    above := { inns := h.above.inns, ids := h.above.ids, recInns := fun k hk => by simp [regInns_def] at hk,
               recNodes := fun k hk => by simp [regNodes_def] at hk } }

/-! ### the reproduction phase and the end of the epoch -/

/-- every organism carries only bindings of the history `H0` or numbers above `(bi, bn)` -/
def AllFresh (bi bn : Int) (H0 : List (Genome W)) (ss : List (Species W)) : Prop :=
  AllOrgs (fun b => b ∈ binds H0 ∨ bi < b.1) (fun r => r ∈ roles H0 ∨ bn < r.1) ss

theorem Covered.allFresh {H0 : List (Genome W)} {ss : List (Species W)} (h : Covered H0 ss) (bi bn : Int) : AllFresh bi bn H0 ss :=
  fun s hs o ho => GenomeIn.fresh (h s hs o ho) bi bn

theorem reproducePhase_rinv (o : EpochOpts W) (gen : Int) (p p' : Pop W) (ex : ExecState) (rs rs' : List Nat)
    {H0 : List (Genome W)} (hinv : Inv p.reg H0) (hcov : Covered H0 p.species) (hnorec : p.reg.records = [])
    (h : reproducePhase o gen p ex rs = .ok (p', rs')) :
    ∃ H', Ext H0 H' ∧ Inv p'.reg H' ∧ Covered H' p'.species ∧ GenInv p.reg.nextInn p.reg.nextNode p'.reg ∧
      AllFresh p.reg.nextInn p.reg.nextNode H0 p'.species ∧ CtrLe p.reg p'.reg := by
  unfold reproducePhase at h
  simp only at h
  split at h
  · cases h
  · rename_i babies reg uid rs1 hall
    split at h
    · cases h
    · split at h
      · cases h
      · rename_i p2 hsp
        simp only [Except.ok.injEq, Prod.mk.injEq] at h
        obtain ⟨rfl, _⟩ := h
        have hsorted : ∀ sp ∈ ex.sortedIds.filterMap (fun i => p.species.find? (·.id == i)), ∀ org ∈ sp.orgs, GenomeIn H0 org.genome := by
          intro sp hsp' org horg
          obtain ⟨i, _, hi⟩ := List.mem_filterMap.mp hsp'
          exact hcov sp (List.mem_of_find?_eq_some hi) org horg
        have hr0 : RInv p.reg.nextInn p.reg.nextNode H0 H0 p.reg ([] : List (Org W)) :=
          ⟨.refl _, hinv, .start _ hnorec, by simp, by simp⟩
        obtain ⟨H1, hr1, he1, hc1⟩ := reproduceAll_rinv o gen _ p.species p.reg reg p.nextUid uid [] babies rs rs1 hcov hsorted hr0 hall
        obtain ⟨c1, r1⟩ := speciate_all (φ := (· ∈ binds H1)) (ψ := (· ∈ roles H1)) o _ p2 babies hsp (hcov.mono he1) hr1.babiesIn
        obtain ⟨c2, _⟩ := speciate_all o _ p2 babies hsp (hcov.allFresh p.reg.nextInn p.reg.nextNode) hr1.babiesFresh
        simp only at r1
        exact ⟨H1, he1, r1 ▸ hr1.inv, c1, r1 ▸ hr1.gen, c2, r1 ▸ hc1⟩

/-- the C03 state of a population between generations: invariant for its registry and the history, every organism in
    the history, no records -/
structure PopC03 (H : List (Genome W)) (p : Pop W) : Prop where
  inv : Inv p.reg H
  cov : Covered H p.species
  norec : p.reg.records = []

theorem reproduce_finalize_c03 (o : EpochOpts W) (gen : Int) (p p2 : Pop W) (ex : ExecState) (rs rs' : List Nat)
    {H0 : List (Genome W)} (hp : PopC03 H0 p) (h : reproducePhase o gen p ex rs = .ok (p2, rs')) :
    ∃ H', Ext H0 H' ∧ PopC03 H' (finalizeReproduction p2) ∧
      AllFresh p.reg.nextInn p.reg.nextNode H0 (finalizeReproduction p2).species ∧
      CtrLe p.reg (finalizeReproduction p2).reg := by
  obtain ⟨H1, he, hinv, hcov, _, hfr, hc⟩ := reproducePhase_rinv o gen p p2 ex rs rs' hp.inv hp.cov hp.norec h
  obtain ⟨hfrom, hreg⟩ := finalize_from p2
  refine ⟨H1, he, ⟨?_, AllOrgs.from hcov hfrom, by rw [hreg]⟩, AllOrgs.from hfr hfrom, ?_⟩
  · rw [hreg]; exact hinv.clear
  · rw [hreg]; exact hc

/-! ### the preparation phase moves organisms around and edits their bookkeeping fields only -/

/-- every organism of `s'` has the genome of an organism of `s` -/
def OF (s s' : Species W) : Prop := ∀ o' ∈ s'.orgs, ∃ o ∈ s.orgs, o'.genome = o.genome
/-- every species of `ss'` takes its organisms from one species of `ss` -/
def SF (ss ss' : List (Species W)) : Prop := ∀ s' ∈ ss', ∃ s ∈ ss, OF s s'

theorem OF.refl (s : Species W) : OF s s := fun o ho => ⟨o, ho, rfl⟩
theorem OF.of_orgs_eq {s s' : Species W} (h : s'.orgs = s.orgs) : OF s s' := fun o ho => ⟨o, h ▸ ho, rfl⟩
theorem OF.trans {a b c : Species W} (h1 : OF a b) (h2 : OF b c) : OF a c := by
  intro o'' ho''
  obtain ⟨o', ho', e'⟩ := h2 o'' ho''
  obtain ⟨o, ho, e⟩ := h1 o' ho'
  exact ⟨o, ho, e'.trans e⟩
theorem SF.refl (ss : List (Species W)) : SF ss ss := fun s hs => ⟨s, hs, .refl s⟩
theorem SF.trans {a b c : List (Species W)} (h1 : SF a b) (h2 : SF b c) : SF a c := by
  intro s'' hs''
  obtain ⟨s', hs', e'⟩ := h2 s'' hs''
  obtain ⟨s, hs, e⟩ := h1 s' hs'
  exact ⟨s, hs, e.trans e'⟩
theorem SF.of_subset {ss ss' : List (Species W)} (h : ∀ s ∈ ss', s ∈ ss) : SF ss ss' := fun s hs => ⟨s, h s hs, .refl s⟩
theorem SF.map {ss : List (Species W)} (f : Species W → Species W) (h : ∀ s, OF s (f s)) : SF ss (ss.map f) := by
  intro s' hs'
  obtain ⟨s, hs, rfl⟩ := List.mem_map.mp hs'
  exact ⟨s, hs, h s⟩
theorem SF.modify {ss : List (Species W)} (f : Species W → Species W) (i : Nat) (h : ∀ s, OF s (f s)) : SF ss (ss.modify i f) := by
  intro s' hs'
  rcases mem_modify f ss i s' hs' with h1 | ⟨y, hy, rfl⟩
  · exact ⟨s', h1, .refl _⟩
  · exact ⟨y, hy, h y⟩
theorem SF.cons {a b : Species W} {ss ss' : List (Species W)} (h1 : OF a b) (h2 : SF ss ss') : SF (a :: ss) (b :: ss') := by
  intro s' hs'
  rcases List.mem_cons.mp hs' with rfl | hs'
  · exact ⟨a, List.mem_cons_self, h1⟩
  · obtain ⟨s, hs, e⟩ := h2 s' hs'
    exact ⟨s, List.mem_cons_of_mem _ hs, e⟩
theorem SF.genomesFrom {ss ss' : List (Species W)} (h : SF ss ss') : GenomesFrom ss ss' :=
  GenomesFrom.of_species (fun s' hs' => by obtain ⟨s, hs, e⟩ := h s' hs'; exact ⟨s, hs, e⟩)

theorem setTopOrg_of (s : Species W) (f : Org W → Org W) (hf : ∀ t, (f t).genome = t.genome) : OF s (setTopOrg s f) := by
  unfold setTopOrg
  split
  · exact .refl _
  · rename_i o os he
    intro o' ho'
    simp only [List.mem_cons] at ho'
    rcases ho' with rfl | ho'
    · exact ⟨o, by rw [he]; exact List.mem_cons_self, hf o⟩
    · exact ⟨o', by rw [he]; exact List.mem_cons_of_mem _ ho', rfl⟩

theorem setTopOrg_of' (s s' : Species W) (f : Org W → Org W) (h : s'.orgs = (setTopOrg s f).orgs)
    (hf : ∀ t, (f t).genome = t.genome) : OF s s' := (setTopOrg_of s f hf).trans (.of_orgs_eq h)

theorem markOrgs_from (n : Int) (l : List (Org W)) (i : Nat) : ∀ o' ∈ markOrgs n l i, ∃ o ∈ l, o'.genome = o.genome := by
  induction l generalizing i with
  | nil => intro o' h; simp [markOrgs] at h
  | cons x xs ih =>
    intro o' h
    simp only [markOrgs, List.mem_cons] at h
    rcases h with rfl | h
    · exact ⟨x, List.mem_cons_self, rfl⟩
    · obtain ⟨o, ho, e⟩ := ih _ o' h
      exact ⟨o, List.mem_cons_of_mem _ ho, e⟩

theorem adjustFitness_of (o : EpochOpts W) (s s' : Species W) (h : adjustFitness o s = .ok s') : OF s s' := by
  unfold adjustFitness at h
  simp only at h
  split at h
  · cases h
  · rename_i top rest hsort
    simp only [Except.ok.injEq] at h
    subst h
    intro o' ho'
    simp only at ho'
    obtain ⟨o1, ho1, e1⟩ := markOrgs_from _ _ _ o' ho'
    have ho2 := sort_mem _ _ o1 ho1
    obtain ⟨o2, ho2', rfl⟩ := List.mem_map.mp ho2
    exact ⟨o2, ho2', e1⟩

theorem adjustAll_sf (o : EpochOpts W) (ss ss' : List (Species W)) (h : adjustAll o ss = .ok ss') : SF ss ss' := by
  induction ss generalizing ss' with
  | nil => simp only [adjustAll, Except.ok.injEq] at h; subst h; exact .refl _
  | cons s ss ih =>
    unfold adjustAll at h
    split at h
    · cases h
    · rename_i s1 h1
      split at h
      · cases h
      · rename_i ss1 h2
        simp only [Except.ok.injEq] at h
        subst h
        exact .cons (adjustFitness_of o s s1 h1) (ih ss1 h2)

theorem assignQuotas_sf (ss : List (Species W)) (skim : W) (tot : Int) : SF ss (assignQuotas ss skim tot).1 := by
  induction ss generalizing skim tot with
  | nil => simp only [assignQuotas]; exact .refl _
  | cons s ss ih =>
    simp only [assignQuotas]
    exact .cons (.of_orgs_eq rfl) (ih _ _)

theorem fixupQuotas_sf (ss : List (Species W)) (a b : Int) : SF ss (fixupQuotas ss a b) := by
  unfold fixupQuotas
  split
  · split
    · exact .refl _
    · split
      · exact (SF.map (fun s : Species W => { s with expectedOffspring := 0 }) (fun s => .of_orgs_eq rfl)).trans
          (SF.modify (fun s : Species W => { s with expectedOffspring := b }) _ (fun s => .of_orgs_eq rfl))
      · exact SF.modify (fun s : Species W => { s with expectedOffspring := s.expectedOffspring + 1 }) _ (fun s => .of_orgs_eq rfl)
  · exact .refl _

theorem purgeZero_sf (p : Pop W) : SF p.species (purgeZeroOffspringSpecies p).species ∧ (purgeZeroOffspringSpecies p).reg = p.reg := by
  unfold purgeZeroOffspringSpecies
  simp only
  refine ⟨?_, trivial⟩
  refine SF.trans (SF.map _ (fun s => ?_)) (SF.trans (assignQuotas_sf _ _ _) (SF.trans (fixupQuotas_sf _ _ _)
    (SF.of_subset (fun s hs => (List.mem_filter.mp hs).1))))
  intro o' ho'
  obtain ⟨o, ho, rfl⟩ := List.mem_map.mp ho'
  refine ⟨o, ho, ?_⟩
  split <;> rfl

theorem deltaCoding_sf (sorted sorted' : List (Species W)) (o : EpochOpts W) (h : deltaCoding sorted o = .ok sorted') :
    SF sorted sorted' := by
  unfold deltaCoding at h
  simp only at h
  split at h
  · cases h
  · split at h
    · cases h
    · simp only [Except.ok.injEq] at h
      subst h
      exact .cons (setTopOrg_of' _ _ _ rfl (fun _ => rfl)) (.refl _)
  · split at h
    · cases h
    · simp only [Except.ok.injEq] at h
      subst h
      exact .cons (setTopOrg_of' _ _ _ rfl (fun _ => rfl))
        (.cons (setTopOrg_of' _ _ _ rfl (fun _ => rfl)) (SF.map _ (fun s => .of_orgs_eq rfl)))

theorem stealLoop_sf (n : Int) (ss : List (Species W)) (st : Int) : SF ss (stealLoop n ss st).1 := by
  induction ss generalizing st with
  | nil => simp only [stealLoop]; exact .refl _
  | cons s ss ih =>
    unfold stealLoop
    split
    · split
      · split
        · exact .cons (.of_orgs_eq rfl) (ih _)
        · exact .cons (.of_orgs_eq rfl) (ih _)
      · exact .cons (.refl _) (ih _)
    · exact .refl _

theorem giveLoop_sf (o : EpochOpts W) (blocks : List Int) (ss ss' : List (Species W)) (bi : Nat) (st st' : Int) (rs rs' : List Nat)
    (h : giveLoop o blocks ss bi st rs = .ok ((ss', st'), rs')) : SF ss ss' := by
  induction ss generalizing ss' bi st rs st' rs' with
  | nil =>
    simp only [giveLoop, Except.ok.injEq, Prod.mk.injEq] at h
    obtain ⟨⟨rfl, _⟩, _⟩ := h
    exact .refl _
  | cons s ss ih =>
    unfold giveLoop at h
    split at h
    · split at h
      · cases h
      · rename_i rest st1 rs1 hrec
        simp only [Except.ok.injEq, Prod.mk.injEq] at h
        obtain ⟨⟨rfl, _⟩, _⟩ := h
        exact .cons (.refl _) (ih _ _ _ _ _ _ hrec)
    · simp only at h
      split at h
      · cases h
      · rename_i s1 st1 rs1 hstep
        have hs1 : OF s s1 := by
          split at hstep
          · simp only [Except.ok.injEq, Prod.mk.injEq] at hstep
            obtain ⟨⟨rfl, _⟩, _⟩ := hstep
            exact setTopOrg_of' _ _ _ rfl (fun _ => rfl)
          · split at hstep
            · split at hstep
              · cases hstep
              · split at hstep
                · split at hstep
                  · simp only [Except.ok.injEq, Prod.mk.injEq] at hstep
                    obtain ⟨⟨rfl, _⟩, _⟩ := hstep
                    exact setTopOrg_of' _ _ _ rfl (fun _ => rfl)
                  · simp only [Except.ok.injEq, Prod.mk.injEq] at hstep
                    obtain ⟨⟨rfl, _⟩, _⟩ := hstep
                    exact setTopOrg_of' _ _ _ rfl (fun _ => rfl)
                · simp only [Except.ok.injEq, Prod.mk.injEq] at hstep
                  obtain ⟨⟨rfl, _⟩, _⟩ := hstep
                  exact .refl _
            · simp only [Except.ok.injEq, Prod.mk.injEq] at hstep
              obtain ⟨⟨rfl, _⟩, _⟩ := hstep
              exact .refl _
        split at h
        · simp only [Except.ok.injEq, Prod.mk.injEq] at h
          obtain ⟨⟨rfl, _⟩, _⟩ := h
          exact .cons hs1 (.refl _)
        · split at h
          · cases h
          · rename_i rest st2 rs2 hrec
            simp only [Except.ok.injEq, Prod.mk.injEq] at h
            obtain ⟨⟨rfl, _⟩, _⟩ := h
            exact .cons hs1 (ih _ _ _ _ _ _ hrec)

theorem giveBabies_sf (sorted sorted' : List (Species W)) (o : EpochOpts W) (rs rs' : List Nat)
    (h : giveBabiesToTheBest sorted o rs = .ok (sorted', rs')) : SF sorted sorted' := by
  unfold giveBabiesToTheBest at h
  simp only at h
  have h0 : SF sorted (stealLoop o.babiesStolen sorted.reverse 0).1.reverse :=
    SF.trans (SF.of_subset (fun s hs => List.mem_reverse.mp hs)) (SF.trans (stealLoop_sf _ _ _) (SF.of_subset (fun s hs => List.mem_reverse.mp hs)))
  split at h
  · cases h
  · rename_i l left rs1 hg
    have h1 := giveLoop_sf _ _ _ _ _ _ _ _ _ hg
    split at h
    · split at h
      · cases h
      · split at h
        · cases h
        · simp only [Except.ok.injEq, Prod.mk.injEq] at h
          obtain ⟨rfl, _⟩ := h
          exact h0.trans (h1.trans (.cons (setTopOrg_of' _ _ _ rfl (fun _ => rfl)) (.refl _)))
    · simp only [Except.ok.injEq, Prod.mk.injEq] at h
      obtain ⟨rfl, _⟩ := h
      exact h0.trans h1

theorem writeBack_sf {base species updated : List (Species W)} (h1 : SF base species) (h2 : SF base updated) :
    SF base (writeBack species updated) := by
  intro s' hs'
  unfold writeBack at hs'
  obtain ⟨s, hs, rfl⟩ := List.mem_map.mp hs'
  cases hf : updated.find? (·.id == s.id) with
  | none => simp only [Option.getD_none]; exact h1 s hs
  | some u => simp only [Option.getD_some]; exact h2 u (List.mem_of_find?_eq_some hf)

theorem purgeOrganisms_sf (p : Pop W) : SF p.species (purgeOrganisms p).species ∧ (purgeOrganisms p).reg = p.reg := by
  unfold purgeOrganisms
  refine ⟨SF.map _ (fun s => ?_), rfl⟩
  intro o' ho'
  exact ⟨o', (List.mem_filter.mp ho').1, rfl⟩

theorem redistributed_sf (c1 c2 : Prop) [Decidable c1] [Decidable c2] (sorted1 : List (Species W)) (o : EpochOpts W) (e0 : Int)
    (rs : List Nat) (sorted2 : List (Species W)) (ehlc : Int) (rs' : List Nat)
    (h : (if c1 then
            match deltaCoding sorted1 o with
            | .error e => .error e
            | .ok l => .ok ((l, 0), rs)
          else if c2 then
            match giveBabiesToTheBest sorted1 o rs with
            | .error e => .error e
            | .ok (l, rs') => .ok ((l, e0), rs')
          else .ok ((sorted1, e0), rs) : R (List (Species W) × Int)) = .ok ((sorted2, ehlc), rs')) : SF sorted1 sorted2 := by
  split at h
  · split at h
    · cases h
    · rename_i l hd
      simp only [Except.ok.injEq, Prod.mk.injEq] at h
      obtain ⟨⟨rfl, _⟩, _⟩ := h
      exact deltaCoding_sf _ _ _ hd
  · split at h
    · split at h
      · cases h
      · rename_i l rs2 hgb
        simp only [Except.ok.injEq, Prod.mk.injEq] at h
        obtain ⟨⟨rfl, _⟩, _⟩ := h
        exact giveBabies_sf _ _ _ _ _ hgb
    · simp only [Except.ok.injEq, Prod.mk.injEq] at h
      obtain ⟨⟨rfl, _⟩, _⟩ := h
      exact .refl _

theorem prepare_from (o : EpochOpts W) (p p1 : Pop W) (ex : ExecState) (rs rs1 : List Nat)
    (h : prepareForReproduction o p rs = .ok ((p1, ex), rs1)) : GenomesFrom p.species p1.species ∧ p1.reg = p.reg := by
  unfold prepareForReproduction at h
  split at h
  · cases h
  · rename_i species1 hadj
    have hA : SF p.species species1 := adjustAll_sf o _ _ hadj
    simp only at h
    obtain ⟨hZ, hZr⟩ := purgeZero_sf ({ p with species := species1 } : Pop W)
    split at h
    · cases h
    · rename_i best rest hsorted
      split at h
      · cases h
      · rename_i top htop
        split at h
        · cases h
        · rename_i sorted2 ehlc rs' hred
          simp only [Except.ok.injEq, Prod.mk.injEq] at h
          obtain ⟨⟨rfl, _⟩, _⟩ := h
          have hS : SF (purgeZeroOffspringSpecies ({ p with species := species1 } : Pop W)).species (best :: rest) := by
            rw [← hsorted]; exact SF.of_subset (sort_mem _ _)
          have hS2 := redistributed_sf _ _ _ _ _ _ _ _ _ hred
          rw [hsorted] at hS2
          simp only [List.tail_cons] at hS2
          have hS1 : SF (best :: rest) ((setTopOrg best (fun t => { t with isPopChampion := true })) :: rest) :=
            .cons (setTopOrg_of _ _ (fun _ => rfl)) (.refl _)
          have hbase1 : SF p.species (purgeZeroOffspringSpecies ({ p with species := species1 } : Pop W)).species := hA.trans hZ
          have hbase2 : SF p.species sorted2 := hbase1.trans (hS.trans (hS1.trans hS2))
          obtain ⟨hP, hPr⟩ := purgeOrganisms_sf ({ (purgeZeroOffspringSpecies ({ p with species := species1 } : Pop W)) with
              highestFitness := _, epochsHighestLastChanged := ehlc,
              species := writeBack (purgeZeroOffspringSpecies ({ p with species := species1 } : Pop W)).species sorted2 } : Pop W)
          refine ⟨((writeBack_sf hbase1 hbase2).trans hP).genomesFrom, ?_⟩
          rw [hPr]; exact hZr

/-! ### counters past the start genome(s) -/

/-- the counters of a population constructed around a set of genomes are past all of them -/
theorem inv_of_counters (gs : List (Genome W)) (nextInn nextNode : Int) (hc : ConsistentGenes gs) (hr : ConsistentRoles gs)
    (hi : ∀ g ∈ gs, ∀ x ∈ g.genes, x.inn ≤ nextInn) (hn : ∀ g ∈ gs, ∀ n ∈ g.nodes, n.id ≤ nextNode) :
    Inv ({ records := [], nextInn := nextInn, nextNode := nextNode } : Reg W) gs :=
  { genes := hc, roles := hr,
    compat := { recs := fun i hi => by simp at hi, innsNodup := by simp, nodesNodup := by simp },
    above := { inns := fun b hb => by
                 obtain ⟨g, hg, hb⟩ := List.mem_flatMap.mp hb
                 obtain ⟨x, hx, rfl⟩ := List.mem_map.mp hb
                 exact hi g hg x hx,
               ids := fun r hr' => by
                 obtain ⟨g, hg, hr'⟩ := List.mem_flatMap.mp hr'
                 obtain ⟨x, hx, rfl⟩ := List.mem_map.mp hr'
                 exact hn g hg x hx,
               recInns := fun k hk => by simp at hk, recNodes := fun k hk => by simp at hk } }

theorem spawnLoop_same (g : Genome W) (n : Nat) (count : Int) (uid : Nat) (rs rs' : List Nat) (orgs : List (Org W))
    (h : spawnLoop g n count uid rs = .ok (orgs, rs')) : ∀ org ∈ orgs, SameBinds g org.genome := by
  induction n generalizing count uid rs rs' orgs with
  | zero => simp only [spawnLoop, Except.ok.injEq, Prod.mk.injEq] at h; obtain ⟨rfl, _⟩ := h; intro _ h; cases h
  | succ n ih =>
    unfold spawnLoop at h
    split at h
    · cases h
    · rename_i d hd
      split at h
      · cases h
      · rename_i d' rs1 hw
        split at h
        · cases h
        · rename_i rest rs2 hrest
          simp only [Except.ok.injEq, Prod.mk.injEq] at h
          obtain ⟨rfl, _⟩ := h
          intro org horg
          rcases List.mem_cons.mp horg with rfl | horg
          · obtain ⟨a, b⟩ := duplicate_binds _ _ _ hd
            exact SameBinds.trans ⟨a, b⟩ ((parametric_sameBinds d d' ⟨zero, 0, [], [], zero, zero, zero, zero, zero, zero, zero, zero, zero⟩ one one .gaussian 0 rs rs1).1 hw)
          · exact ih _ _ _ _ _ hrest org horg

theorem spawn_popC03 (o : EpochOpts W) (g : Genome W) (rs rs' : List Nat) (p : Pop W) (h : spawn o g rs = .ok (p, rs'))
    (hc : ConsistentGenes [g]) (hr : ConsistentRoles [g]) : PopC03 [g] p := by
  unfold spawn at h
  split at h
  · cases h
  · split at h
    · cases h
    · rename_i orgs rs1 hloop
      split at h
      · cases h
      · rename_i ln hln
        split at h
        · cases h
        · rename_i ni hni
          simp only at h
          split at h
          · cases h
          · rename_i p' hsp
            simp only [Except.ok.injEq, Prod.mk.injEq] at h
            obtain ⟨rfl, _⟩ := h
            have hsame := spawnLoop_same g _ _ _ _ _ _ hloop
            have hin : ∀ x ∈ orgs, AllB (· ∈ binds [g]) (· ∈ roles [g]) x.genome := fun x hx =>
              AllB.same (GenomeIn.of_mem (H := [g]) List.mem_cons_self) (hsame x hx)
            obtain ⟨c1, r1⟩ := speciate_all o _ p' orgs hsp (fun s hs => by cases hs) hin
            simp only at r1
            have hinv : Inv ({ records := [], nextInn := ni - 1, nextNode := ln + 1 } : Reg W) [g] :=
              inv_of_counters [g] _ _ hc hr
                (fun g' hg' x hx => by simp only [List.mem_singleton] at hg'; subst hg'; exact Genome.nextGeneInnov_gt _ _ hni x hx)
                (fun g' hg' n hn => by
                  simp only [List.mem_singleton] at hg'; subst hg'
                  have := Genome.lastNodeId_ge _ _ hln n hn; omega)
            exact ⟨r1 ▸ hinv, c1, by rw [r1]⟩

/-! #### `ReadPopulation` and `NewPopulationRandom` -/

theorem readStep_ge (c : Int × Int) (ln ni : Int) :
    c.1 ≤ (readStep c ln ni).1 ∧ c.2 ≤ (readStep c ln ni).2 ∧ ln ≤ (readStep c ln ni).1 ∧ ni ≤ (readStep c ln ni).2 := by
  unfold readStep
  refine ⟨?_, ?_, ?_, ?_⟩ <;> (simp only; split <;> omega)

theorem readCounters_ge (gs : List (Genome W)) (c : Int × Int) : c.1 ≤ (readCounters gs c).1 ∧ c.2 ≤ (readCounters gs c).2 := by
  induction gs generalizing c with
  | nil => exact ⟨Int.le_refl _, Int.le_refl _⟩
  | cons g gs ih =>
    unfold readCounters
    split
    · rename_i ln ni _ _
      obtain ⟨a, b, _, _⟩ := readStep_ge c ln ni
      obtain ⟨a', b'⟩ := ih (readStep c ln ni)
      exact ⟨Int.le_trans a a', Int.le_trans b b'⟩
    · exact ih c

/-- the counters `ReadPopulation` ends with are past every genome read (each with at least one node and gene; since
    fix 48b1f99 the accessors take the maximum, so no ordering is needed) -/
theorem readCounters_above (gs : List (Genome W)) (c : Int × Int)
    (hok : ∀ g ∈ gs, g.nodes ≠ [] ∧ g.genes ≠ []) :
    ∀ g ∈ gs, (∀ n ∈ g.nodes, n.id ≤ (readCounters gs c).1) ∧ (∀ x ∈ g.genes, x.inn ≤ (readCounters gs c).2) := by
  induction gs generalizing c with
  | nil => intro g hg; cases hg
  | cons g0 gs ih =>
    intro g hg
    obtain ⟨hn0, hg0⟩ := hok g0 List.mem_cons_self
    unfold readCounters
    split
    · rename_i ln ni hln hni
      obtain ⟨_, _, s3, s4⟩ := readStep_ge c ln ni
      obtain ⟨m1, m2⟩ := readCounters_ge gs (readStep c ln ni)
      rcases List.mem_cons.mp hg with rfl | hg
      · refine ⟨fun n hn => ?_, fun x hx => ?_⟩
        · have := Genome.lastNodeId_ge _ _ hln n hn; omega
        · have := Genome.nextGeneInnov_gt _ _ hni x hx; omega
      · exact ih _ (tail_of hok) g hg
    · rename_i hbad
      exfalso
      have h1 := g0.lastNodeId_ok hn0
      have h2 := g0.nextGeneInnov_ok hg0
      obtain ⟨ln, e1⟩ := h1
      obtain ⟨ni, e2⟩ := h2
      exact hbad ln ni e1 e2

/-- the counters of `NewPopulationRandom` are past every genome `newGenomeRand` can build -/
theorem randomCounters_above (nIn nOut mH : Int) (g : Genome W) (h : RandShape nIn nOut mH g) :
    (∀ n ∈ g.nodes, n.id ≤ (randomCounters nIn nOut mH).1) ∧ (∀ x ∈ g.genes, x.inn ≤ (randomCounters nIn nOut mH).2) := by
  unfold randomCounters
  exact ⟨fun n hn => by have := h.2 n hn; simp only; omega, fun x hx => by have := h.1 x hx; simp only; omega⟩

/-! ### whole epochs -/

theorem nextEpoch_c03 (o : EpochOpts W) (gen : Int) (p p' : Pop W) (rs rs' : List Nat) {H : List (Genome W)}
    (hp : PopC03 H p) (h : nextEpoch o gen p rs = .ok (p', rs')) :
    ∃ H', Ext H H' ∧ PopC03 H' p' ∧ AllFresh p.reg.nextInn p.reg.nextNode H p'.species ∧ CtrLe p.reg p'.reg := by
  unfold nextEpoch at h
  split at h
  · cases h
  · rename_i p1 ex rs1 hprep
    split at h
    · cases h
    · rename_i p2 rs2 hrep
      simp only [Except.ok.injEq, Prod.mk.injEq] at h
      obtain ⟨rfl, _⟩ := h
      obtain ⟨hfrom, hreg⟩ := prepare_from o p p1 ex rs rs1 hprep
      have hp1 : PopC03 H p1 := ⟨hreg ▸ hp.inv, AllOrgs.from hp.cov hfrom, by rw [hreg]; exact hp.norec⟩
      obtain ⟨H', he, hp', hfr, hc⟩ := reproduce_finalize_c03 o gen p1 p2 ex rs1 rs2 hp1 hrep
      rw [hreg] at hfr hc
      exact ⟨H', he, hp', hfr, hc⟩

/-- `n` consecutive epochs of the sequential executor (generation numbers `gen`, `gen+1`, …) -/
def runEpochs (o : EpochOpts W) : Nat → Int → Pop W → Rand (Pop W)
  | 0, _, p, rs => .ok (p, rs)
  | n + 1, gen, p, rs =>
    match nextEpoch o gen p rs with
    | .error e => .error e
    | .ok (p', rs') => runEpochs o n (gen + 1) p' rs'

theorem runEpochs_c03 (o : EpochOpts W) (n : Nat) (gen : Int) (p p' : Pop W) (rs rs' : List Nat) {H : List (Genome W)}
    (hp : PopC03 H p) (h : runEpochs o n gen p rs = .ok (p', rs')) : ∃ H', Ext H H' ∧ PopC03 H' p' ∧ CtrLe p.reg p'.reg := by
  induction n generalizing gen p rs H with
  | zero =>
    simp only [runEpochs, Except.ok.injEq, Prod.mk.injEq] at h
    obtain ⟨rfl, _⟩ := h
    exact ⟨H, .refl _, hp, .refl _⟩
  | succ n ih =>
    unfold runEpochs at h
    split at h
    · cases h
    · rename_i p1 rs1 h1
      obtain ⟨H1, he1, hp1, _, hc1⟩ := nextEpoch_c03 o gen p p1 rs rs1 hp h1
      obtain ⟨H2, he2, hp2, hc2⟩ := ih _ _ _ hp1 h
      exact ⟨H2, he1.trans he2, hp2, hc1.trans hc2⟩

end GoNeat.C03
