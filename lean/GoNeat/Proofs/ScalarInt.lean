/-
  A small exact `Scalar` instance on `Int` (core only), used for non-vacuity examples and machine-checked
  counterexamples of the solver properties (C12, C13), and a toy `ActivateByType` on it.
  Only `zero one add sub mul neg abs lt le eq ofInt` are meaningful; the remaining fields are placeholders
  that no solver definition uses.
-/
import GoNeat.Model.Scalar

namespace GoNeat.ExactInt

@[instance_reducible] def intScalar : Scalar Int where
  zero := 0
  one := 1
  add := (· + ·)
  sub := (· - ·)
  mul := (· * ·)
  div := (· / ·)
  neg := fun x => -x
  abs := fun x => (x.natAbs : Int)
  lt := fun a b => decide (a < b)
  le := fun a b => decide (a ≤ b)
  eq := fun a b => decide (a = b)
  ofInt := id
  ofDec := fun m e => (m / 10 ^ e : Nat)
  ofUnit63 := fun _ => 0
  floorInt := id
  floor := id
  fmod1 := fun _ => 0
  f32IsOne := fun x => x == 1
  f32Ge03 := fun x => decide (x ≥ 1)
  maxVal := 2 ^ 1023

scoped instance : Scalar Int := intScalar

/-- toy activator table: 14 = linear, 15 = absolute value, 17 = null (as in activations.go), 16 = clip to [-1,1] -/
def sigmaInt (a : Nat) (x : Int) : Option Int :=
  match a with
  | 14 => some x
  | 15 => some (x.natAbs : Int)
  | 16 => some (if x < -1 then -1 else if x > 1 then 1 else x)
  | 17 => some 0
  | _ => none

end GoNeat.ExactInt
