/-
  Helper lemmas for property C01: the ordered insertion `insertIndex` / `insertAt` (`geneInsert`,
  `nodeInsert`), and congruence lemmas for `WF` and the registry predicates.
-/
import GoNeat.Spec.WFReg
import GoNeat.Model.GenesisOk

namespace GoNeat.C01
open GoNeat

/-! ### the split index chosen by `geneInsert` / `nodeInsert` -/

/-- the backward scan returns the number of scanned keys below `key` as soon as one key is not above `key`;
    otherwise it falls through to the default -/
theorem scanBack_spec (key : Int) (rev : List Int) (i dflt : Nat)
    (hlen : rev.length = i + 1) (hdec : rev.Pairwise (fun a b => b < a)) :
    ((∀ k ∈ rev, key < k) → scanBack key rev i dflt = dflt) ∧
    ((∃ k ∈ rev, k ≤ key) → scanBack key rev i dflt = (rev.filter (fun k => decide (k < key))).length) := by
  induction rev generalizing i with
  | nil => simp at hlen
  | cons k ks ih =>
    simp only [List.length_cons, Nat.add_right_cancel_iff] at hlen
    rw [List.pairwise_cons] at hdec
    obtain ⟨hk, hks⟩ := hdec
    unfold scanBack
    by_cases h1 : key = k
    · subst h1
      simp only [↓reduceIte]
      refine ⟨fun h => absurd (h key (by simp)) (by omega), fun _ => ?_⟩
      have : (ks.filter (fun k => decide (k < key))) = ks := by
        apply List.filter_eq_self.mpr
        intro a ha; simpa using hk a ha
      simp [this, hlen]
    · simp only [h1, ↓reduceIte]
      by_cases h2 : key > k
      · simp only [h2, ↓reduceIte]
        refine ⟨fun h => absurd (h k (by simp)) (by omega), fun _ => ?_⟩
        have : (ks.filter (fun k => decide (k < key))) = ks := by
          apply List.filter_eq_self.mpr
          intro a ha; have := hk a ha; simp; omega
        have h2' : k < key := h2
        simp [this, hlen, h2']
      · simp only [h2, ↓reduceIte]
        have hlt : key < k := by omega
        cases ks with
        | nil =>
          refine ⟨fun _ => by simp [scanBack], ?_⟩
          rintro ⟨a, ha, hle⟩
          simp at ha; omega
        | cons k2 ks2 =>
          have hl2 : (k2 :: ks2).length = (i - 1) + 1 := by simp at hlen ⊢; omega
          obtain ⟨ih1, ih2⟩ := ih (i - 1) hl2 hks
          refine ⟨fun h => ih1 (fun a ha => h a (List.mem_cons_of_mem _ ha)), ?_⟩
          rintro ⟨a, ha, hle⟩
          have ha' : a ∈ k2 :: ks2 := by
            rcases List.mem_cons.mp ha with rfl | h
            · omega
            · exact h
          rw [ih2 ⟨a, ha', hle⟩]
          have : ¬ k < key := by omega
          simp [List.filter_cons, this]

/-- for strictly ascending keys the split index is the number of keys below the new key — except that a key
    equal to the *last* one goes behind it (the `>=` of the quick-append test) -/
theorem insertIndex_eq (keys : List Int) (key : Int) (hs : keys.Pairwise (· < ·)) :
    insertIndex keys key =
      if keys.getLast? = some key then keys.length else (keys.filter (fun k => decide (k < key))).length := by
  unfold insertIndex
  cases hl : keys.getLast? with
  | none =>
    have : keys = [] := by simpa using hl
    subst this; simp
  | some last =>
    have hlast : last ∈ keys := List.mem_of_getLast? hl
    have hmax : ∀ k ∈ keys, k ≤ last := by
      intro k hk
      obtain ⟨pre, rfl⟩ : ∃ pre, keys = pre ++ [last] := List.getLast?_eq_some_iff.mp hl
      rw [List.pairwise_append] at hs
      rcases List.mem_append.mp hk with h | h
      · have := hs.2.2 k h last (by simp); omega
      · simp at h; omega
    simp only
    by_cases hge : key ≥ last
    · simp only [hge, ↓reduceIte]
      by_cases he : last = key
      · simp [he]
      · have : (keys.filter (fun k => decide (k < key))) = keys := by
          apply List.filter_eq_self.mpr
          intro a ha; have := hmax a ha; simp; omega
        simp [he, this]
    · simp only [hge, ↓reduceIte]
      have hne : ¬ (last = key) := by omega
      simp only [Option.some.injEq, hne, ↓reduceIte]
      cases hh : keys.head? with
      | none =>
        have : keys = [] := by simpa using hh
        subst this; simp at hl
      | some first =>
        simp only
        obtain ⟨tl, rfl⟩ : ∃ tl, keys = first :: tl := by
          cases keys with
          | nil => simp at hh
          | cons a t => simp at hh; exact ⟨t, by rw [hh]⟩
        have hmin : ∀ k ∈ first :: tl, first ≤ k := by
          intro k hk
          rw [List.pairwise_cons] at hs
          rcases List.mem_cons.mp hk with rfl | h
          · omega
          · have := hs.1 k h; omega
        by_cases hle : key ≤ first
        · simp only [hle, ↓reduceIte]
          have : ((first :: tl).filter (fun k => decide (k < key))) = [] := by
            apply List.filter_eq_nil_iff.mpr
            intro a ha; have := hmin a ha; simp; omega
          simp [this]
        · simp only [hle, ↓reduceIte]
          have hdec : (first :: tl).reverse.Pairwise (fun a b => b < a) := by
            rw [List.pairwise_reverse]; exact hs
          have hlen : (first :: tl).reverse.length = ((first :: tl).length - 1) + 1 := by simp
          have := (scanBack_spec key (first :: tl).reverse ((first :: tl).length - 1) (first :: tl).length hlen hdec).2
            ⟨first, by simp, by omega⟩
          rw [this, List.filter_reverse, List.length_reverse]

/-- a strictly ascending list splits into the keys below `key` followed by the others -/
theorem sorted_split {α} (f : α → Int) (l : List α) (key : Int) (hs : l.Pairwise (fun a b => f a < f b)) :
    l = l.filter (fun x => decide (f x < key)) ++ l.filter (fun x => !decide (f x < key)) := by
  induction l with
  | nil => simp
  | cons a t ih =>
    rw [List.pairwise_cons] at hs
    by_cases h : f a < key
    · simp only [List.filter_cons, h, decide_true, ↓reduceIte, Bool.not_true, Bool.false_eq_true, List.cons_append]
      congr 1; exact ih hs.2
    · have hall : ∀ x ∈ t, ¬ f x < key := fun x hx => by have := hs.1 x hx; omega
      have h1 : t.filter (fun x => decide (f x < key)) = [] := by
        apply List.filter_eq_nil_iff.mpr; intro x hx; simpa using hall x hx
      have h2 : t.filter (fun x => !decide (f x < key)) = t := by
        apply List.filter_eq_self.mpr; intro x hx; simpa using hall x hx
      simp [h, h1, h2]

/-- what the ordered insertion does, exactly as the code has it, for a strictly ascending list:
    * new key equal to the last key: appended behind it (the list is then no longer strictly ascending);
    * otherwise: placed after all smaller keys, i.e. *before* an element with an equal key if there is one. -/
theorem insertAt_spec {α} (f : α → Int) (l : List α) (a : α) (hs : l.Pairwise (fun x y => f x < f y)) :
    insertAt l (insertIndex (l.map f) (f a)) a =
      if (l.map f).getLast? = some (f a) then l ++ [a]
      else l.filter (fun x => decide (f x < f a)) ++ a :: l.filter (fun x => !decide (f x < f a)) := by
  have hs' : (l.map f).Pairwise (· < ·) := by rw [List.pairwise_map]; exact hs
  rw [insertIndex_eq _ _ hs']
  by_cases h : (l.map f).getLast? = some (f a)
  · simp [h, insertAt]
  · simp only [h, ↓reduceIte]
    have hf : ((l.map f).filter (fun k => decide (k < f a))).length = (l.filter (fun x => decide (f x < f a))).length := by
      rw [List.filter_map, List.length_map]; rfl
    rw [hf]
    unfold insertAt
    have hsplit := sorted_split f l (f a) hs
    generalize hA : l.filter (fun x => decide (f x < f a)) = A at *
    generalize hB : l.filter (fun x => !decide (f x < f a)) = B at *
    rw [hsplit]
    simp

/-- **ordered insertion keeps a strictly ascending list strictly ascending** when the new key is not present,
    and the result is a permutation of old + new -/
theorem insertAt_sorted {α} (f : α → Int) (l : List α) (a : α) (hs : l.Pairwise (fun x y => f x < f y))
    (hnew : ∀ x ∈ l, f x ≠ f a) :
    (insertAt l (insertIndex (l.map f) (f a)) a).Pairwise (fun x y => f x < f y) ∧
    (insertAt l (insertIndex (l.map f) (f a)) a).Perm (a :: l) := by
  rw [insertAt_spec f l a hs]
  have hlast : ¬ (l.map f).getLast? = some (f a) := by
    intro h
    have := List.mem_of_getLast? h
    obtain ⟨x, hx, hfx⟩ := List.mem_map.mp this
    exact hnew x hx hfx
  simp only [hlast, ↓reduceIte]
  have hsplit := sorted_split f l (f a) hs
  constructor
  · rw [hsplit] at hs
    rw [List.pairwise_append] at hs ⊢
    refine ⟨hs.1, ?_, ?_⟩
    · rw [List.pairwise_cons]
      refine ⟨?_, hs.2.1⟩
      intro b hb
      have hb' := List.mem_filter.mp hb
      have := hnew b hb'.1
      have h2 : ¬ f b < f a := by simpa using hb'.2
      omega
    · intro x hx y hy
      rcases List.mem_cons.mp hy with rfl | hy
      · simpa using (List.mem_filter.mp hx).2
      · exact hs.2.2 x hx y hy
  · have : (a :: l).Perm (a :: (l.filter (fun x => decide (f x < f a)) ++ l.filter (fun x => !decide (f x < f a)))) := by
      rw [← hsplit]
    exact (List.perm_middle).trans this.symm

/-- membership after ordered insertion (no hypothesis needed) -/
theorem mem_insertAt {α} (l : List α) (i : Nat) (a x : α) : x ∈ insertAt l i a ↔ x = a ∨ x ∈ l := by
  unfold insertAt
  constructor
  · intro h
    rcases List.mem_append.mp h with h | h
    · exact Or.inr (List.mem_of_mem_take h)
    · rcases List.mem_cons.mp h with h | h
      · exact Or.inl h
      · exact Or.inr (List.mem_of_mem_drop h)
  · rintro (rfl | h)
    · simp
    · have : x ∈ l.take i ++ l.drop i := by rw [List.take_append_drop]; exact h
      rcases List.mem_append.mp this with h | h
      · exact List.mem_append_left _ h
      · exact List.mem_append_right _ (List.mem_cons_of_mem _ h)

theorem insertAt_perm {α} (l : List α) (i : Nat) (a : α) : (insertAt l i a).Perm (a :: l) := by
  unfold insertAt
  have : (a :: l).Perm (a :: (l.take i ++ l.drop i)) := by rw [List.take_append_drop]
  exact List.perm_middle.trans this.symm

theorem insertAt_ne_nil {α} (l : List α) (i : Nat) (a : α) : insertAt l i a ≠ [] := by
  unfold insertAt; simp

/-- order of the old elements is kept: filtering with a predicate false on the new element returns the
    filtered old list -/
theorem insertAt_filter_of_neg {α} (l : List α) (i : Nat) (a : α) (p : α → Bool) (h : p a = false) :
    (insertAt l i a).filter p = l.filter p := by
  unfold insertAt
  rw [List.filter_append, List.filter_cons]
  simp only [h, Bool.false_eq_true, ↓reduceIte]
  rw [← List.filter_append, List.take_append_drop]


/-! ### `WF` only looks at the skeleton of a genome -/

variable {W : Type}

theorem exists_of_map_eq {α β} (f : α → β) {l l' : List α} (h : l'.map f = l.map f) {x : α} (hx : x ∈ l') :
    ∃ y ∈ l, f y = f x := by
  have : f x ∈ l.map f := by rw [← h]; exact List.mem_map_of_mem hx
  obtain ⟨y, hy, hfy⟩ := List.mem_map.mp this
  exact ⟨y, hy, hfy⟩

/-- the part of a node `WF` looks at (apart from trait references) -/
def Node.shape (n : Node) : Int × Kind := (n.id, n.kind)

theorem traitsConsecutive_congr (g g' : Genome W) (ht : traitIds g' = traitIds g) (h : TraitsConsecutive g) :
    TraitsConsecutive g' := by
  unfold TraitsConsecutive at h ⊢
  unfold traitIds at ht h
  cases hg : g.traits with
  | nil => simp [hg] at h
  | cons t ts =>
    simp only [hg] at h
    cases hg' : g'.traits with
    | nil => rw [hg, hg'] at ht; simp at ht
    | cons t' ts' =>
      simp only
      have hlen : g'.traits.length = g.traits.length := by
        have := congrArg List.length ht; simpa using this
      have hid : t'.id = t.id := by
        rw [hg, hg'] at ht; simp at ht; exact ht.1
      unfold traitIds
      rw [ht, hg] at *
      rw [h, hid]
      rw [hg'] at hlen
      simp only [List.length_cons] at hlen ⊢
      rw [hlen]

/-- **`WF` is a property of the skeleton**: same innovation numbers and links, same node ids and kinds, same
    trait ids, trait references still resolving ⇒ still well-formed -/
theorem WF.congr (g g' : Genome W)
    (hi : g'.genes.map (·.inn) = g.genes.map (·.inn))
    (hl : g'.genes.map Gene.link = g.genes.map Gene.link)
    (hn : g'.nodes.map Node.shape = g.nodes.map Node.shape)
    (ht : traitIds g' = traitIds g)
    (hr : TraitRefsOwned g') (h : WF g) : WF g' := by
  have hids : nodeIds g' = nodeIds g := by
    unfold nodeIds
    have := congrArg (List.map Prod.fst) hn
    simpa [List.map_map, Node.shape, Function.comp_def] using this
  refine ⟨?_, ?_, ?_, ?_, hr, ?_, ?_, ?_, traitsConsecutive_congr g g' ht h.traits⟩
  · have := h.genesSorted
    unfold GenesSorted at this ⊢
    rw [← List.pairwise_map (f := fun x : Gene W => x.inn) (R := (· < ·))] at this ⊢
    rw [hi]; exact this
  · have := h.linksDistinct
    unfold LinksDistinct at this ⊢
    rw [← List.pairwise_map (f := Gene.link) (R := (· ≠ ·))] at this ⊢
    rw [hl]; exact this
  · have := h.nodesSorted
    unfold NodesSorted at this ⊢
    rw [← List.pairwise_map (f := fun n : Node => n.id) (R := (· < ·))] at this ⊢
    have e : g'.nodes.map (fun n => n.id) = g.nodes.map (fun n => n.id) := hids
    rw [e]; exact this
  · intro x hx
    obtain ⟨y, hy, hxy⟩ := exists_of_map_eq Gene.link hl hx
    have := h.endpoints y hy
    unfold Gene.link at hxy
    simp only [Prod.mk.injEq] at hxy
    rw [hids, ← hxy.1, ← hxy.2.1]; exact this
  · intro x hx n hn' hid
    obtain ⟨y, hy, hxy⟩ := exists_of_map_eq Gene.link hl hx
    obtain ⟨m, hm, hmn⟩ := exists_of_map_eq Node.shape hn hn'
    unfold Gene.link at hxy
    unfold Node.shape at hmn
    simp only [Prod.mk.injEq] at hxy hmn
    have := h.noSensorTarget y hy m hm (by rw [hmn.1, hid, hxy.2.1])
    unfold Node.isSensor at this ⊢
    rw [← hmn.2]; exact this
  · intro he
    have := h.hasGene
    have h2 : (g'.genes.map (·.inn)).length = (g.genes.map (·.inn)).length := by rw [hi]
    simp [he] at h2
    exact this (List.eq_nil_of_length_eq_zero h2.symm)
  · obtain ⟨n, hn', hk⟩ := h.hasOutput
    have : Node.shape n ∈ g'.nodes.map Node.shape := by rw [hn]; exact List.mem_map_of_mem hn'
    obtain ⟨m, hm, hmn⟩ := List.mem_map.mp this
    refine ⟨m, hm, ?_⟩
    unfold Node.shape at hmn
    simp only [Prod.mk.injEq] at hmn
    rw [hmn.2]; exact hk

/-! ### skeleton-preserving steps (all parametric mutations) -/

/-- innovation number and link of a gene -/
def geneKey (x : Gene W) : Int × (Int × Int × Bool) := (x.inn, x.link)

/-- `g'` has the skeleton of `g`: same (innovation number, link) list, same (node id, kind) list, same trait ids -/
structure SameSkel (g g' : Genome W) : Prop where
  genes : g'.genes.map geneKey = g.genes.map geneKey
  nodes : g'.nodes.map Node.shape = g.nodes.map Node.shape
  tids : traitIds g' = traitIds g
  mods : g'.modules = g.modules

theorem SameSkel.refl (g : Genome W) : SameSkel g g := ⟨rfl, rfl, rfl, rfl⟩
theorem SameSkel.trans {a b c : Genome W} (h1 : SameSkel a b) (h2 : SameSkel b c) : SameSkel a c :=
  ⟨h2.genes.trans h1.genes, h2.nodes.trans h1.nodes, h2.tids.trans h1.tids, h2.mods.trans h1.mods⟩

theorem SameSkel.inns {g g' : Genome W} (h : SameSkel g g') : g'.genes.map (·.inn) = g.genes.map (·.inn) := by
  have := congrArg (List.map Prod.fst) h.genes
  simpa [List.map_map, geneKey, Function.comp_def] using this
theorem SameSkel.links {g g' : Genome W} (h : SameSkel g g') : g'.genes.map Gene.link = g.genes.map Gene.link := by
  have := congrArg (List.map Prod.snd) h.genes
  simpa [List.map_map, geneKey, Function.comp_def] using this

theorem traitRefOk_congr (g g' : Genome W) (ht : traitIds g' = traitIds g) (t : Option Int) (h : TraitRefOk g t) :
    TraitRefOk g' t := by
  unfold TraitRefOk at h ⊢
  cases t with
  | none => trivial
  | some id => simp only at h ⊢; rw [ht]; exact h

theorem Retains.of_shape (g g' : Genome W) (hn : g'.nodes.map Node.shape = g.nodes.map Node.shape) : Retains g g' := by
  intro n hn' _
  have : Node.shape n ∈ g'.nodes.map Node.shape := by rw [hn]; exact List.mem_map_of_mem hn'
  obtain ⟨m, hm, hmn⟩ := List.mem_map.mp this
  unfold Node.shape at hmn
  simp only [Prod.mk.injEq] at hmn
  exact ⟨m, hm, hmn.1, hmn.2⟩

theorem Retains.refl (g : Genome W) : Retains g g := fun n hn _ => ⟨n, hn, rfl, rfl⟩

theorem Retains.trans {a b c : Genome W} (h1 : Retains a b) (h2 : Retains b c) : Retains a c := by
  intro n hn hk
  obtain ⟨m, hm, hid, hkind⟩ := h1 n hn hk
  obtain ⟨k, hk', hid', hkind'⟩ := h2 m hm (by rw [hkind]; exact hk)
  exact ⟨k, hk', by rw [hid', hid], by rw [hkind', hkind]⟩

theorem RegCompat.congr (reg : Reg W) (g g' : Genome W)
    (hs : g'.genes.map geneKey = g.genes.map geneKey)
    (hn : g'.nodes.map Node.shape = g.nodes.map Node.shape) (h : RegCompat reg g) : RegCompat reg g' := by
  intro i hi
  obtain ⟨h2, h1⟩ := h i hi
  have key : ∀ x ∈ g'.genes, ∃ y ∈ g.genes, y.inn = x.inn ∧ y.src = x.src ∧ y.dst = x.dst ∧ y.recur = x.recur := by
    intro x hx
    obtain ⟨y, hy, hxy⟩ := exists_of_map_eq geneKey hs hx
    unfold geneKey Gene.link at hxy
    simp only [Prod.mk.injEq] at hxy
    exact ⟨y, hy, hxy.1, hxy.2.1, hxy.2.2.1, hxy.2.2.2⟩
  refine ⟨fun ht x hx hinn => ?_, fun ht => ⟨fun x hx hinn => ?_, fun x hx hinn => ?_, fun n hn' hid => ?_⟩⟩
  · obtain ⟨y, hy, e1, e2, e3, e4⟩ := key x hx
    have := h2 ht y hy (by rw [e1, hinn])
    unfold Gene.link at this ⊢
    rw [← e2, ← e3, ← e4]; exact this
  · obtain ⟨y, hy, e1, e2, e3, e4⟩ := key x hx
    have := (h1 ht).1 y hy (by rw [e1, hinn])
    rw [← e2, ← e3]; exact this
  · obtain ⟨y, hy, e1, e2, e3, e4⟩ := key x hx
    have := (h1 ht).2.1 y hy (by rw [e1, hinn])
    rw [← e2, ← e3, ← e4]; exact this
  · obtain ⟨m, hm, hmn⟩ := exists_of_map_eq Node.shape hn hn'
    unfold Node.shape at hmn
    simp only [Prod.mk.injEq] at hmn
    have := (h1 ht).2.2 m hm (by rw [hmn.1, hid])
    rw [← hmn.2]; exact this

theorem CounterAbove.congr (reg : Reg W) (g g' : Genome W)
    (hi : g'.genes.map (·.inn) = g.genes.map (·.inn))
    (hn : g'.nodes.map Node.shape = g.nodes.map Node.shape) (h : CounterAbove reg g) : CounterAbove reg g' := by
  refine ⟨fun x hx => ?_, fun n hn' => ?_⟩
  · obtain ⟨y, hy, e⟩ := exists_of_map_eq (fun x : Gene W => x.inn) hi hx
    have := h.1 y hy
    omega
  · obtain ⟨m, hm, hmn⟩ := exists_of_map_eq Node.shape hn hn'
    unfold Node.shape at hmn
    simp only [Prod.mk.injEq] at hmn
    have := h.2 m hm
    omega


/-- a skeleton-preserving step whose trait references still resolve keeps every C01 invariant of the genome -/
theorem SameSkel.wft {g g' : Genome W} (h : SameSkel g g') (hr : TraitRefsOwned g') (hw : WFT g) : WFT g' := by
  refine ⟨WF.congr g g' h.inns h.links h.nodes h.tids hr hw.wf, ?_, ?_⟩
  · intro t ht
    have : t.id ∈ traitIds g := by rw [← h.tids]; exact List.mem_map_of_mem ht
    obtain ⟨t0, ht0, e⟩ := List.mem_map.mp this
    rw [← e]; exact hw.tnz t0 ht0
  · intro n hn
    obtain ⟨m, hm, e⟩ := exists_of_map_eq Node.shape h.nodes hn
    unfold Node.shape at e
    simp only [Prod.mk.injEq] at e
    rw [← e.2]; exact hw.kinds m hm

theorem SameSkel.retains {g g' : Genome W} (h : SameSkel g g') : Retains g g' := Retains.of_shape g g' h.nodes

theorem SameSkel.regInv {g g' : Genome W} (h : SameSkel g g') (reg : Reg W) (hi : RegInv reg g) : RegInv reg g' :=
  ⟨RegCompat.congr reg g g' h.genes h.nodes hi.compat, CounterAbove.congr reg g g' h.inns h.nodes hi.above, hi.ok⟩

end GoNeat.C01
