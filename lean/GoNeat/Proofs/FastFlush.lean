/-
  Helper lemmas for C13 (fast solver).

  `FE fn s t` ("equal up to dead state"): `neuronSignals` equal; `neuronSignalsBeingProcessed` equal at the
  neuron indices (`≥ sensorNeuronCount`; the cells of sensors are written by connections that target a sensor but
  are never read into a signal); `lastActivation` equal at the sensor indices (never written at all);
  `activated`, `inActivation` and `lastActivation` at neuron indices are ignored - `RecursiveSteps` rewrites them
  before `recursiveActivateNode` reads them (lemma `recInit_RR`).

  Inside the recursion the processing cells may differ on a set `D` of indices; a cell leaves `D` when the
  recursion resets it (`processing[cur] = 0`) and is only read after that (lemma `recNode_congr`).
  Kind A: no arithmetic law is used.
-/
import GoNeat.Model.FastSolver

set_option linter.unusedSectionVars false

namespace GoNeat.Fast
open GoNeat.Solver (Err)

variable {W : Type} [Scalar W]

/-! ### list cells -/

theorem getW_set (p : List W) (i j : Nat) (v : W) :
    getW (p.set i v) j = if j = i ∧ i < p.length then v else getW p j := by
  induction p generalizing i j with
  | nil => simp [getW]
  | cons a l ih =>
    cases i with
    | zero => cases j <;> simp [getW]
    | succ i' =>
      cases j with
      | zero => simp [getW]
      | succ j' =>
        have := ih i' j'
        simpa [getW] using this

theorem getB_set (p : List Bool) (i j : Nat) (v : Bool) :
    getB (p.set i v) j = if j = i ∧ i < p.length then v else getB p j := by
  induction p generalizing i j with
  | nil => simp [getB]
  | cons a l ih =>
    cases i with
    | zero => cases j <;> simp [getB]
    | succ i' =>
      cases j with
      | zero => simp [getB]
      | succ j' =>
        have := ih i' j'
        simpa [getB] using this

theorem getW_ge (p : List W) (i : Nat) (h : p.length ≤ i) : getW p i = Scalar.zero := by
  simp [getW, List.getD, List.getElem?_eq_none h]

theorem getW_map_range (n : Nat) (f : Nat → W) (i : Nat) :
    getW ((List.range n).map f) i = if i < n then f i else Scalar.zero := by
  unfold getW
  by_cases h : i < n
  · simp [List.getD, h]
  · simp [List.getD, h]

theorem getB_map_range (n : Nat) (f : Nat → Bool) (i : Nat) :
    getB ((List.range n).map f) i = if i < n then f i else false := by
  unfold getB
  by_cases h : i < n
  · simp [List.getD, h]
  · simp [List.getD, h]

theorem getW_replicate_zero (n i : Nat) : getW (List.replicate n (Scalar.zero : W)) i = Scalar.zero := by
  unfold getW
  by_cases h : i < n
  · simp [List.getD, h]
  · simp [List.getD, h]

/-! ### processing arrays equal outside `D` -/

def PEq (D : Nat → Prop) (p q : List W) : Prop := p.length = q.length ∧ ∀ i, ¬ D i → getW p i = getW q i

theorem PEq.refl (D : Nat → Prop) (p : List W) : PEq D p p := ⟨rfl, fun _ _ => rfl⟩

theorem PEq.mono {D D' : Nat → Prop} {p q : List W} (h : PEq D p q) (hd : ∀ i, D i → D' i) : PEq D' p q :=
  ⟨h.1, fun i hi => h.2 i (fun hdi => hi (hd i hdi))⟩

theorem PEq_set {D : Nat → Prop} {p q : List W} (h : PEq D p q) (i : Nat) (v v' : W) (hv : ¬ D i → v = v') :
    PEq D (p.set i v) (q.set i v') := by
  refine ⟨by simp [h.1], fun j hj => ?_⟩
  rw [getW_set, getW_set, ← h.1]
  split
  · next hc => exact hv (hc.1 ▸ hj)
  · exact h.2 j hj

/-- resetting a cell on both sides removes it from the set of cells that may differ -/
theorem PEq_reset {D : Nat → Prop} {p q : List W} (h : PEq D p q) (cur : Nat) (v : W) :
    PEq (fun j => D j ∧ j ≠ cur) (p.set cur v) (q.set cur v) := by
  refine ⟨by simp [h.1], fun j hj => ?_⟩
  rw [getW_set, getW_set, ← h.1]
  split
  · rfl
  · next hc =>
    by_cases hjc : j = cur
    · subst hjc
      have hl : p.length ≤ j := by
        apply Nat.le_of_not_lt
        intro hlt
        exact hc ⟨rfl, hlt⟩
      rw [getW_ge p j hl, getW_ge q j (h.1 ▸ hl)]
    · exact h.2 j (fun hd => hj ⟨hd, hjc⟩)

/-! ### the relation used inside `RecursiveSteps` -/

structure RR (D : Nat → Prop) (s t : FState W) : Prop where
  signals : s.signals = t.signals
  activated : s.activated = t.activated
  inAct : s.inAct = t.inAct
  lastAct : s.lastAct = t.lastAct
  proc : PEq D s.processing t.processing

theorem RR.mono {D D' : Nat → Prop} {s t : FState W} (h : RR D s t) (hd : ∀ i, D i → D' i) : RR D' s t :=
  ⟨h.signals, h.activated, h.inAct, h.lastAct, h.proc.mono hd⟩

theorem addProc_congr {D : Nat → Prop} {s t : FState W} (h : RR D s t) (cur : Nat) (x : W) (hc : ¬ D cur) :
    RR D (addProc s cur x) (addProc t cur x) := by
  refine ⟨h.signals, h.activated, h.inAct, h.lastAct, ?_⟩
  exact PEq_set h.proc cur _ _ (fun _ => by rw [h.proc.2 cur hc])

theorem recAdj_congr (fn : FastNet W) (rc : Nat → FState W → Res W) (D : Nat → Prop)
    (hrc : ∀ adj s t, RR D s t → RR D (rc adj s).1 (rc adj t).1 ∧ (rc adj s).2 = (rc adj t).2)
    (cur : Nat) (hc : ¬ D cur) (adjs : List Nat) {s t : FState W} (h : RR D s t) :
    RR D (recAdj fn rc cur adjs s).1 (recAdj fn rc cur adjs t).1 ∧
      (recAdj fn rc cur adjs s).2 = (recAdj fn rc cur adjs t).2 := by
  induction adjs generalizing s t with
  | nil => exact ⟨h, rfl⟩
  | cons adj rest ih =>
    unfold recAdj
    have e1 : getB s.inAct adj = getB t.inAct adj := by rw [h.inAct]
    have e2 : getB s.activated adj = getB t.activated adj := by rw [h.activated]
    have e3 : getW s.lastAct adj = getW t.lastAct adj := by rw [h.lastAct]
    rw [e1, e2, e3]
    split
    · exact ih (addProc_congr h cur _ hc)
    · split
      · -- recursion into adj
        have hr := hrc adj s t h
        rcases hs : rc adj s with ⟨s', r, e⟩
        rcases ht : rc adj t with ⟨t', r', e'⟩
        rw [hs, ht] at hr
        simp only [Prod.mk.injEq] at hr
        obtain ⟨hr1, rfl, rfl⟩ := hr
        cases e with
        | some e => exact ⟨hr1, rfl⟩
        | none =>
          cases r with
          | false => exact ⟨hr1, rfl⟩
          | true =>
            simp only
            have e4 : getW s'.signals adj = getW t'.signals adj := by rw [hr1.signals]
            rw [e4]
            exact ih (addProc_congr hr1 cur _ hc)
      · simp only
        have e4 : getW s.signals adj = getW t.signals adj := by rw [h.signals]
        rw [e4]
        exact ih (addProc_congr h cur _ hc)

theorem recFinish_congr (fn : FastNet W) (σ : Nat → W → Option W) (D : Nat → Prop) (cur : Nat) (hc : ¬ D cur)
    {s t : FState W} (h : RR D s t) :
    RR D (recFinish fn σ cur s).1 (recFinish fn σ cur t).1 ∧ (recFinish fn σ cur s).2 = (recFinish fn σ cur t).2 := by
  unfold recFinish
  simp only
  have hsig : getW s.processing cur = getW t.processing cur := h.proc.2 cur hc
  rw [hsig]
  have hp := PEq_set h.proc cur
    (if fn.nBias > 0 then Scalar.add (getW t.processing cur) (getW fn.biasList cur) else getW t.processing cur)
    (if fn.nBias > 0 then Scalar.add (getW t.processing cur) (getW fn.biasList cur) else getW t.processing cur)
    (fun _ => rfl)
  split
  · exact ⟨⟨by simp [h.signals], by simp [h.activated], by simp [h.inAct], h.lastAct, hp⟩, rfl⟩
  · exact ⟨⟨by simp [h.signals], by simp [h.activated], by simp [h.inAct], h.lastAct, hp⟩, rfl⟩

theorem recNode_congr (fn : FastNet W) (σ : Nat → W → Option W) (fuel : Nat) :
    ∀ (D : Nat → Prop) (cur : Nat) (s t : FState W), RR D s t →
      RR D (recNode fn σ fuel cur s).1 (recNode fn σ fuel cur t).1 ∧
        (recNode fn σ fuel cur s).2 = (recNode fn σ fuel cur t).2 := by
  induction fuel with
  | zero => intro D cur s t h; exact ⟨h, rfl⟩
  | succ fuel ih =>
    intro D cur s t h
    unfold recNode
    have hact : getB s.activated cur = getB t.activated cur := by rw [h.activated]
    rw [hact]
    split
    · exact ⟨⟨h.signals, h.activated, by simp [h.inAct], h.lastAct, h.proc⟩, rfl⟩
    · -- D' = D without cur
      have h1 : RR (fun j => D j ∧ j ≠ cur) (recStart s cur) (recStart t cur) :=
        ⟨h.signals, h.activated, by simp [recStart, h.inAct], h.lastAct, PEq_reset h.proc cur _⟩
      have hcur : ¬ (fun j => D j ∧ j ≠ cur) cur := fun hh => hh.2 rfl
      have hsub : ∀ i, (fun j => D j ∧ j ≠ cur) i → D i := fun _ hh => hh.1
      have ha := recAdj_congr fn (recNode fn σ fuel) _ (fun adj s t hst => ih _ adj s t hst) cur hcur
        (revAdj fn cur) h1
      rcases hs : recAdj fn (recNode fn σ fuel) cur (revAdj fn cur) (recStart s cur) with ⟨s2, e⟩
      rcases ht : recAdj fn (recNode fn σ fuel) cur (revAdj fn cur) (recStart t cur) with ⟨t2, e'⟩
      rw [hs, ht] at ha
      simp only at ha
      obtain ⟨ha1, rfl⟩ := ha
      cases e with
      | some e => exact ⟨ha1.mono hsub, rfl⟩
      | none =>
        have hf := recFinish_congr fn σ _ cur hcur ha1
        exact ⟨hf.1.mono hsub, hf.2⟩

theorem recOutputs_congr (fn : FastNet W) (σ : Nat → W → Option W) (D : Nat → Prop) (os : List Nat) (res : Bool)
    {s t : FState W} (h : RR D s t) :
    RR D (recOutputs fn σ os res s).1 (recOutputs fn σ os res t).1 ∧
      (recOutputs fn σ os res s).2 = (recOutputs fn σ os res t).2 := by
  induction os generalizing res s t with
  | nil => exact ⟨h, rfl⟩
  | cons o os ih =>
    unfold recOutputs
    have hr := recNode_congr fn σ (fn.nTotal + 1) D o s t h
    rcases hs : recNode fn σ (fn.nTotal + 1) o s with ⟨s', r, e⟩
    rcases ht : recNode fn σ (fn.nTotal + 1) o t with ⟨t', r', e'⟩
    rw [hs, ht] at hr
    simp only [Prod.mk.injEq] at hr
    obtain ⟨hr1, rfl, rfl⟩ := hr
    cases e with
    | some e => exact ⟨hr1, rfl⟩
    | none =>
      cases r with
      | false => exact ⟨hr1, rfl⟩
      | true => exact ih true hr1

/-! ### the equivalence of C13 for the fast solver -/

structure FE (fn : FastNet W) (s t : FState W) : Prop where
  signals : s.signals = t.signals
  proc : PEq (fun i => i < fn.nSensor) s.processing t.processing
  lastAct : ∀ i, i < fn.nSensor → getW s.lastAct i = getW t.lastAct i

theorem FE.refl (fn : FastNet W) (s : FState W) : FE fn s s := ⟨rfl, PEq.refl _ _, fun _ _ => rfl⟩

/-- deadness of `activated`, `inActivation`, `lastActivation[neurons]`: `RecursiveSteps` re-initialises them -/
theorem recInit_RR (fn : FastNet W) {s t : FState W} (h : FE fn s t) :
    RR (fun i => i < fn.nSensor) (recInit fn s) (recInit fn t) := by
  refine ⟨h.signals, rfl, rfl, ?_, h.proc⟩
  unfold recInit
  simp only
  apply List.map_congr_left
  intro i _
  split
  · rw [h.signals]
  · next hi => exact h.lastAct i (by omega)

theorem RR_FE (fn : FastNet W) {s t : FState W} (h : RR (fun i => i < fn.nSensor) s t) : FE fn s t :=
  ⟨h.signals, h.proc, fun i _ => by rw [h.lastAct]⟩

theorem recursiveSteps_congr (fn : FastNet W) (σ : Nat → W → Option W) {s t : FState W} (h : FE fn s t) :
    FE fn (recursiveSteps fn σ s).1 (recursiveSteps fn σ t).1 ∧
      (recursiveSteps fn σ s).2 = (recursiveSteps fn σ t).2 := by
  unfold recursiveSteps
  have := recOutputs_congr fn σ _ ((List.range fn.nOutput).map (· + fn.nSensor)) false (recInit_RR fn h)
  exact ⟨RR_FE fn this.1, this.2⟩

/-! ### forwardStep -/

theorem connLoop_congr (D : Nat → Prop) (sig : List W) (cs : List (FLink W)) {p q : List W} (h : PEq D p q) :
    PEq D (connLoop sig cs p) (connLoop sig cs q) := by
  induction cs generalizing p q with
  | nil => exact h
  | cons c cs ih =>
    unfold connLoop
    exact ih (PEq_set h c.dst _ _ (fun hd => by rw [h.2 c.dst hd]))

theorem actLoop_congr (fn : FastNet W) (σ : Nat → W → Option W) (D : Nat → Prop) (is : List Nat)
    (hD : ∀ i ∈ is, ¬ D i) {p q : List W} (h : PEq D p q) :
    PEq D (actLoop fn σ is p).1 (actLoop fn σ is q).1 ∧ (actLoop fn σ is p).2 = (actLoop fn σ is q).2 := by
  induction is generalizing p q with
  | nil => exact ⟨h, rfl⟩
  | cons i is ih =>
    unfold actLoop
    simp only
    rw [h.2 i (hD i (by simp))]
    split
    · exact ⟨PEq_set h i _ _ (fun _ => rfl), rfl⟩
    · exact ih (fun j hj => hD j (by simp [hj])) (PEq_set h i _ _ (fun _ => rfl))

theorem moveLoop_congr (delta : W) (check : Bool) (D : Nat → Prop) (is : List Nat) (hD : ∀ i ∈ is, ¬ D i)
    (sig : List W) (r : Bool) {p q : List W} (h : PEq D p q) :
    (moveLoop delta check is sig p r).1 = (moveLoop delta check is sig q r).1 ∧
      PEq D (moveLoop delta check is sig p r).2.1 (moveLoop delta check is sig q r).2.1 ∧
      (moveLoop delta check is sig p r).2.2 = (moveLoop delta check is sig q r).2.2 := by
  induction is generalizing sig r p q with
  | nil => exact ⟨rfl, h, rfl⟩
  | cons i is ih =>
    unfold moveLoop
    simp only
    rw [h.2 i (hD i (by simp))]
    exact ih (fun j hj => hD j (by simp [hj])) _ _ (PEq_set h i _ _ (fun _ => rfl))

theorem neuronIdx_ge (fn : FastNet W) : ∀ i ∈ neuronIdx fn, ¬ (i < fn.nSensor) := by
  intro i hi
  unfold neuronIdx at hi
  simp only [List.mem_map, List.mem_range] at hi
  obtain ⟨k, _, rfl⟩ := hi
  omega

theorem forwardStep_congr (fn : FastNet W) (σ : Nat → W → Option W) (delta : W) {s t : FState W} (h : FE fn s t) :
    FE fn (forwardStep fn σ delta s).1 (forwardStep fn σ delta t).1 ∧
      (forwardStep fn σ delta s).2 = (forwardStep fn σ delta t).2 := by
  unfold forwardStep
  simp only
  rw [h.signals]
  have hc := connLoop_congr _ t.signals fn.conns h.proc
  have ha := actLoop_congr fn σ _ (neuronIdx fn) (neuronIdx_ge fn) hc
  rcases hs : actLoop fn σ (neuronIdx fn) (connLoop t.signals fn.conns s.processing) with ⟨p2, e⟩
  rcases ht : actLoop fn σ (neuronIdx fn) (connLoop t.signals fn.conns t.processing) with ⟨q2, e'⟩
  rw [hs, ht] at ha
  simp only at ha
  obtain ⟨ha1, rfl⟩ := ha
  cases e with
  | some e => exact ⟨⟨rfl, ha1, h.lastAct⟩, rfl⟩
  | none =>
    have hm := moveLoop_congr delta (!(Scalar.le delta Scalar.zero)) _ (neuronIdx fn) (neuronIdx_ge fn) t.signals true ha1
    simp only
    exact ⟨⟨hm.1, hm.2.1, h.lastAct⟩, by rw [hm.2.2]⟩

theorem fwdLoop_congr (fn : FastNet W) (σ : Nat → W → Option W) (k : Nat) (res : Bool) {s t : FState W} (h : FE fn s t) :
    FE fn (fwdLoop fn σ k res s).1 (fwdLoop fn σ k res t).1 ∧ (fwdLoop fn σ k res s).2 = (fwdLoop fn σ k res t).2 := by
  induction k generalizing res s t with
  | zero => exact ⟨h, rfl⟩
  | succ k ih =>
    unfold fwdLoop
    have hf := forwardStep_congr fn σ Scalar.zero h
    rcases hs : forwardStep fn σ Scalar.zero s with ⟨s', r, e⟩
    rcases ht : forwardStep fn σ Scalar.zero t with ⟨t', r', e'⟩
    rw [hs, ht] at hf
    simp only [Prod.mk.injEq] at hf
    obtain ⟨hf1, rfl, rfl⟩ := hf
    cases e with
    | some e => exact ⟨hf1, rfl⟩
    | none => exact ih r hf1

theorem relaxLoop_congr (fn : FastNet W) (σ : Nat → W → Option W) (delta : W) (k : Nat) (res : Bool)
    {s t : FState W} (h : FE fn s t) :
    FE fn (relaxLoop fn σ delta k res s).1 (relaxLoop fn σ delta k res t).1 ∧
      (relaxLoop fn σ delta k res s).2 = (relaxLoop fn σ delta k res t).2 := by
  induction k generalizing res s t with
  | zero => exact ⟨h, rfl⟩
  | succ k ih =>
    unfold relaxLoop
    have hf := forwardStep_congr fn σ delta h
    rcases hs : forwardStep fn σ delta s with ⟨s', r, e⟩
    rcases ht : forwardStep fn σ delta t with ⟨t', r', e'⟩
    rw [hs, ht] at hf
    simp only [Prod.mk.injEq] at hf
    obtain ⟨hf1, rfl, rfl⟩ := hf
    cases e with
    | some e => exact ⟨hf1, rfl⟩
    | none =>
      cases r with
      | true => exact ⟨hf1, rfl⟩
      | false => exact ih false hf1

/-! ### Flush, LoadSensors -/

theorem zeroFrom_congr (D : Nat → Prop) (k : Nat) {p q : List W} (h : PEq D p q) :
    PEq D (zeroFrom k p) (zeroFrom k q) := by
  unfold zeroFrom
  refine ⟨by simp [h.1], fun i hi => ?_⟩
  rw [getW_map_range, getW_map_range, h.1, h.2 i hi]

theorem flush_congr (fn : FastNet W) {s t : FState W} (h : FE fn s t) :
    FE fn (flush fn s).1 (flush fn t).1 ∧ (flush fn s).2 = (flush fn t).2 := by
  unfold flush
  exact ⟨⟨by simp [h.signals], zeroFrom_congr _ _ h.proc, h.lastAct⟩, rfl⟩

theorem loadSensors_congr (fn : FastNet W) (xs : List W) {s t : FState W} (h : FE fn s t) :
    FE fn (loadSensors fn xs s).1 (loadSensors fn xs t).1 ∧ (loadSensors fn xs s).2 = (loadSensors fn xs t).2 := by
  unfold loadSensors
  split
  · exact ⟨⟨by simp [h.signals], h.proc, h.lastAct⟩, rfl⟩
  · exact ⟨h, rfl⟩

theorem readOutputs_congr (fn : FastNet W) {s t : FState W} (h : FE fn s t) : readOutputs fn s = readOutputs fn t := by
  unfold readOutputs
  rw [h.signals]

theorem step_congr (fn : FastNet W) (σ : Nat → W → Option W) (op : Op W) {s t : FState W} (h : FE fn s t) :
    FE fn (step fn σ s op).1 (step fn σ t op).1 ∧ (step fn σ s op).2 = (step fn σ t op).2 := by
  cases op with
  | load xs =>
    have := loadSensors_congr fn xs h
    simp only [step]
    exact ⟨this.1, by rw [this.2]⟩
  | forward n => exact fwdLoop_congr fn σ _ false h
  | recursive => exact recursiveSteps_congr fn σ h
  | relax n d => exact relaxLoop_congr fn σ d _ false h
  | flush => exact flush_congr fn h

theorem run_congr (fn : FastNet W) (σ : Nat → W → Option W) (ops : List (Op W)) {s t : FState W} (h : FE fn s t) :
    FE fn (run fn σ ops s).1 (run fn σ ops t).1 ∧ (run fn σ ops s).2 = (run fn σ ops t).2 := by
  induction ops generalizing s t with
  | nil => exact ⟨h, rfl⟩
  | cons op ops ih =>
    have hs := step_congr fn σ op h
    have hr := ih hs.1
    simp only [run]
    refine ⟨hr.1, ?_⟩
    rw [hr.2]
    congr 1
    unfold obsOf
    rw [hs.2, readOutputs_congr fn hs.1]

/-! ### invariant of reachable states: array lengths, bias signals stay 1, `lastActivation` of sensors stays 0 -/

structure Inv (fn : FastNet W) (s : FState W) : Prop where
  lenS : s.signals.length = fn.nTotal
  lenP : s.processing.length = fn.nTotal
  bias : ∀ i, i < fn.nBias → i < fn.nTotal → getW s.signals i = Scalar.one
  last : ∀ i, i < fn.nSensor → getW s.lastAct i = Scalar.zero

theorem Inv_init (fn : FastNet W) : Inv fn (init fn) := by
  refine ⟨by simp [init], by simp [init], fun i hb ht => ?_, fun i _ => ?_⟩
  · simp [init, getW_map_range, hb, ht]
  · simp [init, getW_replicate_zero]

/-- what a recursive activation never does: it keeps array lengths and `lastActivation`, never clears an
    `activated` mark and never changes the signal of a node that is marked -/
structure Q (s s' : FState W) : Prop where
  lenS : s'.signals.length = s.signals.length
  lenP : s'.processing.length = s.processing.length
  last : s'.lastAct = s.lastAct
  actMono : ∀ i, getB s.activated i = true → getB s'.activated i = true
  sigKeep : ∀ i, getB s.activated i = true → getW s'.signals i = getW s.signals i

theorem Q.refl (s : FState W) : Q s s := ⟨rfl, rfl, rfl, fun _ h => h, fun _ _ => rfl⟩

theorem Q.trans {a b c : FState W} (h1 : Q a b) (h2 : Q b c) : Q a c :=
  ⟨h2.lenS.trans h1.lenS, h2.lenP.trans h1.lenP, h2.last.trans h1.last,
   fun i h => h2.actMono i (h1.actMono i h),
   fun i h => (h2.sigKeep i (h1.actMono i h)).trans (h1.sigKeep i h)⟩

theorem Q_addProc (s : FState W) (cur : Nat) (x : W) : Q s (addProc s cur x) :=
  ⟨rfl, by simp [addProc], rfl, fun _ h => h, fun _ _ => rfl⟩

theorem recAdj_Q (fn : FastNet W) (rc : Nat → FState W → Res W) (hrc : ∀ adj s, Q s (rc adj s).1)
    (cur : Nat) (adjs : List Nat) (s : FState W) : Q s (recAdj fn rc cur adjs s).1 := by
  induction adjs generalizing s with
  | nil => exact Q.refl s
  | cons adj rest ih =>
    unfold recAdj
    split
    · exact (Q_addProc s cur _).trans (ih _)
    · split
      · have hq := hrc adj s
        rcases hs : rc adj s with ⟨s', r, e⟩
        rw [hs] at hq
        cases e with
        | some e => exact hq
        | none =>
          cases r with
          | false => exact hq
          | true => exact hq.trans ((Q_addProc s' cur _).trans (ih _))
      · exact (Q_addProc s cur _).trans (ih _)

theorem recFinish_Q (fn : FastNet W) (σ : Nat → W → Option W) (cur : Nat) (s0 s2 : FState W) (h2 : Q s0 s2)
    (hcur : getB s0.activated cur = false) : Q s0 (recFinish fn σ cur s2).1 := by
  have hne : ∀ i, getB s0.activated i = true → i ≠ cur := by
    intro i hi hic
    rw [hic, hcur] at hi
    exact absurd hi (by simp)
  unfold recFinish
  simp only
  have key : ∀ v : W, Q s0 (FState.mk (s2.signals.set cur v)
      (s2.processing.set cur
        (if fn.nBias > 0 then Scalar.add (getW s2.processing cur) (getW fn.biasList cur) else getW s2.processing cur))
      (s2.activated.set cur true) (s2.inAct.set cur false) s2.lastAct) := by
    intro v
    refine ⟨by simp [h2.lenS], by simp [h2.lenP], h2.last, fun i hi => ?_, fun i hi => ?_⟩
    · rw [getB_set]
      split
      · rfl
      · exact h2.actMono i hi
    · rw [getW_set]
      split
      · next hc => exact absurd hc.1 (hne i hi)
      · exact h2.sigKeep i hi
  split
  · exact key _
  · exact key _

theorem recNode_Q (fn : FastNet W) (σ : Nat → W → Option W) (fuel : Nat) :
    ∀ (cur : Nat) (s : FState W), Q s (recNode fn σ fuel cur s).1 := by
  induction fuel with
  | zero => intro cur s; exact Q.refl s
  | succ fuel ih =>
    intro cur s
    unfold recNode
    split
    · exact ⟨rfl, rfl, rfl, fun _ h => h, fun _ _ => rfl⟩
    · next hact =>
      have hcur : getB s.activated cur = false := by simpa using hact
      have h1 : Q s (recStart s cur) := ⟨rfl, by simp [recStart], rfl, fun _ h => h, fun _ _ => rfl⟩
      have ha := recAdj_Q fn (recNode fn σ fuel) (fun adj s => ih adj s) cur (revAdj fn cur) (recStart s cur)
      rcases hs : recAdj fn (recNode fn σ fuel) cur (revAdj fn cur) (recStart s cur) with ⟨s2, e⟩
      rw [hs] at ha
      have h2 : Q s s2 := h1.trans ha
      cases e with
      | some e => exact h2
      | none => exact recFinish_Q fn σ cur s s2 h2 hcur

theorem recOutputs_Q (fn : FastNet W) (σ : Nat → W → Option W) (os : List Nat) (res : Bool) (s : FState W) :
    Q s (recOutputs fn σ os res s).1 := by
  induction os generalizing res s with
  | nil => exact Q.refl s
  | cons o os ih =>
    unfold recOutputs
    have hq := recNode_Q fn σ (fn.nTotal + 1) o s
    rcases hs : recNode fn σ (fn.nTotal + 1) o s with ⟨s', r, e⟩
    rw [hs] at hq
    cases e with
    | some e => exact hq
    | none =>
      cases r with
      | false => exact hq
      | true => exact hq.trans (ih true s')

theorem Inv_recursiveSteps (fn : FastNet W) (σ : Nat → W → Option W) {s : FState W} (h : Inv fn s) :
    Inv fn (recursiveSteps fn σ s).1 := by
  unfold recursiveSteps
  have hq := recOutputs_Q fn σ ((List.range fn.nOutput).map (· + fn.nSensor)) false (recInit fn s)
  refine ⟨hq.lenS.trans h.lenS, hq.lenP.trans h.lenP, fun i hb ht => ?_, fun i hi => ?_⟩
  · have hact : getB (recInit fn s).activated i = true := by
      simp only [recInit, getB_map_range, ht, if_true, FastNet.nSensor]
      exact decide_eq_true (by omega)
    rw [hq.sigKeep i hact]
    exact h.bias i hb ht
  · rw [hq.last]
    simp only [recInit, getW_map_range]
    split
    · rw [if_neg (by omega)]; exact h.last i hi
    · rfl

theorem length_connLoop (sig : List W) (cs : List (FLink W)) (p : List W) : (connLoop sig cs p).length = p.length := by
  induction cs generalizing p with
  | nil => rfl
  | cons c cs ih => unfold connLoop; rw [ih]; simp

theorem length_actLoop (fn : FastNet W) (σ : Nat → W → Option W) (is : List Nat) (p : List W) :
    (actLoop fn σ is p).1.length = p.length := by
  induction is generalizing p with
  | nil => rfl
  | cons i is ih =>
    unfold actLoop
    simp only
    split
    · simp
    · rw [ih]; simp

theorem moveLoop_props (delta : W) (check : Bool) (is : List Nat) (sig p : List W) (r : Bool) :
    (moveLoop delta check is sig p r).1.length = sig.length ∧
      (moveLoop delta check is sig p r).2.1.length = p.length ∧
      ∀ j, j ∉ is → getW (moveLoop delta check is sig p r).1 j = getW sig j := by
  induction is generalizing sig p r with
  | nil => exact ⟨rfl, rfl, fun _ _ => rfl⟩
  | cons i is ih =>
    unfold moveLoop
    simp only
    have := ih (sig.set i (getW p i)) (p.set i Scalar.zero)
      (if check then r && !(Scalar.lt delta (Scalar.abs (Scalar.sub (getW sig i) (getW p i)))) else r)
    refine ⟨by rw [this.1]; simp, by rw [this.2.1]; simp, fun j hj => ?_⟩
    rw [this.2.2 j (fun hm => hj (by simp [hm])), getW_set]
    split
    · next hc => exact absurd hc.1 (fun hji => hj (by simp [hji]))
    · rfl

theorem Inv_forwardStep (fn : FastNet W) (σ : Nat → W → Option W) (delta : W) {s : FState W} (h : Inv fn s) :
    Inv fn (forwardStep fn σ delta s).1 := by
  unfold forwardStep
  simp only
  have hl := length_actLoop fn σ (neuronIdx fn) (connLoop s.signals fn.conns s.processing)
  rw [length_connLoop] at hl
  rcases hs : actLoop fn σ (neuronIdx fn) (connLoop s.signals fn.conns s.processing) with ⟨p2, e⟩
  rw [hs] at hl
  simp only at hl
  cases e with
  | some e => exact ⟨h.lenS, hl.trans h.lenP, h.bias, h.last⟩
  | none =>
    have hm := moveLoop_props delta (!(Scalar.le delta Scalar.zero)) (neuronIdx fn) s.signals p2 true
    refine ⟨hm.1.trans h.lenS, hm.2.1.trans (hl.trans h.lenP), fun i hb ht => ?_, h.last⟩
    simp only
    rw [hm.2.2 i (fun hmem => neuronIdx_ge fn i hmem (by simp only [FastNet.nSensor]; omega))]
    exact h.bias i hb ht

theorem Inv_fwdLoop (fn : FastNet W) (σ : Nat → W → Option W) (k : Nat) (res : Bool) {s : FState W} (h : Inv fn s) :
    Inv fn (fwdLoop fn σ k res s).1 := by
  induction k generalizing res s with
  | zero => exact h
  | succ k ih =>
    unfold fwdLoop
    have hf := Inv_forwardStep fn σ Scalar.zero h
    rcases hs : forwardStep fn σ Scalar.zero s with ⟨s', r, e⟩
    rw [hs] at hf
    cases e with
    | some e => exact hf
    | none => exact ih r hf

theorem Inv_relaxLoop (fn : FastNet W) (σ : Nat → W → Option W) (delta : W) (k : Nat) (res : Bool) {s : FState W}
    (h : Inv fn s) : Inv fn (relaxLoop fn σ delta k res s).1 := by
  induction k generalizing res s with
  | zero => exact h
  | succ k ih =>
    unfold relaxLoop
    have hf := Inv_forwardStep fn σ delta h
    rcases hs : forwardStep fn σ delta s with ⟨s', r, e⟩
    rw [hs] at hf
    cases e with
    | some e => exact hf
    | none =>
      cases r with
      | true => exact hf
      | false => exact ih false hf

theorem loadLoop_props (base : Nat) (xs : List W) (k : Nat) (sig : List W) :
    (loadLoop base xs k sig).length = sig.length ∧ ∀ j, j < base → getW (loadLoop base xs k sig) j = getW sig j := by
  induction xs generalizing k sig with
  | nil => exact ⟨rfl, fun _ _ => rfl⟩
  | cons x xs ih =>
    unfold loadLoop
    have := ih (k + 1) (sig.set (base + k) x)
    refine ⟨by rw [this.1]; simp, fun j hj => ?_⟩
    rw [this.2 j hj, getW_set]
    split
    · next hc => omega
    · rfl

theorem Inv_step (fn : FastNet W) (σ : Nat → W → Option W) (op : Op W) {s : FState W} (h : Inv fn s) :
    Inv fn (step fn σ s op).1 := by
  cases op with
  | load xs =>
    simp only [step, loadSensors]
    split
    · have := loadLoop_props fn.nBias xs 0 s.signals
      exact ⟨this.1.trans h.lenS, h.lenP, fun i hb ht => by simp only; rw [this.2 i hb]; exact h.bias i hb ht, h.last⟩
    · exact h
  | forward n => exact Inv_fwdLoop fn σ _ false h
  | recursive => exact Inv_recursiveSteps fn σ h
  | relax n d => exact Inv_relaxLoop fn σ d _ false h
  | flush =>
    simp only [step, flush]
    refine ⟨by simp [zeroFrom, h.lenS], by simp [zeroFrom, h.lenP], fun i hb ht => ?_, h.last⟩
    simp only [zeroFrom, getW_map_range, h.lenS, ht, if_true]
    rw [if_neg (by omega)]
    exact h.bias i hb ht

theorem Inv_run (fn : FastNet W) (σ : Nat → W → Option W) (ops : List (Op W)) {s : FState W} (h : Inv fn s) :
    Inv fn (run fn σ ops s).1 := by
  induction ops generalizing s with
  | nil => exact h
  | cons op ops ih => exact ih (Inv_step fn σ op h)

/-- `Flush` of any state satisfying the invariant is equivalent to the freshly built solver -/
theorem flush_FE_init (fn : FastNet W) {s : FState W} (h : Inv fn s) : FE fn (flush fn s).1 (init fn) := by
  unfold flush init
  refine ⟨?_, ⟨by simp [zeroFrom, h.lenP], fun i hi => ?_⟩, fun i hi => ?_⟩
  · simp only [zeroFrom, h.lenS]
    apply List.map_congr_left
    intro i hi
    have hi' : i < fn.nTotal := by simpa using hi
    by_cases hb : i < fn.nBias
    · simp only [hb, if_true]
      rw [if_neg (by omega)]
      exact h.bias i hb hi'
    · simp only [hb, if_false]
      rw [if_pos (by omega)]
  · simp only [zeroFrom, getW_map_range, getW_replicate_zero, h.lenP]
    split
    · rw [if_pos (Nat.zero_le i)]
    · rfl
  · simp only [getW_replicate_zero]
    exact h.last i hi

/-- after repair 1a387d5 `Flush` restores the WHOLE processing array of the fresh solver (bias cells included) -/
theorem flush_processing_init (fn : FastNet W) {s : FState W} (hl : s.processing.length = fn.nTotal) :
    (flush fn s).1.processing = (init fn).processing := by
  unfold flush init
  simp only [zeroFrom, hl]
  apply List.ext_getElem
  · simp
  · intro i h1 h2
    simp

end GoNeat.Fast
