/-
  C17 support, part 3: the error twin of prefix determinism.  A model error `.error (.error e)` (a Go panic or
  an error return — NOT the exhaustion of the supplied raw stream) is also determined by a prefix of the stream.
-/
import GoNeat.Proofs.PrefixDet2

namespace GoNeat
open Scalar

/-- an error (other than running out of random numbers) depends only on a prefix of the stream -/
def ErrPrefixDet {α : Type} (m : Rand α) : Prop :=
  ∀ rs e, m rs = .error (.error e) →
    ∃ used tail, rs = used ++ tail ∧ ∀ rs', m (used ++ rs') = .error (.error e)

/-- the computation never fails with a model error (it can only run out of random numbers) -/
def NoErr {α : Type} (m : Rand α) : Prop := ∀ rs e, m rs ≠ .error (.error e)

theorem NoErr.toErrPrefixDet {α} {m : Rand α} (h : NoErr m) : ErrPrefixDet m :=
  fun rs e he => absurd he (h rs e)

/-! ### closure lemmas -/

theorem ErrPrefixDet.pure' {α} (a : α) : ErrPrefixDet (Rand.pure' a) := by
  intro rs e h; cases h

theorem ErrPrefixDet.fail {α} (e : String) : ErrPrefixDet (Rand.fail (α := α) e) := by
  intro rs e' h
  exact ⟨[], rs, rfl, fun _ => h⟩

theorem ErrPrefixDet.ok_fun {α} (v : α) : ErrPrefixDet (fun rs => (Except.ok (v, rs) : R α)) := by
  intro rs e h; cases h

theorem ErrPrefixDet.error_fun {α} (x : Stop) : ErrPrefixDet (fun _ => (Except.error x : R α)) := by
  intro rs e h
  exact ⟨[], rs, rfl, fun _ => h⟩

theorem ErrPrefixDet.of_cont {α β} (m : Rand α) (K : R α → R β)
    (hm : PrefixDet m) (hme : ErrPrefixDet m)
    (herr : ∀ x, K (.error x) = .error x)
    (hok : ∀ a, ErrPrefixDet (fun rs => K (.ok (a, rs)))) :
    ErrPrefixDet (fun rs => K (m rs)) := by
  intro rs e h
  replace h : K (m rs) = .error (.error e) := h
  cases hm' : m rs with
  | error x =>
    rw [hm', herr] at h
    cases h
    obtain ⟨u, t, rfl, rep⟩ := hme _ _ hm'
    refine ⟨u, t, rfl, fun rs' => ?_⟩
    show K (m (u ++ rs')) = _
    rw [rep, herr]
  | ok p =>
    obtain ⟨a, rs1⟩ := p
    rw [hm'] at h
    obtain ⟨u1, rfl, rep1⟩ := hm _ _ _ hm'
    obtain ⟨u2, t, rfl, rep2⟩ := hok a rs1 e h
    refine ⟨u1 ++ u2, t, by simp, fun rs' => ?_⟩
    show K (m ((u1 ++ u2) ++ rs')) = _
    rw [List.append_assoc, rep1]
    exact rep2 rs'

theorem ErrPrefixDet.bind' {α β} {m : Rand α} {f : α → Rand β} (hm : PrefixDet m) (hme : ErrPrefixDet m)
    (hf : ∀ a, ErrPrefixDet (f a)) : ErrPrefixDet (Rand.bind' m f) :=
  ErrPrefixDet.of_cont m (fun r => match r with | .error e => .error e | .ok (a, rs') => f a rs') hm hme
    (fun _ => rfl) (fun a => hf a)

theorem ErrPrefixDet.ite_fun {α} (c : Prop) [Decidable c] {m₁ m₂ : Rand α} (h₁ : ErrPrefixDet m₁) (h₂ : ErrPrefixDet m₂) :
    ErrPrefixDet (fun rs => if c then m₁ rs else m₂ rs) := by
  by_cases hc : c
  · simpa [hc] using h₁
  · simpa [hc] using h₂

theorem ErrPrefixDet.liftExcept {α} (x : Except Stop α) : ErrPrefixDet (Rand.liftExcept x) := by
  cases x with
  | error e => exact ErrPrefixDet.error_fun e
  | ok a => exact ErrPrefixDet.ok_fun a

theorem ErrPrefixDet.eta {α} {m : Rand α} (h : ErrPrefixDet (fun rs => m rs)) : ErrPrefixDet m := h

/-- two streams that agree on the error-determining prefix fail with the same error -/
theorem errPrefixDet_agree {α} {m : Rand α} (hm : ErrPrefixDet m) {rs : List Nat} {e : String}
    (h : m rs = .error (.error e)) :
    ∃ used tail, rs = used ++ tail ∧ ∀ rs', m (used ++ rs') = .error (.error e) := hm rs e h

/-! ### the primitives -/

namespace Rand

theorem int63_noErr : NoErr int63 := by
  intro rs e h
  cases rs <;> cases h

theorem float64_noErr {W} [Scalar W] : NoErr (float64 (W := W)) := by
  intro rs
  induction rs with
  | nil => intro e h; cases h
  | cons x rs ih =>
    intro e h
    simp only [float64] at h
    split at h
    · exact ih e h
    · cases h

theorem float32Ge03_noErr (W) [Scalar W] : NoErr (float32Ge03 W) := by
  intro rs
  induction rs with
  | nil => intro e h; cases h
  | cons x rs ih =>
    intro e h
    simp only [float32Ge03] at h
    split at h
    · exact ih e h
    · split at h
      · exact ih e h
      · cases h

theorem int31nLoop_noErr (n max : Nat) : NoErr (int31nLoop n max) := by
  intro rs
  induction rs with
  | nil => intro e h; cases h
  | cons x rs ih =>
    intro e h
    simp only [int31nLoop] at h
    split at h
    · exact ih e h
    · cases h

theorem randSign_noErr : NoErr randSign := by
  intro rs e h
  cases rs <;> cases h

theorem int63_errPrefixDet : ErrPrefixDet int63 := int63_noErr.toErrPrefixDet
theorem float64_errPrefixDet {W} [Scalar W] : ErrPrefixDet (float64 (W := W)) := float64_noErr.toErrPrefixDet
theorem float32Ge03_errPrefixDet (W) [Scalar W] : ErrPrefixDet (float32Ge03 W) := (float32Ge03_noErr W).toErrPrefixDet
theorem int31nLoop_errPrefixDet (n max : Nat) : ErrPrefixDet (int31nLoop n max) := (int31nLoop_noErr n max).toErrPrefixDet
theorem randSign_errPrefixDet : ErrPrefixDet randSign := randSign_noErr.toErrPrefixDet

/-- `intn` fails exactly for `n = 0`, whatever the stream -/
theorem intn_errPrefixDet (n : Nat) : ErrPrefixDet (intn n) := by
  intro rs e h
  by_cases h0 : n = 0
  · refine ⟨[], rs, rfl, fun rs' => ?_⟩
    subst h0
    simp only [intn, if_true] at h ⊢
    exact h
  · exfalso
    unfold intn at h
    simp only [h0, if_false] at h
    split at h
    · cases rs <;> cases h
    · exact int31nLoop_noErr _ _ _ _ h

end Rand

/-! ### the decomposition tactic for `ErrPrefixDet` (twin of `pd_auto`) -/

syntax "epd_leaf" : tactic
macro_rules | `(tactic| epd_leaf) => `(tactic| with_reducible apply_assumption)

section Tactic
open Lean Meta Elab Tactic

/-- `ErrPrefixDet (fun rs => match d[rs] with alts)`: the sub-computation `fun rs => d[rs]` must be `PrefixDet`
    (closed by `pd_auto`) and `ErrPrefixDet`; errors must be propagated unchanged (closed by `rfl`); one goal per
    success alternative -/
elab "epd_cont" : tactic => withMainContext do
  let g ← getMainGoal
  let tgt ← instantiateMVars (← g.getType)
  unless tgt.isAppOfArity ``ErrPrefixDet 2 do throwError "epd_cont: goal is not ErrPrefixDet"
  let f := tgt.appArg!
  unless f.isLambda do throwError "epd_cont: not a lambda"
  let (m, K) ← lambdaBoundedTelescope f 1 fun xs body => do
    let rs := xs[0]!
    let body := body.headBeta
    let some d ← findRsDiscr body rs.fvarId! | throwError "epd_cont: no discriminant mentions the stream"
    let m ← mkLambdaFVars #[rs] d
    let bodyAbs ← kabstract body d
    if bodyAbs.containsFVar rs.fvarId! then throwError "epd_cont: the stream is used outside the discriminant"
    let K := Lean.mkLambda `r .default (← inferType d) bodyAbs
    return (m, K)
  let e ← mkAppM ``ErrPrefixDet.of_cont #[m, K]
  let newGoals ← g.apply e
  match newGoals with
  | [gpd, gm, gerr, gok] =>
    let gpds ← Tactic.run gpd do evalTactic (← `(tactic| pd_auto))
    unless gpds.isEmpty do throwError "epd_cont: could not prove PrefixDet of the sub-computation"
    let gerrs ← Tactic.run gerr do evalTactic (← `(tactic| (intro x; rfl)))
    let (a, gok') ← gok.intro `a
    let goks ← destructLoop gok' [a]
    let mut out := []
    for g' in goks do
      out := out ++ (← Tactic.run g' do evalTactic (← `(tactic| dsimp only)))
    replaceMainGoal ([gm] ++ gerrs ++ out)
  | _ => throwError "epd_cont: unexpected number of goals"

elab "epd_step" : tactic => withMainContext do
  let g ← getMainGoal
  let tgt ← instantiateMVars (← g.getType)
  let tgt := tgt.consumeMData
  if tgt.isForall then
    let (_, g') ← g.intro1
    replaceMainGoal [g']
    return
  unless tgt.isAppOfArity ``ErrPrefixDet 2 do throwError "epd_step: goal is not ErrPrefixDet"
  let f := tgt.appArg!
  unless f.isLambda do
    evalTactic (← `(tactic| epd_leaf))
    return
  let kind : Nat × Option Expr ← lambdaBoundedTelescope f 1 fun xs body => do
    let rs := xs[0]!
    let body := body.consumeMData
    if body.isLet then
      let b' := (body.letBody!.instantiate1 body.letValue!).headBeta
      let f' ← mkLambdaFVars #[rs] b'
      return (0, some (mkApp tgt.appFn! f'))
    if body.isHeadBetaTarget then
      let f' ← mkLambdaFVars #[rs] body.headBeta
      return (0, some (mkApp tgt.appFn! f'))
    if body.isAppOf ``Except.ok then return (1, none)
    if body.isAppOf ``Except.error then return (2, none)
    if body.isAppOf ``ite then return (3, none)
    match ← matchMatcherApp? body with
    | some app =>
      if app.discrs.any (·.containsFVar rs.fvarId!) then return (4, none) else return (5, none)
    | none =>
      if body.isApp && body.appArg! == rs && !(body.appFn!.containsFVar rs.fvarId!) then
        return (6, some (mkApp tgt.appFn! body.appFn!))
      else return (7, none)
  match kind with
  | (0, some t) => replaceMainGoal [← g.replaceTargetDefEq t]
  | (1, _) => evalTactic (← `(tactic| exact ErrPrefixDet.ok_fun _))
  | (2, _) => evalTactic (← `(tactic| exact ErrPrefixDet.error_fun _))
  | (3, _) => evalTactic (← `(tactic| apply ErrPrefixDet.ite_fun))
  | (4, _) => evalTactic (← `(tactic| epd_cont))
  | (5, _) => evalTactic (← `(tactic| split))
  | (6, some t) =>
    replaceMainGoal [← g.replaceTargetDefEq t]
    evalTactic (← `(tactic| epd_leaf))
  | _ => evalTactic (← `(tactic| epd_leaf))

end Tactic

syntax "epd_auto" : tactic
macro_rules | `(tactic| epd_auto) => `(tactic| repeat' epd_step)

syntax "epd_unfold " ident : tactic
macro_rules | `(tactic| epd_unfold $f) => `(tactic| (refine ErrPrefixDet.eta ?_; simp only [$f:ident]))

macro_rules | `(tactic| epd_leaf) => `(tactic| with_reducible exact Rand.int63_errPrefixDet)
macro_rules | `(tactic| epd_leaf) => `(tactic| with_reducible exact Rand.float64_errPrefixDet)
macro_rules | `(tactic| epd_leaf) => `(tactic| with_reducible exact Rand.float32Ge03_errPrefixDet _)
macro_rules | `(tactic| epd_leaf) => `(tactic| with_reducible exact Rand.int31nLoop_errPrefixDet _ _)
macro_rules | `(tactic| epd_leaf) => `(tactic| with_reducible exact Rand.intn_errPrefixDet _)
macro_rules | `(tactic| epd_leaf) => `(tactic| with_reducible exact Rand.randSign_errPrefixDet)

variable {W : Type} [Scalar W]

theorem Rand.signedUnit_errPrefixDet : ErrPrefixDet (Rand.signedUnit (W := W)) := by
  unfold Rand.signedUnit
  epd_auto

macro_rules | `(tactic| epd_leaf) => `(tactic| with_reducible exact Rand.signedUnit_errPrefixDet)

end GoNeat
