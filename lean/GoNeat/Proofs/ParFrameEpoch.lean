/-
  C16(b): from the goroutines' postconditions and the global invariant at the join to the population-level
  invariants of C01 (`PoolOk`) and C03 (`Inv` for the history extended by the babies).
-/
import GoNeat.Proofs.ParFrameSpecies

set_option linter.unusedSectionVars false
set_option linter.unusedVariables false

namespace GoNeat.C16
open GoNeat GoNeat.C03 GoNeat.C01 Scalar
variable {W : Type} [Scalar W]

theorem ioIds_lstep {g g' : Genome W} (h : LStep g g') (hw : WFT g) (hw' : WFT g') : ioIds g' = ioIds g := by
  apply sorted_ext _ _ (ioIds_sorted g' hw'.wf.nodesSorted) (ioIds_sorted g hw.wf.nodesSorted)
  intro i
  rw [mem_ioIds, mem_ioIds]
  constructor
  · rintro ⟨m, hm, hk, e⟩
    rcases h.nodesNew m hm with ⟨n, hn, e1, e2⟩ | hk'
    · exact ⟨n, hn, by rw [e2]; exact hk, by rw [e1]; exact e⟩
    · exact absurd hk' hk
  · rintro ⟨n, hn, hk, e⟩
    obtain ⟨m, hm, e1, e2⟩ := h.nodesOld n hn
    exact ⟨m, hm, by rw [e2]; exact hk, by rw [e1]; exact e⟩

/-- what is known at the join about a member of the new pool -/
structure MemberOk (reg0 : Reg W) (P0 : List (Genome W)) (G : Ghost) (m : Genome W) : Prop where
  wft : WFT m
  src : ∃ g0, Fits reg0 P0 g0 ∧ LStep g0 m
  wit : ∃ x, x ∈ P0
  B : ∀ x ∈ m.genes, geneBind x ∈ G.B
  R : ∀ n ∈ m.nodes, nodeRole n ∈ G.R

/-- **the pool invariant of C01 at the join**: the genomes of the epoch's start together with all babies -/
theorem poolOk_join {reg0 regF : Reg W} {P0 : List (Genome W)} {G : Ghost} (hglob : GlobOk reg0.nextInn regF G)
    (Pf : List (Genome W)) (hm : ∀ m ∈ Pf, MemberOk reg0 P0 G m) : PoolOk regF Pf := by
  intro m hmP
  obtain ⟨wm, ⟨g0m, fm, sm⟩, ⟨x, hx⟩, bm, rm⟩ := hm m hmP
  have hdm : HeadLe reg0.nextInn m := (fits_headLe fm).of_step sm
  refine ⟨wm, by rw [sm.mods]; exact fm.nomod, regInv_of_invB hglob.inv bm rm, ?_, ?_, ?_⟩
  · intro h0 hh i hi
    have hle := hdm h0 hh
    refine ⟨fun _ => ?_, fun t1 => ⟨?_, ?_⟩⟩
    · have := hglob.rec_above _ (mem_regInns hi (inn_mem_recInns i)); omega
    · have := hglob.rec_above _ (mem_regInns hi (inn_mem_recInns i)); omega
    · have := hglob.rec_above _ (mem_regInns hi (inn2_mem_recInns i t1)); omega
  · intro b hb
    obtain ⟨wb, ⟨g0b, fb, sb⟩, _, bb, rb⟩ := hm b hb
    refine ⟨fun n hn k hk e => ?_, ?_, ?_⟩
    · exact hglob.inv.roles _ (rm n hn) _ (rb k hk) e
    · rw [sm.tids, sb.tids, (fm.nodes x hx).2.1, (fb.nodes x hx).2.1]
    · rw [ioIds_lstep sm fm.wft wm, ioIds_lstep sb fb.wft wb, (fm.nodes x hx).2.2, (fb.nodes x hx).2.2]
  · intro b hb
    obtain ⟨wb, ⟨g0b, fb, sb⟩, _, bb, rb⟩ := hm b hb
    unfold SharedHead
    rw [sm.head, sb.head]
    exact (fm.head x hx).trans (fb.head x hx).symm

/-- **C03's invariant at the end of the epoch** (records cleared): for any collection of genomes whose bindings the
    global view holds -/
theorem inv_cleared {bi : Int} {regF : Reg W} {G : Ghost} (hglob : GlobOk bi regF G) (Hf : List (Genome W))
    (hB : ∀ b ∈ binds Hf, b ∈ G.B) (hR : ∀ p ∈ roles Hf, p ∈ G.R) : C03.Inv ({ regF with records := [] } : Reg W) Hf :=
  { genes := fun a ha b hb e => hglob.inv.genes a (hB a ha) b (hB b hb) e,
    roles := fun a ha b hb e => hglob.inv.roles a (hR a ha) b (hR b hb) e,
    compat := { recs := fun i hi => by simp at hi, innsNodup := by simp [regInns_def], nodesNodup := by simp [regNodes_def] },
    above := { inns := fun b hb => hglob.inv.above.inns b (hB b hb), ids := fun p hp => hglob.inv.above.ids p (hR p hp),
               recInns := by simp [regInns_def], recNodes := by simp [regNodes_def] } }

/-! ### the channel -/

theorem collect_mem (threads : List (Prog W (BRes W))) (arrival : List Nat) (babies : List (Org W))
    (h : collect threads arrival = .ok babies) :
    ∀ b ∈ babies, ∃ (t : Nat) (bs : List (Org W)) (uid : Nat) (rs' : List Nat), threads[t]? = some (Prog.done (Except.ok ((bs, uid), rs'))) ∧ b ∈ bs := by
  induction arrival generalizing babies with
  | nil => simp only [collect, Except.ok.injEq] at h; subst h; simp
  | cons t ts ih =>
    unfold collect at h
    split at h
    · rename_i bs uid rs' ht
      split at h
      · cases h
      · rename_i rest hrest
        simp only [Except.ok.injEq] at h
        subst h
        intro b hb
        rcases List.mem_append.mp hb with hb | hb
        · exact ⟨t, bs, uid, rs', ht, hb⟩
        · exact ih rest hrest b hb
    · cases h
    · cases h

theorem decodeAll_spec (uid : Nat) (babies : List (Org W)) :
    (decodeAll uid babies).map (·.uid) = List.range' uid babies.length ∧
    (decodeAll uid babies).map (·.genome) = babies.map (·.genome) := by
  induction babies generalizing uid with
  | nil => exact ⟨rfl, rfl⟩
  | cons b bs ih =>
    obtain ⟨h1, h2⟩ := ih (uid + 1)
    simp only [decodeAll, List.map_cons, List.length_cons, List.range'_succ, h1, h2]
    exact ⟨rfl, rfl⟩

/-! ### the parallel reproduction phase -/

def specPost (reg0 : Reg W) (P0 H : List (Genome W)) (species : List (Species W)) (t : Nat) : Local W → BRes W → Prop :=
  match species[t]? with
  | some s => SpeciesPost reg0 P0 s.expectedOffspring.toNat (view0 H)
  | none => fun _ _ => True

theorem epochCtx_of (X H : List (Genome W)) (p1 : Pop W) (hP1 : PoolOk p1.reg (X ++ genomesOfPop p1)) (hc1 : PopC03 H p1)
    (hX : ∀ g ∈ X, GenomeIn H g) : EpochCtx p1.reg H (X ++ genomesOfPop p1) := by
  refine ⟨hc1.inv, hP1, fun g hg => ?_⟩
  rcases List.mem_append.mp hg with hx | hg
  · exact hX g hx
  · obtain ⟨s, hs, x, hx, rfl⟩ := mem_genomesOfPop.mp hg
    exact hc1.cov s hs x hx

/-- the start of the parallel phase is covered: invariant + every goroutine's obligation -/
theorem species_start_covered (X H : List (Genome W)) (o : EpochOpts W) (generation : Int) (p1 : Pop W) (ex : ExecState)
    (streams : List (List Nat)) (hP1 : PoolOk p1.reg (X ++ genomesOfPop p1)) (hc1 : PopC03 H p1) (hX : ∀ g ∈ X, GenomeIn H g) :
    Covered p1.reg.nextInn (specPost p1.reg (X ++ genomesOfPop p1) H p1.species) (binds H) (roles H)
      ({ reg := p1.reg, threads := speciesThreads o generation p1 ex streams } : PState W (BRes W)) := by
  have ctx := epochCtx_of X H p1 hP1 hc1 hX
  refine ⟨⟨binds H, roles H, [], []⟩, fun _ => view0 H, ?_, ?_⟩
  · refine ⟨⟨hc1.inv, by simp, by simp, by simp, by simp, by simp, by simp, by simp, by simp,
              by simp [regInns_def, hc1.norec], by simp, Int.le_refl _⟩,
            fun t => ⟨fun _ hb => hb, fun _ hp => hp, by simp [view0], by simp [view0], by simp [view0]⟩,
            fun _ hb => .inl hb, fun _ hp => .inl hp, fun _ hb => hb, fun _ hp => hp⟩
  · intro t q hq
    simp only [speciesThreads, List.getElem?_map, List.getElem?_zipIdx] at hq
    cases hs : p1.species[t]? with
    | none => rw [hs] at hq; cases hq
    | some s =>
      rw [hs] at hq
      simp only [Option.map_some, Option.some.injEq] at hq
      subst hq
      have hsm : s ∈ p1.species := List.mem_of_getElem? hs
      unfold specPost
      rw [hs]
      refine reproduceSpeciesP_valid ctx o generation s _ p1.reg p1.nextUid _ (view0 H)
        (fun x hx => List.mem_append_right _ (mem_genomesOfPop.mpr ⟨s, hsm, x, hx, rfl⟩))
        (fun sp hsp x hx => ?_) ⟨fun _ hb => hb, fun _ hp => hp⟩
      obtain ⟨i, _, hi⟩ := List.mem_filterMap.mp hsp
      exact List.mem_append_right _ (mem_genomesOfPop.mpr ⟨sp, List.mem_of_find?_eq_some hi, x, hx, rfl⟩)

/-- **every species goroutine delivers exactly its quota of well-formed babies - under every schedule** -/
theorem parSpecies_delivers (X H : List (Genome W)) (o : EpochOpts W) (generation : Int) (p1 : Pop W) (ex : ExecState)
    (streams : List (List Nat)) (sched : List Nat) (hP1 : PoolOk p1.reg (X ++ genomesOfPop p1)) (hc1 : PopC03 H p1)
    (hX : ∀ g ∈ X, GenomeIn H g) (t : Nat) (bs : List (Org W)) (uid : Nat) (rs' : List Nat)
    (hdone : (runSched ({ reg := p1.reg, threads := speciesThreads o generation p1 ex streams } : PState W (BRes W)) sched).threads[t]?
        = some (Prog.done (Except.ok ((bs, uid), rs')))) :
    ∃ s, p1.species[t]? = some s ∧ bs.length = s.expectedOffspring.toNat ∧ ∀ b ∈ bs, WFT b.genome := by
  obtain ⟨G, Ls, hg, hpost⟩ := flush_all (sched_sound sched (species_start_covered X H o generation p1 ex streams hP1 hc1 hX))
  have hp := hpost t _ hdone
  have htl : t < p1.species.length := by
    have : t < (runSched ({ reg := p1.reg, threads := speciesThreads o generation p1 ex streams } : PState W (BRes W)) sched).threads.length := by
      rcases Nat.lt_or_ge t _ with h' | h'
      · exact h'
      · rw [List.getElem?_eq_none h'] at hdone; cases hdone
    rw [runSched_length] at this
    simpa [speciesThreads] using this
  unfold specPost at hp
  rw [List.getElem?_eq_getElem htl] at hp
  exact ⟨_, List.getElem?_eq_getElem htl, hp.2.2, fun b hb => (hp.2.1 b hb).wft⟩

/-- what the join knows: the babies (exactly `PopSize`, in order of arrival), the final registry and a global view `G`
    that satisfies the invariant, holds the whole history and every baby -/
theorem parReproduce_facts (X H : List (Genome W)) (o : EpochOpts W) (generation : Int) (p1 p2 : Pop W) (ex : ExecState)
    (ps : ParSchedule) (hP1 : PoolOk p1.reg (X ++ genomesOfPop p1)) (hc1 : PopC03 H p1) (hX : ∀ g ∈ X, GenomeIn H g)
    (h : parReproducePhase o generation p1 ex ps = .ok p2) :
    ∃ (babies : List (Org W)) (regF : Reg W) (G : Ghost),
      babies.length = o.popSize ∧
      speciate o { p1 with reg := regF } (decodeAll p1.nextUid babies) = .ok p2 ∧
      GlobOk p1.reg.nextInn regF G ∧ (∀ b ∈ binds H, b ∈ G.B) ∧ (∀ r ∈ roles H, r ∈ G.R) ∧
      (∀ b ∈ babies, MemberOk p1.reg (X ++ genomesOfPop p1) G b.genome) ∧
      p1.reg.nextInn ≤ regF.nextInn ∧ p1.reg.nextNode ≤ regF.nextNode := by
  unfold parReproducePhase at h
  simp only at h
  split at h
  · cases h
  split at h
  · cases h
  rename_i babies hcol
  split at h
  · cases h
  rename_i hlen
  have hcov := species_start_covered X H o generation p1 ex ps.streams hP1 hc1 hX
  obtain ⟨G, Ls, hg, hpost⟩ := flush_all (sched_sound ps.sched hcov)
  have hmono := runSched_mono ps.sched ({ reg := p1.reg, threads := speciesThreads o generation p1 ex ps.streams } : PState W (BRes W))
  refine ⟨babies, _, G, by simpa using hlen, h, hg.glob, hg.baseB, hg.baseR, ?_, hmono.1, hmono.2.1⟩
  intro b hb
  obtain ⟨t, bs, uid, rs', ht, hbm⟩ := collect_mem _ _ _ hcol b hb
  have hp := hpost t _ ht
  have htl : t < p1.species.length := by
    have : t < (runSched ({ reg := p1.reg, threads := speciesThreads o generation p1 ex ps.streams } : PState W (BRes W)) ps.sched).threads.length := by
      rcases Nat.lt_or_ge t _ with h' | h'
      · exact h'
      · rw [List.getElem?_eq_none h'] at ht; cases ht
    rw [runSched_length] at this
    simpa [speciesThreads] using this
  unfold specPost at hp
  rw [List.getElem?_eq_getElem htl] at hp
  obtain ⟨_, hall, _⟩ := hp
  have hgo := hall b hbm
  exact ⟨hgo.wft, hgo.src, hgo.wit, fun x hx => (hg.loc t).subB _ (hgo.holds.B x hx),
         fun n hn => (hg.loc t).subR _ (hgo.holds.R n hn)⟩

end GoNeat.C16
