/-
  Helper lemmas for C13 on the fast solver WITH modules (Model/FastSolverMod.lean).

  A. refinement: for `modules = []` every operation is the operation of Model/FastSolver.lean;
  B. `modules ≠ []`: `RecursiveSteps` is refused, so `activated`, `inActivation`, `lastActivation` are never read or
     written: the observable state is (`neuronSignals`, `neuronSignalsBeingProcessed`) - relation `SP`; every
     operation respects it; reachable states satisfy `InvM` (array lengths, bias signals 1, and - if nothing writes
     them, `biasCellsUnwritten` - the processing cells of bias neurons stay 0, the one part of the arrays `Flush`
     does not reset); hence `Flush` of a reachable state is `SP`-equal to the fresh state.
  Kind A: no arithmetic law.
-/
import GoNeat.Proofs.FastFlush
import GoNeat.Model.FastSolverMod

set_option linter.unusedSectionVars false
set_option linter.unusedVariables false

namespace GoNeat.FastMod
open GoNeat.Solver (Err)
open GoNeat.Fast

variable {W : Type} [Scalar W]

/-! ## A. refinement -/

theorem forwardStep_refine (fm : FastModNet W) (σ : Nat → W → Option W) (μ : Nat → List W → Option (List W))
    (h : fm.modules = []) (delta : W) (s : FState W) :
    FastMod.forwardStep fm σ μ delta s = Fast.forwardStep fm.base σ delta s := by
  unfold FastMod.forwardStep Fast.forwardStep
  simp only [h, modLoop]
  rcases actLoop fm.base σ (neuronIdx fm.base) (connLoop s.signals fm.base.conns s.processing) with ⟨p2, _ | e⟩ <;> rfl

theorem fwdLoop_refine (fm : FastModNet W) (σ : Nat → W → Option W) (μ : Nat → List W → Option (List W))
    (h : fm.modules = []) (k : Nat) (res : Bool) (s : FState W) :
    FastMod.fwdLoop fm σ μ k res s = Fast.fwdLoop fm.base σ k res s := by
  induction k generalizing res s with
  | zero => rfl
  | succ k ih =>
    unfold FastMod.fwdLoop Fast.fwdLoop
    rw [forwardStep_refine fm σ μ h]
    simp only [ih]
    rfl

theorem relaxLoop_refine (fm : FastModNet W) (σ : Nat → W → Option W) (μ : Nat → List W → Option (List W))
    (h : fm.modules = []) (delta : W) (k : Nat) (res : Bool) (s : FState W) :
    FastMod.relaxLoop fm σ μ delta k res s = Fast.relaxLoop fm.base σ delta k res s := by
  induction k generalizing res s with
  | zero => rfl
  | succ k ih =>
    unfold FastMod.relaxLoop Fast.relaxLoop
    rw [forwardStep_refine fm σ μ h]
    simp only [ih]
    rfl

/-- for a solver without modules one call of the modular model is the call of Model/FastSolver.lean -/
theorem step_refine (fm : FastModNet W) (σ : Nat → W → Option W) (μ : Nat → List W → Option (List W))
    (h : fm.modules = []) (s : FState W) (op : Op W) :
    FastMod.step fm σ μ s op = Fast.step fm.base σ s op := by
  cases op with
  | load xs => rfl
  | forward n => exact fwdLoop_refine fm σ μ h _ false s
  | recursive => simp [FastMod.step, Fast.step, FastMod.recursiveSteps, h]
  | relax n d => exact relaxLoop_refine fm σ μ h d _ false s
  | flush => rfl

theorem run_refine (fm : FastModNet W) (σ : Nat → W → Option W) (μ : Nat → List W → Option (List W))
    (h : fm.modules = []) (ops : List (Op W)) (s : FState W) :
    FastMod.run fm σ μ ops s = Fast.run fm.base σ ops s := by
  induction ops generalizing s with
  | nil => rfl
  | cons op ops ih => simp only [FastMod.run, Fast.run, step_refine fm σ μ h, ih]

/-- translation: a network without control nodes gets the `FastNet` of `Fast.ofNet` and no modules -/
theorem ofNet_refine (net : Net W) (h : net.ctrl = []) :
    FastMod.ofNet net = (Fast.ofNet net).map fun fn => { base := fn, modules := [] } := by
  have hf : SolverMod.flat net = net := by cases net; simp_all [SolverMod.flat]
  unfold FastMod.ofNet Fast.ofNet
  simp only [hf, h, ctrlMods]
  split
  · rfl
  · split
    · rfl
    · rcases procIncoming net _ (idxOfKind net Kind.input) _ [] with e | ⟨b1, c1⟩
      · rfl
      · simp only
        rcases procIncoming net _ (idxOfKind net Kind.hidden) b1 c1 with e | ⟨b2, c2⟩
        · rfl
        · simp only
          rcases procIncoming net _ net.outputs b2 c2 with e | ⟨b3, c3⟩ <;> rfl

/-! ## B. solvers with modules -/

/-- equality of the two signal arrays (everything a solver with modules can observe) -/
structure SP (s t : FState W) : Prop where
  signals : s.signals = t.signals
  processing : s.processing = t.processing

theorem SP.refl (s : FState W) : SP s s := ⟨rfl, rfl⟩

theorem forwardStep_SP (fm : FastModNet W) (σ : Nat → W → Option W) (μ : Nat → List W → Option (List W)) (delta : W)
    {s t : FState W} (h : SP s t) :
    SP (FastMod.forwardStep fm σ μ delta s).1 (FastMod.forwardStep fm σ μ delta t).1 ∧
      (FastMod.forwardStep fm σ μ delta s).2 = (FastMod.forwardStep fm σ μ delta t).2 := by
  unfold FastMod.forwardStep
  simp only [h.signals, h.processing]
  rcases actLoop fm.base σ (neuronIdx fm.base) (connLoop t.signals fm.base.conns t.processing) with ⟨p2, _ | e⟩
  · simp only
    rcases modLoop μ fm.modules p2 with ⟨p3, _ | e⟩
    · exact ⟨⟨rfl, rfl⟩, rfl⟩
    · exact ⟨⟨rfl, rfl⟩, rfl⟩
  · exact ⟨⟨rfl, rfl⟩, rfl⟩

theorem fwdLoop_SP (fm : FastModNet W) (σ : Nat → W → Option W) (μ : Nat → List W → Option (List W)) (k : Nat)
    (res : Bool) {s t : FState W} (h : SP s t) :
    SP (FastMod.fwdLoop fm σ μ k res s).1 (FastMod.fwdLoop fm σ μ k res t).1 ∧
      (FastMod.fwdLoop fm σ μ k res s).2 = (FastMod.fwdLoop fm σ μ k res t).2 := by
  induction k generalizing res s t with
  | zero => exact ⟨h, rfl⟩
  | succ k ih =>
    unfold FastMod.fwdLoop
    have hf := forwardStep_SP fm σ μ Scalar.zero h
    rcases hs : FastMod.forwardStep fm σ μ Scalar.zero s with ⟨s', r, e⟩
    rcases ht : FastMod.forwardStep fm σ μ Scalar.zero t with ⟨t', r', e'⟩
    rw [hs, ht] at hf
    simp only [Prod.mk.injEq] at hf
    obtain ⟨hf1, rfl, rfl⟩ := hf
    cases e with
    | some e => exact ⟨hf1, rfl⟩
    | none => exact ih r hf1

theorem relaxLoop_SP (fm : FastModNet W) (σ : Nat → W → Option W) (μ : Nat → List W → Option (List W)) (delta : W)
    (k : Nat) (res : Bool) {s t : FState W} (h : SP s t) :
    SP (FastMod.relaxLoop fm σ μ delta k res s).1 (FastMod.relaxLoop fm σ μ delta k res t).1 ∧
      (FastMod.relaxLoop fm σ μ delta k res s).2 = (FastMod.relaxLoop fm σ μ delta k res t).2 := by
  induction k generalizing res s t with
  | zero => exact ⟨h, rfl⟩
  | succ k ih =>
    unfold FastMod.relaxLoop
    have hf := forwardStep_SP fm σ μ delta h
    rcases hs : FastMod.forwardStep fm σ μ delta s with ⟨s', r, e⟩
    rcases ht : FastMod.forwardStep fm σ μ delta t with ⟨t', r', e'⟩
    rw [hs, ht] at hf
    simp only [Prod.mk.injEq] at hf
    obtain ⟨hf1, rfl, rfl⟩ := hf
    cases e with
    | some e => exact ⟨hf1, rfl⟩
    | none =>
      cases r with
      | true => exact ⟨hf1, rfl⟩
      | false => exact ih false hf1

theorem step_SP (fm : FastModNet W) (σ : Nat → W → Option W) (μ : Nat → List W → Option (List W))
    (hm : fm.modules ≠ []) (op : Op W) {s t : FState W} (h : SP s t) :
    SP (FastMod.step fm σ μ s op).1 (FastMod.step fm σ μ t op).1 ∧
      (FastMod.step fm σ μ s op).2 = (FastMod.step fm σ μ t op).2 := by
  cases op with
  | load xs =>
    simp only [FastMod.step, loadSensors]
    split
    · exact ⟨⟨by simp only [h.signals], h.processing⟩, rfl⟩
    · exact ⟨h, rfl⟩
  | forward n => exact fwdLoop_SP fm σ μ _ false h
  | recursive =>
    have : fm.modules.length > 0 := by
      cases hc : fm.modules with
      | nil => exact absurd hc hm
      | cons _ _ => simp
    simp only [FastMod.step, FastMod.recursiveSteps, this, if_true]
    exact ⟨h, trivial⟩
  | relax n d => exact relaxLoop_SP fm σ μ d _ false h
  | flush =>
    simp only [FastMod.step, flush]
    exact ⟨⟨by simp only [h.signals], by simp only [h.processing]⟩, trivial⟩

theorem run_SP (fm : FastModNet W) (σ : Nat → W → Option W) (μ : Nat → List W → Option (List W))
    (hm : fm.modules ≠ []) (ops : List (Op W)) {s t : FState W} (h : SP s t) :
    SP (FastMod.run fm σ μ ops s).1 (FastMod.run fm σ μ ops t).1 ∧
      (FastMod.run fm σ μ ops s).2 = (FastMod.run fm σ μ ops t).2 := by
  induction ops generalizing s t with
  | nil => exact ⟨h, rfl⟩
  | cons op ops ih =>
    have hs := step_SP fm σ μ hm op h
    have hr := ih hs.1
    simp only [FastMod.run]
    refine ⟨hr.1, ?_⟩
    rw [hr.2]
    congr 1
    unfold obsOf readOutputs
    rw [hs.2, hs.1.signals]

/-! ### invariant of reachable states -/

structure InvM (fm : FastModNet W) (s : FState W) : Prop where
  lenS : s.signals.length = fm.base.nTotal
  lenP : s.processing.length = fm.base.nTotal
  bias : ∀ i, i < fm.base.nBias → i < fm.base.nTotal → getW s.signals i = Scalar.one
  pz : ∀ i, i < fm.base.nBias → getW s.processing i = Scalar.zero

theorem InvM_init (fm : FastModNet W) : InvM fm (FastMod.init fm) := by
  refine ⟨by simp [FastMod.init, Fast.init], by simp [FastMod.init, Fast.init], fun i hb ht => ?_, fun i _ => ?_⟩
  · simp [FastMod.init, Fast.init, getW_map_range, hb, ht]
  · simp [FastMod.init, Fast.init, getW_replicate_zero]

/-- the write hypothesis in `Prop` form -/
structure Unwritten (fm : FastModNet W) : Prop where
  conns : ∀ c ∈ fm.base.conns, fm.base.nBias ≤ c.dst
  mods : ∀ m ∈ fm.modules, ∀ o ∈ m.outs, fm.base.nBias ≤ o

theorem unwritten_of_bool (fm : FastModNet W) (h : biasCellsUnwritten fm = true) : Unwritten fm := by
  unfold biasCellsUnwritten at h
  simp only [Bool.and_eq_true, List.all_eq_true, decide_eq_true_eq] at h
  exact ⟨h.1, h.2⟩

theorem connLoop_low (sig : List W) (cs : List (FLink W)) (p : List W) (b : Nat) (h : ∀ c ∈ cs, b ≤ c.dst)
    (j : Nat) (hj : j < b) : getW (connLoop sig cs p) j = getW p j := by
  induction cs generalizing p with
  | nil => rfl
  | cons c cs ih =>
    unfold connLoop
    rw [ih _ (fun c' hc' => h c' (by simp [hc'])), getW_set]
    have := h c (by simp)
    rw [if_neg (by omega)]

theorem actLoop_low (fn : FastNet W) (σ : Nat → W → Option W) (is : List Nat) (p : List W) (j : Nat)
    (hj : j ∉ is) : getW (actLoop fn σ is p).1 j = getW p j := by
  induction is generalizing p with
  | nil => rfl
  | cons i is ih =>
    have hji : j ≠ i := fun e => hj (by simp [e])
    unfold actLoop
    simp only
    split
    · simp only [getW_set]
      rw [if_neg (fun hc => hji hc.1)]
    · rw [ih _ (fun hm => hj (by simp [hm])), getW_set, if_neg (fun hc => hji hc.1)]

theorem modOuts_props (os : List Nat) (vs : List W) (p : List W) :
    (modOuts os vs p).1.length = p.length ∧ ∀ j, j ∉ os → getW (modOuts os vs p).1 j = getW p j := by
  induction os generalizing vs p with
  | nil => exact ⟨rfl, fun _ _ => rfl⟩
  | cons o os ih =>
    cases vs with
    | nil => exact ⟨rfl, fun _ _ => rfl⟩
    | cons v vs =>
      unfold modOuts
      have := ih vs (p.set o v)
      refine ⟨by rw [this.1]; simp, fun j hj => ?_⟩
      rw [this.2 j (fun hm => hj (by simp [hm])), getW_set]
      rw [if_neg (fun hc => hj (by simp [hc.1]))]

theorem modLoop_props (μ : Nat → List W → Option (List W)) (ms : List FMod) (p : List W) (b : Nat)
    (h : ∀ m ∈ ms, ∀ o ∈ m.outs, b ≤ o) :
    (modLoop μ ms p).1.length = p.length ∧ ∀ j, j < b → getW (modLoop μ ms p).1 j = getW p j := by
  induction ms generalizing p with
  | nil => exact ⟨rfl, fun _ _ => rfl⟩
  | cons m ms ih =>
    unfold modLoop
    cases μ m.act (m.ins.map (getW p)) with
    | none => exact ⟨rfl, fun _ _ => rfl⟩
    | some outs =>
      simp only
      have ho := modOuts_props m.outs outs p
      rcases hm : modOuts m.outs outs p with ⟨p', e⟩
      rw [hm] at ho
      simp only at ho
      have hlow : ∀ j, j < b → getW p' j = getW p j := fun j hj =>
        ho.2 j (fun hmem => by have := h m (by simp) j hmem; omega)
      cases e with
      | some e => exact ⟨ho.1, hlow⟩
      | none =>
        simp only
        have := ih p' (fun m' hm' => h m' (by simp [hm']))
        exact ⟨this.1.trans ho.1, fun j hj => (this.2 j hj).trans (hlow j hj)⟩

theorem moveLoop_low (delta : W) (check : Bool) (is : List Nat) (sig p : List W) (r : Bool) (j : Nat) (hj : j ∉ is) :
    getW (moveLoop delta check is sig p r).2.1 j = getW p j := by
  induction is generalizing sig p r with
  | nil => rfl
  | cons i is ih =>
    have hji : j ≠ i := fun e => hj (by simp [e])
    unfold moveLoop
    simp only
    rw [ih _ _ _ (fun hm => hj (by simp [hm])), getW_set, if_neg (fun hc => hji hc.1)]

theorem InvM_forwardStep (fm : FastModNet W) (σ : Nat → W → Option W) (μ : Nat → List W → Option (List W))
    (hu : Unwritten fm) (delta : W) {s : FState W} (h : InvM fm s) :
    InvM fm (FastMod.forwardStep fm σ μ delta s).1 := by
  have hlt : ∀ i, i < fm.base.nBias → i ∉ neuronIdx fm.base := fun i hb hmem =>
    neuronIdx_ge fm.base i hmem (by simp only [FastNet.nSensor]; omega)
  unfold FastMod.forwardStep
  simp only
  have hl := length_actLoop fm.base σ (neuronIdx fm.base) (connLoop s.signals fm.base.conns s.processing)
  rw [length_connLoop] at hl
  have hz : ∀ i, i < fm.base.nBias →
      getW (actLoop fm.base σ (neuronIdx fm.base) (connLoop s.signals fm.base.conns s.processing)).1 i = Scalar.zero :=
    fun i hb => by
      rw [actLoop_low _ _ _ _ i (hlt i hb), connLoop_low _ _ _ _ hu.conns i hb]
      exact h.pz i hb
  rcases hs : actLoop fm.base σ (neuronIdx fm.base) (connLoop s.signals fm.base.conns s.processing) with ⟨p2, e⟩
  rw [hs] at hl hz
  simp only at hl hz
  cases e with
  | some e => exact ⟨h.lenS, hl.trans h.lenP, h.bias, hz⟩
  | none =>
    simp only
    have hmp := modLoop_props μ fm.modules p2 fm.base.nBias hu.mods
    rcases hmm : modLoop μ fm.modules p2 with ⟨p3, e⟩
    rw [hmm] at hmp
    simp only at hmp
    cases e with
    | some e => exact ⟨h.lenS, (hmp.1.trans hl).trans h.lenP, h.bias, fun i hb => (hmp.2 i hb).trans (hz i hb)⟩
    | none =>
      have hm := moveLoop_props delta (!(Scalar.le delta Scalar.zero)) (neuronIdx fm.base) s.signals p3 true
      refine ⟨hm.1.trans h.lenS, hm.2.1.trans ((hmp.1.trans hl).trans h.lenP), fun i hb ht => ?_, fun i hb => ?_⟩
      · simp only
        rw [hm.2.2 i (hlt i hb)]
        exact h.bias i hb ht
      · simp only
        rw [moveLoop_low _ _ _ _ _ _ i (hlt i hb)]
        exact (hmp.2 i hb).trans (hz i hb)

theorem InvM_fwdLoop (fm : FastModNet W) (σ : Nat → W → Option W) (μ : Nat → List W → Option (List W))
    (hu : Unwritten fm) (k : Nat) (res : Bool) {s : FState W} (h : InvM fm s) :
    InvM fm (FastMod.fwdLoop fm σ μ k res s).1 := by
  induction k generalizing res s with
  | zero => exact h
  | succ k ih =>
    unfold FastMod.fwdLoop
    have hf := InvM_forwardStep fm σ μ hu Scalar.zero h
    rcases hs : FastMod.forwardStep fm σ μ Scalar.zero s with ⟨s', r, e⟩
    rw [hs] at hf
    cases e with
    | some e => exact hf
    | none => exact ih r hf

theorem InvM_relaxLoop (fm : FastModNet W) (σ : Nat → W → Option W) (μ : Nat → List W → Option (List W))
    (hu : Unwritten fm) (delta : W) (k : Nat) (res : Bool) {s : FState W} (h : InvM fm s) :
    InvM fm (FastMod.relaxLoop fm σ μ delta k res s).1 := by
  induction k generalizing res s with
  | zero => exact h
  | succ k ih =>
    unfold FastMod.relaxLoop
    have hf := InvM_forwardStep fm σ μ hu delta h
    rcases hs : FastMod.forwardStep fm σ μ delta s with ⟨s', r, e⟩
    rw [hs] at hf
    cases e with
    | some e => exact hf
    | none =>
      cases r with
      | true => exact hf
      | false => exact ih false hf

theorem InvM_step (fm : FastModNet W) (σ : Nat → W → Option W) (μ : Nat → List W → Option (List W))
    (hu : Unwritten fm) (hm : fm.modules ≠ []) (op : Op W) {s : FState W} (h : InvM fm s) :
    InvM fm (FastMod.step fm σ μ s op).1 := by
  cases op with
  | load xs =>
    simp only [FastMod.step, loadSensors]
    split
    · have := loadLoop_props fm.base.nBias xs 0 s.signals
      exact ⟨this.1.trans h.lenS, h.lenP, fun i hb ht => by simp only; rw [this.2 i hb]; exact h.bias i hb ht, h.pz⟩
    · exact h
  | forward n => exact InvM_fwdLoop fm σ μ hu _ false h
  | recursive =>
    have : fm.modules.length > 0 := by
      cases hc : fm.modules with
      | nil => exact absurd hc hm
      | cons _ _ => simp
    simp only [FastMod.step, FastMod.recursiveSteps, this, if_true]
    exact h
  | relax n d => exact InvM_relaxLoop fm σ μ hu d _ false h
  | flush =>
    simp only [FastMod.step, flush]
    refine ⟨by simp [zeroFrom, h.lenS], by simp [zeroFrom, h.lenP], fun i hb ht => ?_, fun i hb => ?_⟩
    · simp only [zeroFrom, getW_map_range, h.lenS, ht, if_true]
      rw [if_neg (by omega)]
      exact h.bias i hb ht
    · simp only [zeroFrom, getW_map_range]
      split
      · rw [if_neg (by omega)]; exact h.pz i hb
      · rfl

theorem InvM_run (fm : FastModNet W) (σ : Nat → W → Option W) (μ : Nat → List W → Option (List W))
    (hu : Unwritten fm) (hm : fm.modules ≠ []) (ops : List (Op W)) {s : FState W} (h : InvM fm s) :
    InvM fm (FastMod.run fm σ μ ops s).1 := by
  induction ops generalizing s with
  | nil => exact h
  | cons op ops ih => exact ih (InvM_step fm σ μ hu hm op h)

/-- `Flush` of a reachable state restores both signal arrays of the freshly built solver -/
theorem flush_SP_init (fm : FastModNet W) {s : FState W} (h : InvM fm s) :
    SP (flush fm.base s).1 (FastMod.init fm) := by
  unfold flush FastMod.init Fast.init
  refine ⟨?_, ?_⟩
  · simp only [zeroFrom, h.lenS]
    apply List.map_congr_left
    intro i hi
    have hi' : i < fm.base.nTotal := by simpa using hi
    by_cases hb : i < fm.base.nBias
    · simp only [hb, if_true]
      rw [if_neg (by omega)]
      exact h.bias i hb hi'
    · simp only [hb, if_false]
      rw [if_pos (by omega)]
  · simp only [zeroFrom, h.lenP]
    apply List.ext_getElem
    · simp
    · intro i h1 h2
      simp only [List.getElem_map, List.getElem_range, List.getElem_replicate]
      split
      · rfl
      · exact h.pz i (by omega)

end GoNeat.FastMod
