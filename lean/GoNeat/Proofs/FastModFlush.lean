/-
  Helper lemmas for C13 on the fast solver WITH modules (Model/FastSolverMod.lean).

  A. refinement: for `modules = []` every operation is the operation of Model/FastSolver.lean;
  B. `modules ≠ []`: `RecursiveSteps` is refused, so `activated`, `inActivation`, `lastActivation` are never read or
     written: the observable state is (`neuronSignals`, `neuronSignalsBeingProcessed`) - relation `SP`; every
     operation respects it; reachable states satisfy `InvM` (array lengths, bias signals 1); `Flush` (repaired loop
     1a387d5: ALL processing cells) of a reachable state is `SP`-equal to the fresh state, for every module wiring.
  Kind A: no arithmetic law.
-/
import GoNeat.Proofs.FastFlush
import GoNeat.Model.FastSolverMod

set_option linter.unusedSectionVars false
set_option linter.unusedVariables false

namespace GoNeat.FastMod
open GoNeat.Solver (Err)
open GoNeat.Fast

variable {W : Type} [Scalar W]

/-! ## A. refinement -/

theorem forwardStep_refine (fm : FastModNet W) (σ : Nat → W → Option W) (μ : Nat → List W → Option (List W))
    (h : fm.modules = []) (delta : W) (s : FState W) :
    FastMod.forwardStep fm σ μ delta s = Fast.forwardStep fm.base σ delta s := by
  unfold FastMod.forwardStep Fast.forwardStep
  simp only [h, modLoop]
  rcases actLoop fm.base σ (neuronIdx fm.base) (connLoop s.signals fm.base.conns s.processing) with ⟨p2, _ | e⟩ <;> rfl

theorem fwdLoop_refine (fm : FastModNet W) (σ : Nat → W → Option W) (μ : Nat → List W → Option (List W))
    (h : fm.modules = []) (k : Nat) (res : Bool) (s : FState W) :
    FastMod.fwdLoop fm σ μ k res s = Fast.fwdLoop fm.base σ k res s := by
  induction k generalizing res s with
  | zero => rfl
  | succ k ih =>
    unfold FastMod.fwdLoop Fast.fwdLoop
    rw [forwardStep_refine fm σ μ h]
    simp only [ih]
    rfl

theorem relaxLoop_refine (fm : FastModNet W) (σ : Nat → W → Option W) (μ : Nat → List W → Option (List W))
    (h : fm.modules = []) (delta : W) (k : Nat) (res : Bool) (s : FState W) :
    FastMod.relaxLoop fm σ μ delta k res s = Fast.relaxLoop fm.base σ delta k res s := by
  induction k generalizing res s with
  | zero => rfl
  | succ k ih =>
    unfold FastMod.relaxLoop Fast.relaxLoop
    rw [forwardStep_refine fm σ μ h]
    simp only [ih]
    rfl

/-- for a solver without modules one call of the modular model is the call of Model/FastSolver.lean -/
theorem step_refine (fm : FastModNet W) (σ : Nat → W → Option W) (μ : Nat → List W → Option (List W))
    (h : fm.modules = []) (s : FState W) (op : Op W) :
    FastMod.step fm σ μ s op = Fast.step fm.base σ s op := by
  cases op with
  | load xs => rfl
  | forward n => exact fwdLoop_refine fm σ μ h _ false s
  | recursive => simp [FastMod.step, Fast.step, FastMod.recursiveSteps, h]
  | relax n d => exact relaxLoop_refine fm σ μ h d _ false s
  | flush => rfl

theorem run_refine (fm : FastModNet W) (σ : Nat → W → Option W) (μ : Nat → List W → Option (List W))
    (h : fm.modules = []) (ops : List (Op W)) (s : FState W) :
    FastMod.run fm σ μ ops s = Fast.run fm.base σ ops s := by
  induction ops generalizing s with
  | nil => rfl
  | cons op ops ih => simp only [FastMod.run, Fast.run, step_refine fm σ μ h, ih]

/-- translation: a network without control nodes gets the `FastNet` of `Fast.ofNet` and no modules -/
theorem ofNet_refine (net : Net W) (h : net.ctrl = []) :
    FastMod.ofNet net = (Fast.ofNet net).map fun fn => { base := fn, modules := [] } := by
  have hf : SolverMod.flat net = net := by cases net; simp_all [SolverMod.flat]
  unfold FastMod.ofNet Fast.ofNet
  simp only [hf, h, ctrlMods]
  split
  · rfl
  · split
    · rfl
    · rcases procIncoming net _ (idxOfKind net Kind.input) _ [] with e | ⟨b1, c1⟩
      · rfl
      · simp only
        rcases procIncoming net _ (idxOfKind net Kind.hidden) b1 c1 with e | ⟨b2, c2⟩
        · rfl
        · simp only
          rcases procIncoming net _ net.outputs b2 c2 with e | ⟨b3, c3⟩ <;> rfl

/-! ## B. solvers with modules -/

/-- equality of the two signal arrays (everything a solver with modules can observe) -/
structure SP (s t : FState W) : Prop where
  signals : s.signals = t.signals
  processing : s.processing = t.processing

theorem SP.refl (s : FState W) : SP s s := ⟨rfl, rfl⟩

theorem forwardStep_SP (fm : FastModNet W) (σ : Nat → W → Option W) (μ : Nat → List W → Option (List W)) (delta : W)
    {s t : FState W} (h : SP s t) :
    SP (FastMod.forwardStep fm σ μ delta s).1 (FastMod.forwardStep fm σ μ delta t).1 ∧
      (FastMod.forwardStep fm σ μ delta s).2 = (FastMod.forwardStep fm σ μ delta t).2 := by
  unfold FastMod.forwardStep
  simp only [h.signals, h.processing]
  rcases actLoop fm.base σ (neuronIdx fm.base) (connLoop t.signals fm.base.conns t.processing) with ⟨p2, _ | e⟩
  · simp only
    rcases modLoop μ fm.modules p2 with ⟨p3, _ | e⟩
    · exact ⟨⟨rfl, rfl⟩, rfl⟩
    · exact ⟨⟨rfl, rfl⟩, rfl⟩
  · exact ⟨⟨rfl, rfl⟩, rfl⟩

theorem fwdLoop_SP (fm : FastModNet W) (σ : Nat → W → Option W) (μ : Nat → List W → Option (List W)) (k : Nat)
    (res : Bool) {s t : FState W} (h : SP s t) :
    SP (FastMod.fwdLoop fm σ μ k res s).1 (FastMod.fwdLoop fm σ μ k res t).1 ∧
      (FastMod.fwdLoop fm σ μ k res s).2 = (FastMod.fwdLoop fm σ μ k res t).2 := by
  induction k generalizing res s t with
  | zero => exact ⟨h, rfl⟩
  | succ k ih =>
    unfold FastMod.fwdLoop
    have hf := forwardStep_SP fm σ μ Scalar.zero h
    rcases hs : FastMod.forwardStep fm σ μ Scalar.zero s with ⟨s', r, e⟩
    rcases ht : FastMod.forwardStep fm σ μ Scalar.zero t with ⟨t', r', e'⟩
    rw [hs, ht] at hf
    simp only [Prod.mk.injEq] at hf
    obtain ⟨hf1, rfl, rfl⟩ := hf
    cases e with
    | some e => exact ⟨hf1, rfl⟩
    | none => exact ih r hf1

theorem relaxLoop_SP (fm : FastModNet W) (σ : Nat → W → Option W) (μ : Nat → List W → Option (List W)) (delta : W)
    (k : Nat) (res : Bool) {s t : FState W} (h : SP s t) :
    SP (FastMod.relaxLoop fm σ μ delta k res s).1 (FastMod.relaxLoop fm σ μ delta k res t).1 ∧
      (FastMod.relaxLoop fm σ μ delta k res s).2 = (FastMod.relaxLoop fm σ μ delta k res t).2 := by
  induction k generalizing res s t with
  | zero => exact ⟨h, rfl⟩
  | succ k ih =>
    unfold FastMod.relaxLoop
    have hf := forwardStep_SP fm σ μ delta h
    rcases hs : FastMod.forwardStep fm σ μ delta s with ⟨s', r, e⟩
    rcases ht : FastMod.forwardStep fm σ μ delta t with ⟨t', r', e'⟩
    rw [hs, ht] at hf
    simp only [Prod.mk.injEq] at hf
    obtain ⟨hf1, rfl, rfl⟩ := hf
    cases e with
    | some e => exact ⟨hf1, rfl⟩
    | none =>
      cases r with
      | true => exact ⟨hf1, rfl⟩
      | false => exact ih false hf1

theorem step_SP (fm : FastModNet W) (σ : Nat → W → Option W) (μ : Nat → List W → Option (List W))
    (hm : fm.modules ≠ []) (op : Op W) {s t : FState W} (h : SP s t) :
    SP (FastMod.step fm σ μ s op).1 (FastMod.step fm σ μ t op).1 ∧
      (FastMod.step fm σ μ s op).2 = (FastMod.step fm σ μ t op).2 := by
  cases op with
  | load xs =>
    simp only [FastMod.step, loadSensors]
    split
    · exact ⟨⟨by simp only [h.signals], h.processing⟩, rfl⟩
    · exact ⟨h, rfl⟩
  | forward n => exact fwdLoop_SP fm σ μ _ false h
  | recursive =>
    have : fm.modules.length > 0 := by
      cases hc : fm.modules with
      | nil => exact absurd hc hm
      | cons _ _ => simp
    simp only [FastMod.step, FastMod.recursiveSteps, this, if_true]
    exact ⟨h, trivial⟩
  | relax n d => exact relaxLoop_SP fm σ μ d _ false h
  | flush =>
    simp only [FastMod.step, flush]
    exact ⟨⟨by simp only [h.signals], by simp only [h.processing]⟩, trivial⟩

theorem run_SP (fm : FastModNet W) (σ : Nat → W → Option W) (μ : Nat → List W → Option (List W))
    (hm : fm.modules ≠ []) (ops : List (Op W)) {s t : FState W} (h : SP s t) :
    SP (FastMod.run fm σ μ ops s).1 (FastMod.run fm σ μ ops t).1 ∧
      (FastMod.run fm σ μ ops s).2 = (FastMod.run fm σ μ ops t).2 := by
  induction ops generalizing s t with
  | nil => exact ⟨h, rfl⟩
  | cons op ops ih =>
    have hs := step_SP fm σ μ hm op h
    have hr := ih hs.1
    simp only [FastMod.run]
    refine ⟨hr.1, ?_⟩
    rw [hr.2]
    congr 1
    unfold obsOf readOutputs
    rw [hs.2, hs.1.signals]

/-! ### invariant of reachable states -/

structure InvM (fm : FastModNet W) (s : FState W) : Prop where
  lenS : s.signals.length = fm.base.nTotal
  lenP : s.processing.length = fm.base.nTotal
  bias : ∀ i, i < fm.base.nBias → i < fm.base.nTotal → getW s.signals i = Scalar.one

theorem InvM_init (fm : FastModNet W) : InvM fm (FastMod.init fm) := by
  refine ⟨by simp [FastMod.init, Fast.init], by simp [FastMod.init, Fast.init], fun i hb ht => ?_⟩
  simp [FastMod.init, Fast.init, getW_map_range, hb, ht]

theorem length_modOuts (os : List Nat) (vs : List W) (p : List W) : (modOuts os vs p).1.length = p.length := by
  induction os generalizing vs p with
  | nil => rfl
  | cons o os ih =>
    cases vs with
    | nil => rfl
    | cons v vs => unfold modOuts; rw [ih]; simp

theorem length_modLoop (μ : Nat → List W → Option (List W)) (ms : List FMod) (p : List W) :
    (modLoop μ ms p).1.length = p.length := by
  induction ms generalizing p with
  | nil => rfl
  | cons m ms ih =>
    unfold modLoop
    cases μ m.act (m.ins.map (getW p)) with
    | none => rfl
    | some outs =>
      simp only
      have ho := length_modOuts m.outs outs p
      rcases hm : modOuts m.outs outs p with ⟨p', e⟩
      rw [hm] at ho
      cases e with
      | some e => exact ho
      | none => simp only; rw [ih]; exact ho

theorem InvM_forwardStep (fm : FastModNet W) (σ : Nat → W → Option W) (μ : Nat → List W → Option (List W))
    (delta : W) {s : FState W} (h : InvM fm s) :
    InvM fm (FastMod.forwardStep fm σ μ delta s).1 := by
  have hlt : ∀ i, i < fm.base.nBias → i ∉ neuronIdx fm.base := fun i hb hmem =>
    neuronIdx_ge fm.base i hmem (by simp only [FastNet.nSensor]; omega)
  unfold FastMod.forwardStep
  simp only
  have hl := length_actLoop fm.base σ (neuronIdx fm.base) (connLoop s.signals fm.base.conns s.processing)
  rw [length_connLoop] at hl
  rcases hs : actLoop fm.base σ (neuronIdx fm.base) (connLoop s.signals fm.base.conns s.processing) with ⟨p2, e⟩
  rw [hs] at hl
  simp only at hl
  cases e with
  | some e => exact ⟨h.lenS, hl.trans h.lenP, h.bias⟩
  | none =>
    simp only
    have hmp := length_modLoop μ fm.modules p2
    rcases hmm : modLoop μ fm.modules p2 with ⟨p3, e⟩
    rw [hmm] at hmp
    simp only at hmp
    cases e with
    | some e => exact ⟨h.lenS, (hmp.trans hl).trans h.lenP, h.bias⟩
    | none =>
      have hm := moveLoop_props delta (!(Scalar.le delta Scalar.zero)) (neuronIdx fm.base) s.signals p3 true
      refine ⟨hm.1.trans h.lenS, hm.2.1.trans ((hmp.trans hl).trans h.lenP), fun i hb ht => ?_⟩
      simp only
      rw [hm.2.2 i (hlt i hb)]
      exact h.bias i hb ht

theorem InvM_fwdLoop (fm : FastModNet W) (σ : Nat → W → Option W) (μ : Nat → List W → Option (List W))
    (k : Nat) (res : Bool) {s : FState W} (h : InvM fm s) :
    InvM fm (FastMod.fwdLoop fm σ μ k res s).1 := by
  induction k generalizing res s with
  | zero => exact h
  | succ k ih =>
    unfold FastMod.fwdLoop
    have hf := InvM_forwardStep fm σ μ Scalar.zero h
    rcases hs : FastMod.forwardStep fm σ μ Scalar.zero s with ⟨s', r, e⟩
    rw [hs] at hf
    cases e with
    | some e => exact hf
    | none => exact ih r hf

theorem InvM_relaxLoop (fm : FastModNet W) (σ : Nat → W → Option W) (μ : Nat → List W → Option (List W))
    (delta : W) (k : Nat) (res : Bool) {s : FState W} (h : InvM fm s) :
    InvM fm (FastMod.relaxLoop fm σ μ delta k res s).1 := by
  induction k generalizing res s with
  | zero => exact h
  | succ k ih =>
    unfold FastMod.relaxLoop
    have hf := InvM_forwardStep fm σ μ delta h
    rcases hs : FastMod.forwardStep fm σ μ delta s with ⟨s', r, e⟩
    rw [hs] at hf
    cases e with
    | some e => exact hf
    | none =>
      cases r with
      | true => exact hf
      | false => exact ih false hf

theorem InvM_step (fm : FastModNet W) (σ : Nat → W → Option W) (μ : Nat → List W → Option (List W))
    (hm : fm.modules ≠ []) (op : Op W) {s : FState W} (h : InvM fm s) :
    InvM fm (FastMod.step fm σ μ s op).1 := by
  cases op with
  | load xs =>
    simp only [FastMod.step, loadSensors]
    split
    · have := loadLoop_props fm.base.nBias xs 0 s.signals
      exact ⟨this.1.trans h.lenS, h.lenP, fun i hb ht => by simp only; rw [this.2 i hb]; exact h.bias i hb ht⟩
    · exact h
  | forward n => exact InvM_fwdLoop fm σ μ _ false h
  | recursive =>
    have : fm.modules.length > 0 := by
      cases hc : fm.modules with
      | nil => exact absurd hc hm
      | cons _ _ => simp
    simp only [FastMod.step, FastMod.recursiveSteps, this, if_true]
    exact h
  | relax n d => exact InvM_relaxLoop fm σ μ d _ false h
  | flush =>
    simp only [FastMod.step, flush]
    refine ⟨by simp [zeroFrom, h.lenS], by simp [zeroFrom, h.lenP], fun i hb ht => ?_⟩
    simp only [zeroFrom, getW_map_range, h.lenS, ht, if_true]
    rw [if_neg (by omega)]
    exact h.bias i hb ht

theorem InvM_run (fm : FastModNet W) (σ : Nat → W → Option W) (μ : Nat → List W → Option (List W))
    (hm : fm.modules ≠ []) (ops : List (Op W)) {s : FState W} (h : InvM fm s) :
    InvM fm (FastMod.run fm σ μ ops s).1 := by
  induction ops generalizing s with
  | nil => exact h
  | cons op ops ih => exact ih (InvM_step fm σ μ hm op h)

/-- `Flush` (repaired loop) of a reachable state restores both signal arrays of the freshly built solver, for every
    module wiring -/
theorem flush_SP_init (fm : FastModNet W) {s : FState W} (h : InvM fm s) :
    SP (flush fm.base s).1 (FastMod.init fm) := by
  refine ⟨?_, flush_processing_init fm.base h.lenP⟩
  unfold flush FastMod.init Fast.init
  simp only [zeroFrom, h.lenS]
  apply List.map_congr_left
  intro i hi
  have hi' : i < fm.base.nTotal := by simpa using hi
  by_cases hb : i < fm.base.nBias
  · simp only [hb, if_true]
    rw [if_neg (by omega)]
    exact h.bias i hb hi'
  · simp only [hb, if_false]
    rw [if_pos (by omega)]

end GoNeat.FastMod
