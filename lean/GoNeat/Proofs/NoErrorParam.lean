/-
  C02 "without error": the seven parametric mutators never return an implementation error on a genome that has at
  least one gene, one node and one trait (`Basic`), and keep the sizes and the trait shape (`Like`).
  Kind A.
-/
import GoNeat.Proofs.NoErrorBase
import GoNeat.Proofs.WFParam

set_option linter.unusedSectionVars false

namespace GoNeat.NoErr
open GoNeat Scalar
variable {W : Type} [Scalar W]

/-- the parameter counts of the traits, in trait order (`NewTraitAvrg` demands equal counts) -/
def shape (g : Genome W) : List Nat := g.traits.map (·.params.length)

structure Basic (g : Genome W) : Prop where
  genes : g.genes ≠ []
  nodes : g.nodes ≠ []
  traits : g.traits ≠ []

instance (g : Genome W) : Decidable (Basic g) :=
  if h : g.genes ≠ [] ∧ g.nodes ≠ [] ∧ g.traits ≠ [] then isTrue ⟨h.1, h.2.1, h.2.2⟩ else isFalse (fun b => h ⟨b.1, b.2, b.3⟩)

/-- what every mutator keeps: number of genes (or more), number of nodes (or more), trait shape -/
structure Like (g g' : Genome W) : Prop where
  genes : g.genes.length ≤ g'.genes.length
  nodes : g.nodes.length ≤ g'.nodes.length
  shape : shape g' = shape g

theorem Like.refl (g : Genome W) : Like g g := ⟨Nat.le_refl _, Nat.le_refl _, rfl⟩
theorem Like.trans {a b c : Genome W} (h1 : Like a b) (h2 : Like b c) : Like a c :=
  ⟨Nat.le_trans h1.genes h2.genes, Nat.le_trans h1.nodes h2.nodes, h2.shape.trans h1.shape⟩

theorem Like.traitsLen {g g' : Genome W} (h : Like g g') : g'.traits.length = g.traits.length := by
  have := congrArg List.length h.shape
  simpa [NoErr.shape] using this

theorem Like.basic {g g' : Genome W} (h : Like g g') (b : Basic g) : Basic g' := by
  refine ⟨?_, ?_, ?_⟩
  · have := h.genes; have := List.length_pos_iff.mpr b.genes; exact List.length_pos_iff.mp (by omega)
  · have := h.nodes; have := List.length_pos_iff.mpr b.nodes; exact List.length_pos_iff.mp (by omega)
  · have := h.traitsLen; have := List.length_pos_iff.mpr b.traits; exact List.length_pos_iff.mp (by omega)

theorem traitAt_safe (g : Genome W) (i : Int) (h0 : 0 ≤ i) (h : i.toNat < g.traits.length) :
    SafeE (fun _ => True) (traitAt g i) := by
  unfold traitAt
  rw [if_neg (by omega)]
  split
  · next hn => rw [List.getElem?_eq_none_iff] at hn; omega
  · trivial

theorem traitAt_safe_nat (g : Genome W) (k : Nat) (h : k < g.traits.length) : SafeE (fun _ => True) (traitAt g (k : Int)) :=
  traitAt_safe g k (by omega) (by simpa using h)

/-! ### mutateLinkWeights -/

theorem safe_linkWeightsLoop (power rate : W) (mt : WeightMutator) (severe : Bool) (gc ep : W) (l : List (Gene W)) (num : W)
    (rs : List Nat) : Safe (fun l' => l'.length = l.length) (linkWeightsLoop power rate mt severe gc ep l num rs) := by
  induction l generalizing num rs with
  | nil => simp [linkWeightsLoop, Safe]
  | cons x xs ih =>
    unfold linkWeightsLoop
    simp only
    split
    · next e he =>
      split at he
      · cases he
      · split at he
        · cases he
        · have hf := safe_float64 (W := W) rs
          split at he
          · next e' he' => cases he; rw [he'] at hf; exact hf.of_error
          · split at he <;> cases he
    · next gp cgp rs1 he =>
      have hs := safe_signedUnit (W := W) rs1
      split
      · next e he2 => rw [he2] at hs; exact hs.of_error
      · next su rs2 he2 =>
        split
        · next e he3 =>
          split at he3
          · have hf := safe_float64 (W := W) rs2
            split at he3
            · next e' he' => cases he3; rw [he'] at hf; exact hf.of_error
            · split at he3
              · cases he3
              · split at he3 <;> cases he3
          · cases he3
        · next w' rs4 he3 =>
          have hi := ih (add num one) rs4
          split
          · next e he4 => rw [he4] at hi; exact hi.of_error
          · next xs' rs5 he4 =>
            rw [he4] at hi
            show (_ :: xs').length = (x :: xs).length
            simp only [List.length_cons]; exact congrArg (· + 1) hi

theorem safe_mutateLinkWeights (g : Genome W) (power rate : W) (mt : WeightMutator) (rs : List Nat) (hb : g.genes ≠ []) :
    Safe (Like g) (mutateLinkWeights g power rate mt rs) := by
  unfold mutateLinkWeights
  rw [if_neg (by simpa using hb)]
  have hf := safe_float64 (W := W) rs
  split
  · next e he => rw [he] at hf; exact hf.of_error
  · next f rs1 he =>
    simp only
    have hl := safe_linkWeightsLoop power rate mt (gt f (ofDec 5 1)) (ofInt g.genes.length)
      (mul (ofInt g.genes.length) (ofDec 8 1)) g.genes zero rs1
    split
    · next e he2 => rw [he2] at hl; exact hl.of_error
    · next genes rs2 he2 =>
      rw [he2] at hl
      exact ⟨by show g.genes.length ≤ genes.length; exact Nat.le_of_eq hl.symm, Nat.le_refl _, rfl⟩

/-! ### mutateRandomTrait -/

theorem safe_traitMutateParams (power prob : W) (ps : List W) (rs : List Nat) :
    Safe (fun ps' => ps'.length = ps.length) (traitMutateParams power prob ps rs) := by
  induction ps generalizing rs with
  | nil => simp [traitMutateParams, Safe]
  | cons p ps ih =>
    unfold traitMutateParams
    have hf := safe_float64 (W := W) rs
    split
    · next e he => rw [he] at hf; exact hf.of_error
    · next f rs1 he =>
      simp only
      split
      · next e he2 =>
        split at he2
        · have hs := safe_signedUnit (W := W) rs1
          split at he2
          · next e' he' => cases he2; rw [he'] at hs; exact hs.of_error
          · cases he2
        · cases he2
      · next p' rs3 he2 =>
        have hi := ih rs3
        split
        · next e he3 => rw [he3] at hi; exact hi.of_error
        · next ps' rs4 he3 =>
          rw [he3] at hi
          show (p' :: ps').length = (p :: ps).length
          simp only [List.length_cons]; exact congrArg (· + 1) hi

theorem shape_set (l : List (Trait W)) (k : Nat) (t t' : Trait W) (hk : l[k]? = some t) (hl : t'.params.length = t.params.length) :
    (l.set k t').map (·.params.length) = l.map (·.params.length) := by
  induction l generalizing k with
  | nil => rfl
  | cons a l ih =>
    cases k with
    | zero => simp only [List.getElem?_cons_zero, Option.some.injEq] at hk; subst hk; simp [hl]
    | succ k => simp only [List.getElem?_cons_succ] at hk; simp only [List.set_cons_succ, List.map_cons, ih k hk]

theorem safe_mutateRandomTrait (g : Genome W) (o : MutOpts W) (rs : List Nat) (hb : g.traits ≠ []) :
    Safe (Like g) (mutateRandomTrait g o rs) := by
  unfold mutateRandomTrait
  rw [if_neg (by simpa using hb)]
  have hi := safe_intn g.traits.length (List.length_pos_iff.mpr hb) rs
  split
  · next e he => rw [he] at hi; exact hi.of_error
  · next k rs1 he =>
    rw [he] at hi
    split
    · next hn => rw [List.getElem?_eq_none_iff] at hn; have hk : k < g.traits.length := hi; omega
    · next t ht =>
      have hp := safe_traitMutateParams o.traitMutationPower o.traitParamMutProb t.params rs1
      split
      · next e he2 => rw [he2] at hp; exact hp.of_error
      · next ps rs2 he2 =>
        rw [he2] at hp
        exact ⟨Nat.le_refl _, Nat.le_refl _, shape_set g.traits k t _ ht hp⟩

/-! ### mutateLinkTrait, mutateNodeTrait, mutateToggleEnable, mutateGeneReEnable -/

theorem safe_mutateLinkTrait (times : Nat) (g : Genome W) (rs : List Nat) (hg : g.genes ≠ []) (ht : g.traits ≠ []) :
    Safe (Like g) (mutateLinkTrait g times rs) := by
  induction times generalizing g rs with
  | zero =>
    unfold mutateLinkTrait
    rw [if_neg (by simp [hg, ht])]
    exact Like.refl g
  | succ n ih =>
    unfold mutateLinkTrait
    rw [if_neg (by simp [hg, ht])]
    have h1 := safe_intn g.traits.length (List.length_pos_iff.mpr ht) rs
    split
    · next e he => rw [he] at h1; exact h1.of_error
    · next t rs1 he =>
      rw [he] at h1
      have h2 := safe_intn g.genes.length (List.length_pos_iff.mpr hg) rs1
      split
      · next e he2 => rw [he2] at h2; exact h2.of_error
      · next k rs2 he2 =>
        have h3 := traitAt_safe_nat g t h1
        split
        · next e he3 => rw [he3] at h3; exact h3.of_error
        · next tr he3 =>
          have hl : Like g { g with genes := g.genes.modify k (fun x => { x with trait := tr }) } :=
            ⟨by simp, Nat.le_refl _, rfl⟩
          have hg' : g.genes.modify k (fun x => { x with trait := tr }) ≠ [] := by
            intro h; apply hg; have := congrArg List.length h; simpa using this
          have := ih { g with genes := g.genes.modify k (fun x => { x with trait := tr }) } rs2 hg' ht
          exact this.mono (fun a ha => hl.trans ha)

theorem safe_mutateNodeTrait (times : Nat) (g : Genome W) (rs : List Nat) (hg : g.nodes ≠ []) (ht : g.traits ≠ []) :
    Safe (Like g) (mutateNodeTrait g times rs) := by
  induction times generalizing g rs with
  | zero =>
    unfold mutateNodeTrait
    rw [if_neg (by simp [hg, ht])]
    exact Like.refl g
  | succ n ih =>
    unfold mutateNodeTrait
    rw [if_neg (by simp [hg, ht])]
    have h1 := safe_intn g.traits.length (List.length_pos_iff.mpr ht) rs
    split
    · next e he => rw [he] at h1; exact h1.of_error
    · next t rs1 he =>
      rw [he] at h1
      have h2 := safe_intn g.nodes.length (List.length_pos_iff.mpr hg) rs1
      split
      · next e he2 => rw [he2] at h2; exact h2.of_error
      · next k rs2 he2 =>
        have h3 := traitAt_safe_nat g t h1
        split
        · next e he3 => rw [he3] at h3; exact h3.of_error
        · next tr he3 =>
          have hl : Like g { g with nodes := g.nodes.modify k (fun x => { x with trait := tr }) } :=
            ⟨Nat.le_refl _, by simp, rfl⟩
          have hg' : g.nodes.modify k (fun x => { x with trait := tr }) ≠ [] := by
            intro h; apply hg; have := congrArg List.length h; simpa using this
          have := ih { g with nodes := g.nodes.modify k (fun x => { x with trait := tr }) } rs2 hg' ht
          exact this.mono (fun a ha => hl.trans ha)

theorem safe_mutateToggleEnable (times : Nat) (g : Genome W) (rs : List Nat) (hg : g.genes ≠ []) :
    Safe (Like g) (mutateToggleEnable g times rs) := by
  induction times generalizing g rs with
  | zero =>
    unfold mutateToggleEnable
    rw [if_neg (by simp [hg])]
    exact Like.refl g
  | succ n ih =>
    unfold mutateToggleEnable
    rw [if_neg (by simp [hg])]
    have h1 := safe_intn g.genes.length (List.length_pos_iff.mpr hg) rs
    split
    · next e he => rw [he] at h1; exact h1.of_error
    · next k rs1 he =>
      rw [he] at h1
      split
      · next hn => rw [List.getElem?_eq_none_iff] at hn; have hk : k < g.genes.length := h1; omega
      · next gene hgene =>
        simp only
        split
        · have hl : Like g { g with genes := setEnabledAt g.genes k false } := ⟨by simp [setEnabledAt], Nat.le_refl _, rfl⟩
          have hg' : setEnabledAt g.genes k false ≠ [] := by
            intro h; apply hg; have := congrArg List.length h; simpa [setEnabledAt] using this
          exact (ih { g with genes := setEnabledAt g.genes k false } rs1 hg').mono (fun a ha => hl.trans ha)
        · exact ih g rs1 hg

theorem reenableFirst_length (l : List (Gene W)) : (reenableFirst l).length = l.length := by
  induction l with
  | nil => rfl
  | cons x xs ih => unfold reenableFirst; split <;> simp [ih]

theorem safe_mutateGeneReEnable (g : Genome W) (hg : g.genes ≠ []) : SafeE (Like g) (mutateGeneReEnable g) := by
  unfold mutateGeneReEnable
  rw [if_neg (by simp [hg])]
  exact ⟨by simp [reenableFirst_length], Nat.le_refl _, rfl⟩

/-! ### mutateAllNonstructural -/

theorem safe_stageF (prob : W) (f : Genome W → Rand (Genome W)) (g : Genome W) (rs : List Nat)
    (hf : ∀ rs, Safe (Like g) (f g rs)) : Safe (Like g) (C01.stageF prob f g rs) := by
  unfold C01.stageF
  have h1 := safe_float64 (W := W) rs
  split
  · next e he => rw [he] at h1; exact h1.of_error
  · split
    · exact hf _
    · exact Like.refl g

/-- **the chain of parametric mutations never fails** on a genome with a gene, a node and a trait -/
theorem safe_mutateAllNonstructural (g : Genome W) (o : MutOpts W) (rs : List Nat) (hb : Basic g) :
    Safe (Like g) (mutateAllNonstructural g o rs) := by
  rw [C01.mutateAllNonstructural_eq]
  have h1 := safe_stageF o.mutateRandomTraitProb (fun g => mutateRandomTrait g o) g rs
    (fun rs => safe_mutateRandomTrait g o rs hb.traits)
  split
  · next e he => rw [he] at h1; exact h1.of_error
  · next g1 rs1 he1 =>
    rw [he1] at h1
    have l1 : Like g g1 := h1
    have b1 := l1.basic hb
    have h2 := safe_stageF o.mutateLinkTraitProb (fun g => mutateLinkTrait g 1) g1 rs1
      (fun rs => safe_mutateLinkTrait 1 g1 rs b1.genes b1.traits)
    split
    · next e he => rw [he] at h2; exact h2.of_error
    · next g2 rs2 he2 =>
      rw [he2] at h2
      have l2 : Like g g2 := l1.trans h2
      have b2 := l2.basic hb
      have h3 := safe_stageF o.mutateNodeTraitProb (fun g => mutateNodeTrait g 1) g2 rs2
        (fun rs => safe_mutateNodeTrait 1 g2 rs b2.nodes b2.traits)
      split
      · next e he => rw [he] at h3; exact h3.of_error
      · next g3 rs3 he3 =>
        rw [he3] at h3
        have l3 : Like g g3 := l2.trans h3
        have b3 := l3.basic hb
        have h4 := safe_stageF o.mutateLinkWeightsProb (fun g => mutateLinkWeights g o.weightMutPower one .gaussian) g3 rs3
          (fun rs => safe_mutateLinkWeights g3 _ _ _ rs b3.genes)
        split
        · next e he => rw [he] at h4; exact h4.of_error
        · next g4 rs4 he4 =>
          rw [he4] at h4
          have l4 : Like g g4 := l3.trans h4
          have b4 := l4.basic hb
          have h5 := safe_stageF o.mutateToggleEnableProb (fun g => mutateToggleEnable g 1) g4 rs4
            (fun rs => safe_mutateToggleEnable 1 g4 rs b4.genes)
          split
          · next e he => rw [he] at h5; exact h5.of_error
          · next g5 rs5 he5 =>
            rw [he5] at h5
            have l5 : Like g g5 := l4.trans h5
            have b5 := l5.basic hb
            refine (safe_stageF o.mutateGeneReenableProb _ g5 rs5 ?_).mono (fun a ha => l5.trans ha)
            intro rs
            have h6 := safe_mutateGeneReEnable g5 b5.genes
            split
            · next e he => rw [he] at h6; exact h6.of_error
            · next g' he => rw [he] at h6; exact h6

end GoNeat.NoErr
