/-
  Helper lemmas for C14 (Model/Depth.lean): mark bookkeeping, marks restored, fuel sufficiency, bounds,
  cap behaviour, longest path on ranked (acyclic) networks.  Core Lean only.
-/
import GoNeat.Spec.Depth

namespace GoNeat.Depth

variable {W : Type}

/-! ### marks -/

theorem marked_set (vis : List Bool) (i j : Nat) (b : Bool) :
    marked (vis.set i b) j = if i = j ∧ i < vis.length then b else marked vis j := by
  unfold marked
  simp only [List.getD_eq_getElem?_getD, List.getElem?_set]
  by_cases h : i = j
  · subst h
    by_cases hl : i < vis.length
    · simp [hl]
    · have : vis[i]? = none := by simp; omega
      simp [hl]
  · simp [h]

theorem marked_of_ge {vis : List Bool} {j : Nat} (h : vis.length ≤ j) : marked vis j = false := by
  unfold marked
  simp [List.getD_eq_getElem?_getD, List.getElem?_eq_none h]

/-- setting and clearing the mark of an unmarked node gives back the marks -/
theorem set_true_false {vis : List Bool} {i : Nat} (h : marked vis i = false) :
    (vis.set i true).set i false = vis := by
  rw [List.set_set]
  by_cases hl : i < vis.length
  · have : vis[i] = false := by
      unfold marked at h
      simpa [List.getD_eq_getElem?_getD, List.getElem?_eq_getElem hl] using h
    have h2 := List.set_getElem_self (as := vis) hl
    rw [this] at h2
    exact h2
  · exact List.set_eq_of_length_le (by omega)

/-- number of unmarked entries -/
def unmarked (vis : List Bool) : Nat := vis.count false

theorem unmarked_le (vis : List Bool) : unmarked vis ≤ vis.length := List.count_le_length

theorem unmarked_set {vis : List Bool} {i : Nat} (h : marked vis i = false) (hl : i < vis.length) :
    unmarked (vis.set i true) + 1 = unmarked vis := by
  have hv : vis[i] = false := by
    unfold marked at h
    simpa [List.getD_eq_getElem?_getD, List.getElem?_eq_getElem hl] using h
  unfold unmarked
  rw [List.count_set hl, hv]
  have : 0 < List.count false vis := by
    apply List.count_pos_iff.mpr
    rw [← hv]; exact List.getElem_mem hl
  simp
  omega

/-! ### A. marks are restored on every exit -/

/-- `call` gives back the marks whenever it is started on an unmarked node -/
def Restores (call : List Bool → Nat → DRes) : Prop :=
  ∀ v j, marked v j = false → (call v j).vis = v

theorem loop_vis {call : List Bool → Nat → DRes} (hc : Restores call) (ls : List Nat) (mx : Nat)
    (vis : List Bool) : (loop call ls mx vis).vis = vis := by
  induction ls generalizing mx with
  | nil => rfl
  | cons l ls ih =>
    unfold loop
    by_cases hm : marked vis l = true
    · simp only [hm, ↓reduceIte]; exact ih mx
    · have hm' : marked vis l = false := by simpa using hm
      simp only [hm', Bool.false_eq_true, ↓reduceIte]
      have hv := hc vis l hm'
      by_cases he : (call vis l).err ≠ .ok
      · simp only [if_pos he]; exact hv
      · simp only [if_neg he, hv]; exact ih _

/-- `NNode.Depth` started on an unmarked node leaves the marks exactly as they were: on the normal exit, on the
    depth-cap error exit, and for every amount of fuel -/
theorem depth_vis (net : Net W) (cap : Int) (f : Nat) :
    ∀ vis i d, marked vis i = false → (depth net cap f vis i d).vis = vis := by
  induction f with
  | zero => intro vis i d _; rfl
  | succ f ih =>
    intro vis i d hm
    unfold depth
    split
    · rfl
    · split
      · rfl
      · split
        · rfl
        · simp only
          rw [loop_vis (fun v j h => ih v j (d + 1) h)]
          exact set_true_false hm

theorem depth_restores (net : Net W) (cap : Int) (f d : Nat) : Restores (fun v j => depth net cap f v j d) :=
  fun v j h => depth_vis net cap f v j d h

theorem outLoop_vis (net : Net W) (cap : Int) (os : List Nat) (mx : Nat) (vis : List Bool)
    (ho : ∀ o ∈ os, marked vis o = false) : (outLoop net cap os mx vis).vis = vis := by
  induction os generalizing mx with
  | nil => rfl
  | cons o os ih =>
    unfold outLoop
    have hv := depth_vis net cap (fuelOf net) vis o 0 (ho o (by simp))
    by_cases he : (depth net cap (fuelOf net) vis o 0).err ≠ .ok
    · simp only [if_pos he]; exact hv
    · simp only [if_neg he, hv]
      exact ih _ (fun o' h' => ho o' (by simp [h']))

/-! ### B/C. fuel is sufficient; the result lies between the start depth and start depth + unmarked nodes -/

/-- what a call started on marks `v` must deliver: marks restored, never out of fuel, normal result in `[lo, hi]` -/
def CallOk (call : List Bool → Nat → DRes) (v : List Bool) (lo hi : Nat) : Prop :=
  ∀ j, marked v j = false →
    (call v j).vis = v ∧ (call v j).err ≠ .fuel ∧ ((call v j).err = .ok → lo ≤ (call v j).d ∧ (call v j).d ≤ hi)

theorem loop_ok {call : List Bool → Nat → DRes} {v : List Bool} {lo hi : Nat} (hc : CallOk call v lo hi)
    (ls : List Nat) (mx : Nat) (hmx : mx ≤ hi) :
    (loop call ls mx v).err ≠ .fuel ∧
      ((loop call ls mx v).err = .ok → mx ≤ (loop call ls mx v).d ∧ (loop call ls mx v).d ≤ hi) := by
  induction ls generalizing mx with
  | nil => simp [loop, hmx]
  | cons l ls ih =>
    unfold loop
    by_cases hm : marked v l = true
    · simp only [hm, ↓reduceIte]; exact ih mx hmx
    · have hm' : marked v l = false := by simpa using hm
      simp only [hm', Bool.false_eq_true, ↓reduceIte]
      obtain ⟨hv, hf, hb⟩ := hc l hm'
      by_cases he : (call v l).err ≠ .ok
      · simp only [if_pos he]
        exact ⟨hf, fun h => absurd h he⟩
      · simp only [if_neg he, hv]
        have he' : (call v l).err = .ok := by simpa using he
        obtain ⟨_, h2⟩ := hb he'
        by_cases hgt : (call v l).d > mx
        · simp only [if_pos hgt]
          have := ih (call v l).d h2
          exact ⟨this.1, fun h => by have := this.2 h; omega⟩
        · simp only [if_neg hgt]
          exact ih mx hmx

theorem depth_ok (net : Net W) (cap : Int) (f : Nat) :
    ∀ vis i d, marked vis i = false → vis.length = net.nodes.length → unmarked vis < f →
      (depth net cap f vis i d).err ≠ .fuel ∧
        ((depth net cap f vis i d).err = .ok →
          d ≤ (depth net cap f vis i d).d ∧ (depth net cap f vis i d).d ≤ d + unmarked vis) := by
  induction f with
  | zero => intro vis i d _ _ h; omega
  | succ f ih =>
    intro vis i d hm hl hf
    unfold depth
    split
    · simp
    · split
      · simp
      · rename_i nd hnd
        split
        · simp
        · simp only
          have hi : i < vis.length := by
            have := (List.getElem?_eq_some_iff.mp hnd).1
            omega
          have hu := unmarked_set hm hi
          have hc : CallOk (fun v j => depth net cap f v j (d + 1)) (vis.set i true) (d + 1) (d + unmarked vis) := by
            intro j hj
            dsimp only
            have := ih (vis.set i true) j (d + 1) hj (by simp [hl]) (by omega)
            refine ⟨depth_vis net cap f _ j (d + 1) hj, this.1, fun h => ?_⟩
            have := this.2 h
            omega
          have := loop_ok hc (nd.incoming.map (·.src)) d (by omega)
          exact this

theorem outLoop_ok (net : Net W) (cap : Int) (os : List Nat) (mx : Nat) (vis : List Bool)
    (ho : ∀ o ∈ os, marked vis o = false) (hl : vis.length = net.nodes.length) (hmx : mx ≤ net.nodes.length) :
    (outLoop net cap os mx vis).err ≠ .fuel ∧
      ((outLoop net cap os mx vis).err = .ok →
        mx ≤ (outLoop net cap os mx vis).d ∧ (outLoop net cap os mx vis).d ≤ net.nodes.length) := by
  induction os generalizing mx with
  | nil => simp [outLoop, hmx]
  | cons o os ih =>
    unfold outLoop
    have hmo := ho o (by simp)
    have hv := depth_vis net cap (fuelOf net) vis o 0 hmo
    have hu := unmarked_le vis
    have hd := depth_ok net cap (fuelOf net) vis o 0 hmo hl (by unfold fuelOf; omega)
    by_cases he : (depth net cap (fuelOf net) vis o 0).err ≠ .ok
    · simp only [if_pos he]
      exact ⟨hd.1, fun h => absurd h he⟩
    · simp only [if_neg he, hv]
      have he' : (depth net cap (fuelOf net) vis o 0).err = .ok := by simpa using he
      have h2 := hd.2 he'
      have ho' : ∀ o' ∈ os, marked vis o' = false := fun o' h' => ho o' (by simp [h'])
      by_cases hgt : (depth net cap (fuelOf net) vis o 0).d > mx
      · simp only [if_pos hgt]
        have := ih (depth net cap (fuelOf net) vis o 0).d ho' (by omega)
        exact ⟨this.1, fun h => by have := this.2 h; omega⟩
      · simp only [if_neg hgt]
        exact ih mx ho' hmx

/-! ### D. behaviour of the cap -/

theorem overCap_nonpos {cap : Int} (h : cap ≤ 0) (d : Nat) : overCap cap d = false := by
  unfold overCap
  have : ¬ cap > 0 := by omega
  simp [this]

theorem overCap_pos {cap : Int} (h : 0 < cap) (d : Nat) : overCap cap d = decide ((d : Int) > cap) := by
  unfold overCap
  simp [h]

/-- every non-positive cap means "no cap" -/
theorem depth_nonpos_cap (net : Net W) {cap : Int} (h : cap ≤ 0) (f : Nat) :
    ∀ vis i d, depth net cap f vis i d = depth net 0 f vis i d := by
  induction f with
  | zero => intro vis i d; rfl
  | succ f ih =>
    intro vis i d
    unfold depth
    rw [overCap_nonpos h, overCap_nonpos (Int.le_refl 0)]
    have : (fun v j => depth net cap f v j (d + 1)) = (fun v j => depth net 0 f v j (d + 1)) := by
      funext v j; exact ih v j (d + 1)
    simp [this]

theorem loop_err_uncapped {call : List Bool → Nat → DRes}
    (hc : ∀ v j, (call v j).err = .ok ∨ (call v j).err = .fuel) (ls : List Nat) (mx : Nat) (vis : List Bool) :
    (loop call ls mx vis).err = .ok ∨ (loop call ls mx vis).err = .fuel := by
  induction ls generalizing mx vis with
  | nil => left; rfl
  | cons l ls ih =>
    unfold loop
    split
    · exact ih mx vis
    · dsimp only
      by_cases he : (call vis l).err ≠ .ok
      · simp only [if_pos he]; exact hc vis l
      · simp only [if_neg he]; exact ih _ _

/-- without a cap the only possible error is the model's own `fuel` -/
theorem depth_err_uncapped (net : Net W) (f : Nat) :
    ∀ vis i d, (depth net 0 f vis i d).err = .ok ∨ (depth net 0 f vis i d).err = .fuel := by
  induction f with
  | zero => intro vis i d; right; rfl
  | succ f ih =>
    intro vis i d
    unfold depth
    rw [overCap_nonpos (Int.le_refl 0)]
    simp only [Bool.false_eq_true, ↓reduceIte]
    split
    · left; rfl
    · split
      · left; rfl
      · exact loop_err_uncapped (fun v j => ih v j (d + 1)) _ _ _

/-- relation between an uncapped call `u` and the capped call `c` on the same marks -/
def CapRel (cap : Int) (v : List Bool) (u c : DRes) : Prop :=
  u.err = .ok ∧ u.vis = v ∧ ((u.d : Int) ≤ cap → c = u) ∧ (cap < (u.d : Int) → c = ⟨cap.toNat, .exceeded, v⟩)

theorem loop_cap {callU callC : List Bool → Nat → DRes} {v : List Bool} {cap : Int}
    (hrel : ∀ j, marked v j = false → CapRel cap v (callU v j) (callC v j))
    (ls : List Nat) (mx : Nat) (hmx : (mx : Int) ≤ cap) :
    CapRel cap v (loop callU ls mx v) (loop callC ls mx v) ∧ mx ≤ (loop callU ls mx v).d := by
  induction ls generalizing mx with
  | nil =>
    refine ⟨⟨rfl, rfl, fun _ => rfl, fun h => ?_⟩, Nat.le_refl _⟩
    simp only [loop] at h; omega
  | cons l ls ih =>
    unfold loop
    by_cases hm : marked v l = true
    · simp only [hm, ↓reduceIte]; exact ih mx hmx
    · have hm' : marked v l = false := by simpa using hm
      simp only [hm', Bool.false_eq_true, ↓reduceIte]
      obtain ⟨hue, huv, hle, hgt⟩ := hrel l hm'
      have hne : ¬ (callU v l).err ≠ .ok := by simp [hue]
      simp only [if_neg hne, huv]
      by_cases hc : ((callU v l).d : Int) ≤ cap
      · -- the capped call agrees with the uncapped one
        have hcu := hle hc
        rw [hcu]
        simp only [if_neg hne, huv]
        by_cases hgt' : (callU v l).d > mx
        · simp only [if_pos hgt']
          have := ih (callU v l).d hc
          exact ⟨this.1, by omega⟩
        · simp only [if_neg hgt']
          exact ih mx hmx
      · -- the capped call raises the error; the uncapped loop ends above the cap
        have hcc := hgt (by omega)
        rw [hcc]
        simp only [ne_eq, reduceCtorEq, not_false_eq_true, ↓reduceIte]
        have hgt' : (callU v l).d > mx := by omega
        simp only [if_pos hgt']
        have hU : ∀ m : Nat,
            (loop callU ls m v).err = .ok ∧ (loop callU ls m v).vis = v ∧ m ≤ (loop callU ls m v).d := by
          intro m
          clear ih hgt' hcc hc hne hgt hle huv hue hm hm' hmx
          induction ls generalizing m with
          | nil => exact ⟨rfl, rfl, Nat.le_refl _⟩
          | cons l' ls' ih' =>
            unfold loop
            by_cases hm2 : marked v l' = true
            · simp only [hm2, ↓reduceIte]; exact ih' m
            · have hm2' : marked v l' = false := by simpa using hm2
              simp only [hm2', Bool.false_eq_true, ↓reduceIte]
              obtain ⟨hue2, huv2, _, _⟩ := hrel l' hm2'
              have hne2 : ¬ (callU v l').err ≠ .ok := by simp [hue2]
              simp only [if_neg hne2, huv2]
              by_cases hg : (callU v l').d > m
              · simp only [if_pos hg]
                have := ih' (callU v l').d
                exact ⟨this.1, this.2.1, by omega⟩
              · simp only [if_neg hg]; exact ih' m
        obtain ⟨h1, h2, h3⟩ := hU (callU v l).d
        exact ⟨⟨h1, h2, fun h => by omega, fun _ => rfl⟩, by omega⟩

theorem depth_cap (net : Net W) {cap : Int} (hcap : 0 < cap) (f : Nat) :
    ∀ vis i d, marked vis i = false → vis.length = net.nodes.length → unmarked vis < f →
      CapRel cap vis (depth net 0 f vis i d) (depth net cap f vis i d) := by
  induction f with
  | zero => intro vis i d _ _ h; omega
  | succ f ih =>
    intro vis i d hm hl hf
    have hok := depth_ok net 0 (f + 1) vis i d hm hl hf
    have hvis := depth_vis net 0 (f + 1) vis i d hm
    have herr : (depth net 0 (f + 1) vis i d).err = .ok := by
      rcases depth_err_uncapped net (f + 1) vis i d with h | h
      · exact h
      · exact absurd h hok.1
    have hd := (hok.2 herr).1
    refine ⟨herr, hvis, ?_, ?_⟩
    · intro hle
      have hdc : ¬ ((d : Int) > cap) := by omega
      revert hle
      unfold depth
      rw [overCap_nonpos (Int.le_refl 0), overCap_pos hcap, decide_eq_false hdc]
      simp only [Bool.false_eq_true, ↓reduceIte]
      split
      · intro _; rfl
      · rename_i nd hnd
        split
        · intro _; rfl
        · dsimp only
          intro hle
          have hi : i < vis.length := by
            have := (List.getElem?_eq_some_iff.mp hnd).1
            omega
          have hu := unmarked_set hm hi
          have hrel : ∀ j, marked (vis.set i true) j = false →
              CapRel cap (vis.set i true) ((fun v j => depth net 0 f v j (d + 1)) (vis.set i true) j)
                ((fun v j => depth net cap f v j (d + 1)) (vis.set i true) j) :=
            fun j hj => ih (vis.set i true) j (d + 1) hj (by simp [hl]) (by omega)
          have := (loop_cap (callU := fun v j => depth net 0 f v j (d + 1)) (callC := fun v j => depth net cap f v j (d + 1)) (v := vis.set i true) (cap := cap) hrel (nd.incoming.map (·.src)) d (by omega)).1
          rw [this.2.2.1 hle]
    · intro hgt
      by_cases hdc : (d : Int) > cap
      · unfold depth
        rw [overCap_pos hcap, decide_eq_true hdc]
        simp
      · revert hgt
        unfold depth
        rw [overCap_nonpos (Int.le_refl 0), overCap_pos hcap, decide_eq_false hdc]
        simp only [Bool.false_eq_true, ↓reduceIte]
        split
        · intro h; simp only at h; omega
        · rename_i nd hnd
          split
          · intro h; simp only at h; omega
          · dsimp only
            intro hgt
            have hi : i < vis.length := by
              have := (List.getElem?_eq_some_iff.mp hnd).1
              omega
            have hu := unmarked_set hm hi
            have hrel : ∀ j, marked (vis.set i true) j = false →
                CapRel cap (vis.set i true) ((fun v j => depth net 0 f v j (d + 1)) (vis.set i true) j)
                  ((fun v j => depth net cap f v j (d + 1)) (vis.set i true) j) :=
              fun j hj => ih (vis.set i true) j (d + 1) hj (by simp [hl]) (by omega)
            have := (loop_cap (callU := fun v j => depth net 0 f v j (d + 1)) (callC := fun v j => depth net cap f v j (d + 1)) (v := vis.set i true) (cap := cap) hrel (nd.incoming.map (·.src)) d (by omega)).1
            rw [this.2.2.2 hgt]
            simp [set_true_false hm]

/-! ### the loop over the outputs is the same loop -/

theorem outLoop_eq_loop (net : Net W) (cap : Int) (os : List Nat) (mx : Nat) (vis : List Bool)
    (ho : ∀ o ∈ os, marked vis o = false) :
    outLoop net cap os mx vis = loop (fun v j => depth net cap (fuelOf net) v j 0) os mx vis := by
  induction os generalizing mx with
  | nil => rfl
  | cons o os ih =>
    unfold outLoop loop
    have hmo := ho o (by simp)
    have hv := depth_vis net cap (fuelOf net) vis o 0 hmo
    simp only [hmo, Bool.false_eq_true, ↓reduceIte, hv]
    have ho' : ∀ o' ∈ os, marked vis o' = false := fun o' h' => ho o' (by simp [h'])
    by_cases he : (depth net cap (fuelOf net) vis o 0).err ≠ .ok
    · simp only [if_pos he]
    · simp only [if_neg he]
      exact ih _ ho'

/-! ### E. longest path -/

theorem mem_preds {net : Net W} {i w : Nat} (h : w ∈ preds net i) :
    ∃ nd, net.nodes[i]? = some nd ∧ nd.isSensor = false ∧ w ∈ nd.incoming.map (·.src) := by
  unfold preds at h
  split at h
  · simp at h
  · rename_i nd hnd
    by_cases hs : nd.isSensor = true
    · simp [hs] at h
    · have hs' : nd.isSensor = false := by simpa using hs
      rw [if_neg hs] at h
      exact ⟨nd, hnd, hs', h⟩

/-- a normal loop result is the start value or the result of one of the calls -/
theorem loop_attained {call : List Bool → Nat → DRes} (ls : List Nat) (mx : Nat) (v : List Bool)
    (h : (loop call ls mx v).err = .ok) :
    (loop call ls mx v).d = mx ∨ ∃ j ∈ ls, ∃ v', (call v' j).err = .ok ∧ (call v' j).d = (loop call ls mx v).d := by
  induction ls generalizing mx v with
  | nil => left; rfl
  | cons l ls ih =>
    unfold loop at h ⊢
    by_cases hm : marked v l = true
    · simp only [hm, ↓reduceIte] at h ⊢
      rcases ih mx v h with h1 | ⟨j, hj, v', h2⟩
      · left; exact h1
      · right; exact ⟨j, by simp [hj], v', h2⟩
    · have hm' : marked v l = false := by simpa using hm
      simp only [hm', Bool.false_eq_true, ↓reduceIte] at h ⊢
      by_cases he : (call v l).err ≠ .ok
      · simp only [if_pos he] at h; exact absurd h he
      · simp only [if_neg he] at h ⊢
        have he' : (call v l).err = .ok := by simpa using he
        by_cases hgt : (call v l).d > mx
        · simp only [if_pos hgt] at h ⊢
          rcases ih _ _ h with h1 | ⟨j, hj, v', h2⟩
          · right; exact ⟨l, by simp, v, he', h1.symm⟩
          · right; exact ⟨j, by simp [hj], v', h2⟩
        · simp only [if_neg hgt] at h ⊢
          rcases ih _ _ h with h1 | ⟨j, hj, v', h2⟩
          · left; exact h1
          · right; exact ⟨j, by simp [hj], v', h2⟩

/-- ANY graph, any cap, any marks: a depth returned without error is `d` plus the length of a real path into `i` -/
theorem depth_attained (net : Net W) (cap : Int) (f : Nat) :
    ∀ vis i d, (depth net cap f vis i d).err = .ok →
      ∃ u k, Path net u i k ∧ (depth net cap f vis i d).d = d + k := by
  induction f with
  | zero => intro vis i d h; simp [depth] at h
  | succ f ih =>
    intro vis i d
    unfold depth
    split
    · intro h; simp at h
    · split
      · intro _; exact ⟨i, 0, Path.nil i, rfl⟩
      · rename_i nd hnd
        split
        · intro _; exact ⟨i, 0, Path.nil i, rfl⟩
        · rename_i hs
          dsimp only
          intro h
          rcases loop_attained _ _ _ h with h1 | ⟨j, hj, v', h2, h3⟩
          · exact ⟨i, 0, Path.nil i, h1⟩
          · obtain ⟨u, k, hp, hk⟩ := ih v' j (d + 1) h2
            refine ⟨u, k + 1, Path.snoc hp ?_, by omega⟩
            unfold preds
            simp only [hnd]
            rw [if_neg hs]
            exact hj

/-- a loop whose calls all succeed, restore the marks and start on unmarked nodes dominates every call -/
theorem loop_dominates {call : List Bool → Nat → DRes} {v : List Bool} (ls : List Nat) (mx : Nat)
    (hu : ∀ j ∈ ls, marked v j = false) (hc : ∀ j ∈ ls, (call v j).err = .ok ∧ (call v j).vis = v) :
    (loop call ls mx v).err = .ok ∧ mx ≤ (loop call ls mx v).d ∧ ∀ j ∈ ls, (call v j).d ≤ (loop call ls mx v).d := by
  induction ls generalizing mx with
  | nil => exact ⟨rfl, Nat.le_refl _, fun _ h => by simp at h⟩
  | cons l ls ih =>
    unfold loop
    have hm' := hu l (by simp)
    obtain ⟨he, hv⟩ := hc l (by simp)
    have hne : ¬ (call v l).err ≠ .ok := by simp [he]
    simp only [hm', Bool.false_eq_true, ↓reduceIte, if_neg hne, hv]
    have hu' : ∀ j ∈ ls, marked v j = false := fun j h => hu j (by simp [h])
    have hc' : ∀ j ∈ ls, (call v j).err = .ok ∧ (call v j).vis = v := fun j h => hc j (by simp [h])
    by_cases hgt : (call v l).d > mx
    · simp only [if_pos hgt]
      obtain ⟨h1, h2, h3⟩ := ih (call v l).d hu' hc'
      refine ⟨h1, by omega, fun j hj => ?_⟩
      rcases List.mem_cons.mp hj with rfl | hj
      · exact h2
      · exact h3 j hj
    · simp only [if_neg hgt]
      obtain ⟨h1, h2, h3⟩ := ih mx hu' hc'
      refine ⟨h1, h2, fun j hj => ?_⟩
      rcases List.mem_cons.mp hj with rfl | hj
      · omega
      · exact h3 j hj

/-- `lvl` increases along every followed link (Prop form of `Ranked`) -/
def RankedP (net : Net W) (lvl : Nat → Nat) : Prop := ∀ i w, w ∈ preds net i → lvl w < lvl i

theorem rankedP_of_ranked {net : Net W} {lvl : Nat → Nat} (h : Ranked net lvl = true) : RankedP net lvl := by
  intro i w hw
  obtain ⟨nd, hnd, _, _⟩ := mem_preds hw
  have hi : i < net.nodes.length := (List.getElem?_eq_some_iff.mp hnd).1
  unfold Ranked at h
  rw [List.all_eq_true] at h
  have := h i (List.mem_range.mpr hi)
  rw [List.all_eq_true] at this
  simpa using this w hw

theorem ranked_of_rankedP {net : Net W} {lvl : Nat → Nat} (h : RankedP net lvl) : Ranked net lvl = true := by
  unfold Ranked
  rw [List.all_eq_true]
  intro i _
  rw [List.all_eq_true]
  intro w hw
  simpa using h i w hw

/-- on a ranked graph the search never meets a mark: every node on the stack has a higher rank than the node
    being searched -/
def Above (lvl : Nat → Nat) (vis : List Bool) (i : Nat) : Prop := ∀ j, marked vis j = true → lvl i < lvl j

theorem above_unmarked {lvl : Nat → Nat} {vis : List Bool} {i : Nat} (h : Above lvl vis i) : marked vis i = false := by
  by_cases hm : marked vis i = true
  · exact absurd (h i hm) (Nat.lt_irrefl _)
  · simpa using hm

/-- ranked graph, no cap: the returned depth dominates `d +` the length of EVERY path into `i` -/
theorem depth_dominates (net : Net W) (lvl : Nat → Nat) (hr : RankedP net lvl) (f : Nat) :
    ∀ vis i d, Above lvl vis i → vis.length = net.nodes.length → unmarked vis < f →
      ∀ u k, Path net u i k → d + k ≤ (depth net 0 f vis i d).d := by
  induction f with
  | zero => intro vis i d _ _ h; omega
  | succ f ih =>
    intro vis i d ha hl hf u k hp
    have hm := above_unmarked ha
    have hok := depth_ok net 0 (f + 1) vis i d hm hl hf
    have herr : (depth net 0 (f + 1) vis i d).err = .ok := by
      rcases depth_err_uncapped net (f + 1) vis i d with h | h
      · exact h
      · exact absurd h hok.1
    cases hp with
    | nil => exact (hok.2 herr).1
    | snoc hp' hw =>
      rename_i w k'
      obtain ⟨nd, hnd, hs, hmem⟩ := mem_preds hw
      have hi : i < vis.length := by
        have := (List.getElem?_eq_some_iff.mp hnd).1
        omega
      have hu := unmarked_set hm hi
      have hpre : preds net i = nd.incoming.map (·.src) := by
        unfold preds; simp [hnd, hs]
      -- every source is unmarked and ranked below the whole stack
      have habove : ∀ j ∈ nd.incoming.map (·.src), Above lvl (vis.set i true) j := by
        intro j hj j' hj'
        have hlt := hr i j (hpre ▸ hj)
        rw [marked_set] at hj'
        by_cases hc : i = j' ∧ i < vis.length
        · rw [← hc.1]; exact hlt
        · rw [if_neg hc] at hj'
          exact Nat.lt_trans hlt (ha j' hj')
      have hcall : ∀ j ∈ nd.incoming.map (·.src),
          ((fun v j => depth net 0 f v j (d + 1)) (vis.set i true) j).err = .ok ∧
          ((fun v j => depth net 0 f v j (d + 1)) (vis.set i true) j).vis = vis.set i true := by
        intro j hj
        dsimp only
        have hmj := above_unmarked (habove j hj)
        have hokj := depth_ok net 0 f (vis.set i true) j (d + 1) hmj (by simp [hl]) (by omega)
        refine ⟨?_, depth_vis net 0 f _ j (d + 1) hmj⟩
        rcases depth_err_uncapped net f (vis.set i true) j (d + 1) with h | h
        · exact h
        · exact absurd h hokj.1
      have hdom := loop_dominates (call := fun v j => depth net 0 f v j (d + 1)) (v := vis.set i true)
        (nd.incoming.map (·.src)) d (fun j hj => above_unmarked (habove j hj)) hcall
      have hw' := hdom.2.2 w hmem
      have hih := ih (vis.set i true) w (d + 1) (habove w hmem) (by simp [hl]) (by omega) u k' hp'
      have hd : (depth net 0 (f + 1) vis i d).d =
          (loop (fun v j => depth net 0 f v j (d + 1)) (nd.incoming.map (·.src)) d (vis.set i true)).d := by
        conv => lhs; unfold depth
        rw [overCap_nonpos (Int.le_refl 0)]
        simp [hnd, hs]
      omega

/-! ### the declarative longest path `lp` -/

theorem foldl_max_ge (g : Nat → Nat) (l : List Nat) (m : Nat) :
    m ≤ l.foldl (fun m w => max m (g w)) m ∧ ∀ w ∈ l, g w ≤ l.foldl (fun m w => max m (g w)) m := by
  induction l generalizing m with
  | nil => simp
  | cons a l ih =>
    simp only [List.foldl_cons]
    obtain ⟨h1, h2⟩ := ih (max m (g a))
    refine ⟨by omega, fun w hw => ?_⟩
    rcases List.mem_cons.mp hw with rfl | hw
    · omega
    · exact h2 w hw

theorem foldl_max_attained (g : Nat → Nat) (l : List Nat) (m : Nat) :
    l.foldl (fun m w => max m (g w)) m = m ∨ ∃ w ∈ l, l.foldl (fun m w => max m (g w)) m = g w := by
  induction l generalizing m with
  | nil => left; rfl
  | cons a l ih =>
    simp only [List.foldl_cons]
    rcases ih (max m (g a)) with h | ⟨w, hw, h⟩
    · by_cases hc : g a ≤ m
      · left; rw [h]; omega
      · right; exact ⟨a, by simp, by rw [h]; omega⟩
    · right; exact ⟨w, by simp [hw], h⟩

theorem le_maxList (g : Nat → Nat) {l : List Nat} {w : Nat} (h : w ∈ l) : g w ≤ maxList g l :=
  (foldl_max_ge g l 0).2 w h

theorem maxList_attained (g : Nat → Nat) (l : List Nat) : maxList g l = 0 ∨ ∃ w ∈ l, maxList g l = g w :=
  foldl_max_attained g l 0

theorem maxList_le (g : Nat → Nat) (l : List Nat) (b : Nat) (h : ∀ w ∈ l, g w ≤ b) : maxList g l ≤ b := by
  rcases maxList_attained g l with h0 | ⟨w, hw, h1⟩
  · omega
  · rw [h1]; exact h w hw

/-- `lp` is the length of a real path, for every fuel and every graph -/
theorem lp_attained (net : Net W) (f : Nat) : ∀ v, ∃ u, Path net u v (lp net f v) := by
  induction f with
  | zero => intro v; exact ⟨v, Path.nil v⟩
  | succ f ih =>
    intro v
    unfold lp
    rcases maxList_attained (fun w => lp net f w + 1) (preds net v) with h | ⟨w, hw, h⟩
    · rw [h]; exact ⟨v, Path.nil v⟩
    · rw [h]
      obtain ⟨u, hp⟩ := ih w
      exact ⟨u, Path.snoc hp hw⟩

theorem lp_le_lvl {net : Net W} {lvl : Nat → Nat} (hr : RankedP net lvl) (f : Nat) : ∀ v, lp net f v ≤ lvl v := by
  induction f with
  | zero => intro v; simp [lp]
  | succ f ih =>
    intro v
    unfold lp
    apply maxList_le
    intro w hw
    have := hr v w hw
    have := ih w
    omega

/-- on a ranked graph `lp` with enough fuel dominates every path -/
theorem lp_ge {net : Net W} {lvl : Nat → Nat} (hr : RankedP net lvl) (f : Nat) :
    ∀ v u k, lvl v < f → Path net u v k → k ≤ lp net f v := by
  induction f with
  | zero => intro v u k h; omega
  | succ f ih =>
    intro v u k hf hp
    cases hp with
    | nil => omega
    | snoc hp' hw =>
      rename_i w k'
      have hlt := hr v w hw
      have := ih w u k' (by omega) hp'
      unfold lp
      have := le_maxList (fun w => lp net f w + 1) hw
      omega

/-- if `lp net F` itself is a ranking then it is the longest-path function -/
theorem lp_exact {net : Net W} {F : Nat} (hr : RankedP net (lp net F)) {u v k : Nat} (hp : Path net u v k) :
    k ≤ lp net F v := by
  have h1 := lp_ge hr (lp net F v + 1) v u k (by omega) hp
  have h2 := lp_le_lvl hr (lp net F v + 1) v
  omega

/-! ### Bool hypotheses -/

theorem outsUnmarked_iff {net : Net W} {vis : List Bool} :
    outsUnmarked net vis = true ↔ ∀ o ∈ net.outputs, marked vis o = false := by
  unfold outsUnmarked
  rw [List.all_eq_true]
  constructor
  · intro h o ho; simpa using h o ho
  · intro h o ho; simpa using h o ho

theorem marksFit_iff {net : Net W} {vis : List Bool} : marksFit net vis = true ↔ vis.length = net.nodes.length := by
  unfold marksFit; simp

theorem marked_clean (net : Net W) (j : Nat) : marked (clean net) j = false := by
  unfold marked clean
  rw [List.getD_eq_getElem?_getD, List.getElem?_map]
  cases net.nodes[j]? <;> rfl

theorem clean_fit (net : Net W) : marksFit net (clean net) = true := by simp [marksFit, clean]

theorem clean_outs (net : Net W) : outsUnmarked net (clean net) = true :=
  outsUnmarked_iff.mpr fun o _ => marked_clean net o

theorem clean_eq_replicate (net : Net W) : clean net = List.replicate net.nodes.length false := by
  unfold clean
  induction net.nodes with
  | nil => rfl
  | cons a l ih => simp [List.replicate_succ, ih]

/-- the cap relation for the loop over the outputs -/
theorem outLoop_cap (net : Net W) {cap : Int} (hcap : 0 < cap) (vis : List Bool)
    (hl : vis.length = net.nodes.length) (ho : ∀ o ∈ net.outputs, marked vis o = false) :
    CapRel cap vis (outLoop net 0 net.outputs 0 vis) (outLoop net cap net.outputs 0 vis) := by
  rw [outLoop_eq_loop net 0 _ _ _ ho, outLoop_eq_loop net cap _ _ _ ho]
  have hrel : ∀ j, marked vis j = false →
      CapRel cap vis ((fun v j => depth net 0 (fuelOf net) v j 0) vis j)
        ((fun v j => depth net cap (fuelOf net) v j 0) vis j) := by
    intro j hj
    have := unmarked_le vis
    exact depth_cap net hcap (fuelOf net) vis j 0 hj hl (by unfold fuelOf; omega)
  exact (loop_cap (callU := fun v j => depth net 0 (fuelOf net) v j 0)
    (callC := fun v j => depth net cap (fuelOf net) v j 0) (v := vis) (cap := cap) hrel net.outputs 0 (by omega)).1

theorem outLoop_nonpos_cap (net : Net W) {cap : Int} (h : cap ≤ 0) (os : List Nat) (mx : Nat) (vis : List Bool) :
    outLoop net cap os mx vis = outLoop net 0 os mx vis := by
  induction os generalizing mx vis with
  | nil => rfl
  | cons o os ih =>
    unfold outLoop
    rw [depth_nonpos_cap net h]
    simp only [ih]

/-! ### counting nodes by kind -/

theorem filter3_le {α} (p q r : α → Bool) (hex : ∀ a, (p a = true → q a = false ∧ r a = false) ∧ (q a = true → r a = false))
    (l : List α) : (l.filter p).length + (l.filter q).length + (l.filter r).length ≤ l.length := by
  induction l with
  | nil => simp
  | cons a l ih =>
    have := hex a
    simp only [List.filter_cons, List.length_cons]
    cases hp : p a <;> cases hq : q a <;> cases hr : r a <;> simp_all <;> omega

theorem kinds_exclusive (a : NNodeS W) :
    (a.isSensor = true → (a.kind == Kind.output) = false ∧ (a.kind == Kind.hidden) = false) ∧
    ((a.kind == Kind.output) = true → (a.kind == Kind.hidden) = false) := by
  unfold NNodeS.isSensor Kind.input Kind.bias Kind.output Kind.hidden
  simp only [Bool.or_eq_true, beq_iff_eq, beq_eq_false_iff_ne, ne_eq]
  refine ⟨fun h => ?_, fun h => ?_⟩
  · rcases h with h | h <;> rw [h] <;> decide
  · rw [h]; decide

theorem shortcut_false_of_hidden (net : Net W) (hh : hasHidden net = true) (hio : IOCounts net = true) :
    noHiddenShortcut net = false := by
  unfold IOCounts at hio
  simp only [Bool.and_eq_true, beq_iff_eq] at hio
  unfold noHiddenShortcut
  rw [hio.1, hio.2]
  have h3 := filter3_le (fun nd : NNodeS W => nd.isSensor) (fun nd => nd.kind == Kind.output)
    (fun nd => nd.kind == Kind.hidden) kinds_exclusive net.nodes
  unfold hasHidden at hh
  obtain ⟨x, hx, hp⟩ := List.any_eq_true.mp hh
  have hpos : 0 < (net.nodes.filter fun nd => nd.kind == Kind.hidden).length :=
    List.length_pos_of_mem (List.mem_filter.mpr ⟨hx, hp⟩)
  simp only [beq_eq_false_iff_ne, ne_eq]
  omega

end GoNeat.Depth
